// intentionally empty (see Cargo.toml)
