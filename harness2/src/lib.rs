//! harness2: translator harness for property C16 (constants dump).
