//! C12 harness: subgroup membership tests and cofactor clearing of every SW / TE curve configuration of
//! the curve crates and of `ark-test-curves`, on points of the WHOLE curve.
//!
//! Line protocol (numbers lower-case hex; field elements = comma separated base-prime-field coordinates;
//! points `x:y`, SW identity `inf`, TE identity `0:1`):
//!
//!   C12 cfg <id> <sw|te> <tower> <p> <a> <b|d> <N> <r> <cofactor limbs> <cofactor_inv> <test> <clear> <h_eff> [k=v …] => <cofactor_is_one>
//!   C12 insub  <id> <P> <ref>      => <0|1>      P::is_in_correct_subgroup_assuming_on_curve ; ref = [P.mul_bigint(r).is_zero()]
//!   C12 clear  <id> <P> <ref>      => <point>    P.clear_cofactor()                          ; ref = P.mul_bigint(h_eff)
//!   C12 cofinv <id> <P>            => <point>    P.mul_by_cofactor().mul_by_cofactor_inv()    (P in the subgroup)
//!   C12 mulcof <id> <P>            => <point>    P.mul_by_cofactor()
//!   C12 rand   <id> <aff|proj> <P0> => <point>   Affine::rand / Projective::rand ; P0 = the candidate point the
//!                                                sampler finds with this RNG state (replayed on a clone of the RNG)
//!
//! tower = fp | fp2:<nonresidue> | fp3:<nonresidue>;  <test>, <clear> name the override of the configuration
//! (`def` = trait default), the `k=v` tokens carry the PUBLIC constants the override reads.
//! `h_eff` = the integer by which `clear_cofactor` is documented to multiply (COFACTOR for the default).
//!
//! Inputs per configuration: points of the whole curve from small / largest / random coordinates
//! (`get_point_from_x_unchecked`, `get_point_from_y_unchecked`), small-order points (`r·W`, points of prime
//! order ℓ | h, `G + T`), subgroup points (O, G, random multiples), and `rand` samples.  The number of lines
//! per configuration is budgeted by the cost of the driver's reference arithmetic (the 753/782-bit curves get
//! the minimal plan W, r·W, G in the quick tier).  Five toy curves with cofactor 4, 6, 8 over F_101 … F_127
//! (ids `toy.*`) are enumerated exhaustively: every point of the curve, the whole subgroup.
//! Command line: `c12 [quick|thorough] [seed] [substring of the ids to run]`.
#![allow(clippy::type_complexity)]

use ark_ec::{
    models::{
        bls12::Bls12Config,
        short_weierstrass::{Affine as SWAffine, SWCurveConfig},
        twisted_edwards::{Affine as TEAffine, TECurveConfig},
        CurveConfig,
    },
    scalar_mul::glv::GLVConfig,
    AffineRepr, CurveGroup,
};
use ark_ff::{
    fields::{fp2::Fp2Config, fp3::Fp3Config},
    BigInteger, Field, PrimeField, UniformRand, Zero,
};
use ark_std::rand::{Rng as _, RngCore};
use num_bigint::BigUint;
use std::io::Write;
use std::marker::PhantomData;

// ------------------------------------------------------------------------------------------------
// helpers
// ------------------------------------------------------------------------------------------------
#[derive(Clone)]
struct Sm(u64);
impl Sm {
    fn new(seed: u64) -> Self {
        Sm(seed ^ 0x9E37_79B9_7F4A_7C15)
    }
    fn next(&mut self) -> u64 {
        self.0 = self.0.wrapping_add(0x9E37_79B9_7F4A_7C15);
        let mut z = self.0;
        z = (z ^ (z >> 30)).wrapping_mul(0xBF58_476D_1CE4_E5B9);
        z = (z ^ (z >> 27)).wrapping_mul(0x94D0_49BB_1331_11EB);
        z ^ (z >> 31)
    }
}
impl RngCore for Sm {
    fn next_u32(&mut self) -> u32 {
        (self.next() >> 32) as u32
    }
    fn next_u64(&mut self) -> u64 {
        self.next()
    }
    fn fill_bytes(&mut self, dest: &mut [u8]) {
        for ch in dest.chunks_mut(8) {
            let v = self.next().to_le_bytes();
            ch.copy_from_slice(&v[..ch.len()]);
        }
    }
    fn try_fill_bytes(&mut self, dest: &mut [u8]) -> Result<(), ark_std::rand::Error> {
        self.fill_bytes(dest);
        Ok(())
    }
}

struct Out {
    w: std::io::BufWriter<std::io::Stdout>,
}
impl Out {
    fn line(&mut self, input: &str, result: &str) {
        writeln!(self.w, "{} => {}", input, result).unwrap();
    }
}
/// projective → affine; `None` when the conversion panics (twisted Edwards curves with an incomplete
/// addition law reach `Z = 0`)
fn aff<A: AffineRepr>(g: A::Group) -> Option<A> {
    std::panic::catch_unwind(std::panic::AssertUnwindSafe(|| g.into())).ok()
}
fn guarded<F: FnOnce() -> String>(f: F) -> String {
    match std::panic::catch_unwind(std::panic::AssertUnwindSafe(f)) {
        Ok(s) => s,
        Err(_) => "panic".into(),
    }
}

fn hex_limbs(l: &[u64]) -> String {
    let mut s = String::new();
    let mut started = false;
    for x in l.iter().rev() {
        if started {
            s.push_str(&format!("{:016x}", x));
        } else if *x != 0 {
            s.push_str(&format!("{:x}", x));
            started = true;
        }
    }
    if !started {
        s.push('0');
    }
    s
}
fn limb_list(l: &[u64]) -> String {
    if l.is_empty() {
        return "_".into();
    }
    l.iter().map(|x| format!("{:x}", x)).collect::<Vec<_>>().join(",")
}
fn big<B: BigInteger>(b: &B) -> String {
    hex_limbs(b.as_ref())
}
fn fe<F: PrimeField>(x: &F) -> String {
    big(&x.into_bigint())
}
fn el<F: Field>(x: &F) -> String {
    x.to_base_prime_field_elements().map(|c| fe(&c)).collect::<Vec<_>>().join(",")
}
fn biguint(l: &[u64]) -> BigUint {
    let mut b = BigUint::from(0u32);
    for x in l.iter().rev() {
        b = (b << 64) + BigUint::from(*x);
    }
    b
}
fn limbs_of(b: &BigUint) -> Vec<u64> {
    let v = b.to_u64_digits();
    if v.is_empty() {
        vec![0]
    } else {
        v
    }
}
fn limbs_from_hex(h: &str) -> Vec<u64> {
    limbs_of(&BigUint::parse_bytes(h.as_bytes(), 16).unwrap())
}

fn tw_fp2<P: Fp2Config>() -> String {
    format!("fp2:{}", fe(&P::NONRESIDUE))
}
fn tw_fp3<P: Fp3Config>() -> String {
    format!("fp3:{}", fe(&P::NONRESIDUE))
}

/// `N:r:λ:β:n11:n12:n21:n22` (signed), the C04 syntax
fn glv_str<P: GLVConfig>() -> String {
    let sg = |(pos, v): (bool, <P::ScalarField as PrimeField>::BigInt)| {
        if pos || v.is_zero() {
            big(&v)
        } else {
            format!("-{}", big(&v))
        }
    };
    let c = P::SCALAR_DECOMP_COEFFS;
    format!(
        "{:x}:{}:{}:{}:{}:{}:{}:{}",
        <P::ScalarField as PrimeField>::BigInt::NUM_LIMBS,
        big(&P::ScalarField::MODULUS),
        fe(&P::LAMBDA),
        el(&P::ENDO_COEFFS[0]),
        sg(c[0]),
        sg(c[1]),
        sg(c[2]),
        sg(c[3])
    )
}

// ------------------------------------------------------------------------------------------------
// the two curve models behind one interface
// ------------------------------------------------------------------------------------------------
trait Cv {
    type A: AffineRepr;
    const KIND: &'static str;
    fn coeffs() -> (<Self::A as AffineRepr>::BaseField, <Self::A as AffineRepr>::BaseField);
    /// SW: `get_point_from_x_unchecked(c, greatest)`, TE: `get_point_from_y_unchecked(c, greatest)`
    fn from_coord(c: <Self::A as AffineRepr>::BaseField, greatest: bool) -> Option<Self::A>;
    fn insub(a: &Self::A) -> bool;
    fn on_curve(a: &Self::A) -> bool;
    fn show(a: &Self::A) -> String;
    /// extra deterministic points (TE: the point of order two `(0, -1)`)
    fn extra() -> Vec<Self::A>;
}
struct SW<P>(PhantomData<P>);
struct TE<P>(PhantomData<P>);

impl<P: SWCurveConfig> Cv for SW<P> {
    type A = SWAffine<P>;
    const KIND: &'static str = "sw";
    fn coeffs() -> (P::BaseField, P::BaseField) {
        (P::COEFF_A, P::COEFF_B)
    }
    fn from_coord(c: P::BaseField, greatest: bool) -> Option<Self::A> {
        SWAffine::<P>::get_point_from_x_unchecked(c, greatest)
    }
    fn insub(a: &Self::A) -> bool {
        a.is_in_correct_subgroup_assuming_on_curve()
    }
    fn on_curve(a: &Self::A) -> bool {
        a.is_on_curve()
    }
    fn show(a: &Self::A) -> String {
        match a.xy() {
            None => "inf".into(),
            Some((x, y)) => format!("{}:{}", el(&x), el(&y)),
        }
    }
    fn extra() -> Vec<Self::A> {
        vec![]
    }
}
impl<P: TECurveConfig> Cv for TE<P> {
    type A = TEAffine<P>;
    const KIND: &'static str = "te";
    fn coeffs() -> (P::BaseField, P::BaseField) {
        (P::COEFF_A, P::COEFF_D)
    }
    fn from_coord(c: P::BaseField, greatest: bool) -> Option<Self::A> {
        TEAffine::<P>::get_point_from_y_unchecked(c, greatest)
    }
    fn insub(a: &Self::A) -> bool {
        a.is_in_correct_subgroup_assuming_on_curve()
    }
    fn on_curve(a: &Self::A) -> bool {
        a.is_on_curve()
    }
    fn show(a: &Self::A) -> String {
        format!("{}:{}", el(&a.x), el(&a.y))
    }
    fn extra() -> Vec<Self::A> {
        use ark_ff::One;
        vec![TEAffine::<P>::new_unchecked(P::BaseField::zero(), -P::BaseField::one())]
    }
}

struct Ctx {
    out: Out,
    thorough: bool,
    seed: u64,
    only: Option<String>,
}

type BF<C> = <<C as Cv>::A as AffineRepr>::BaseField;
type SF<C> = <<C as Cv>::A as AffineRepr>::ScalarField;
type Cfg<C> = <<C as Cv>::A as AffineRepr>::Config;

/// small field element number `k`: prime field `k`; degree `d` extension: the base-3 digits of `k`
fn small_elem<F: Field>(k: u64) -> F {
    let d = F::extension_degree() as usize;
    if d == 1 {
        return F::from(k);
    }
    let mut k = k;
    let mut cs = Vec::new();
    for _ in 0..d {
        cs.push(F::BasePrimeField::from(k % 3));
        k /= 3;
    }
    F::from_base_prime_field_elems(cs).unwrap()
}

fn run<C: Cv>(ctx: &mut Ctx, id: &str, tower: &str, test: &str, clear: &str, heff: Option<Vec<u64>>, extra: &str)
where
    SF<C>: PrimeField,
{
    if let Some(o) = &ctx.only {
        if !id.contains(o.as_str()) {
            return;
        }
    }
    type Bpf<C> = <BF<C> as Field>::BasePrimeField;
    let cof: &'static [u64] = <Cfg<C> as CurveConfig>::COFACTOR;
    let heff: Vec<u64> = heff.unwrap_or_else(|| cof.to_vec());
    let r = SF::<C>::MODULUS;
    let rl: Vec<u64> = r.as_ref().to_vec();
    let (ca, cb) = C::coeffs();
    let deg = BF::<C>::extension_degree() as usize;
    let fbits = Bpf::<C>::MODULUS_BIT_SIZE as f64;
    let hbits = biguint(&heff).bits().max(biguint(cof).bits()) as f64;
    let rbits = SF::<C>::MODULUS_BIT_SIZE as f64;

    // ---- header
    let head = format!(
        "C12 cfg {} {} {} {} {} {} {:x} {} {} {} {} {} {}{}{}",
        id,
        C::KIND,
        tower,
        big(&Bpf::<C>::MODULUS),
        el(&ca),
        el(&cb),
        <SF<C> as PrimeField>::BigInt::NUM_LIMBS,
        big(&r),
        limb_list(cof),
        fe(&<Cfg<C> as CurveConfig>::COFACTOR_INV),
        test,
        clear,
        hex_limbs(&heff),
        if extra.is_empty() { "" } else { " " },
        extra
    );
    let cio = guarded(|| if <Cfg<C> as CurveConfig>::cofactor_is_one() { "1".into() } else { "0".into() });
    ctx.out.line(&head, &cio);

    // ---- how many lines: the driver recomputes every reference scalar multiplication in the affine group
    // (one field inversion per group operation).  `weight` ≈ size of one such multiplication relative to a
    // 256-bit curve over a prime field; measured driver time per line ≈ 20 ms · weight.
    let dcost = [1.0, 1.0, 1.4, 1.8][deg.min(3)] * if C::KIND == "te" { 1.5 } else { 1.0 };
    let weight = dcost * (fbits / 256.0).powi(2) * ((rbits + hbits) / 512.0);
    let t_line = 20.0 * weight;
    let lines = if ctx.thorough {
        (12000.0 / t_line).clamp(30.0, 300.0) as usize
    } else {
        (1000.0 / t_line).clamp(6.0, 24.0) as usize
    };
    // minimal plan (the 753/782-bit curves over Fp3 in the quick tier): one whole-curve point W, r·W, G
    let exhaustive = id.starts_with("toy");
    let minimal = lines <= 8 && !exhaustive;
    let (n_w, n_s, n_g) = if minimal {
        (1, 1, 1)
    } else {
        let pts = (lines - 2) * 10 / 23;
        ((pts * 45 / 100).max(2), (pts * 25 / 100).max(1), (pts * 30 / 100).max(2))
    };
    let n_samples = if minimal { 1 } else if exhaustive { 16 } else if ctx.thorough { 2 * (lines / 20).max(2) } else { 2 };

    let mut rng = Sm::new(ctx.seed ^ id.bytes().fold(0u64, |a, b| a.wrapping_mul(131).wrapping_add(b as u64)));

    // ---- points of the whole curve: small coordinates 0, 1, 2, … / largest coordinates p-1, … / random
    let n_neg = if n_w >= 4 { (n_w / 5).max(1) } else { 0 };
    let n_rand = if n_w >= 2 { ((n_w - n_neg) / 2).max(1) } else { 0 };
    let n_small = n_w - n_neg - n_rand;
    let mut whole: Vec<C::A> = Vec::new();
    if exhaustive {
        // every point of the curve: all coordinates × both roots
        let pm: u64 = Bpf::<C>::MODULUS.as_ref()[0];
        for k in 0..pm {
            for g in [false, true] {
                if let Some(p) = C::from_coord(small_elem::<BF<C>>(k), g) {
                    whole.push(p);
                }
            }
        }
    } else {
        let mut k = 0u64;
        let mut hits = 0usize;
        while hits < n_small && k < 4000 {
            if let Some(p) = C::from_coord(small_elem::<BF<C>>(k), hits % 2 == 1) {
                whole.push(p);
                hits += 1;
            }
            k += 1;
        }
        let mut k = 1u64;
        let mut hits = 0usize;
        while hits < n_neg && k < 4000 {
            if let Some(p) = C::from_coord(-small_elem::<BF<C>>(k), hits % 2 == 0) {
                whole.push(p);
                hits += 1;
            }
            k += 1;
        }
        let mut hits = 0usize;
        while hits < n_rand {
            let c = BF::<C>::rand(&mut rng);
            let g = rng.next() & 1 == 1;
            if let Some(p) = C::from_coord(c, g) {
                whole.push(p);
                hits += 1;
            }
        }
    }
    // ---- small-order points, in order of priority: r·W; a point T of order ℓ for the small primes ℓ | h;
    //      G + T (a point outside the subgroup with a subgroup component); points of order ℓ²
    let h = biguint(cof);
    let mut small: Vec<C::A> = Vec::new();
    let mut second: Vec<C::A> = Vec::new();
    if h > BigUint::from(1u32) && !exhaustive {
        let zero = BigUint::from(0u32);
        let primes: &[u32] = if ctx.thorough { &[2, 3, 5, 7, 11, 13] } else { &[2, 3] };
        for (i, p) in whole.iter().enumerate() {
            if small.len() >= n_s {
                break;
            }
            let q: C::A = match aff::<C::A>(p.mul_bigint(&rl)) {
                Some(q) => q,
                None => continue,
            };
            small.push(q);
            if i >= 1 && !ctx.thorough {
                continue;
            }
            for l in primes.iter().copied() {
                let lb = BigUint::from(l);
                if (&h % &lb) != zero {
                    continue;
                }
                let mut hh = h.clone();
                let mut v = 0;
                while (&hh % &lb) == zero {
                    hh /= &lb;
                    v += 1;
                }
                let mut t: C::A = match aff::<C::A>(q.mul_bigint(limbs_of(&hh))) {
                    Some(t) => t,
                    None => continue,
                };
                if t.is_zero() {
                    continue;
                }
                for _ in 0..v {
                    let t2: C::A = match aff::<C::A>(t.mul_bigint([l as u64])) {
                        Some(t2) => t2,
                        None => break,
                    };
                    if t2.is_zero() {
                        break;
                    }
                    if i == 0 {
                        second.push(t); // order ℓ^k, k ≥ 2
                    }
                    t = t2;
                }
                small.push(t);
                if let Some(g) = aff::<C::A>(C::A::generator() + t) {
                    if l == 2 || ctx.thorough {
                        small.push(g);
                    } else {
                        second.push(g);
                    }
                }
            }
        }
        small.extend(C::extra());
        small.extend(second);
        small.truncate(n_s.max(if minimal { 1 } else { 3 }));
    }
    // ---- subgroup points: O, G, random multiples of G (thorough: -G, 2G, (r-1)/2·G)
    let g = C::A::generator();
    let mut sub: Vec<C::A> = vec![g];
    if exhaustive {
        // the whole subgroup
        let mut acc = g.into_group();
        for _ in 0..rl[0] {
            sub.push(acc.into_affine());
            acc += g;
        }
    }
    for _ in 0..n_g.saturating_sub(1) {
        let k = SF::<C>::rand(&mut rng);
        sub.push(g.mul_bigint(k.into_bigint()).into());
    }
    if !minimal {
        sub.push(C::A::zero());
    }
    if ctx.thorough {
        sub.push(-g);
        sub.push((g + g).into());
        let mut half = r;
        half.div2();
        sub.push(g.mul_bigint(half).into());
    }

    // (point, is a subgroup point, run `clear` on it)
    let mut seen = std::collections::HashSet::new();
    let subs: Vec<(C::A, bool, bool)> = sub.iter().map(|p| (*p, true, !minimal)).collect();
    let (first, last) = if exhaustive { (subs, vec![]) } else { (vec![], subs) };
    let all: Vec<(C::A, bool, bool)> = first
        .into_iter()
        .chain(whole.iter().enumerate().map(|(i, p)| (*p, false, !minimal || i == 0)))
        .chain(small.iter().map(|p| (*p, false, !minimal || lines >= 8)))
        .chain(last.into_iter())
        .filter(|(p, _, _)| seen.insert(C::show(p)))
        .collect();

    for (p, is_sub, do_clear) in all.iter() {
        if !C::on_curve(p) {
            // generator bug: never feed off-curve points
            eprintln!("c12: off-curve input for {}", id);
            continue;
        }
        let ps = C::show(p);
        // insub
        let href = guarded(|| if p.mul_bigint(&rl).is_zero() { "1".into() } else { "0".into() });
        let res = guarded(|| if C::insub(p) { "1".into() } else { "0".into() });
        ctx.out.line(&format!("C12 insub {} {} {}", id, ps, href), &res);
        // clear
        if *do_clear {
            let href = guarded(|| {
                let q: C::A = p.mul_bigint(&heff).into();
                C::show(&q)
            });
            let res = guarded(|| C::show(&p.clear_cofactor()));
            ctx.out.line(&format!("C12 clear {} {} {}", id, ps, href), &res);
        }
        // mul_by_cofactor (thorough only: `rand` and the default `clear` go through it anyway)
        if ctx.thorough && clear != "def" {
            let res = guarded(|| C::show(&p.mul_by_cofactor()));
            ctx.out.line(&format!("C12 mulcof {} {}", id, ps), &res);
        }
        // cofactor / inverse round trip on the subgroup
        if *is_sub {
            let res = guarded(|| C::show(&p.mul_by_cofactor().mul_by_cofactor_inv()));
            ctx.out.line(&format!("C12 cofinv {} {}", id, ps), &res);
        }
    }

    // ---- random sampling
    for i in 0..n_samples {
        let proj = (i + if minimal { ctx.seed as usize } else { 0 }) % 2 == 1;
        let mut replay = rng.clone();
        let cand = loop {
            let c = BF::<C>::rand(&mut replay);
            let greatest: bool = replay.gen();
            if let Some(p) = C::from_coord(c, greatest) {
                break p;
            }
        };
        let res = guarded(|| {
            if proj {
                let s = <C::A as AffineRepr>::Group::rand(&mut rng);
                C::show(&s.into_affine())
            } else {
                C::show(&C::A::rand(&mut rng))
            }
        });
        ctx.out.line(
            &format!("C12 rand {} {} {}", id, if proj { "proj" } else { "aff" }, C::show(&cand)),
            &res,
        );
    }
}


// ------------------------------------------------------------------------------------------------
// toy curves with cofactor > 1 over tiny fields: every point of the curve is enumerated
// ------------------------------------------------------------------------------------------------
mod toy {
    use ark_ec::{
        models::CurveConfig,
        short_weierstrass::{Affine as SWAffine, SWCurveConfig},
        twisted_edwards::{Affine as TEAffine, MontCurveConfig, TECurveConfig},
    };
    use ark_ff::fields::{Fp64, MontBackend, MontConfig};
    use ark_ff::MontFp;

    macro_rules! field {
        ($cfg:ident, $ty:ident, $m:literal, $g:literal) => {
            #[derive(MontConfig)]
            #[modulus = $m]
            #[generator = $g]
            pub struct $cfg;
            pub type $ty = Fp64<MontBackend<$cfg, 1>>;
        };
    }
    field!(F101Cfg, F101, "101", "2");
    field!(F103Cfg, F103, "103", "5");
    field!(F113Cfg, F113, "113", "3");
    field!(F127Cfg, F127, "127", "3");
    field!(F17Cfg, F17, "17", "3");
    field!(F31Cfg, F31, "31", "3");

    macro_rules! sw_toy {
        ($name:ident, $fq:ty, $fr:ty, $h:literal, $hinv:literal, $a:literal, $b:literal, $gx:literal, $gy:literal) => {
            #[derive(Clone, Default, PartialEq, Eq)]
            pub struct $name;
            impl CurveConfig for $name {
                type BaseField = $fq;
                type ScalarField = $fr;
                const COFACTOR: &'static [u64] = &[$h];
                const COFACTOR_INV: $fr = MontFp!($hinv);
            }
            impl SWCurveConfig for $name {
                const COEFF_A: $fq = MontFp!($a);
                const COEFF_B: $fq = MontFp!($b);
                const GENERATOR: SWAffine<Self> = SWAffine::new_unchecked(MontFp!($gx), MontFp!($gy));
            }
        };
    }
    // y² = x³ + 3 over F_103: #E = 124 = 4·31, E ≅ Z2 × Z2 × Z31 (full 2-torsion)
    sw_toy!(Sw103, F103, F31, 4, "8", "0", "3", "72", "44");
    // y² = x³ + x + 2 over F_127: #E = 136 = 8·17, E ≅ Z2 × Z4 × Z17
    sw_toy!(Sw127, F127, F17, 8, "15", "1", "2", "60", "110");
    // y² = x³ + 1 over F_101: #E = 102 = 6·17, cyclic
    sw_toy!(Sw101, F101, F17, 6, "3", "0", "1", "75", "10");

    macro_rules! te_toy {
        ($name:ident, $fq:ty, $fr:ty, $h:literal, $hinv:literal, $a:literal, $d:literal, $gx:literal, $gy:literal, $ma:literal, $mb:literal) => {
            #[derive(Clone, Default, PartialEq, Eq)]
            pub struct $name;
            impl CurveConfig for $name {
                type BaseField = $fq;
                type ScalarField = $fr;
                const COFACTOR: &'static [u64] = &[$h];
                const COFACTOR_INV: $fr = MontFp!($hinv);
            }
            impl TECurveConfig for $name {
                const COEFF_A: $fq = MontFp!($a);
                const COEFF_D: $fq = MontFp!($d);
                const GENERATOR: TEAffine<Self> = TEAffine::new_unchecked(MontFp!($gx), MontFp!($gy));
                type MontCurveConfig = $name;
            }
            impl MontCurveConfig for $name {
                const COEFF_A: $fq = MontFp!($ma);
                const COEFF_B: $fq = MontFp!($mb);
                type TECurveConfig = $name;
            }
        };
    }
    // -x² + y² = 1 + 5x²y² over F_113: #E = 124 = 4·31 (a square, d non-square: complete)
    te_toy!(Te113, F113, F31, 4, "8", "112", "5", "96", "92", "74", "37");
    // 4x² + y² = 1 + 3x²y² over F_127: #E = 136 = 8·17
    te_toy!(Te127, F127, F17, 8, "15", "4", "3", "11", "95", "14", "4");
}

fn sw<P: SWCurveConfig>(ctx: &mut Ctx, id: &str, tower: &str) {
    run::<SW<P>>(ctx, id, tower, "def", "def", None, "");
}
fn te<P: TECurveConfig>(ctx: &mut Ctx, id: &str) {
    run::<TE<P>>(ctx, id, "fp", "def", "def", None, "");
}

fn bls_pub<B: Bls12Config>() -> String {
    format!(
        "x={} xneg={} frob={}",
        limb_list(B::X),
        if B::X_IS_NEGATIVE { 1 } else { 0 },
        <B::Fp2Config as Fp2Config>::FROBENIUS_COEFF_FP2_C1.iter().map(|c| fe(c)).collect::<Vec<_>>().join(",")
    )
}

// RFC 9380 §8.8.1 / §8.8.2
const BLS12_381_G1_H_EFF: &str = "d201000000010001";
const BLS12_381_G2_H_EFF: &str = "bc69f08f2ee75b3584c6a0ea91b352888e2a8e9145ad7689986ff031508ffe1329c2f178731db956d82bf015d1212b02ec0ec69d7477c1ae954cbc06689f6a359894c0adebbf6b4e8020005aaa95551";
// bls12_377: `x - 1` (comment of `g1::Config::clear_cofactor`), x = 0x8508c00000000001
const BLS12_377_G1_H_EFF: &str = "8508c00000000000";
// bls12_377 G2: the constant `h_eff` of `g2::test::test_cofactor_clearing` (= 3(x²-1)·h2, Budroni–Pintore)
const BLS12_377_G2_H_EFF: &[u64] = &[
    0x1e34800000000000,
    0xcf664765b0000003,
    0x8e8e73ad8a538800,
    0x78ba279637388559,
    0xb85860aaaad29276,
    0xf7ee7c4b03103b45,
    0x8f6ade35a5c7d769,
    0xa951764c46f4edd2,
    0x53648d3d9502abfb,
    0x1f60243677e306,
];

fn main() {
    if std::env::var("C12_DEBUG").is_err() {
        std::panic::set_hook(Box::new(|_| {}));
    }
    let a: Vec<String> = std::env::args().collect();
    let mut ctx = Ctx {
        out: Out { w: std::io::BufWriter::with_capacity(1 << 20, std::io::stdout()) },
        thorough: a.get(1).map(|s| s == "thorough").unwrap_or(false),
        seed: a.get(2).and_then(|s| s.parse().ok()).unwrap_or(0),
        only: a.get(3).cloned(),
    };
    let cx = &mut ctx;

    // ---------------- `CurveConfig::cofactor_is_one` on synthetic cofactors ----------------
    {
        use ark_ec::CurveConfig;
        macro_rules! cof {
            ($($l:expr),*) => {{
                struct K;
                impl CurveConfig for K {
                    type BaseField = ark_test_curves::bls12_381::Fq;
                    type ScalarField = ark_test_curves::bls12_381::Fr;
                    const COFACTOR: &'static [u64] = &[$($l),*];
                    const COFACTOR_INV: Self::ScalarField = <ark_test_curves::bls12_381::Fr as ark_ff::Field>::ONE;
                }
                let r = guarded(|| if K::cofactor_is_one() { "1".into() } else { "0".into() });
                cx.out.line(&format!("C12 cofone {}", limb_list(K::COFACTOR)), &r);
            }};
        }
        cof!(); cof!(0); cof!(1); cof!(2); cof!(1, 0); cof!(1, 0, 0, 0); cof!(0, 1); cof!(1, 5); cof!(1, 0, 7);
        cof!(1, 5, 0); cof!(1, 0, 0, 9); cof!(0, 0); cof!(u64::MAX); cof!(1, u64::MAX); cof!(2, 0); cof!(1, 1);
    }

    // ---------------- toy curves (exhaustive) ----------------
    sw::<toy::Sw103>(cx, "toy.sw103", "fp");
    sw::<toy::Sw127>(cx, "toy.sw127", "fp");
    sw::<toy::Sw101>(cx, "toy.sw101", "fp");
    te::<toy::Te113>(cx, "toy.te113");
    te::<toy::Te127>(cx, "toy.te127");
    // ---------------- test-curves ----------------
    {
        use ark_test_curves as t;
        {
            use t::bls12_381 as c;
            let t2 = tw_fp2::<c::Fq2Config>();
            let pb = bls_pub::<c::Config>();
            run::<SW<c::g1::Config>>(cx, "test_bls12_381.g1", "fp", "def", "tbls381g1", Some(limbs_from_hex(BLS12_381_G1_H_EFF)), "");
            sw::<c::g1_swu_iso::SwuIsoConfig>(cx, "test_bls12_381.g1iso", "fp");
            run::<SW<c::g2::Config>>(cx, "test_bls12_381.g2", &t2, "tbls381g2", "tbls381g2", Some(limbs_from_hex(BLS12_381_G2_H_EFF)), &pb);
            sw::<c::g2_swu_iso::SwuIsoConfig>(cx, "test_bls12_381.g2iso", &t2);
        }
        te::<t::ed_on_bls12_381::EdwardsConfig>(cx, "test_ed_on_bls12_381.te");
        sw::<t::mnt4_753::g1::Config>(cx, "test_mnt4_753.g1", "fp");
        sw::<t::bn384_small_two_adicity::g1::Config>(cx, "test_bn384.g1", "fp");
        sw::<t::secp256k1::Config>(cx, "test_secp256k1.g1", "fp");
    }
    // ---------------- curve crates ----------------
    {
        use ark_bls12_377 as c;
        use ark_ec::hashing::curve_maps::wb::WBConfig;
        let t2 = tw_fp2::<c::Fq2Config>();
        let pb = bls_pub::<c::Config>();
        run::<SW<c::g1::Config>>(cx, "bls12_377.g1", "fp", "def", "bls377g1", Some(limbs_from_hex(BLS12_377_G1_H_EFF)), &pb);
        te::<c::g1::Config>(cx, "bls12_377.g1te");
        sw::<<c::g1::Config as WBConfig>::IsogenousCurve>(cx, "bls12_377.g1iso", "fp");
        run::<SW<c::g2::Config>>(cx, "bls12_377.g2", &t2, "def", "bls377g2", Some(BLS12_377_G2_H_EFF.to_vec()), &pb);
        sw::<<c::g2::Config as WBConfig>::IsogenousCurve>(cx, "bls12_377.g2iso", &t2);
    }
    {
        use ark_bls12_381 as c;
        use ark_ec::hashing::curve_maps::wb::WBConfig;
        let t2 = tw_fp2::<c::Fq2Config>();
        let pb = bls_pub::<c::Config>();
        let g1x = format!("{} beta={} glv={}", pb, fe(&c::g1::BETA), glv_str::<c::g1::Config>());
        run::<SW<c::g1::Config>>(cx, "bls12_381.g1", "fp", "bls381g1", "bls381g1", Some(limbs_from_hex(BLS12_381_G1_H_EFF)), &g1x);
        sw::<<c::g1::Config as WBConfig>::IsogenousCurve>(cx, "bls12_381.g1iso", "fp");
        run::<SW<c::g2::Config>>(cx, "bls12_381.g2", &t2, "bls381g2", "bls381g2", Some(limbs_from_hex(BLS12_381_G2_H_EFF)), &pb);
        sw::<<c::g2::Config as WBConfig>::IsogenousCurve>(cx, "bls12_381.g2iso", &t2);
    }
    {
        use ark_bn254 as c;
        let t2 = tw_fp2::<c::Fq2Config>();
        let frob = format!(
            "frob={}",
            <c::Fq2Config as Fp2Config>::FROBENIUS_COEFF_FP2_C1.iter().map(|c| fe(c)).collect::<Vec<_>>().join(",")
        );
        run::<SW<c::g1::Config>>(cx, "bn254.g1", "fp", "bn254g1", "def", None, "");
        run::<SW<c::g2::Config>>(cx, "bn254.g2", &t2, "bn254g2", "def", None, &frob);
    }
    {
        use ark_bw6_761 as c;
        sw::<c::g1::Config>(cx, "bw6_761.g1", "fp");
        sw::<c::g2::Config>(cx, "bw6_761.g2", "fp");
    }
    {
        use ark_bw6_767 as c;
        sw::<c::g1::Config>(cx, "bw6_767.g1", "fp");
        sw::<c::g2::Config>(cx, "bw6_767.g2", "fp");
    }
    {
        use ark_cp6_782 as c;
        sw::<c::g1::Config>(cx, "cp6_782.g1", "fp");
        sw::<c::g2::Config>(cx, "cp6_782.g2", &tw_fp3::<c::Fq3Config>());
    }
    {
        use ark_mnt4_298 as c;
        sw::<c::g1::Config>(cx, "mnt4_298.g1", "fp");
        sw::<c::g2::Config>(cx, "mnt4_298.g2", &tw_fp2::<c::Fq2Config>());
    }
    {
        use ark_mnt4_753 as c;
        sw::<c::g1::Config>(cx, "mnt4_753.g1", "fp");
        sw::<c::g2::Config>(cx, "mnt4_753.g2", &tw_fp2::<c::Fq2Config>());
    }
    {
        use ark_mnt6_298 as c;
        sw::<c::g1::Config>(cx, "mnt6_298.g1", "fp");
        sw::<c::g2::Config>(cx, "mnt6_298.g2", &tw_fp3::<c::Fq3Config>());
    }
    {
        use ark_mnt6_753 as c;
        sw::<c::g1::Config>(cx, "mnt6_753.g1", "fp");
        sw::<c::g2::Config>(cx, "mnt6_753.g2", &tw_fp3::<c::Fq3Config>());
    }
    te::<ark_ed_on_bls12_377::EdwardsConfig>(cx, "ed_on_bls12_377.te");
    te::<ark_ed_on_bw6_761::EdwardsConfig>(cx, "ed_on_bw6_761.te");
    te::<ark_ed_on_cp6_782::EdwardsConfig>(cx, "ed_on_cp6_782.te");
    te::<ark_ed_on_bn254::EdwardsConfig>(cx, "ed_on_bn254.te");
    te::<ark_ed_on_mnt4_298::EdwardsConfig>(cx, "ed_on_mnt4_298.te");
    te::<ark_ed_on_mnt4_753::EdwardsConfig>(cx, "ed_on_mnt4_753.te");
    te::<ark_curve25519::Curve25519Config>(cx, "curve25519.te");
    te::<ark_ed25519::EdwardsConfig>(cx, "ed25519.te");
    te::<ark_ed_on_bls12_381::JubjubConfig>(cx, "ed_on_bls12_381.te");
    sw::<ark_ed_on_bls12_381::JubjubConfig>(cx, "ed_on_bls12_381.sw", "fp");
    te::<ark_ed_on_bls12_381_bandersnatch::BandersnatchConfig>(cx, "bandersnatch.te");
    sw::<ark_ed_on_bls12_381_bandersnatch::BandersnatchConfig>(cx, "bandersnatch.sw", "fp");
    sw::<ark_grumpkin::GrumpkinConfig>(cx, "grumpkin.g1", "fp");
    sw::<ark_secp256k1::Config>(cx, "secp256k1.g1", "fp");
    sw::<ark_secp256r1::Config>(cx, "secp256r1.g1", "fp");
    sw::<ark_secp384r1::Config>(cx, "secp384r1.g1", "fp");
    sw::<ark_secq256k1::Config>(cx, "secq256k1.g1", "fp");
    sw::<ark_pallas::PallasConfig>(cx, "pallas.g1", "fp");
    sw::<ark_vesta::VestaConfig>(cx, "vesta.g1", "fp");

    ctx.out.w.flush().unwrap();
}
