//! C06 harness: pairings of the six model/twist combinations instantiated by the shipped curve crates.
//!
//! Line protocol (`C06 <op> <id> <args…> => <result>`), all numbers lower-case hex:
//!   * field elements of any tower level: comma-separated base-prime-field coordinates
//!     (`to_base_prime_field_elements`), points: `inf` or `x-coordinates,y-coordinates`,
//!     lists of points / elements: `;`-separated, `_` when empty.
//!   * `cfg <id> <family> key=value…` : the public trait constants of the configuration (tower
//!     constants, loop counts, twist data, generators are NOT needed) — read by the Lean driver once.
//!   * conformance ops (the Lean model recomputes the result): `pairing`, `multi`, `miller`,
//!     `finalexp`, `prep`, `g2prep`, `g1prep`, `outadd`, `outsub`, `outneg`, `outdbl`, `outmul`.
//!   * tests of the real code judged by the driver (`t_*`): the harness prints values computed by the
//!     real code, the driver checks the algebraic relation in the target field:
//!     `t_bilin` (e(aP,bQ) = e(P,Q)^(ab)), `t_addl` / `t_addr` (additivity), `t_nondeg`, `t_idl` / `t_idr`
//!     (identity), `t_multi` (multi = product of singles), `t_prep` (prepared = unprepared),
//!     `t_femul` (final exponentiation multiplicative), `t_fepow` (final exponentiation is the power map).
//!   * the whole public API of `ec/src/pairing.rs` (section `api`, emitted first for every instance):
//!     conformance ops `mlomul` (`MillerLoopOutput * scalar`), `outzero` (`zero` / `ZERO` / `default`), `outiszero`,
//!     `outzeroize`, `outdisplay`, `outaddv` / `outsubv` / `outdblv` / `outmulv` (every by-value / by-reference /
//!     assigning form on one line, `;`-separated), `outsum` (owned; by reference), `outmulbig` (`mul_bigint` with raw
//!     limbs), `outmulbits` (`mul_bits_be`), `valid` (`Valid::check`, `batch_check` of the singleton, the four
//!     `deserialize_*` entry points on the serialized bytes, `Option<_>`, sizes, bytes), `vbatch`
//!     (`batch_check`, `Vec::check`, `Vec<_>` / `[_; 2]` deserialization), `deserb` (deserialization of hand-made
//!     byte strings: kind one / vec / arr2 / opt, mode = compress c/u + validate y/n);
//!     tests `t_mlofe` (FE(ML * s) = FE(ML)^s), `t_outrand` (`Distribution<PairingOutput>`), `t_outmsm`
//!     (`VariableBaseMSM for PairingOutput`), and `t_prep` lines for `miller_loop`, `PairingOutput::generator()`,
//!     `prepare_g1` / `prepare_g2`.  Inputs include elements outside GT (`PairingOutput`'s field is public):
//!     arbitrary field elements, 0, -1, subfield elements, elements of small prime order per subfield level
//!     (`small_order_elements`), their products with members of GT, the cyclotomic subgroup outside GT.
//! A panic of the real code is printed as `panic`.
#![allow(clippy::type_complexity)]

use ark_ec::{
    models::{
        bls12::{self, Bls12, Bls12Config},
        bn::{self, Bn, BnConfig},
        bw6::{self, BW6Config, BW6},
        mnt4::{self, MNT4Config, MNT4},
        mnt6::{self, MNT6Config, MNT6},
        short_weierstrass::SWCurveConfig,
    },
    pairing::{prepare_g1, prepare_g2, MillerLoopOutput, Pairing, PairingOutput},
    AdditiveGroup, AffineRepr, CurveGroup, PrimeGroup, VariableBaseMSM,
};
use ark_serialize::{CanonicalDeserialize, CanonicalSerialize, Compress, SerializationError, Valid, Validate};
use ark_std::{rand::SeedableRng, UniformRand};
use num_bigint::BigUint;
use ark_ff::{
    fields::{
        fp12_2over3over2::Fp12Config, fp2::Fp2Config, fp3::Fp3Config, fp4::Fp4Config,
        fp6_2over3::Fp6Config as Fp6o3Config, fp6_3over2::Fp6Config as Fp6o2Config,
    },
    BigInteger, Field, One, PrimeField, Zero,
};
use std::io::Write;
use std::marker::PhantomData;

// ------------------------------------------------------------------------------------------------
// helpers (same conventions as harness/src/util.rs)
// ------------------------------------------------------------------------------------------------
pub struct Rng(pub u64);
impl Rng {
    pub fn new(seed: u64) -> Self {
        Rng(seed ^ 0x9E37_79B9_7F4A_7C15)
    }
    /// SplitMix64
    pub fn next(&mut self) -> u64 {
        self.0 = self.0.wrapping_add(0x9E37_79B9_7F4A_7C15);
        let mut z = self.0;
        z = (z ^ (z >> 30)).wrapping_mul(0xBF58_476D_1CE4_E5B9);
        z = (z ^ (z >> 27)).wrapping_mul(0x94D0_49BB_1331_11EB);
        z ^ (z >> 31)
    }
    pub fn below(&mut self, n: u64) -> u64 {
        if n == 0 { 0 } else { self.next() % n }
    }
}

pub fn hex_limbs(l: &[u64]) -> String {
    let mut s = String::new();
    let mut started = false;
    for x in l.iter().rev() {
        if started {
            s.push_str(&format!("{:016x}", x));
        } else if *x != 0 {
            s.push_str(&format!("{:x}", x));
            started = true;
        }
    }
    if !started {
        s.push('0');
    }
    s
}
pub fn hex_list_u64(b: &[u64]) -> String {
    if b.is_empty() {
        return "_".into();
    }
    b.iter().map(|x| format!("{:x}", x)).collect::<Vec<_>>().join(",")
}
pub fn hex_i64(x: i64) -> String {
    if x < 0 { format!("-{:x}", (x as i128).unsigned_abs()) } else { format!("{:x}", x) }
}
pub fn hex_list_i8(b: &[i8]) -> String {
    if b.is_empty() {
        return "_".into();
    }
    b.iter().map(|x| hex_i64(*x as i64)).collect::<Vec<_>>().join(",")
}

pub struct Out {
    w: std::io::BufWriter<std::io::Stdout>,
    pub count: u64,
}
impl Out {
    pub fn new() -> Self {
        Out { w: std::io::BufWriter::with_capacity(1 << 20, std::io::stdout()), count: 0 }
    }
    pub fn line(&mut self, input: &str, result: &str) {
        writeln!(self.w, "C06 {} => {}", input, result).unwrap();
        self.count += 1;
    }
    pub fn flush(&mut self) {
        self.w.flush().unwrap();
    }
}

pub fn guarded<F: FnOnce() -> String>(f: F) -> String {
    match std::panic::catch_unwind(std::panic::AssertUnwindSafe(f)) {
        Ok(s) => s,
        Err(_) => "panic".into(),
    }
}

fn fe<F: PrimeField>(x: &F) -> String {
    hex_limbs(x.into_bigint().as_ref())
}
/// coordinates over the base prime field
fn el<F: Field>(x: &F) -> String {
    x.to_base_prime_field_elements().map(|c| fe(&c)).collect::<Vec<_>>().join(",")
}
fn els<F: Field>(xs: &[F]) -> String {
    if xs.is_empty() {
        return "_".into();
    }
    xs.iter().map(|x| el(x)).collect::<Vec<_>>().join(",")
}
fn big<B: BigInteger>(b: &B) -> String {
    hex_limbs(b.as_ref())
}
fn b01(b: bool) -> &'static str {
    if b { "1" } else { "0" }
}
fn semi(v: Vec<String>) -> String {
    if v.is_empty() { "_".into() } else { v.join(";") }
}

// ------------------------------------------------------------------------------------------------
// families
// ------------------------------------------------------------------------------------------------
trait Fam {
    type E: Pairing;
    /// the `cfg` header (without id)
    fn header() -> String;
    /// dump of `G2Prepared::from(q)`
    fn g2prep(q: &<Self::E as Pairing>::G2Affine) -> String;
    /// dump of `G1Prepared::from(p)` (MNT only)
    fn g1prep(_p: &<Self::E as Pairing>::G1Affine) -> Option<String> {
        None
    }
    /// subgroup points with special coordinates (x = 0, x = ±1, small x): legal inputs that random
    /// multiples of the generator never produce
    fn special_g1() -> Vec<<Self::E as Pairing>::G1Affine>;
    fn special_g2() -> Vec<<Self::E as Pairing>::G2Affine>;
}

/// points of the prime-order subgroup whose x-coordinate is 0, ±1, ±2, 3 (where the curve has such a point and
/// it lies in the subgroup, e.g. always when the cofactor is one)
fn sw_special<C: SWCurveConfig>() -> Vec<ark_ec::short_weierstrass::Affine<C>> {
    let mut v = Vec::new();
    let one = C::BaseField::one();
    let xs = [C::BaseField::zero(), one, -one, one + one, -(one + one), one + one + one];
    for x in xs {
        for greatest in [false, true] {
            if let Some(p) = ark_ec::short_weierstrass::Affine::<C>::get_point_from_x_unchecked(x, greatest) {
                if p.is_in_correct_subgroup_assuming_on_curve() && !v.contains(&p) {
                    v.push(p);
                }
            }
        }
    }
    v
}

fn tower12<P: Fp12Config>() -> String {
    type C6<P> = <P as Fp12Config>::Fp6Config;
    type C2<P> = <C6<P> as Fp6o2Config>::Fp2Config;
    format!(
        "nr2={} fr2={} nr6={} fr6c1={} fr6c2={} nr12={} fr12={}",
        el(&<C2<P> as Fp2Config>::NONRESIDUE),
        els(<C2<P> as Fp2Config>::FROBENIUS_COEFF_FP2_C1),
        el(&<C6<P> as Fp6o2Config>::NONRESIDUE),
        els(<C6<P> as Fp6o2Config>::FROBENIUS_COEFF_FP6_C1),
        els(<C6<P> as Fp6o2Config>::FROBENIUS_COEFF_FP6_C2),
        el(&P::NONRESIDUE),
        els(P::FROBENIUS_COEFF_FP12_C1),
    )
}
fn tower6o3<P: Fp6o3Config>() -> String {
    type C3<P> = <P as Fp6o3Config>::Fp3Config;
    format!(
        "nr3={} fr3c1={} fr3c2={} nr6={} fr6={}",
        el(&<C3<P> as Fp3Config>::NONRESIDUE),
        els(<C3<P> as Fp3Config>::FROBENIUS_COEFF_FP3_C1),
        els(<C3<P> as Fp3Config>::FROBENIUS_COEFF_FP3_C2),
        el(&P::NONRESIDUE),
        els(P::FROBENIUS_COEFF_FP6_C1),
    )
}
fn tower4<P: Fp4Config>() -> String {
    type C2<P> = <P as Fp4Config>::Fp2Config;
    format!(
        "nr2={} fr2={} nr4={} fr4={}",
        el(&<C2<P> as Fp2Config>::NONRESIDUE),
        els(<C2<P> as Fp2Config>::FROBENIUS_COEFF_FP2_C1),
        el(&P::NONRESIDUE),
        els(P::FROBENIUS_COEFF_FP4_C1),
    )
}

fn coeffs3<F: Field>(v: &[(F, F, F)]) -> String {
    semi(v.iter().map(|(a, b, c)| format!("{},{},{}", el(a), el(b), el(c))).collect())
}

struct BlsFam<P>(PhantomData<P>);
impl<P: Bls12Config> Fam for BlsFam<P> {
    fn special_g1() -> Vec<<Self::E as Pairing>::G1Affine> {
        sw_special::<P::G1Config>()
    }
    fn special_g2() -> Vec<<Self::E as Pairing>::G2Affine> {
        sw_special::<P::G2Config>()
    }
    type E = Bls12<P>;
    fn header() -> String {
        format!(
            "bls12 p={} r={} {} x={} xneg={} tw={} b2={}",
            big(&P::Fp::MODULUS),
            big(&<Bls12<P> as Pairing>::ScalarField::MODULUS),
            tower12::<P::Fp12Config>(),
            hex_list_u64(P::X),
            b01(P::X_IS_NEGATIVE),
            match P::TWIST_TYPE { bls12::TwistType::M => "M", bls12::TwistType::D => "D" },
            el(&<P::G2Config as SWCurveConfig>::COEFF_B),
        )
    }
    fn g2prep(q: &bls12::G2Affine<P>) -> String {
        let pr = bls12::G2Prepared::<P>::from(*q);
        if pr.infinity { "inf".into() } else { coeffs3(&pr.ell_coeffs) }
    }
}

struct BnFam<P>(PhantomData<P>);
impl<P: BnConfig> Fam for BnFam<P> {
    fn special_g1() -> Vec<<Self::E as Pairing>::G1Affine> {
        sw_special::<P::G1Config>()
    }
    fn special_g2() -> Vec<<Self::E as Pairing>::G2Affine> {
        sw_special::<P::G2Config>()
    }
    type E = Bn<P>;
    fn header() -> String {
        format!(
            "bn p={} r={} {} x={} xneg={} alc={} tw={} qx={} qy={} b2={}",
            big(&P::Fp::MODULUS),
            big(&<Bn<P> as Pairing>::ScalarField::MODULUS),
            tower12::<P::Fp12Config>(),
            hex_list_u64(P::X),
            b01(P::X_IS_NEGATIVE),
            hex_list_i8(P::ATE_LOOP_COUNT),
            match P::TWIST_TYPE { bn::TwistType::M => "M", bn::TwistType::D => "D" },
            el(&P::TWIST_MUL_BY_Q_X),
            el(&P::TWIST_MUL_BY_Q_Y),
            el(&<P::G2Config as SWCurveConfig>::COEFF_B),
        )
    }
    fn g2prep(q: &bn::G2Affine<P>) -> String {
        let pr = bn::G2Prepared::<P>::from(*q);
        if pr.infinity { "inf".into() } else { coeffs3(&pr.ell_coeffs) }
    }
}

/// `HARD` = 1 when the configuration overrides `final_exponentiation_hard_part` (BW6-761)
struct Bw6Fam<P, const HARD: u8>(PhantomData<P>);
impl<P: BW6Config, const HARD: u8> Fam for Bw6Fam<P, HARD> {
    fn special_g1() -> Vec<<Self::E as Pairing>::G1Affine> {
        sw_special::<P::G1Config>()
    }
    fn special_g2() -> Vec<<Self::E as Pairing>::G2Affine> {
        sw_special::<P::G2Config>()
    }
    type E = BW6<P>;
    fn header() -> String {
        format!(
            "bw6 p={} r={} {} x={} xneg={} xm1d3={} alc1={} alc1neg={} alc2={} alc2neg={} tw={} ht={} hy={} tmodr={} b2={} hard={}",
            big(&P::Fp::MODULUS),
            big(&<BW6<P> as Pairing>::ScalarField::MODULUS),
            tower6o3::<P::Fp6Config>(),
            hex_list_u64(P::X.as_ref()),
            b01(P::X_IS_NEGATIVE),
            hex_list_u64(P::X_MINUS_1_DIV_3.as_ref()),
            hex_list_u64(P::ATE_LOOP_COUNT_1),
            b01(P::ATE_LOOP_COUNT_1_IS_NEGATIVE),
            hex_list_i8(P::ATE_LOOP_COUNT_2),
            b01(P::ATE_LOOP_COUNT_2_IS_NEGATIVE),
            match P::TWIST_TYPE { bw6::TwistType::M => "M", bw6::TwistType::D => "D" },
            hex_i64(P::H_T),
            hex_i64(P::H_Y),
            b01(P::T_MOD_R_IS_ZERO),
            el(&<P::G2Config as SWCurveConfig>::COEFF_B),
            if HARD == 1 { "761" } else { "gen" },
        )
    }
    fn g2prep(q: &bw6::G2Affine<P>) -> String {
        let pr = bw6::G2Prepared::<P>::from(*q);
        if pr.infinity {
            "inf".into()
        } else {
            format!("{}/{}", coeffs3(&pr.ell_coeffs_1), coeffs3(&pr.ell_coeffs_2))
        }
    }
}

/// BW6-761 with the *generic* `final_exponentiation_hard_part` of `ec/src/models/bw6/mod.rs`
/// (the shipped configuration overrides it): same constants, no override.  Reaches the
/// `T_MOD_R_IS_ZERO == false` branch (Algorithm 4.4) of the generic hard part.
#[derive(PartialEq, Eq)]
pub struct Bw6_761Generic;
impl BW6Config for Bw6_761Generic {
    const X: <ark_bw6_761::Fq as PrimeField>::BigInt = <ark_bw6_761::Config as BW6Config>::X;
    const X_IS_NEGATIVE: bool = <ark_bw6_761::Config as BW6Config>::X_IS_NEGATIVE;
    const X_MINUS_1_DIV_3: <ark_bw6_761::Fq as PrimeField>::BigInt = <ark_bw6_761::Config as BW6Config>::X_MINUS_1_DIV_3;
    const ATE_LOOP_COUNT_1: &'static [u64] = <ark_bw6_761::Config as BW6Config>::ATE_LOOP_COUNT_1;
    const ATE_LOOP_COUNT_1_IS_NEGATIVE: bool = <ark_bw6_761::Config as BW6Config>::ATE_LOOP_COUNT_1_IS_NEGATIVE;
    const ATE_LOOP_COUNT_2: &'static [i8] = <ark_bw6_761::Config as BW6Config>::ATE_LOOP_COUNT_2;
    const ATE_LOOP_COUNT_2_IS_NEGATIVE: bool = <ark_bw6_761::Config as BW6Config>::ATE_LOOP_COUNT_2_IS_NEGATIVE;
    const TWIST_TYPE: bw6::TwistType = <ark_bw6_761::Config as BW6Config>::TWIST_TYPE;
    const H_T: i64 = <ark_bw6_761::Config as BW6Config>::H_T;
    const H_Y: i64 = <ark_bw6_761::Config as BW6Config>::H_Y;
    const T_MOD_R_IS_ZERO: bool = <ark_bw6_761::Config as BW6Config>::T_MOD_R_IS_ZERO;
    type Fp = ark_bw6_761::Fq;
    type Fp3Config = ark_bw6_761::Fq3Config;
    type Fp6Config = ark_bw6_761::Fq6Config;
    type G1Config = ark_bw6_761::g1::Config;
    type G2Config = ark_bw6_761::g2::Config;
}

struct Mnt4Fam<P>(PhantomData<P>);
impl<P: MNT4Config> Fam for Mnt4Fam<P> {
    fn special_g1() -> Vec<<Self::E as Pairing>::G1Affine> {
        sw_special::<P::G1Config>()
    }
    fn special_g2() -> Vec<<Self::E as Pairing>::G2Affine> {
        sw_special::<P::G2Config>()
    }
    type E = MNT4<P>;
    fn header() -> String {
        format!(
            "mnt4 p={} r={} {} twist={} twa={} alc={} alcneg={} w1={} w0neg={} w0={}",
            big(&P::Fp::MODULUS),
            big(&P::Fr::MODULUS),
            tower4::<P::Fp4Config>(),
            el(&P::TWIST),
            el(&P::TWIST_COEFF_A),
            hex_list_i8(P::ATE_LOOP_COUNT),
            b01(P::ATE_IS_LOOP_COUNT_NEG),
            hex_list_u64(P::FINAL_EXPONENT_LAST_CHUNK_1.as_ref()),
            b01(P::FINAL_EXPONENT_LAST_CHUNK_W0_IS_NEG),
            hex_list_u64(P::FINAL_EXPONENT_LAST_CHUNK_ABS_OF_W0.as_ref()),
        )
    }
    fn g2prep(q: &mnt4::G2Affine<P>) -> String {
        let pr = mnt4::G2Prepared::<P>::from(*q);
        format!(
            "{};{};{};{}/{}/{}",
            el(&pr.x),
            el(&pr.y),
            el(&pr.x_over_twist),
            el(&pr.y_over_twist),
            semi(pr.double_coefficients.iter().map(|c| format!("{},{},{},{}", el(&c.c_h), el(&c.c_4c), el(&c.c_j), el(&c.c_l))).collect()),
            semi(pr.addition_coefficients.iter().map(|c| format!("{},{}", el(&c.c_l1), el(&c.c_rz))).collect()),
        )
    }
    fn g1prep(p: &mnt4::G1Affine<P>) -> Option<String> {
        let pr = mnt4::G1Prepared::<P>::from(*p);
        Some(format!("{};{};{};{}", fe(&pr.x), fe(&pr.y), el(&pr.x_twist), el(&pr.y_twist)))
    }
}

struct Mnt6Fam<P>(PhantomData<P>);
impl<P: MNT6Config> Fam for Mnt6Fam<P> {
    fn special_g1() -> Vec<<Self::E as Pairing>::G1Affine> {
        sw_special::<P::G1Config>()
    }
    fn special_g2() -> Vec<<Self::E as Pairing>::G2Affine> {
        sw_special::<P::G2Config>()
    }
    type E = MNT6<P>;
    fn header() -> String {
        format!(
            "mnt6 p={} r={} {} twist={} twa={} alc={} alcneg={} w1={} w0neg={} w0={}",
            big(&P::Fp::MODULUS),
            big(&P::Fr::MODULUS),
            tower6o3::<P::Fp6Config>(),
            el(&P::TWIST),
            el(&P::TWIST_COEFF_A),
            hex_list_i8(P::ATE_LOOP_COUNT),
            b01(P::ATE_IS_LOOP_COUNT_NEG),
            hex_list_u64(P::FINAL_EXPONENT_LAST_CHUNK_1.as_ref()),
            b01(P::FINAL_EXPONENT_LAST_CHUNK_W0_IS_NEG),
            hex_list_u64(P::FINAL_EXPONENT_LAST_CHUNK_ABS_OF_W0.as_ref()),
        )
    }
    fn g2prep(q: &mnt6::G2Affine<P>) -> String {
        let pr = mnt6::G2Prepared::<P>::from(*q);
        format!(
            "{};{};{};{}/{}/{}",
            el(&pr.x),
            el(&pr.y),
            el(&pr.x_over_twist),
            el(&pr.y_over_twist),
            semi(pr.double_coefficients.iter().map(|c| format!("{},{},{},{}", el(&c.c_h), el(&c.c_4c), el(&c.c_j), el(&c.c_l))).collect()),
            semi(pr.addition_coefficients.iter().map(|c| format!("{},{}", el(&c.c_l1), el(&c.c_rz))).collect()),
        )
    }
    fn g1prep(p: &mnt6::G1Affine<P>) -> Option<String> {
        let pr = mnt6::G1Prepared::<P>::from(*p);
        Some(format!("{};{};{};{}", fe(&pr.x), fe(&pr.y), el(&pr.x_twist), el(&pr.y_twist)))
    }
}

// ------------------------------------------------------------------------------------------------
// generic op stream
// ------------------------------------------------------------------------------------------------
type Fr<E> = <E as Pairing>::ScalarField;
type A1<E> = <E as Pairing>::G1Affine;
type A2<E> = <E as Pairing>::G2Affine;
type Tf<E> = <E as Pairing>::TargetField;
type G1p<E> = <E as Pairing>::G1;
type G2p<E> = <E as Pairing>::G2;

fn pt1<E: Pairing>(p: &A1<E>) -> String {
    match p.xy() {
        None => "inf".into(),
        Some((x, y)) => format!("{},{}", fe(&x), fe(&y)),
    }
}
fn pt2<E: Pairing>(q: &A2<E>) -> String {
    match q.xy() {
        None => "inf".into(),
        Some((x, y)) => format!("{},{}", el(&x), el(&y)),
    }
}
fn g1<E: Pairing>(s: &Fr<E>) -> A1<E> {
    (G1p::<E>::generator() * *s).into_affine()
}
fn g2<E: Pairing>(s: &Fr<E>) -> A2<E> {
    (G2p::<E>::generator() * *s).into_affine()
}
fn rand_fr<E: Pairing>(rng: &mut Rng) -> Fr<E> {
    let n = (Fr::<E>::MODULUS_BIT_SIZE as usize + 7) / 8 + 8;
    let bytes: Vec<u8> = (0..n).map(|_| rng.next() as u8).collect();
    Fr::<E>::from_le_bytes_mod_order(&bytes)
}
fn small_fr<E: Pairing>(rng: &mut Rng) -> Fr<E> {
    Fr::<E>::from(3 + rng.below(1 << 16))
}
/// a scalar of the classes {0, 1, 2, r-1, small random, random}
fn any_fr<E: Pairing>(rng: &mut Rng) -> Fr<E> {
    match rng.below(12) {
        0 => Fr::<E>::zero(),
        1 => Fr::<E>::one(),
        2 => Fr::<E>::from(2u64),
        3 => -Fr::<E>::one(),
        4 | 5 | 6 => small_fr::<E>(rng),
        _ => rand_fr::<E>(rng),
    }
}
fn nz_fr<E: Pairing>(rng: &mut Rng) -> Fr<E> {
    loop {
        let s = if rng.below(3) == 0 { small_fr::<E>(rng) } else { rand_fr::<E>(rng) };
        if !s.is_zero() {
            return s;
        }
    }
}
fn rand_tf<E: Pairing>(rng: &mut Rng) -> Tf<E> {
    let d = Tf::<E>::extension_degree() as usize;
    let n = (<E::BaseField as PrimeField>::MODULUS_BIT_SIZE as usize + 7) / 8 + 8;
    let cs: Vec<<Tf<E> as Field>::BasePrimeField> = (0..d)
        .map(|_| {
            let bytes: Vec<u8> = (0..n).map(|_| rng.next() as u8).collect();
            <Tf<E> as Field>::BasePrimeField::from_le_bytes_mod_order(&bytes)
        })
        .collect();
    Tf::<E>::from_base_prime_field_elems(cs).unwrap()
}

/// the real `E::pairing` as a printable result
fn pair_s<E: Pairing>(p: &A1<E>, q: &A2<E>) -> String {
    let (p, q) = (*p, *q);
    guarded(|| el(&E::pairing(p, q).0))
}
fn multi_s<E: Pairing>(ps: &[A1<E>], qs: &[A2<E>]) -> String {
    let (ps, qs) = (ps.to_vec(), qs.to_vec());
    guarded(|| el(&E::multi_pairing(ps, qs).0))
}
fn miller_s<E: Pairing>(ps: &[A1<E>], qs: &[A2<E>]) -> String {
    let (ps, qs) = (ps.to_vec(), qs.to_vec());
    guarded(|| el(&E::multi_miller_loop(ps, qs).0))
}
fn fexp_s<E: Pairing>(f: &Tf<E>) -> String {
    let f = *f;
    guarded(|| match E::final_exponentiation(MillerLoopOutput(f)) {
        Some(r) => el(&r.0),
        None => "none".into(),
    })
}
fn pts1<E: Pairing>(ps: &[A1<E>]) -> String {
    semi(ps.iter().map(|p| pt1::<E>(p)).collect())
}
fn pts2<E: Pairing>(qs: &[A2<E>]) -> String {
    semi(qs.iter().map(|q| pt2::<E>(q)).collect())
}

// ------------------------------------------------------------------------------------------------
// the whole public API of `ec/src/pairing.rs` (`MillerLoopOutput`, `PairingOutput`: group structure, `Valid`,
// (de)serialization, `Display` / `Default` / `Zeroize` / `rand`, `VariableBaseMSM`, `prepare_g1` / `prepare_g2`)
// ------------------------------------------------------------------------------------------------
type PO<E> = PairingOutput<E>;

fn hexbytes(b: &[u8]) -> String {
    if b.is_empty() {
        return "_".into();
    }
    b.iter().map(|x| format!("{:02x}", x)).collect()
}
fn errk(e: &SerializationError) -> &'static str {
    match e {
        SerializationError::NotEnoughSpace => "space",
        SerializationError::InvalidData => "invalid",
        SerializationError::UnexpectedFlags => "flags",
        SerializationError::IoError(_) => "io",
    }
}
/// `1` = accepted and equal to the value that was serialized, `x` = accepted but different, `0` = InvalidData
fn de_tok<T: PartialEq>(r: Result<T, SerializationError>, want: &T) -> String {
    match r {
        Ok(w) => if &w == want { "1".into() } else { "x".into() },
        Err(SerializationError::InvalidData) => "0".into(),
        Err(e) => format!("e:{}", errk(&e)),
    }
}
fn zeroized<G: AdditiveGroup>(mut g: G) -> G {
    // `Zeroize` is a supertrait of `AdditiveGroup`
    g.zeroize();
    g
}
fn biguint_of<B: BigInteger>(b: &B) -> BigUint {
    BigUint::from_bytes_le(&b.to_bytes_le())
}
fn tf_of<E: Pairing>(cs: Vec<<Tf<E> as Field>::BasePrimeField>) -> Tf<E> {
    Tf::<E>::from_base_prime_field_elems(cs).unwrap()
}
fn rand_bpf<E: Pairing>(rng: &mut Rng) -> <Tf<E> as Field>::BasePrimeField {
    let n = (<E::BaseField as PrimeField>::MODULUS_BIT_SIZE as usize + 7) / 8 + 8;
    let bytes: Vec<u8> = (0..n).map(|_| rng.next() as u8).collect();
    <Tf<E> as Field>::BasePrimeField::from_le_bytes_mod_order(&bytes)
}

/// elements of small prime order: for every proper-or-not subfield level `j | k` the smallest odd prime `d < 200`
/// whose `d`-th roots of unity first appear in `F_{q^j}`; `ζ = y^((q^k-1)/d)` for random `y` (retry until `ζ ≠ 1`).
/// Returns `(d, j, ζ)`, sorted by `j`.
fn small_order_elements<E: Pairing>(rng: &mut Rng) -> Vec<(u64, u32, Tf<E>)> {
    let q = biguint_of(&<E::BaseField as PrimeField>::MODULUS);
    let r = biguint_of(&Fr::<E>::MODULUS);
    let k = Tf::<E>::extension_degree() as u32;
    let one = BigUint::from(1u32);
    let n = q.pow(k) - &one;
    assert!((&n % &r) == BigUint::from(0u32), "r does not divide q^k - 1");
    let mut out: Vec<(u64, u32, Tf<E>)> = Vec::new();
    let mut d = 3u64;
    while d < 200 {
        let is_prime = (2..d).take_while(|i| i * i <= d).all(|i| d % i != 0);
        let dd = BigUint::from(d);
        if is_prime && (&n % &dd) == BigUint::from(0u32) && dd != r {
            let j = (1..=k).find(|j| k % j == 0 && ((q.pow(*j) - &one) % &dd) == BigUint::from(0u32)).unwrap();
            if !out.iter().any(|(_, jj, _)| *jj == j) {
                let e = (&n / &dd).to_u64_digits();
                let z = loop {
                    let z = rand_tf::<E>(rng).pow(&e);
                    if !z.is_one() && !z.is_zero() {
                        break z;
                    }
                };
                // start-up assertions: order exactly d (d prime), member of F_{q^j}, not a member of GT
                assert!(z.pow([d]).is_one());
                assert!(z.pow((q.pow(j) - &one).to_u64_digits()).is_one());
                assert!(!z.pow(Fr::<E>::MODULUS).is_one());
                out.push((d, j, z));
            }
        }
        d += 2;
    }
    out.sort_by_key(|t| t.1);
    out
}

/// a member of the cyclotomic subgroup `G_{Φ_k(q)}` that is (with overwhelming probability) outside GT
fn cyclotomic_non_gt<E: Pairing>(rng: &mut Rng) -> Tf<E> {
    let q = biguint_of(&<E::BaseField as PrimeField>::MODULUS);
    let k = Tf::<E>::extension_degree() as u32;
    let one = BigUint::from(1u32);
    let phi = match k {
        12 => q.pow(4) - q.pow(2) + &one,
        6 => q.pow(2) - &q + &one,
        4 => q.pow(2) + &one,
        _ => panic!("unexpected embedding degree"),
    };
    let n = q.pow(k) - &one;
    assert!((&n % &phi) == BigUint::from(0u32));
    let e = (&n / &phi).to_u64_digits();
    loop {
        let c = rand_tf::<E>(rng).pow(&e);
        if !c.is_zero() && !c.pow(Fr::<E>::MODULUS).is_one() {
            assert!(c.pow(phi.to_u64_digits()).is_one());
            return c;
        }
    }
}

fn valid_line<E: Pairing>(o: &mut Out, id: &str, x: &Tf<E>) {
    let x = *x;
    let res = guarded(|| {
        let v = PairingOutput::<E>(x);
        let t0 = b01(v.check().is_ok());
        let t1 = b01(PO::<E>::batch_check(std::iter::once(&v)).is_ok());
        let mut bc = Vec::new();
        v.serialize_compressed(&mut bc).unwrap();
        let mut bu = Vec::new();
        v.serialize_uncompressed(&mut bu).unwrap();
        let t2 = de_tok(PO::<E>::deserialize_compressed(&bc[..]), &v);
        let t3 = de_tok(PO::<E>::deserialize_uncompressed(&bu[..]), &v);
        let t4 = de_tok(PO::<E>::deserialize_compressed_unchecked(&bc[..]), &v);
        let t5 = de_tok(PO::<E>::deserialize_uncompressed_unchecked(&bu[..]), &v);
        let mut bo = Vec::new();
        Some(v).serialize_with_mode(&mut bo, Compress::Yes).unwrap();
        let t6 = de_tok(Option::<PO<E>>::deserialize_with_mode(&bo[..], Compress::Yes, Validate::Yes), &Some(v));
        let sizes = format!("{:x}/{:x}/{:x}/{:x}", v.compressed_size(), v.uncompressed_size(), bc.len(), bu.len());
        let bytes = if bc == bu { hexbytes(&bc) } else { format!("{}!{}", hexbytes(&bc), hexbytes(&bu)) };
        format!("{},{},{},{},{},{},{},{},{}", t0, t1, t2, t3, t4, t5, t6, sizes, bytes)
    });
    o.line(&format!("valid {} {}", id, el(&x)), &res);
}

fn vbatch_line<E: Pairing>(o: &mut Out, id: &str, xs: &[Tf<E>]) {
    let v: Vec<PO<E>> = xs.iter().map(|x| PairingOutput(*x)).collect();
    let res = guarded(|| {
        let t0 = b01(PO::<E>::batch_check(v.iter()).is_ok());
        let t1 = b01(v.check().is_ok());
        let mut bc = Vec::new();
        v.serialize_compressed(&mut bc).unwrap();
        let mut bu = Vec::new();
        v.serialize_uncompressed(&mut bu).unwrap();
        let t2 = de_tok(Vec::<PO<E>>::deserialize_compressed(&bc[..]), &v);
        let t3 = de_tok(Vec::<PO<E>>::deserialize_uncompressed(&bu[..]), &v);
        let t4 = de_tok(Vec::<PO<E>>::deserialize_compressed_unchecked(&bc[..]), &v);
        let t5 = de_tok(Vec::<PO<E>>::deserialize_uncompressed_unchecked(&bu[..]), &v);
        let (t6, t7) = if v.len() == 2 {
            let arr: [PO<E>; 2] = [v[0], v[1]];
            let mut ab = Vec::new();
            arr.serialize_compressed(&mut ab).unwrap();
            (de_tok(<[PO<E>; 2]>::deserialize_compressed(&ab[..]), &arr), b01(arr.check().is_ok()).to_string())
        } else {
            ("-".to_string(), "-".to_string())
        };
        format!("{},{},{},{},{},{},{},{},{:x}/{:x}", t0, t1, t2, t3, t4, t5, t6, t7, v.compressed_size(), bc.len())
    });
    o.line(&format!("vbatch {} {}", id, semi(xs.iter().map(|x| el(x)).collect())), &res);
}

fn show_de<E: Pairing>(r: Result<Option<Vec<PO<E>>>, SerializationError>) -> String {
    match r {
        Err(e) => format!("err:{}", errk(&e)),
        Ok(None) => "ok:none".into(),
        Ok(Some(v)) => format!("ok:{}", semi(v.iter().map(|x| el(&x.0)).collect())),
    }
}
/// `kind` ∈ one / vec / arr2 / opt, `mode` = compress (c/u) + validate (y/n)
fn deserb_line<E: Pairing>(o: &mut Out, id: &str, kind: &str, mode: &str, bytes: &[u8]) {
    let c = if mode.starts_with('c') { Compress::Yes } else { Compress::No };
    let v = if mode.ends_with('y') { Validate::Yes } else { Validate::No };
    let res = guarded(|| match kind {
        "one" => show_de::<E>(PO::<E>::deserialize_with_mode(bytes, c, v).map(|x| Some(vec![x]))),
        "vec" => show_de::<E>(Vec::<PO<E>>::deserialize_with_mode(bytes, c, v).map(Some)),
        "arr2" => show_de::<E>(<[PO<E>; 2]>::deserialize_with_mode(bytes, c, v).map(|a| Some(a.to_vec()))),
        "opt" => show_de::<E>(Option::<PO<E>>::deserialize_with_mode(bytes, c, v).map(|x| x.map(|x| vec![x]))),
        _ => unreachable!(),
    });
    o.line(&format!("deserb {} {} {} {}", id, kind, mode, hexbytes(bytes)), &res);
}

struct ApiBudget {
    /// the reduced set (second instances of a curve that is already covered in full)
    lite: bool,
    /// number of extra random rounds (thorough tier)
    extra: usize,
}

fn api<Fm: Fam>(o: &mut Out, id: &str, rng: &mut Rng, bud: &ApiBudget) {
    type E<Fm> = <Fm as Fam>::E;
    let deg = Tf::<E<Fm>>::extension_degree() as usize;
    o.line(&format!("cfg {} {}", id, Fm::header()), &format!("{:x}", deg));
    let lite = bud.lite;
    let gen1 = G1p::<E<Fm>>::generator().into_affine();
    let gen2 = G2p::<E<Fm>>::generator().into_affine();
    let one = Tf::<E<Fm>>::one();
    let zero = Tf::<E<Fm>>::zero();
    let rm1 = -Fr::<E<Fm>>::one();
    let e1 = E::<Fm>::pairing(gen1, gen2).0;
    let pa = g1::<E<Fm>>(&nz_fr::<E<Fm>>(rng));
    let qa = g2::<E<Fm>>(&nz_fr::<E<Fm>>(rng));
    let e2 = E::<Fm>::pairing(pa, qa).0;
    let x = loop {
        let x = rand_tf::<E<Fm>>(rng);
        if !x.is_zero() {
            break x;
        }
    };
    let xinv = x.inverse().unwrap();
    let zs = small_order_elements::<E<Fm>>(rng);
    let cyc = cyclotomic_non_gt::<E<Fm>>(rng);
    // sub-field elements: the prime field, the half-degree subfield (`c1 = 0`)
    let two = Tf::<E<Fm>>::from(2u64);
    let three = Tf::<E<Fm>>::from(3u64);
    let sixth = Tf::<E<Fm>>::from(6u64).inverse().unwrap();
    let half = {
        let mut cs = vec![<Tf<E<Fm>> as Field>::BasePrimeField::zero(); deg];
        for c in cs.iter_mut().take(deg / 2) {
            *c = rand_bpf::<E<Fm>>(rng);
        }
        tf_of::<E<Fm>>(cs)
    };
    // `(1, 0, …, 0, c)`: equal to one in all but the last coordinate
    let almost_one = {
        let mut cs = vec![<Tf<E<Fm>> as Field>::BasePrimeField::zero(); deg];
        cs[0] = <Tf<E<Fm>> as Field>::BasePrimeField::one();
        cs[deg - 1] = <Tf<E<Fm>> as Field>::BasePrimeField::from(1 + rng.below(1 << 20));
        tf_of::<E<Fm>>(cs)
    };
    let r_limbs: Vec<u64> = Fr::<E<Fm>>::MODULUS.as_ref().to_vec();
    let nl = r_limbs.len();

    // ---- `MillerLoopOutput * scalar` -------------------------------------------------------------
    {
        let ml = E::<Fm>::multi_miller_loop([pa], [qa]).0;
        // the trait's single-pair default
        o.line(&format!("t_prep {} {}", id, el(&ml)), &guarded(|| el(&E::<Fm>::miller_loop(pa, qa).0)));
        let fe_ml = fexp_s::<E<Fm>>(&ml);
        let rs = rand_fr::<E<Fm>>(rng);
        let mut cases: Vec<(Tf<E<Fm>>, Fr<E<Fm>>)> = vec![
            (ml, Fr::<E<Fm>>::zero()), (ml, Fr::<E<Fm>>::one()), (ml, Fr::<E<Fm>>::from(2u64)), (ml, Fr::<E<Fm>>::from(3u64)),
            (ml, rs), (x, Fr::<E<Fm>>::from(2u64)), (x, Fr::<E<Fm>>::from(3u64)), (x, Fr::<E<Fm>>::from(7u64)),
            (zero, Fr::<E<Fm>>::zero()), (zero, Fr::<E<Fm>>::from(2u64)),
        ];
        if !lite {
            cases.push((ml, rm1));
            cases.push((x, rand_fr::<E<Fm>>(rng)));
            cases.push((x, Fr::<E<Fm>>::zero()));
            cases.push((x, Fr::<E<Fm>>::one()));
        }
        for _ in 0..bud.extra {
            cases.push((rand_tf::<E<Fm>>(rng), any_fr::<E<Fm>>(rng)));
        }
        for (f, s) in &cases {
            let (f, s) = (*f, *s);
            o.line(&format!("mlomul {} {} {}", id, el(&f), fe(&s)), &guarded(|| el(&(MillerLoopOutput::<E<Fm>>(f) * s).0)));
        }
        let mut ss = vec![Fr::<E<Fm>>::zero(), Fr::<E<Fm>>::one(), Fr::<E<Fm>>::from(2u64), small_fr::<E<Fm>>(rng), rs];
        if !lite {
            ss.push(rm1);
        }
        for s in ss {
            o.line(
                &format!("t_mlofe {} {} {}", id, fe_ml, fe(&s)),
                &guarded(|| match E::<Fm>::final_exponentiation(MillerLoopOutput::<E<Fm>>(ml) * s) {
                    Some(r) => el(&r.0),
                    None => "none".into(),
                }),
            );
        }
    }

    // ---- `zero` / `ZERO` / `default` / `is_zero` / `generator` / `Display` / `Zeroize` / `rand` ----------------
    {
        o.line(&format!("outzero {} zero", id), &guarded(|| el(&PO::<E<Fm>>::zero().0)));
        o.line(&format!("outzero {} const", id), &guarded(|| el(&<PO<E<Fm>> as AdditiveGroup>::ZERO.0)));
        o.line(&format!("outzero {} default", id), &guarded(|| el(&PO::<E<Fm>>::default().0)));
        for v in [one, zero, e1, e2, x, almost_one, two, -one] {
            o.line(&format!("outiszero {} {}", id, el(&v)), &guarded(|| b01(PairingOutput::<E<Fm>>(v).is_zero()).to_string()));
        }
        o.line(&format!("t_prep {} {}", id, el(&e1)), &guarded(|| el(&PO::<E<Fm>>::generator().0)));
        o.line(
            &format!("t_prep {} {}", id, el(&e2)),
            &guarded(|| el(&E::<Fm>::pairing(prepare_g1::<E<Fm>>(pa), prepare_g2::<E<Fm>>(qa)).0)),
        );
        for v in [one, e1, x] {
            o.line(&format!("outdisplay {} {}", id, el(&v)), &guarded(|| format!("{}", PairingOutput::<E<Fm>>(v))));
            o.line(&format!("outzeroize {} {}", id, el(&v)), &guarded(|| el(&zeroized(PairingOutput::<E<Fm>>(v)).0)));
        }
        for _ in 0..(1 + bud.extra) {
            let mut srng = ark_std::rand::rngs::StdRng::seed_from_u64(rng.next());
            o.line(&format!("t_outrand {}", id), &guarded(|| el(&PO::<E<Fm>>::rand(&mut srng).0)));
        }
    }

    // ---- group operations in all their forms ---------------------------------------------------------
    {
        let mut pairs: Vec<(Tf<E<Fm>>, Tf<E<Fm>>)> = vec![(e1, e2), (e2, e2), (one, e1), (e2, one), (x, e1), (e1, x), (x, zero), (zero, zero)];
        if !lite {
            pairs.push((x, almost_one));
        }
        for _ in 0..bud.extra {
            let t = E::<Fm>::pairing(g1::<E<Fm>>(&any_fr::<E<Fm>>(rng)), g2::<E<Fm>>(&any_fr::<E<Fm>>(rng))).0;
            pairs.push((t, e2));
            pairs.push((e1, t));
        }
        for (a, b) in &pairs {
            let (a, b) = (PairingOutput::<E<Fm>>(*a), PairingOutput::<E<Fm>>(*b));
            let out = |v: PO<E<Fm>>| el(&v.0);
            o.line(
                &format!("outaddv {} {} {}", id, el(&a.0), el(&b.0)),
                &guarded(|| {
                    let mut bm = b;
                    let mut r6 = a; r6 += b;
                    let mut r7 = a; r7 += &b;
                    let mut r8 = a; r8 += &mut bm;
                    let mut bm2 = b;
                    let mut bm3 = b;
                    semi(vec![out(a + b), out(a + &b), out(&a + b), out(&a + &b), out(a + &mut bm2), out(&a + &mut bm3), out(r6), out(r7), out(r8)])
                }),
            );
            o.line(
                &format!("outsubv {} {} {}", id, el(&a.0), el(&b.0)),
                &guarded(|| {
                    let mut bm = b;
                    let mut r6 = a; r6 -= b;
                    let mut r7 = a; r7 -= &b;
                    let mut r8 = a; r8 -= &mut bm;
                    let mut bm2 = b;
                    let mut bm3 = b;
                    semi(vec![out(a - b), out(a - &b), out(&a - b), out(&a - &b), out(a - &mut bm2), out(&a - &mut bm3), out(r6), out(r7), out(r8)])
                }),
            );
        }
        for v in [e1, one, x, zero, cyc] {
            let a = PairingOutput::<E<Fm>>(v);
            o.line(&format!("outneg {} {}", id, el(&v)), &guarded(|| el(&(-a).0)));
            o.line(
                &format!("outdblv {} {}", id, el(&v)),
                &guarded(|| {
                    let mut t = a;
                    t.double_in_place();
                    semi(vec![el(&a.double().0), el(&t.0)])
                }),
            );
        }
        // Sum (owned and by reference): empty, singleton, several
        let mut lists: Vec<Vec<Tf<E<Fm>>>> = vec![vec![], vec![e1], vec![e1, e2], vec![e1, e2, e1, one, e2], vec![x, xinv, e2]];
        for _ in 0..bud.extra {
            let n = 1 + rng.below(6) as usize;
            lists.push((0..n).map(|_| if rng.below(4) == 0 { rand_tf::<E<Fm>>(rng) } else { (PairingOutput::<E<Fm>>(e2) * any_fr::<E<Fm>>(rng)).0 }).collect());
        }
        for l in &lists {
            let v: Vec<PO<E<Fm>>> = l.iter().map(|t| PairingOutput(*t)).collect();
            o.line(
                &format!("outsum {} {}", id, semi(l.iter().map(|t| el(t)).collect())),
                &guarded(|| {
                    let s1: PO<E<Fm>> = v.iter().copied().sum();
                    let s2: PO<E<Fm>> = v.iter().sum();
                    semi(vec![el(&s1.0), el(&s2.0)])
                }),
            );
        }
    }

    // ---- scalar multiplication: `Mul` / `MulAssign` in all forms, `mul_bigint` with raw limbs, `mul_bits_be`, MSM ----
    {
        let mut cases: Vec<(Tf<E<Fm>>, Fr<E<Fm>>)> = vec![(e2, rand_fr::<E<Fm>>(rng)), (e1, Fr::<E<Fm>>::from(3u64)), (x, Fr::<E<Fm>>::from(3u64)), (one, rm1)];
        for _ in 0..bud.extra {
            cases.push(((PairingOutput::<E<Fm>>(e1) * any_fr::<E<Fm>>(rng)).0, any_fr::<E<Fm>>(rng)));
        }
        for (a, s) in &cases {
            let (a, s) = (PairingOutput::<E<Fm>>(*a), *s);
            o.line(
                &format!("outmulv {} {} {}", id, el(&a.0), fe(&s)),
                &guarded(|| {
                    let mut sm = s;
                    let mut r3 = a; r3 *= s;
                    let mut r4 = a; r4 *= &s;
                    let mut sm2 = s;
                    let mut r5 = a; r5 *= &mut sm2;
                    let r6 = a.mul_bigint(s.into_bigint());
                    semi(vec![el(&(a * s).0), el(&(a * &s).0), el(&(a * &mut sm).0), el(&r3.0), el(&r4.0), el(&r5.0), el(&r6.0)])
                }),
            );
        }
        // raw limbs
        let mut rp1 = r_limbs.clone();
        rp1[0] += 1; // r is odd and its low limb is not u64::MAX for any shipped curve
        assert!(r_limbs[0] != u64::MAX);
        let mut longer = r_limbs.clone();
        longer.push(1);
        let mut lead0 = vec![5u64];
        lead0.extend(std::iter::repeat(0).take(nl + 2));
        let mut limbs_g: Vec<Vec<u64>> = vec![
            vec![], vec![0], vec![0, 0, 0], vec![1], vec![2], vec![0, 1], lead0, vec![u64::MAX], vec![1u64 << 63],
            vec![u64::MAX, u64::MAX], rp1.clone(),
        ];
        if !lite {
            limbs_g.push(r_limbs.clone());
            limbs_g.push(longer);
        }
        for _ in 0..bud.extra {
            let n = rng.below(nl as u64 + 3) as usize;
            limbs_g.push((0..n).map(|_| if rng.below(4) == 0 { 0 } else { rng.next() }).collect());
        }
        for l in &limbs_g {
            let l = l.clone();
            o.line(&format!("outmulbig {} {} {}", id, el(&e1), hex_list_u64(&l)), &guarded(|| el(&PairingOutput::<E<Fm>>(e1).mul_bigint(&l).0)));
        }
        // outside GT: arbitrary field elements (not even cyclotomic), zero, the cyclotomic subgroup outside GT
        let mut outs: Vec<(Tf<E<Fm>>, Vec<u64>)> = vec![
            (x, vec![]), (x, vec![0]), (x, vec![1]), (x, vec![2]), (x, vec![3]), (zero, vec![0]), (zero, vec![5]),
            (cyc, vec![3]), (cyc, vec![7, 1]),
        ];
        if !lite {
            outs.push((x, r_limbs.clone()));
            outs.push((cyc, rand_fr::<E<Fm>>(rng).into_bigint().as_ref().to_vec()));
        }
        for (a, l) in &outs {
            let (a, l) = (*a, l.clone());
            o.line(&format!("outmulbig {} {} {}", id, el(&a), hex_list_u64(&l)), &guarded(|| el(&PairingOutput::<E<Fm>>(a).mul_bigint(&l).0)));
        }
        // `mul_bits_be`: the iterator's first bit is the most significant one
        let mut bitss: Vec<String> = vec!["_".into(), "1".into(), "0".into(), "11".into(), "10".into(), format!("1{}", "0".repeat(64))];
        if !lite {
            bitss.push("0001".into());
            bitss.push("1011".into());
        }
        for _ in 0..bud.extra {
            let n = 1 + rng.below(70) as usize;
            bitss.push((0..n).map(|_| if rng.below(2) == 0 { '0' } else { '1' }).collect());
        }
        for b in &bitss {
            let bits: Vec<bool> = if b == "_" { vec![] } else { b.chars().map(|c| c == '1').collect() };
            o.line(&format!("outmulbits {} {} {}", id, el(&e1), b), &guarded(|| el(&PairingOutput::<E<Fm>>(e1).mul_bits_be(bits.into_iter()).0)));
        }
        // MSM over the target group
        {
            let bases = vec![PairingOutput::<E<Fm>>(e1), PairingOutput::<E<Fm>>(e2), PairingOutput::<E<Fm>>(e1)];
            let scalars = vec![small_fr::<E<Fm>>(rng), rand_fr::<E<Fm>>(rng), Fr::<E<Fm>>::from(2u64)];
            o.line(
                &format!("t_outmsm {} {} {}", id, semi(bases.iter().map(|b| el(&b.0)).collect()), scalars.iter().map(|s| fe(s)).collect::<Vec<_>>().join(",")),
                &guarded(|| match <PO<E<Fm>> as VariableBaseMSM>::msm(&bases, &scalars) {
                    Ok(r) => el(&r.0),
                    Err(n) => format!("err:{}", n),
                }),
            );
        }
    }

    // ---- `Valid::check` / `batch_check`, directly and through checked deserialization ------------------------------
    {
        let g_z = |z: &Tf<E<Fm>>| *z * e2;
        let mut vals: Vec<Tf<E<Fm>>> = vec![e1, x];
        if let Some((_, _, z)) = zs.first() {
            vals.push(g_z(z));
        }
        if !lite {
            vals.extend([one, zero, -one, two, half, cyc]);
            if let Some((_, _, z)) = zs.first() {
                vals.push(*z);
            }
            for (_, _, z) in zs.iter().skip(1) {
                vals.push(*z);
                vals.push(g_z(z));
            }
        } else {
            // every subfield level at least once, alternating bare / times a member of GT
            for (i, (_, _, z)) in zs.iter().enumerate().skip(1) {
                vals.push(if i % 2 == 1 { *z } else { g_z(z) });
            }
        }
        for _ in 0..bud.extra {
            vals.push(rand_tf::<E<Fm>>(rng));
            vals.push((PairingOutput::<E<Fm>>(e2) * any_fr::<E<Fm>>(rng)).0);
            if !zs.is_empty() {
                let (_, _, z) = zs[rng.below(zs.len() as u64) as usize];
                vals.push(z.pow([1 + rng.below(5)]) * (PairingOutput::<E<Fm>>(e1) * any_fr::<E<Fm>>(rng)).0);
            }
        }
        for v in &vals {
            valid_line::<E<Fm>>(o, id, v);
        }
        // batches whose product lies in GT while the members do not
        let mut batches: Vec<Vec<Tf<E<Fm>>>> = vec![vec![x, xinv], vec![e1, e2]];
        if !lite {
            batches.push(vec![]);
            batches.push(vec![-one, -one]);
            batches.push(vec![two, three, sixth]);
            batches.push(vec![cyc, cyc.inverse().unwrap()]);
            batches.push(vec![e1, x]);
            if let Some((_, _, z)) = zs.first() {
                batches.push(vec![g_z(z), z.inverse().unwrap()]);
            }
        } else if let Some((_, _, z)) = zs.last() {
            batches.push(vec![g_z(z), z.inverse().unwrap()]);
        }
        for _ in 0..bud.extra {
            let y = rand_tf::<E<Fm>>(rng);
            if y.is_zero() {
                continue;
            }
            let g = (PairingOutput::<E<Fm>>(e2) * any_fr::<E<Fm>>(rng)).0;
            batches.push(vec![g, y, g * y.inverse().unwrap()]);
            batches.push(vec![g, g * g, e1]);
        }
        for b in &batches {
            vbatch_line::<E<Fm>>(o, id, b);
        }
    }

    // ---- deserialization of byte strings that no serializer produced ---------------------------------
    {
        let ser = |v: &Tf<E<Fm>>| {
            let mut b = Vec::new();
            PairingOutput::<E<Fm>>(*v).serialize_compressed(&mut b).unwrap();
            b
        };
        let (b1, b2, bx) = (ser(&e1), ser(&e2), ser(&x));
        let n = b1.len() / deg;
        let cat = |parts: &[&[u8]]| parts.concat();
        let len = |k: u64| k.to_le_bytes().to_vec();
        // the modulus in the last coordinate / all-ones in the first
        let mut b_mod = b1.clone();
        let mb = <E<Fm> as Pairing>::BaseField::MODULUS.to_bytes_le();
        b_mod[(deg - 1) * n..].copy_from_slice(&mb[..n]);
        let mut b_ff = b1.clone();
        for t in b_ff.iter_mut().take(n) {
            *t = 0xff;
        }
        let mut cases: Vec<(&str, &str, Vec<u8>)> = vec![
            ("one", "cn", b1[..b1.len() - 1].to_vec()),
            ("one", "un", cat(&[&bx, &[0xab]])),
            ("one", "cy", b_mod.clone()),
            ("one", "un", b_mod.clone()),
            ("one", "uy", b_ff.clone()),
            ("one", "cy", vec![]),
            ("vec", "cn", cat(&[&len(2), &b1, &bx])),
            ("vec", "cy", cat(&[&len(1), &bx, &b1])),
            ("vec", "un", cat(&[&len(3), &b1, &b2])),
            ("vec", "cy", cat(&[&len(0), &b1])),
            ("vec", "cy", len(0)[..7].to_vec()),
            ("vec", "cn", cat(&[&len(1u64 << 63), &b1])),
            ("arr2", "cn", cat(&[&bx, &b2])),
            ("arr2", "cy", cat(&[&bx, &b2])),
            ("arr2", "un", cat(&[&b1, &b2[..b2.len() - 1]])),
            ("opt", "cy", vec![0]),
            ("opt", "cy", vec![]),
            ("opt", "cn", cat(&[&[1], &bx])),
            ("opt", "uy", cat(&[&[1], &bx])),
            ("opt", "cn", cat(&[&[2], &b1])),
            ("opt", "cn", vec![1]),
        ];
        if !lite {
            cases.push(("one", "cy", cat(&[&b1, &[0xab]])));
        }
        for (kind, mode, bytes) in &cases {
            deserb_line::<E<Fm>>(o, id, kind, mode, bytes);
        }
    }
}

struct Budget {
    /// scalars of the deterministic grid (conformance `pairing` lines on all ordered pairs)
    grid: Vec<i64>,
    /// random conformance pairings
    conf_pairings: usize,
    /// list lengths of the conformance `multi` lines
    conf_multi: Vec<usize>,
    /// rounds of the real-code tests (each round: bilinearity on ~14 scalar pairs, additivity, multi 0..=9)
    test_rounds: usize,
    /// conformance lines of the small ops (miller / finalexp / prep / g2prep / out*)
    small: usize,
    /// `t_fepow` lines (each costs a ~4000-bit exponentiation in the driver)
    fepow: usize,
    /// groups of three random scalar pairs in each bilinearity round (besides the 11 fixed pairs)
    bilin_groups: usize,
    /// `g2prep` dumps of random points (besides the generator and the identity)
    g2prep_extra: usize,
}

fn scalar_of<E: Pairing>(k: i64) -> Fr<E> {
    if k < 0 { -Fr::<E>::from((-k) as u64) } else { Fr::<E>::from(k as u64) }
}

fn run<Fm: Fam>(o: &mut Out, id: &str, rng: &mut Rng, bud: &Budget) {
    type E<Fm> = <Fm as Fam>::E;
    let deg = Tf::<E<Fm>>::extension_degree();
    o.line(&format!("cfg {} {}", id, Fm::header()), &format!("{:x}", deg));
    let gen1 = G1p::<E<Fm>>::generator().into_affine();
    let gen2 = G2p::<E<Fm>>::generator().into_affine();
    let o1 = A1::<E<Fm>>::zero();
    let o2 = A2::<E<Fm>>::zero();

    // ---- non-degeneracy, identity -------------------------------------------------------------
    o.line(&format!("t_nondeg {}", id), &pair_s::<E<Fm>>(&gen1, &gen2));
    o.line(&format!("t_idl {} {}", id, pt2::<E<Fm>>(&gen2)), &pair_s::<E<Fm>>(&o1, &gen2));
    o.line(&format!("t_idr {} {}", id, pt1::<E<Fm>>(&gen1)), &pair_s::<E<Fm>>(&gen1, &o2));
    o.line(&format!("t_idl {} inf", id), &pair_s::<E<Fm>>(&o1, &o2));

    // ---- conformance: deterministic grid of multiples of the generators ---------------------------
    for &a in &bud.grid {
        for &b in &bud.grid {
            let p = g1::<E<Fm>>(&scalar_of::<E<Fm>>(a));
            let q = g2::<E<Fm>>(&scalar_of::<E<Fm>>(b));
            o.line(&format!("pairing {} {} {}", id, pt1::<E<Fm>>(&p), pt2::<E<Fm>>(&q)), &pair_s::<E<Fm>>(&p, &q));
        }
    }
    for _ in 0..bud.conf_pairings {
        let p = g1::<E<Fm>>(&any_fr::<E<Fm>>(rng));
        let q = g2::<E<Fm>>(&any_fr::<E<Fm>>(rng));
        o.line(&format!("pairing {} {} {}", id, pt1::<E<Fm>>(&p), pt2::<E<Fm>>(&q)), &pair_s::<E<Fm>>(&p, &q));
    }

    // ---- special coordinates (x = 0, ±1, …) against generator and random partners ---------------------
    {
        let s1 = Fm::special_g1();
        let s2 = Fm::special_g2();
        for p in s1.iter() {
            for q in [gen2, g2::<E<Fm>>(&nz_fr::<E<Fm>>(rng))] {
                o.line(&format!("pairing {} {} {}", id, pt1::<E<Fm>>(p), pt2::<E<Fm>>(&q)), &pair_s::<E<Fm>>(p, &q));
            }
        }
        for q in s2.iter() {
            for p in [gen1, g1::<E<Fm>>(&nz_fr::<E<Fm>>(rng))] {
                o.line(&format!("pairing {} {} {}", id, pt1::<E<Fm>>(&p), pt2::<E<Fm>>(q)), &pair_s::<E<Fm>>(&p, q));
            }
        }
        if let (Some(p), Some(q)) = (s1.first(), s2.first()) {
            o.line(&format!("pairing {} {} {}", id, pt1::<E<Fm>>(p), pt2::<E<Fm>>(q)), &pair_s::<E<Fm>>(p, q));
        }
    }

    // ---- conformance: multi-pairings / Miller loops ------------------------------------------------
    for (k, &len) in bud.conf_multi.iter().enumerate() {
        let (ps, qs) = multi_lists::<E<Fm>>(rng, len, k % 3);
        o.line(&format!("multi {} {} {}", id, pts1::<E<Fm>>(&ps), pts2::<E<Fm>>(&qs)), &multi_s::<E<Fm>>(&ps, &qs));
    }
    for k in 0..bud.small {
        let (len, shape) = [(1usize, 0usize), (2, 0), (2, 1), (5, 0), (1, 1), (0, 0), (5, 2), (6, 1)][k % 8];
        let (ps, qs) = multi_lists::<E<Fm>>(rng, len, shape);
        let m = miller_s::<E<Fm>>(&ps, &qs);
        o.line(&format!("miller {} {} {}", id, pts1::<E<Fm>>(&ps), pts2::<E<Fm>>(&qs)), &m);
    }

    {
        // lists of different lengths (`zip_eq`): outside the property, model conformance only
        let (ps, qs) = multi_lists::<E<Fm>>(rng, 2, 0);
        o.line(&format!("multi {} {} {}", id, pts1::<E<Fm>>(&ps), pts2::<E<Fm>>(&qs[..1])), &multi_s::<E<Fm>>(&ps, &qs[..1]));
    }

    // ---- conformance + tests: final exponentiation ------------------------------------------------
    {
        let mut fs: Vec<Tf<E<Fm>>> = vec![Tf::<E<Fm>>::one(), Tf::<E<Fm>>::zero()];
        for _ in 0..bud.small {
            fs.push(rand_tf::<E<Fm>>(rng));
        }
        for k in 0..bud.small {
            let (ps, qs) = multi_lists::<E<Fm>>(rng, 1 + k % 2, 0);
            let (ps2, qs2) = (ps.clone(), qs.clone());
            if let Ok(m) = std::panic::catch_unwind(std::panic::AssertUnwindSafe(|| E::<Fm>::multi_miller_loop(ps2, qs2).0)) {
                fs.push(m);
            }
        }
        for f in &fs {
            o.line(&format!("finalexp {} {}", id, el(f)), &fexp_s::<E<Fm>>(f));
        }
        for k in 0..fs.len() {
            let f = fs[k];
            let g = fs[(k * 7 + 3) % fs.len()];
            if f.is_zero() || g.is_zero() {
                continue;
            }
            o.line(
                &format!("t_femul {} {} {}", id, fexp_s::<E<Fm>>(&f), fexp_s::<E<Fm>>(&g)),
                &fexp_s::<E<Fm>>(&(f * g)),
            );
        }
        for f in fs.iter().skip(2).take(bud.fepow) {
            o.line(&format!("t_fepow {} {}", id, el(f)), &fexp_s::<E<Fm>>(f));
        }
    }

    // ---- conformance + tests: prepared inputs ----------------------------------------------------
    for k in 0..bud.small {
        let p = g1::<E<Fm>>(&if k == 0 { Fr::<E<Fm>>::one() } else { any_fr::<E<Fm>>(rng) });
        let q = g2::<E<Fm>>(&if k == 0 { Fr::<E<Fm>>::one() } else { any_fr::<E<Fm>>(rng) });
        let prep = guarded(|| {
            let pp = <E<Fm> as Pairing>::G1Prepared::from(p);
            let qp = <E<Fm> as Pairing>::G2Prepared::from(q);
            el(&E::<Fm>::pairing(pp, qp).0)
        });
        if k < 2 {
            o.line(&format!("prep {} {} {}", id, pt1::<E<Fm>>(&p), pt2::<E<Fm>>(&q)), &prep);
        }
        o.line(&format!("t_prep {} {}", id, pair_s::<E<Fm>>(&p, &q)), &prep);
        // projective inputs go through `into_affine().into()`
        let prj = guarded(|| {
            let pj: <E<Fm> as Pairing>::G1 = p.into();
            let qj: <E<Fm> as Pairing>::G2 = q.into();
            let pj = pj.double().double() - pj - pj - pj;
            let qj = qj.double() - qj;
            el(&E::<Fm>::pairing(pj, qj).0)
        });
        o.line(&format!("t_prep {} {}", id, pair_s::<E<Fm>>(&p, &q)), &prj);
    }
    {
        let mut qs = vec![gen2, o2];
        for _ in 0..bud.g2prep_extra {
            qs.push(g2::<E<Fm>>(&nz_fr::<E<Fm>>(rng)));
        }
        for q in &qs {
            let q = *q;
            o.line(&format!("g2prep {} {}", id, pt2::<E<Fm>>(&q)), &guarded(|| Fm::g2prep(&q)));
        }
        let mut ps = vec![gen1, o1];
        ps.push(g1::<E<Fm>>(&nz_fr::<E<Fm>>(rng)));
        for p in &ps {
            let p = *p;
            if Fm::g1prep(&p).is_some() {
                o.line(&format!("g1prep {} {}", id, pt1::<E<Fm>>(&p)), &guarded(|| Fm::g1prep(&p).unwrap()));
            }
        }
    }

    // ---- conformance: `PairingOutput` group structure ------------------------------------------
    {
        let e1 = E::<Fm>::pairing(gen1, gen2);
        let e2 = E::<Fm>::pairing(g1::<E<Fm>>(&small_fr::<E<Fm>>(rng)), g2::<E<Fm>>(&nz_fr::<E<Fm>>(rng)));
        let zero = PairingOutput::<E<Fm>>::zero();
        let pairs = [(e1, e2), (e2, e1), (e1, e1), (e1, zero), (zero, e2), (zero, zero)];
        for (k, (a, b)) in pairs.iter().enumerate() {
            if k >= bud.small + 2 {
                break;
            }
            let (a, b) = (*a, *b);
            o.line(&format!("outadd {} {} {}", id, el(&a.0), el(&b.0)), &guarded(|| el(&(a + b).0)));
            o.line(&format!("outsub {} {} {}", id, el(&a.0), el(&b.0)), &guarded(|| el(&(a - b).0)));
            o.line(&format!("outneg {} {}", id, el(&a.0)), &guarded(|| el(&(-a).0)));
            o.line(&format!("outdbl {} {}", id, el(&a.0)), &guarded(|| el(&a.double().0)));
            let s = if k == 0 { -Fr::<E<Fm>>::one() } else { any_fr::<E<Fm>>(rng) };
            o.line(&format!("outmul {} {} {}", id, el(&a.0), fe(&s)), &guarded(|| el(&(a * s).0)));
        }
    }

    // ---- tests of the real code --------------------------------------------------------------
    for round in 0..bud.test_rounds {
        // bilinearity: base points (P0, Q0), e0 = e(P0, Q0)
        let (s0, t0) = if round == 0 {
            (Fr::<E<Fm>>::one(), Fr::<E<Fm>>::one())
        } else {
            (nz_fr::<E<Fm>>(rng), nz_fr::<E<Fm>>(rng))
        };
        let p0 = g1::<E<Fm>>(&s0);
        let q0 = g2::<E<Fm>>(&t0);
        let e0 = pair_s::<E<Fm>>(&p0, &q0);
        let m1 = -Fr::<E<Fm>>::one();
        let z = Fr::<E<Fm>>::zero();
        let one = Fr::<E<Fm>>::one();
        let two = Fr::<E<Fm>>::from(2u64);
        let mut ab: Vec<(Fr<E<Fm>>, Fr<E<Fm>>)> = vec![
            (z, one), (one, z), (z, z), (one, one), (two, one), (one, two), (two, two),
            (m1, one), (one, m1), (m1, m1), (m1, two),
        ];
        for _ in 0..bud.bilin_groups {
            ab.push((small_fr::<E<Fm>>(rng), small_fr::<E<Fm>>(rng)));
            ab.push((rand_fr::<E<Fm>>(rng), rand_fr::<E<Fm>>(rng)));
            ab.push((any_fr::<E<Fm>>(rng), any_fr::<E<Fm>>(rng)));
        }
        for (a, b) in &ab {
            let pa = (G1p::<E<Fm>>::from(p0) * *a).into_affine();
            let qb = (G2p::<E<Fm>>::from(q0) * *b).into_affine();
            o.line(&format!("t_bilin {} {} {} {}", id, fe(a), fe(b), e0), &pair_s::<E<Fm>>(&pa, &qb));
        }
        // additivity in each argument (with P' = P, P' = -P, P' = O among the cases)
        for k in 0..6 {
            let p = g1::<E<Fm>>(&nz_fr::<E<Fm>>(rng));
            let q = g2::<E<Fm>>(&nz_fr::<E<Fm>>(rng));
            let p2 = match k { 0 => p, 1 => (-G1p::<E<Fm>>::from(p)).into_affine(), 2 => o1, _ => g1::<E<Fm>>(&any_fr::<E<Fm>>(rng)) };
            let q2 = match k { 0 => q, 1 => (-G2p::<E<Fm>>::from(q)).into_affine(), 2 => o2, _ => g2::<E<Fm>>(&any_fr::<E<Fm>>(rng)) };
            let psum = (G1p::<E<Fm>>::from(p) + G1p::<E<Fm>>::from(p2)).into_affine();
            let qsum = (G2p::<E<Fm>>::from(q) + G2p::<E<Fm>>::from(q2)).into_affine();
            o.line(
                &format!("t_addl {} {} {}", id, pair_s::<E<Fm>>(&p, &q), pair_s::<E<Fm>>(&p2, &q)),
                &pair_s::<E<Fm>>(&psum, &q),
            );
            o.line(
                &format!("t_addr {} {} {}", id, pair_s::<E<Fm>>(&p, &q), pair_s::<E<Fm>>(&p, &q2)),
                &pair_s::<E<Fm>>(&p, &qsum),
            );
        }
        // identity
        let q = g2::<E<Fm>>(&nz_fr::<E<Fm>>(rng));
        let p = g1::<E<Fm>>(&nz_fr::<E<Fm>>(rng));
        o.line(&format!("t_idl {} {}", id, pt2::<E<Fm>>(&q)), &pair_s::<E<Fm>>(&o1, &q));
        o.line(&format!("t_idr {} {}", id, pt1::<E<Fm>>(&p)), &pair_s::<E<Fm>>(&p, &o2));
        // multi-pairing = product of the singles, all lengths 0..=9, three list shapes
        for len in 0..=9usize {
            for shape in 0..3 {
                if len == 0 && shape > 0 {
                    continue;
                }
                let (ps, qs) = multi_lists::<E<Fm>>(rng, len, shape);
                let singles: Vec<String> = ps.iter().zip(qs.iter()).map(|(p, q)| pair_s::<E<Fm>>(p, q)).collect();
                o.line(&format!("t_multi {} {}", id, semi(singles)), &multi_s::<E<Fm>>(&ps, &qs));
            }
        }
    }
}

/// lists for a multi-pairing: shape 0 = random non-identity multiples of the generators,
/// shape 1 = identity entries interspersed (either side), shape 2 = repeated entries
fn multi_lists<E: Pairing>(rng: &mut Rng, len: usize, shape: usize) -> (Vec<A1<E>>, Vec<A2<E>>) {
    let mut ps: Vec<A1<E>> = Vec::new();
    let mut qs: Vec<A2<E>> = Vec::new();
    for i in 0..len {
        let mut p = g1::<E>(&nz_fr::<E>(rng));
        let mut q = g2::<E>(&nz_fr::<E>(rng));
        match shape {
            1 => match rng.below(4) {
                0 => p = A1::<E>::zero(),
                1 => q = A2::<E>::zero(),
                _ => {},
            },
            2 => {
                if i > 0 && rng.below(2) == 0 {
                    let j = rng.below(i as u64) as usize;
                    p = ps[j];
                    if rng.below(2) == 0 {
                        q = qs[j];
                    }
                }
            },
            _ => {},
        }
        ps.push(p);
        qs.push(q);
    }
    if shape == 1 && len > 0 {
        // make sure at least one identity entry is present
        let j = rng.below(len as u64) as usize;
        if rng.below(2) == 0 { ps[j] = A1::<E>::zero() } else { qs[j] = A2::<E>::zero() }
    }
    (ps, qs)
}

fn main() {
    let args: Vec<String> = std::env::args().collect();
    let tier = args.get(1).map(|s| s.as_str()).unwrap_or("quick").to_string();
    let seed: u64 = args.get(2).and_then(|s| s.parse().ok()).unwrap_or(1);
    let only: Option<String> = args.get(3).cloned();
    let thorough = tier == "thorough";
    std::panic::set_hook(Box::new(|_| {}));
    let mut rng = Rng::new(seed);
    let mut o = Out::new();

    // budgets: `mid` for the 254–381-bit curves, `big` for the 753/761/767-bit ones
    // budgets: `mid` for the 254–381-bit curves, `big` for the 753/761/767-bit ones.  The quick tier is
    // sized for <= 30 s of driver time in total (about 0.1 s per conformance pairing on 381 bits).
    let mid = if thorough {
        Budget {
            grid: vec![0, 1, 2, -1],
            conf_pairings: 80,
            conf_multi: (0..=9).chain(vec![5, 6, 7, 8, 9, 4, 3, 2, 1, 5, 9, 8]).collect(),
            test_rounds: 16,
            small: 9,
            fepow: 2,
            bilin_groups: 3,
            g2prep_extra: 2,
        }
    } else {
        Budget { grid: vec![0, 1, -1], conf_pairings: 2, conf_multi: vec![0, 2, 5, 9], test_rounds: 1, small: 2, fepow: 1, bilin_groups: 1, g2prep_extra: 1 }
    };
    let small298 = if thorough {
        Budget {
            grid: vec![0, 1, 2, -1],
            conf_pairings: 80,
            conf_multi: (0..=9).chain(vec![5, 6, 7, 8, 9, 4, 3, 2, 1]).collect(),
            test_rounds: 16,
            small: 9,
            fepow: 2,
            bilin_groups: 3,
            g2prep_extra: 2,
        }
    } else {
        Budget { grid: vec![0, 1, 2, -1], conf_pairings: 4, conf_multi: vec![0, 1, 2, 3, 5, 9], test_rounds: 1, small: 3, fepow: 1, bilin_groups: 1, g2prep_extra: 1 }
    };
    let big = if thorough {
        Budget { grid: vec![0, 1, -1], conf_pairings: 16, conf_multi: vec![0, 1, 2, 3, 4, 5, 6, 9], test_rounds: 6, small: 4, fepow: 2, bilin_groups: 3, g2prep_extra: 1 }
    } else {
        Budget { grid: vec![0, 1], conf_pairings: 1, conf_multi: vec![0, 2, 5], test_rounds: 1, small: 2, fepow: 1, bilin_groups: 1, g2prep_extra: 0 }
    };
    let m = if thorough { 10 } else { 1 };

    if tier == "selfcheck" {
        // pure-Rust confirmation (no driver involved) of `multi_pairing = sum of pairings` on k copies of
        // the generator pair, k = 4, 5
        fn sc<E: Pairing>(name: &str) {
            for k in [4usize, 5, 8, 9] {
                let ps = vec![E::G1::generator().into_affine(); k];
                let qs = vec![E::G2::generator().into_affine(); k];
                let e = E::pairing(ps[0], qs[0]);
                let sum = (0..k).fold(PairingOutput::<E>::zero(), |acc, _| acc + e);
                let m = E::multi_pairing(ps, qs);
                println!("{} k={} multi_pairing == k*e(G1,G2): {}", name, k, m == sum);
            }
        }
        sc::<ark_bls12_381::Bls12_381>("bls12_381");
        sc::<ark_bls12_377::Bls12_377>("bls12_377");
        sc::<ark_bn254::Bn254>("bn254");
        sc::<ark_mnt4_298::MNT4_298>("mnt4_298");
        sc::<ark_mnt6_298::MNT6_298>("mnt6_298");
        sc::<ark_bw6_761::BW6_761>("bw6_761");
        sc::<ark_bw6_767::BW6_767>("bw6_767");
        return;
    }
    let tiny = Budget { grid: vec![1, 0], conf_pairings: m, conf_multi: vec![5], test_rounds: 1, small: 2, fepow: 1, bilin_groups: 0, g2prep_extra: 0 };
    // quick: the power-map test of the BLS12 final exponentiation runs on bls381 only (1.6 s of driver time each)
    let tiny_nofe = Budget { fepow: if thorough { 1 } else { 0 }, ..Budget { grid: vec![1, 0], conf_pairings: m, conf_multi: vec![5], test_rounds: 1, small: 2, fepow: 0, bilin_groups: 0, g2prep_extra: 0 } };
    let mid_nofe = Budget { fepow: if thorough { 2 } else { 0 }, grid: mid.grid.clone(), conf_multi: mid.conf_multi.clone(), ..mid };
    let want = |id: &str| only.as_deref().map_or(true, |x| x == id);
    // first pass: the public API of `ec/src/pairing.rs` for every instance (cheap; first, so that a time-boxed
    // thorough run reaches it for every family)
    {
        let ex = if thorough { 4 } else { 0 };
        let full = ApiBudget { lite: false, extra: ex };
        let lite = ApiBudget { lite: true, extra: ex };
        if want("tc_bls381") {
            api::<BlsFam<ark_test_curves::bls12_381::Config>>(&mut o, "tc_bls381", &mut rng, &lite);
        }
        if want("bw6_761g") {
            api::<Bw6Fam<Bw6_761Generic, 0>>(&mut o, "bw6_761g", &mut rng, &lite);
        }
        if want("bls381") {
            api::<BlsFam<ark_bls12_381::Config>>(&mut o, "bls381", &mut rng, &full);
        }
        if want("bls377") {
            api::<BlsFam<ark_bls12_377::Config>>(&mut o, "bls377", &mut rng, &lite);
        }
        if want("bn254") {
            api::<BnFam<ark_bn254::Config>>(&mut o, "bn254", &mut rng, &full);
        }
        if want("mnt4_298") {
            api::<Mnt4Fam<ark_mnt4_298::Config>>(&mut o, "mnt4_298", &mut rng, &full);
        }
        if want("mnt6_298") {
            api::<Mnt6Fam<ark_mnt6_298::Config>>(&mut o, "mnt6_298", &mut rng, &full);
        }
        if want("bw6_761") {
            api::<Bw6Fam<ark_bw6_761::Config, 1>>(&mut o, "bw6_761", &mut rng, &full);
        }
        if want("bw6_767") {
            api::<Bw6Fam<ark_bw6_767::Config, 0>>(&mut o, "bw6_767", &mut rng, &full);
        }
        if want("mnt4_753") {
            api::<Mnt4Fam<ark_mnt4_753::Config>>(&mut o, "mnt4_753", &mut rng, &lite);
        }
        if want("mnt6_753") {
            api::<Mnt6Fam<ark_mnt6_753::Config>>(&mut o, "mnt6_753", &mut rng, &lite);
        }
    }
    if want("tc_bls381") {
        run::<BlsFam<ark_test_curves::bls12_381::Config>>(&mut o, "tc_bls381", &mut rng, &tiny_nofe);
    }
    if want("bw6_761g") {
        run::<Bw6Fam<Bw6_761Generic, 0>>(&mut o, "bw6_761g", &mut rng, &tiny);
    }
    if want("bls381") {
        run::<BlsFam<ark_bls12_381::Config>>(&mut o, "bls381", &mut rng, &mid);
    }
    if want("bls377") {
        run::<BlsFam<ark_bls12_377::Config>>(&mut o, "bls377", &mut rng, &mid_nofe);
    }
    if want("bn254") {
        run::<BnFam<ark_bn254::Config>>(&mut o, "bn254", &mut rng, &mid);
    }
    if want("mnt4_298") {
        run::<Mnt4Fam<ark_mnt4_298::Config>>(&mut o, "mnt4_298", &mut rng, &small298);
    }
    if want("mnt6_298") {
        run::<Mnt6Fam<ark_mnt6_298::Config>>(&mut o, "mnt6_298", &mut rng, &small298);
    }
    if want("bw6_761") {
        run::<Bw6Fam<ark_bw6_761::Config, 1>>(&mut o, "bw6_761", &mut rng, &big);
    }
    if want("bw6_767") {
        run::<Bw6Fam<ark_bw6_767::Config, 0>>(&mut o, "bw6_767", &mut rng, &big);
    }
    if want("mnt4_753") {
        run::<Mnt4Fam<ark_mnt4_753::Config>>(&mut o, "mnt4_753", &mut rng, &big);
    }
    if want("mnt6_753") {
        run::<Mnt6Fam<ark_mnt6_753::Config>>(&mut o, "mnt6_753", &mut rng, &big);
    }
    o.flush();
    eprintln!("C06 lines: {}", o.count);
}
