//! C06 harness: pairings of the six model/twist combinations instantiated by the shipped curve crates.
//!
//! Line protocol (`C06 <op> <id> <args…> => <result>`), all numbers lower-case hex:
//!   * field elements of any tower level: comma-separated base-prime-field coordinates
//!     (`to_base_prime_field_elements`), points: `inf` or `x-coordinates,y-coordinates`,
//!     lists of points / elements: `;`-separated, `_` when empty.
//!   * `cfg <id> <family> key=value…` : the public trait constants of the configuration (tower
//!     constants, loop counts, twist data, generators are NOT needed) — read by the Lean driver once.
//!   * conformance ops (the Lean model recomputes the result): `pairing`, `multi`, `miller`,
//!     `finalexp`, `prep`, `g2prep`, `g1prep`, `outadd`, `outsub`, `outneg`, `outdbl`, `outmul`.
//!   * tests of the real code judged by the driver (`t_*`): the harness prints values computed by the
//!     real code, the driver checks the algebraic relation in the target field:
//!     `t_bilin` (e(aP,bQ) = e(P,Q)^(ab)), `t_addl` / `t_addr` (additivity), `t_nondeg`, `t_idl` / `t_idr`
//!     (identity), `t_multi` (multi = product of singles), `t_prep` (prepared = unprepared),
//!     `t_femul` (final exponentiation multiplicative), `t_fepow` (final exponentiation is the power map).
//! A panic of the real code is printed as `panic`.
#![allow(clippy::type_complexity)]

use ark_ec::{
    models::{
        bls12::{self, Bls12, Bls12Config},
        bn::{self, Bn, BnConfig},
        bw6::{self, BW6Config, BW6},
        mnt4::{self, MNT4Config, MNT4},
        mnt6::{self, MNT6Config, MNT6},
        short_weierstrass::SWCurveConfig,
    },
    pairing::{MillerLoopOutput, Pairing, PairingOutput},
    AdditiveGroup, AffineRepr, CurveGroup, PrimeGroup,
};
use ark_ff::{
    fields::{
        fp12_2over3over2::Fp12Config, fp2::Fp2Config, fp3::Fp3Config, fp4::Fp4Config,
        fp6_2over3::Fp6Config as Fp6o3Config, fp6_3over2::Fp6Config as Fp6o2Config,
    },
    BigInteger, Field, One, PrimeField, Zero,
};
use std::io::Write;
use std::marker::PhantomData;

// ------------------------------------------------------------------------------------------------
// helpers (same conventions as harness/src/util.rs)
// ------------------------------------------------------------------------------------------------
pub struct Rng(pub u64);
impl Rng {
    pub fn new(seed: u64) -> Self {
        Rng(seed ^ 0x9E37_79B9_7F4A_7C15)
    }
    /// SplitMix64
    pub fn next(&mut self) -> u64 {
        self.0 = self.0.wrapping_add(0x9E37_79B9_7F4A_7C15);
        let mut z = self.0;
        z = (z ^ (z >> 30)).wrapping_mul(0xBF58_476D_1CE4_E5B9);
        z = (z ^ (z >> 27)).wrapping_mul(0x94D0_49BB_1331_11EB);
        z ^ (z >> 31)
    }
    pub fn below(&mut self, n: u64) -> u64 {
        if n == 0 { 0 } else { self.next() % n }
    }
}

pub fn hex_limbs(l: &[u64]) -> String {
    let mut s = String::new();
    let mut started = false;
    for x in l.iter().rev() {
        if started {
            s.push_str(&format!("{:016x}", x));
        } else if *x != 0 {
            s.push_str(&format!("{:x}", x));
            started = true;
        }
    }
    if !started {
        s.push('0');
    }
    s
}
pub fn hex_list_u64(b: &[u64]) -> String {
    if b.is_empty() {
        return "_".into();
    }
    b.iter().map(|x| format!("{:x}", x)).collect::<Vec<_>>().join(",")
}
pub fn hex_i64(x: i64) -> String {
    if x < 0 { format!("-{:x}", (x as i128).unsigned_abs()) } else { format!("{:x}", x) }
}
pub fn hex_list_i8(b: &[i8]) -> String {
    if b.is_empty() {
        return "_".into();
    }
    b.iter().map(|x| hex_i64(*x as i64)).collect::<Vec<_>>().join(",")
}

pub struct Out {
    w: std::io::BufWriter<std::io::Stdout>,
    pub count: u64,
}
impl Out {
    pub fn new() -> Self {
        Out { w: std::io::BufWriter::with_capacity(1 << 20, std::io::stdout()), count: 0 }
    }
    pub fn line(&mut self, input: &str, result: &str) {
        writeln!(self.w, "C06 {} => {}", input, result).unwrap();
        self.count += 1;
    }
    pub fn flush(&mut self) {
        self.w.flush().unwrap();
    }
}

pub fn guarded<F: FnOnce() -> String>(f: F) -> String {
    match std::panic::catch_unwind(std::panic::AssertUnwindSafe(f)) {
        Ok(s) => s,
        Err(_) => "panic".into(),
    }
}

fn fe<F: PrimeField>(x: &F) -> String {
    hex_limbs(x.into_bigint().as_ref())
}
/// coordinates over the base prime field
fn el<F: Field>(x: &F) -> String {
    x.to_base_prime_field_elements().map(|c| fe(&c)).collect::<Vec<_>>().join(",")
}
fn els<F: Field>(xs: &[F]) -> String {
    if xs.is_empty() {
        return "_".into();
    }
    xs.iter().map(|x| el(x)).collect::<Vec<_>>().join(",")
}
fn big<B: BigInteger>(b: &B) -> String {
    hex_limbs(b.as_ref())
}
fn b01(b: bool) -> &'static str {
    if b { "1" } else { "0" }
}
fn semi(v: Vec<String>) -> String {
    if v.is_empty() { "_".into() } else { v.join(";") }
}

// ------------------------------------------------------------------------------------------------
// families
// ------------------------------------------------------------------------------------------------
trait Fam {
    type E: Pairing;
    /// the `cfg` header (without id)
    fn header() -> String;
    /// dump of `G2Prepared::from(q)`
    fn g2prep(q: &<Self::E as Pairing>::G2Affine) -> String;
    /// dump of `G1Prepared::from(p)` (MNT only)
    fn g1prep(_p: &<Self::E as Pairing>::G1Affine) -> Option<String> {
        None
    }
    /// subgroup points with special coordinates (x = 0, x = ±1, small x): legal inputs that random
    /// multiples of the generator never produce
    fn special_g1() -> Vec<<Self::E as Pairing>::G1Affine>;
    fn special_g2() -> Vec<<Self::E as Pairing>::G2Affine>;
}

/// points of the prime-order subgroup whose x-coordinate is 0, ±1, ±2, 3 (where the curve has such a point and
/// it lies in the subgroup, e.g. always when the cofactor is one)
fn sw_special<C: SWCurveConfig>() -> Vec<ark_ec::short_weierstrass::Affine<C>> {
    let mut v = Vec::new();
    let one = C::BaseField::one();
    let xs = [C::BaseField::zero(), one, -one, one + one, -(one + one), one + one + one];
    for x in xs {
        for greatest in [false, true] {
            if let Some(p) = ark_ec::short_weierstrass::Affine::<C>::get_point_from_x_unchecked(x, greatest) {
                if p.is_in_correct_subgroup_assuming_on_curve() && !v.contains(&p) {
                    v.push(p);
                }
            }
        }
    }
    v
}

fn tower12<P: Fp12Config>() -> String {
    type C6<P> = <P as Fp12Config>::Fp6Config;
    type C2<P> = <C6<P> as Fp6o2Config>::Fp2Config;
    format!(
        "nr2={} fr2={} nr6={} fr6c1={} fr6c2={} nr12={} fr12={}",
        el(&<C2<P> as Fp2Config>::NONRESIDUE),
        els(<C2<P> as Fp2Config>::FROBENIUS_COEFF_FP2_C1),
        el(&<C6<P> as Fp6o2Config>::NONRESIDUE),
        els(<C6<P> as Fp6o2Config>::FROBENIUS_COEFF_FP6_C1),
        els(<C6<P> as Fp6o2Config>::FROBENIUS_COEFF_FP6_C2),
        el(&P::NONRESIDUE),
        els(P::FROBENIUS_COEFF_FP12_C1),
    )
}
fn tower6o3<P: Fp6o3Config>() -> String {
    type C3<P> = <P as Fp6o3Config>::Fp3Config;
    format!(
        "nr3={} fr3c1={} fr3c2={} nr6={} fr6={}",
        el(&<C3<P> as Fp3Config>::NONRESIDUE),
        els(<C3<P> as Fp3Config>::FROBENIUS_COEFF_FP3_C1),
        els(<C3<P> as Fp3Config>::FROBENIUS_COEFF_FP3_C2),
        el(&P::NONRESIDUE),
        els(P::FROBENIUS_COEFF_FP6_C1),
    )
}
fn tower4<P: Fp4Config>() -> String {
    type C2<P> = <P as Fp4Config>::Fp2Config;
    format!(
        "nr2={} fr2={} nr4={} fr4={}",
        el(&<C2<P> as Fp2Config>::NONRESIDUE),
        els(<C2<P> as Fp2Config>::FROBENIUS_COEFF_FP2_C1),
        el(&P::NONRESIDUE),
        els(P::FROBENIUS_COEFF_FP4_C1),
    )
}

fn coeffs3<F: Field>(v: &[(F, F, F)]) -> String {
    semi(v.iter().map(|(a, b, c)| format!("{},{},{}", el(a), el(b), el(c))).collect())
}

struct BlsFam<P>(PhantomData<P>);
impl<P: Bls12Config> Fam for BlsFam<P> {
    fn special_g1() -> Vec<<Self::E as Pairing>::G1Affine> {
        sw_special::<P::G1Config>()
    }
    fn special_g2() -> Vec<<Self::E as Pairing>::G2Affine> {
        sw_special::<P::G2Config>()
    }
    type E = Bls12<P>;
    fn header() -> String {
        format!(
            "bls12 p={} r={} {} x={} xneg={} tw={} b2={}",
            big(&P::Fp::MODULUS),
            big(&<Bls12<P> as Pairing>::ScalarField::MODULUS),
            tower12::<P::Fp12Config>(),
            hex_list_u64(P::X),
            b01(P::X_IS_NEGATIVE),
            match P::TWIST_TYPE { bls12::TwistType::M => "M", bls12::TwistType::D => "D" },
            el(&<P::G2Config as SWCurveConfig>::COEFF_B),
        )
    }
    fn g2prep(q: &bls12::G2Affine<P>) -> String {
        let pr = bls12::G2Prepared::<P>::from(*q);
        if pr.infinity { "inf".into() } else { coeffs3(&pr.ell_coeffs) }
    }
}

struct BnFam<P>(PhantomData<P>);
impl<P: BnConfig> Fam for BnFam<P> {
    fn special_g1() -> Vec<<Self::E as Pairing>::G1Affine> {
        sw_special::<P::G1Config>()
    }
    fn special_g2() -> Vec<<Self::E as Pairing>::G2Affine> {
        sw_special::<P::G2Config>()
    }
    type E = Bn<P>;
    fn header() -> String {
        format!(
            "bn p={} r={} {} x={} xneg={} alc={} tw={} qx={} qy={} b2={}",
            big(&P::Fp::MODULUS),
            big(&<Bn<P> as Pairing>::ScalarField::MODULUS),
            tower12::<P::Fp12Config>(),
            hex_list_u64(P::X),
            b01(P::X_IS_NEGATIVE),
            hex_list_i8(P::ATE_LOOP_COUNT),
            match P::TWIST_TYPE { bn::TwistType::M => "M", bn::TwistType::D => "D" },
            el(&P::TWIST_MUL_BY_Q_X),
            el(&P::TWIST_MUL_BY_Q_Y),
            el(&<P::G2Config as SWCurveConfig>::COEFF_B),
        )
    }
    fn g2prep(q: &bn::G2Affine<P>) -> String {
        let pr = bn::G2Prepared::<P>::from(*q);
        if pr.infinity { "inf".into() } else { coeffs3(&pr.ell_coeffs) }
    }
}

/// `HARD` = 1 when the configuration overrides `final_exponentiation_hard_part` (BW6-761)
struct Bw6Fam<P, const HARD: u8>(PhantomData<P>);
impl<P: BW6Config, const HARD: u8> Fam for Bw6Fam<P, HARD> {
    fn special_g1() -> Vec<<Self::E as Pairing>::G1Affine> {
        sw_special::<P::G1Config>()
    }
    fn special_g2() -> Vec<<Self::E as Pairing>::G2Affine> {
        sw_special::<P::G2Config>()
    }
    type E = BW6<P>;
    fn header() -> String {
        format!(
            "bw6 p={} r={} {} x={} xneg={} xm1d3={} alc1={} alc1neg={} alc2={} alc2neg={} tw={} ht={} hy={} tmodr={} b2={} hard={}",
            big(&P::Fp::MODULUS),
            big(&<BW6<P> as Pairing>::ScalarField::MODULUS),
            tower6o3::<P::Fp6Config>(),
            hex_list_u64(P::X.as_ref()),
            b01(P::X_IS_NEGATIVE),
            hex_list_u64(P::X_MINUS_1_DIV_3.as_ref()),
            hex_list_u64(P::ATE_LOOP_COUNT_1),
            b01(P::ATE_LOOP_COUNT_1_IS_NEGATIVE),
            hex_list_i8(P::ATE_LOOP_COUNT_2),
            b01(P::ATE_LOOP_COUNT_2_IS_NEGATIVE),
            match P::TWIST_TYPE { bw6::TwistType::M => "M", bw6::TwistType::D => "D" },
            hex_i64(P::H_T),
            hex_i64(P::H_Y),
            b01(P::T_MOD_R_IS_ZERO),
            el(&<P::G2Config as SWCurveConfig>::COEFF_B),
            if HARD == 1 { "761" } else { "gen" },
        )
    }
    fn g2prep(q: &bw6::G2Affine<P>) -> String {
        let pr = bw6::G2Prepared::<P>::from(*q);
        if pr.infinity {
            "inf".into()
        } else {
            format!("{}/{}", coeffs3(&pr.ell_coeffs_1), coeffs3(&pr.ell_coeffs_2))
        }
    }
}

/// BW6-761 with the *generic* `final_exponentiation_hard_part` of `ec/src/models/bw6/mod.rs`
/// (the shipped configuration overrides it): same constants, no override.  Reaches the
/// `T_MOD_R_IS_ZERO == false` branch (Algorithm 4.4) of the generic hard part.
#[derive(PartialEq, Eq)]
pub struct Bw6_761Generic;
impl BW6Config for Bw6_761Generic {
    const X: <ark_bw6_761::Fq as PrimeField>::BigInt = <ark_bw6_761::Config as BW6Config>::X;
    const X_IS_NEGATIVE: bool = <ark_bw6_761::Config as BW6Config>::X_IS_NEGATIVE;
    const X_MINUS_1_DIV_3: <ark_bw6_761::Fq as PrimeField>::BigInt = <ark_bw6_761::Config as BW6Config>::X_MINUS_1_DIV_3;
    const ATE_LOOP_COUNT_1: &'static [u64] = <ark_bw6_761::Config as BW6Config>::ATE_LOOP_COUNT_1;
    const ATE_LOOP_COUNT_1_IS_NEGATIVE: bool = <ark_bw6_761::Config as BW6Config>::ATE_LOOP_COUNT_1_IS_NEGATIVE;
    const ATE_LOOP_COUNT_2: &'static [i8] = <ark_bw6_761::Config as BW6Config>::ATE_LOOP_COUNT_2;
    const ATE_LOOP_COUNT_2_IS_NEGATIVE: bool = <ark_bw6_761::Config as BW6Config>::ATE_LOOP_COUNT_2_IS_NEGATIVE;
    const TWIST_TYPE: bw6::TwistType = <ark_bw6_761::Config as BW6Config>::TWIST_TYPE;
    const H_T: i64 = <ark_bw6_761::Config as BW6Config>::H_T;
    const H_Y: i64 = <ark_bw6_761::Config as BW6Config>::H_Y;
    const T_MOD_R_IS_ZERO: bool = <ark_bw6_761::Config as BW6Config>::T_MOD_R_IS_ZERO;
    type Fp = ark_bw6_761::Fq;
    type Fp3Config = ark_bw6_761::Fq3Config;
    type Fp6Config = ark_bw6_761::Fq6Config;
    type G1Config = ark_bw6_761::g1::Config;
    type G2Config = ark_bw6_761::g2::Config;
}

struct Mnt4Fam<P>(PhantomData<P>);
impl<P: MNT4Config> Fam for Mnt4Fam<P> {
    fn special_g1() -> Vec<<Self::E as Pairing>::G1Affine> {
        sw_special::<P::G1Config>()
    }
    fn special_g2() -> Vec<<Self::E as Pairing>::G2Affine> {
        sw_special::<P::G2Config>()
    }
    type E = MNT4<P>;
    fn header() -> String {
        format!(
            "mnt4 p={} r={} {} twist={} twa={} alc={} alcneg={} w1={} w0neg={} w0={}",
            big(&P::Fp::MODULUS),
            big(&P::Fr::MODULUS),
            tower4::<P::Fp4Config>(),
            el(&P::TWIST),
            el(&P::TWIST_COEFF_A),
            hex_list_i8(P::ATE_LOOP_COUNT),
            b01(P::ATE_IS_LOOP_COUNT_NEG),
            hex_list_u64(P::FINAL_EXPONENT_LAST_CHUNK_1.as_ref()),
            b01(P::FINAL_EXPONENT_LAST_CHUNK_W0_IS_NEG),
            hex_list_u64(P::FINAL_EXPONENT_LAST_CHUNK_ABS_OF_W0.as_ref()),
        )
    }
    fn g2prep(q: &mnt4::G2Affine<P>) -> String {
        let pr = mnt4::G2Prepared::<P>::from(*q);
        format!(
            "{};{};{};{}/{}/{}",
            el(&pr.x),
            el(&pr.y),
            el(&pr.x_over_twist),
            el(&pr.y_over_twist),
            semi(pr.double_coefficients.iter().map(|c| format!("{},{},{},{}", el(&c.c_h), el(&c.c_4c), el(&c.c_j), el(&c.c_l))).collect()),
            semi(pr.addition_coefficients.iter().map(|c| format!("{},{}", el(&c.c_l1), el(&c.c_rz))).collect()),
        )
    }
    fn g1prep(p: &mnt4::G1Affine<P>) -> Option<String> {
        let pr = mnt4::G1Prepared::<P>::from(*p);
        Some(format!("{};{};{};{}", fe(&pr.x), fe(&pr.y), el(&pr.x_twist), el(&pr.y_twist)))
    }
}

struct Mnt6Fam<P>(PhantomData<P>);
impl<P: MNT6Config> Fam for Mnt6Fam<P> {
    fn special_g1() -> Vec<<Self::E as Pairing>::G1Affine> {
        sw_special::<P::G1Config>()
    }
    fn special_g2() -> Vec<<Self::E as Pairing>::G2Affine> {
        sw_special::<P::G2Config>()
    }
    type E = MNT6<P>;
    fn header() -> String {
        format!(
            "mnt6 p={} r={} {} twist={} twa={} alc={} alcneg={} w1={} w0neg={} w0={}",
            big(&P::Fp::MODULUS),
            big(&P::Fr::MODULUS),
            tower6o3::<P::Fp6Config>(),
            el(&P::TWIST),
            el(&P::TWIST_COEFF_A),
            hex_list_i8(P::ATE_LOOP_COUNT),
            b01(P::ATE_IS_LOOP_COUNT_NEG),
            hex_list_u64(P::FINAL_EXPONENT_LAST_CHUNK_1.as_ref()),
            b01(P::FINAL_EXPONENT_LAST_CHUNK_W0_IS_NEG),
            hex_list_u64(P::FINAL_EXPONENT_LAST_CHUNK_ABS_OF_W0.as_ref()),
        )
    }
    fn g2prep(q: &mnt6::G2Affine<P>) -> String {
        let pr = mnt6::G2Prepared::<P>::from(*q);
        format!(
            "{};{};{};{}/{}/{}",
            el(&pr.x),
            el(&pr.y),
            el(&pr.x_over_twist),
            el(&pr.y_over_twist),
            semi(pr.double_coefficients.iter().map(|c| format!("{},{},{},{}", el(&c.c_h), el(&c.c_4c), el(&c.c_j), el(&c.c_l))).collect()),
            semi(pr.addition_coefficients.iter().map(|c| format!("{},{}", el(&c.c_l1), el(&c.c_rz))).collect()),
        )
    }
    fn g1prep(p: &mnt6::G1Affine<P>) -> Option<String> {
        let pr = mnt6::G1Prepared::<P>::from(*p);
        Some(format!("{};{};{};{}", fe(&pr.x), fe(&pr.y), el(&pr.x_twist), el(&pr.y_twist)))
    }
}

// ------------------------------------------------------------------------------------------------
// generic op stream
// ------------------------------------------------------------------------------------------------
type Fr<E> = <E as Pairing>::ScalarField;
type A1<E> = <E as Pairing>::G1Affine;
type A2<E> = <E as Pairing>::G2Affine;
type Tf<E> = <E as Pairing>::TargetField;
type G1p<E> = <E as Pairing>::G1;
type G2p<E> = <E as Pairing>::G2;

fn pt1<E: Pairing>(p: &A1<E>) -> String {
    match p.xy() {
        None => "inf".into(),
        Some((x, y)) => format!("{},{}", fe(&x), fe(&y)),
    }
}
fn pt2<E: Pairing>(q: &A2<E>) -> String {
    match q.xy() {
        None => "inf".into(),
        Some((x, y)) => format!("{},{}", el(&x), el(&y)),
    }
}
fn g1<E: Pairing>(s: &Fr<E>) -> A1<E> {
    (G1p::<E>::generator() * *s).into_affine()
}
fn g2<E: Pairing>(s: &Fr<E>) -> A2<E> {
    (G2p::<E>::generator() * *s).into_affine()
}
fn rand_fr<E: Pairing>(rng: &mut Rng) -> Fr<E> {
    let n = (Fr::<E>::MODULUS_BIT_SIZE as usize + 7) / 8 + 8;
    let bytes: Vec<u8> = (0..n).map(|_| rng.next() as u8).collect();
    Fr::<E>::from_le_bytes_mod_order(&bytes)
}
fn small_fr<E: Pairing>(rng: &mut Rng) -> Fr<E> {
    Fr::<E>::from(3 + rng.below(1 << 16))
}
/// a scalar of the classes {0, 1, 2, r-1, small random, random}
fn any_fr<E: Pairing>(rng: &mut Rng) -> Fr<E> {
    match rng.below(12) {
        0 => Fr::<E>::zero(),
        1 => Fr::<E>::one(),
        2 => Fr::<E>::from(2u64),
        3 => -Fr::<E>::one(),
        4 | 5 | 6 => small_fr::<E>(rng),
        _ => rand_fr::<E>(rng),
    }
}
fn nz_fr<E: Pairing>(rng: &mut Rng) -> Fr<E> {
    loop {
        let s = if rng.below(3) == 0 { small_fr::<E>(rng) } else { rand_fr::<E>(rng) };
        if !s.is_zero() {
            return s;
        }
    }
}
fn rand_tf<E: Pairing>(rng: &mut Rng) -> Tf<E> {
    let d = Tf::<E>::extension_degree() as usize;
    let n = (<E::BaseField as PrimeField>::MODULUS_BIT_SIZE as usize + 7) / 8 + 8;
    let cs: Vec<<Tf<E> as Field>::BasePrimeField> = (0..d)
        .map(|_| {
            let bytes: Vec<u8> = (0..n).map(|_| rng.next() as u8).collect();
            <Tf<E> as Field>::BasePrimeField::from_le_bytes_mod_order(&bytes)
        })
        .collect();
    Tf::<E>::from_base_prime_field_elems(cs).unwrap()
}

/// the real `E::pairing` as a printable result
fn pair_s<E: Pairing>(p: &A1<E>, q: &A2<E>) -> String {
    let (p, q) = (*p, *q);
    guarded(|| el(&E::pairing(p, q).0))
}
fn multi_s<E: Pairing>(ps: &[A1<E>], qs: &[A2<E>]) -> String {
    let (ps, qs) = (ps.to_vec(), qs.to_vec());
    guarded(|| el(&E::multi_pairing(ps, qs).0))
}
fn miller_s<E: Pairing>(ps: &[A1<E>], qs: &[A2<E>]) -> String {
    let (ps, qs) = (ps.to_vec(), qs.to_vec());
    guarded(|| el(&E::multi_miller_loop(ps, qs).0))
}
fn fexp_s<E: Pairing>(f: &Tf<E>) -> String {
    let f = *f;
    guarded(|| match E::final_exponentiation(MillerLoopOutput(f)) {
        Some(r) => el(&r.0),
        None => "none".into(),
    })
}
fn pts1<E: Pairing>(ps: &[A1<E>]) -> String {
    semi(ps.iter().map(|p| pt1::<E>(p)).collect())
}
fn pts2<E: Pairing>(qs: &[A2<E>]) -> String {
    semi(qs.iter().map(|q| pt2::<E>(q)).collect())
}

struct Budget {
    /// scalars of the deterministic grid (conformance `pairing` lines on all ordered pairs)
    grid: Vec<i64>,
    /// random conformance pairings
    conf_pairings: usize,
    /// list lengths of the conformance `multi` lines
    conf_multi: Vec<usize>,
    /// rounds of the real-code tests (each round: bilinearity on ~14 scalar pairs, additivity, multi 0..=9)
    test_rounds: usize,
    /// conformance lines of the small ops (miller / finalexp / prep / g2prep / out*)
    small: usize,
    /// `t_fepow` lines (each costs a ~4000-bit exponentiation in the driver)
    fepow: usize,
    /// groups of three random scalar pairs in each bilinearity round (besides the 11 fixed pairs)
    bilin_groups: usize,
    /// `g2prep` dumps of random points (besides the generator and the identity)
    g2prep_extra: usize,
}

fn scalar_of<E: Pairing>(k: i64) -> Fr<E> {
    if k < 0 { -Fr::<E>::from((-k) as u64) } else { Fr::<E>::from(k as u64) }
}

fn run<Fm: Fam>(o: &mut Out, id: &str, rng: &mut Rng, bud: &Budget) {
    type E<Fm> = <Fm as Fam>::E;
    let deg = Tf::<E<Fm>>::extension_degree();
    o.line(&format!("cfg {} {}", id, Fm::header()), &format!("{:x}", deg));
    let gen1 = G1p::<E<Fm>>::generator().into_affine();
    let gen2 = G2p::<E<Fm>>::generator().into_affine();
    let o1 = A1::<E<Fm>>::zero();
    let o2 = A2::<E<Fm>>::zero();

    // ---- non-degeneracy, identity -------------------------------------------------------------
    o.line(&format!("t_nondeg {}", id), &pair_s::<E<Fm>>(&gen1, &gen2));
    o.line(&format!("t_idl {} {}", id, pt2::<E<Fm>>(&gen2)), &pair_s::<E<Fm>>(&o1, &gen2));
    o.line(&format!("t_idr {} {}", id, pt1::<E<Fm>>(&gen1)), &pair_s::<E<Fm>>(&gen1, &o2));
    o.line(&format!("t_idl {} inf", id), &pair_s::<E<Fm>>(&o1, &o2));

    // ---- conformance: deterministic grid of multiples of the generators ---------------------------
    for &a in &bud.grid {
        for &b in &bud.grid {
            let p = g1::<E<Fm>>(&scalar_of::<E<Fm>>(a));
            let q = g2::<E<Fm>>(&scalar_of::<E<Fm>>(b));
            o.line(&format!("pairing {} {} {}", id, pt1::<E<Fm>>(&p), pt2::<E<Fm>>(&q)), &pair_s::<E<Fm>>(&p, &q));
        }
    }
    for _ in 0..bud.conf_pairings {
        let p = g1::<E<Fm>>(&any_fr::<E<Fm>>(rng));
        let q = g2::<E<Fm>>(&any_fr::<E<Fm>>(rng));
        o.line(&format!("pairing {} {} {}", id, pt1::<E<Fm>>(&p), pt2::<E<Fm>>(&q)), &pair_s::<E<Fm>>(&p, &q));
    }

    // ---- special coordinates (x = 0, ±1, …) against generator and random partners ---------------------
    {
        let s1 = Fm::special_g1();
        let s2 = Fm::special_g2();
        for p in s1.iter() {
            for q in [gen2, g2::<E<Fm>>(&nz_fr::<E<Fm>>(rng))] {
                o.line(&format!("pairing {} {} {}", id, pt1::<E<Fm>>(p), pt2::<E<Fm>>(&q)), &pair_s::<E<Fm>>(p, &q));
            }
        }
        for q in s2.iter() {
            for p in [gen1, g1::<E<Fm>>(&nz_fr::<E<Fm>>(rng))] {
                o.line(&format!("pairing {} {} {}", id, pt1::<E<Fm>>(&p), pt2::<E<Fm>>(q)), &pair_s::<E<Fm>>(&p, q));
            }
        }
        if let (Some(p), Some(q)) = (s1.first(), s2.first()) {
            o.line(&format!("pairing {} {} {}", id, pt1::<E<Fm>>(p), pt2::<E<Fm>>(q)), &pair_s::<E<Fm>>(p, q));
        }
    }

    // ---- conformance: multi-pairings / Miller loops ------------------------------------------------
    for (k, &len) in bud.conf_multi.iter().enumerate() {
        let (ps, qs) = multi_lists::<E<Fm>>(rng, len, k % 3);
        o.line(&format!("multi {} {} {}", id, pts1::<E<Fm>>(&ps), pts2::<E<Fm>>(&qs)), &multi_s::<E<Fm>>(&ps, &qs));
    }
    for k in 0..bud.small {
        let (len, shape) = [(1usize, 0usize), (2, 0), (2, 1), (5, 0), (1, 1), (0, 0), (5, 2), (6, 1)][k % 8];
        let (ps, qs) = multi_lists::<E<Fm>>(rng, len, shape);
        let m = miller_s::<E<Fm>>(&ps, &qs);
        o.line(&format!("miller {} {} {}", id, pts1::<E<Fm>>(&ps), pts2::<E<Fm>>(&qs)), &m);
    }

    {
        // lists of different lengths (`zip_eq`): outside the property, model conformance only
        let (ps, qs) = multi_lists::<E<Fm>>(rng, 2, 0);
        o.line(&format!("multi {} {} {}", id, pts1::<E<Fm>>(&ps), pts2::<E<Fm>>(&qs[..1])), &multi_s::<E<Fm>>(&ps, &qs[..1]));
    }

    // ---- conformance + tests: final exponentiation ------------------------------------------------
    {
        let mut fs: Vec<Tf<E<Fm>>> = vec![Tf::<E<Fm>>::one(), Tf::<E<Fm>>::zero()];
        for _ in 0..bud.small {
            fs.push(rand_tf::<E<Fm>>(rng));
        }
        for k in 0..bud.small {
            let (ps, qs) = multi_lists::<E<Fm>>(rng, 1 + k % 2, 0);
            let (ps2, qs2) = (ps.clone(), qs.clone());
            if let Ok(m) = std::panic::catch_unwind(std::panic::AssertUnwindSafe(|| E::<Fm>::multi_miller_loop(ps2, qs2).0)) {
                fs.push(m);
            }
        }
        for f in &fs {
            o.line(&format!("finalexp {} {}", id, el(f)), &fexp_s::<E<Fm>>(f));
        }
        for k in 0..fs.len() {
            let f = fs[k];
            let g = fs[(k * 7 + 3) % fs.len()];
            if f.is_zero() || g.is_zero() {
                continue;
            }
            o.line(
                &format!("t_femul {} {} {}", id, fexp_s::<E<Fm>>(&f), fexp_s::<E<Fm>>(&g)),
                &fexp_s::<E<Fm>>(&(f * g)),
            );
        }
        for f in fs.iter().skip(2).take(bud.fepow) {
            o.line(&format!("t_fepow {} {}", id, el(f)), &fexp_s::<E<Fm>>(f));
        }
    }

    // ---- conformance + tests: prepared inputs ----------------------------------------------------
    for k in 0..bud.small {
        let p = g1::<E<Fm>>(&if k == 0 { Fr::<E<Fm>>::one() } else { any_fr::<E<Fm>>(rng) });
        let q = g2::<E<Fm>>(&if k == 0 { Fr::<E<Fm>>::one() } else { any_fr::<E<Fm>>(rng) });
        let prep = guarded(|| {
            let pp = <E<Fm> as Pairing>::G1Prepared::from(p);
            let qp = <E<Fm> as Pairing>::G2Prepared::from(q);
            el(&E::<Fm>::pairing(pp, qp).0)
        });
        if k < 2 {
            o.line(&format!("prep {} {} {}", id, pt1::<E<Fm>>(&p), pt2::<E<Fm>>(&q)), &prep);
        }
        o.line(&format!("t_prep {} {}", id, pair_s::<E<Fm>>(&p, &q)), &prep);
        // projective inputs go through `into_affine().into()`
        let prj = guarded(|| {
            let pj: <E<Fm> as Pairing>::G1 = p.into();
            let qj: <E<Fm> as Pairing>::G2 = q.into();
            let pj = pj.double().double() - pj - pj - pj;
            let qj = qj.double() - qj;
            el(&E::<Fm>::pairing(pj, qj).0)
        });
        o.line(&format!("t_prep {} {}", id, pair_s::<E<Fm>>(&p, &q)), &prj);
    }
    {
        let mut qs = vec![gen2, o2];
        for _ in 0..bud.g2prep_extra {
            qs.push(g2::<E<Fm>>(&nz_fr::<E<Fm>>(rng)));
        }
        for q in &qs {
            let q = *q;
            o.line(&format!("g2prep {} {}", id, pt2::<E<Fm>>(&q)), &guarded(|| Fm::g2prep(&q)));
        }
        let mut ps = vec![gen1, o1];
        ps.push(g1::<E<Fm>>(&nz_fr::<E<Fm>>(rng)));
        for p in &ps {
            let p = *p;
            if Fm::g1prep(&p).is_some() {
                o.line(&format!("g1prep {} {}", id, pt1::<E<Fm>>(&p)), &guarded(|| Fm::g1prep(&p).unwrap()));
            }
        }
    }

    // ---- conformance: `PairingOutput` group structure ------------------------------------------
    {
        let e1 = E::<Fm>::pairing(gen1, gen2);
        let e2 = E::<Fm>::pairing(g1::<E<Fm>>(&small_fr::<E<Fm>>(rng)), g2::<E<Fm>>(&nz_fr::<E<Fm>>(rng)));
        let zero = PairingOutput::<E<Fm>>::zero();
        let pairs = [(e1, e2), (e2, e1), (e1, e1), (e1, zero), (zero, e2), (zero, zero)];
        for (k, (a, b)) in pairs.iter().enumerate() {
            if k >= bud.small + 2 {
                break;
            }
            let (a, b) = (*a, *b);
            o.line(&format!("outadd {} {} {}", id, el(&a.0), el(&b.0)), &guarded(|| el(&(a + b).0)));
            o.line(&format!("outsub {} {} {}", id, el(&a.0), el(&b.0)), &guarded(|| el(&(a - b).0)));
            o.line(&format!("outneg {} {}", id, el(&a.0)), &guarded(|| el(&(-a).0)));
            o.line(&format!("outdbl {} {}", id, el(&a.0)), &guarded(|| el(&a.double().0)));
            let s = if k == 0 { -Fr::<E<Fm>>::one() } else { any_fr::<E<Fm>>(rng) };
            o.line(&format!("outmul {} {} {}", id, el(&a.0), fe(&s)), &guarded(|| el(&(a * s).0)));
        }
    }

    // ---- tests of the real code --------------------------------------------------------------
    for round in 0..bud.test_rounds {
        // bilinearity: base points (P0, Q0), e0 = e(P0, Q0)
        let (s0, t0) = if round == 0 {
            (Fr::<E<Fm>>::one(), Fr::<E<Fm>>::one())
        } else {
            (nz_fr::<E<Fm>>(rng), nz_fr::<E<Fm>>(rng))
        };
        let p0 = g1::<E<Fm>>(&s0);
        let q0 = g2::<E<Fm>>(&t0);
        let e0 = pair_s::<E<Fm>>(&p0, &q0);
        let m1 = -Fr::<E<Fm>>::one();
        let z = Fr::<E<Fm>>::zero();
        let one = Fr::<E<Fm>>::one();
        let two = Fr::<E<Fm>>::from(2u64);
        let mut ab: Vec<(Fr<E<Fm>>, Fr<E<Fm>>)> = vec![
            (z, one), (one, z), (z, z), (one, one), (two, one), (one, two), (two, two),
            (m1, one), (one, m1), (m1, m1), (m1, two),
        ];
        for _ in 0..bud.bilin_groups {
            ab.push((small_fr::<E<Fm>>(rng), small_fr::<E<Fm>>(rng)));
            ab.push((rand_fr::<E<Fm>>(rng), rand_fr::<E<Fm>>(rng)));
            ab.push((any_fr::<E<Fm>>(rng), any_fr::<E<Fm>>(rng)));
        }
        for (a, b) in &ab {
            let pa = (G1p::<E<Fm>>::from(p0) * *a).into_affine();
            let qb = (G2p::<E<Fm>>::from(q0) * *b).into_affine();
            o.line(&format!("t_bilin {} {} {} {}", id, fe(a), fe(b), e0), &pair_s::<E<Fm>>(&pa, &qb));
        }
        // additivity in each argument (with P' = P, P' = -P, P' = O among the cases)
        for k in 0..6 {
            let p = g1::<E<Fm>>(&nz_fr::<E<Fm>>(rng));
            let q = g2::<E<Fm>>(&nz_fr::<E<Fm>>(rng));
            let p2 = match k { 0 => p, 1 => (-G1p::<E<Fm>>::from(p)).into_affine(), 2 => o1, _ => g1::<E<Fm>>(&any_fr::<E<Fm>>(rng)) };
            let q2 = match k { 0 => q, 1 => (-G2p::<E<Fm>>::from(q)).into_affine(), 2 => o2, _ => g2::<E<Fm>>(&any_fr::<E<Fm>>(rng)) };
            let psum = (G1p::<E<Fm>>::from(p) + G1p::<E<Fm>>::from(p2)).into_affine();
            let qsum = (G2p::<E<Fm>>::from(q) + G2p::<E<Fm>>::from(q2)).into_affine();
            o.line(
                &format!("t_addl {} {} {}", id, pair_s::<E<Fm>>(&p, &q), pair_s::<E<Fm>>(&p2, &q)),
                &pair_s::<E<Fm>>(&psum, &q),
            );
            o.line(
                &format!("t_addr {} {} {}", id, pair_s::<E<Fm>>(&p, &q), pair_s::<E<Fm>>(&p, &q2)),
                &pair_s::<E<Fm>>(&p, &qsum),
            );
        }
        // identity
        let q = g2::<E<Fm>>(&nz_fr::<E<Fm>>(rng));
        let p = g1::<E<Fm>>(&nz_fr::<E<Fm>>(rng));
        o.line(&format!("t_idl {} {}", id, pt2::<E<Fm>>(&q)), &pair_s::<E<Fm>>(&o1, &q));
        o.line(&format!("t_idr {} {}", id, pt1::<E<Fm>>(&p)), &pair_s::<E<Fm>>(&p, &o2));
        // multi-pairing = product of the singles, all lengths 0..=9, three list shapes
        for len in 0..=9usize {
            for shape in 0..3 {
                if len == 0 && shape > 0 {
                    continue;
                }
                let (ps, qs) = multi_lists::<E<Fm>>(rng, len, shape);
                let singles: Vec<String> = ps.iter().zip(qs.iter()).map(|(p, q)| pair_s::<E<Fm>>(p, q)).collect();
                o.line(&format!("t_multi {} {}", id, semi(singles)), &multi_s::<E<Fm>>(&ps, &qs));
            }
        }
    }
}

/// lists for a multi-pairing: shape 0 = random non-identity multiples of the generators,
/// shape 1 = identity entries interspersed (either side), shape 2 = repeated entries
fn multi_lists<E: Pairing>(rng: &mut Rng, len: usize, shape: usize) -> (Vec<A1<E>>, Vec<A2<E>>) {
    let mut ps: Vec<A1<E>> = Vec::new();
    let mut qs: Vec<A2<E>> = Vec::new();
    for i in 0..len {
        let mut p = g1::<E>(&nz_fr::<E>(rng));
        let mut q = g2::<E>(&nz_fr::<E>(rng));
        match shape {
            1 => match rng.below(4) {
                0 => p = A1::<E>::zero(),
                1 => q = A2::<E>::zero(),
                _ => {},
            },
            2 => {
                if i > 0 && rng.below(2) == 0 {
                    let j = rng.below(i as u64) as usize;
                    p = ps[j];
                    if rng.below(2) == 0 {
                        q = qs[j];
                    }
                }
            },
            _ => {},
        }
        ps.push(p);
        qs.push(q);
    }
    if shape == 1 && len > 0 {
        // make sure at least one identity entry is present
        let j = rng.below(len as u64) as usize;
        if rng.below(2) == 0 { ps[j] = A1::<E>::zero() } else { qs[j] = A2::<E>::zero() }
    }
    (ps, qs)
}

fn main() {
    let args: Vec<String> = std::env::args().collect();
    let tier = args.get(1).map(|s| s.as_str()).unwrap_or("quick").to_string();
    let seed: u64 = args.get(2).and_then(|s| s.parse().ok()).unwrap_or(1);
    let only: Option<String> = args.get(3).cloned();
    let thorough = tier == "thorough";
    std::panic::set_hook(Box::new(|_| {}));
    let mut rng = Rng::new(seed);
    let mut o = Out::new();

    // budgets: `mid` for the 254–381-bit curves, `big` for the 753/761/767-bit ones
    // budgets: `mid` for the 254–381-bit curves, `big` for the 753/761/767-bit ones.  The quick tier is
    // sized for <= 30 s of driver time in total (about 0.1 s per conformance pairing on 381 bits).
    let mid = if thorough {
        Budget {
            grid: vec![0, 1, 2, -1],
            conf_pairings: 80,
            conf_multi: (0..=9).chain(vec![5, 6, 7, 8, 9, 4, 3, 2, 1, 5, 9, 8]).collect(),
            test_rounds: 16,
            small: 9,
            fepow: 2,
            bilin_groups: 3,
            g2prep_extra: 2,
        }
    } else {
        Budget { grid: vec![0, 1, -1], conf_pairings: 2, conf_multi: vec![0, 2, 5, 9], test_rounds: 1, small: 2, fepow: 1, bilin_groups: 1, g2prep_extra: 1 }
    };
    let small298 = if thorough {
        Budget {
            grid: vec![0, 1, 2, -1],
            conf_pairings: 80,
            conf_multi: (0..=9).chain(vec![5, 6, 7, 8, 9, 4, 3, 2, 1]).collect(),
            test_rounds: 16,
            small: 9,
            fepow: 2,
            bilin_groups: 3,
            g2prep_extra: 2,
        }
    } else {
        Budget { grid: vec![0, 1, 2, -1], conf_pairings: 4, conf_multi: vec![0, 1, 2, 3, 5, 9], test_rounds: 1, small: 3, fepow: 1, bilin_groups: 1, g2prep_extra: 1 }
    };
    let big = if thorough {
        Budget { grid: vec![0, 1, -1], conf_pairings: 16, conf_multi: vec![0, 1, 2, 3, 4, 5, 6, 9], test_rounds: 6, small: 4, fepow: 2, bilin_groups: 3, g2prep_extra: 1 }
    } else {
        Budget { grid: vec![0, 1], conf_pairings: 1, conf_multi: vec![0, 2, 5], test_rounds: 1, small: 2, fepow: 1, bilin_groups: 1, g2prep_extra: 0 }
    };
    let m = if thorough { 10 } else { 1 };

    if tier == "selfcheck" {
        // pure-Rust confirmation (no driver involved) of `multi_pairing = sum of pairings` on k copies of
        // the generator pair, k = 4, 5
        fn sc<E: Pairing>(name: &str) {
            for k in [4usize, 5, 8, 9] {
                let ps = vec![E::G1::generator().into_affine(); k];
                let qs = vec![E::G2::generator().into_affine(); k];
                let e = E::pairing(ps[0], qs[0]);
                let sum = (0..k).fold(PairingOutput::<E>::zero(), |acc, _| acc + e);
                let m = E::multi_pairing(ps, qs);
                println!("{} k={} multi_pairing == k*e(G1,G2): {}", name, k, m == sum);
            }
        }
        sc::<ark_bls12_381::Bls12_381>("bls12_381");
        sc::<ark_bls12_377::Bls12_377>("bls12_377");
        sc::<ark_bn254::Bn254>("bn254");
        sc::<ark_mnt4_298::MNT4_298>("mnt4_298");
        sc::<ark_mnt6_298::MNT6_298>("mnt6_298");
        sc::<ark_bw6_761::BW6_761>("bw6_761");
        sc::<ark_bw6_767::BW6_767>("bw6_767");
        return;
    }
    let tiny = Budget { grid: vec![1, 0], conf_pairings: m, conf_multi: vec![5], test_rounds: 1, small: 2, fepow: 1, bilin_groups: 0, g2prep_extra: 0 };
    // quick: the power-map test of the BLS12 final exponentiation runs on bls381 only (1.6 s of driver time each)
    let tiny_nofe = Budget { fepow: if thorough { 1 } else { 0 }, ..Budget { grid: vec![1, 0], conf_pairings: m, conf_multi: vec![5], test_rounds: 1, small: 2, fepow: 0, bilin_groups: 0, g2prep_extra: 0 } };
    let mid_nofe = Budget { fepow: if thorough { 2 } else { 0 }, grid: mid.grid.clone(), conf_multi: mid.conf_multi.clone(), ..mid };
    let want = |id: &str| only.as_deref().map_or(true, |x| x == id);
    if want("tc_bls381") {
        run::<BlsFam<ark_test_curves::bls12_381::Config>>(&mut o, "tc_bls381", &mut rng, &tiny_nofe);
    }
    if want("bw6_761g") {
        run::<Bw6Fam<Bw6_761Generic, 0>>(&mut o, "bw6_761g", &mut rng, &tiny);
    }
    if want("bls381") {
        run::<BlsFam<ark_bls12_381::Config>>(&mut o, "bls381", &mut rng, &mid);
    }
    if want("bls377") {
        run::<BlsFam<ark_bls12_377::Config>>(&mut o, "bls377", &mut rng, &mid_nofe);
    }
    if want("bn254") {
        run::<BnFam<ark_bn254::Config>>(&mut o, "bn254", &mut rng, &mid);
    }
    if want("mnt4_298") {
        run::<Mnt4Fam<ark_mnt4_298::Config>>(&mut o, "mnt4_298", &mut rng, &small298);
    }
    if want("mnt6_298") {
        run::<Mnt6Fam<ark_mnt6_298::Config>>(&mut o, "mnt6_298", &mut rng, &small298);
    }
    if want("bw6_761") {
        run::<Bw6Fam<ark_bw6_761::Config, 1>>(&mut o, "bw6_761", &mut rng, &big);
    }
    if want("bw6_767") {
        run::<Bw6Fam<ark_bw6_767::Config, 0>>(&mut o, "bw6_767", &mut rng, &big);
    }
    if want("mnt4_753") {
        run::<Mnt4Fam<ark_mnt4_753::Config>>(&mut o, "mnt4_753", &mut rng, &big);
    }
    if want("mnt6_753") {
        run::<Mnt6Fam<ark_mnt6_753::Config>>(&mut o, "mnt6_753", &mut rng, &big);
    }
    o.flush();
    eprintln!("C06 lines: {}", o.count);
}
