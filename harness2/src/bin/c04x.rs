//! C04x harness: the GLV paths of EVERY shipped `GLVConfig` (the ten of the curve crates + `ark_test_curves`
//! bls12_381 g1), run on the real curve.
//!
//! Line protocol (numbers lower-case hex; field elements = comma separated base-prime-field coordinates;
//! points `x:y`, identity `inf`; limb slices comma separated, `_` = empty):
//!
//!   C04 xcfg <id> <tower> <p> <a> <b> <N> <r> <cofactor limbs> <glv|def> <λ> <β> <n11> <n12> <n21> <n22> <G> => <0|1>
//!         tower = fp | fp2:<nonresidue>;  `glv` = the configuration overrides `mul_projective` with
//!         `glv_mul_projective`, `def` = trait default;  n_ij signed;  result: G.is_on_curve() && r·G = O
//!   C04 xdec  <id> <k>                    => <s1> <k1> <s2> <k2>     GLVConfig::scalar_decomposition(k)
//!   C04 xendo <id> <aff|proj> <P>         => <point>                 endomorphism_affine / endomorphism
//!   C04 xglv  <id> <which> <P> <k|limbs>  => <point>
//!         which = glv.proj | glv.aff      GLVConfig::glv_mul_projective / glv_mul_affine          (k ∈ Fr)
//!               | mul.proj | mul.aff      Projective * Fr / Affine * Fr                           (k ∈ Fr)
//!               | bigint.proj | bigint.aff  Projective::mul_bigint / Affine::mul_bigint           (raw &[u64])
//!   C04 xendo_off / xglv_off : the same calls on a point of the curve OUTSIDE the order-r subgroup, on a path
//!         that goes through GLV (there `φ(P) = λP` is not expected; the verdict may be `note:`).  Paths that do NOT
//!         go through GLV (`mul_affine`, a default `mul_projective`) are printed as `xglv` also for such points.
//!
//! Command line: `c04x [quick|thorough] [seed] [substring of the ids to run]`.
#![allow(clippy::type_complexity)]

use ark_ec::{
    models::{
        short_weierstrass::{Affine, Projective, SWCurveConfig},
        CurveConfig,
    },
    scalar_mul::glv::GLVConfig,
    AffineRepr, CurveGroup, PrimeGroup,
};
use ark_ff::{fields::fp2::Fp2Config, BigInteger, Field, One, PrimeField, UniformRand, Zero};
use ark_std::rand::RngCore;
use num_bigint::BigUint;
use std::io::Write;

// ------------------------------------------------------------------------------------------------
// helpers (same conventions as c12.rs)
// ------------------------------------------------------------------------------------------------
#[derive(Clone)]
struct Sm(u64);
impl Sm {
    fn new(seed: u64) -> Self {
        Sm(seed ^ 0x9E37_79B9_7F4A_7C15)
    }
    fn next(&mut self) -> u64 {
        self.0 = self.0.wrapping_add(0x9E37_79B9_7F4A_7C15);
        let mut z = self.0;
        z = (z ^ (z >> 30)).wrapping_mul(0xBF58_476D_1CE4_E5B9);
        z = (z ^ (z >> 27)).wrapping_mul(0x94D0_49BB_1331_11EB);
        z ^ (z >> 31)
    }
    fn below(&mut self, n: u64) -> u64 {
        self.next() % n
    }
}
impl RngCore for Sm {
    fn next_u32(&mut self) -> u32 {
        (self.next() >> 32) as u32
    }
    fn next_u64(&mut self) -> u64 {
        self.next()
    }
    fn fill_bytes(&mut self, dest: &mut [u8]) {
        for ch in dest.chunks_mut(8) {
            let v = self.next().to_le_bytes();
            ch.copy_from_slice(&v[..ch.len()]);
        }
    }
    fn try_fill_bytes(&mut self, dest: &mut [u8]) -> Result<(), ark_std::rand::Error> {
        self.fill_bytes(dest);
        Ok(())
    }
}

struct Out {
    w: std::io::BufWriter<std::io::Stdout>,
}
impl Out {
    fn line(&mut self, input: &str, result: &str) {
        writeln!(self.w, "{} => {}", input, result).unwrap();
    }
}
fn guarded<F: FnOnce() -> String>(f: F) -> String {
    match std::panic::catch_unwind(std::panic::AssertUnwindSafe(f)) {
        Ok(s) => s,
        Err(_) => "panic".into(),
    }
}
fn hex_limbs(l: &[u64]) -> String {
    let mut s = String::new();
    let mut started = false;
    for x in l.iter().rev() {
        if started {
            s.push_str(&format!("{:016x}", x));
        } else if *x != 0 {
            s.push_str(&format!("{:x}", x));
            started = true;
        }
    }
    if !started {
        s.push('0');
    }
    s
}
fn limb_list(l: &[u64]) -> String {
    if l.is_empty() {
        return "_".into();
    }
    l.iter().map(|x| format!("{:x}", x)).collect::<Vec<_>>().join(",")
}
fn big<B: BigInteger>(b: &B) -> String {
    hex_limbs(b.as_ref())
}
fn fe<F: PrimeField>(x: &F) -> String {
    big(&x.into_bigint())
}
fn el<F: Field>(x: &F) -> String {
    x.to_base_prime_field_elements().map(|c| fe(&c)).collect::<Vec<_>>().join(",")
}
fn biguint(l: &[u64]) -> BigUint {
    let mut b = BigUint::from(0u32);
    for x in l.iter().rev() {
        b = (b << 64) + BigUint::from(*x);
    }
    b
}
/// exactly `n` little-endian limbs of `b` (`b < 2^(64n)`)
fn limbs_n(b: &BigUint, n: usize) -> Vec<u64> {
    let mut v = b.to_u64_digits();
    assert!(v.len() <= n);
    v.resize(n, 0);
    v
}
fn tw_fp2<P: Fp2Config>() -> String {
    format!("fp2:{}", fe(&P::NONRESIDUE))
}
/// small field element number `k`: prime field `k`; degree `d` extension: the base-3 digits of `k`
fn small_elem<F: Field>(k: u64) -> F {
    let d = F::extension_degree() as usize;
    if d == 1 {
        return F::from(k);
    }
    let mut k = k;
    let mut cs = Vec::new();
    for _ in 0..d {
        cs.push(F::BasePrimeField::from(k % 3));
        k /= 3;
    }
    F::from_base_prime_field_elems(cs).unwrap()
}

type Fr<P> = <P as CurveConfig>::ScalarField;
type Fq<P> = <P as CurveConfig>::BaseField;
type FrBig<P> = <Fr<P> as PrimeField>::BigInt;

fn show<P: SWCurveConfig>(a: &Affine<P>) -> String {
    match a.xy() {
        None => "inf".into(),
        Some((x, y)) => format!("{}:{}", el(&x), el(&y)),
    }
}
fn showp<P: SWCurveConfig>(g: &Projective<P>) -> String {
    show(&g.into_affine())
}
fn signed<B: BigInteger>((pos, v): (bool, B)) -> String {
    if pos || v.is_zero() {
        big(&v)
    } else {
        format!("-{}", big(&v))
    }
}

struct Ctx {
    out: Out,
    thorough: bool,
    seed: u64,
    only: Option<String>,
}

/// another Jacobian representative `(x c², y c³, c)` of an affine point
fn rescale<P: SWCurveConfig>(a: &Affine<P>, c: Fq<P>) -> Projective<P> {
    match a.xy() {
        None => Projective::<P>::zero(),
        Some((x, y)) => {
            let c2 = c.square();
            Projective::<P>::new_unchecked(x * c2, y * c2 * c, c)
        },
    }
}

// ------------------------------------------------------------------------------------------------
// scalar corpora
// ------------------------------------------------------------------------------------------------
fn rand_below(rng: &mut Sm, n: &BigUint) -> BigUint {
    let limbs = (n.bits() as usize + 63) / 64 + 1;
    let v: Vec<u64> = (0..limbs).map(|_| rng.next()).collect();
    biguint(&v) % n
}
/// random integer of a random bit length ≤ `bits`, in one of several shapes
fn rand_shaped(rng: &mut Sm, bits: u64) -> BigUint {
    let len = 1 + rng.below(bits);
    let limbs = (len as usize + 63) / 64;
    let one = BigUint::from(1u32);
    let mask = (&one << len) - &one;
    match rng.below(4) {
        0 => biguint(&(0..limbs).map(|_| rng.next()).collect::<Vec<_>>()) & mask,
        1 => mask, // run of ones
        2 => {
            // sparse
            let mut b = BigUint::from(0u32);
            for _ in 0..1 + rng.below(4) {
                b |= &one << rng.below(len);
            }
            b
        },
        _ => {
            // dense: few zero bits
            let mut b = mask.clone();
            for _ in 0..1 + rng.below(4) {
                let bit = &one << rng.below(len);
                if (&b & &bit) != BigUint::from(0u32) {
                    b -= bit;
                }
            }
            b
        },
    }
}

struct Consts {
    r: BigUint,
    lambda: BigUint,
    /// |n11|, |n12|, |n21|, |n22|
    n: [BigUint; 4],
    nlimbs: usize,
    rbits: u64,
}
fn consts<P: GLVConfig>() -> Consts {
    let c = P::SCALAR_DECOMP_COEFFS;
    Consts {
        r: biguint(Fr::<P>::MODULUS.as_ref()),
        lambda: biguint(P::LAMBDA.into_bigint().as_ref()),
        n: [biguint(c[0].1.as_ref()), biguint(c[1].1.as_ref()), biguint(c[2].1.as_ref()), biguint(c[3].1.as_ref())],
        nlimbs: FrBig::<P>::NUM_LIMBS,
        rbits: Fr::<P>::MODULUS_BIT_SIZE as u64,
    }
}

/// deterministic edge scalars for `scalar_decomposition` (all reduced modulo r), then `n_rand` random ones
fn dec_corpus(c: &Consts, rng: &mut Sm, n_rand: usize, n_round: usize) -> Vec<BigUint> {
    let r = &c.r;
    let one = BigUint::from(1u32);
    let two = BigUint::from(2u32);
    let mut v: Vec<BigUint> = Vec::new();
    let pm = |v: &mut Vec<BigUint>, x: &BigUint, d: u32| {
        // x - d … x + d (mod r)
        for i in 0..=d {
            v.push((x + BigUint::from(i)) % r);
            v.push((x + r - BigUint::from(i)) % r);
        }
    };
    for i in 0u32..5 {
        v.push(BigUint::from(i));
    }
    pm(&mut v, &(r - &one), 3);
    pm(&mut v, &((r - &one) / &two), 2);
    pm(&mut v, &c.lambda, 2);
    pm(&mut v, &(r - &c.lambda), 2);
    pm(&mut v, &((&c.lambda * &two) % r), 1);
    pm(&mut v, &((&c.lambda * &c.lambda) % r), 1);
    pm(&mut v, &(&c.lambda / &two), 1);
    // powers of two and their neighbours
    for i in 0..c.rbits {
        let p = &one << i;
        pm(&mut v, &p, 1);
    }
    // the lattice coefficients, their multiples, products, neighbours
    for a in c.n.iter() {
        for m in 1u32..=4 {
            pm(&mut v, &((a * BigUint::from(m)) % r), 2);
            pm(&mut v, &(r - (a * BigUint::from(m)) % r), 2);
        }
        pm(&mut v, &(a / &two), 1);
        for b in c.n.iter() {
            pm(&mut v, &((a * b) % r), 1);
            pm(&mut v, &((a + b) % r), 1);
            pm(&mut v, &((a + r - b) % r), 1);
        }
        pm(&mut v, &((a * &c.lambda) % r), 1);
    }
    // rounding boundaries of β1 = round(k·n22 / r), β2 = round(-k·n12 / r): k ≈ (2j+1)·r / (2n)
    for a in [&c.n[3], &c.n[1]] {
        if a.is_zero() {
            continue;
        }
        let mut js: Vec<BigUint> = (0u32..6).map(BigUint::from).collect();
        if a > &one {
            js.push(a - &one);
            js.push(a / &two);
        }
        for _ in 0..n_round {
            js.push(rand_below(rng, a));
        }
        for j in js {
            let k = ((&j * &two + &one) * r) / (a * &two);
            pm(&mut v, &(k % r), 2);
        }
    }
    for i in 0..n_rand {
        if i % 3 == 0 {
            v.push(rand_shaped(rng, c.rbits) % r);
        } else {
            v.push(rand_below(rng, r));
        }
    }
    let mut seen = std::collections::HashSet::new();
    v.retain(|x| seen.insert(x.clone()));
    v
}

/// scalars (field elements) for the multiplication paths, most important first
fn mul_scalars(c: &Consts, rng: &mut Sm, n: usize) -> Vec<BigUint> {
    let r = &c.r;
    let one = BigUint::from(1u32);
    let two = BigUint::from(2u32);
    let half = 64 * c.nlimbs as u64 / 2;
    let mut v = vec![
        rand_below(rng, r),
        BigUint::from(0u32),
        BigUint::from(1u32),
        r - &one,
        c.lambda.clone(),
        rand_below(rng, r),
        BigUint::from(2u32),
        r - &c.lambda,
        (r - &one) / &two,
        (&c.lambda + &one) % r,
        c.n[0].clone() % r,
        rand_shaped(rng, c.rbits) % r,
        (&one << (c.rbits - 1)) % r,
        ((&one << (c.rbits - 1)) - &one) % r,
        r - &two,
        (&one << half.min(c.rbits - 1)) % r,
        c.n[3].clone() % r,
        (&c.n[0] + &c.n[2]) % r,
        (r + &c.lambda - &one) % r,
        (&one << 64u32) % r,
        ((&one << 64u32) - &one) % r,
        (r + &one) / &two,
    ];
    while v.len() < n {
        let k = if v.len() % 4 == 0 { rand_shaped(rng, c.rbits) % r } else { rand_below(rng, r) };
        v.push(k);
    }
    v.truncate(n);
    v
}

/// raw limb slices for `mul_bigint`: value ≥ r, leading zero limbs, longer than N limbs, shorter, empty
fn limb_slices(c: &Consts, rng: &mut Sm, n: usize) -> Vec<Vec<u64>> {
    let nl = c.nlimbs;
    let one = BigUint::from(1u32);
    let r = &c.r;
    let full = (&one << (64 * nl)) - &one;
    let mut v: Vec<Vec<u64>> = vec![
        vec![],
        {
            let mut l = vec![0u64; nl + 1];
            l[0] = 5;
            l
        },
        limbs_n(r, nl),
        limbs_n(&full, nl),
        {
            // longer than N limbs with a non-zero top limb
            let mut l: Vec<u64> = (0..nl + 1).map(|_| rng.next()).collect();
            l[nl] = 1 + rng.below(1 << 20);
            l
        },
        limbs_n(&(r + &one), nl),
        vec![rng.next()],
        vec![0u64; nl],
        {
            // k < r with two leading zero limbs appended
            let mut l = limbs_n(&rand_below(rng, r), nl);
            l.push(0);
            l.push(0);
            l
        },
        limbs_n(&(r + &c.lambda).min(full.clone()), nl),
        vec![0, 0, 0, 0, 0, 0, 0, 0, 0, 0, 0, 0, 0, 0, 0, 0],
        {
            let mut l = limbs_n(r, nl + 1);
            l[nl] = 1; // r + 2^(64N)
            l
        },
        vec![1],
        limbs_n(&((r * 2u32).min(full.clone())), nl),
        limbs_n(&(r - &one), nl + 1),
    ];
    while v.len() < n {
        let len = match rng.below(4) {
            0 => 1 + rng.below(nl as u64) as usize,
            1 => nl,
            _ => nl + 1 + rng.below(2) as usize,
        };
        let mut l: Vec<u64> = (0..len).map(|_| rng.next()).collect();
        if rng.below(3) == 0 {
            let z = rng.below(len as u64) as usize;
            for x in l.iter_mut().skip(z) {
                *x = 0;
            }
        }
        v.push(l);
    }
    v.truncate(n);
    v
}

// ------------------------------------------------------------------------------------------------
// one configuration
// ------------------------------------------------------------------------------------------------
fn run<P: GLVConfig>(ctx: &mut Ctx, id: &str, tower: &str, ovr: bool) {
    if let Some(o) = &ctx.only {
        if !id.contains(o.as_str()) {
            return;
        }
    }
    type Bpf<P> = <Fq<P> as Field>::BasePrimeField;
    let c = consts::<P>();
    let nl = c.nlimbs;
    let cof = <P as CurveConfig>::COFACTOR;
    let cof_one = biguint(cof) == BigUint::from(1u32);
    let rl: Vec<u64> = Fr::<P>::MODULUS.as_ref().to_vec();
    let g = Affine::<P>::generator();
    let sd = P::SCALAR_DECOMP_COEFFS;
    let mut rng = Sm::new(ctx.seed ^ id.bytes().fold(0x04u64, |a, b| a.wrapping_mul(131).wrapping_add(b as u64)));

    // ---- header
    let head = format!(
        "C04 xcfg {} {} {} {} {} {:x} {} {} {} {} {} {} {} {} {} {}",
        id,
        tower,
        big(&Bpf::<P>::MODULUS),
        el(&P::COEFF_A),
        el(&P::COEFF_B),
        nl,
        big(&Fr::<P>::MODULUS),
        limb_list(cof),
        if ovr { "glv" } else { "def" },
        fe(&P::LAMBDA),
        el(&P::ENDO_COEFFS[0]),
        signed(sd[0]),
        signed(sd[1]),
        signed(sd[2]),
        signed(sd[3]),
        show(&g)
    );
    let res = guarded(|| if g.is_on_curve() && g.mul_bigint(&rl).is_zero() { "1".into() } else { "0".into() });
    ctx.out.line(&head, &res);

    // ---- cost of one reference multiplication in the driver relative to a 256-bit curve over a prime field
    let deg = Fq::<P>::extension_degree() as usize;
    let fbits = Bpf::<P>::MODULUS_BIT_SIZE as f64;
    let weight = [1.0, 1.0, 1.6, 2.0][deg.min(3)] * (fbits / 256.0).powi(2) * (c.rbits as f64 / 256.0);
    let scale = if ctx.thorough { 10.0 } else { 1.0 };
    // (P, k) groups on the field-element paths (6 lines each) and raw limb slices (2 lines each)
    let n_f = ((30.0 / weight.sqrt()) * scale).max(8.0) as usize;
    let n_l = ((22.0 / weight.sqrt()) * scale).max(8.0) as usize;
    let n_pts = ((8.0 / weight.sqrt()) * scale.sqrt()).max(3.0) as usize;

    // ---- scalar_decomposition
    let (n_rand, n_round) = if ctx.thorough { (12000, 400) } else { (700, 30) };
    for k in dec_corpus(&c, &mut rng, n_rand, n_round) {
        let kf = Fr::<P>::from(k);
        let res = guarded(|| {
            let ((s1, k1), (s2, k2)) = P::scalar_decomposition(kf);
            format!("{} {} {} {}", s1 as u8, fe(&k1), s2 as u8, fe(&k2))
        });
        ctx.out.line(&format!("C04 xdec {} {}", id, fe(&kf)), &res);
    }

    // ---- points: subgroup (identity, generator, random multiples), and — cofactor > 1 — points outside it
    let mut sub: Vec<Affine<P>> = vec![g, Affine::<P>::identity()];
    for _ in 0..n_pts {
        let k = Fr::<P>::rand(&mut rng);
        sub.push(g.mul_bigint(k.into_bigint()).into_affine());
    }
    sub.push(-g);
    let mut off: Vec<Affine<P>> = Vec::new();
    if !cof_one {
        let mut k = 0u64;
        let mut whole: Vec<Affine<P>> = Vec::new();
        while whole.len() < 2 && k < 4000 {
            if let Some(p) = Affine::<P>::get_point_from_x_unchecked(small_elem::<Fq<P>>(k), whole.len() % 2 == 1) {
                if !p.mul_bigint(&rl).is_zero() {
                    whole.push(p);
                }
            }
            k += 1;
        }
        if let Some(w) = whole.first() {
            off.push(*w);
            // the component of W in the complement of the subgroup (order divides the cofactor), and G + T
            let t = w.mul_bigint(&rl).into_affine();
            off.push((g + t).into_affine());
            off.push(t);
        }
        if ctx.thorough {
            off.extend(whole.iter().skip(1));
            let x = Fq::<P>::rand(&mut rng);
            if let Some(p) = Affine::<P>::get_point_from_x_unchecked(x, true) {
                if !p.mul_bigint(&rl).is_zero() {
                    off.push(p);
                }
            }
        }
    }

    // ---- endomorphism
    let endo = |ctx: &mut Ctx, rng: &mut Sm, op: &str, p: &Affine<P>| {
        let res = guarded(|| show(&P::endomorphism_affine(p)));
        ctx.out.line(&format!("C04 {} {} aff {}", op, id, show(p)), &res);
        let mut z = Fq::<P>::rand(rng);
        if z.is_zero() {
            z = Fq::<P>::one();
        }
        let pp = rescale(p, z);
        let res = guarded(|| showp(&P::endomorphism(&pp)));
        ctx.out.line(&format!("C04 {} {} proj {}", op, id, show(p)), &res);
    };
    for p in sub.iter() {
        endo(ctx, &mut rng, "xendo", p);
    }
    for p in off.iter() {
        endo(ctx, &mut rng, "xendo_off", p);
    }

    // ---- the multiplication paths
    // which: 0 glv.proj, 1 glv.aff, 2 mul.proj, 3 mul.aff
    let field_paths = |ctx: &mut Ctx, rng: &mut Sm, p: &Affine<P>, k: &BigUint, is_off: bool| {
        let kf = Fr::<P>::from(k.clone());
        let ks = fe(&kf);
        let ps = show(p);
        let mut z = Fq::<P>::rand(rng);
        if z.is_zero() || rng.below(3) == 0 {
            z = Fq::<P>::one();
        }
        let pp = rescale(p, z);
        let glv_op = if is_off { "xglv_off" } else { "xglv" };
        let proj_op = if is_off && ovr { "xglv_off" } else { "xglv" };
        let res = guarded(|| showp(&P::glv_mul_projective(pp, kf)));
        ctx.out.line(&format!("C04 {} {} glv.proj {} {}", glv_op, id, ps, ks), &res);
        let res = guarded(|| show(&P::glv_mul_affine(*p, kf)));
        ctx.out.line(&format!("C04 {} {} glv.aff {} {}", glv_op, id, ps, ks), &res);
        let res = guarded(|| showp(&(pp * kf)));
        ctx.out.line(&format!("C04 {} {} mul.proj {} {}", proj_op, id, ps, ks), &res);
        let res = guarded(|| showp(&(*p * kf)));
        ctx.out.line(&format!("C04 xglv {} mul.aff {} {}", id, ps, ks), &res);
    };
    let limb_paths = |ctx: &mut Ctx, rng: &mut Sm, p: &Affine<P>, l: &[u64], is_off: bool| {
        let ls = limb_list(l);
        let ps = show(p);
        let mut z = Fq::<P>::rand(rng);
        if z.is_zero() || rng.below(3) == 0 {
            z = Fq::<P>::one();
        }
        let pp = rescale(p, z);
        let proj_op = if is_off && ovr { "xglv_off" } else { "xglv" };
        let res = guarded(|| showp(&pp.mul_bigint(l)));
        ctx.out.line(&format!("C04 {} {} bigint.proj {} {}", proj_op, id, ps, ls), &res);
        let res = guarded(|| showp(&p.mul_bigint(l)));
        ctx.out.line(&format!("C04 xglv {} bigint.aff {} {}", id, ps, ls), &res);
    };

    // subgroup points: point index cycles so that G, O and the random points all meet edge and random scalars
    let ks = mul_scalars(&c, &mut rng, n_f);
    for (i, k) in ks.iter().enumerate() {
        // the identity only now and then (its lines are cheap but say little)
        let p = if i % 7 == 3 { sub[1] } else if i % 3 == 0 { sub[0] } else { sub[2 + (i % (sub.len() - 2))] };
        field_paths(ctx, &mut rng, &p, k, false);
        // the same integer as exactly N limbs through `mul_bigint`
        limb_paths(ctx, &mut rng, &p, &limbs_n(k, nl), false);
    }
    let ls = limb_slices(&c, &mut rng, n_l);
    for (i, l) in ls.iter().enumerate() {
        let p = if i % 9 == 5 { sub[1] } else if i % 2 == 0 { sub[0] } else { sub[2 + (i % (sub.len() - 2))] };
        limb_paths(ctx, &mut rng, &p, l, false);
    }
    // points outside the subgroup
    if !off.is_empty() {
        let n_off = if ctx.thorough { 4 * off.len() } else { off.len() + 1 };
        let ks = mul_scalars(&c, &mut rng, n_off);
        for (i, k) in ks.iter().enumerate() {
            let p = off[i % off.len()];
            field_paths(ctx, &mut rng, &p, k, true);
            limb_paths(ctx, &mut rng, &p, &limbs_n(k, nl), true);
        }
        let ls = limb_slices(&c, &mut rng, if ctx.thorough { 12 } else { 4 });
        for (i, l) in ls.iter().enumerate() {
            let p = off[(i + 1) % off.len()];
            limb_paths(ctx, &mut rng, &p, l, true);
        }
    }
}

fn main() {
    if std::env::var("C04X_DEBUG").is_err() {
        std::panic::set_hook(Box::new(|_| {}));
    }
    let a: Vec<String> = std::env::args().collect();
    let mut ctx = Ctx {
        out: Out { w: std::io::BufWriter::with_capacity(1 << 20, std::io::stdout()) },
        thorough: a.get(1).map(|s| s == "thorough").unwrap_or(false),
        seed: a.get(2).and_then(|s| s.parse().ok()).unwrap_or(0),
        only: a.get(3).cloned(),
    };
    let cx = &mut ctx;

    // the eleven shipped `GLVConfig`s; `true` = the configuration routes `mul_projective` through GLV
    {
        use ark_test_curves::bls12_381 as c;
        run::<c::g1::Config>(cx, "test_bls12_381.g1", "fp", true);
    }
    {
        use ark_bls12_381 as c;
        run::<c::g1::Config>(cx, "bls12_381.g1", "fp", true);
        run::<c::g2::Config>(cx, "bls12_381.g2", &tw_fp2::<c::Fq2Config>(), false);
    }
    {
        use ark_bls12_377 as c;
        run::<c::g1::Config>(cx, "bls12_377.g1", "fp", true);
        run::<c::g2::Config>(cx, "bls12_377.g2", &tw_fp2::<c::Fq2Config>(), false);
    }
    {
        use ark_bn254 as c;
        run::<c::g1::Config>(cx, "bn254.g1", "fp", true);
        run::<c::g2::Config>(cx, "bn254.g2", &tw_fp2::<c::Fq2Config>(), false);
    }
    {
        use ark_bw6_761 as c;
        run::<c::g1::Config>(cx, "bw6_761.g1", "fp", false);
        run::<c::g2::Config>(cx, "bw6_761.g2", "fp", false);
    }
    run::<ark_pallas::PallasConfig>(cx, "pallas.g1", "fp", false);
    run::<ark_vesta::VestaConfig>(cx, "vesta.g1", "fp", false);

    ctx.out.w.flush().unwrap();
}
