//! C09 / C10, second correspondence stream: point (de)serialisation of EVERY shipped curve configuration
//! (the curve crates under /repo/curves, `ark-test-curves`, five toy curves with cofactor > 1), including the
//! ZCash format with which `ark-bls12-381` overrides `serialize_with_mode` / `deserialize_with_mode` /
//! `serialized_size` of G1 and G2.
//!
//! Line protocol (numbers lower-case hex; byte strings contiguous hex, `_` = empty; field elements = comma
//! separated base-prime-field coordinates; affine points `x:y`, SW identity `inf`, TE identity `0:1`; projective
//! inputs `X:Y:Z` (SW, Jacobian) / `X:Y:T:Z` (TE, extended); deserialised points are always printed affine):
//!
//!   <P> xcfg <id> <sw|te> <tower> <p> <a> <b|d> <N> <r> <cofactor limbs> <cofactor_inv> <test> <clear> <h_eff>
//!            fmt=<def|zc1|zc2> fn=<limbs of the base prime field> [k=v …]                => <size c>,<size u>
//!       (the first 13 fields and the `k=v` tokens are those of `C12 cfg`, see c12.rs)
//!   C09 xrt  <id> <aff|proj> <cy|cn|uy|un> <P>     => <bytes> <serialized_size> <de> <consumed>
//!       `serialize_with_mode`, `serialized_size`, then `deserialize_with_mode` of bytes ++ [a5,5a] through a
//!       counting reader
//!   C10 xde  <id> <aff|proj> <cy|cn|uy|un> <bytes> => <de> <consumed> <re-serialised bytes | ->
//!       `deserialize_with_mode` through a counting reader; on success the point is serialised again in the
//!       same compression mode
//!   <de> = `inf` | `x:y` | `err:<io|invalid|notenough|flags>`;  a panic anywhere prints `panic` as the whole result.
//!
//! `VERIF_STREAM_PROP=C09|C10` restricts the output to that property's lines (the header is then accounted to it).
//! Command line: `c10x [quick|thorough] [seed] [substring of the ids to run]`.
#![allow(clippy::type_complexity, clippy::too_many_arguments)]

use ark_ec::{
    models::{
        bls12::Bls12Config,
        short_weierstrass::{Affine as SWAffine, Projective as SWProjective, SWCurveConfig},
        twisted_edwards::{Affine as TEAffine, Projective as TEProjective, TECurveConfig},
        CurveConfig,
    },
    scalar_mul::glv::GLVConfig,
    AffineRepr, CurveGroup,
};
use ark_ff::{
    fields::{fp2::Fp2Config, fp3::Fp3Config},
    BigInteger, Field, One, PrimeField, UniformRand, Zero,
};
use ark_serialize::{CanonicalDeserialize, CanonicalSerialize, Compress, SerializationError, Validate};
use ark_std::rand::RngCore;
use num_bigint::BigUint;
use std::collections::HashSet;
use std::io::{Read, Write};
use std::marker::PhantomData;

// ------------------------------------------------------------------------------------------------
// helpers (as in c12.rs)
// ------------------------------------------------------------------------------------------------
#[derive(Clone)]
struct Sm(u64);
impl Sm {
    fn new(seed: u64) -> Self {
        Sm(seed ^ 0x9E37_79B9_7F4A_7C15)
    }
    fn next(&mut self) -> u64 {
        self.0 = self.0.wrapping_add(0x9E37_79B9_7F4A_7C15);
        let mut z = self.0;
        z = (z ^ (z >> 30)).wrapping_mul(0xBF58_476D_1CE4_E5B9);
        z = (z ^ (z >> 27)).wrapping_mul(0x94D0_49BB_1331_11EB);
        z ^ (z >> 31)
    }
}
impl RngCore for Sm {
    fn next_u32(&mut self) -> u32 {
        (self.next() >> 32) as u32
    }
    fn next_u64(&mut self) -> u64 {
        self.next()
    }
    fn fill_bytes(&mut self, dest: &mut [u8]) {
        for ch in dest.chunks_mut(8) {
            let v = self.next().to_le_bytes();
            ch.copy_from_slice(&v[..ch.len()]);
        }
    }
    fn try_fill_bytes(&mut self, dest: &mut [u8]) -> Result<(), ark_std::rand::Error> {
        self.fill_bytes(dest);
        Ok(())
    }
}

struct Out {
    w: std::io::BufWriter<std::io::Stdout>,
    n: usize,
}
impl Out {
    fn line(&mut self, input: &str, result: &str) {
        writeln!(self.w, "{} => {}", input, result).unwrap();
        self.n += 1;
    }
}
fn aff<A: AffineRepr>(g: A::Group) -> Option<A> {
    std::panic::catch_unwind(std::panic::AssertUnwindSafe(|| g.into())).ok()
}
fn guarded<F: FnOnce() -> String>(f: F) -> String {
    match std::panic::catch_unwind(std::panic::AssertUnwindSafe(f)) {
        Ok(s) => s,
        Err(_) => "panic".into(),
    }
}
fn hex_limbs(l: &[u64]) -> String {
    let mut s = String::new();
    let mut started = false;
    for x in l.iter().rev() {
        if started {
            s.push_str(&format!("{:016x}", x));
        } else if *x != 0 {
            s.push_str(&format!("{:x}", x));
            started = true;
        }
    }
    if !started {
        s.push('0');
    }
    s
}
fn limb_list(l: &[u64]) -> String {
    if l.is_empty() {
        return "_".into();
    }
    l.iter().map(|x| format!("{:x}", x)).collect::<Vec<_>>().join(",")
}
fn big<B: BigInteger>(b: &B) -> String {
    hex_limbs(b.as_ref())
}
fn fe<F: PrimeField>(x: &F) -> String {
    big(&x.into_bigint())
}
fn el<F: Field>(x: &F) -> String {
    x.to_base_prime_field_elements().map(|c| fe(&c)).collect::<Vec<_>>().join(",")
}
fn biguint(l: &[u64]) -> BigUint {
    let mut b = BigUint::from(0u32);
    for x in l.iter().rev() {
        b = (b << 64) + BigUint::from(*x);
    }
    b
}
fn limbs_of(b: &BigUint) -> Vec<u64> {
    let v = b.to_u64_digits();
    if v.is_empty() {
        vec![0]
    } else {
        v
    }
}
fn limbs_from_hex(h: &str) -> Vec<u64> {
    limbs_of(&BigUint::parse_bytes(h.as_bytes(), 16).unwrap())
}
fn tw_fp2<P: Fp2Config>() -> String {
    format!("fp2:{}", fe(&P::NONRESIDUE))
}
fn tw_fp3<P: Fp3Config>() -> String {
    format!("fp3:{}", fe(&P::NONRESIDUE))
}
fn glv_str<P: GLVConfig>() -> String {
    let sg = |(pos, v): (bool, <P::ScalarField as PrimeField>::BigInt)| {
        if pos || v.is_zero() {
            big(&v)
        } else {
            format!("-{}", big(&v))
        }
    };
    let c = P::SCALAR_DECOMP_COEFFS;
    format!(
        "{:x}:{}:{}:{}:{}:{}:{}:{}",
        <P::ScalarField as PrimeField>::BigInt::NUM_LIMBS,
        big(&P::ScalarField::MODULUS),
        fe(&P::LAMBDA),
        el(&P::ENDO_COEFFS[0]),
        sg(c[0]),
        sg(c[1]),
        sg(c[2]),
        sg(c[3])
    )
}
fn hexb(b: &[u8]) -> String {
    if b.is_empty() {
        return "_".into();
    }
    let mut s = String::with_capacity(2 * b.len());
    for x in b {
        s.push_str(&format!("{:02x}", x));
    }
    s
}

/// counting reader: how many bytes did the deserialiser take from the input
struct CountRd<'a> {
    inner: &'a [u8],
    n: usize,
}
impl<'a> Read for CountRd<'a> {
    fn read(&mut self, buf: &mut [u8]) -> std::io::Result<usize> {
        let k = self.inner.read(buf)?;
        self.n += k;
        Ok(k)
    }
}
fn err_str(e: &SerializationError) -> &'static str {
    match e {
        SerializationError::NotEnoughSpace => "notenough",
        SerializationError::InvalidData => "invalid",
        SerializationError::UnexpectedFlags => "flags",
        SerializationError::IoError(_) => "io",
    }
}
const TRAIL: [u8; 2] = [0xa5, 0x5a];
const MODES: [(Compress, Validate, &str); 4] = [
    (Compress::Yes, Validate::Yes, "cy"),
    (Compress::Yes, Validate::No, "cn"),
    (Compress::No, Validate::Yes, "uy"),
    (Compress::No, Validate::No, "un"),
];
fn mode_name(c: Compress, v: Validate) -> &'static str {
    match (c, v) {
        (Compress::Yes, Validate::Yes) => "cy",
        (Compress::Yes, Validate::No) => "cn",
        (Compress::No, Validate::Yes) => "uy",
        (Compress::No, Validate::No) => "un",
    }
}

// ------------------------------------------------------------------------------------------------
// the two curve models behind one interface
// ------------------------------------------------------------------------------------------------
trait Cv {
    type A: AffineRepr;
    const KIND: &'static str;
    /// flag bits of the default arkworks format
    const FLAG_BITS: usize;
    fn coeffs() -> (BF<Self>, BF<Self>);
    /// SW: `get_point_from_x_unchecked(c, greatest)`, TE: `get_point_from_y_unchecked(c, greatest)`
    fn from_coord(c: BF<Self>, greatest: bool) -> Option<Self::A>;
    fn on_curve(a: &Self::A) -> bool;
    fn show(a: &Self::A) -> String;
    /// raw projective coordinates
    fn show_proj(g: &Grp<Self>) -> String;
    /// a non-normalised representative of the same point
    fn rescale(a: &Self::A, lam: BF<Self>) -> Grp<Self>;
    fn unchecked(x: BF<Self>, y: BF<Self>) -> Self::A;
    /// raw coordinates (SW identity: the placeholders)
    fn raw(a: &Self::A) -> (BF<Self>, BF<Self>);
    fn trivial(a: &Self::A) -> bool;
    /// extra deterministic points of the whole curve (TE: the point of order two `(0, -1)`)
    fn extra() -> Vec<Self::A>;
}
type BF<C> = <<C as Cv>::A as AffineRepr>::BaseField;
type SF<C> = <<C as Cv>::A as AffineRepr>::ScalarField;
type Cfg<C> = <<C as Cv>::A as AffineRepr>::Config;
type Grp<C> = <<C as Cv>::A as AffineRepr>::Group;
type Bpf<C> = <BF<C> as Field>::BasePrimeField;

struct SW<P>(PhantomData<P>);
struct TE<P>(PhantomData<P>);

impl<P: SWCurveConfig> Cv for SW<P> {
    type A = SWAffine<P>;
    const KIND: &'static str = "sw";
    const FLAG_BITS: usize = 2;
    fn coeffs() -> (P::BaseField, P::BaseField) {
        (P::COEFF_A, P::COEFF_B)
    }
    fn from_coord(c: P::BaseField, greatest: bool) -> Option<Self::A> {
        SWAffine::<P>::get_point_from_x_unchecked(c, greatest)
    }
    fn on_curve(a: &Self::A) -> bool {
        a.is_on_curve()
    }
    fn show(a: &Self::A) -> String {
        if a.infinity {
            if a.x.is_zero() && a.y.is_zero() {
                "inf".into()
            } else {
                format!("inf!{}:{}", el(&a.x), el(&a.y))
            }
        } else {
            format!("{}:{}", el(&a.x), el(&a.y))
        }
    }
    fn show_proj(g: &SWProjective<P>) -> String {
        format!("{}:{}:{}", el(&g.x), el(&g.y), el(&g.z))
    }
    fn rescale(a: &Self::A, lam: P::BaseField) -> SWProjective<P> {
        let l2 = lam * lam;
        if a.infinity {
            SWProjective::<P>::new_unchecked(l2, l2 * lam, P::BaseField::zero())
        } else {
            SWProjective::<P>::new_unchecked(a.x * l2, a.y * l2 * lam, lam)
        }
    }
    fn unchecked(x: P::BaseField, y: P::BaseField) -> Self::A {
        SWAffine::<P>::new_unchecked(x, y)
    }
    fn raw(a: &Self::A) -> (P::BaseField, P::BaseField) {
        (a.x, a.y)
    }
    fn trivial(a: &Self::A) -> bool {
        a.infinity
    }
    fn extra() -> Vec<Self::A> {
        vec![]
    }
}
impl<P: TECurveConfig> Cv for TE<P> {
    type A = TEAffine<P>;
    const KIND: &'static str = "te";
    const FLAG_BITS: usize = 1;
    fn coeffs() -> (P::BaseField, P::BaseField) {
        (P::COEFF_A, P::COEFF_D)
    }
    fn from_coord(c: P::BaseField, greatest: bool) -> Option<Self::A> {
        TEAffine::<P>::get_point_from_y_unchecked(c, greatest)
    }
    fn on_curve(a: &Self::A) -> bool {
        a.is_on_curve()
    }
    fn show(a: &Self::A) -> String {
        format!("{}:{}", el(&a.x), el(&a.y))
    }
    fn show_proj(g: &TEProjective<P>) -> String {
        format!("{}:{}:{}:{}", el(&g.x), el(&g.y), el(&g.t), el(&g.z))
    }
    fn rescale(a: &Self::A, lam: P::BaseField) -> TEProjective<P> {
        TEProjective::<P>::new_unchecked(a.x * lam, a.y * lam, a.x * a.y * lam, lam)
    }
    fn unchecked(x: P::BaseField, y: P::BaseField) -> Self::A {
        TEAffine::<P>::new_unchecked(x, y)
    }
    fn raw(a: &Self::A) -> (P::BaseField, P::BaseField) {
        (a.x, a.y)
    }
    fn trivial(a: &Self::A) -> bool {
        a.x.is_zero() && a.y.is_one()
    }
    fn extra() -> Vec<Self::A> {
        vec![TEAffine::<P>::new_unchecked(P::BaseField::zero(), -P::BaseField::one())]
    }
}

struct Ctx {
    out: Out,
    thorough: bool,
    seed: u64,
    only: Option<String>,
    emit09: bool,
    emit10: bool,
}

// ------------------------------------------------------------------------------------------------
// byte layout of an encoding (only used to GENERATE adversarial strings, never to judge)
// ------------------------------------------------------------------------------------------------
#[derive(Clone, Debug)]
struct Slot {
    off: usize,
    len: usize,
    /// big-endian integer (ZCash) or little-endian (arkworks)
    be: bool,
    /// 0 = x, 1 = y
    coord: usize,
    /// index of the base-prime-field coefficient stored here
    coef: usize,
    /// number of flag bits in the top bits of the slot's most significant byte
    flag_bits: usize,
}
struct Layout {
    size: usize,
    slots: Vec<Slot>,
    /// byte that carries the flags (in its top bits)
    flag_byte: usize,
}
fn layout<C: Cv>(fmt: &str, c: Compress) -> Layout {
    let k = BF::<C>::extension_degree() as usize;
    let bits = Bpf::<C>::MODULUS_BIT_SIZE as usize;
    if fmt == "zc1" || fmt == "zc2" {
        // big-endian 48-byte limbs; G2: c1 before c0; flags in the top three bits of the first byte
        let coords = if c == Compress::Yes { 1 } else { 2 };
        let mut slots = Vec::new();
        let mut off = 0;
        for coord in 0..coords {
            for j in (0..k).rev() {
                slots.push(Slot { off, len: 48, be: true, coord, coef: j, flag_bits: if off == 0 { 3 } else { 0 } });
                off += 48;
            }
        }
        return Layout { size: off, slots, flag_byte: 0 };
    }
    let s0 = bits.div_ceil(8);
    let sl = (bits + C::FLAG_BITS).div_ceil(8);
    // (coord, carries flags)
    let elems: Vec<(usize, bool)> = match (C::KIND, c) {
        ("sw", Compress::Yes) => vec![(0, true)],
        ("sw", Compress::No) => vec![(0, false), (1, true)],
        ("te", Compress::Yes) => vec![(1, true)],
        _ => vec![(0, false), (1, false)],
    };
    let mut slots = Vec::new();
    let mut off = 0;
    for (coord, flagged) in elems {
        for j in 0..k {
            let last = j + 1 == k && flagged;
            let len = if last { sl } else { s0 };
            slots.push(Slot { off, len, be: false, coord, coef: j, flag_bits: if last { C::FLAG_BITS } else { 0 } });
            off += len;
        }
    }
    Layout { size: off, slots, flag_byte: off.saturating_sub(1) }
}
/// overwrite the integer of a slot, keeping the flag bits of the original string (unless `keep` is false)
fn put(b: &mut [u8], s: &Slot, v: &BigUint, keep: bool) {
    if s.off + s.len > b.len() {
        return;
    }
    let msb = if s.be { s.off } else { s.off + s.len - 1 };
    let mask: u8 = if s.flag_bits == 0 { 0 } else { 0xffu8 << (8 - s.flag_bits) };
    let old = b[msb] & mask;
    let mut le = v.to_bytes_le();
    le.resize(s.len, 0);
    le.truncate(s.len);
    if s.be {
        le.reverse();
    }
    b[s.off..s.off + s.len].copy_from_slice(&le);
    if keep {
        b[msb] = (b[msb] & !mask) | old;
    }
}
fn coef_of<F: Field>(x: &F, j: usize) -> BigUint {
    let c: Vec<F::BasePrimeField> = x.to_base_prime_field_elements().collect();
    biguint(c[j].into_bigint().as_ref())
}
/// write the field element `x` into the slots of coordinate `coord`
fn put_elem<F: Field>(b: &mut [u8], lay: &Layout, coord: usize, x: &F) {
    for s in lay.slots.iter().filter(|s| s.coord == coord) {
        put(b, s, &coef_of(x, s.coef), true);
    }
}
fn ser<T: CanonicalSerialize>(t: &T, c: Compress) -> Vec<u8> {
    let mut w = Vec::new();
    let _ = std::panic::catch_unwind(std::panic::AssertUnwindSafe(|| {
        let _ = t.serialize_with_mode(&mut w, c);
    }));
    w
}

/// small field element number `k`: prime field `k`; degree `d` extension: the base-3 digits of `k`
fn small_elem<F: Field>(k: u64) -> F {
    let d = F::extension_degree() as usize;
    if d == 1 {
        return F::from(k);
    }
    let mut k = k;
    let mut cs = Vec::new();
    for _ in 0..d {
        cs.push(F::BasePrimeField::from(k % 3));
        k /= 3;
    }
    F::from_base_prime_field_elems(cs).unwrap()
}

// ------------------------------------------------------------------------------------------------
// the two ops
// ------------------------------------------------------------------------------------------------
fn op_xrt<C: Cv>(ctx: &mut Ctx, id: &str, proj: bool, c: Compress, v: Validate, a: &C::A, g: &Grp<C>) {
    if !ctx.emit09 {
        return;
    }
    let ps = if proj { C::show_proj(g) } else { C::show(a) };
    let res = guarded(|| {
        let mut w = Vec::new();
        let (r, size) = if proj {
            (g.serialize_with_mode(&mut w, c), g.serialized_size(c))
        } else {
            (a.serialize_with_mode(&mut w, c), a.serialized_size(c))
        };
        if let Err(e) = r {
            return format!("err:{}", err_str(&e));
        }
        let mut inp = w.clone();
        inp.extend_from_slice(&TRAIL);
        let mut rd = CountRd { inner: &inp, n: 0 };
        let d = if proj {
            Grp::<C>::deserialize_with_mode(&mut rd, c, v).map(|g| C::show(&g.into_affine()))
        } else {
            C::A::deserialize_with_mode(&mut rd, c, v).map(|a| C::show(&a))
        };
        let ds = match d {
            Ok(s) => s,
            Err(e) => format!("err:{}", err_str(&e)),
        };
        format!("{} {:x} {} {:x}", hexb(&w), size, ds, rd.n)
    });
    ctx.out.line(
        &format!("C09 xrt {} {} {} {}", id, if proj { "proj" } else { "aff" }, mode_name(c, v), ps),
        &res,
    );
}

fn op_xde<C: Cv>(ctx: &mut Ctx, id: &str, proj: bool, c: Compress, v: Validate, b: &[u8]) {
    if !ctx.emit10 {
        return;
    }
    let res = guarded(|| {
        let mut rd = CountRd { inner: b, n: 0 };
        if proj {
            match Grp::<C>::deserialize_with_mode(&mut rd, c, v) {
                Ok(g) => {
                    let n = rd.n;
                    let a: C::A = g.into_affine();
                    let mut w = Vec::new();
                    match g.serialize_with_mode(&mut w, c) {
                        Ok(()) => format!("{} {:x} {}", C::show(&a), n, hexb(&w)),
                        Err(e) => format!("{} {:x} err:{}", C::show(&a), n, err_str(&e)),
                    }
                },
                Err(e) => format!("err:{} {:x} -", err_str(&e), rd.n),
            }
        } else {
            match C::A::deserialize_with_mode(&mut rd, c, v) {
                Ok(a) => {
                    let n = rd.n;
                    let mut w = Vec::new();
                    match a.serialize_with_mode(&mut w, c) {
                        Ok(()) => format!("{} {:x} {}", C::show(&a), n, hexb(&w)),
                        Err(e) => format!("{} {:x} err:{}", C::show(&a), n, err_str(&e)),
                    }
                },
                Err(e) => format!("err:{} {:x} -", err_str(&e), rd.n),
            }
        }
    });
    ctx.out.line(
        &format!("C10 xde {} {} {} {}", id, if proj { "proj" } else { "aff" }, mode_name(c, v), hexb(b)),
        &res,
    );
}

/// budget of DISTINCT non-trivial points whose validity the driver has to establish by a scalar multiplication
struct Budget {
    seen: HashSet<String>,
    max: usize,
}
impl Budget {
    /// may a line be emitted whose judgement needs `r·P` for the point printed as `key`?
    fn admit(&mut self, key: String) -> bool {
        if self.seen.contains(&key) {
            return true;
        }
        if self.seen.len() >= self.max {
            return false;
        }
        self.seen.insert(key);
        true
    }
}

/// emit one adversarial string: unchecked mode always, checked mode when it is cheap for the driver
/// (rejected before the subgroup test, identity, off the curve) or within the budget of distinct points
fn emit_str<C: Cv>(ctx: &mut Ctx, bud: &mut Budget, id: &str, b: &[u8], c: Compress, with_proj: bool) {
    op_xde::<C>(ctx, id, false, c, Validate::No, b);
    let cand = std::panic::catch_unwind(std::panic::AssertUnwindSafe(|| {
        let mut rd = CountRd { inner: b, n: 0 };
        C::A::deserialize_with_mode(&mut rd, c, Validate::No).ok()
    }))
    .unwrap_or(None);
    let checked = match &cand {
        None => true,
        Some(p) => C::trivial(p) || !C::on_curve(p) || bud.admit(C::show(p)),
    };
    if checked {
        op_xde::<C>(ctx, id, false, c, Validate::Yes, b);
    }
    if with_proj {
        op_xde::<C>(ctx, id, true, c, if checked { Validate::Yes } else { Validate::No }, b);
    }
}

fn run<C: Cv>(
    ctx: &mut Ctx,
    id: &str,
    tower: &str,
    test: &str,
    clear: &str,
    heff: Option<Vec<u64>>,
    extra: &str,
    fmt: &str,
) where
    SF<C>: PrimeField,
{
    if let Some(o) = &ctx.only {
        if !id.contains(o.as_str()) {
            return;
        }
    }
    let toy = id.starts_with("toy");
    if !ctx.thorough && id.starts_with("test_") {
        // `ark-test-curves` configurations are the subject of the first stream (harness/c09, c10)
        return;
    }
    let cof: &'static [u64] = <Cfg<C> as CurveConfig>::COFACTOR;
    let heff: Vec<u64> = heff.unwrap_or_else(|| cof.to_vec());
    let r = SF::<C>::MODULUS;
    let rl: Vec<u64> = r.as_ref().to_vec();
    let (ca, cb) = C::coeffs();
    let deg = BF::<C>::extension_degree() as usize;
    let fbits = Bpf::<C>::MODULUS_BIT_SIZE as f64;
    let rbits = SF::<C>::MODULUS_BIT_SIZE as f64;
    let p_big = biguint(Bpf::<C>::MODULUS.as_ref());
    let h_is_one = biguint(cof) == BigUint::from(1u32);

    // ---- header
    let prop = if ctx.emit10 { "C10" } else { "C09" };
    let head = format!(
        "{} xcfg {} {} {} {} {} {} {:x} {} {} {} {} {} {} fmt={} fn={:x}{}{}",
        prop,
        id,
        C::KIND,
        tower,
        big(&Bpf::<C>::MODULUS),
        el(&ca),
        el(&cb),
        <SF<C> as PrimeField>::BigInt::NUM_LIMBS,
        big(&r),
        limb_list(cof),
        fe(&<Cfg<C> as CurveConfig>::COFACTOR_INV),
        test,
        clear,
        hex_limbs(&heff),
        fmt,
        <Bpf<C> as PrimeField>::BigInt::NUM_LIMBS,
        if extra.is_empty() { "" } else { " " },
        extra
    );
    let sizes = guarded(|| {
        let z = C::A::zero();
        format!("{:x},{:x}", z.serialized_size(Compress::Yes), z.serialized_size(Compress::No))
    });
    ctx.out.line(&head, &sizes);

    // ---- budget: the driver establishes `r·P = O` once per distinct point, in the affine specification group
    // (one field inversion per group operation) and once more in the model.  `weight` ≈ cost of one such
    // multiplication relative to a 256-bit curve over a prime field (measured ≈ 25 ms in the driver, specification and model together).
    let dcost = [1.0, 1.0, 2.5, 4.0][deg.min(3)] * if C::KIND == "te" { 1.5 } else { 1.0 };
    let weight = dcost * (fbits / 256.0).powi(2) * (rbits / 256.0);
    // configurations with overridden (de)serialisers get three times the budget
    let t_pt = 25.0 * weight / if fmt == "def" { 1.0 } else { 3.0 };
    let n_pts = if toy {
        usize::MAX
    } else if ctx.thorough {
        (9000.0 / t_pt).clamp(8.0, 160.0) as usize
    } else {
        (900.0 / t_pt).clamp(4.0, 24.0) as usize
    };
    let mut bud = Budget { seen: HashSet::new(), max: n_pts };
    let mut rng = Sm::new(ctx.seed ^ id.bytes().fold(0u64, |a, b| a.wrapping_mul(131).wrapping_add(b as u64)));
    let g = C::A::generator();

    // ---- valid points: O, G, then (budget permitting) -G = (r-1)G, 2G, random multiples, points with small /
    //      largest coordinates (cofactor one: every curve point is in the group)
    let mut valid: Vec<C::A> = vec![C::A::zero(), g];
    // half of the budget for valid points (cofactor one: two thirds), then up to three points outside the
    // subgroup, the rest for whatever the adversarial strings decode to
    let n_valid = if toy { 12 } else if h_is_one { (n_pts * 2 / 3).max(1) } else { (n_pts / 2).max(1) };
    {
        let mut cands: Vec<C::A> = Vec::new();
        let k = SF::<C>::rand(&mut rng);
        cands.push(g.mul_bigint(k.into_bigint()).into());
        let mut rm1 = r;
        rm1.sub_with_borrow(&<SF<C> as PrimeField>::BigInt::from(1u64));
        cands.push(g.mul_bigint(rm1).into());
        cands.push((g + g).into());
        if h_is_one {
            for (start, neg) in [(0u64, false), (1u64, true)] {
                let mut kk = start;
                while kk < 400 {
                    let e = small_elem::<BF<C>>(kk);
                    if let Some(p) = C::from_coord(if neg { -e } else { e }, neg) {
                        cands.push(p);
                        break;
                    }
                    kk += 1;
                }
            }
        }
        while cands.len() < n_valid {
            let k = SF::<C>::rand(&mut rng);
            cands.push(g.mul_bigint(k.into_bigint()).into());
        }
        for p in cands {
            if valid.len() > n_valid {
                break;
            }
            if C::trivial(&p) || valid.iter().any(|q| *q == p) {
                continue;
            }
            valid.push(p);
        }
    }
    for p in valid.iter() {
        if !C::trivial(p) {
            bud.admit(C::show(p));
        }
    }
    // ---- points of the whole curve outside the subgroup (cofactor > 1): W from a random coordinate, NOT
    //      multiplied by the cofactor; T = r·W of small order; G + T
    let mut outside: Vec<C::A> = Vec::new();
    if !h_is_one {
        let mut tries = 0;
        while outside.is_empty() && tries < 64 {
            tries += 1;
            let c = BF::<C>::rand(&mut rng);
            let gr = rng.next() & 1 == 1;
            if let Some(w) = C::from_coord(c, gr) {
                if let Some(t) = aff::<C::A>(w.mul_bigint(&rl)) {
                    if C::trivial(&t) {
                        continue; // W happens to lie in the subgroup
                    }
                    outside.push(w);
                    outside.push(t);
                    if let Some(gt) = aff::<C::A>(g + t) {
                        outside.push(gt);
                    }
                    // a point of order two (SW: y = 0, both sign flags denote it) when the order of T is a power of two
                    let mut t2 = t;
                    for _ in 0..8 {
                        match aff::<C::A>(t2.into_group() + t2) {
                            Some(d) if C::trivial(&d) => {
                                if !outside.iter().any(|q| *q == t2) {
                                    outside.push(t2);
                                }
                                break;
                            },
                            Some(d) => t2 = d,
                            None => break,
                        }
                    }
                }
            }
        }
        for e in C::extra() {
            if !outside.iter().any(|q| *q == e) {
                outside.push(e);
            }
        }
        if toy {
            // every point of the curve
            let pm: u64 = Bpf::<C>::MODULUS.as_ref()[0];
            for k in 0..pm {
                for gr in [false, true] {
                    if let Some(p) = C::from_coord(small_elem::<BF<C>>(k), gr) {
                        let in_sub = aff::<C::A>(p.mul_bigint(&rl)).map(|t| C::trivial(&t)).unwrap_or(false);
                        if !in_sub && !outside.iter().any(|q| *q == p) {
                            outside.push(p);
                        }
                    }
                }
            }
        }
    }

    for p in outside.iter().take(3) {
        bud.admit(C::show(p));
    }

    // ---- C09: round trips
    for (i, p) in valid.iter().enumerate() {
        let lam = loop {
            let l = BF::<C>::rand(&mut rng);
            if !l.is_zero() {
                break l;
            }
        };
        let pj = if i % 3 == 2 { p.into_group() } else { C::rescale(p, lam) };
        for (c, v, _) in MODES {
            op_xrt::<C>(ctx, id, false, c, v, p, &pj);
            op_xrt::<C>(ctx, id, true, c, v, p, &pj);
        }
    }
    for (i, p) in outside.iter().enumerate() {
        // not valid: unchecked modes only
        if i >= 4 && !toy {
            break;
        }
        let pj = p.into_group();
        for (c, v, _) in MODES {
            if v == Validate::No {
                op_xrt::<C>(ctx, id, false, c, v, p, &pj);
                if i == 0 {
                    op_xrt::<C>(ctx, id, true, c, v, p, &pj);
                }
            }
        }
    }
    if !ctx.emit10 {
        return;
    }

    // ---- C10: adversarial byte strings
    let n_rand = if ctx.thorough { 24 } else if fmt != "def" { 16 } else { 4 };
    for c in [Compress::Yes, Compress::No] {
        let other = if c == Compress::Yes { Compress::No } else { Compress::Yes };
        let lay = layout::<C>(fmt, c);
        let size = lay.size;
        let main_coord = if C::KIND == "sw" { 0 } else { 1 };
        let p1 = valid[valid.len().min(3) - 1]; // a random multiple when there is one, else G
        let e_g = ser(&p1, c);
        let e_o = ser(&C::A::zero(), c);
        if e_g.len() != size || e_o.len() != size {
            eprintln!("c10x: layout size {} != serialised length {} for {} — mutations skipped", size, e_g.len(), id);
            continue;
        }
        let mut strs: Vec<Vec<u8>> = Vec::new();
        // 1. encodings of points: valid ones, their negatives, curve points outside the subgroup, small order
        for p in valid.iter() {
            strs.push(ser(p, c));
        }
        strs.push(ser(&aff::<C::A>(-p1.into_group()).unwrap_or(p1), c));
        for (i, p) in outside.iter().enumerate() {
            if i < 6 || toy || ctx.thorough {
                strs.push(ser(p, c));
            }
        }
        // 2. every combination of the three top bits of the flag byte, on a point and on the identity
        for base in [&e_g, &e_o] {
            for v in 0..8u8 {
                let mut b = base.clone();
                b[lay.flag_byte] = (b[lay.flag_byte] & 0x1f) | (v << 5);
                strs.push(b);
            }
            // each of the three top bits of the OTHER end of the string flipped
            let other_end = if lay.flag_byte == 0 { size - 1 } else { 0 };
            for bit in [7u8, 6, 5] {
                let mut b = base.clone();
                b[other_end] ^= 1 << bit;
                strs.push(b);
            }
        }
        // 3. every coefficient slot replaced by 0, 1, p-1, p, p+1, 2^k-1 below the flags, all ones
        for s in lay.slots.iter() {
            let one = BigUint::from(1u32);
            let below = (BigUint::from(1u32) << (8 * s.len - s.flag_bits)) - 1u32;
            let all = (BigUint::from(1u32) << (8 * s.len)) - 1u32;
            for (v, keep) in [
                (BigUint::from(0u32), true),
                (one.clone(), true),
                (&p_big - 1u32, true),
                (p_big.clone(), true),
                (&p_big + 1u32, true),
                (below, true),
                (all, false),
            ] {
                let mut b = e_g.clone();
                put(&mut b, s, &v, keep);
                strs.push(b);
            }
            // identity flag with a non-zero coordinate
            let mut b = e_o.clone();
            let lsb = if s.be { s.off + s.len - 1 } else { s.off };
            b[lsb] |= 1;
            strs.push(b);
            // identity encoding with ONE stray bit: every bit of the most and least significant byte of every
            // slot (this includes the bits that share a byte with the flags); thorough: every bit of the string
            let msb = if s.be { s.off } else { s.off + s.len - 1 };
            let bytes: Vec<usize> = if ctx.thorough { (s.off..s.off + s.len).collect() } else { vec![msb, lsb] };
            for byte in bytes {
                for bit in 0..8u8 {
                    let mut b = e_o.clone();
                    b[byte] ^= 1 << bit;
                    strs.push(b);
                }
            }
        }
        // 4. a coordinate from which no point can be recovered
        for _ in 0..(if ctx.thorough { 6 } else { 2 }) {
            let mut x = BF::<C>::rand(&mut rng);
            let mut tries = 0;
            while C::from_coord(x, false).is_some() && tries < 200 {
                x = BF::<C>::rand(&mut rng);
                tries += 1;
            }
            let mut b = e_g.clone();
            put_elem(&mut b, &lay, main_coord, &x);
            strs.push(b);
        }
        // 5. pairs (x, y) that are not on the curve (uncompressed)
        if c == Compress::No && !C::trivial(&p1) {
            let (x, y) = C::raw(&p1);
            let one = BF::<C>::one();
            let two = one + one;
            let mut offc: Vec<(BF<C>, BF<C>)> = vec![(x, y + one), (x + one, y), (y, x)];
            // the image of the point on an isomorphic curve `y² = x³ + a u⁴ x + b u⁶`: same group structure
            for u in [two, two + one, BF::<C>::rand(&mut rng)] {
                offc.push((x * u * u, y * u * u * u));
            }
            offc.push((x * two, y * two));
            for (x, y) in offc {
                strs.push(ser(&C::unchecked(x, y), c));
            }
        }
        // 6. constant and random strings of the advertised size
        strs.push(vec![0u8; size]);
        strs.push(vec![0xffu8; size]);
        for i in 0..n_rand {
            let mut b = vec![0u8; size];
            rng.fill_bytes(&mut b);
            if i % 2 == 1 {
                // plausible flags, integers below 2^(bits-1)
                for s in lay.slots.iter() {
                    let msb = if s.be { s.off } else { s.off + s.len - 1 };
                    let spare = 8 * s.len - (fbits as usize);
                    let keepbits = 8usize.saturating_sub(spare + 1);
                    b[msb] &= if keepbits >= 8 { 0xff } else { (1u16 << keepbits) as u8 - 1 } as u8;
                }
                b[lay.flag_byte] |= e_g[lay.flag_byte] & 0xe0;
            }
            strs.push(b);
        }
        // dedup, keep order
        let mut seen = HashSet::new();
        strs.retain(|b| seen.insert(b.clone()));
        let n_full = strs.len();
        // 7. truncations
        let lens: Vec<usize> = if toy || ctx.thorough || size <= 8 || fmt != "def" {
            (0..size).collect()
        } else {
            let s0 = lay.slots[0].len;
            let mut l = vec![0, 1, s0 - 1, s0, s0 + 1, size / 2, size - 1];
            l.retain(|x| *x < size);
            l.sort();
            l.dedup();
            l
        };
        let mut shorts: Vec<Vec<u8>> = Vec::new();
        for base in [&e_g, &e_o] {
            for l in lens.iter() {
                shorts.push(base[..*l].to_vec());
            }
        }
        // 8. trailing garbage
        let mut longs: Vec<Vec<u8>> = Vec::new();
        for base in [&e_g, &e_o, &strs[n_full - 1], &vec![0u8; size]] {
            let mut b = base.clone();
            b.extend_from_slice(&TRAIL);
            longs.push(b);
            let mut b = base.clone();
            b.extend(std::iter::repeat(0xffu8).take(size));
            longs.push(b);
        }
        // 9. encodings of the other compression mode
        let cross: Vec<Vec<u8>> = vec![ser(&p1, other), ser(&C::A::zero(), other)];

        for (i, b) in strs.iter().enumerate() {
            emit_str::<C>(ctx, &mut bud, id, b, c, i % 4 == 0 || toy);
        }
        for (i, b) in shorts.iter().chain(longs.iter()).chain(cross.iter()).enumerate() {
            emit_str::<C>(ctx, &mut bud, id, b, c, i % 4 == 0 || toy);
        }
        // toy curves: a dense family of 2-byte strings (quick), all of them (thorough)
        if toy && size == 2 {
            let b1s: Vec<u8> = if ctx.thorough { (0..=255u8).collect() } else { vec![0, 0x01, 0x40, 0x41, 0x80, 0x81, 0xc0] };
            for b0 in 0..=255u8 {
                for b1 in b1s.iter() {
                    op_xde::<C>(ctx, id, false, c, Validate::Yes, &[b0, *b1]);
                }
            }
        }
        if toy && size == 1 {
            for b0 in 0..=255u8 {
                op_xde::<C>(ctx, id, false, c, Validate::Yes, &[b0]);
                op_xde::<C>(ctx, id, false, c, Validate::No, &[b0]);
            }
        }
    }
}

// ------------------------------------------------------------------------------------------------
// toy curves with cofactor > 1 over tiny fields (as in c12.rs)
// ------------------------------------------------------------------------------------------------
mod toy {
    use ark_ec::{
        models::CurveConfig,
        short_weierstrass::{Affine as SWAffine, SWCurveConfig},
        twisted_edwards::{Affine as TEAffine, MontCurveConfig, TECurveConfig},
    };
    use ark_ff::fields::{Fp64, MontBackend, MontConfig};
    use ark_ff::MontFp;

    macro_rules! field {
        ($cfg:ident, $ty:ident, $m:literal, $g:literal) => {
            #[derive(MontConfig)]
            #[modulus = $m]
            #[generator = $g]
            pub struct $cfg;
            pub type $ty = Fp64<MontBackend<$cfg, 1>>;
        };
    }
    field!(F101Cfg, F101, "101", "2");
    field!(F103Cfg, F103, "103", "5");
    field!(F113Cfg, F113, "113", "3");
    field!(F127Cfg, F127, "127", "3");
    field!(F17Cfg, F17, "17", "3");
    field!(F31Cfg, F31, "31", "3");

    macro_rules! sw_toy {
        ($name:ident, $fq:ty, $fr:ty, $h:literal, $hinv:literal, $a:literal, $b:literal, $gx:literal, $gy:literal) => {
            #[derive(Clone, Default, PartialEq, Eq)]
            pub struct $name;
            impl CurveConfig for $name {
                type BaseField = $fq;
                type ScalarField = $fr;
                const COFACTOR: &'static [u64] = &[$h];
                const COFACTOR_INV: $fr = MontFp!($hinv);
            }
            impl SWCurveConfig for $name {
                const COEFF_A: $fq = MontFp!($a);
                const COEFF_B: $fq = MontFp!($b);
                const GENERATOR: SWAffine<Self> = SWAffine::new_unchecked(MontFp!($gx), MontFp!($gy));
            }
        };
    }
    // y² = x³ + 3 over F_103: #E = 124 = 4·31, E ≅ Z2 × Z2 × Z31 (full 2-torsion)
    sw_toy!(Sw103, F103, F31, 4, "8", "0", "3", "72", "44");
    // y² = x³ + x + 2 over F_127: #E = 136 = 8·17, E ≅ Z2 × Z4 × Z17
    sw_toy!(Sw127, F127, F17, 8, "15", "1", "2", "60", "110");
    // y² = x³ + 1 over F_101: #E = 102 = 6·17, cyclic
    sw_toy!(Sw101, F101, F17, 6, "3", "0", "1", "75", "10");

    macro_rules! te_toy {
        ($name:ident, $fq:ty, $fr:ty, $h:literal, $hinv:literal, $a:literal, $d:literal, $gx:literal, $gy:literal, $ma:literal, $mb:literal) => {
            #[derive(Clone, Default, PartialEq, Eq)]
            pub struct $name;
            impl CurveConfig for $name {
                type BaseField = $fq;
                type ScalarField = $fr;
                const COFACTOR: &'static [u64] = &[$h];
                const COFACTOR_INV: $fr = MontFp!($hinv);
            }
            impl TECurveConfig for $name {
                const COEFF_A: $fq = MontFp!($a);
                const COEFF_D: $fq = MontFp!($d);
                const GENERATOR: TEAffine<Self> = TEAffine::new_unchecked(MontFp!($gx), MontFp!($gy));
                type MontCurveConfig = $name;
            }
            impl MontCurveConfig for $name {
                const COEFF_A: $fq = MontFp!($ma);
                const COEFF_B: $fq = MontFp!($mb);
                type TECurveConfig = $name;
            }
        };
    }
    // -x² + y² = 1 + 5x²y² over F_113: #E = 124 = 4·31 (a square, d non-square: complete)
    te_toy!(Te113, F113, F31, 4, "8", "112", "5", "96", "92", "74", "37");
    // 4x² + y² = 1 + 3x²y² over F_127: #E = 136 = 8·17
    te_toy!(Te127, F127, F17, 8, "15", "4", "3", "11", "95", "14", "4");
}

fn sw<P: SWCurveConfig>(ctx: &mut Ctx, id: &str, tower: &str) {
    run::<SW<P>>(ctx, id, tower, "def", "def", None, "", "def");
}
fn te<P: TECurveConfig>(ctx: &mut Ctx, id: &str) {
    run::<TE<P>>(ctx, id, "fp", "def", "def", None, "", "def");
}
fn bls_pub<B: Bls12Config>() -> String {
    format!(
        "x={} xneg={} frob={}",
        limb_list(B::X),
        if B::X_IS_NEGATIVE { 1 } else { 0 },
        <B::Fp2Config as Fp2Config>::FROBENIUS_COEFF_FP2_C1.iter().map(|c| fe(c)).collect::<Vec<_>>().join(",")
    )
}

// RFC 9380 §8.8.1 / §8.8.2
const BLS12_381_G1_H_EFF: &str = "d201000000010001";
const BLS12_381_G2_H_EFF: &str = "bc69f08f2ee75b3584c6a0ea91b352888e2a8e9145ad7689986ff031508ffe1329c2f178731db956d82bf015d1212b02ec0ec69d7477c1ae954cbc06689f6a359894c0adebbf6b4e8020005aaa95551";
const BLS12_377_G1_H_EFF: &str = "8508c00000000000";
const BLS12_377_G2_H_EFF: &[u64] = &[
    0x1e34800000000000,
    0xcf664765b0000003,
    0x8e8e73ad8a538800,
    0x78ba279637388559,
    0xb85860aaaad29276,
    0xf7ee7c4b03103b45,
    0x8f6ade35a5c7d769,
    0xa951764c46f4edd2,
    0x53648d3d9502abfb,
    0x1f60243677e306,
];

fn main() {
    if std::env::var("C10X_DEBUG").is_err() {
        std::panic::set_hook(Box::new(|_| {}));
    }
    let a: Vec<String> = std::env::args().collect();
    let sp = std::env::var("VERIF_STREAM_PROP").unwrap_or_default();
    let mut ctx = Ctx {
        out: Out { w: std::io::BufWriter::with_capacity(1 << 20, std::io::stdout()), n: 0 },
        thorough: a.get(1).map(|s| s == "thorough").unwrap_or(false),
        seed: a.get(2).and_then(|s| s.parse().ok()).unwrap_or(0),
        only: a.get(3).cloned(),
        emit09: sp != "C10",
        emit10: sp != "C09",
    };
    let cx = &mut ctx;

    // ---------------- toy curves ----------------
    sw::<toy::Sw103>(cx, "toy.sw103", "fp");
    sw::<toy::Sw127>(cx, "toy.sw127", "fp");
    sw::<toy::Sw101>(cx, "toy.sw101", "fp");
    te::<toy::Te113>(cx, "toy.te113");
    te::<toy::Te127>(cx, "toy.te127");
    // ---------------- test-curves (thorough tier only) ----------------
    {
        use ark_test_curves as t;
        {
            use t::bls12_381 as c;
            let t2 = tw_fp2::<c::Fq2Config>();
            let pb = bls_pub::<c::Config>();
            run::<SW<c::g1::Config>>(cx, "test_bls12_381.g1", "fp", "def", "tbls381g1", Some(limbs_from_hex(BLS12_381_G1_H_EFF)), "", "def");
            sw::<c::g1_swu_iso::SwuIsoConfig>(cx, "test_bls12_381.g1iso", "fp");
            run::<SW<c::g2::Config>>(cx, "test_bls12_381.g2", &t2, "tbls381g2", "tbls381g2", Some(limbs_from_hex(BLS12_381_G2_H_EFF)), &pb, "def");
            sw::<c::g2_swu_iso::SwuIsoConfig>(cx, "test_bls12_381.g2iso", &t2);
        }
        te::<t::ed_on_bls12_381::EdwardsConfig>(cx, "test_ed_on_bls12_381.te");
        sw::<t::mnt4_753::g1::Config>(cx, "test_mnt4_753.g1", "fp");
        sw::<t::bn384_small_two_adicity::g1::Config>(cx, "test_bn384.g1", "fp");
        sw::<t::secp256k1::Config>(cx, "test_secp256k1.g1", "fp");
    }
    // ---------------- curve crates ----------------
    {
        use ark_bls12_377 as c;
        use ark_ec::hashing::curve_maps::wb::WBConfig;
        let t2 = tw_fp2::<c::Fq2Config>();
        let pb = bls_pub::<c::Config>();
        run::<SW<c::g1::Config>>(cx, "bls12_377.g1", "fp", "def", "bls377g1", Some(limbs_from_hex(BLS12_377_G1_H_EFF)), &pb, "def");
        te::<c::g1::Config>(cx, "bls12_377.g1te");
        sw::<<c::g1::Config as WBConfig>::IsogenousCurve>(cx, "bls12_377.g1iso", "fp");
        run::<SW<c::g2::Config>>(cx, "bls12_377.g2", &t2, "def", "bls377g2", Some(BLS12_377_G2_H_EFF.to_vec()), &pb, "def");
        sw::<<c::g2::Config as WBConfig>::IsogenousCurve>(cx, "bls12_377.g2iso", &t2);
    }
    {
        use ark_bls12_381 as c;
        use ark_ec::hashing::curve_maps::wb::WBConfig;
        let t2 = tw_fp2::<c::Fq2Config>();
        let pb = bls_pub::<c::Config>();
        let g1x = format!("{} beta={} glv={}", pb, fe(&c::g1::BETA), glv_str::<c::g1::Config>());
        run::<SW<c::g1::Config>>(cx, "bls12_381.g1", "fp", "bls381g1", "bls381g1", Some(limbs_from_hex(BLS12_381_G1_H_EFF)), &g1x, "zc1");
        sw::<<c::g1::Config as WBConfig>::IsogenousCurve>(cx, "bls12_381.g1iso", "fp");
        run::<SW<c::g2::Config>>(cx, "bls12_381.g2", &t2, "bls381g2", "bls381g2", Some(limbs_from_hex(BLS12_381_G2_H_EFF)), &pb, "zc2");
        sw::<<c::g2::Config as WBConfig>::IsogenousCurve>(cx, "bls12_381.g2iso", &t2);
    }
    {
        use ark_bn254 as c;
        let t2 = tw_fp2::<c::Fq2Config>();
        let frob = format!(
            "frob={}",
            <c::Fq2Config as Fp2Config>::FROBENIUS_COEFF_FP2_C1.iter().map(|c| fe(c)).collect::<Vec<_>>().join(",")
        );
        run::<SW<c::g1::Config>>(cx, "bn254.g1", "fp", "bn254g1", "def", None, "", "def");
        run::<SW<c::g2::Config>>(cx, "bn254.g2", &t2, "bn254g2", "def", None, &frob, "def");
    }
    {
        use ark_bw6_761 as c;
        sw::<c::g1::Config>(cx, "bw6_761.g1", "fp");
        sw::<c::g2::Config>(cx, "bw6_761.g2", "fp");
    }
    {
        use ark_bw6_767 as c;
        sw::<c::g1::Config>(cx, "bw6_767.g1", "fp");
        sw::<c::g2::Config>(cx, "bw6_767.g2", "fp");
    }
    {
        use ark_cp6_782 as c;
        sw::<c::g1::Config>(cx, "cp6_782.g1", "fp");
        sw::<c::g2::Config>(cx, "cp6_782.g2", &tw_fp3::<c::Fq3Config>());
    }
    {
        use ark_mnt4_298 as c;
        sw::<c::g1::Config>(cx, "mnt4_298.g1", "fp");
        sw::<c::g2::Config>(cx, "mnt4_298.g2", &tw_fp2::<c::Fq2Config>());
    }
    {
        use ark_mnt4_753 as c;
        sw::<c::g1::Config>(cx, "mnt4_753.g1", "fp");
        sw::<c::g2::Config>(cx, "mnt4_753.g2", &tw_fp2::<c::Fq2Config>());
    }
    {
        use ark_mnt6_298 as c;
        sw::<c::g1::Config>(cx, "mnt6_298.g1", "fp");
        sw::<c::g2::Config>(cx, "mnt6_298.g2", &tw_fp3::<c::Fq3Config>());
    }
    {
        use ark_mnt6_753 as c;
        sw::<c::g1::Config>(cx, "mnt6_753.g1", "fp");
        sw::<c::g2::Config>(cx, "mnt6_753.g2", &tw_fp3::<c::Fq3Config>());
    }
    te::<ark_ed_on_bls12_377::EdwardsConfig>(cx, "ed_on_bls12_377.te");
    te::<ark_ed_on_bw6_761::EdwardsConfig>(cx, "ed_on_bw6_761.te");
    te::<ark_ed_on_cp6_782::EdwardsConfig>(cx, "ed_on_cp6_782.te");
    te::<ark_ed_on_bn254::EdwardsConfig>(cx, "ed_on_bn254.te");
    te::<ark_ed_on_mnt4_298::EdwardsConfig>(cx, "ed_on_mnt4_298.te");
    te::<ark_ed_on_mnt4_753::EdwardsConfig>(cx, "ed_on_mnt4_753.te");
    te::<ark_curve25519::Curve25519Config>(cx, "curve25519.te");
    te::<ark_ed25519::EdwardsConfig>(cx, "ed25519.te");
    te::<ark_ed_on_bls12_381::JubjubConfig>(cx, "ed_on_bls12_381.te");
    sw::<ark_ed_on_bls12_381::JubjubConfig>(cx, "ed_on_bls12_381.sw", "fp");
    te::<ark_ed_on_bls12_381_bandersnatch::BandersnatchConfig>(cx, "bandersnatch.te");
    sw::<ark_ed_on_bls12_381_bandersnatch::BandersnatchConfig>(cx, "bandersnatch.sw", "fp");
    sw::<ark_grumpkin::GrumpkinConfig>(cx, "grumpkin.g1", "fp");
    sw::<ark_secp256k1::Config>(cx, "secp256k1.g1", "fp");
    sw::<ark_secp256r1::Config>(cx, "secp256r1.g1", "fp");
    sw::<ark_secp384r1::Config>(cx, "secp384r1.g1", "fp");
    sw::<ark_secq256k1::Config>(cx, "secq256k1.g1", "fp");
    sw::<ark_pallas::PallasConfig>(cx, "pallas.g1", "fp");
    sw::<ark_vesta::VestaConfig>(cx, "vesta.g1", "fp");

    ctx.out.w.flush().unwrap();
    eprintln!("c10x: {} lines", ctx.out.n);
}
