//! C16 translator harness: walks a fixed list of configuration types of the *compiled current
//! tree* (`/repo`) through generic functions over the public traits and prints one JSON object
//! per configuration on stdout.  All integers are decimal strings of standard-form (non-Montgomery)
//! values unless the key says `raw`; extension-field elements are lists of base-prime-field
//! coordinates (`to_base_prime_field_elements`, i.e. c0's coordinates first).
//!
//! Nothing here is computed by the harness except (a) radix conversion, (b) calling the
//! configuration's own hooks on basis vectors (`mul_base_field_by_nonresidue_in_place`, `mul_by_a`,
//! `endomorphism_affine(GENERATOR)`) so that hard-coded overrides are exposed to the checkers.
#![allow(clippy::type_complexity)]

use ark_ec::{
    hashing::curve_maps::{elligator2::Elligator2Config, swu::SWUConfig, wb::WBConfig},
    models::{
        bls12::{self, Bls12Config},
        bn::{self, BnConfig},
        bw6::{self, BW6Config},
        mnt4::MNT4Config,
        mnt6::MNT6Config,
        short_weierstrass::SWCurveConfig,
        twisted_edwards::{MontCurveConfig, TECurveConfig},
        CurveConfig,
    },
    scalar_mul::glv::GLVConfig,
};
use ark_ff::{
    fields::{
        fp12_2over3over2::Fp12Config,
        fp2::Fp2Config,
        fp3::Fp3Config,
        fp4::Fp4Config,
        fp6_2over3::Fp6Config as Fp6o3Config,
        fp6_3over2::Fp6Config as Fp6o2Config,
        CubicExtConfig, Fp12ConfigWrapper, Fp2ConfigWrapper, Fp3ConfigWrapper, Fp4ConfigWrapper,
        QuadExtConfig,
    },
    AdditiveGroup, BigInteger, FftField, Field, Fp, MontBackend, MontConfig, PrimeField, SqrtPrecomputation,
};
use ark_ff::fields::fp6_2over3::Fp6ConfigWrapper as Fp6o3Wrapper;
use ark_ff::fields::fp6_3over2::Fp6ConfigWrapper as Fp6o2Wrapper;
use std::fmt::Write as _;

// ------------------------------------------------------------------------------------------------
// tiny JSON writer
// ------------------------------------------------------------------------------------------------
struct Obj(String);
impl Obj {
    fn new(krate: &str, name: &str, kind: &str) -> Self {
        let mut o = Obj(String::from("{"));
        o.str("crate", krate);
        o.str("name", name);
        o.str("kind", kind);
        o
    }
    fn key(&mut self, k: &str) {
        if self.0.len() > 1 {
            self.0.push(',');
        }
        write!(self.0, "\"{}\":", k).unwrap();
    }
    fn str(&mut self, k: &str, v: &str) {
        self.key(k);
        write!(self.0, "\"{}\"", v).unwrap();
    }
    fn raw(&mut self, k: &str, v: &str) {
        self.key(k);
        self.0.push_str(v);
    }
    fn num<T: std::fmt::Display>(&mut self, k: &str, v: T) {
        self.key(k);
        write!(self.0, "\"{}\"", v).unwrap();
    }
    fn boolean(&mut self, k: &str, v: bool) {
        self.key(k);
        self.0.push_str(if v { "true" } else { "false" });
    }
    fn emit(mut self) {
        self.0.push('}');
        println!("{}", self.0);
    }
}

fn jlist(items: impl IntoIterator<Item = String>) -> String {
    let v: Vec<String> = items.into_iter().collect();
    format!("[{}]", v.join(","))
}
fn q(s: impl std::fmt::Display) -> String {
    format!("\"{}\"", s)
}

/// little-endian u64 limbs -> decimal string
fn limbs_dec(l: &[u64]) -> String {
    let mut bytes = Vec::with_capacity(l.len() * 8);
    for x in l {
        bytes.extend_from_slice(&x.to_le_bytes());
    }
    num_bigint::BigUint::from_bytes_le(&bytes).to_string()
}
fn limbs_list(l: &[u64]) -> String {
    jlist(l.iter().map(q))
}
fn big<B: BigInteger>(b: &B) -> String {
    limbs_dec(b.as_ref())
}
fn fe<F: PrimeField>(x: &F) -> String {
    big(&x.into_bigint())
}
/// coordinates of a (possibly extension) field element over the base prime field
fn el<F: Field>(x: &F) -> String {
    jlist(x.to_base_prime_field_elements().map(|c| q(fe(&c))))
}
fn els<F: Field>(xs: &[F]) -> String {
    jlist(xs.iter().map(el))
}
fn i8s(xs: &[i8]) -> String {
    jlist(xs.iter().map(|x| x.to_string()))
}
fn basis<F: Field>() -> Vec<F> {
    let d = F::extension_degree() as usize;
    (0..d)
        .map(|i| {
            let v: Vec<F::BasePrimeField> = (0..d)
                .map(|j| if i == j { F::BasePrimeField::ONE } else { F::BasePrimeField::ZERO })
                .collect();
            F::from_base_prime_field_elems(v).unwrap()
        })
        .collect()
}

// ------------------------------------------------------------------------------------------------
// prime fields
// ------------------------------------------------------------------------------------------------
trait MontDump {
    fn dump_mont(o: &mut Obj);
}
impl<T: MontConfig<N>, const N: usize> MontDump for Fp<MontBackend<T, N>, N> {
    fn dump_mont(o: &mut Obj) {
        o.num("limbs", N);
        o.num("mont_modulus", big(&T::MODULUS));
        o.raw("mont_modulus_limbs", &limbs_list(&T::MODULUS.0));
        o.num("mont_r_raw", big(&T::R));
        o.num("mont_r2_raw", big(&T::R2));
        o.num("mont_inv", T::INV);
        o.num("mont_generator", fe(&T::GENERATOR));
        o.num("mont_two_adic_root_of_unity", fe(&T::TWO_ADIC_ROOT_OF_UNITY));
        o.num("one_raw", big(&<Self as Field>::ONE.0));
        o.num("generator_raw", big(&T::GENERATOR.0));
        o.boolean("modulus_has_spare_bit", T::MODULUS_HAS_SPARE_BIT);
        o.boolean("can_use_no_carry_mul_opt", T::CAN_USE_NO_CARRY_MUL_OPT);
        o.boolean("can_use_no_carry_square_opt", T::CAN_USE_NO_CARRY_SQUARE_OPT);
        match T::MODULUS_PLUS_ONE_DIV_FOUR {
            Some(v) => o.num("modulus_plus_one_div_four", big(&v)),
            None => o.raw("modulus_plus_one_div_four", "null"),
        }
        match T::SMALL_SUBGROUP_BASE {
            Some(v) => o.num("mont_small_subgroup_base", v),
            None => o.raw("mont_small_subgroup_base", "null"),
        }
        match T::SMALL_SUBGROUP_BASE_ADICITY {
            Some(v) => o.num("mont_small_subgroup_base_adicity", v),
            None => o.raw("mont_small_subgroup_base_adicity", "null"),
        }
        match T::LARGE_SUBGROUP_ROOT_OF_UNITY {
            Some(v) => o.num("mont_large_subgroup_root_of_unity", fe(&v)),
            None => o.raw("mont_large_subgroup_root_of_unity", "null"),
        }
    }
}

fn sqrt_precomp<F: Field>(o: &mut Obj, sp: &Option<SqrtPrecomputation<F>>) {
    match sp {
        None => o.raw("sqrt_precomp", "null"),
        Some(SqrtPrecomputation::TonelliShanks {
            two_adicity,
            quadratic_nonresidue_to_trace,
            trace_of_modulus_minus_one_div_two,
        }) => o.raw(
            "sqrt_precomp",
            &format!(
                "{{\"kind\":\"tonelli_shanks\",\"two_adicity\":\"{}\",\"quadratic_nonresidue_to_trace\":{},\"trace_of_modulus_minus_one_div_two\":\"{}\"}}",
                two_adicity,
                el(quadratic_nonresidue_to_trace),
                limbs_dec(trace_of_modulus_minus_one_div_two)
            ),
        ),
        Some(SqrtPrecomputation::Case3Mod4 { modulus_plus_one_div_four }) => o.raw(
            "sqrt_precomp",
            &format!(
                "{{\"kind\":\"case3mod4\",\"modulus_plus_one_div_four\":\"{}\"}}",
                limbs_dec(modulus_plus_one_div_four)
            ),
        ),
        #[allow(unreachable_patterns)]
        Some(_) => o.raw("sqrt_precomp", "{\"kind\":\"unknown\"}"),
    }
}

/// `c16 recheck`: the arithmetic of the library itself re-evaluates the field-level facts
/// (used by the check to double-check a failing generated theorem on the Rust side)
fn fp_recheck<F: PrimeField + FftField>(krate: &str, name: &str) {
    let mut o = Obj::new(krate, name, "fp_recheck");
    let g = F::GENERATOR;
    let leg = g.pow(F::MODULUS_MINUS_ONE_DIV_TWO);
    o.str(
        "generator_legendre",
        if leg == F::ONE { "1" } else if leg == -F::ONE { "-1" } else { "other" },
    );
    let w = F::TWO_ADIC_ROOT_OF_UNITY;
    let mut x = w;
    let mut order_log: i64 = -1;
    for i in 0..=F::TWO_ADICITY {
        if x == F::ONE {
            order_log = i as i64;
            break;
        }
        x = x.square();
    }
    o.num("two_adic_root_order_log2", order_log);
    o.num("two_adicity", F::TWO_ADICITY);
    o.boolean("root_is_generator_pow_trace", w == g.pow(F::TRACE));
    o.emit();
}
fn fp3_recheck<P: Fp3Config>(krate: &str, name: &str) {
    let mut o = Obj::new(krate, name, "fp3_recheck");
    let z = P::QUADRATIC_NONRESIDUE_TO_T;
    let mut x = z;
    let mut order_log: i64 = -1;
    for i in 0..=P::TWO_ADICITY {
        if x == ark_ff::Fp3::<P>::ONE {
            order_log = i as i64;
            break;
        }
        x = x.square();
    }
    o.num("qnr_to_t_order_log2", order_log);
    o.num("two_adicity", P::TWO_ADICITY);
    o.emit();
}

fn recheck_mode() -> bool {
    std::env::args().nth(1).as_deref() == Some("recheck")
}

fn fp<F: PrimeField + FftField + MontDump>(krate: &str, name: &str) {
    if recheck_mode() {
        return fp_recheck::<F>(krate, name);
    }
    let mut o = Obj::new(krate, name, "fp");
    o.num("modulus", big(&F::MODULUS));
    o.num("modulus_bit_size", F::MODULUS_BIT_SIZE);
    o.num("modulus_minus_one_div_two", big(&F::MODULUS_MINUS_ONE_DIV_TWO));
    o.num("trace", big(&F::TRACE));
    o.num("trace_minus_one_div_two", big(&F::TRACE_MINUS_ONE_DIV_TWO));
    o.num("generator", fe(&F::GENERATOR));
    o.num("two_adicity", F::TWO_ADICITY);
    o.num("two_adic_root_of_unity", fe(&F::TWO_ADIC_ROOT_OF_UNITY));
    match F::SMALL_SUBGROUP_BASE {
        Some(v) => o.num("small_subgroup_base", v),
        None => o.raw("small_subgroup_base", "null"),
    }
    match F::SMALL_SUBGROUP_BASE_ADICITY {
        Some(v) => o.num("small_subgroup_base_adicity", v),
        None => o.raw("small_subgroup_base_adicity", "null"),
    }
    match F::LARGE_SUBGROUP_ROOT_OF_UNITY {
        Some(v) => o.num("large_subgroup_root_of_unity", fe(&v)),
        None => o.raw("large_subgroup_root_of_unity", "null"),
    }
    o.num("characteristic", limbs_dec(F::characteristic()));
    sqrt_precomp(&mut o, &F::SQRT_PRECOMP);
    F::dump_mont(&mut o);
    o.emit();
}

// ------------------------------------------------------------------------------------------------
// towers: {"p":..} | {"k":2|3,"base":tower,"nr":[coords]}
// ------------------------------------------------------------------------------------------------
fn tw_fp<F: PrimeField>() -> String {
    format!("{{\"p\":\"{}\"}}", big(&F::MODULUS))
}
fn tw_fp2<P: Fp2Config>() -> String {
    format!("{{\"k\":2,\"base\":{},\"nr\":{}}}", tw_fp::<P::Fp>(), el(&P::NONRESIDUE))
}
fn tw_fp3<P: Fp3Config>() -> String {
    format!("{{\"k\":3,\"base\":{},\"nr\":{}}}", tw_fp::<P::Fp>(), el(&P::NONRESIDUE))
}
fn tw_fp6o2<P: Fp6o2Config>() -> String {
    format!("{{\"k\":3,\"base\":{},\"nr\":{}}}", tw_fp2::<P::Fp2Config>(), el(&P::NONRESIDUE))
}

fn nr_basis_quad<C: QuadExtConfig>() -> String {
    jlist(basis::<C::BaseField>().into_iter().map(|mut e| {
        C::mul_base_field_by_nonresidue_in_place(&mut e);
        el(&e)
    }))
}
fn nr_basis_cubic<C: CubicExtConfig>() -> String {
    jlist(basis::<C::BaseField>().into_iter().map(|mut e| {
        C::mul_base_field_by_nonresidue_in_place(&mut e);
        el(&e)
    }))
}
/// `mul_base_field_by_frob_coeff(e_i, power)` for every power < degree, on the basis of the base
/// field (quadratic extensions: acts on c1 only)
fn frob_basis_quad<C: QuadExtConfig>() -> String {
    let d = C::DEGREE_OVER_BASE_PRIME_FIELD;
    jlist((0..d).map(|pw| {
        jlist(basis::<C::BaseField>().into_iter().map(|mut e| {
            C::mul_base_field_by_frob_coeff(&mut e, pw);
            el(&e)
        }))
    }))
}
fn frob_basis_cubic<C: CubicExtConfig>() -> String {
    let d = C::DEGREE_OVER_BASE_PRIME_FIELD;
    jlist((0..d).map(|pw| {
        jlist(basis::<C::BaseField>().into_iter().map(|e| {
            let (mut c1, mut c2) = (e, e);
            C::mul_base_field_by_frob_coeff(&mut c1, &mut c2, pw);
            format!("[{},{}]", el(&c1), el(&c2))
        }))
    }))
}

fn fp2<P: Fp2Config>(krate: &str, name: &str) {
    if recheck_mode() {
        return;
    }
    let mut o = Obj::new(krate, name, "fp2");
    o.num("p", big(&P::Fp::MODULUS));
    o.raw("base_tower", &tw_fp::<P::Fp>());
    o.raw("nonresidue", &el(&P::NONRESIDUE));
    o.raw("frobenius_c1", &els(P::FROBENIUS_COEFF_FP2_C1));
    o.raw("frobenius_c2", "[]");
    o.raw("nr_mul_basis", &nr_basis_quad::<Fp2ConfigWrapper<P>>());
    o.raw("frob_mul_basis", &frob_basis_quad::<Fp2ConfigWrapper<P>>());
    o.emit();
}
fn fp3<P: Fp3Config>(krate: &str, name: &str) {
    if recheck_mode() {
        return fp3_recheck::<P>(krate, name);
    }
    let mut o = Obj::new(krate, name, "fp3");
    o.num("p", big(&P::Fp::MODULUS));
    o.raw("base_tower", &tw_fp::<P::Fp>());
    o.raw("nonresidue", &el(&P::NONRESIDUE));
    o.raw("frobenius_c1", &els(P::FROBENIUS_COEFF_FP3_C1));
    o.raw("frobenius_c2", &els(P::FROBENIUS_COEFF_FP3_C2));
    o.raw("nr_mul_basis", &nr_basis_cubic::<Fp3ConfigWrapper<P>>());
    o.raw("frob_mul_basis", &frob_basis_cubic::<Fp3ConfigWrapper<P>>());
    o.num("two_adicity", P::TWO_ADICITY);
    o.num("trace_minus_one_div_two", limbs_dec(P::TRACE_MINUS_ONE_DIV_TWO));
    o.raw("quadratic_nonresidue_to_t", &el(&P::QUADRATIC_NONRESIDUE_TO_T));
    sqrt_precomp(&mut o, &<Fp3ConfigWrapper<P> as CubicExtConfig>::SQRT_PRECOMP);
    o.emit();
}
fn fp4<P: Fp4Config>(krate: &str, name: &str) {
    if recheck_mode() {
        return;
    }
    let mut o = Obj::new(krate, name, "fp4");
    o.num("p", big(&<P::Fp2Config as Fp2Config>::Fp::MODULUS));
    o.raw("base_tower", &tw_fp2::<P::Fp2Config>());
    o.raw("nonresidue", &el(&P::NONRESIDUE));
    o.raw("frobenius_c1", &els(P::FROBENIUS_COEFF_FP4_C1));
    o.raw("frobenius_c2", "[]");
    o.raw("nr_mul_basis", &nr_basis_quad::<Fp4ConfigWrapper<P>>());
    o.raw("frob_mul_basis", &frob_basis_quad::<Fp4ConfigWrapper<P>>());
    o.emit();
}
fn fp6o3<P: Fp6o3Config>(krate: &str, name: &str) {
    if recheck_mode() {
        return;
    }
    let mut o = Obj::new(krate, name, "fp6_2over3");
    o.num("p", big(&<P::Fp3Config as Fp3Config>::Fp::MODULUS));
    o.raw("base_tower", &tw_fp3::<P::Fp3Config>());
    o.raw("nonresidue", &el(&P::NONRESIDUE));
    o.raw("frobenius_c1", &els(P::FROBENIUS_COEFF_FP6_C1));
    o.raw("frobenius_c2", "[]");
    o.raw("nr_mul_basis", &nr_basis_quad::<Fp6o3Wrapper<P>>());
    o.raw("frob_mul_basis", &frob_basis_quad::<Fp6o3Wrapper<P>>());
    o.emit();
}
fn fp6o2<P: Fp6o2Config>(krate: &str, name: &str) {
    if recheck_mode() {
        return;
    }
    let mut o = Obj::new(krate, name, "fp6_3over2");
    o.num("p", big(&<P::Fp2Config as Fp2Config>::Fp::MODULUS));
    o.raw("base_tower", &tw_fp2::<P::Fp2Config>());
    o.raw("nonresidue", &el(&P::NONRESIDUE));
    o.raw("frobenius_c1", &els(P::FROBENIUS_COEFF_FP6_C1));
    o.raw("frobenius_c2", &els(P::FROBENIUS_COEFF_FP6_C2));
    o.raw("nr_mul_basis", &nr_basis_cubic::<Fp6o2Wrapper<P>>());
    o.raw("frob_mul_basis", &frob_basis_cubic::<Fp6o2Wrapper<P>>());
    sqrt_precomp(&mut o, &P::SQRT_PRECOMP);
    o.emit();
}
fn fp12<P: Fp12Config>(krate: &str, name: &str) {
    if recheck_mode() {
        return;
    }
    let mut o = Obj::new(krate, name, "fp12");
    o.num(
        "p",
        big(&<<P::Fp6Config as Fp6o2Config>::Fp2Config as Fp2Config>::Fp::MODULUS),
    );
    o.raw("base_tower", &tw_fp6o2::<P::Fp6Config>());
    o.raw("nonresidue", &el(&P::NONRESIDUE));
    o.raw("frobenius_c1", &els(P::FROBENIUS_COEFF_FP12_C1));
    o.raw("frobenius_c2", "[]");
    o.raw("nr_mul_basis", &nr_basis_quad::<Fp12ConfigWrapper<P>>());
    o.raw("frob_mul_basis", &frob_basis_quad::<Fp12ConfigWrapper<P>>());
    o.emit();
}

// ------------------------------------------------------------------------------------------------
// curves
// ------------------------------------------------------------------------------------------------
fn curve_core<P: CurveConfig>(o: &mut Obj, tower: &str) {
    o.raw("tower", tower);
    o.num("r", big(&P::ScalarField::MODULUS));
    o.num("cofactor", limbs_dec(P::COFACTOR));
    o.raw("cofactor_limbs", &limbs_list(P::COFACTOR));
    o.num("cofactor_inv", fe(&P::COFACTOR_INV));
}
fn sw_core<P: SWCurveConfig>(o: &mut Obj, tower: &str) {
    curve_core::<P>(o, tower);
    o.raw("a", &el(&P::COEFF_A));
    o.raw("b", &el(&P::COEFF_B));
    o.raw("gx", &el(&P::GENERATOR.x));
    o.raw("gy", &el(&P::GENERATOR.y));
    o.boolean("g_infinity", P::GENERATOR.infinity);
}
fn sw<P: SWCurveConfig>(krate: &str, name: &str, tower: &str) {
    if recheck_mode() {
        return;
    }
    let mut o = Obj::new(krate, name, "sw");
    sw_core::<P>(&mut o, tower);
    o.raw(
        "mul_by_a_basis",
        &jlist(basis::<P::BaseField>().into_iter().map(|e| el(&P::mul_by_a(e)))),
    );
    o.emit();
}
fn te_core<P: TECurveConfig>(o: &mut Obj, tower: &str) {
    curve_core::<P>(o, tower);
    o.raw("a", &el(&<P as TECurveConfig>::COEFF_A));
    o.raw("d", &el(&<P as TECurveConfig>::COEFF_D));
    o.raw("gx", &el(&<P as TECurveConfig>::GENERATOR.x));
    o.raw("gy", &el(&<P as TECurveConfig>::GENERATOR.y));
    o.raw("mont_a", &el(&<P::MontCurveConfig as MontCurveConfig>::COEFF_A));
    o.raw("mont_b", &el(&<P::MontCurveConfig as MontCurveConfig>::COEFF_B));
}
fn te<P: TECurveConfig>(krate: &str, name: &str, tower: &str) {
    if recheck_mode() {
        return;
    }
    let mut o = Obj::new(krate, name, "te");
    te_core::<P>(&mut o, tower);
    o.raw(
        "mul_by_a_basis",
        &jlist(basis::<P::BaseField>().into_iter().map(|e| el(&<P as TECurveConfig>::mul_by_a(e)))),
    );
    o.emit();
}
fn glv<P: GLVConfig>(krate: &str, name: &str, tower: &str) {
    if recheck_mode() {
        return;
    }
    let mut o = Obj::new(krate, name, "glv");
    sw_core::<P>(&mut o, tower);
    o.raw("endo_coeffs", &els(P::ENDO_COEFFS));
    o.num("lambda", fe(&P::LAMBDA));
    o.raw(
        "scalar_decomp_coeffs",
        &jlist(
            P::SCALAR_DECOMP_COEFFS
                .iter()
                .map(|(s, v)| format!("[{},\"{}\"]", if *s { "true" } else { "false" }, big(v))),
        ),
    );
    let e = P::endomorphism_affine(&P::GENERATOR);
    o.raw("endo_gx", &el(&e.x));
    o.raw("endo_gy", &el(&e.y));
    o.boolean("endo_g_infinity", e.infinity);
    o.emit();
}
fn swu<P: SWUConfig>(krate: &str, name: &str, tower: &str) {
    if recheck_mode() {
        return;
    }
    let mut o = Obj::new(krate, name, "swu");
    sw_core::<P>(&mut o, tower);
    o.raw("zeta", &el(&P::ZETA));
    o.emit();
}
/// WB: the isogenous curve (an `SWUConfig`) and the isogeny coefficient vectors
fn wb<P: WBConfig>(krate: &str, name: &str, tower: &str) {
    if recheck_mode() {
        return;
    }
    let mut o = Obj::new(krate, name, "wb");
    sw_core::<P>(&mut o, tower);
    let mut iso = Obj(String::from("{"));
    sw_core::<P::IsogenousCurve>(&mut iso, tower);
    iso.raw("zeta", &el(&<P::IsogenousCurve as SWUConfig>::ZETA));
    iso.0.push('}');
    o.raw("iso", &iso.0);
    let m = &P::ISOGENY_MAP;
    o.raw("x_map_numerator", &els(m.x_map_numerator));
    o.raw("x_map_denominator", &els(m.x_map_denominator));
    o.raw("y_map_numerator", &els(m.y_map_numerator));
    o.raw("y_map_denominator", &els(m.y_map_denominator));
    o.emit();
}
fn elligator2<P: Elligator2Config>(krate: &str, name: &str, tower: &str) {
    if recheck_mode() {
        return;
    }
    let mut o = Obj::new(krate, name, "elligator2");
    te_core::<P>(&mut o, tower);
    o.raw("z", &el(&P::Z));
    o.raw("one_over_coeff_b_square", &el(&P::ONE_OVER_COEFF_B_SQUARE));
    o.raw("coeff_a_over_coeff_b", &el(&P::COEFF_A_OVER_COEFF_B));
    o.emit();
}

// ------------------------------------------------------------------------------------------------
// pairings
// ------------------------------------------------------------------------------------------------
fn bls12_cfg<P: Bls12Config>(krate: &str, name: &str) {
    if recheck_mode() {
        return;
    }
    let mut o = Obj::new(krate, name, "bls12");
    o.num("x", limbs_dec(P::X));
    o.boolean("x_is_negative", P::X_IS_NEGATIVE);
    o.str("twist_type", match P::TWIST_TYPE { bls12::TwistType::M => "M", bls12::TwistType::D => "D" });
    o.num("p", big(&P::Fp::MODULUS));
    o.num("r", big(&<P::G1Config as CurveConfig>::ScalarField::MODULUS));
    o.raw("fp2_tower", &tw_fp2::<P::Fp2Config>());
    o.raw("fp6_nonresidue", &el(&<P::Fp6Config as Fp6o2Config>::NONRESIDUE));
    o.raw("g1_a", &el(&<P::G1Config as SWCurveConfig>::COEFF_A));
    o.raw("g1_b", &el(&<P::G1Config as SWCurveConfig>::COEFF_B));
    o.raw("g2_a", &el(&<P::G2Config as SWCurveConfig>::COEFF_A));
    o.raw("g2_b", &el(&<P::G2Config as SWCurveConfig>::COEFF_B));
    o.num("g1_cofactor", limbs_dec(<P::G1Config as CurveConfig>::COFACTOR));
    o.num("g2_cofactor", limbs_dec(<P::G2Config as CurveConfig>::COFACTOR));
    o.emit();
}
fn bn_cfg<P: BnConfig>(krate: &str, name: &str) {
    if recheck_mode() {
        return;
    }
    let mut o = Obj::new(krate, name, "bn");
    o.num("x", limbs_dec(P::X));
    o.boolean("x_is_negative", P::X_IS_NEGATIVE);
    o.raw("ate_loop_count", &i8s(P::ATE_LOOP_COUNT));
    o.str("twist_type", match P::TWIST_TYPE { bn::TwistType::M => "M", bn::TwistType::D => "D" });
    o.raw("twist_mul_by_q_x", &el(&P::TWIST_MUL_BY_Q_X));
    o.raw("twist_mul_by_q_y", &el(&P::TWIST_MUL_BY_Q_Y));
    o.num("p", big(&P::Fp::MODULUS));
    o.num("r", big(&<P::G1Config as CurveConfig>::ScalarField::MODULUS));
    o.raw("fp2_tower", &tw_fp2::<P::Fp2Config>());
    o.raw("fp6_nonresidue", &el(&<P::Fp6Config as Fp6o2Config>::NONRESIDUE));
    o.raw("g1_a", &el(&<P::G1Config as SWCurveConfig>::COEFF_A));
    o.raw("g1_b", &el(&<P::G1Config as SWCurveConfig>::COEFF_B));
    o.raw("g2_a", &el(&<P::G2Config as SWCurveConfig>::COEFF_A));
    o.raw("g2_b", &el(&<P::G2Config as SWCurveConfig>::COEFF_B));
    o.num("g1_cofactor", limbs_dec(<P::G1Config as CurveConfig>::COFACTOR));
    o.num("g2_cofactor", limbs_dec(<P::G2Config as CurveConfig>::COFACTOR));
    o.emit();
}
fn bw6_cfg<P: BW6Config>(krate: &str, name: &str) {
    if recheck_mode() {
        return;
    }
    let mut o = Obj::new(krate, name, "bw6");
    o.num("x", big(&P::X));
    o.boolean("x_is_negative", P::X_IS_NEGATIVE);
    o.num("x_minus_1_div_3", big(&P::X_MINUS_1_DIV_3));
    o.num("ate_loop_count_1", limbs_dec(P::ATE_LOOP_COUNT_1));
    o.boolean("ate_loop_count_1_is_negative", P::ATE_LOOP_COUNT_1_IS_NEGATIVE);
    o.raw("ate_loop_count_2", &i8s(P::ATE_LOOP_COUNT_2));
    o.boolean("ate_loop_count_2_is_negative", P::ATE_LOOP_COUNT_2_IS_NEGATIVE);
    o.str("twist_type", match P::TWIST_TYPE { bw6::TwistType::M => "M", bw6::TwistType::D => "D" });
    o.num("h_t", P::H_T);
    o.num("h_y", P::H_Y);
    o.boolean("t_mod_r_is_zero", P::T_MOD_R_IS_ZERO);
    o.num("p", big(&P::Fp::MODULUS));
    o.num("r", big(&<P::G1Config as CurveConfig>::ScalarField::MODULUS));
    o.raw("fp3_tower", &tw_fp3::<P::Fp3Config>());
    o.raw("fp6_nonresidue", &el(&<P::Fp6Config as Fp6o3Config>::NONRESIDUE));
    o.raw("g1_a", &el(&<P::G1Config as SWCurveConfig>::COEFF_A));
    o.raw("g1_b", &el(&<P::G1Config as SWCurveConfig>::COEFF_B));
    o.raw("g2_a", &el(&<P::G2Config as SWCurveConfig>::COEFF_A));
    o.raw("g2_b", &el(&<P::G2Config as SWCurveConfig>::COEFF_B));
    o.num("g1_cofactor", limbs_dec(<P::G1Config as CurveConfig>::COFACTOR));
    o.num("g2_cofactor", limbs_dec(<P::G2Config as CurveConfig>::COFACTOR));
    o.emit();
}
fn mnt4_cfg<P: MNT4Config>(krate: &str, name: &str) {
    if recheck_mode() {
        return;
    }
    let mut o = Obj::new(krate, name, "mnt4");
    o.raw("twist", &el(&P::TWIST));
    o.raw("twist_coeff_a", &el(&P::TWIST_COEFF_A));
    o.raw("ate_loop_count", &i8s(P::ATE_LOOP_COUNT));
    o.boolean("ate_is_loop_count_neg", P::ATE_IS_LOOP_COUNT_NEG);
    o.num("final_exponent_last_chunk_1", big(&P::FINAL_EXPONENT_LAST_CHUNK_1));
    o.boolean("final_exponent_last_chunk_w0_is_neg", P::FINAL_EXPONENT_LAST_CHUNK_W0_IS_NEG);
    o.num("final_exponent_last_chunk_abs_of_w0", big(&P::FINAL_EXPONENT_LAST_CHUNK_ABS_OF_W0));
    o.num("p", big(&P::Fp::MODULUS));
    o.num("r", big(&P::Fr::MODULUS));
    o.raw("ext_tower", &tw_fp2::<P::Fp2Config>());
    o.raw("top_nonresidue", &el(&<P::Fp4Config as Fp4Config>::NONRESIDUE));
    o.raw("g1_a", &el(&<P::G1Config as SWCurveConfig>::COEFF_A));
    o.raw("g1_b", &el(&<P::G1Config as SWCurveConfig>::COEFF_B));
    o.raw("g2_a", &el(&<P::G2Config as SWCurveConfig>::COEFF_A));
    o.raw("g2_b", &el(&<P::G2Config as SWCurveConfig>::COEFF_B));
    o.num("g1_cofactor", limbs_dec(<P::G1Config as CurveConfig>::COFACTOR));
    o.num("g2_cofactor", limbs_dec(<P::G2Config as CurveConfig>::COFACTOR));
    o.emit();
}
fn mnt6_cfg<P: MNT6Config>(krate: &str, name: &str) {
    if recheck_mode() {
        return;
    }
    let mut o = Obj::new(krate, name, "mnt6");
    o.raw("twist", &el(&P::TWIST));
    o.raw("twist_coeff_a", &el(&P::TWIST_COEFF_A));
    o.raw("ate_loop_count", &i8s(P::ATE_LOOP_COUNT));
    o.boolean("ate_is_loop_count_neg", P::ATE_IS_LOOP_COUNT_NEG);
    o.num("final_exponent_last_chunk_1", big(&P::FINAL_EXPONENT_LAST_CHUNK_1));
    o.boolean("final_exponent_last_chunk_w0_is_neg", P::FINAL_EXPONENT_LAST_CHUNK_W0_IS_NEG);
    o.num("final_exponent_last_chunk_abs_of_w0", big(&P::FINAL_EXPONENT_LAST_CHUNK_ABS_OF_W0));
    o.num("p", big(&P::Fp::MODULUS));
    o.num("r", big(&P::Fr::MODULUS));
    o.raw("ext_tower", &tw_fp3::<P::Fp3Config>());
    o.raw("top_nonresidue", &el(&<P::Fp6Config as Fp6o3Config>::NONRESIDUE));
    o.raw("g1_a", &el(&<P::G1Config as SWCurveConfig>::COEFF_A));
    o.raw("g1_b", &el(&<P::G1Config as SWCurveConfig>::COEFF_B));
    o.raw("g2_a", &el(&<P::G2Config as SWCurveConfig>::COEFF_A));
    o.raw("g2_b", &el(&<P::G2Config as SWCurveConfig>::COEFF_B));
    o.num("g1_cofactor", limbs_dec(<P::G1Config as CurveConfig>::COFACTOR));
    o.num("g2_cofactor", limbs_dec(<P::G2Config as CurveConfig>::COFACTOR));
    o.emit();
}

/// CP6-782 has a hand-written pairing (no `*Config` trait): its public constants
fn cp6_cfg() {
    if recheck_mode() {
        return;
    }
    use ark_cp6_782 as c;
    // CP6-782 has a hand-written pairing (no *Config trait): its public constants
    let mut o = Obj::new("cp6_782", "Pairing", "cp6");
    o.raw("twist", &el(&c::TWIST));
    o.num("ate_loop_count", limbs_dec(&c::ATE_LOOP_COUNT));
    o.boolean("ate_is_loop_count_neg", c::ATE_IS_LOOP_COUNT_NEG);
    o.boolean("final_exponent_last_chunk_w0_is_neg", c::FINAL_EXPONENT_LAST_CHUNK_W0_IS_NEG);
    o.num("final_exponent_last_chunk_abs_of_w0", big(&c::FINAL_EXPONENT_LAST_CHUNK_ABS_OF_W0));
    o.num("final_exponent_last_chunk_w1", big(&c::FINAL_EXPONENT_LAST_CHUNK_W1));
    o.num("p", big(&c::Fq::MODULUS));
    o.num("r", big(&c::Fr::MODULUS));
    o.raw("ext_tower", &tw_fp3::<c::Fq3Config>());
    o.raw("g1_a", &el(&<c::g1::Config as SWCurveConfig>::COEFF_A));
    o.raw("g1_b", &el(&<c::g1::Config as SWCurveConfig>::COEFF_B));
    o.raw("g2_a", &el(&<c::g2::Config as SWCurveConfig>::COEFF_A));
    o.raw("g2_b", &el(&<c::g2::Config as SWCurveConfig>::COEFF_B));
    o.num("g1_cofactor", limbs_dec(<c::g1::Config as CurveConfig>::COFACTOR));
    o.num("g2_cofactor", limbs_dec(<c::g2::Config as CurveConfig>::COFACTOR));
    o.emit();
}

// ------------------------------------------------------------------------------------------------
// the fixed list of shipped configurations
// ------------------------------------------------------------------------------------------------
fn main() {
    // ---------------- test-curves ----------------
    {
        use ark_test_curves as t;
        fp::<t::fp128::Fq>("test_fp128", "Fq");
        {
            use t::bls12_381 as c;
            let k = "test_bls12_381";
            fp::<c::Fq>(k, "Fq");
            fp::<c::Fr>(k, "Fr");
            fp2::<c::Fq2Config>(k, "Fq2");
            fp6o2::<c::Fq6Config>(k, "Fq6");
            fp12::<c::Fq12Config>(k, "Fq12");
            let t1 = tw_fp::<c::Fq>();
            let t2 = tw_fp2::<c::Fq2Config>();
            sw::<c::g1::Config>(k, "G1", &t1);
            glv::<c::g1::Config>(k, "G1", &t1);
            wb::<c::g1::Config>(k, "G1", &t1);
            swu::<c::g1_swu_iso::SwuIsoConfig>(k, "G1SwuIso", &t1);
            sw::<c::g1_swu_iso::SwuIsoConfig>(k, "G1SwuIso", &t1);
            sw::<c::g2::Config>(k, "G2", &t2);
            wb::<c::g2::Config>(k, "G2", &t2);
            swu::<c::g2_swu_iso::SwuIsoConfig>(k, "G2SwuIso", &t2);
            sw::<c::g2_swu_iso::SwuIsoConfig>(k, "G2SwuIso", &t2);
            bls12_cfg::<c::Config>(k, "Pairing");
        }
        {
            use t::ed_on_bls12_381 as c;
            let k = "test_ed_on_bls12_381";
            fp::<c::Fq>(k, "Fq");
            fp::<c::Fr>(k, "Fr");
            te::<c::EdwardsConfig>(k, "Edwards", &tw_fp::<c::Fq>());
        }
        {
            use t::mnt4_753 as c;
            let k = "test_mnt4_753";
            fp::<c::Fq>(k, "Fq");
            fp::<c::Fr>(k, "Fr");
            sw::<c::g1::Config>(k, "G1", &tw_fp::<c::Fq>());
        }
        {
            use t::mnt6_753 as c;
            let k = "test_mnt6_753";
            fp::<c::Fq>(k, "Fq");
            fp::<c::Fr>(k, "Fr");
            fp3::<c::Fq3Config>(k, "Fq3");
        }
        {
            use t::bn384_small_two_adicity as c;
            let k = "test_bn384_small_two_adicity";
            fp::<c::Fq>(k, "Fq");
            fp::<c::Fr>(k, "Fr");
            sw::<c::g1::Config>(k, "G1", &tw_fp::<c::Fq>());
        }
        {
            use t::secp256k1 as c;
            let k = "test_secp256k1";
            fp::<c::Fq>(k, "Fq");
            fp::<c::Fr>(k, "Fr");
            sw::<c::Config>(k, "G1", &tw_fp::<c::Fq>());
        }
    }
    // ---------------- curve crates ----------------
    {
        use ark_bls12_377 as c;
        let k = "bls12_377";
        fp::<c::Fq>(k, "Fq");
        fp::<c::Fr>(k, "Fr");
        fp2::<c::Fq2Config>(k, "Fq2");
        fp6o2::<c::Fq6Config>(k, "Fq6");
        fp12::<c::Fq12Config>(k, "Fq12");
        let t1 = tw_fp::<c::Fq>();
        let t2 = tw_fp2::<c::Fq2Config>();
        sw::<c::g1::Config>(k, "G1", &t1);
        glv::<c::g1::Config>(k, "G1", &t1);
        te::<c::g1::Config>(k, "G1TE", &t1);
        wb::<c::g1::Config>(k, "G1", &t1);
        swu::<<c::g1::Config as WBConfig>::IsogenousCurve>(k, "G1SwuIso", &t1);
        sw::<<c::g1::Config as WBConfig>::IsogenousCurve>(k, "G1SwuIso", &t1);
        sw::<c::g2::Config>(k, "G2", &t2);
        glv::<c::g2::Config>(k, "G2", &t2);
        wb::<c::g2::Config>(k, "G2", &t2);
        swu::<<c::g2::Config as WBConfig>::IsogenousCurve>(k, "G2SwuIso", &t2);
        sw::<<c::g2::Config as WBConfig>::IsogenousCurve>(k, "G2SwuIso", &t2);
        bls12_cfg::<c::Config>(k, "Pairing");
    }
    {
        use ark_bls12_381 as c;
        let k = "bls12_381";
        fp::<c::Fq>(k, "Fq");
        fp::<c::Fr>(k, "Fr");
        fp2::<c::Fq2Config>(k, "Fq2");
        fp6o2::<c::Fq6Config>(k, "Fq6");
        fp12::<c::Fq12Config>(k, "Fq12");
        let t1 = tw_fp::<c::Fq>();
        let t2 = tw_fp2::<c::Fq2Config>();
        sw::<c::g1::Config>(k, "G1", &t1);
        glv::<c::g1::Config>(k, "G1", &t1);
        wb::<c::g1::Config>(k, "G1", &t1);
        swu::<<c::g1::Config as WBConfig>::IsogenousCurve>(k, "G1SwuIso", &t1);
        sw::<<c::g1::Config as WBConfig>::IsogenousCurve>(k, "G1SwuIso", &t1);
        sw::<c::g2::Config>(k, "G2", &t2);
        glv::<c::g2::Config>(k, "G2", &t2);
        wb::<c::g2::Config>(k, "G2", &t2);
        swu::<<c::g2::Config as WBConfig>::IsogenousCurve>(k, "G2SwuIso", &t2);
        sw::<<c::g2::Config as WBConfig>::IsogenousCurve>(k, "G2SwuIso", &t2);
        bls12_cfg::<c::Config>(k, "Pairing");
    }
    {
        use ark_bn254 as c;
        let k = "bn254";
        fp::<c::Fq>(k, "Fq");
        fp::<c::Fr>(k, "Fr");
        fp2::<c::Fq2Config>(k, "Fq2");
        fp6o2::<c::Fq6Config>(k, "Fq6");
        fp12::<c::Fq12Config>(k, "Fq12");
        let t1 = tw_fp::<c::Fq>();
        let t2 = tw_fp2::<c::Fq2Config>();
        sw::<c::g1::Config>(k, "G1", &t1);
        glv::<c::g1::Config>(k, "G1", &t1);
        sw::<c::g2::Config>(k, "G2", &t2);
        glv::<c::g2::Config>(k, "G2", &t2);
        bn_cfg::<c::Config>(k, "Pairing");
    }
    {
        use ark_bw6_761 as c;
        let k = "bw6_761";
        fp::<c::Fq>(k, "Fq");
        fp::<c::Fr>(k, "Fr");
        fp3::<c::Fq3Config>(k, "Fq3");
        fp6o3::<c::Fq6Config>(k, "Fq6");
        let t1 = tw_fp::<c::Fq>();
        sw::<c::g1::Config>(k, "G1", &t1);
        glv::<c::g1::Config>(k, "G1", &t1);
        sw::<c::g2::Config>(k, "G2", &t1);
        glv::<c::g2::Config>(k, "G2", &t1);
        bw6_cfg::<c::Config>(k, "Pairing");
    }
    {
        use ark_bw6_767 as c;
        let k = "bw6_767";
        fp::<c::Fq>(k, "Fq");
        fp::<c::Fr>(k, "Fr");
        fp3::<c::Fq3Config>(k, "Fq3");
        fp6o3::<c::Fq6Config>(k, "Fq6");
        let t1 = tw_fp::<c::Fq>();
        sw::<c::g1::Config>(k, "G1", &t1);
        sw::<c::g2::Config>(k, "G2", &t1);
        bw6_cfg::<c::Config>(k, "Pairing");
    }
    {
        use ark_cp6_782 as c;
        let k = "cp6_782";
        fp::<c::Fq>(k, "Fq");
        fp::<c::Fr>(k, "Fr");
        fp3::<c::Fq3Config>(k, "Fq3");
        fp6o3::<c::Fq6Config>(k, "Fq6");
        sw::<c::g1::Config>(k, "G1", &tw_fp::<c::Fq>());
        sw::<c::g2::Config>(k, "G2", &tw_fp3::<c::Fq3Config>());
        cp6_cfg();
    }
    {
        use ark_mnt4_298 as c;
        let k = "mnt4_298";
        fp::<c::Fq>(k, "Fq");
        fp::<c::Fr>(k, "Fr");
        fp2::<c::Fq2Config>(k, "Fq2");
        fp4::<c::Fq4Config>(k, "Fq4");
        sw::<c::g1::Config>(k, "G1", &tw_fp::<c::Fq>());
        sw::<c::g2::Config>(k, "G2", &tw_fp2::<c::Fq2Config>());
        mnt4_cfg::<c::Config>(k, "Pairing");
    }
    {
        use ark_mnt4_753 as c;
        let k = "mnt4_753";
        fp::<c::Fq>(k, "Fq");
        fp::<c::Fr>(k, "Fr");
        fp2::<c::Fq2Config>(k, "Fq2");
        fp4::<c::Fq4Config>(k, "Fq4");
        sw::<c::g1::Config>(k, "G1", &tw_fp::<c::Fq>());
        sw::<c::g2::Config>(k, "G2", &tw_fp2::<c::Fq2Config>());
        mnt4_cfg::<c::Config>(k, "Pairing");
    }
    {
        use ark_mnt6_298 as c;
        let k = "mnt6_298";
        fp::<c::Fq>(k, "Fq");
        fp::<c::Fr>(k, "Fr");
        fp3::<c::Fq3Config>(k, "Fq3");
        fp6o3::<c::Fq6Config>(k, "Fq6");
        sw::<c::g1::Config>(k, "G1", &tw_fp::<c::Fq>());
        sw::<c::g2::Config>(k, "G2", &tw_fp3::<c::Fq3Config>());
        mnt6_cfg::<c::Config>(k, "Pairing");
    }
    {
        use ark_mnt6_753 as c;
        let k = "mnt6_753";
        fp::<c::Fq>(k, "Fq");
        fp::<c::Fr>(k, "Fr");
        fp3::<c::Fq3Config>(k, "Fq3");
        fp6o3::<c::Fq6Config>(k, "Fq6");
        sw::<c::g1::Config>(k, "G1", &tw_fp::<c::Fq>());
        sw::<c::g2::Config>(k, "G2", &tw_fp3::<c::Fq3Config>());
        mnt6_cfg::<c::Config>(k, "Pairing");
    }
    macro_rules! ed_crate {
        ($c:ident, $k:expr, $cfg:ident) => {{
            use $c as c;
            let k = $k;
            fp::<c::Fq>(k, "Fq");
            fp::<c::Fr>(k, "Fr");
            te::<c::$cfg>(k, "Edwards", &tw_fp::<c::Fq>());
        }};
    }
    ed_crate!(ark_ed_on_bls12_377, "ed_on_bls12_377", EdwardsConfig);
    ed_crate!(ark_ed_on_bw6_761, "ed_on_bw6_761", EdwardsConfig);
    ed_crate!(ark_ed_on_cp6_782, "ed_on_cp6_782", EdwardsConfig);
    ed_crate!(ark_ed_on_bn254, "ed_on_bn254", EdwardsConfig);
    ed_crate!(ark_ed_on_mnt4_298, "ed_on_mnt4_298", EdwardsConfig);
    ed_crate!(ark_ed_on_mnt4_753, "ed_on_mnt4_753", EdwardsConfig);
    ed_crate!(ark_curve25519, "curve25519", Curve25519Config);
    ed_crate!(ark_ed25519, "ed25519", EdwardsConfig);
    {
        use ark_ed_on_bls12_381 as c;
        let k = "ed_on_bls12_381";
        fp::<c::Fq>(k, "Fq");
        fp::<c::Fr>(k, "Fr");
        let t1 = tw_fp::<c::Fq>();
        te::<c::JubjubConfig>(k, "Edwards", &t1);
        sw::<c::JubjubConfig>(k, "SW", &t1);
    }
    {
        use ark_ed_on_bls12_381_bandersnatch as c;
        let k = "ed_on_bls12_381_bandersnatch";
        fp::<c::Fq>(k, "Fq");
        fp::<c::Fr>(k, "Fr");
        let t1 = tw_fp::<c::Fq>();
        te::<c::BandersnatchConfig>(k, "Edwards", &t1);
        sw::<c::BandersnatchConfig>(k, "SW", &t1);
        elligator2::<c::BandersnatchConfig>(k, "Edwards", &t1);
    }
    macro_rules! sw_crate {
        ($c:ident, $k:expr, $cfg:ident) => {{
            use $c as c;
            let k = $k;
            fp::<c::Fq>(k, "Fq");
            fp::<c::Fr>(k, "Fr");
            sw::<c::$cfg>(k, "G1", &tw_fp::<c::Fq>());
        }};
    }
    sw_crate!(ark_grumpkin, "grumpkin", GrumpkinConfig);
    sw_crate!(ark_secp256k1, "secp256k1", Config);
    sw_crate!(ark_secp256r1, "secp256r1", Config);
    sw_crate!(ark_secp384r1, "secp384r1", Config);
    sw_crate!(ark_secq256k1, "secq256k1", Config);
    {
        use ark_pallas as c;
        let k = "pallas";
        fp::<c::Fq>(k, "Fq");
        fp::<c::Fr>(k, "Fr");
        let t1 = tw_fp::<c::Fq>();
        sw::<c::PallasConfig>(k, "G1", &t1);
        glv::<c::PallasConfig>(k, "G1", &t1);
    }
    {
        use ark_vesta as c;
        let k = "vesta";
        fp::<c::Fq>(k, "Fq");
        fp::<c::Fr>(k, "Fr");
        let t1 = tw_fp::<c::Fq>();
        sw::<c::VestaConfig>(k, "G1", &t1);
        glv::<c::VestaConfig>(k, "G1", &t1);
    }
}
