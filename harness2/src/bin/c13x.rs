//! C13 (extra stream `c13x`): hash-to-curve of the CURVE CRATES under `/repo/curves`.
//!
//! The primary stream (`harness/src/bin/c13.rs`) runs the maps on toy curves and on `ark_test_curves`' copy of
//! bls12_381; this stream runs them on every `WBConfig` / `SWUConfig` / `Elligator2Config` shipped by a curve crate:
//!   ark_bls12_381   g1::Config (WB, 11-isogeny) + g1_swu_iso::SwuIsoConfig (SWU)       ids `g1`, `g1iso`
//!                   g2::Config (WB, 3-isogeny)  + g2_swu_iso::SwuIsoConfig (SWU, Fq2)  ids `g2`, `g2iso`
//!   ark_bls12_377   g1::Config (WB, 2-isogeny)  + g1_swu_iso::SwuIsoConfig             ids `b377g1`, `b377g1iso`
//!                   g2::Config (WB)             + g2_swu_iso::SwuIsoConfig (Fq2)       ids `b377g2`, `b377g2iso`
//!   ark_ed_on_bls12_381_bandersnatch  BandersnatchConfig (Elligator 2)                 id  `band`
//! (the ids `g1`, `g1iso`, `g2`, `g2iso` make the driver compare the constants with RFC 9380 §8.8.1 / §8.8.2).
//!
//! Line syntax = that of `c13.rs` (the driver `Ark.DrvC13` handles the same ops; this stream is fed to a fresh
//! driver process, so it carries its own `cfg.*` header lines):
//!   C13 cfg.sw  <id> <p> <m> <beta> <a> <b> <zeta> <cof> <r>                         => <check_parameters>
//!   C13 cfg.wb  <id> <swid> <a> <b> <heff> <r> <xnum> <xden> <ynum> <yden>           => <check_parameters>
//!   C13 cfg.ell <id> <p> <m> <beta> <te_a> <te_d> <mont_a> <mont_b> <z> <ksqinv> <jonk> <cof> <r> => <check_parameters>
//!   C13 chk.wb <id> <gen>  /  C13 new <id>
//!   C13 xshipped <id> => <check_parameters>   (after the headers of <id>: a configuration shipped by a curve crate must
//!                                              satisfy every condition the driver checked on the header lines; the only new op)
//!   C13 swu <id> <u> => x y        C13 wb <id> <u> => x y | inf        C13 ell <id> <u> => v w
//!   C13 hash <id> <dst> <msg>      MapToCurveBasedHasher<Projective<P>, DefaultFieldHasher<Sha256,128>, WBMap<P>>::hash
//!   C13 hashswu <id> <dst> <msg>   (SWUMap<P> onto the isogenous curve itself; default cofactor clearing)
//!   C13 ehash <id> <dst> <msg>     (Elligator2Map<P>, twisted Edwards)
//!   C13 rfcvec.hash <id> <dst> <msg> <u0;u1> <Q0> <Q1> => P     the JSON vectors shipped next to the curve crates
//!                                  (bls12_381: RFC 9380 appendix J.9.1 / J.10.1; bls12_377: the crate's own files)
//!   C13 h2f <p> <bits> <m> <sec> <N> <dst> <msg>                hash_to_field on the vectors' (dst, msg)
//! `h_eff`: bls12_381 = RFC 9380 §8.8.1 / §8.8.2; bls12_377 G1 = `x − 1` (comment of `g1::Config::clear_cofactor`),
//! G2 = the constant of `g2::test::test_cofactor_clearing` (the same constants the C12 stream uses).
//!
//! Inputs of the maps: u = 0, ±1, the exceptional inputs computed here by root finding (Z·u² = −1; u with SWU(u) a
//! root of a denominator of the isogeny; u with g(x1) = 0 or g(x2) = 0, i.e. SWU(u) a 2-torsion point; u with
//! x1(u) or x2(u) equal to 0 or to a zero of a numerator of the isogeny; for Elligator: 1 + Z·u² = 0, gx = 0, s = −1),
//! small integers ±k, all coordinate patterns from
//! {0, ±1, ±2, ±1/2}, elements of Fq2 with a zero component, seeded random elements.
//! Messages of length 0, 1, 64 (one SHA-256 block), random; DSTs of length 1, 43, 255, 256, 300.
//! Command line: `c13x [quick|thorough] [seed] [substring of the ids to run]`.
#![allow(dead_code, clippy::type_complexity)]
use ark_ec::{
    hashing::{
        curve_maps::{
            elligator2::{Elligator2Config, Elligator2Map},
            swu::{SWUConfig, SWUMap},
            wb::{WBConfig, WBMap},
        },
        map_to_curve_hasher::{MapToCurve, MapToCurveBasedHasher},
        HashToCurve,
    },
    short_weierstrass as sw, twisted_edwards as te, AffineRepr,
};
use ark_ff::{
    field_hashers::{DefaultFieldHasher, HashToField},
    Field, One, PrimeField, Zero,
};
use num_bigint::BigUint;
use sha2::Sha256;
use std::io::Write;

// ------------------------------------------------------------------ plumbing (as in harness/src/util.rs)
struct Rng(u64);
impl Rng {
    fn new(seed: u64) -> Self { Rng(seed ^ 0x9E37_79B9_7F4A_7C15) }
    fn next(&mut self) -> u64 {
        self.0 = self.0.wrapping_add(0x9E37_79B9_7F4A_7C15);
        let mut z = self.0;
        z = (z ^ (z >> 30)).wrapping_mul(0xBF58_476D_1CE4_E5B9);
        z = (z ^ (z >> 27)).wrapping_mul(0x94D0_49BB_1331_11EB);
        z ^ (z >> 31)
    }
    fn below(&mut self, n: u64) -> u64 { if n == 0 { 0 } else { self.next() % n } }
}
struct Out { w: std::io::BufWriter<std::io::Stdout> }
impl Out {
    fn line(&mut self, input: &str, result: &str) { writeln!(self.w, "{} => {}", input, result).unwrap(); }
}
fn guarded<F: FnOnce() -> String>(f: F) -> String {
    match std::panic::catch_unwind(std::panic::AssertUnwindSafe(f)) { Ok(s) => s, Err(_) => "panic".into() }
}
fn hex_limbs(l: &[u64]) -> String {
    let mut s = String::new();
    let mut started = false;
    for x in l.iter().rev() {
        if started { s.push_str(&format!("{:016x}", x)); } else if *x != 0 { s.push_str(&format!("{:x}", x)); started = true; }
    }
    if !started { s.push('0'); }
    s
}

// ------------------------------------------------------------------ printing (as in c13.rs)
fn pf<F: PrimeField>(x: &F) -> String { hex_limbs(x.into_bigint().as_ref()) }
fn fe<F: Field>(x: &F) -> String { x.to_base_prime_field_elements().map(|c| pf(&c)).collect::<Vec<_>>().join(",") }
fn fl<F: Field>(v: &[F]) -> String {
    if v.is_empty() { "_".into() } else { v.iter().map(fe).collect::<Vec<_>>().join(";") }
}
fn pmod<F: Field>() -> String { hex_limbs(F::BasePrimeField::MODULUS.as_ref()) }
fn hb(b: &[u8]) -> String {
    if b.is_empty() { "_".into() } else { b.iter().map(|x| format!("{:02x}", x)).collect() }
}
fn swaff<P: sw::SWCurveConfig>(p: &sw::Affine<P>) -> String {
    match p.xy() { None => "inf".into(), Some((x, y)) => format!("{} {}", fe(&x), fe(&y)) }
}
fn teaff<P: te::TECurveConfig>(p: &te::Affine<P>) -> String { format!("{} {}", fe(&p.x), fe(&p.y)) }
/// β with i² = β for the element i = (0, 1) of a quadratic extension; 0 otherwise
fn beta<F: Field>() -> String {
    if F::extension_degree() != 2 { return "0".into(); }
    let i = F::from_base_prime_field_elems([F::BasePrimeField::zero(), F::BasePrimeField::one()]).unwrap();
    pf(&i.square().to_base_prime_field_elements().next().unwrap())
}

// ------------------------------------------------------------------ field elements
fn rand_prime<F: PrimeField>(rng: &mut Rng) -> F {
    let n = (F::MODULUS_BIT_SIZE as usize + 7) / 8 + 8;
    let b: Vec<u8> = (0..n).map(|_| rng.next() as u8).collect();
    F::from_be_bytes_mod_order(&b)
}
fn rand_elem<F: Field>(rng: &mut Rng) -> F {
    let m = F::extension_degree() as usize;
    F::from_base_prime_field_elems((0..m).map(|_| rand_prime::<F::BasePrimeField>(rng)).collect::<Vec<_>>()).unwrap()
}
fn from_coords<F: Field>(cs: Vec<F::BasePrimeField>) -> F { F::from_base_prime_field_elems(cs).unwrap() }
/// 0, ±1, ±k (k = 2 … 20) embedded in every coordinate pattern; all coordinate vectors over {0, ±1, ±2, ±1/2};
/// elements with exactly one non-zero (random) coordinate; `extra` random elements (a quarter of the coordinates from the
/// small set)
fn map_inputs<F: Field>(rng: &mut Rng, extra: usize) -> Vec<F> {
    let m = F::extension_degree() as usize;
    let one = F::BasePrimeField::one();
    let zero = F::BasePrimeField::zero();
    let two = one + one;
    let half = two.inverse().unwrap();
    let mut v: Vec<F> = vec![F::zero(), F::one(), -F::one()];
    for k in 2u64..=20 {
        let c = F::BasePrimeField::from(k);
        v.push(from_coords((0..m).map(|j| if j == 0 { c } else { zero }).collect()));
        v.push(from_coords((0..m).map(|j| if j == 0 { -c } else { zero }).collect()));
        if m > 1 {
            v.push(from_coords((0..m).map(|j| if j == 1 { c } else { zero }).collect()));
            v.push(from_coords((0..m).map(|j| if j == 1 { -c } else { zero }).collect()));
            v.push(from_coords((0..m).map(|_| c).collect()));
        }
    }
    let small = [zero, one, two, -one, -two, -half, half];
    let total = 7usize.pow(m.min(3) as u32);
    for k in 0..total {
        let mut kk = k;
        v.push(from_coords((0..m).map(|j| { if j < 3 { let c = small[kk % 7]; kk /= 7; c } else { zero } }).collect()));
    }
    if m > 1 {
        for _ in 0..(extra / 4).max(4) {
            let pos = rng.below(m as u64) as usize;
            let c = rand_prime::<F::BasePrimeField>(rng);
            v.push(from_coords((0..m).map(|j| if j == pos { c } else { zero }).collect()));
        }
    }
    for _ in 0..extra {
        v.push(from_coords((0..m).map(|_| {
            if rng.below(4) == 0 { small[rng.below(7) as usize] } else { rand_prime::<F::BasePrimeField>(rng) }
        }).collect()));
    }
    dedup(v)
}
fn dedup<F: PartialEq>(v: Vec<F>) -> Vec<F> {
    let mut seen: Vec<F> = Vec::new();
    for u in v { if !seen.contains(&u) { seen.push(u); } }
    seen
}

// ------------------------------------------------------------------ polynomial root finding over a field (as in c13.rs)
type Pl<F> = Vec<F>; // low degree first, no trailing zeros
fn ptrim<F: Field>(mut a: Pl<F>) -> Pl<F> { while a.last().map(|c| c.is_zero()).unwrap_or(false) { a.pop(); } a }
fn pmul<F: Field>(a: &Pl<F>, b: &Pl<F>) -> Pl<F> {
    if a.is_empty() || b.is_empty() { return vec![]; }
    let mut r = vec![F::zero(); a.len() + b.len() - 1];
    for (i, x) in a.iter().enumerate() { for (j, y) in b.iter().enumerate() { r[i + j] += *x * *y; } }
    ptrim(r)
}
fn pdivrem<F: Field>(a: &Pl<F>, m: &Pl<F>) -> (Pl<F>, Pl<F>) {
    let mut a = a.clone();
    let inv = m.last().unwrap().inverse().unwrap();
    let mut q = vec![F::zero(); if a.len() >= m.len() { a.len() - m.len() + 1 } else { 0 }];
    while a.len() >= m.len() {
        let c = *a.last().unwrap() * inv;
        let d = a.len() - m.len();
        q[d] = c;
        for (i, y) in m.iter().enumerate() { a[d + i] -= c * *y; }
        a.pop();
        a = ptrim(a);
    }
    (ptrim(q), a)
}
fn psub<F: Field>(a: &Pl<F>, b: &Pl<F>) -> Pl<F> {
    let n = a.len().max(b.len());
    ptrim((0..n).map(|i| a.get(i).copied().unwrap_or(F::zero()) - b.get(i).copied().unwrap_or(F::zero())).collect())
}
fn pgcd<F: Field>(a: &Pl<F>, b: &Pl<F>) -> Pl<F> {
    let (mut a, mut b) = (a.clone(), b.clone());
    while !b.is_empty() { let r = pdivrem(&a, &b).1; a = b; b = r; }
    if a.is_empty() { return a; }
    let inv = a.last().unwrap().inverse().unwrap();
    a.iter().map(|c| *c * inv).collect()
}
fn ppow<F: Field>(base: &Pl<F>, e: &BigUint, m: &Pl<F>) -> Pl<F> {
    let mut r: Pl<F> = vec![F::one()];
    let b = pdivrem(base, m).1;
    for i in (0..e.bits()).rev() {
        r = pdivrem(&pmul(&r, &r), m).1;
        if e.bit(i) { r = pdivrem(&pmul(&r, &b), m).1; }
    }
    r
}
fn field_order<F: Field>() -> BigUint {
    let mut bytes = Vec::new();
    for l in F::characteristic() { bytes.extend_from_slice(&l.to_le_bytes()); }
    BigUint::from_bytes_le(&bytes).pow(F::extension_degree() as u32)
}
/// all roots in F of the polynomial `f` (Cantor–Zassenhaus on gcd(f, x^|F| − x))
fn roots<F: Field>(f: &[F], rng: &mut Rng) -> Vec<F> {
    let f = ptrim(f.to_vec());
    if f.len() <= 1 { return vec![]; }
    let q = field_order::<F>();
    let x: Pl<F> = vec![F::zero(), F::one()];
    let xq = ppow(&x, &q, &f);
    let g = pgcd(&f, &psub(&xq, &x));
    let mut res = Vec::new();
    let mut stack = vec![g];
    let half = (&q - 1u32) / 2u32;
    while let Some(g) = stack.pop() {
        if g.len() <= 1 { continue; }
        if g.len() == 2 { res.push(-g[0] * g[1].inverse().unwrap()); continue; }
        loop {
            let delta: F = rand_elem(rng);
            let h = psub(&ppow(&vec![delta, F::one()], &half, &g), &vec![F::one()]);
            if h.is_empty() { continue; }
            let d = pgcd(&g, &h);
            if d.len() > 1 && d.len() < g.len() {
                let qq = pdivrem(&g, &d).0;
                stack.push(d);
                stack.push(qq);
                break;
            }
        }
    }
    res
}
/// all u with x1(u) = x or x2(u) = x for the SWU map of `P` (t = Z·u²; two quadratics in t)
fn swu_preimages<P: SWUConfig>(x: P::BaseField) -> Vec<P::BaseField> {
    let (a, b, z) = (P::COEFF_A, P::COEFF_B, P::ZETA);
    let one = P::BaseField::one();
    let two_inv = (one + one).inverse().unwrap();
    let four = (one + one).square();
    let mab = -a * b.inverse().unwrap();
    let mut ts = Vec::new();
    // x1 = (−B/A)(1 + 1/(t²+t)) = x   ⇔   t² + t = 1/((−A/B)·x − 1)
    let den = mab * x - one;
    if let Some(c) = den.inverse() {
        if let Some(s) = (one + four * c).sqrt() { ts.push((-one + s) * two_inv); ts.push((-one - s) * two_inv); }
    }
    // x1 = B/(Z·A) when t² + t = 0
    if x == b * (z * a).inverse().unwrap() { ts.push(P::BaseField::zero()); ts.push(-one); }
    // x2 = t·x1 = (−B/A)(t²+t+1)/(t+1) = x   ⇔   t² + (1−k)t + (1−k) = 0,  k = (−A/B)·x
    let bb = one - mab * x;
    if let Some(s) = (bb.square() - four * bb).sqrt() { ts.push((-bb + s) * two_inv); ts.push((-bb - s) * two_inv); }
    let mut us = Vec::new();
    let zi = z.inverse().unwrap();
    for t in ts { if let Some(u) = (t * zi).sqrt() { us.push(u); us.push(-u); } }
    us
}
/// the exceptional inputs of SWU (+ isogeny `iso_dens`): u = 0, Z u² = −1, gx1 = 0 / gx2 = 0, poles of the isogeny.
/// Returns the inputs and (for the report on stderr) the number of x-roots found per category.
/// `iso_nums`: the numerators (their roots are the x with image x = 0 resp. image y = 0); x = 0 is a target too
/// (`DensePolynomial::evaluate` has a branch for the point 0).
fn swu_exceptional<P: SWUConfig>(iso_dens: &[&[P::BaseField]], iso_nums: &[&[P::BaseField]], rng: &mut Rng) -> (Vec<P::BaseField>, String) {
    let one = P::BaseField::one();
    let mut us = vec![P::BaseField::zero()];
    let mut rep = String::new();
    if let Some(u) = (-P::ZETA.inverse().unwrap()).sqrt() { us.push(u); us.push(-u); rep.push_str("Zu2=-1:2 "); } else { rep.push_str("Zu2=-1:0 "); }
    let tors = roots(&[P::COEFF_B, P::COEFF_A, P::BaseField::zero(), one], rng); // 2-torsion: gx = 0
    rep.push_str(&format!("2-torsion x:{} ", tors.len()));
    let mut targets = tors;
    for d in iso_dens { let r = roots(d, rng); rep.push_str(&format!("den(deg {}) roots:{} ", d.len() - 1, r.len())); targets.extend(r); }
    let mut n = 0;
    for x in dedup(targets) { let p = swu_preimages::<P>(x); n += p.len(); us.extend(p); }
    rep.push_str(&format!("preimages u:{} ", n));
    let mut others = vec![P::BaseField::zero()];
    for d in iso_nums { let r = roots(d, rng); rep.push_str(&format!("num(deg {}) roots:{} ", d.len() - 1, r.len())); others.extend(r); }
    let mut n = 0;
    for x in dedup(others) { let p = swu_preimages::<P>(x); n += p.len(); us.extend(p); }
    rep.push_str(&format!("preimages u of x=0 / zeros of the numerators:{}", n));
    (dedup(us), rep)
}
/// the exceptional inputs of Elligator 2 on `K t² = s³ + J s² + s` (x = s/K: `g(x) = x³ + (J/K) x² + x/K²`):
/// u = 0; 1 + Z u² = 0; g(x1) = 0 or g(x2) = 0 (t = 0); s = −1 (x = −1/K)
fn ell_exceptional<P: Elligator2Config>() -> (Vec<P::BaseField>, String) {
    let one = P::BaseField::one();
    let z = P::Z;
    let j = P::COEFF_A_OVER_COEFF_B;
    let k2 = P::ONE_OVER_COEFF_B_SQUARE;
    let kb = <P as te::MontCurveConfig>::COEFF_B;
    let mut us = vec![P::BaseField::zero()];
    let mut rep = String::new();
    if let Some(u) = (-z.inverse().unwrap()).sqrt() { us.push(u); us.push(-u); rep.push_str("1+Zu2=0:2 "); } else { rep.push_str("1+Zu2=0:0 "); }
    // targets for x1 (x2 = −x1 − J): roots of x² + J x + 1/K² (gx = 0), and −1/K, −J + 1/K (s = −1)
    let mut xs: Vec<P::BaseField> = Vec::new();
    let two_inv = (one + one).inverse().unwrap();
    let four = (one + one).square();
    if let Some(s) = (j.square() - four * k2).sqrt() { xs.push((-j + s) * two_inv); xs.push((-j - s) * two_inv); rep.push_str("gx=0 x:2 "); } else { rep.push_str("gx=0 x:0 "); }
    let kinv = kb.inverse().unwrap();
    xs.push(-kinv);
    xs.push(-j + kinv);
    let mut n = 0;
    for x in xs {
        // x1 = −J / (1 + Z u²) = x   ⇔   u² = (−J/x − 1)/Z
        if let Some(xi) = x.inverse() {
            if let Some(u) = ((-j * xi - one) * z.inverse().unwrap()).sqrt() { us.push(u); us.push(-u); n += 2; }
        }
    }
    rep.push_str(&format!("preimages u:{}", n));
    (dedup(us), rep)
}

// ------------------------------------------------------------------ configurations
fn chk<M: MapToCurve<G>, G: ark_ec::CurveGroup>() -> String {
    guarded(|| match M::check_parameters() { Ok(()) => "ok".into(), Err(_) => "err".into() })
}
fn cfg_sw<P: SWUConfig>(out: &mut Out, id: &str, r: &str) {
    out.line(
        &format!("C13 cfg.sw {} {} {:x} {} {} {} {} {} {}", id, pmod::<P::BaseField>(), P::BaseField::extension_degree(),
                 beta::<P::BaseField>(), fe(&P::COEFF_A), fe(&P::COEFF_B), fe(&P::ZETA), hex_limbs(P::COFACTOR), r),
        &chk::<SWUMap<P>, sw::Projective<P>>(),
    );
}
fn cfg_wb<P: WBConfig>(out: &mut Out, id: &str, swid: &str, heff: &str, r: &str) {
    let m = &P::ISOGENY_MAP;
    out.line(
        &format!("C13 cfg.wb {} {} {} {} {} {} {} {} {} {}", id, swid, fe(&P::COEFF_A), fe(&P::COEFF_B), heff, r,
                 fl(m.x_map_numerator), fl(m.x_map_denominator), fl(m.y_map_numerator), fl(m.y_map_denominator)),
        &chk::<WBMap<P>, sw::Projective<P>>(),
    );
}
fn cfg_ell<P: Elligator2Config>(out: &mut Out, id: &str, r: &str) {
    out.line(
        &format!("C13 cfg.ell {} {} {:x} {} {} {} {} {} {} {} {} {} {}", id, pmod::<P::BaseField>(), P::BaseField::extension_degree(),
                 beta::<P::BaseField>(), fe(&<P as te::TECurveConfig>::COEFF_A), fe(&<P as te::TECurveConfig>::COEFF_D),
                 fe(&<P as te::MontCurveConfig>::COEFF_A), fe(&<P as te::MontCurveConfig>::COEFF_B), fe(&P::Z),
                 fe(&P::ONE_OVER_COEFF_B_SQUARE), fe(&P::COEFF_A_OVER_COEFF_B), hex_limbs(P::COFACTOR), r),
        &chk::<Elligator2Map<P>, te::Projective<P>>(),
    );
}
/// `check_parameters` of a WB configuration once more, with the point it feeds to `IsogenyMap::apply` on the line
fn chk_wb<P: WBConfig>(out: &mut Out, id: &str) {
    let g = match <P::IsogenousCurve as sw::SWCurveConfig>::GENERATOR.xy() { None => "inf".to_string(), Some((x, y)) => format!("{}/{}", fe(&x), fe(&y)) };
    out.line(&format!("C13 chk.wb {} {}", id, g), &chk::<WBMap<P>, sw::Projective<P>>());
}
type H2F = DefaultFieldHasher<Sha256, 128>;
fn new_line<G: ark_ec::CurveGroup, M: MapToCurve<G>>(out: &mut Out, id: &str) {
    let r = guarded(|| match MapToCurveBasedHasher::<G, H2F, M>::new(b"QUUX-V01-CS02-with-expander") { Ok(_) => "ok".into(), Err(_) => "err".into() });
    out.line(&format!("C13 new {}", id), &r);
}

// ------------------------------------------------------------------ the maps
fn swu_line<P: SWUConfig>(out: &mut Out, id: &str, u: P::BaseField) {
    let r = guarded(|| match SWUMap::<P>::map_to_curve(u) { Ok(p) => swaff(&p), Err(_) => "err".into() });
    out.line(&format!("C13 swu {} {}", id, fe(&u)), &r);
}
fn wb_line<P: WBConfig>(out: &mut Out, id: &str, u: P::BaseField) {
    let r = guarded(|| match WBMap::<P>::map_to_curve(u) { Ok(p) => swaff(&p), Err(_) => "err".into() });
    out.line(&format!("C13 wb {} {}", id, fe(&u)), &r);
}
fn ell_line<P: Elligator2Config>(out: &mut Out, id: &str, u: P::BaseField) {
    let r = guarded(|| match Elligator2Map::<P>::map_to_curve(u) { Ok(p) => teaff(&p), Err(_) => "err".into() });
    out.line(&format!("C13 ell {} {}", id, fe(&u)), &r);
}
fn hash_line<P: WBConfig>(out: &mut Out, id: &str, dst: &[u8], msg: &[u8]) {
    let r = guarded(|| {
        let run = || MapToCurveBasedHasher::<sw::Projective<P>, H2F, WBMap<P>>::new(dst).unwrap().hash(msg);
        match (run(), run()) {
            (Ok(a), Ok(b)) => if a == b { swaff(&a) } else { "nondeterministic".into() },
            _ => "err".into(),
        }
    });
    out.line(&format!("C13 hash {} {} {}", id, hb(dst), hb(msg)), &r);
}
fn hashswu_line<P: SWUConfig>(out: &mut Out, id: &str, dst: &[u8], msg: &[u8]) {
    let r = guarded(|| {
        let run = || MapToCurveBasedHasher::<sw::Projective<P>, H2F, SWUMap<P>>::new(dst).unwrap().hash(msg);
        match (run(), run()) {
            (Ok(a), Ok(b)) => if a == b { swaff(&a) } else { "nondeterministic".into() },
            _ => "err".into(),
        }
    });
    out.line(&format!("C13 hashswu {} {} {}", id, hb(dst), hb(msg)), &r);
}
fn ehash_line<P: Elligator2Config>(out: &mut Out, id: &str, dst: &[u8], msg: &[u8]) {
    let r = guarded(|| {
        let run = || MapToCurveBasedHasher::<te::Projective<P>, H2F, Elligator2Map<P>>::new(dst).unwrap().hash(msg);
        match (run(), run()) {
            (Ok(a), Ok(b)) => if a == b { teaff(&a) } else { "nondeterministic".into() },
            _ => "err".into(),
        }
    });
    out.line(&format!("C13 ehash {} {} {}", id, hb(dst), hb(msg)), &r);
}
fn h2f_one<F: Field, const SEC: usize, const N: usize>(out: &mut Out, dst: &[u8], msg: &[u8]) {
    let r = guarded(|| {
        let h = <DefaultFieldHasher<Sha256, SEC> as HashToField<F>>::new(dst);
        let a: [F; N] = h.hash_to_field::<N>(msg);
        fl(&a)
    });
    out.line(
        &format!("C13 h2f {} {:x} {:x} {:x} {:x} {} {}", pmod::<F>(), F::BasePrimeField::MODULUS_BIT_SIZE,
                 F::extension_degree(), SEC, N, hb(dst), hb(msg)),
        &r,
    );
}

// ------------------------------------------------------------------ (dst, msg) corpus
fn bytes_of_len(rng: &mut Rng, n: usize, style: u64) -> Vec<u8> {
    match style % 4 {
        0 => vec![0u8; n],
        1 => vec![0xffu8; n],
        2 => (0..n).map(|i| (i % 251) as u8).collect(),
        _ => (0..n).map(|_| rng.next() as u8).collect(),
    }
}
const DST_LENS: [usize; 5] = [1, 43, 255, 256, 300];
/// messages: empty, one byte, one SHA-256 block, random length; DSTs of the five boundary lengths.
/// `full` = the 5 × 4 cross product, otherwise 5 pairs (every DST length and every message kind once) + `extra` random pairs
fn pairs(rng: &mut Rng, full: bool, extra: usize) -> Vec<(Vec<u8>, Vec<u8>)> {
    let msg = |rng: &mut Rng, kind: usize| -> Vec<u8> {
        match kind % 4 {
            0 => vec![],
            1 => vec![rng.next() as u8],
            2 => bytes_of_len(rng, 64, 3),
            _ => { let n = 2 + rng.below(200) as usize; bytes_of_len(rng, n, 3) }
        }
    };
    let mut v = Vec::new();
    for (i, &dl) in DST_LENS.iter().enumerate() {
        if full { for k in 0..4 { v.push((bytes_of_len(rng, dl, 3), msg(rng, k))); } }
        else { v.push((bytes_of_len(rng, dl, 3), msg(rng, i))); }
    }
    for _ in 0..extra {
        let dl = if rng.below(4) == 0 { 250 + rng.below(12) as usize } else { 1 + rng.below(64) as usize };
        let k = rng.below(4) as usize;
        v.push((bytes_of_len(rng, dl, 3), msg(rng, k)));
    }
    v
}

// ------------------------------------------------------------------ JSON vectors shipped next to the curve crates
fn repo() -> String { std::env::var("VERIF_REPO").unwrap_or_else(|_| "/repo".into()) }
/// the string value following `"key": "` at or after `from`; returns (value, position after it)
fn jstr(s: &str, key: &str, from: usize) -> Option<(String, usize)> {
    let pat = format!("\"{}\": \"", key);
    let i = s[from..].find(&pat)? + from + pat.len();
    let j = s[i..].find('"')? + i;
    Some((s[i..j].to_string(), j + 1))
}
/// "0x00ab…" or "0x…,0x…" → canonical element syntax
fn jnum(v: &str) -> String {
    v.split(',').map(|c| { let t = c.trim().trim_start_matches("0x").trim_start_matches('0'); if t.is_empty() { "0".to_string() } else { t.to_lowercase() } })
        .collect::<Vec<_>>().join(",")
}
fn json_hash_vectors<P: WBConfig>(out: &mut Out, id: &str, rel: &str) {
    let path = format!("{}/{}", repo(), rel);
    let Ok(s) = std::fs::read_to_string(&path) else { out.line(&format!("C13 rfcvec.missing {}", path), "missing"); return; };
    let (dst, _) = jstr(&s, "dst", 0).unwrap();
    let mut pos = s.find("\"vectors\"").unwrap();
    while let Some(i) = s[pos..].find("\"P\": {") {
        let at = pos + i;
        let (px, a) = jstr(&s, "x", at).unwrap();
        let (py, a) = jstr(&s, "y", a).unwrap();
        let (q0x, a) = jstr(&s, "x", a).unwrap();
        let (q0y, a) = jstr(&s, "y", a).unwrap();
        let (q1x, a) = jstr(&s, "x", a).unwrap();
        let (q1y, a) = jstr(&s, "y", a).unwrap();
        let (msg, a) = jstr(&s, "msg", a).unwrap();
        let ub = s[a..].find("\"u\": [").unwrap() + a;
        let i0 = s[ub..].find("\"0x").unwrap() + ub + 1;
        let j0 = s[i0..].find('"').unwrap() + i0;
        let i1 = s[j0 + 1..].find("\"0x").unwrap() + j0 + 2;
        let j1 = s[i1..].find('"').unwrap() + i1;
        let (u0, u1) = (&s[i0..j0], &s[i1..j1]);
        out.line(
            &format!("C13 rfcvec.hash {} {} {} {};{} {}/{} {}/{}", id, hb(dst.as_bytes()), hb(msg.as_bytes()), jnum(u0), jnum(u1),
                     jnum(&q0x), jnum(&q0y), jnum(&q1x), jnum(&q1y)),
            &format!("{} {}", jnum(&px), jnum(&py)),
        );
        // and the real code on the same (dst, msg)
        hash_line::<P>(out, id, dst.as_bytes(), msg.as_bytes());
        h2f_one::<P::BaseField, 128, 2>(out, dst.as_bytes(), msg.as_bytes());
        pos = j1;
    }
}

// ------------------------------------------------------------------ suites
struct Plan { n_rand: usize, full_hash: bool, extra_hash: usize, n_hashswu: usize }

fn wb_suite<P: WBConfig>(rng: &mut Rng, out: &mut Out, id: &str, swid: &str, heff: &str, r: &str, json: Option<&str>, plan: &Plan)
where P::IsogenousCurve: SWUConfig {
    // headers
    cfg_sw::<P::IsogenousCurve>(out, swid, r);
    cfg_wb::<P>(out, id, swid, heff, r);
    chk_wb::<P>(out, id);
    out.line(&format!("C13 xshipped {}", swid), &chk::<SWUMap<P::IsogenousCurve>, sw::Projective<P::IsogenousCurve>>());
    out.line(&format!("C13 xshipped {}", id), &chk::<WBMap<P>, sw::Projective<P>>());
    new_line::<sw::Projective<P>, WBMap<P>>(out, id);
    new_line::<sw::Projective<P::IsogenousCurve>, SWUMap<P::IsogenousCurve>>(out, swid);
    if let Some(j) = json { json_hash_vectors::<P>(out, id, j); }
    // the maps
    let m = &P::ISOGENY_MAP;
    let (mut us, rep) = swu_exceptional::<P::IsogenousCurve>(&[m.x_map_denominator, m.y_map_denominator], &[m.x_map_numerator, m.y_map_numerator], rng);
    eprintln!("c13x {}: exceptional inputs: {} ({})", id, us.len(), rep);
    us.extend(map_inputs::<P::BaseField>(rng, plan.n_rand));
    let us = dedup(us);
    for u in &us { swu_line::<P::IsogenousCurve>(out, swid, *u); }
    for u in &us { wb_line::<P>(out, id, *u); }
    // full hashes
    for (d, msg) in pairs(rng, plan.full_hash, plan.extra_hash) { hash_line::<P>(out, id, &d, &msg); }
    for (d, msg) in pairs(rng, false, 0).into_iter().take(plan.n_hashswu) { hashswu_line::<P::IsogenousCurve>(out, swid, &d, &msg); }
}

fn ell_suite<P: Elligator2Config>(rng: &mut Rng, out: &mut Out, id: &str, r: &str, plan: &Plan) {
    cfg_ell::<P>(out, id, r);
    out.line(&format!("C13 xshipped {}", id), &chk::<Elligator2Map<P>, te::Projective<P>>());
    new_line::<te::Projective<P>, Elligator2Map<P>>(out, id);
    let (mut us, rep) = ell_exceptional::<P>();
    eprintln!("c13x {}: exceptional inputs: {} ({})", id, us.len(), rep);
    us.extend(map_inputs::<P::BaseField>(rng, plan.n_rand));
    for u in dedup(us) { ell_line::<P>(out, id, u); }
    for (d, msg) in pairs(rng, plan.full_hash, plan.extra_hash) { ehash_line::<P>(out, id, &d, &msg); }
}

// RFC 9380 §8.8.1 / §8.8.2
const BLS12_381_G1_H_EFF: &str = "d201000000010001";
const BLS12_381_G2_H_EFF: &str = "bc69f08f2ee75b3584c6a0ea91b352888e2a8e9145ad7689986ff031508ffe1329c2f178731db956d82bf015d1212b02ec0ec69d7477c1ae954cbc06689f6a359894c0adebbf6b4e8020005aaa95551";
// bls12_377: `x − 1` (comment of `g1::Config::clear_cofactor`), x = 0x8508c00000000001
const BLS12_377_G1_H_EFF: &str = "8508c00000000000";
// bls12_377 G2: the constant `h_eff` of `g2::test::test_cofactor_clearing` (the ψ-based `clear_cofactor` is compared with it there)
const BLS12_377_G2_H_EFF: &[u64] = &[
    0x1e34800000000000, 0xcf664765b0000003, 0x8e8e73ad8a538800, 0x78ba279637388559, 0xb85860aaaad29276,
    0xf7ee7c4b03103b45, 0x8f6ade35a5c7d769, 0xa951764c46f4edd2, 0x53648d3d9502abfb, 0x1f60243677e306,
];

fn main() {
    if std::env::var("C13X_DEBUG").is_err() { std::panic::set_hook(Box::new(|_| {})); }
    let a: Vec<String> = std::env::args().collect();
    let thorough = a.get(1).map(|s| s == "thorough").unwrap_or(false);
    let seed: u64 = a.get(2).and_then(|s| s.parse().ok()).unwrap_or(0);
    let only = a.get(3).cloned();
    // `VERIF_STREAM_PROP`: this stream belongs to C13 only
    if let Ok(p) = std::env::var("VERIF_STREAM_PROP") { if !p.is_empty() && p != "C13" { return; } }
    let mut rng = Rng::new(seed);
    let mut out = Out { w: std::io::BufWriter::with_capacity(1 << 20, std::io::stdout()) };
    const IDS: [&str; 5] = ["g1", "g2", "b377g1", "b377g2", "band"];
    let sel = |n: &str| only.as_ref().map(|o| if IDS.contains(&o.as_str()) { n == o } else { n.contains(o.as_str()) }).unwrap_or(true);
    let t = thorough;
    // prime field / quadratic extension plans (the driver's cost per line is dominated by square roots and, for the
    // full hashes, by the scalar multiplications h_eff·Q and r·P over 377/381-bit fields)
    let p1 = Plan { n_rand: if t { 3000 } else { 300 }, full_hash: true, extra_hash: if t { 200 } else { 12 }, n_hashswu: if t { 5 } else { 2 } };
    let p2 = Plan { n_rand: if t { 2000 } else { 200 }, full_hash: true, extra_hash: if t { 150 } else { 8 }, n_hashswu: if t { 5 } else { 1 } };
    let pe = Plan { n_rand: if t { 5000 } else { 500 }, full_hash: true, extra_hash: if t { 200 } else { 12 }, n_hashswu: 0 };

    {
        use ark_bls12_381 as c;
        let r = hex_limbs(c::Fr::MODULUS.as_ref());
        if sel("g1") {
            wb_suite::<c::g1::Config>(&mut rng, &mut out, "g1", "g1iso", BLS12_381_G1_H_EFF, &r,
                Some("curves/bls12_381/src/curves/tests/BLS12381G1_XMD-SHA-256_SSWU_RO_.json"), &p1);
        }
        if sel("g2") {
            wb_suite::<c::g2::Config>(&mut rng, &mut out, "g2", "g2iso", BLS12_381_G2_H_EFF, &r,
                Some("curves/bls12_381/src/curves/tests/BLS12381G2_XMD-SHA-256_SSWU_RO_.json"), &p2);
        }
    }
    {
        use ark_bls12_377 as c;
        let r = hex_limbs(c::Fr::MODULUS.as_ref());
        if sel("b377g1") {
            wb_suite::<c::g1::Config>(&mut rng, &mut out, "b377g1", "b377g1iso", BLS12_377_G1_H_EFF, &r,
                Some("curves/bls12_377/src/curves/tests/BLS12377G1_XMD-SHA-256_SSWU_RO_.json"), &p1);
        }
        if sel("b377g2") {
            wb_suite::<c::g2::Config>(&mut rng, &mut out, "b377g2", "b377g2iso", &hex_limbs(BLS12_377_G2_H_EFF), &r,
                Some("curves/bls12_377/src/curves/tests/BLS12377G2_XMD-SHA-256_SSWU_RO_.json"), &p2);
        }
    }
    if sel("band") {
        use ark_ed_on_bls12_381_bandersnatch as c;
        ell_suite::<c::BandersnatchConfig>(&mut rng, &mut out, "band", &hex_limbs(c::Fr::MODULUS.as_ref()), &pe);
    }
    out.w.flush().unwrap();
}
