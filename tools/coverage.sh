#!/usr/bin/env bash
# coverage.sh [TIER] [CAP_S]  --  source-based coverage of /repo/{ff,ec,poly,serialize}/src under the
# differential-testing harness binaries (/verif/harness, /verif/harness2).
#
#   TIER   quick | thorough (default thorough).  `thorough` = every binary in quick mode PLUS every binary in
#          thorough mode, i.e. what `check --tier thorough` can reach (the quick run is kept because a thorough
#          run that hits the cap contributes only what it did before the cap).
#   CAP_S  wall-clock cap per thorough run in seconds (default 300).  Quick runs get max(CAP_S, 1500).
#          A capped process is not just killed: its counters are written first by attaching gdb and calling
#          __llvm_profile_write_file(); without gdb a capped run contributes nothing.
#
# Environment: COV_DIR (scratch dir, default /tmp/cov, removed at the end unless KEEP=1), JOBS (default 6),
#   SEED (default 0, as `check`), OUT (report file, default stdout).
# Binaries get exactly the arguments `check` passes (run_stream): `<bin> <tier> <seed>`; C14 is additionally
# built and run with `--features parallel` (props.py: parallel: True); c06/c12/c16 and the extra streams
# c04x/c10x (props.py: extra_streams; run without VERIF_STREAM_PROP, which only filters output) come from harness2.
# Nothing under /repo or /verif is written.  Offline only.  Needs the nightly toolchain (llvm-tools).
set -euo pipefail
TIER=${1:-thorough}; CAP=${2:-300}
COV=${COV_DIR:-/tmp/cov}; JOBS=${JOBS:-6}; SEED=${SEED:-0}; OUT=${OUT:-/dev/stdout}
case "$TIER" in quick|thorough) ;; *) echo "tier must be quick|thorough" >&2; exit 2;; esac
QCAP=$(( CAP > 1500 ? CAP : 1500 ))
export CARGO_NET_OFFLINE=true
TOOLS=$(ls -d "$(rustc +nightly --print sysroot)"/lib/rustlib/*/bin | head -1)
[ -x "$TOOLS/llvm-profdata" ] && [ -x "$TOOLS/llvm-cov" ] || { echo "nightly llvm-tools not found" >&2; exit 2; }
TRIPLE=$(rustc +nightly -vV | sed -n 's/^host: //p')
avail=$(df --output=avail -BG /tmp | tail -1 | tr -dc 0-9)
[ "$avail" -ge 8 ] || { echo "need ~8 GB free in /tmp (have ${avail}G)" >&2; exit 2; }

mkdir -p "$COV"/{prof,log}
rm -f "$COV"/prof/*.profraw
for c in harness harness2; do
  rsync -a --delete --exclude 'target*' /verif/$c/ "$COV/$c/"     # path deps are absolute (/repo/...): nothing to fix
  grep -q 'path = "/repo/' "$COV/$c/Cargo.toml" || { echo "$c: path deps are not absolute /repo paths" >&2; exit 2; }
done

# ---- build (instrumented).  --target keeps RUSTFLAGS off the proc-macro crates / build scripts.
FLAGS="--cfg arkworks_rs_algebra_verif -C instrument-coverage"
build() { # <crate> <target-subdir> <extra cargo args...>
  local crate=$1 sub=$2; shift 2
  ( cd "$COV/$crate" && RUSTFLAGS="$FLAGS" CARGO_TARGET_DIR="$COV/target/$sub" \
      timeout 3600 cargo +nightly build --release --offline --target "$TRIPLE" "$@" ) >"$COV/log/build-$sub.log" 2>&1 \
    || { tail -30 "$COV/log/build-$sub.log" >&2; exit 1; }
}
echo "[coverage] building (about 15-25 min cold) ..." >&2
build harness h1 & p1=$!
build harness2 h2 & p2=$!
wait $p1; wait $p2
build harness h1par --features parallel --bin c14
R1=$COV/target/h1/$TRIPLE/release; R1P=$COV/target/h1par/$TRIPLE/release; R2=$COV/target/h2/$TRIPLE/release

# ---- run
cat > "$COV/capped.sh" <<'EOS'
#!/usr/bin/env bash
# capped.sh <label> <cap_s> <bin> <args...>: run to completion or, at the cap, dump the profile via gdb and kill
n=$1; cap=$2; shift 2
s=$(date +%s)
"$@" >/dev/null 2>"$COV/log/$n.err" &
pid=$!
while kill -0 $pid 2>/dev/null && [ $(( $(date +%s) - s )) -lt "$cap" ]; do sleep 1; done
if kill -0 $pid 2>/dev/null; then
  if command -v gdb >/dev/null; then
    timeout 120 gdb -p $pid -batch -ex 'call ((int(*)(void))__llvm_profile_write_file)()' -ex kill >"$COV/log/$n.gdb" 2>&1 || true
  fi
  kill -9 $pid 2>/dev/null || true
  wait $pid 2>/dev/null || true
  echo "$n CAPPED at ${cap}s (profile $(ls "$COV"/prof/$n-*-$pid.profraw >/dev/null 2>&1 && echo dumped || echo LOST))"
else
  rc=0; wait $pid || rc=$?
  echo "$n rc=$rc $(( $(date +%s) - s ))s"
fi
EOS
chmod +x "$COV/capped.sh"
export COV
bins() { local b; for b in "$1"/c[0-9][0-9]*; do [[ -f $b && -x $b && $(basename "$b") != *.* ]] && echo "$b"; done; true; }  # c01 .. c20, c04x, c10x, ...
jobs_list() { # <tier> <cap>
  local t=$1 cap=$2 b
  for b in $(bins "$R1") $(bins "$R2"); do echo "$t-$(basename "$b") $cap $b $t $SEED"; done
  echo "$t-c14par $cap $R1P/c14 $t $SEED"
}
run_tier() { # the multi-threaded parallel C14 build runs alone, after the single-threaded ones
  jobs_list "$1" "$2" | grep -v c14par | xargs -P "$JOBS" -L1 bash -c 'LLVM_PROFILE_FILE="$COV/prof/$0-%m-%p.profraw" "$COV/capped.sh" "$0" "$@"' 2>/dev/null
  jobs_list "$1" "$2" | grep c14par    | xargs -L1 bash -c 'LLVM_PROFILE_FILE="$COV/prof/$0-%m-%p.profraw" "$COV/capped.sh" "$0" "$@"' 2>/dev/null
}
echo "[coverage] running quick tier ..." >&2
run_tier quick "$QCAP" | tee "$COV/log/runs.txt" >&2
if [ "$TIER" = thorough ]; then
  echo "[coverage] running thorough tier (cap ${CAP}s) ..." >&2
  run_tier thorough "$CAP" | tee -a "$COV/log/runs.txt" >&2
fi

# ---- merge + export
"$TOOLS/llvm-profdata" merge -sparse "$COV"/prof/*.profraw -o "$COV/all.profdata"
OBJS=(); first=1
for b in $(bins "$R1") "$R1P/c14" $(bins "$R2"); do
  if [ $first = 1 ]; then OBJS+=("$b"); first=0; else OBJS+=(-object "$b"); fi
done
SRCS=(/repo/ff/src /repo/ec/src /repo/poly/src /repo/serialize/src)
# "N functions have mismatched data" is expected: hash-0 records of functions that were not codegenned in their
# own crate but were in a downstream one; they never match a profile record and do not affect the figures.
"$TOOLS/llvm-cov" export -format=text -instr-profile="$COV/all.profdata" "${OBJS[@]}" "${SRCS[@]}" >"$COV/export.json" 2>"$COV/log/export.err"
"$TOOLS/llvm-cov" report -instr-profile="$COV/all.profdata" "${OBJS[@]}" "${SRCS[@]}" >"$COV/llvm-cov-report.txt" 2>/dev/null

cat > "$COV/analyze.py" <<'EOPY'
#!/usr/bin/env python3
"""analyze.py <export.json> : per-file table, never-executed public functions, uncovered regions in hot spots"""
import json, re, sys, collections, fnmatch, os

SRC = ("/repo/ff/src/", "/repo/ec/src/", "/repo/poly/src/", "/repo/serialize/src/")
HOT = ["ff/src/fields/models/fp/montgomery_backend.rs", "ff/src/biginteger/mod.rs",
       "ff/src/fields/models/quadratic_extension.rs", "ff/src/fields/models/cubic_extension.rs",
       "ff/src/fields/sqrt.rs", "ec/src/models/short_weierstrass/affine.rs",
       "ec/src/models/short_weierstrass/group.rs", "ec/src/models/short_weierstrass/mod.rs",
       "ec/src/models/twisted_edwards/affine.rs", "ec/src/models/twisted_edwards/group.rs",
       "ec/src/models/twisted_edwards/mod.rs", "ec/src/scalar_mul/*", "ec/src/hashing/*",
       "poly/src/domain/*", "poly/src/polynomial/*", "poly/src/evaluations/*", "serialize/src/*"]

d = json.load(open(sys.argv[1]))["data"][0]
files = {f["filename"]: f for f in d["files"] if f["filename"].startswith(SRC)}
rel = lambda p: p[len("/repo/"):]

def line_stats(segs):
    """(covered, total, {line: count}) as in llvm-cov's merged per-line view (LineCoverageStats)"""
    by = collections.defaultdict(list)
    for sg in segs:
        by[sg[0]].append(sg)
    if not segs:
        return 0, 0, {}
    wrapped = None
    out = {}
    for ln in range(segs[0][0], segs[-1][0] + 1):
        ls = by.get(ln, [])
        starts = [x for x in ls if x[3] and x[4] and not x[5]]
        skipped = bool(ls) and (not ls[0][3]) and ls[0][4]
        mapped = (not skipped) and ((wrapped is not None and wrapped[3]) or len(starts) > 0)
        if mapped:
            c = wrapped[2] if (wrapped is not None and wrapped[3]) else 0
            for x in starts:
                c = max(c, x[2])
            out[ln] = c
        if ls:
            wrapped = ls[-1]
    return sum(1 for v in out.values() if v > 0), len(out), out

# ---------------------------------------------------------------- (i) per-file table
print("## (i) per-file\n")
print("| file | functions | lines (union) | lines (llvm-cov report) |")
print("|---|---|---|---|")
tf = tfc = tl = tlc = 0
per_crate = collections.defaultdict(lambda: [0, 0, 0, 0, 0, 0])
for fn in sorted(files):
    s = files[fn]["summary"]
    f, l = s["functions"], s["lines"]
    uc, ut, _ = line_stats(files[fn]["segments"])
    print(f"| {rel(fn)} | {f['covered']}/{f['count']} | {uc}/{ut} | {l['covered']}/{l['count']} |")
    c = per_crate[rel(fn).split("/")[0]]
    c[0] += f["covered"]; c[1] += f["count"]; c[2] += uc; c[3] += ut; c[4] += l["covered"]; c[5] += l["count"]
for k, c in per_crate.items():
    print(f"| **{k} total** | {c[0]}/{c[1]} ({100*c[0]/c[1]:.1f}%) | {c[2]}/{c[3]} ({100*c[2]/c[3]:.1f}%) | {c[4]}/{c[5]} ({100*c[4]/c[5]:.1f}%) |")
t = [sum(c[i] for c in per_crate.values()) for i in range(6)]
print(f"| **TOTAL** | {t[0]}/{t[1]} ({100*t[0]/t[1]:.1f}%) | {t[2]}/{t[3]} ({100*t[2]/t[3]:.1f}%) | {t[4]}/{t[5]} ({100*t[4]/t[5]:.1f}%) |")
seen = {rel(f) for f in files}
missing = []
for root in SRC:
    for dp, _, fns in os.walk(root):
        for f in fns:
            p = os.path.join(dp, f)
            if f.endswith(".rs") and rel(p) not in seen:
                missing.append(rel(p))
print("\nsource files without any coverage mapping in any binary (no executable code, test-only, or cfg'd out):")
print(", ".join(sorted(missing)))

# ---------------------------------------------------------------- group instantiations
groups = collections.defaultdict(lambda: [0, 0, None, None])  # count, n_inst, (ls,cs), (le,ce)
for f in d["functions"]:
    fn = f["filenames"][0]
    if not fn.startswith(SRC):
        continue
    regs = [r for r in f["regions"] if r[5] == 0 and r[7] == 0]
    if not regs:
        continue
    r0 = f["regions"][0]
    g = groups[(fn, r0[0], r0[1])]
    g[0] += f["count"]; g[1] += 1
    end = max((r[2], r[3]) for r in regs)
    g[3] = max(g[3], end) if g[3] else end

srcs = {}
def lines_of(fn):
    if fn not in srcs:
        srcs[fn] = open(fn, encoding="utf-8").read().split("\n")
    return srcs[fn]

FN_RE = re.compile(r"^(pub(\([^)]*\))?\s+)?((const|unsafe|async|default)\s+)*(extern\s+\"[^\"]*\"\s+)?fn\s+([A-Za-z_0-9$]+)")
HDR_RE = re.compile(r"^\s*(pub(\([^)]*\))?\s+)?(unsafe\s+)?(impl|trait|mod)\b")

def context(fn, line):
    """enclosing impl/trait/mod headers (innermost first) of 1-based `line`"""
    L = lines_of(fn)
    ind = len(L[line - 1]) - len(L[line - 1].lstrip())
    out = []
    i = line - 2
    while i >= 0 and ind > 0:
        s = L[i]
        if s.strip() and not s.lstrip().startswith("//"):
            k = len(s) - len(s.lstrip())
            if k < ind and HDR_RE.match(s):
                hdr = s.strip()
                j = i
                while "{" not in L[j] and j < i + 12:
                    j += 1
                    hdr += " " + L[j].strip()
                hdr = hdr.split("{")[0].strip()
                # attributes directly above
                attrs = []
                a = i - 1
                while a >= 0 and (L[a].strip().startswith("#[") or L[a].strip().startswith("///")):
                    attrs.append(L[a].strip()); a -= 1
                out.append((hdr, attrs))
                ind = k
            elif k < ind and s.strip().startswith("macro_rules!"):
                out.append((s.strip().rstrip("{").strip(), []))
                ind = k
        i -= 1
    return out

def classify(fn, ls, cs):
    L = lines_of(fn)
    text = L[ls - 1][cs - 1:]
    m = FN_RE.match(text)
    if not m and "derive(" in L[ls - 1]:
        # methods generated by #[derive(..)]: the span is the trait name inside the derive list
        ids = re.findall(r"[A-Za-z_][A-Za-z_0-9]*", L[ls - 1][:cs])
        ty = next((re.search(r"\b(struct|enum)\s+(\w+)", x) for x in L[ls - 1:ls + 12] if re.search(r"\b(struct|enum)\s+\w+", x)), None)
        return "(all derived methods)", "pub", [(f"impl #[derive({ids[-1] if ids else '?'})] for {ty.group(2) if ty else '?'}", [])], []
    if not m:
        return None
    name = m.group(6)
    vis = (m.group(1) or "").strip()
    ctx = context(fn, ls)
    attrs = []
    a = ls - 2
    while a >= 0 and (L[a].strip().startswith("#[") or L[a].strip().startswith("///") or L[a].strip().startswith("//")):
        attrs.append(L[a].strip()); a -= 1
    if m.group(3) and "const" in text[:m.end()]:
        name += " [const fn]"
    return name, vis, ctx, attrs

def is_test(fn, ctx, attrs):
    if re.search(r"(^|/)(tests?|test_\w+|benches)(\.rs|/)", fn):
        return True
    if any("cfg(test)" in a or a == "#[test]" for a in attrs):
        return True
    return any(any("cfg(test)" in a for a in at) for _, at in ctx)

uncovered_fns = collections.defaultdict(list)
uncovered_spans = collections.defaultdict(list)   # file -> [(ls, le)] of never-run functions / closures
n_pub = n_pub_unc = 0
for (fn, ls, cs), (cnt, ninst, _, end) in sorted(groups.items()):
    c = classify(fn, ls, cs)
    if c is None:
        continue                      # closure: reported under (iii) when its parent function ran
    if cnt == 0:
        uncovered_spans[fn].append((ls, end[0]))
    name, vis, ctx, attrs = c
    if is_test(fn, ctx, attrs) or "ff-asm" in fn:
        continue
    hdr = ctx[0][0] if ctx else ""
    in_trait_impl = bool(re.match(r"^(unsafe\s+)?impl\b.*\bfor\b", hdr)) and not re.match(r"^impl\b[^{]*\bfor<", hdr)
    in_trait = bool(re.match(r"^(pub(\([^)]*\))?\s+)?(unsafe\s+)?trait\b", hdr))
    public = vis == "pub" or in_trait_impl or in_trait
    if not public:
        continue
    if in_trait_impl and re.search(r"\b(Debug|Display)\b[^{]*\bfor\b", hdr):
        continue
    n_pub += 1
    if cnt == 0:
        n_pub_unc += 1
        uncovered_fns[fn].append((ls, end[0], name, hdr))

print(f"\n## (ii) public functions / trait methods never executed ({n_pub_unc} of {n_pub} public functions with a coverage mapping)\n")
for fn in sorted(uncovered_fns):
    print(f"**{rel(fn)}**")
    by_hdr = collections.OrderedDict()
    for ls, le, name, hdr in uncovered_fns[fn]:
        hdr = re.sub(r"\s+", " ", hdr)
        hdr = re.sub(r"\bwhere\b.*$", "", hdr).strip()
        hdr = re.sub(r"^(pub )?(unsafe )?impl(<[^>]*(<[^>]*>[^>]*)*>)? ", "", hdr)      # drop the generics list
        hdr = re.sub(r"^(pub )?trait (\w+).*$", r"trait \2 (default body)", hdr)
        by_hdr.setdefault(hdr or "free functions", []).append(f"`{name}` ({ls}-{le})")
    for hdr, fns in by_hdr.items():
        print(f"- `{hdr}`: " + ", ".join(fns))
    print()

# ---------------------------------------------------------------- (iii) uncovered regions in covered functions
print("## (iii) raw: uncovered regions inside executed functions (hot spots)\n")
for fn in sorted(files):
    r = rel(fn)
    if not any(fnmatch.fnmatch(r, h) for h in HOT):
        continue
    segs = files[fn]["segments"]
    spans = []
    for a, b in zip(segs, segs[1:] + [None]):
        line, col, count, has, entry, gap = a[:6]
        if has and count == 0 and not gap and b is not None:
            el = b[0] if b[1] > 1 else b[0] - 1
            spans.append([line, max(el, line), (line, col, b[0], b[1])])
    # drop those inside never-run functions, merge neighbours
    dead = uncovered_spans.get(fn, [])
    keep = []
    for s in spans:
        if any(ds <= s[0] and s[1] <= de for ds, de in dead):
            continue
        if keep and s[0] <= keep[-1][1] + 1:
            keep[-1][1] = max(keep[-1][1], s[1]); keep[-1][2] = (keep[-1][2][0], keep[-1][2][1], s[2][2], s[2][3])
        else:
            keep.append(s)
    if not keep:
        continue
    L = lines_of(fn)
    print(f"**{r}**")
    for s, e, (l0, c0, l1, c1) in keep:
        if l0 == l1:
            txt = L[l0 - 1][c0 - 1:c1 - 1]
        else:
            txt = " ".join([L[l0 - 1][c0 - 1:]] + L[l0:l1 - 1] + [L[l1 - 1][:c1 - 1]])
        txt = re.sub(r"\s+", " ", txt).strip()
        print(f"- {s}-{e}: `{txt[:120]}`")
    print()
EOPY
{
  echo "# coverage of /repo/{ff,ec,poly,serialize}/src under the harness binaries (tier: $TIER, cap ${CAP}s, seed $SEED)"
  echo
  echo '```'; cat "$COV/log/runs.txt"; echo '```'
  echo
  python3 "$COV/analyze.py" "$COV/export.json"
} >"$OUT"

if [ "${KEEP:-0}" != 1 ]; then rm -rf "$COV"; fi
