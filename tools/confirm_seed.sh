#!/bin/bash
# confirm_seed.sh <seed-src-dir> <prop> <seed-id> "<existing-test-cmd>"
# Confirms a seeded faulty change in the scratch worktree /tmp/seed/confirm-<seed-id> (never in /repo):
#  demo passes on the clean tree, fails with the patch; the given subset of the existing tests passes with
#  the patch; then runs ./check <prop> against the patched tree (VERIF_REPO) and records everything in
#  /verif/seeded/<seed-id>/ (patch.diff, demo.rs, meta.json with a "confirmed" block).
set -u
SRC=$1; PROP=$2; ID=$3; TESTCMD=${4:-"cargo test --offline -p ark-ff --lib"}
WT=/tmp/seed/confirm-$ID
export CARGO_NET_OFFLINE=true
git -C /repo worktree add -q --force $WT HEAD 2>/dev/null || true
cd $WT && git checkout -q -- . && git clean -fdq -e target
DCRATE=$(python3 -c "import json;print(json.load(open('$SRC/meta.json')).get('demo_crate','ff'))")
DPKG=$(python3 -c "import json;print(json.load(open('$SRC/meta.json')).get('demo_package','ark-ff'))")
DFEAT=$(python3 -c "import json;print(json.load(open('$SRC/meta.json')).get('demo_features',''))")
# convention: demo.rs is an integration test placed at <demo_crate>/tests/seed_demo.rs
DEMO_CMD="mkdir -p $DCRATE/tests && cp $SRC/demo.rs $DCRATE/tests/seed_demo.rs && timeout 3000 cargo test --offline -p $DPKG $DFEAT --test seed_demo"
# alternative convention: a standalone demo crate (for changes in curves/*, which have no offline test workspace)
if [ -d "$SRC/demo" ]; then
  DEMO_CMD="rm -rf seed_demo_crate && cp -r $SRC/demo seed_demo_crate && cp /repo/Cargo.lock seed_demo_crate/ && cd seed_demo_crate && timeout 3000 cargo run --offline"
fi
log=/tmp/seed/confirm-$ID.log; : > $log
echo "## demo on clean tree: $DEMO_CMD" >> $log
( eval "$DEMO_CMD" ) >> $log 2>&1; CLEAN_RC=$?
git apply $SRC/patch.diff || { echo "patch does not apply" >> $log; exit 2; }
echo "## demo with patch" >> $log
( eval "$DEMO_CMD" ) >> $log 2>&1; PATCH_RC=$?
# remove the demo before running the existing tests
git clean -fdq -e target
echo "## existing tests with patch: $TESTCMD" >> $log
( eval "timeout 3000 $TESTCMD" ) >> $log 2>&1; TEST_RC=$?
echo "## check" >> $log
( cd /verif && VERIF_REPO=$WT timeout 3000 ./check $PROP ) > /tmp/seed/confirm-$ID.check 2>&1; CHECK_RC=$?
cat /tmp/seed/confirm-$ID.check >> $log
mkdir -p /verif/seeded/$ID
cp $SRC/patch.diff /verif/seeded/$ID/patch.diff
cp $SRC/demo.rs /verif/seeded/$ID/demo.rs 2>/dev/null; [ -d "$SRC/demo" ] && rsync -a --exclude target --exclude Cargo.lock $SRC/demo/ /verif/seeded/$ID/demo/
python3 - <<PY
import json
m=json.load(open("$SRC/meta.json"))
m["confirmed"]={"worktree":"$WT (scratch, removed afterwards)","demo_clean_rc":$CLEAN_RC,"demo_patched_rc":$PATCH_RC,
  "existing_tests_cmd":"$TESTCMD","existing_tests_rc":$TEST_RC,"check_cmd":"VERIF_REPO=<worktree> ./check $PROP --tier quick","check_rc":$CHECK_RC,
  "check_output_tail":open("/tmp/seed/confirm-$ID.check").read()[-1500:]}
m["detected"]= ($CHECK_RC==1)
json.dump(m,open("/verif/seeded/$ID/meta.json","w"),indent=1)
print("$ID clean=%d patched=%d tests=%d check=%d"%($CLEAN_RC,$PATCH_RC,$TEST_RC,$CHECK_RC))
PY
cd /; git -C /repo worktree remove --force $WT
