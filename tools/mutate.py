#!/usr/bin/env python3
"""mutate.py <lane> <n> <prop> [<prop> ...]  --  mechanical mutation testing of the checks.

For each round: pick a property, one of its anchored source files (properties.jsonl), one line outside test
modules / comments / debug assertions, and apply ONE small syntactic mutation (operator swap, comparison
boundary, constant +-1, dropped negation, swapped true/false).  The mutant lives in the scratch worktree
/tmp/seed/mut-<lane> (never in /repo).  If it compiles (`cargo check` of the touched crate), the property's
quick check is run against it (VERIF_REPO).  Result per mutant: killed (check exit 1), survived (exit 0),
or nocompile.  Survivors are what is interesting: either equivalent mutants (performance-only code, dead
branches, debug assertions) or holes in the correspondence / generators.  Results are appended to
/verif/mutants/<lane>.jsonl; nothing else under /verif or /repo is written (the Gen directory is restored
by check itself).  This is a test OF THE CHECKS, not part of any check.
"""
import json, os, random, re, subprocess, sys, time, hashlib

ROOT = "/verif"
lane, n = sys.argv[1], int(sys.argv[2])
props = sys.argv[3:]
WT = f"/tmp/seed/mut-{lane}"
OUT = f"{ROOT}/mutants/{lane}.jsonl"
os.makedirs(f"{ROOT}/mutants", exist_ok=True)
ENV = dict(os.environ, CARGO_NET_OFFLINE="true")
rng = random.Random(int(hashlib.sha1(lane.encode()).hexdigest()[:8], 16) ^ int(time.time()))

P = {json.loads(l)["id"]: json.loads(l) for l in open(f"{ROOT}/properties.jsonl")}

MUTS = [
    (r"(?<![=!<>+\-*/&|^])\+(?![=+])", "-"), (r"(?<![=!<>+\-*/&|^>-])-(?![=>\-])", "+"),
    (r"(?<![=!<>])<=(?!=)", "<"), (r"(?<![=!<>-])>=(?!=)", ">"),
    (r"(?<![=!<>\-<])<(?![=<])", "<="), (r"(?<![=!<>\->])>(?![=>])", ">="),
    (r"==", "!="), (r"!=", "=="), (r"&&", "||"), (r"\|\|", "&&"),
    (r"\btrue\b", "false"), (r"\bfalse\b", "true"),
    (r"(?<![\w.])1(?![\w.])", "2"), (r"(?<![\w.])0(?![\w.x])", "1"), (r"(?<![\w.])2(?![\w.])", "3"),
    (r"<<", ">>"), (r">>", "<<"), (r"\.is_zero\(\)", ".is_one()"), (r"\.double\(\)", ".square()"),
    (r"\.rev\(\)", ""), (r"(?<![\w.])64(?![\w.])", "63"), (r"\.min\(", ".max("), (r"\.max\(", ".min("),
    (r"\bwrapping_add\b", "wrapping_sub"), (r"\bwrapping_sub\b", "wrapping_add"),
]


def sh(cmd, cwd=None, timeout=3000):
    p = subprocess.run(cmd, cwd=cwd, env=ENV, stdout=subprocess.PIPE, stderr=subprocess.STDOUT, timeout=timeout)
    return p.returncode, p.stdout.decode("utf-8", "replace")


def candidate_lines(path):
    src = open(path).read().split("\n")
    out, in_test, depth_block = [], False, 0
    for i, ln in enumerate(src):
        s = ln.strip()
        if s.startswith("#[cfg(test)]") or re.match(r"(pub\s+)?mod\s+tests?\b", s):
            in_test = True
        if in_test:
            continue
        if not s or s.startswith("//") or s.startswith("#[") or s.startswith("use ") or s.startswith("///"):
            continue
        if "debug_assert" in s or "assert!" in s or "assert_eq!" in s or "println" in s or "fmt::" in s or "write!" in s:
            continue
        if s.startswith("fn ") or s.startswith("pub fn ") or s.startswith("impl") or s.startswith("type ") or s.startswith("const ") and "=" not in s:
            continue
        code = ln.split("//")[0]
        if any(re.search(rx, code) for rx, _ in MUTS):
            out.append(i)
    return src, out


def crate_of(rel):
    top = rel.split("/")[0]
    if top == "curves":
        return "curves"   # separate workspace: no offline `cargo check`; the harness2 build is the compile check
    return {"ff": "ark-ff", "ec": "ark-ec", "poly": "ark-poly", "serialize": "ark-serialize", "ff-macros": "ark-ff-macros",
            "serialize-derive": "ark-serialize-derive", "test-curves": "ark-test-curves"}.get(top)


subprocess.run(["git", "-C", "/repo", "worktree", "add", "-q", "--force", WT, "HEAD"], stderr=subprocess.DEVNULL)
done = 0
attempts = 0
while done < n and attempts < 6 * n:
    attempts += 1
    pid = rng.choice(props)
    files = [f for f in P[pid]["anchors"]["files"] if crate_of(f) and os.path.exists(f"{WT}/{f}")
             and f.startswith(os.environ.get("MUT_PREFIX", ""))]
    if not files:
        continue
    rel = rng.choice(files)
    sh(["git", "checkout", "-q", "--", "."], cwd=WT)
    src, cands = candidate_lines(f"{WT}/{rel}")
    if not cands:
        continue
    li = rng.choice(cands)
    code = src[li].split("//")[0]
    opts = []
    for rx, rep in MUTS:
        for m in re.finditer(rx, code):
            opts.append((m.start(), m.end(), rep, rx))
    if not opts:
        continue
    a, b, rep, rx = rng.choice(opts)
    mutated = src[li][:a] + rep + src[li][b:]
    if mutated == src[li]:
        continue
    new = list(src)
    new[li] = mutated
    open(f"{WT}/{rel}", "w").write("\n".join(new))
    crate = crate_of(rel)
    if crate == "curves":
        rc, out = 0, ""
    else:
        rc, out = sh(["cargo", "check", "--offline", "-q", "-p", crate], cwd=WT, timeout=1200)
    rec = {"prop": pid, "file": rel, "line": li + 1, "before": src[li].strip(), "after": mutated.strip(), "t": time.strftime("%H:%M:%S")}
    if rc != 0:
        rec["result"] = "nocompile"
    else:
        t0 = time.time()
        env = dict(ENV, VERIF_REPO=WT, VERIF_ESCALATION_BUDGET_S="60")
        # the file may be anchored in several properties and the mutated function belong to only one of them:
        # run the chosen property's check first, then the other properties anchoring this file, until one kills
        owners = [pid] + [q for q in sorted(P) if q != pid and rel in P[q]["anchors"]["files"]]
        rec["tried"] = []
        rec["result"] = "survived"
        for q in owners[:5]:
            try:
                pr = subprocess.run(["timeout", "-k", "10", "1200", "./check", q], cwd=ROOT, env=env, stdout=subprocess.PIPE, stderr=subprocess.STDOUT, timeout=1300)
                o, rc_ = pr.stdout.decode("utf-8", "replace"), pr.returncode
            except subprocess.TimeoutExpired:
                o, rc_ = "", 124
            if "could not compile" in o or "does not build" in o:
                rec["result"] = "nocompile"
                break
            rec["tried"].append([q, rc_])
            if rc_ in (1, 124, 137):
                # a mutant that makes the real code loop forever hangs the harness: counted as killed(hang)
                rec["result"] = "killed" if rc_ == 1 else "killed(hang)"
                rec["killed_by"] = q
                v = [l for l in o.splitlines() if l.startswith("VIOLATION") or l.startswith("  ")]
                rec["violation"] = " | ".join(v[:2])[:400]
                break
        # a hung harness binary of this lane (child of a timed-out check) must not linger
        alt = "/tmp/verif-alt-" + hashlib.sha1(WT.encode()).hexdigest()[:8] + "/"
        subprocess.run(["pkill", "-9", "-f", alt], stderr=subprocess.DEVNULL)
        rec["secs"] = round(time.time() - t0, 1)
        done += 1
    with open(OUT, "a") as f:
        f.write(json.dumps(rec) + "\n")
    print(rec["result"], pid, rel, li + 1, "::", rec["before"][:70], "=>", rec["after"][:70], flush=True)
sh(["git", "checkout", "-q", "--", "."], cwd=WT)
subprocess.run(["git", "-C", "/repo", "worktree", "remove", "--force", WT])
