#!/bin/bash
# for every "fixed:" entry: revert that single fix in a scratch worktree and run the property's check with another seed
cd /verif
grep "^fixed:" known-findings.txt | sed 's/^fixed: property=\(C[0-9]*\) \([0-9a-f, ]*[0-9a-f]\) .*/\1 \2/' | while read prop commits; do
  for c in $(echo $commits | tr ',' ' '); do
    WT=/tmp/seed/refix
    git -C /repo worktree add -q --force $WT HEAD 2>/dev/null
    (cd $WT && git checkout -q -- . && git show $c | git apply -R 2>/tmp/seed/refix.err) || { echo "$prop $c revert-failed: $(head -1 /tmp/seed/refix.err)"; continue; }
    out=$(VERIF_REPO=$WT VERIF_SEED=7 VERIF_ESCALATION_BUDGET_S=30 timeout 1500 ./check $prop 2>&1)
    rc=$?
    echo "$prop $c rc=$rc $(echo "$out" | grep -m1 -E 'VIOLATION|KNOWN' | cut -c1-160)"
  done
done
git -C /repo worktree remove --force /tmp/seed/refix
