"""Per-property configuration of /verif/check."""
import re

PROPS = {
    "C12": {
        "modules": ["Ark.Props.C12", "Ark.Props.C12b", "Ark.Props.C04c", "Ark.Props.C04d"],
        "gen_from": "C16",
        "crate": "harness2",
        "rule": "one op line per subgroup test / cofactor clearing / cofactor-inverse / sampling call on a point of the WHOLE curve; distinct = distinct op line; non-trivial = non-identity point",
        "exhaustive": ["every point of five toy curves with cofactors 4, 6, 8 (SW and TE)"],
        "partial": ["psi-based G2 subgroup tests (BLS12-381, BN254): additivity of psi is proved on the curve (C12b) and the shipped constants are kernel-checked, but the characteristic equation psi^2 - t psi + q = 0 (theory of the Frobenius trace) and the ambient group order #E = h*r (also behind the cofactor-one short-cut) stay hypotheses: point counts are not decidable by evaluation; these are covered by the correspondence on points of the whole curve for all 52 shipped configurations"],
        "assumptions": ["h_eff constants for the optimised clearing maps are those of RFC 9380 8.8 / the crates' comments"],
    },
    "C06": {
        "modules": ["Ark.Props.C06", "Ark.Props.C06b"],
        "crate": "harness2",
        "rule": "one op line per pairing / multi-pairing / Miller loop / final exponentiation / bilinearity test; distinct = distinct op line; non-trivial = non-identity inputs",
        "exhaustive": [],
        "partial": ["BILINEARITY is not provable here (Mathlib has no divisor / Weil-pairing theory): it is covered only by the model/implementation correspondence of the whole pairing for all five families and by bilinearity TESTS of the real code judged in the driver (t_bilin, t_addl, t_addr) - tests, not proofs; proved are the algebraic skeleton statements (multi Miller loop = product, final exponentiation multiplicative, identity pairs contribute one, prepared = unprepared)"],
        "assumptions": ["tower hooks use the trait-default bodies (their equality with the curve crates' overrides is C02/C16)"],
    },
    "C11": {
        "modules": ["Ark.Props.C11"],
        "rule": "one op line per sqrt / legendre / coordinate-recovery call; distinct = distinct op line; non-trivial = input outside {0,1}",
        "exhaustive": ["every element of toy prime fields with two-adicity 1..8 (both sqrt variants, derived and hand-written), toy Fp2 up to 97^2, toy Fp3 up to 19^3; every coordinate of the toy curves"],
        "partial": [],
        "assumptions": ["a quadratic extension over a base without sqrt precomputation (Fp12 over Fp6 3-over-2) has no square-root algorithm: outside the quantifier (verdict note)"],
    },
    "C04": {
        "modules": ["Ark.Props.C04a", "Ark.Props.C04b", "Ark.Props.C04c", "Ark.Props.C04d"],
        "extra_streams": [{"crate": "harness2", "bin": "c04x"}],
        "gen_from": "C16",
        "rule": "one op line per scalar-multiplication call (algorithm, curve, point, scalar, window/table parameters); distinct = distinct op line; non-trivial = scalar outside {0,1} and non-identity point",
        "exhaustive": ["all points x all k in 0..2#E+1 on seven toy curves over F_13 for the double-and-add and scalar paths"],
        "partial": [],
        "assumptions": ["GLV paths are judged on points of the order-r subgroup (the Projective type's invariant; inputs outside it and GLV matrices with determinant other than r carry the branch tag ood); the eleven shipped GLVConfigs are exercised by the extra stream c04x and their constants by C16 / C04d"],
    },
    "C09": {
        "modules": ["Ark.Props.C09", "Ark.Props.C09b", "Ark.Props.C10b", "Ark.Props.C09c"],
        "extra_streams": [{"crate": "harness2", "bin": "c10x"}],
        "rule": "one op line per (type, mode, value) round trip or uniqueness probe; distinct = distinct op line; non-trivial = value outside {0,1}",
        "exhaustive": ["every byte string of the serialized size for the toy fields and toy curves"],
        "partial": [],
        "partial": [],
        "assumptions": ["the curve crates are covered by the extra stream c10x (all shipped curve groups, incl. a function-by-function model of the bls12_381 crate's ZCash format, Ark/Model/Zcash.lean, theorems C10b)"],
    },
    "C10": {
        "modules": ["Ark.Props.C10", "Ark.Props.C10b"],
        "extra_streams": [{"crate": "harness2", "bin": "c10x"}],
        "rule": "one op line per (type, mode, validate, byte string) deserialization; distinct = distinct op line; non-trivial = non-empty byte string",
        "exhaustive": ["every byte string of the serialized size (and all truncations) for the toy fields and toy curves"],
        "partial": [],
        "assumptions": [],
    },
    "C14": {
        "modules": ["Ark.Props.C14"],
        "parallel": True,
        "rule": "one op line per (operation, thread-pool size T, input); distinct = distinct op line; non-trivial = input length > 1",
        "exhaustive": ["all vectors of length <= 2 over F_13 for batch inversion, T in {1,2,3,5,7,8,13,16,64}"],
        "partial": ["rayon's actual scheduling / work stealing cannot be exhibited by the model: proved is that each chunked computation equals the serial one for EVERY thread count T >= 1 (pure functions of T); the run-time evidence is the correspondence inside explicit rayon pools of size 1..16 and 64 and the byte-identical output of the serial build"],
        "assumptions": ["fork-join determinism of safe Rust / rayon"],
    },
    "C08": {
        "modules": ["Ark.Props.C08a", "Ark.Props.C08b", "Ark.Props.C08c"],
        "rule": "one op line per polynomial operator on a pair of operands; distinct = distinct op line; non-trivial = some operand of length > 1",
        "exhaustive": ["all canonical dense pairs of length <= 3 over F_5 (<= 4 thorough) for the core ops"],
        "partial": [],
        "assumptions": ["FFT-based multiplication is modelled as naive multiplication + the code's normalisation (FFT correctness is C07)"],
    },
    "C18": {
        "modules": ["Ark.Props.C18", "Ark.Props.C18b"],
        "rule": "one op line per (type, value) serialization or (type, byte string) deserialization; distinct = distinct op line; non-trivial = non-empty payload",
        "exhaustive": [],
        "partial": ["the actual abort on allocation failure is a runtime behaviour observed only by the harness (child process under a memory limit); the model records allocation events and the theorems bound them"],
        "assumptions": ["element sizes (size_of::<T>()) are passed by the harness"],
    },
    "C05": {
        "modules": ["Ark.Props.C05a", "Ark.Props.C05b", "Ark.Props.C05", "Ark.Props.C05c"],
        "rule": "one op line per MSM entry point / digit recoding / accumulator history; distinct = distinct op line; non-trivial = non-empty inputs with scalars outside {0,1}",
        "exhaustive": ["all (bases, scalars) on the order-7 toy curve (single window); every add/finalize history of length <= 6 x buffer sizes 0..9"],
        "partial": [],
        "assumptions": ["group with NEGATION_IS_CHEAP = false is a harness wrapper (no shipped group has it)", "big-integer scalars >= 2^(c*ceil(bits/c)) are outside the property's scalar domain (verdict note)"],
    },
    "C13": {
        "modules": ["Ark.Props.C13", "Ark.Props.C13b", "Ark.Props.C13c"],
        "gen_from": "C16",
        "extra_streams": [{"crate": "harness2", "bin": "c13x"}],
        "rule": "one op line per expander / hash_to_field / map_to_curve / hash call; distinct = distinct op line; non-trivial = non-empty message or u outside {0,1}",
        "exhaustive": ["all u of the toy SWU (F_127, F_49), WB and Elligator (F_101, F_127) configurations"],
        "partial": [],
        "partial": ["final hash lies in the prime-order subgroup: belongs to cofactor clearing (C12); here judged by the driver computing r*P on every hash line", "primality of the BLS12 base-field moduli is a Fact hypothesis of the isogeny theorems (C13b)"],
        "assumptions": ["supported suites = BLS12-381 G1/G2 with SHA-256 (L = 64); DefaultFieldHasher with L != 64 pads Z_pad with L bytes (note, outside the supported suites)", "theorems assume a sound square-root/parity dictionary (FieldXSound, ParitySound) and a finite field (product of two non-squares is a square)"],
    },
    "C16": {
        "modules": ["Ark.Props.C16", "Ark.Props.C16Meaning2"],
        "crate": "harness2",
        "gen": {"kind": "consts"},
        "harness": False,
        "technique": "translator: constants dumped from the compiled current tree -> generated Lean definitions; Bool checkers evaluated by the Lean kernel (decide +kernel) on every shipped configuration, with hand-proved meaning lemmas",
        "level_text": "Every shipped configuration (181 configurations of 34 crates/modules) is re-dumped from the compiled current tree through the public traits on every run, rendered as Lean definitions, and every checker (Montgomery constants, two-adicity, generator non-residue, roots of unity of exact order, extension non-residues, Frobenius tables, generators on curve of order r, cofactor inverse, GLV / twist / isogeny / pairing parameters) is decided by the Lean kernel on it; the quantifier is this finite table, so kernel evaluation is a proof. Meaning lemmas relate each checker to the documented mathematical statement.",
        "rule": "one generated theorem per (configuration, checker)",
        "exhaustive": ["the complete table of shipped configurations"],
        "partial": [],
        "assumptions": ["primality of moduli and group orders (hypotheses of the meaning lemmas)", "the translator (harness2/src/bin/c16.rs + tools/gen_consts.py) dumps what the traits expose; cross-checked against the literal strings in the sources", "curve orders (#E = h*r) are not decidable by evaluation and are not claimed"],
    },
    "C19": {
        "modules": ["Ark.Props.C19"],
        "rule": "one op line per comparison of a PAIR (or triple) of values / representations; distinct = distinct op line; non-trivial = operands not all in {0,1}",
        "exhaustive": ["all pairs of F_3, F_5, F_7, F_13 in both flavours; all pairs of points x rescalings Z in {1,2,3} x identity forms of toy curves SW13A, SW13D, TE13A"],
        "partial": [],
        "assumptions": ["Hash is observed through a recording Hasher (byte streams of write* calls)", "SW Affine values with infinity=true and non-zero placeholder coordinates are constructible only through doc(hidden) public fields and are outside the quantifier (ops *.raw, verdict note)"],
    },
    "C07": {
        "modules": ["Ark.Props.C07a", "Ark.Props.C07b", "Ark.Props.C07c"],
        "rule": "one op line per domain construction / element / transform / vanishing / Lagrange evaluation; distinct = distinct op line; non-trivial = size > 1 or non-trivial operands",
        "exhaustive": ["every coefficient vector over F_3, F_5, F_7 for the small domains; every input length 0..=size for sizes <= 32"],
        "partial": [],
        "assumptions": ["only serial code paths (parallel is C14)", "filter polynomials are outside the property statement (verdict note)"],
    },
    "C02": {
        "modules": ["Ark.Props.C02a", "Ark.Props.C02b", "Ark.Props.C02c"],
        "rule": "one op line per extension-field operation on a tower configuration (shipped bls12_381 Fq2/Fq6/Fq12, mnt6_753 Fq3, toy Fp2/Fp3/Fp4/Fp6/Fp12 towers); distinct = distinct op line; non-trivial = some coordinate outside {0,1}",
        "exhaustive": ["all ordered pairs of toy Fp2 over F_3, F_5, F_7 (beta=-1 and beta=3); all elements of toy Fp3 over F_7, F_13 and Fp4 over F_5; complete cyclotomic subgroups of the toy towers"],
        "partial": [],
        "assumptions": ["tower constants of the 27 curve crates are checked by C16, not exercised here"],
    },
    "C20": {
        "modules": ["Ark.Props.C20"],
        "rule": "one op line per compile-time literal (MontFp!/BigInt! in const items of a generated grid), run-time twin (from_sign_and_limbs, FromStr) or derive-macro fact; distinct = distinct op line; non-trivial = literal denotes a value outside {0,1}",
        "exhaustive": [],
        "partial": [],
        "assumptions": ["radix digit parsing is num-bigint's (modelled as positional notation)", "literals the macro rejects at compile time cannot be in the grid (documented in the model, exercised by a scratch crate once)"],
    },
    "C03": {
        "modules": ["Ark.Props.C03a", "Ark.Props.C03b", "Ark.Props.C03c"],
        "rule": "one op line per point operation on a pair of representatives; distinct = distinct op line; non-trivial = not all coordinates in {0,1}",
        "exhaustive": ["all ordered pairs of representatives (several projective rescalings, all identity forms) on six SW curves over F_13, one over F_49, and TE curves over F_13 / F_127 (quick); more in thorough"],
        "partial": ["twisted Edwards, incomplete addition law (d or a*d a square): associativity of the law (whenever the sums are defined) and the group structure on complete curves and on every subset closed under a defined law are proved (C03c), but that the prime-order subgroup of an INCOMPLETE curve avoids the exceptional pairs is not (it needs the projective closure with two addition laws); proved instead: exact algebraic characterisation of exceptional pairs (te_exceptional_partial, te_not_defined_iff); the correspondence enumerates the subgroups of the toy incomplete curves exhaustively"],
        "assumptions": ["characteristic != 2 (and the curve equation for the branches that need it) are hypotheses of the theorems", "configs overriding mul_by_a are assumed to compute a*e (checked by the correspondence op mulbya)"],
    },
    "C17": {
        "modules": ["Ark.Props.C17a", "Ark.Props.C17b", "Ark.Props.C17c"],
        "rule": "one op line per MLE / multivariate-polynomial operation; distinct = distinct op line; non-trivial = some operand outside {0,1}",
        "exhaustive": ["all tables with entries in a small set over F_5 and F_13 for 0..3 variables x all Boolean points, relabel windows and partial assignments"],
        "partial": [],
        "assumptions": ["num_vars < 64 (1 << num_vars does not wrap)"],
    },
    "C01": {
        "modules": ["Ark.Props.C01a", "Ark.Props.C01b", "Ark.Props.C01c", "Ark.Props.C01d", "Ark.Props.C01e", "Ark.Props.C01f", "Ark.Props.FieldOpsGeneric", "Ark.Props.C01g"],
        "rule": "one op line per field operation on a configuration of the zoo (N=1..13 limbs, with/without spare bit, "
                "derived and trait-default arithmetic, shipped test-curve fields); operands are raw Montgomery residues; "
                "distinct = distinct op line; non-trivial = some operand outside {0,1}",
        "exhaustive": ["all ordered pairs of F_3, F_5, F_7, F_13 (quick) and additionally F_127, F_251, F_257 (thorough) for add/sub/mul, all elements for unary ops"],
        "partial": [],
        "assumptions": ["primality of the zoo/shipped moduli (sympy isprime at zoo generation; enters theorems as a hypothesis)",
                        "decimal FromStr/Display go through num-bigint (trusted)"],
    },
    "C15": {
        "modules": ["Ark.Props.C15", "Ark.Props.C15a", "Ark.Props.C15b", "Ark.Props.C15c"],
        "rule": "one op line per BigInt<N> operation (N=1..13); distinct = distinct canonical op line; "
                "non-trivial = some operand outside {0,1}",
        "exhaustive": ["find_naf / find_relaxed_naf / find_wnaf(w=2..7) / signed_mod_reduction on every 8-bit value (N=1)"],
        "partial": [],
        "assumptions": ["decimal parse/print go through num-bigint (trusted)"],
    },
}


def trivial(inp):
    """an op line is trivial when every numeric operand is 0 or 1"""
    toks = inp.split(" ")[3:]
    return all(t in ("0", "1", "_") for t in toks)


def locate_proof_failure(out):
    m = re.findall(r"error: (\S+\.lean):(\d+):(\d+)", out)
    if m:
        return f"{m[0][0]}:{m[0][1]}"
    m = re.findall(r"✖ \[\d+/\d+\] Building (\S+)", out)
    return m[0] if m else "lake build"

NOT_APPLICABLE = {}
HOOK_COMMITS = ["509840a"]
