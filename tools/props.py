"""Per-property configuration of /verif/check."""
import re

PROPS = {
    "C15": {
        "modules": ["Ark.Props.C15", "Ark.Props.C15a", "Ark.Props.C15b"],
        "rule": "one op line per BigInt<N> operation (N=1..13); distinct = distinct canonical op line; "
                "non-trivial = some operand outside {0,1}",
        "exhaustive": ["find_naf / find_relaxed_naf / find_wnaf(w=2..7) / signed_mod_reduction on every 8-bit value (N=1)"],
        "partial": [],
        "assumptions": ["decimal parse/print go through num-bigint (trusted)"],
    },
}


def trivial(inp):
    """an op line is trivial when every numeric operand is 0 or 1"""
    toks = inp.split(" ")[3:]
    return all(t in ("0", "1", "_") for t in toks)


def locate_proof_failure(out):
    m = re.findall(r"error: (\S+\.lean):(\d+):(\d+)", out)
    if m:
        return f"{m[0][0]}:{m[0][1]}"
    m = re.findall(r"✖ \[\d+/\d+\] Building (\S+)", out)
    return m[0] if m else "lake build"
