#!/usr/bin/env python3
"""Regenerates /verif/MANIFEST.json from tools/props.py (claimed properties) and properties.jsonl."""
import json, os, sys
ROOT = os.path.dirname(os.path.dirname(os.path.abspath(__file__)))
sys.path.insert(0, os.path.join(ROOT, "tools"))
import props as P
allp = [json.loads(l) for l in open(os.path.join(ROOT, "properties.jsonl"))]
claimed = [p["id"] for p in allp if p["id"] in P.PROPS and P.PROPS[p["id"]].get("claimed", True)]
checks = []
for pid in claimed:
    c = P.PROPS[pid]
    partial = c.get("partial", [])
    text = c.get("level_text") or ("Lean 4 theorems (for all inputs) about an executable model of the code, tied to the Rust implementation by a "
            "correspondence check that runs model and implementation on the same op stream and judges the implementation's output with the executable spec.")
    if partial:
        text += " PARTIAL: " + "; ".join(partial)
    checks.append({
        "property_id": pid,
        "quick_cmd": f"./check {pid} --tier quick",
        "thorough_cmd": f"./check {pid} --tier thorough",
        "evidence_file": f"/verif/evidence/{pid}.json",
        "replay_cmd_template": f"./check {pid} --replay {{path}}",
        "engine": "lean4-proof+correspondence",
        "level_claimed": {"category": "proof", "text": text, "design_ref": f"DESIGN.md §4 {pid}"},
        "level_note": c.get("level_note") or ("Trusted: Lean kernel + {propext, Classical.choice, Quot.sound}; the hand-written model is tied to the code only by the "
                       "differential correspondence check (bounded by generator quality); " + "; ".join(c.get("assumptions", []))),
        "technique": c.get("technique", "Lean 4 machine-checked proof over a hand-written executable model + model/implementation correspondence check"),
    })
hooks_commits = P.HOOK_COMMITS if hasattr(P, "HOOK_COMMITS") else []
m = {"version": 1, "setup_cmd": "./setup.sh",
     "hooks": {"guard": "arkworks_rs_algebra_verif",
               "enable": "rustc --cfg arkworks_rs_algebra_verif, set in /verif/harness/.cargo/config.toml (build.rustflags) for the harness build only",
               "baseline_off_cmd": "cd /repo && cargo nextest run --workspace --no-fail-fast --tool-config-file pb:/w/lib/nextest.toml --profile pb --test-threads 8 --offline",
               "source_commits": hooks_commits, "add_only": True},
     "engines": [{"name": "lean4-proof+correspondence", "path": "/verif/check", "serves_properties": claimed,
                  "kind_free_text": "Lean 4 theorems over executable models (lean/Ark), Rust harness binaries (harness/src/bin) + compiled Lean driver (arkdrv) for the model/implementation correspondence, translator for configuration constants (tools/gen_consts.py)"}],
     "checks": checks,
     "notes": "See DESIGN.md. Properties not yet claimed are listed under not_applicable with the reason 'not built yet'; the design intends to claim all twenty.",
     "not_applicable": [{"property_id": p["id"], "reason": P.NOT_APPLICABLE.get(p["id"], "not built yet (machinery under construction; DESIGN.md §4 describes the planned Lean model and theorems)")}
                        for p in allp if p["id"] not in claimed]}
json.dump(m, open(os.path.join(ROOT, "MANIFEST.json"), "w"), indent=1)
print("claimed:", claimed)
