#!/usr/bin/env python3
"""prints the prompt for a seeding sub-agent: seed_prompt.py <Cxx> <worktree> <demo_crate> <demo_package> "<test cmds>" "<hints>" """
import json, sys
pid, wt, dcrate, dpkg, tests, hints = sys.argv[1:7]
p = [json.loads(l) for l in open('/verif/properties.jsonl') if json.loads(l)['id'] == pid][0]
print(f"""You are helping to evaluate a verification tool by producing realistic *faulty changes* to a Rust library. Work ONLY inside the git worktree `{wt}` (a checkout of arkworks-rs/algebra: crates `ff`, `ff-macros`, `ec`, `poly`, `serialize`, `serialize-derive`, `test-curves`, …). Do not read or touch `/verif` or `/repo` at all. No network; build with `CARGO_NET_OFFLINE=true cargo … --offline` and ALWAYS wrap commands in `timeout`.

The property your changes must break:

"{p['title']}. {p['statement']}" (Quantifier: {p['quantifier']['text']}. Code: {', '.join('`'+f+'`' for f in p['anchors']['files'])}.)

Produce THREE different, independent candidate changes (each a separate small patch against the clean worktree), each of which:
* is a plausible programming slip or "optimisation", a few lines at most, in different functions / code paths; {hints}
* still compiles, and the EXISTING test suite still passes — run at least: {tests} — say exactly what you ran and the pass counts;
* breaks the property only for inputs that need something specific to manifest (a particular size or length relation, a boundary value, a special-case branch, a multi-step sequence of operations, an unusual but legal input, or two cooperating sites that each look fine alone) — NOT something ordinary use or the existing tests expose at once;
* comes with a demonstration: a Rust integration test `demo.rs` (to be placed at `{dcrate}/tests/seed_demo.rs`; it may use `ark_test_curves` types if that crate is a dev-dependency of `{dpkg}` — check `{dcrate}/Cargo.toml` for the enabled features — and may define its own small field with `#[derive(MontConfig)]`) that FAILS with the change and PASSES without it.

For each candidate k = 1,2,3 write into `{wt}/SEED/<k>/`: `patch.diff` (`git diff` of the library change only, applying cleanly with `git apply` to the clean checkout), `demo.rs`, and `meta.json` with fields {{"property": "{pid}", "summary": …, "needs_to_manifest": …, "files_touched": […], "tests_run": […], "demo_crate": "{dcrate}", "demo_package": "{dpkg}", "demo_features": "<extra cargo flags needed by the demo, or empty>"}} — the demo will be run as `mkdir -p {dcrate}/tests && cp demo.rs {dcrate}/tests/seed_demo.rs && cargo test --offline -p {dpkg} <demo_features> --test seed_demo`. After writing each patch, revert the worktree to clean (`git checkout -- . && git clean -fdq -e target -e SEED`) so the next one is independent. Leave the worktree clean at the end (only the untracked `SEED/` directory). Report a short summary of the three candidates.""")
