#!/bin/bash
# confirm_harmless.sh <src-dir> <id> "<existing-test-cmd>" <prop> [<prop> ...]
# A behaviour-preserving rewrite of /repo (patch.diff + meta.json in <src-dir>) must NOT raise an alarm:
# applies it in the scratch worktree /tmp/seed/harmless-<id>, runs the given existing tests, then runs
# ./check <prop> (VERIF_REPO) for every listed property and records the exit codes in /verif/harmless/<id>/.
set -u
SRC=$1; ID=$2; TESTCMD=$3; shift 3; PROPS="$@"
WT=/tmp/seed/harmless-$ID
export CARGO_NET_OFFLINE=true
git -C /repo worktree add -q --force $WT HEAD 2>/dev/null || true
cd $WT && git checkout -q -- . && git clean -fdq -e target
git apply $SRC/patch.diff || { echo "$ID patch does not apply"; exit 2; }
log=/tmp/seed/harmless-$ID.log; : > $log
( eval "timeout 3000 $TESTCMD" ) >> $log 2>&1; TEST_RC=$?
RES=""
for p in $PROPS; do
  ( cd /verif && VERIF_REPO=$WT timeout 3000 ./check $p ) > /tmp/seed/harmless-$ID.$p.check 2>&1; rc=$?
  RES="$RES $p:$rc"
  cat /tmp/seed/harmless-$ID.$p.check >> $log
done
mkdir -p /verif/harmless/$ID
cp $SRC/patch.diff /verif/harmless/$ID/patch.diff
python3 - <<PY
import json
m=json.load(open("$SRC/meta.json"))
res={kv.split(":")[0]:int(kv.split(":")[1]) for kv in "$RES".split()}
tails={p:open("/tmp/seed/harmless-$ID.%s.check"%p).read()[-600:] for p in res}
m["confirmed"]={"existing_tests_cmd":"$TESTCMD","existing_tests_rc":$TEST_RC,"checks":res,"check_output_tails":tails}
m["false_alarm"]=any(v!=0 for v in res.values())
json.dump(m,open("/verif/harmless/$ID/meta.json","w"),indent=1)
print("$ID tests=%d checks=%s false_alarm=%s"%($TEST_RC,res,m["false_alarm"]))
PY
cd /; git -C /repo worktree remove --force $WT
