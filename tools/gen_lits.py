#!/usr/bin/env python3
"""Generates /verif/harness/src/lits_gen.rs: the compile-time literal grid of property C20.

Every literal is a `MontFp!("…")` / `BigInt!("…")` invocation in its own `const` item, so the
proc-macro `to_sign_and_limbs!` and the const evaluation of `Fp::from_sign_and_limbs` / the
`BigInt!` asserts are what produces the value the harness prints at run time.

Grid: a selection of the configuration zoo (parsed from harness/src/zoo.rs: 1, 2, 3, 4, 6, 12, 13
limbs, with / without spare bit, derived and hand-written, oversized limb counts) x values
{0, 1, small, 2^63, 2^64-1, 2^64, p-1, p, p+1, 2p, (p-1)/2, R, 2^(64N)-1, hexit-chunk boundaries,
pseudo-random} x radices {decimal, 0x, 0X, 0o, 0O, 0b, 0B} x {plain, '-', leading zeros, '_',
upper/mixed case} + the odd forms the macro accepts ("--5", "-+5", "-+0", "0x-5", "+5", "-0", "1_", …) + escaped
and raw Rust string literals.  Only literals the macros ACCEPT can be listed (the crate must compile).

Also: additional `#[derive(MontConfig)]` configurations with unusual attribute spellings and with
`small_subgroup_base/power`, and the table of attribute strings of every derived configuration.

Deterministic (own SplitMix64, fixed seed); needs only the Python standard library.
Run:  python3 /verif/tools/gen_lits.py
"""
import re, os

ROOT = os.path.dirname(os.path.dirname(os.path.abspath(__file__)))
ZOO = os.path.join(ROOT, "harness", "src", "zoo.rs")
OUT = os.path.join(ROOT, "harness", "src", "lits_gen.rs")
M64 = (1 << 64) - 1


class Rng:
    def __init__(self, seed):
        self.s = seed & M64

    def next(self):
        self.s = (self.s + 0x9E3779B97F4A7C15) & M64
        z = self.s
        z = ((z ^ (z >> 30)) * 0xBF58476D1CE4E5B9) & M64
        z = ((z ^ (z >> 27)) * 0x94D049BB133111EB) & M64
        return z ^ (z >> 31)

    def bits(self, k):
        v = 0
        for _ in range((k + 63) // 64):
            v = (v << 64) | self.next()
        return v & ((1 << k) - 1)

    def below(self, n):
        return self.bits(n.bit_length() + 64) % n


def is_prime(n):
    if n < 2:
        return False
    for q in (2, 3, 5, 7, 11, 13, 17, 19, 23, 29, 31, 37):
        if n % q == 0:
            return n == q
    d, r = n - 1, 0
    while d % 2 == 0:
        d //= 2
        r += 1
    for a in (2, 3, 5, 7, 11, 13, 17, 19, 23, 29, 31, 37, 41, 43, 47, 53):
        x = pow(a, d, n)
        if x in (1, n - 1):
            continue
        for _ in range(r - 1):
            x = x * x % n
            if x == n - 1:
                break
        else:
            return False
    return True


def smallest_qnr(p):
    g = 2
    while pow(g, (p - 1) // 2, p) != p - 1:
        g += 1
    return g


# ---------------------------------------------------------------- the zoo
src = open(ZOO).read()
DER = {}   # type name -> (N, p, g)
for m in re.finditer(r'#\[derive\(MontConfig\)\]\n#\[modulus = "(\d+)"\]\n#\[generator = "(\d+)"\]\npub struct (D\w+);\n'
                     r'pub type F\w+ = Fp<MontBackend<\w+, (\d+)>, \d+>;', src):
    DER[m.group(3)] = (int(m.group(4)), int(m.group(1)), int(m.group(2)))
HAND = {}
for m in re.finditer(r'pub struct (H\w+);\nimpl MontConfig<(\d+)> for \w+ \{\n    const MODULUS: BigInt<\d+> = ark_ff::BigInt!\("(\d+)"\);\n'
                     r'    const GENERATOR: [^\n]* = MontFp!\("(\d+)"\);', src):
    HAND[m.group(1)] = (int(m.group(2)), int(m.group(3)), int(m.group(4)))
assert len(DER) >= 40 and len(HAND) >= 40, (len(DER), len(HAND))

SELECT = [
    # N = 1
    "DT13", "HT13", "DM61", "DP64m59", "HP64m59", "HGoldilocks", "DP63",
    # N = 2
    "DM127", "HM127", "DP128m159", "HP128m159", "DTop63a", "HT13x2", "HM61x2",
    # N = 3
    "HP192m237", "HM61x3",
    # N = 4
    "DSecp256k1", "HSecp256k1", "DP25519", "DBls381Fr", "HBls381Fr", "HT251x4",
    # N = 6
    "DFull6", "HFull6", "DSpare6", "DBls381Fq", "HBls381Fq", "HSecp384r1",
    # N = 12
    "DFull12", "HFull12", "DSpare12", "HMid12",
    # N = 13
    "DFull13", "HFull13", "HSpare13", "DMid13",
]


def cfg_of(name):
    return DER[name] if name in DER else HAND[name]


# ---------------------------------------------------------------- literal spellings
def digits(v, radix, upper=False):
    if v == 0:
        return "0"
    s = ""
    al = "0123456789ABCDEF" if upper else "0123456789abcdef"
    while v:
        s = al[v % radix] + s
        v //= radix
    return s


PFX = {10: "", 16: "0x", 8: "0o", 2: "0b"}


def plain(v, radix):
    return PFX[radix] + digits(v, radix)


def underscored(s, k):
    # '_' after every k digits counted from the right; never leading
    out = ""
    for i, ch in enumerate(reversed(s)):
        if i and i % k == 0:
            out = "_" + out
        out = ch + out
    return out


def mixed_case(s):
    return "".join(ch.upper() if i % 2 else ch for i, ch in enumerate(s))


def variant(v, k):
    k %= 8
    if k == 0:
        return "000" + digits(v, 10)
    if k == 1:
        return "0X" + digits(v, 16, upper=True)
    if k == 2:
        return "0x" + underscored(mixed_case(digits(v, 16)), 4)
    if k == 3:
        b = digits(v, 2)
        return "0B" + "0" * ((-len(b)) % 8) + b
    if k == 4:
        return "0O0" + digits(v, 8)
    if k == 5:
        return "-0x00" + digits(v, 16)
    if k == 6:
        return underscored(digits(v, 10), 3)
    return "-0b" + underscored(digits(v, 2), 8) + "_"


# forms outside the conventional grammar which the macro nevertheless accepts (see str_to_limbs_u64 and
# num-bigint's from_str_radix), and conventional corner cases
SPECIALS = [
    "--5", "-+5", "-+0", "0x-5", "-0x-5", "+5", "0x+5", "-0x+5", "0o-7", "-0b-1", "0B+1",
    "-0", "-0x0", "-00", "-0b0", "-0o0", "--0", "0x-0", "00", "0x00", "0_0", "0x0_0",
    "1_", "1__2", "0x1_", "9_9", "0b0_1", "0o1_7_", "+0", "+1_0",
    "0xAbCdEf", "0XaBcDeF", "0xabcdef", "0XABCDEF",
    "010", "0010", "0b1", "0B1", "0b10", "0o17", "0O17", "0x0b1", "0x0B1", "0b0", "0o0", "0x0",
    "0xb", "0xB", "0b0000000000000000000000000000000000000000000000000000000000000000000000001",
    "0x00000000000000000000000000000000000000000000000000000000000000000000000000000000000000000000000000000000000000000000000000000000000000000000000000000000000000000000000000000000000000000000000000000000000000000000000000000000000000000000000000001",
    "00000000000000000000000000000000000000000000000000000000000000000000000000000000000000000000000000000000000000000000000000000000000000000000000000000000000000000000000000000000000000000000000000000000000000000000000000000000000000000000000000000000000000000000000000000000000000000000012",
]
# (string value, Rust source of the literal token) where the two differ
ESCAPED = [
    ("12", r'"\x31\x32"'), ("0x1f", 'r"0x1f"'), ("-7", 'r#"-7"#'), ("0b11", r'"\u{30}b11"'),
    ("-0o17", r'"\u{2d}0o17"'), ("1_0", '"1\\\n        _0"'),
]


def rust_str(s):
    assert all(0x20 <= ord(c) < 0x7F and c not in '"\\' for c in s), s
    return '"' + s + '"'


def values_for(N, p, rng, nrand):
    W = 1 << (64 * N)
    vals = [0, 1, 2, 9, 10, 15, 16, 1 << 63, (1 << 64) - 1]
    if N >= 2:
        vals += [1 << 64, (1 << 64) + 1, 1 << (64 * (N - 1)), (1 << (64 * (N - 1))) - 1]
    vals += [W >> 1, p - 1, p, p + 1, (p - 1) // 2, (p + 1) // 2, 2 * p, 2 * p + 1, W - 1, W - 2, W - p, W % p, (W * W) % p]
    # hexit-chunk boundaries: 16^k - 1, 16^k around multiples of 16 hexits
    for k in (15, 16, 17, 16 * N - 1):
        vals += [(1 << (4 * k)) - 1, 1 << (4 * k)]
    special = {0, 1, p - 1, p, p + 1, W - 1}
    for i in range(nrand):
        m = i % 4
        if m == 0:
            vals.append(rng.below(W))
        elif m == 1:
            vals.append(rng.below(p))
        elif m == 2:
            vals.append(p + rng.below(W - p))            # in [p, W)
        else:
            vals.append(rng.bits(1 + rng.below(64 * N)))   # random bit length
    seen, out = set(), []
    for v in vals:
        if 0 <= v < W and v not in seen:
            seen.add(v)
            out.append(v)
    return out, special


def montfp_literals(N, p, rng):
    big = N >= 12
    vals, special = values_for(N, p, rng, 6 if big else 10)
    lits = []
    for i, v in enumerate(vals):
        sp = v in special
        radices = (10, 16, 8, 2)
        if big and not sp:
            radices = (10, 16) + ((8,) if i % 2 else (2,))
        for r in radices:
            lits.append(plain(v, r))
        if sp:
            for r in (10, 16, 8, 2):
                lits.append("-" + plain(v, r))
        else:
            lits.append("-" + plain(v, (10, 16, 8, 2)[i % 4]))
        lits.append(variant(v, i))
        if sp:
            lits.append(variant(v, i + 3))
            lits.append(variant(v, i + 5))
    lits += SPECIALS
    seen, out = set(), []
    for s in lits:
        if s not in seen:
            seen.add(s)
            out.append((s, rust_str(s)))
    return out + ESCAPED


def bigint_literals(N, rng):
    W = 1 << (64 * N)
    vals = [0, 1, 2, 10, 16, 1 << 63, (1 << 64) - 1, W >> 1, (W >> 1) - 1, W - 1, W - 2]
    if N >= 2:
        vals += [1 << 64, (1 << 64) + 1, 1 << (64 * (N - 1)), (1 << (64 * (N - 1))) - 1]
    for k in (15, 16, 17, 16 * N - 1):
        vals += [(1 << (4 * k)) - 1, 1 << (4 * k)]
    for i in range(8):
        vals.append(rng.below(W) if i % 2 == 0 else rng.bits(1 + rng.below(64 * N)))
    seen, vs = set(), []
    for v in vals:
        if 0 <= v < W and v not in seen:
            seen.add(v)
            vs.append(v)
    lits = []
    for i, v in enumerate(vs):
        for r in (10, 16, 8, 2):
            lits.append(plain(v, r))
        # only sign-free variants (BigInt! asserts is_positive), except for zero
        k = i % 8
        if k in (5, 7):
            k = 2
        lits.append(variant(v, k))
    # accepted odd forms: positive after sign cancellation, or zero
    lits += SPECIALS          # the negative ones are filtered by the caller (is_nonneg)
    out, seen = [], set()
    for s in lits:
        if s in seen:
            continue
        seen.add(s)
        out.append(s)
    return out


def is_nonneg(s):
    """sign of the number the macro computes (two places for a '-': in front, and after the prefix)"""
    neg = 0
    if s.startswith("-"):
        neg += 1
        s = s[1:]
    if s[:2].lower() in ("0x", "0o", "0b"):
        s = s[2:]
    if s.startswith("-"):
        neg += 1
        s = s[1:]
    body = s.replace("_", "").lstrip("+")
    zero = set(body) <= {"0"}
    return zero or neg % 2 == 0


# ---------------------------------------------------------------- additional derived configurations
def find_prime(a, b, bits):
    """smallest prime 2^a * 3^b * m + 1 with at least `bits` bits, m odd and coprime to 3"""
    base = (1 << a) * 3 ** b
    m = ((1 << bits) // base) | 1
    while True:
        if m % 3 != 0 and is_prime(base * m + 1):
            return base * m + 1
        m += 2


P433 = 433                       # 2^4 * 27 + 1
P2L = find_prime(20, 10, 100)    # two limbs
P4L = find_prime(32, 5, 250)     # four limbs
BLS_FR = 52435875175126190479447740508185965837690552500527637822603658699938581184513
assert is_prime(P433) and P2L.bit_length() in range(100, 129) and P4L.bit_length() in range(250, 257)

# (struct, N, modulus attr, generator attr, small_subgroup_base attr, small_subgroup_power attr)
EXTRA = [
    ("XPlus13", 1, "+13", "2", None, None),
    ("XZeros13", 1, "0013", "002", None, None),
    ("XUnder13", 1, "1_3", "1_5", None, None),                   # generator >= p
    ("XBigGen13", 1, "13", "18446744073709551614", None, None),   # generator = 2^64 - 2 (= 2 mod 13); a generator >= 2^(64N) does not compile
    ("XSs13a", 1, "13", "2", "3", "1"),
    ("XSs13b", 1, "13", "2", "5", "1"),                           # 5 does not divide the trace: floor division
    ("XSs13c", 1, "13", "2", "+7", "00"),                         # base^0 = 1
    ("XSs433a", 1, str(P433), str(smallest_qnr(P433)), "3", "3"),
    ("XSs433b", 1, str(P433), str(smallest_qnr(P433)), "3", "2"),
    ("XSs433c", 1, str(P433), str(smallest_qnr(P433)), "9", "1"),
    ("XSs2L", 2, str(P2L), str(smallest_qnr(P2L)), "3", "10"),
    ("XSs2Lb", 2, str(P2L), str(smallest_qnr(P2L)), "3", "4"),
    ("XSs4L", 4, str(P4L), str(smallest_qnr(P4L)), "3", "5"),
    ("XSsBlsFr", 4, str(BLS_FR), "7", "3", "1"),
    ("XSsBlsFrU", 4, underscored(str(BLS_FR), 3), "0_7", "03", "+1"),
]

# ---------------------------------------------------------------- emit
rng = Rng(20)
o = []
w = o.append
w("// @generated by /verif/tools/gen_lits.py — do not edit")
w("#![allow(non_camel_case_types, dead_code, unused_imports, unused_macros)]")
w("use ark_ff::{BigInt, Fp, MontBackend, MontConfig, MontFp};")
w("use arkharness::zoo::*;")
w("")
w("// `$s:tt` forwards the string literal token unchanged, so `MontFp!` / `BigInt!` see exactly what a direct")
w("// invocation `MontFp!(\"…\")` would see; each literal is evaluated in a `const` item of its own")
w("macro_rules! mlit {\n    ($t:ty, $s:tt) => {\n        ($s, {\n            const C: $t = MontFp!($s);\n            C\n        })\n    };\n}")
w("macro_rules! blit {\n    ($n:tt, $s:tt) => {\n        ($s, {\n            const C: BigInt<$n> = ark_ff::BigInt!($s);\n            C\n        })\n    };\n}")
w("")
total = 0
for name in SELECT:
    N, p, g = cfg_of(name)
    lits = montfp_literals(N, p, rng)
    total += len(lits)
    w(f"// {name}: N={N}, p={p}")
    w(f"pub const LITS_{name}: &[(&str, F{name})] = &[")
    for (val, srcs) in lits:
        if rust_str(val) == srcs:
            w(f"    mlit!(F{name}, {srcs}),")
        else:
            w(f"    ({rust_str(val)}, {{ const C: F{name} = MontFp!({srcs}); C }}),")
    w("];")
    w("")
btotal = 0
BIGN = [1, 2, 3, 4, 6, 12, 13]
for N in BIGN:
    lits = [s for s in bigint_literals(N, rng) if is_nonneg(s)]
    btotal += len(lits)
    w(f"pub const BIGS_{N}: &[(&str, BigInt<{N}>)] = &[")
    for s in lits:
        w(f"    blit!({N}, {rust_str(s)}),")
    for (val, srcs) in ESCAPED:
        if is_nonneg(val):
            w(f"    ({rust_str(val)}, {{ const C: BigInt<{N}> = ark_ff::BigInt!({srcs}); C }}),")
            btotal += 1
    w("];")
    w("")
for (name, N, ms, gs, b, k) in EXTRA:
    w("#[derive(MontConfig)]")
    w(f'#[modulus = "{ms}"]')
    w(f'#[generator = "{gs}"]')
    if b is not None:
        w(f'#[small_subgroup_base = "{b}"]')
        w(f'#[small_subgroup_power = "{k}"]')
    w(f"pub struct {name};")
    w("")
w("macro_rules! for_each_lit_table {\n    ($m:ident $(, $arg:expr)*) => {")
for name in SELECT:
    N, p, g = cfg_of(name)
    fl = "d" if name in DER else "t"
    w(f'        $m!("{fl}", {name}, {N}, LITS_{name} $(, $arg)*);')
w("    };\n}")
w("macro_rules! for_each_big_table {\n    ($m:ident $(, $arg:expr)*) => {")
for N in BIGN:
    w(f"        $m!({N}, BIGS_{N} $(, $arg)*);")
w("    };\n}")
w("// $m!(Config, N, modulus attribute, generator attribute)")
w("macro_rules! for_each_derive {\n    ($m:ident $(, $arg:expr)*) => {")
for name in sorted(DER, key=lambda n: (DER[n][0], n)):
    N, p, g = DER[name]
    w(f'        $m!({name}, {N}, "{p}", "{g}" $(, $arg)*);')
for (name, N, ms, gs, b, k) in EXTRA:
    if b is None:
        w(f'        $m!({name}, {N}, "{ms}", "{gs}" $(, $arg)*);')
w("    };\n}")
w("// $m!(Config, N, modulus attribute, generator attribute, small_subgroup_base attribute, small_subgroup_power attribute)")
w("macro_rules! for_each_derive_ss {\n    ($m:ident $(, $arg:expr)*) => {")
for (name, N, ms, gs, b, k) in EXTRA:
    if b is not None:
        w(f'        $m!({name}, {N}, "{ms}", "{gs}", "{b}", "{k}" $(, $arg)*);')
w("    };\n}")
open(OUT, "w").write("\n".join(o) + "\n")
print(f"{len(SELECT)} configs, {total} MontFp! literals, {btotal} BigInt! literals, {len(DER) + len(EXTRA)} derived configs, "
      f"{os.path.getsize(OUT)} bytes")
