#!/usr/bin/env python3
"""Translator for property C16 (DESIGN.md §2.7).

    regenerate(harness_bin, cfg, lean_dir, log) -> info
        runs the constants dumper (harness2/src/bin/c16.rs, built against the CURRENT /repo tree),
        parses its JSON lines and (re)writes
            lean_dir/Ark/Gen/<Crate>.lean   one `def` per configuration + one theorem per checker
            lean_dir/Ark/Gen/All.lean       imports them all
            lean_dir/Ark/Props/C16.lean     one summary theorem per crate (conjunction of the above)
        Files are rewritten only when their content changes (keeps lake incremental).
        info = {"modules": [...], "index": {theorem -> {...}}, "summary": {...},
                "literal_mismatches": [...], "notes": [...]}

    explain_failure(lake_output, info) -> dict | None
        maps failing generated theorems in lake's output to configuration / checker / constants
        (the constants ARE the failing input) and re-evaluates the checker in Python.

The Lean side (Ark/Model/Cfg.lean) defines what every checker means; this script only renders
values.  The only "logic" here is the table CHECKERS (which checkers apply to which record kind).
"""
import json, os, re, subprocess, sys, glob

# --------------------------------------------------------------------------------------------
# which checkers apply to which dumped kind:  kind -> (Lean record type, [(checker, short, keys)])
# `keys` = JSON fields the checker reads (reported as the failing input)
# --------------------------------------------------------------------------------------------
FP_MONT = ["modulus", "limbs", "mont_modulus", "mont_modulus_limbs", "mont_r_raw", "mont_r2_raw", "mont_inv",
           "one_raw", "generator_raw", "generator"]
CURVE = ["tower", "r", "a", "b", "gx", "gy"]
CHECKERS = {
    "fp": ("FpCfg", [
        ("checkMontConsts", "mont_consts", FP_MONT),
        ("checkModulusShape", "modulus_shape", ["modulus", "limbs", "modulus_bit_size", "characteristic", "modulus_minus_one_div_two"]),
        ("checkTwoAdicity", "two_adicity", ["modulus", "two_adicity", "trace", "trace_minus_one_div_two"]),
        ("checkGeneratorQNR", "generator_qnr", ["modulus", "generator"]),
        ("checkRootOfUnity", "root_of_unity", ["modulus", "generator", "two_adicity", "trace", "two_adic_root_of_unity"]),
        ("checkLargeSubgroup", "large_subgroup", ["modulus", "generator", "two_adicity", "small_subgroup_base",
                                                   "small_subgroup_base_adicity", "large_subgroup_root_of_unity"]),
        ("checkForwarding", "forwarding", ["generator", "mont_generator", "two_adic_root_of_unity", "mont_two_adic_root_of_unity"]),
        ("checkSqrtPrecomp", "sqrt_precomp", ["modulus", "sqrt_precomp", "modulus_plus_one_div_four", "generator", "trace", "two_adicity"]),
        ("checkMontFlags", "mont_flags", ["modulus", "limbs", "modulus_has_spare_bit", "can_use_no_carry_mul_opt"]),
    ]),
    "ext": ("ExtCfg", [
        ("checkExtShape", "shape", ["p", "base_tower", "nonresidue"]),
        ("checkNonresidue", "nonresidue", ["p", "base_tower", "nonresidue"]),
        ("checkNonresidueIsGenerator", "nonresidue_is_generator", ["base_tower", "nonresidue"]),
        ("checkNrMulBasis", "nr_mul_basis", ["base_tower", "nonresidue", "nr_mul_basis"]),
        ("checkFrobeniusC1", "frobenius_c1", ["p", "base_tower", "nonresidue", "frobenius_c1"]),
        ("checkFrobeniusC2", "frobenius_c2", ["frobenius_c1", "frobenius_c2"]),
        ("checkFrobMulBasis", "frob_mul_basis", ["base_tower", "frobenius_c1", "frobenius_c2", "frob_mul_basis"]),
    ]),
    "fp3x": ("ExtCfg", [
        ("checkFp3TwoAdicity", "fp3_two_adicity", ["p", "two_adicity", "trace_minus_one_div_two"]),
        ("checkFp3QnrToT", "fp3_qnr_to_t", ["p", "nonresidue", "two_adicity", "quadratic_nonresidue_to_t", "sqrt_precomp"]),
    ]),
    "sw": ("SwCfg", [
        ("checkSwShape", "shape", CURVE + ["cofactor", "cofactor_limbs", "cofactor_inv"]),
        ("checkSwNonsingular", "nonsingular", ["tower", "a", "b"]),
        ("checkSwGeneratorOnCurve", "generator_on_curve", CURVE),
        ("checkSwGeneratorOrder", "generator_order", CURVE),
        ("checkSwCofactorInv", "cofactor_inv", ["r", "cofactor", "cofactor_inv"]),
        ("checkSwMulByA", "mul_by_a", ["tower", "a", "mul_by_a_basis"]),
    ]),
    "glv": ("GlvCfg", [
        ("checkGlvBeta", "beta", ["tower", "a", "endo_coeffs"]),
        ("checkGlvLambda", "lambda", ["r", "lambda"]),
        ("checkGlvEndoForm", "endo_form", ["tower", "gx", "gy", "endo_coeffs", "endo_gx", "endo_gy"]),
        ("checkGlvEigen", "eigen", CURVE + ["endo_coeffs", "lambda"]),
        ("checkGlvDecompRows", "decomp_rows", ["r", "lambda", "scalar_decomp_coeffs"]),
        ("checkGlvDet", "decomp_det", ["r", "scalar_decomp_coeffs"]),
        ("checkGlvDecompShort", "decomp_short", ["r", "scalar_decomp_coeffs"]),
        ("checkGlvLadderBound", "ladder_bound", ["r", "scalar_decomp_coeffs"]),
    ]),
    "swu": ("SwuCfg", [
        ("checkSwuZeta", "zeta", ["tower", "zeta"]),
        ("checkSwuAB", "ab_nonzero", ["a", "b"]),
    ]),
    "wb": ("WbCfg", [
        ("checkWbShape", "shape", ["tower", "x_map_numerator", "x_map_denominator", "y_map_numerator", "y_map_denominator"]),
        ("checkWbIsoCurve", "iso_curve", ["tower", "iso"]),
        ("checkWbIsoShape", "iso_shape", ["tower", "iso", "a", "b", "gx", "gy", "r", "cofactor", "cofactor_limbs", "cofactor_inv"]),
        ("checkWbImageOnCurve", "image_on_curve", ["tower", "a", "b", "iso", "x_map_numerator", "x_map_denominator",
                                                    "y_map_numerator", "y_map_denominator"]),
        ("checkWbImageOrder", "image_order", ["tower", "a", "b", "r", "iso", "x_map_numerator", "x_map_denominator",
                                              "y_map_numerator", "y_map_denominator"]),
        ("checkWbIsoIdentity", "iso_identity", ["tower", "a", "b", "iso", "x_map_numerator", "x_map_denominator",
                                                "y_map_numerator", "y_map_denominator"]),
    ]),
    "te": ("TeCfg", [
        ("checkTeShape", "shape", ["tower", "r", "a", "d", "gx", "gy", "cofactor", "cofactor_limbs", "cofactor_inv"]),
        ("checkTeNondegenerate", "nondegenerate", ["a", "d"]),
        ("checkTeCofactorLimbs", "cofactor_limbs_wf", ["cofactor_limbs"]),
        ("checkTeGeneratorOnCurve", "generator_on_curve", ["tower", "a", "d", "gx", "gy"]),
        ("checkTeGeneratorOrder", "generator_order", ["tower", "r", "a", "d", "gx", "gy"]),
        ("checkTeCofactorInv", "cofactor_inv", ["r", "cofactor", "cofactor_inv"]),
        ("checkTeMulByA", "mul_by_a", ["tower", "a", "mul_by_a_basis"]),
        ("checkTeMontgomery", "montgomery", ["tower", "a", "d", "mont_a", "mont_b"]),
    ]),
    "elligator2": ("Elligator2Cfg", [
        ("checkElligatorZ", "z", ["tower", "z"]),
        ("checkElligatorConstsWf", "consts_wf", ["tower", "one_over_coeff_b_square", "coeff_a_over_coeff_b"]),
        ("checkElligatorConsts", "consts", ["tower", "mont_a", "mont_b", "one_over_coeff_b_square", "coeff_a_over_coeff_b"]),
    ]),
    "bls12": ("Bls12Cfg", [
        ("checkBls12Family", "family", ["x", "x_is_negative", "p", "r"]),
        ("checkBls12Cofactors", "cofactors", ["x", "x_is_negative", "g1_cofactor", "g2_cofactor"]),
        ("checkBls12Twist", "twist", ["twist_type", "fp2_tower", "fp6_nonresidue", "g1_a", "g1_b", "g2_a", "g2_b"]),
    ]),
    "bn": ("BnCfg", [
        ("checkBnFamily", "family", ["x", "x_is_negative", "p", "r"]),
        ("checkBnLoopCount", "loop_count", ["x", "x_is_negative", "ate_loop_count"]),
        ("checkBnTwistMulByQ", "twist_mul_by_q", ["p", "fp2_tower", "fp6_nonresidue", "twist_mul_by_q_x", "twist_mul_by_q_y"]),
        ("checkBnTwist", "twist", ["twist_type", "fp2_tower", "fp6_nonresidue", "g1_a", "g1_b", "g2_a", "g2_b"]),
        ("checkBnCofactors", "cofactors", ["p", "r", "g1_cofactor", "g2_cofactor"]),
    ]),
    "bw6": ("Bw6Cfg", [
        ("checkBw6XMinus1Div3", "x_minus_1_div_3", ["x", "x_is_negative", "x_minus_1_div_3"]),
        ("checkBw6LoopCounts", "loop_counts", ["x", "x_is_negative", "ate_loop_count_1", "ate_loop_count_1_is_negative",
                                               "ate_loop_count_2", "ate_loop_count_2_is_negative"]),
        ("checkBw6Family", "family", ["x", "x_is_negative", "p", "r", "h_t", "h_y", "t_mod_r_is_zero"]),
        ("checkBw6Twist", "twist", ["twist_type", "fp3_tower", "g1_a", "g1_b", "g2_a", "g2_b"]),
    ]),
    "mnt": ("MntCfg", [
        ("checkMntLoopCount", "loop_count", ["p", "r", "ate_loop_count", "ate_is_loop_count_neg", "g1_cofactor"]),
        ("checkMntFinalExponent", "final_exponent", ["p", "r", "final_exponent_last_chunk_1", "final_exponent_last_chunk_w1",
                                                     "final_exponent_last_chunk_w0_is_neg", "final_exponent_last_chunk_abs_of_w0"]),
        ("checkMntTwist", "twist", ["ext_tower", "twist", "twist_coeff_a", "g1_a", "g1_b", "g2_a", "g2_b"]),
    ]),
}
EXT_KINDS = {"fp2": "fp2", "fp3": "fp3", "fp4": "fp4", "fp6_2over3": "fp6over3", "fp6_3over2": "fp6over2", "fp12": "fp12"}


def checkers_for(o):
    k = o["kind"]
    if k in EXT_KINDS:
        lst = list(CHECKERS["ext"][1])
        if k == "fp3":
            lst += CHECKERS["fp3x"][1]
        return "ExtCfg", lst
    if k in ("mnt4", "mnt6", "cp6"):
        return CHECKERS["mnt"]
    return CHECKERS[k]


# --------------------------------------------------------------------------------------------
# rendering of values as Lean terms
# --------------------------------------------------------------------------------------------
def L_nat(s):
    return str(int(s))

def L_int(s):
    v = int(s)
    return f"({v})" if v < 0 else str(v)

def L_el(xs):
    return "[" + ", ".join(L_nat(x) for x in xs) + "]"

def L_els(xss):
    return "[" + ", ".join(L_el(x) for x in xss) + "]"

def L_frob_basis(rows):
    """quadratic layers: rows of elements; cubic layers: rows of pairs [c1(e), c2(e)] -> flattened"""
    out = []
    for row in rows:
        flat = []
        for x in row:
            if x and isinstance(x[0], list):
                flat += x
            else:
                flat.append(x)
        out.append(L_els(flat))
    return "[" + ", ".join(out) + "]"

def L_opt(s):
    return "none" if s is None else f"(some {L_nat(s)})"

def L_bool(b):
    return "true" if b else "false"

def L_tw(t):
    if "p" in t:
        return f"(.prime {L_nat(t['p'])})"
    return f"(.ext {int(t['k'])} {L_tw(t['base'])} {L_el(t['nr'])})"

def L_sqrt(sp):
    if sp is None:
        return "{ kind := 0 }"
    if sp["kind"] == "tonelli_shanks":
        return ("{ kind := 1, twoAdicity := %s, qnrToTrace := %s, traceMinusOneDivTwo := %s }"
                % (L_nat(sp["two_adicity"]), L_el(sp["quadratic_nonresidue_to_trace"]),
                   L_nat(sp["trace_of_modulus_minus_one_div_two"])))
    if sp["kind"] == "case3mod4":
        return "{ kind := 2, modulusPlusOneDivFour := %s }" % L_nat(sp["modulus_plus_one_div_four"])
    return "{ kind := 99 }"

def rec(fields):
    return "{\n" + ",\n".join(f"    {k} := {v}" for k, v in fields) + " }"

def L_sw(o, with_basis=True):
    f = [("tower", L_tw(o["tower"])), ("r", L_nat(o["r"])), ("cofactor", L_nat(o["cofactor"])),
         ("cofactorLimbs", L_el(o["cofactor_limbs"])), ("cofactorInv", L_nat(o["cofactor_inv"])),
         ("a", L_el(o["a"])), ("b", L_el(o["b"])), ("gx", L_el(o["gx"])), ("gy", L_el(o["gy"])),
         ("gInfinity", L_bool(o["g_infinity"]))]
    if with_basis and "mul_by_a_basis" in o:
        f.append(("mulByABasis", L_els(o["mul_by_a_basis"])))
    return rec(f)

def L_te(o):
    f = [("tower", L_tw(o["tower"])), ("r", L_nat(o["r"])), ("cofactor", L_nat(o["cofactor"])),
         ("cofactorLimbs", L_el(o["cofactor_limbs"])), ("cofactorInv", L_nat(o["cofactor_inv"])),
         ("a", L_el(o["a"])), ("d", L_el(o["d"])), ("gx", L_el(o["gx"])), ("gy", L_el(o["gy"])),
         ("montA", L_el(o["mont_a"])), ("montB", L_el(o["mont_b"]))]
    if "mul_by_a_basis" in o:
        f.append(("mulByABasis", L_els(o["mul_by_a_basis"])))
    return rec(f)

def pairing_common(o):
    return [("g1a", L_el(o["g1_a"])), ("g1b", L_el(o["g1_b"])), ("g2a", L_el(o["g2_a"])), ("g2b", L_el(o["g2_b"])),
            ("g1Cofactor", L_nat(o["g1_cofactor"])), ("g2Cofactor", L_nat(o["g2_cofactor"]))]

def L_ints(xs):
    return "[" + ", ".join(L_int(x) for x in xs) + "]"


def render_value(o):
    """Lean term of the record for the dumped object `o`"""
    k = o["kind"]
    if k == "fp":
        return rec([
            ("limbs", L_nat(o["limbs"])), ("modulus", L_nat(o["modulus"])),
            ("modulusBitSize", L_nat(o["modulus_bit_size"])),
            ("modulusMinusOneDivTwo", L_nat(o["modulus_minus_one_div_two"])),
            ("trace", L_nat(o["trace"])), ("traceMinusOneDivTwo", L_nat(o["trace_minus_one_div_two"])),
            ("generator", L_nat(o["generator"])), ("twoAdicity", L_nat(o["two_adicity"])),
            ("twoAdicRoot", L_nat(o["two_adic_root_of_unity"])),
            ("smallSubgroupBase", L_opt(o["small_subgroup_base"])),
            ("smallSubgroupBaseAdicity", L_opt(o["small_subgroup_base_adicity"])),
            ("largeSubgroupRoot", L_opt(o["large_subgroup_root_of_unity"])),
            ("characteristic", L_nat(o["characteristic"])), ("sqrtPrecomp", L_sqrt(o["sqrt_precomp"])),
            ("montModulus", L_nat(o["mont_modulus"])), ("montModulusLimbs", L_el(o["mont_modulus_limbs"])),
            ("montR", L_nat(o["mont_r_raw"])), ("montR2", L_nat(o["mont_r2_raw"])), ("montInv", L_nat(o["mont_inv"])),
            ("montGenerator", L_nat(o["mont_generator"])),
            ("montTwoAdicRoot", L_nat(o["mont_two_adic_root_of_unity"])),
            ("oneRaw", L_nat(o["one_raw"])), ("generatorRaw", L_nat(o["generator_raw"])),
            ("hasSpareBit", L_bool(o["modulus_has_spare_bit"])),
            ("noCarryMul", L_bool(o["can_use_no_carry_mul_opt"])),
            ("noCarrySquare", L_bool(o["can_use_no_carry_square_opt"])),
            ("modulusPlusOneDivFour", L_opt(o["modulus_plus_one_div_four"])),
            ("montSmallSubgroupBase", L_opt(o["mont_small_subgroup_base"])),
            ("montSmallSubgroupBaseAdicity", L_opt(o["mont_small_subgroup_base_adicity"])),
            ("montLargeSubgroupRoot", L_opt(o["mont_large_subgroup_root_of_unity"])),
        ])
    if k in EXT_KINDS:
        f = [("kind", "." + EXT_KINDS[k]), ("p", L_nat(o["p"])), ("baseTower", L_tw(o["base_tower"])),
             ("nonresidue", L_el(o["nonresidue"])), ("frobC1", L_els(o["frobenius_c1"])),
             ("frobC2", L_els(o["frobenius_c2"])), ("nrMulBasis", L_els(o["nr_mul_basis"])),
             ("frobMulBasis", L_frob_basis(o["frob_mul_basis"]))]
        if k == "fp3":
            f += [("twoAdicity", L_nat(o["two_adicity"])),
                  ("traceMinusOneDivTwo", L_nat(o["trace_minus_one_div_two"])),
                  ("qnrToT", L_el(o["quadratic_nonresidue_to_t"])), ("sqrtPrecomp", L_sqrt(o["sqrt_precomp"]))]
        return rec(f)
    if k == "sw":
        return L_sw(o)
    if k == "te":
        return L_te(o)
    if k == "glv":
        return rec([("curve", L_sw(o, False)), ("endoCoeffs", L_els(o["endo_coeffs"])), ("lambda", L_nat(o["lambda"])),
                    ("decomp", "[" + ", ".join(f"({L_bool(s)}, {L_nat(v)})" for s, v in o["scalar_decomp_coeffs"]) + "]"),
                    ("endoGx", L_el(o["endo_gx"])), ("endoGy", L_el(o["endo_gy"])),
                    ("endoGInfinity", L_bool(o["endo_g_infinity"]))])
    if k == "swu":
        return rec([("curve", L_sw(o, False)), ("zeta", L_el(o["zeta"]))])
    if k == "wb":
        iso = dict(o["iso"])
        return rec([("curve", L_sw(o, False)), ("iso", L_sw(iso, False)), ("isoZeta", L_el(iso["zeta"])),
                    ("xNum", L_els(o["x_map_numerator"])), ("xDen", L_els(o["x_map_denominator"])),
                    ("yNum", L_els(o["y_map_numerator"])), ("yDen", L_els(o["y_map_denominator"]))])
    if k == "elligator2":
        return rec([("curve", L_te(o)), ("z", L_el(o["z"])),
                    ("oneOverCoeffBSquare", L_el(o["one_over_coeff_b_square"])),
                    ("coeffAOverCoeffB", L_el(o["coeff_a_over_coeff_b"]))])
    if k == "bls12":
        return rec([("x", L_nat(o["x"])), ("xIsNegative", L_bool(o["x_is_negative"])),
                    ("twistIsM", L_bool(o["twist_type"] == "M")), ("p", L_nat(o["p"])), ("r", L_nat(o["r"])),
                    ("fp2", L_tw(o["fp2_tower"])), ("fp6Nonresidue", L_el(o["fp6_nonresidue"]))] + pairing_common(o))
    if k == "bn":
        return rec([("x", L_nat(o["x"])), ("xIsNegative", L_bool(o["x_is_negative"])),
                    ("ateLoopCount", L_ints(o["ate_loop_count"])), ("twistIsM", L_bool(o["twist_type"] == "M")),
                    ("twistMulByQX", L_el(o["twist_mul_by_q_x"])), ("twistMulByQY", L_el(o["twist_mul_by_q_y"])),
                    ("p", L_nat(o["p"])), ("r", L_nat(o["r"])),
                    ("fp2", L_tw(o["fp2_tower"])), ("fp6Nonresidue", L_el(o["fp6_nonresidue"]))] + pairing_common(o))
    if k == "bw6":
        return rec([("x", L_nat(o["x"])), ("xIsNegative", L_bool(o["x_is_negative"])),
                    ("xMinus1Div3", L_nat(o["x_minus_1_div_3"])), ("ateLoopCount1", L_nat(o["ate_loop_count_1"])),
                    ("ateLoopCount1IsNegative", L_bool(o["ate_loop_count_1_is_negative"])),
                    ("ateLoopCount2", L_ints(o["ate_loop_count_2"])),
                    ("ateLoopCount2IsNegative", L_bool(o["ate_loop_count_2_is_negative"])),
                    ("twistIsM", L_bool(o["twist_type"] == "M")), ("hT", L_int(o["h_t"])), ("hY", L_int(o["h_y"])),
                    ("tModRIsZero", L_bool(o["t_mod_r_is_zero"])), ("p", L_nat(o["p"])), ("r", L_nat(o["r"])),
                    ("fp3", L_tw(o["fp3_tower"])), ("fp6Nonresidue", L_el(o["fp6_nonresidue"]))] + pairing_common(o))
    if k in ("mnt4", "mnt6", "cp6"):
        cp6 = k == "cp6"
        return rec([("k", {"mnt4": "4", "mnt6": "6", "cp6": "0"}[k]), ("twist", L_el(o["twist"])),
                    ("twistCoeffA", "[]" if cp6 else L_el(o["twist_coeff_a"])),
                    ("ateLoopCount", "[]" if cp6 else L_ints(o["ate_loop_count"])),
                    ("ateLoopCountNat", L_nat(o["ate_loop_count"]) if cp6 else "0"),
                    ("ateIsLoopCountNeg", L_bool(o["ate_is_loop_count_neg"])),
                    ("finalExponentLastChunk1", L_nat(o["final_exponent_last_chunk_w1"] if cp6 else o["final_exponent_last_chunk_1"])),
                    ("finalExponentLastChunkW0IsNeg", L_bool(o["final_exponent_last_chunk_w0_is_neg"])),
                    ("finalExponentLastChunkAbsOfW0", L_nat(o["final_exponent_last_chunk_abs_of_w0"])),
                    ("p", L_nat(o["p"])), ("r", L_nat(o["r"])), ("ext", L_tw(o["ext_tower"]))] + pairing_common(o))
    raise ValueError("unknown kind " + k)


# --------------------------------------------------------------------------------------------
# names
# --------------------------------------------------------------------------------------------
def module_name(crate):
    return "".join(p[:1].upper() + p[1:] for p in re.split(r"(?<=[a-z0-9])_(?=[a-z])", crate))

def def_name(o):
    base = f"{o['crate']}_{o['name']}"
    k = o["kind"]
    if k in ("fp", "sw", "bls12", "bn", "bw6", "mnt4", "mnt6", "cp6") or k in EXT_KINDS:
        return base
    return f"{base}_{k}"


HEADER = """/-
  GENERATED by tools/gen_consts.py from the constants dump of harness2/src/bin/c16.rs
  (values read from the compiled current tree of /repo).  DO NOT EDIT.
  crate / module: {crate}
-/
import Ark.Model.Cfg
set_option maxRecDepth 100000
namespace Ark.Gen
open Ark.Cfg

"""


def render_module(crate, objs, index, relpath):
    out = [HEADER.format(crate=crate)]
    line = out[0].count("\n") + 1
    thms = []
    for o in objs:
        ty, chk = checkers_for(o)
        dn = def_name(o)
        txt = f"/-- `{o['crate']}` / `{o['name']}` ({o['kind']}) -/\ndef {dn} : {ty} :=\n  {render_value(o)}\n\n"
        out.append(txt)
        line += txt.count("\n")
        for (fn, short, keys) in chk:
            tn = f"{dn}_{short}"
            txt = f"theorem {tn} : {fn} {dn} = true := by decide +kernel\n"
            index[tn] = {"config": {"crate": o["crate"], "name": o["name"], "kind": o["kind"]}, "def": dn,
                         "checker": fn, "file": relpath, "line": line,
                         "constants": {k: o[k] for k in keys if k in o}}
            thms.append((tn, f"{fn} {dn} = true"))
            out.append(txt)
            line += 1
        out.append("\n")
        line += 1
    out.append("end Ark.Gen\n")
    return "".join(out), thms


def write_if_changed(path, content):
    try:
        with open(path) as f:
            if f.read() == content:
                return False
    except FileNotFoundError:
        pass
    os.makedirs(os.path.dirname(path), exist_ok=True)
    with open(path, "w") as f:
        f.write(content)
    return True


# --------------------------------------------------------------------------------------------
# literal cross-check (regex extraction of #[modulus], #[generator], MontFp!, BigInt!)
# --------------------------------------------------------------------------------------------
def crate_src_dir(crate, repo):
    if crate == "test_fp128":
        return os.path.join(repo, "test-curves", "src", "fp128.rs")
    if crate.startswith("test_"):
        m = crate[5:]
        p = os.path.join(repo, "test-curves", "src", m)
        return p if os.path.isdir(p) else os.path.join(repo, "test-curves", "src")
    return os.path.join(repo, "curves", crate, "src")

LIT_RE = re.compile(r'(?:MontFp|BigInt)!\(\s*"(-?(?:0x)?[0-9a-fA-F_]+)"\s*\)', re.S)

def parse_lit(s):
    s = s.replace("_", "")
    neg = s.startswith("-")
    if neg:
        s = s[1:]
    v = int(s, 16) if s.lower().startswith("0x") else int(s)
    return -v if neg else v

def source_literals(d):
    lits, attrs = set(), {}
    paths = [d] if d.endswith(".rs") else glob.glob(os.path.join(d, "**", "*.rs"), recursive=True)
    for path in paths:
        try:
            txt = open(path).read()
        except Exception:
            continue
        for m in LIT_RE.finditer(txt):
            try:
                lits.add(parse_lit(m.group(1)))
            except ValueError:
                pass
        a = {}
        for key in ("modulus", "generator", "small_subgroup_base", "small_subgroup_power"):
            m = re.search(r'#\[\s*' + key + r'\s*=\s*"([^"]+)"\s*\]', txt)
            if m:
                a[key] = parse_lit(m.group(1))
        if "modulus" in a:
            attrs[os.path.basename(path)] = a
    return lits, attrs

# values written in the dump that are *declared* in the sources (not macro-computed)
DECLARED = {
    "sw": ["a", "b", "gx", "gy", "cofactor_inv"], "te": ["a", "d", "gx", "gy", "cofactor_inv", "mont_a", "mont_b"],
    "glv": ["endo_coeffs", "lambda", "scalar_decomp_coeffs"], "swu": ["zeta"],
    "wb": ["x_map_numerator", "x_map_denominator", "y_map_numerator", "y_map_denominator"],
    "elligator2": ["z", "one_over_coeff_b_square", "coeff_a_over_coeff_b"],
    "bn": ["twist_mul_by_q_x", "twist_mul_by_q_y"], "mnt4": ["final_exponent_last_chunk_abs_of_w0"],
    "mnt6": ["final_exponent_last_chunk_abs_of_w0"],
    "cp6": ["final_exponent_last_chunk_abs_of_w0", "final_exponent_last_chunk_w1"],
    "fp2": ["nonresidue", "frobenius_c1"], "fp3": ["nonresidue", "frobenius_c1", "frobenius_c2", "quadratic_nonresidue_to_t"],
    "fp4": ["nonresidue", "frobenius_c1"], "fp6_2over3": ["nonresidue", "frobenius_c1"],
    "fp6_3over2": ["nonresidue", "frobenius_c1", "frobenius_c2"], "fp12": ["nonresidue", "frobenius_c1"],
}

def flat_ints(v):
    if isinstance(v, bool) or v is None:
        return []
    if isinstance(v, str):
        try:
            return [int(v)]
        except ValueError:
            return []
    if isinstance(v, list):
        r = []
        for x in v:
            r += flat_ints(x)
        return r
    return []

def literal_crosscheck(objs, repo):
    """returns (mismatches, stats).  A mismatch is either an attribute that differs from the dump,
    or a declared big constant of the dump that occurs nowhere as a literal in the crate's sources
    (nor in the sources of the other shipped crates, from which constants are re-exported)."""
    mism, stats = [], {"attr_checked": 0, "values_checked": 0, "values_small": 0}
    cache = {}
    def lits_of(crate):
        if crate not in cache:
            cache[crate] = source_literals(crate_src_dir(crate, repo))
        return cache[crate]
    crates = sorted({o["crate"] for o in objs})
    all_lits = set()
    for c in crates:
        all_lits |= lits_of(c)[0]
    moduli = {}
    for o in objs:
        if o["kind"] == "fp":
            moduli.setdefault(o["crate"], set()).add(int(o["modulus"]))
    for o in objs:
        lits, attrs = lits_of(o["crate"])
        if o["kind"] == "fp":
            fn = o["name"].lower() + ".rs"
            cand = attrs.get(fn)
            if cand is None and o["crate"] == "test_fp128":
                cand = attrs.get("fp128.rs")
            if cand is not None:
                stats["attr_checked"] += 1
                if cand["modulus"] != int(o["modulus"]):
                    mism.append({"crate": o["crate"], "name": o["name"], "what": "#[modulus]", "source": str(cand["modulus"]), "dump": o["modulus"]})
                g = cand.get("generator")
                if g is not None and g % int(o["modulus"]) != int(o["generator"]):
                    mism.append({"crate": o["crate"], "name": o["name"], "what": "#[generator]", "source": str(g), "dump": o["generator"]})
                b = cand.get("small_subgroup_base")
                if b is not None and (o["small_subgroup_base"] is None or b != int(o["small_subgroup_base"])):
                    mism.append({"crate": o["crate"], "name": o["name"], "what": "#[small_subgroup_base]", "source": str(b), "dump": o["small_subgroup_base"]})
            continue
        ps = moduli.get(o["crate"], set())
        for key in DECLARED.get(o["kind"], []):
            if key not in o:
                continue
            for v in flat_ints(o[key]):
                if v < 2 ** 32 or any(0 < p - v < 2 ** 32 for p in ps):
                    stats["values_small"] += 1
                    continue
                stats["values_checked"] += 1
                ok = v in all_lits or any((p - v) in all_lits or (v - p) in all_lits or (-(p - v)) in all_lits for p in ps)
                if not ok:
                    mism.append({"crate": o["crate"], "name": o["name"], "kind": o["kind"], "what": key,
                                 "dump": str(v), "source": "no such MontFp!/BigInt! literal found (computed constant?)"})
    return mism, stats


# --------------------------------------------------------------------------------------------
# notes: observations that are not theorems
# --------------------------------------------------------------------------------------------
def notes_for(objs):
    notes = []
    for o in objs:
        if o["kind"] == "fp":
            p, n = int(o["modulus"]), int(o["limbs"])
            doc = (p >> (64 * n - 2)) == 0 and p != 2 ** (64 * n - 2) - 1
            if o["can_use_no_carry_square_opt"] != doc:
                notes.append(f"{o['crate']}::{o['name']}: CAN_USE_NO_CARRY_SQUARE_OPT = {o['can_use_no_carry_square_opt']} but its "
                             f"doc comment (top two bits of the modulus clear) gives {doc}; the constant is initialised with the *mul* "
                             "predicate (only read by the `asm` feature, which is out of scope)")
        if o["kind"] in ("te", "elligator2"):
            pass
    return notes


# --------------------------------------------------------------------------------------------
# regenerate
# --------------------------------------------------------------------------------------------
def run_dump(harness_bin):
    p = subprocess.run([harness_bin], stdout=subprocess.PIPE, stderr=subprocess.PIPE, timeout=600)
    if p.returncode != 0:
        raise RuntimeError(f"constants dumper failed rc={p.returncode}: {p.stderr.decode()[-2000:]}")
    objs = []
    for ln in p.stdout.decode().splitlines():
        ln = ln.strip()
        if ln:
            objs.append(json.loads(ln))
    return objs


def regenerate(harness_bin, cfg, lean_dir, log=print):
    cfg = cfg if isinstance(cfg, dict) else {}
    repo = cfg.get("repo", "/repo")
    objs = run_dump(harness_bin)
    by_crate = {}
    for o in objs:
        by_crate.setdefault(o["crate"], []).append(o)
    index, modules, changed = {}, [], []
    per_crate_thms = {}
    gen_dir = os.path.join(lean_dir, "Ark", "Gen")
    for crate, lst in by_crate.items():
        mod = module_name(crate)
        rel = f"Ark/Gen/{mod}.lean"
        txt, thms = render_module(crate, lst, index, rel)
        if write_if_changed(os.path.join(lean_dir, rel), txt):
            changed.append(rel)
        modules.append(f"Ark.Gen.{mod}")
        per_crate_thms[crate] = (mod, thms)
    # stale generated modules (a crate disappeared) are removed
    keep = {m.split(".")[-1] + ".lean" for m in modules} | {"All.lean"}
    for fn in os.listdir(gen_dir):
        if fn.endswith(".lean") and fn not in keep:
            os.unlink(os.path.join(gen_dir, fn))
            changed.append(f"Ark/Gen/{fn} (removed)")
    all_txt = "/- GENERATED by tools/gen_consts.py. DO NOT EDIT. -/\n" + "".join(f"import {m}\n" for m in modules)
    if write_if_changed(os.path.join(gen_dir, "All.lean"), all_txt):
        changed.append("Ark/Gen/All.lean")
    # summary theorems + mathematical reading of the prime-field facts (via the hand-written meaning lemmas)
    s = ["/-\n  GENERATED by tools/gen_consts.py. DO NOT EDIT.\n"
         "  Property C16: every shipped field / curve / pairing configuration passes every checker of\n"
         "  `Ark.Cfg` (Ark/Model/Cfg.lean).  One theorem per crate: the conjunction of the kernel-checked\n"
         "  facts of Ark/Gen/<Crate>.lean.  What each checker means mathematically: Ark/Props/C16Meaning.lean;\n"
         "  the second part instantiates those meaning lemmas at every shipped prime field\n"
         "  (primality of the modulus is the hypothesis `[Fact (Nat.Prime _)]`).\n-/\n"
         "import Ark.Gen.All\nimport Ark.Props.C16Meaning\nnamespace Ark.Props.C16\nopen Ark.Cfg Ark.Gen\n\n"]
    for crate, (mod, thms) in per_crate_thms.items():
        s.append(f"/-- all {len(thms)} checks of `{crate}` -/\ntheorem {crate}_consistent :\n    "
                 + "\n    ∧ ".join(st for _, st in thms) + " :=\n  ⟨"
                 + ",\n   ".join(tn for tn, _ in thms) + "⟩\n\n")
    n_cor = 0
    for o in objs:
        if o["kind"] != "fp":
            continue
        dn = def_name(o)
        s.append(f"/-- `{o['crate']}::{o['name']}`: the generator is a quadratic non-residue -/\n"
                 f"theorem {dn}_generator_nonresidue [Fact (Nat.Prime {dn}.modulus)] :\n"
                 f"    ¬ IsSquare (({dn}.generator : ℕ) : ZMod {dn}.modulus) :=\n"
                 f"  C16Meaning.generator_is_nonresidue {dn} {dn}_modulus_shape {dn}_generator_qnr\n"
                 f"/-- `{o['crate']}::{o['name']}`: `TWO_ADIC_ROOT_OF_UNITY` is a primitive `2^s`-th root of unity -/\n"
                 f"theorem {dn}_two_adic_root_primitive [Fact (Nat.Prime {dn}.modulus)] :\n"
                 f"    IsPrimitiveRoot (({dn}.twoAdicRoot : ℕ) : ZMod {dn}.modulus) (2 ^ {dn}.twoAdicity) :=\n"
                 f"  (C16Meaning.two_adic_root_meaning {dn} {dn}_root_of_unity).2.2\n\n")
        n_cor += 2
    s.append("end Ark.Props.C16\n")
    if write_if_changed(os.path.join(lean_dir, "Ark", "Props", "C16.lean"), "".join(s)):
        changed.append("Ark/Props/C16.lean")
    mism, lstats = literal_crosscheck(objs, repo)
    kinds = {}
    for o in objs:
        kinds[o["kind"]] = kinds.get(o["kind"], 0) + 1
    chk_names = sorted({v["checker"] for v in index.values()})
    summary = {"configurations": len(objs), "crates": len(by_crate), "kinds": kinds, "checkers": len(chk_names),
               "theorems": len(index), "summary_theorems": len(per_crate_thms), "corollaries": n_cor, "files_changed": changed, "literal_crosscheck": lstats,
               "literal_mismatches": len(mism)}
    notes = notes_for(objs)
    log(f"[gen_consts] {len(objs)} configurations in {len(by_crate)} crates/modules, {len(chk_names)} checkers, "
        f"{len(index)} theorems; {len(changed)} files rewritten; literal cross-check: "
        f"{lstats['attr_checked']} attributes, {lstats['values_checked']} values, {len(mism)} unmatched")
    return {"modules": modules, "index": index, "summary": summary, "literal_mismatches": mism, "notes": notes,
            "objects": {def_name(o): o for o in objs}, "summary_module": "Ark.Props.C16",
            "harness_bin": harness_bin}


# --------------------------------------------------------------------------------------------
# explain_failure
# --------------------------------------------------------------------------------------------
def explain_failure(lake_output, info):
    """Maps failing generated theorems to (configuration, checker, constants).  Returns None when no
    generated theorem is implicated."""
    if not info:
        return None
    index = info["index"]
    by_loc = {}
    for tn, e in index.items():
        by_loc[(e["file"], e["line"])] = tn
    hits = []
    for m in re.finditer(r"error: (?:\./)?(?:\S*?/)?(Ark/Gen/\w+\.lean):(\d+):(\d+)", lake_output):
        f, ln = m.group(1), int(m.group(2))
        tn = by_loc.get((f, ln))
        if tn is None:  # the error may be reported inside a multi-line statement: nearest theorem above
            cands = [(l, t) for (ff, l), t in by_loc.items() if ff == f and l <= ln]
            if cands:
                tn = max(cands)[1]
        if tn and tn not in hits:
            hits.append(tn)
    for m in re.finditer(r"\b([A-Za-z0-9_]+)\b", lake_output):
        if m.group(1) in index and m.group(1) not in hits and re.search(r"error[^\n]*\n?[^\n]*" + re.escape(m.group(1)), lake_output):
            hits.append(m.group(1))
    if not hits:
        return None
    rust = rust_recheck(info.get("harness_bin"))
    fails = []
    for tn in hits:
        e = index[tn]
        rec_ = {"theorem": tn, "config": e["config"], "checker": e["checker"], "constants": e["constants"],
                "file": e["file"], "line": e["line"]}
        try:
            rec_["python_recheck"] = py_check(e["checker"], info["objects"][e["def"]])
        except Exception as ex:  # pragma: no cover
            rec_["python_recheck"] = f"not evaluated ({ex})"
        rr = rust.get((e["config"]["crate"], e["config"]["name"]))
        if rr is not None:
            rec_["rust_recheck"] = rr
        fails.append(rec_)
    out = dict(fails[0])
    out["failures"] = fails
    return out


def rust_recheck(harness_bin):
    """`c16 recheck`: field-level facts re-evaluated by the library's own arithmetic"""
    out = {}
    if not harness_bin or not os.path.exists(harness_bin):
        return out
    try:
        p = subprocess.run([harness_bin, "recheck"], stdout=subprocess.PIPE, stderr=subprocess.PIPE, timeout=300)
        for ln in p.stdout.decode().splitlines():
            if ln.strip():
                o = json.loads(ln)
                out[(o["crate"], o["name"])] = {k: v for k, v in o.items() if k not in ("crate", "name")}
    except Exception:
        pass
    return out


# --------------------------------------------------------------------------------------------
# independent Python re-evaluation of the cheap checkers (support for the report only)
# --------------------------------------------------------------------------------------------
def py_check(checker, o):
    I = int
    if checker == "checkGeneratorQNR":
        p, g = I(o["modulus"]), I(o["generator"])
        return {"holds": pow(g, (p - 1) // 2, p) == p - 1, "g^((p-1)/2) mod p": str(pow(g, (p - 1) // 2, p))}
    if checker == "checkRootOfUnity":
        p, g, s, t, w = I(o["modulus"]), I(o["generator"]), I(o["two_adicity"]), I(o["trace"]), I(o["two_adic_root_of_unity"])
        return {"holds": w == pow(g, t, p) and pow(w, 2 ** s, p) == 1 and (s == 0 or pow(w, 2 ** (s - 1), p) != 1),
                "root == g^t": w == pow(g, t, p), "root^(2^s)": str(pow(w, 2 ** s, p)),
                "root^(2^(s-1))": str(pow(w, 2 ** max(s - 1, 0), p))}
    if checker == "checkMontConsts":
        p, n = I(o["modulus"]), I(o["limbs"])
        return {"holds": I(o["mont_r_raw"]) == pow(2, 64 * n, p) and I(o["mont_r2_raw"]) == pow(2, 128 * n, p)
                and (I(o["mont_inv"]) * p + 1) % 2 ** 64 == 0 and I(o["one_raw"]) == I(o["mont_r_raw"])}
    if checker == "checkTwoAdicity":
        p, s, t = I(o["modulus"]), I(o["two_adicity"]), I(o["trace"])
        return {"holds": p - 1 == 2 ** s * t and t % 2 == 1 and I(o["trace_minus_one_div_two"]) == (t - 1) // 2}
    if checker in ("checkSwCofactorInv", "checkTeCofactorInv"):
        r, h, hi = I(o["r"]), I(o["cofactor"]), I(o["cofactor_inv"])
        return {"holds": h * hi % r == 1 % r, "h*h_inv mod r": str(h * hi % r)}
    if checker == "checkGlvLambda":
        r, l = I(o["r"]), I(o["lambda"])
        return {"holds": (l * l + l + 1) % r == 0}
    if checker == "checkFp3QnrToT":
        p = I(o["p"]); nr = I(o["nonresidue"][0]); s = I(o["two_adicity"]); z = [I(x) for x in o["quadratic_nonresidue_to_t"]]
        def mul(a, b):
            c = [0] * 5
            for i in range(3):
                for j in range(3):
                    c[i + j] += a[i] * b[j]
            return [(c[0] + nr * c[3]) % p, (c[1] + nr * c[4]) % p, c[2] % p]
        def pw(a, e):
            r_ = [1, 0, 0]
            while e:
                if e & 1:
                    r_ = mul(r_, a)
                a = mul(a, a); e >>= 1
            return r_
        return {"holds": pw(z, 2 ** s) == [1, 0, 0] and pw(z, 2 ** (s - 1)) != [1, 0, 0],
                "z^(2^s)": [str(x) for x in pw(z, 2 ** s)], "z^(2^(s-1))": [str(x) for x in pw(z, 2 ** (s - 1))]}
    if checker == "checkWbIsoIdentity":
        return py_wb_iso_identity(o)
    return "no Python mirror for this checker"


def py_wb_iso_identity(o):
    """(X^3 + a'X + b')·yNum^2·xDen^3 == yDen^2·(xNum^3 + a·xNum·xDen^2 + b·xDen^3) as polynomials over
    F_p or F_p[u]/(u^2 - nr); reports the first differing coefficient (degree, lhs, rhs)"""
    tw = o["tower"]
    if "p" in tw:
        p, nr, d = int(tw["p"]), None, 1
    elif tw.get("k") == 2 and "p" in tw["base"]:
        p, nr, d = int(tw["base"]["p"]), int(tw["nr"][0]), 2
    else:
        return "no Python mirror for this tower"
    E = lambda v: tuple(int(x) % p for x in v)
    zero, one = (0,) * d, (1,) + (0,) * (d - 1)
    add = lambda a, b: tuple((x + y) % p for x, y in zip(a, b))
    if d == 1:
        mul = lambda a, b: ((a[0] * b[0]) % p,)
    else:
        mul = lambda a, b: ((a[0] * b[0] + nr * a[1] * b[1]) % p, (a[0] * b[1] + a[1] * b[0]) % p)
    def padd(f, g):
        n = max(len(f), len(g))
        f, g = f + [zero] * (n - len(f)), g + [zero] * (n - len(g))
        return [add(x, y) for x, y in zip(f, g)]
    def pmul(f, g):
        if not f or not g:
            return []
        r = [zero] * (len(f) + len(g) - 1)
        for i, x in enumerate(f):
            for j, y in enumerate(g):
                r[i + j] = add(r[i + j], mul(x, y))
        return r
    def norm(f):
        f = list(f)
        while f and f[-1] == zero:
            f.pop()
        return f
    P = lambda k: [E(v) for v in o[k]]
    xn, xd, yn, yd = P("x_map_numerator"), P("x_map_denominator"), P("y_map_numerator"), P("y_map_denominator")
    a1, b1, a, b = E(o["iso"]["a"]), E(o["iso"]["b"]), E(o["a"]), E(o["b"])
    xd2 = pmul(xd, xd); xd3 = pmul(xd2, xd)
    lhs = norm(pmul(pmul([b1, a1, zero, one], pmul(yn, yn)), xd3))
    rhs = norm(pmul(pmul(yd, yd), padd(padd(pmul(xn, pmul(xn, xn)), pmul([a], pmul(xn, xd2))), pmul([b], xd3))))
    res = {"holds": lhs == rhs, "deg lhs": len(lhs) - 1, "deg rhs": len(rhs) - 1}
    for i in range(max(len(lhs), len(rhs))):
        l = lhs[i] if i < len(lhs) else zero
        r = rhs[i] if i < len(rhs) else zero
        if l != r:
            res["first differing coefficient"] = {"degree": i, "lhs": [str(x) for x in l], "rhs": [str(x) for x in r]}
            break
    return res


if __name__ == "__main__":
    hb = sys.argv[1] if len(sys.argv) > 1 else "/verif/harness2/target/release/c16"
    lean = sys.argv[2] if len(sys.argv) > 2 else "/verif/lean"
    inf = regenerate(hb, {}, lean)
    print(json.dumps(inf["summary"], indent=1))
    for m in inf["literal_mismatches"][:40]:
        print("LITERAL", json.dumps(m)[:300])
    for n in inf["notes"]:
        print("NOTE", n)
