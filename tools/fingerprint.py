#!/usr/bin/env python3
"""Source fingerprints of the anchored files of each property (comments and whitespace removed).
`python3 tools/fingerprint.py --update` rewrites tools/fingerprints.json from /repo's current tree
(done by hand after the models have been validated against that tree).  /verif/check compares the
current tree with the recorded fingerprints: when an anchored file of the property has changed, the
quick tier escalates its correspondence search to the thorough generator (adaptive effort) and says so
in the evidence.  A changed fingerprint alone is never reported as a violation."""
import glob, hashlib, json, os, re, sys
ROOT = os.path.dirname(os.path.dirname(os.path.abspath(__file__)))
FP = os.path.join(ROOT, "tools", "fingerprints.json")

def norm(src):
    src = re.sub(r"/\*.*?\*/", "", src, flags=re.S)
    src = re.sub(r"//[^\n]*", "", src)
    return re.sub(r"\s+", "", src)

def files_for(prop, repo):
    out = []
    for f in prop["anchors"]["files"]:
        path = os.path.join(repo, f)
        if any(ch in f for ch in "*?"):
            for g in sorted(glob.glob(path)):
                if os.path.isdir(g):
                    out += sorted(glob.glob(os.path.join(g, "**", "*.rs"), recursive=True))
                else:
                    out.append(g)
        elif os.path.isdir(path):
            out += sorted(glob.glob(os.path.join(path, "**", "*.rs"), recursive=True))
        elif os.path.exists(path):
            out.append(path)
    return out

def compute(repo="/repo"):
    res = {}
    for l in open(os.path.join(ROOT, "properties.jsonl")):
        p = json.loads(l)
        d = {}
        for f in files_for(p, repo):
            d[os.path.relpath(f, repo)] = hashlib.sha256(norm(open(f, errors="replace").read()).encode()).hexdigest()[:16]
        res[p["id"]] = d
    return res

def changed(pid, repo="/repo"):
    """list of anchored files of property `pid` whose normalised text differs from the recorded one"""
    if not os.path.exists(FP):
        return []
    rec = json.load(open(FP)).get(pid, {})
    cur = compute(repo).get(pid, {})
    return sorted(f for f in set(rec) | set(cur) if rec.get(f) != cur.get(f))

if __name__ == "__main__":
    if "--update" in sys.argv:
        json.dump(compute(), open(FP, "w"), indent=1, sort_keys=True)
        print("updated", FP)
    else:
        for pid in sys.argv[1:]:
            print(pid, changed(pid))
