import Ark.Model.Limbs
import Ark.Model.Proto
import Ark.Model.DrvC15
