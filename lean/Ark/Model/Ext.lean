import Ark.Model.Limbs
import Ark.Model.Fp
/-
  Ark.Model.Ext — C02: the extension-field templates of `ark-ff`
  (`ff/src/fields/models/{quadratic_extension,cubic_extension,fp2,fp3,fp4,fp6_2over3,
  fp6_3over2,fp12_2over3over2}.rs`, `ff/src/fields/cyclotomic.rs`), transcribed function by
  function: same branch structure (`extension_degree() == 2` → `sum_of_products`, else
  Karatsuba; `NONRESIDUE == -ONE` → complex squaring, else the general squaring), same order of
  operations, same overridable hooks.

  * `Quad F` / `Cubic F` are the structs `QuadExtField` / `CubicExtField` (`c0 c1 (c2)`), generic in
    the base `F`, which only carries the core operator classes.
  * What Rust obtains from the trait `Field` of the base field *beyond* the operators
    (`square`, `double`, `inverse`, `frobenius_map_in_place`, `mul_by_base_prime_field`,
    `extension_degree`, `sum_of_products`, the conversions from/to base-prime-field coordinates)
    is the explicit dictionary `FieldD P F` (`P` = the base prime field).
  * What Rust obtains from `QuadExtConfig` / `CubicExtConfig` (the constant `NONRESIDUE`, and the
    *overridable* hooks that multiply by it and by the Frobenius coefficients) is `QuadCfg F` /
    `CubicCfg F`.  The wrappers `Fp2ConfigWrapper`, `Fp4ConfigWrapper`, … are functions building
    these records; the hooks of Fp4 / Fp6(2over3) / Fp12 are coordinate rotations that do NOT
    read the constant `NONRESIDUE`.
  * Rust panics are explicit (`Ark.Outcome`): the `unwrap` in `CubicExtField::inverse`, the
    `assert!` in `CubicExtField::norm`, the slice index `FROBENIUS_COEFF[power % DEGREE]`.

  The multiplication of a layer depends on its configuration, so `Mul (Quad F)` is NOT a global
  instance: upper layers take `[Mul F]` as a parameter and the driver supplies
  `⟨Quad.mul cfg B⟩` locally, so that `Quad (Cubic (Quad (Fp p)))` = Fp12 executes.
-/
namespace Ark.Ext
open Ark

/-! ## plumbing -/

/-- sequencing of computations that may panic -/
def obind {α β : Type} : Outcome α → (α → Outcome β) → Outcome β
  | .ok a, f => f a
  | .panic, _ => .panic

/-- slice indexing `tbl[i]` (panics when out of bounds) -/
def index {α : Type} (tbl : List α) (i : Nat) : Outcome α :=
  match tbl[i]? with
  | some x => .ok x
  | none => .panic

/-- `QuadExtField<P>` -/
structure Quad (F : Type) where
  c0 : F
  c1 : F
  deriving DecidableEq, Repr

/-- `CubicExtField<P>` -/
structure Cubic (F : Type) where
  c0 : F
  c1 : F
  c2 : F
  deriving DecidableEq, Repr

/-- The methods of Rust's trait `Field` (beyond `+ - * neg 0 1 ==`) that the templates call on
    their base field; `P` is `BasePrimeField`. -/
structure FieldD (P F : Type) where
  /-- `Field::extension_degree()` -/
  extDeg : Nat
  /-- `square` / `square_in_place` -/
  square : F → F
  /-- `double` / `double_in_place` -/
  double : F → F
  /-- `inverse`: `None` ↦ `.ok none` -/
  inverse : F → Outcome (Option F)
  /-- `frobenius_map_in_place(power)` -/
  frob : F → Nat → Outcome F
  /-- `mul_by_base_prime_field` -/
  mulByPrime : F → P → F
  /-- `from_base_prime_field` -/
  ofPrime : P → F
  /-- `to_base_prime_field_elements` -/
  toPrimes : F → List P
  /-- `from_base_prime_field_elems` -/
  fromPrimes : List P → Option F
  /-- `sum_of_products::<2>(&[a0, a1], &[b0, b1])` -/
  sop2 : F → F → F → F → F

section templates
variable {P F : Type} [Add F] [Sub F] [Mul F] [Neg F] [Zero F] [One F] [DecidableEq F]

/-! ## configuration-independent operations (`AdditiveGroup`, `Zero`, `One`, `Neg`, `AddAssign`, `SubAssign`) -/

instance : Zero (Quad F) := ⟨⟨0, 0⟩⟩
instance : One (Quad F) := ⟨⟨1, 0⟩⟩
instance : Add (Quad F) := ⟨fun a b => ⟨a.c0 + b.c0, a.c1 + b.c1⟩⟩
instance : Sub (Quad F) := ⟨fun a b => ⟨a.c0 - b.c0, a.c1 - b.c1⟩⟩
instance : Neg (Quad F) := ⟨fun a => ⟨-a.c0, -a.c1⟩⟩

instance : Zero (Cubic F) := ⟨⟨0, 0, 0⟩⟩
instance : One (Cubic F) := ⟨⟨1, 0, 0⟩⟩
instance : Add (Cubic F) := ⟨fun a b => ⟨a.c0 + b.c0, a.c1 + b.c1, a.c2 + b.c2⟩⟩
instance : Sub (Cubic F) := ⟨fun a b => ⟨a.c0 - b.c0, a.c1 - b.c1, a.c2 - b.c2⟩⟩
instance : Neg (Cubic F) := ⟨fun a => ⟨-a.c0, -a.c1, -a.c2⟩⟩

/-! ## `QuadExtConfig` -/

/-- `QuadExtConfig`: the constant `NONRESIDUE` and the five overridable hooks.
    Hooks with signature `(y: &mut, x: &)` are modelled as `y x ↦ new y`. -/
structure QuadCfg (F : Type) where
  /-- `NONRESIDUE` -/
  nonresidue : F
  /-- `mul_base_field_by_nonresidue_in_place(fe)` -/
  mulNr : F → F
  /-- `mul_base_field_by_nonresidue_and_add(y, x)`: `y = x + NONRESIDUE * y` -/
  mulNrAndAdd : F → F → F
  /-- `mul_base_field_by_nonresidue_plus_one_and_add(y, x)`: `y = x + NONRESIDUE * y + y` -/
  mulNrPlusOneAndAdd : F → F → F
  /-- `sub_and_mul_base_field_by_nonresidue(y, x)`: `y = x - NONRESIDUE * y` -/
  subAndMulNr : F → F → F
  /-- `mul_base_field_by_frob_coeff(fe, power)` -/
  mulFrobCoeff : F → Nat → Outcome F

/-- the trait's *default* bodies of the derived hooks, in terms of
    `mul_base_field_by_nonresidue_in_place` (which a wrapper may override) -/
def QuadCfg.ofMulNr (nr : F) (mulNr : F → F) (mfc : F → Nat → Outcome F) : QuadCfg F where
  nonresidue := nr
  mulNr := mulNr
  mulNrAndAdd := fun y x => mulNr y + x
  mulNrPlusOneAndAdd := fun y x => (mulNr y + x) + y
  subAndMulNr := fun y x => x - mulNr y
  mulFrobCoeff := mfc

namespace Quad
variable (cfg : QuadCfg F) (B : FieldD P F)

/-- `MulAssign<&Self> for QuadExtField`: `self = a`, `other = b` -/
def mul (a b : Quad F) : Quad F :=
  if 2 * B.extDeg == 2 then
    -- `Self::extension_degree() == 2`: two `sum_of_products`
    let c1n := cfg.mulNr a.c1
    ⟨B.sop2 a.c0 c1n b.c0 b.c1, B.sop2 a.c0 a.c1 b.c1 b.c0⟩
  else
    -- Karatsuba
    let v0 := a.c0 * b.c0
    let v1 := a.c1 * b.c1
    let c1 := a.c1 + a.c0
    let c1 := c1 * (b.c0 + b.c1)
    let c1 := c1 - v0
    let c1 := c1 - v1
    ⟨cfg.mulNrAndAdd v1 v0, c1⟩

/-- `square_in_place` -/
def square (a : Quad F) : Quad F :=
  if cfg.nonresidue = -(1 : F) then
    let c0copy := a.c0
    let v0 := a.c0 - a.c1
    let c0 := a.c0 + a.c1
    let c0 := c0 * v0
    let c1 := B.double a.c1
    let c1 := c1 * c0copy
    ⟨c0, c1⟩
  else
    let v0 := a.c0 - a.c1
    let v3 := cfg.subAndMulNr a.c1 a.c0
    let v2 := a.c0 * a.c1
    let v0 := v0 * v3
    let c1 := B.double v2
    let c0 := cfg.mulNrPlusOneAndAdd v2 v0
    ⟨c0, c1⟩

/-- `norm` -/
def norm (a : Quad F) : F :=
  cfg.subAndMulNr (B.square a.c1) (B.square a.c0)

/-- `conjugate_in_place` -/
def conj (a : Quad F) : Quad F := ⟨a.c0, -a.c1⟩

/-- `inverse` -/
def inverse (a : Quad F) : Outcome (Option (Quad F)) :=
  if a.c0 = 0 ∧ a.c1 = 0 then .ok none
  else
    let v1 := B.square a.c1
    let v0 := cfg.subAndMulNr v1 (B.square a.c0)
    obind (B.inverse v0) fun
      | none => .ok none
      | some v1 => .ok (some ⟨a.c0 * v1, -(a.c1 * v1)⟩)

/-- `frobenius_map_in_place` -/
def frob (a : Quad F) (power : Nat) : Outcome (Quad F) :=
  obind (B.frob a.c0 power) fun c0 =>
  obind (B.frob a.c1 power) fun c1 =>
  obind (cfg.mulFrobCoeff c1 power) fun c1 =>
  .ok ⟨c0, c1⟩

/-- `mul_assign_by_basefield` -/
def mulByBase (a : Quad F) (e : F) : Quad F := ⟨a.c0 * e, a.c1 * e⟩

/-- `mul_by_base_prime_field` -/
def mulByPrime (a : Quad F) (e : P) : Quad F := ⟨B.mulByPrime a.c0 e, B.mulByPrime a.c1 e⟩

/-- `double_in_place` -/
def double (a : Quad F) : Quad F := ⟨B.double a.c0, B.double a.c1⟩

/-- `from_base_prime_field_elems` -/
def fromPrimes (l : List P) : Option (Quad F) :=
  let d := B.extDeg
  match B.fromPrimes (l.take d), B.fromPrimes ((l.drop d).take d) with
  | some a, some b => if (l.drop (2 * d)).isEmpty then some ⟨a, b⟩ else none
  | _, _ => none

/-- the `Field` dictionary of the quadratic extension (for the next layer up);
    `sum_of_products` is the trait's default loop `sum += a[i] * b[i]` -/
def fieldD : FieldD P (Quad F) where
  extDeg := 2 * B.extDeg
  square := square cfg B
  double := double B
  inverse := inverse cfg B
  frob := frob cfg B
  mulByPrime := mulByPrime B
  ofPrime := fun e => ⟨B.ofPrime e, 0⟩
  toPrimes := fun a => B.toPrimes a.c0 ++ B.toPrimes a.c1
  fromPrimes := fromPrimes B
  sop2 := fun a0 a1 b0 b1 => ((0 : Quad F) + mul cfg B a0 b0) + mul cfg B a1 b1

end Quad

/-! ## `CubicExtConfig` -/

/-- `CubicExtConfig`: `NONRESIDUE`, `mul_base_field_by_nonresidue_in_place`,
    `mul_base_field_by_frob_coeff(c1, c2, power)` -/
structure CubicCfg (F : Type) where
  nonresidue : F
  mulNr : F → F
  mulFrobCoeff : F → F → Nat → Outcome (F × F)

namespace Cubic
variable (cfg : CubicCfg F) (B : FieldD P F)

/-- `MulAssign<&Self> for CubicExtField` (Karatsuba): `self = s`, `other = o` -/
def mul (s o : Cubic F) : Cubic F :=
  let a := o.c0
  let b := o.c1
  let c := o.c2
  let d := s.c0
  let e := s.c1
  let f := s.c2
  let ad := d * a
  let be := e * b
  let cf := f * c
  let x := (e + f) * (b + c) - be - cf
  let y := (d + e) * (a + b) - ad - be
  let z := (d + f) * (a + c) - ad + be - cf
  ⟨ad + cfg.mulNr x, y + cfg.mulNr cf, z⟩

/-- `square_in_place` (CH-SQR2) -/
def square (x : Cubic F) : Cubic F :=
  let a := x.c0
  let b := x.c1
  let c := x.c2
  let s0 := B.square a
  let ab := a * b
  let s1 := B.double ab
  let s2 := B.square (a - b + c)
  let bc := b * c
  let s3 := B.double bc
  let s4 := B.square c
  ⟨cfg.mulNr s3 + s0, cfg.mulNr s4 + s1, s1 + s2 + s3 - s0 - s4⟩

/-- `inverse`; the `unwrap` of the base-field inverse is a panic site -/
def inverse (x : Cubic F) : Outcome (Option (Cubic F)) :=
  if x.c0 = 0 ∧ x.c1 = 0 ∧ x.c2 = 0 then .ok none
  else
    let t0 := B.square x.c0
    let t1 := B.square x.c1
    let t2 := B.square x.c2
    let t3 := x.c0 * x.c1
    let t4 := x.c0 * x.c2
    let t5 := x.c1 * x.c2
    let n5 := cfg.mulNr t5
    let s0 := t0 - n5
    let s1 := cfg.mulNr t2 - t3
    let s2 := t1 - t4
    let a1 := x.c2 * s1
    let a2 := x.c1 * s2
    let a3 := a1 + a2
    let a3 := cfg.mulNr a3
    obind (B.inverse (x.c0 * s0 + a3)) fun
      | none => .panic
      | some t6 => .ok (some ⟨t6 * s0, t6 * s1, t6 * s2⟩)

/-- `frobenius_map_in_place` -/
def frob (x : Cubic F) (power : Nat) : Outcome (Cubic F) :=
  obind (B.frob x.c0 power) fun c0 =>
  obind (B.frob x.c1 power) fun c1 =>
  obind (B.frob x.c2 power) fun c2 =>
  obind (cfg.mulFrobCoeff c1 c2 power) fun (c1, c2) =>
  .ok ⟨c0, c1, c2⟩

/-- `norm`; the `assert!` is a panic site -/
def norm (x : Cubic F) : Outcome F :=
  let im := B.extDeg
  obind (frob cfg B x im) fun sp =>
  obind (frob cfg B x (2 * im)) fun sp2 =>
  let r := mul cfg sp (mul cfg sp2 x)
  if r.c1 = 0 ∧ r.c2 = 0 then .ok r.c0 else .panic

/-- `mul_assign_by_base_field` -/
def mulByBase (x : Cubic F) (e : F) : Cubic F := ⟨x.c0 * e, x.c1 * e, x.c2 * e⟩

/-- `mul_by_base_prime_field` -/
def mulByPrime (x : Cubic F) (e : P) : Cubic F :=
  ⟨B.mulByPrime x.c0 e, B.mulByPrime x.c1 e, B.mulByPrime x.c2 e⟩

/-- `double_in_place` -/
def double (x : Cubic F) : Cubic F := ⟨B.double x.c0, B.double x.c1, B.double x.c2⟩

/-- `from_base_prime_field_elems` -/
def fromPrimes (l : List P) : Option (Cubic F) :=
  let d := B.extDeg
  match B.fromPrimes (l.take d), B.fromPrimes ((l.drop d).take d),
        B.fromPrimes ((l.drop (2 * d)).take d) with
  | some a, some b, some c => if (l.drop (3 * d)).isEmpty then some ⟨a, b, c⟩ else none
  | _, _, _ => none

/-- the `Field` dictionary of the cubic extension -/
def fieldD : FieldD P (Cubic F) where
  extDeg := 3 * B.extDeg
  square := square cfg B
  double := double B
  inverse := inverse cfg B
  frob := frob cfg B
  mulByPrime := mulByPrime B
  ofPrime := fun e => ⟨B.ofPrime e, 0, 0⟩
  toPrimes := fun a => B.toPrimes a.c0 ++ B.toPrimes a.c1 ++ B.toPrimes a.c2
  fromPrimes := fromPrimes B
  sop2 := fun a0 a1 b0 b1 => ((0 : Cubic F) + mul cfg a0 b0) + mul cfg a1 b1

end Cubic

/-! ## `Fp2Config` and `Fp2ConfigWrapper` (fp2.rs) -/

/-- `Fp2Config`: constants and the four hooks a curve may override -/
structure Fp2Cfg (F : Type) where
  nonresidue : F
  frobC1 : List F
  /-- `mul_fp_by_nonresidue_in_place` -/
  mulNr : F → F
  /-- `mul_fp_by_nonresidue_and_add(y, x)` -/
  mulNrAndAdd : F → F → F
  /-- `mul_fp_by_nonresidue_plus_one_and_add(y, x)` -/
  mulNrPlusOneAndAdd : F → F → F
  /-- `sub_and_mul_fp_by_nonresidue(y, x)` -/
  subAndMulNr : F → F → F

/-- the default bodies of `Fp2Config` -/
def Fp2Cfg.default (nr : F) (tbl : List F) : Fp2Cfg F where
  nonresidue := nr
  frobC1 := tbl
  mulNr := fun fe => fe * nr
  mulNrAndAdd := fun y x => y * nr + x
  mulNrPlusOneAndAdd := fun y x => (y * nr + x) + y
  subAndMulNr := fun y x => x - y * nr

/-- the overrides of `test-curves/src/bls12_381/fq2.rs` (written for `NONRESIDUE = -1`) -/
def Fp2Cfg.negOne (nr : F) (tbl : List F) : Fp2Cfg F where
  nonresidue := nr
  frobC1 := tbl
  mulNr := fun fe => -fe
  mulNrAndAdd := fun y x => -y + x
  mulNrPlusOneAndAdd := fun _ x => x
  subAndMulNr := fun y x => y + x

/-- `Fp2ConfigWrapper`: `DEGREE_OVER_BASE_PRIME_FIELD = 2`; the Frobenius hook is
    `*fe *= &FROBENIUS_COEFF_C1[power % 2]` -/
def Fp2Cfg.wrap (c : Fp2Cfg F) : QuadCfg F where
  nonresidue := c.nonresidue
  mulNr := c.mulNr
  mulNrAndAdd := c.mulNrAndAdd
  mulNrPlusOneAndAdd := c.mulNrPlusOneAndAdd
  subAndMulNr := c.subAndMulNr
  mulFrobCoeff := fun fe power => obind (index c.frobC1 (power % 2)) fun k => .ok (fe * k)

/-- `Fp2::mul_assign_by_fp` -/
def Fp2.mulAssignByFp (a : Quad F) (e : F) : Quad F := ⟨a.c0 * e, a.c1 * e⟩

/-! ## `Fp3Config` and `Fp3ConfigWrapper` (fp3.rs) -/

structure Fp3Cfg (F : Type) where
  nonresidue : F
  frobC1 : List F
  frobC2 : List F
  /-- `mul_fp_by_nonresidue_in_place` -/
  mulNr : F → F

def Fp3Cfg.default (nr : F) (c1 c2 : List F) : Fp3Cfg F where
  nonresidue := nr
  frobC1 := c1
  frobC2 := c2
  mulNr := fun fe => fe * nr

/-- `Fp3ConfigWrapper`: `DEGREE_OVER_BASE_PRIME_FIELD = 3` -/
def Fp3Cfg.wrap (c : Fp3Cfg F) : CubicCfg F where
  nonresidue := c.nonresidue
  mulNr := c.mulNr
  mulFrobCoeff := fun c1 c2 power =>
    obind (index c.frobC1 (power % 3)) fun k1 =>
    obind (index c.frobC2 (power % 3)) fun k2 => .ok (c1 * k1, c2 * k2)

/-- `Fp3::mul_assign_by_fp` -/
def Fp3.mulAssignByFp (a : Cubic F) (e : F) : Cubic F := ⟨a.c0 * e, a.c1 * e, a.c2 * e⟩

/-! ## `Fp4Config` and `Fp4ConfigWrapper` (fp4.rs) -/

/-- default `Fp4Config::mul_fp2_by_nonresidue_in_place`: `(c0, c1) ↦ (β₂·c1, c0)` using the hook of
    the `Fp2Config`; the constant `Fp4Config::NONRESIDUE` is not read -/
def Fp4.mulFp2ByNr (c2 : Fp2Cfg F) (fe : Quad F) : Quad F :=
  let newC1 := fe.c0
  ⟨c2.mulNr fe.c1, newC1⟩

/-- `Fp4ConfigWrapper`: only `mul_base_field_by_nonresidue_in_place` is overridden, the other hooks
    are the defaults of `QuadExtConfig`; `DEGREE_OVER_BASE_PRIME_FIELD = 4`; the Frobenius hook is
    `fe.mul_assign_by_fp(&FROBENIUS_COEFF_C1[power % 4])` -/
def Fp4.cfg (c2 : Fp2Cfg F) (nr : Quad F) (tbl : List F) : QuadCfg (Quad F) :=
  QuadCfg.ofMulNr nr (Fp4.mulFp2ByNr c2)
    (fun fe power => obind (index tbl (power % 4)) fun k => .ok (Fp2.mulAssignByFp fe k))

/-- `Fp4::mul_by_fp` -/
def Fp4.mulByFp (a : Quad (Quad F)) (e : F) : Quad (Quad F) :=
  ⟨Fp2.mulAssignByFp a.c0 e, Fp2.mulAssignByFp a.c1 e⟩

/-- `Fp4::mul_by_fp2` (`*=` of Fp2) -/
def Fp4.mulByFp2 [Mul (Quad F)] (a : Quad (Quad F)) (e : Quad F) : Quad (Quad F) :=
  ⟨a.c0 * e, a.c1 * e⟩

/-! ## `fp6_2over3.rs` -/

/-- default `Fp6Config::mul_fp3_by_nonresidue_in_place` (2-over-3): `(c0,c1,c2) ↦ (β₃·c2, c0, c1)` -/
def Fp6a.mulFp3ByNr (c3 : Fp3Cfg F) (fe : Cubic F) : Cubic F :=
  let oldC1 := fe.c1
  ⟨c3.mulNr fe.c2, fe.c0, oldC1⟩

/-- `Fp6ConfigWrapper` (2-over-3): `DEGREE_OVER_BASE_PRIME_FIELD = 6`, Frobenius hook
    `fe.mul_assign_by_fp(&FROBENIUS_COEFF_C1[power % 6])` -/
def Fp6a.cfg (c3 : Fp3Cfg F) (nr : Cubic F) (tbl : List F) : QuadCfg (Cubic F) :=
  QuadCfg.ofMulNr nr (Fp6a.mulFp3ByNr c3)
    (fun fe power => obind (index tbl (power % 6)) fun k => .ok (Fp3.mulAssignByFp fe k))

/-- `Fp6::mul_by_034` (2-over-3); uses the constant `Fp3Config::NONRESIDUE` -/
def Fp6a.mulBy034 (nr3 : F) (s : Quad (Cubic F)) (x0 x3 x4 : F) : Quad (Cubic F) :=
  let z0 := s.c0.c0
  let z1 := s.c0.c1
  let z2 := s.c0.c2
  let z3 := s.c1.c0
  let z4 := s.c1.c1
  let z5 := s.c1.c2
  let tmp1 := x3 * nr3
  let tmp2 := x4 * nr3
  ⟨⟨x0 * z0 + (tmp1 * z5) + (tmp2 * z4),
    x0 * z1 + (x3 * z3) + (tmp2 * z5),
    x0 * z2 + (x3 * z4) + (x4 * z3)⟩,
   ⟨x0 * z3 + (x3 * z0) + (tmp2 * z2),
    x0 * z4 + (x3 * z1) + (x4 * z0),
    x0 * z5 + (x3 * z2) + (x4 * z1)⟩⟩

/-- `Fp6::mul_by_014` (2-over-3) -/
def Fp6a.mulBy014 (nr3 : F) (s : Quad (Cubic F)) (x0 x1 x4 : F) : Quad (Cubic F) :=
  let z0 := s.c0.c0
  let z1 := s.c0.c1
  let z2 := s.c0.c2
  let z3 := s.c1.c0
  let z4 := s.c1.c1
  let z5 := s.c1.c2
  let tmp1 := x1 * nr3
  let tmp2 := x4 * nr3
  ⟨⟨x0 * z0 + (tmp1 * z2) + (tmp2 * z4),
    x0 * z1 + (x1 * z0) + (tmp2 * z5),
    x0 * z2 + (x1 * z1) + (x4 * z3)⟩,
   ⟨x0 * z3 + (tmp1 * z5) + (tmp2 * z2),
    x0 * z4 + (x1 * z3) + (x4 * z0),
    x0 * z5 + (x1 * z4) + (x4 * z1)⟩⟩

/-- `Fp6::mul_by_fp` (3-over-2): `mul_assign_by_fp` on each Fp2 coordinate -/
def Fp6b.mulByFp (a : Cubic (Quad F)) (e : F) : Cubic (Quad F) :=
  ⟨Fp2.mulAssignByFp a.c0 e, Fp2.mulAssignByFp a.c1 e, Fp2.mulAssignByFp a.c2 e⟩

/-- `Fp12::mul_by_fp`: `Fp6::mul_by_fp` on both halves -/
def Fp12.mulByFp (a : Quad (Cubic (Quad F))) (e : F) : Quad (Cubic (Quad F)) :=
  ⟨Fp6b.mulByFp a.c0 e, Fp6b.mulByFp a.c1 e⟩

end templates

/-! ## `fp6_3over2.rs`  (`G` = the Fp2 type, carrying its multiplication as `[Mul G]`) -/
section fp6b
variable {F G : Type} [Add G] [Sub G] [Mul G] [Neg G] [Zero G] [One G] [DecidableEq G]

/-- `Fp6Config` (3-over-2): constants and the hook `mul_fp2_by_nonresidue_in_place` -/
structure Fp6bCfg (G : Type) where
  nonresidue : G
  frobC1 : List G
  frobC2 : List G
  mulNr : G → G

/-- default hook: `*fe *= &Self::NONRESIDUE` -/
def Fp6bCfg.default (nr : G) (c1 c2 : List G) : Fp6bCfg G where
  nonresidue := nr
  frobC1 := c1
  frobC2 := c2
  mulNr := fun fe => fe * nr

/-- `Fp6ConfigWrapper` (3-over-2): `DEGREE_OVER_BASE_PRIME_FIELD = 6` -/
def Fp6bCfg.wrap (c : Fp6bCfg G) : CubicCfg G where
  nonresidue := c.nonresidue
  mulNr := c.mulNr
  mulFrobCoeff := fun c1 c2 power =>
    obind (index c.frobC1 (power % 6)) fun k1 =>
    obind (index c.frobC2 (power % 6)) fun k2 => .ok (c1 * k1, c2 * k2)

/-- `Fp6::mul_assign_by_fp2` and `Fp6::mul_by_fp2` (same body) -/
def Fp6b.mulByFp2 (a : Cubic G) (e : G) : Cubic G := ⟨a.c0 * e, a.c1 * e, a.c2 * e⟩

/-- `Fp6::mul_by_1` -/
def Fp6b.mulBy1 (c : Fp6bCfg G) (s : Cubic G) (c1 : G) : Cubic G :=
  let bb := s.c1 * c1
  let t1 :=
    let tmp := s.c1 + s.c2
    let t1 := c1 * tmp
    let t1 := t1 - bb
    c.mulNr t1
  let t2 :=
    let tmp := s.c0 + s.c1
    let t2 := c1 * tmp
    t2 - bb
  ⟨t1, t2, bb⟩

/-- `Fp6::mul_by_01` -/
def Fp6b.mulBy01 (c : Fp6bCfg G) (s : Cubic G) (c0 c1 : G) : Cubic G :=
  let aa := s.c0 * c0
  let bb := s.c1 * c1
  let t1 :=
    let tmp := s.c1 + s.c2
    let t1 := c1 * tmp
    let t1 := t1 - bb
    let t1 := c.mulNr t1
    t1 + aa
  let t3 :=
    let tmp := s.c0 + s.c2
    let t3 := c0 * tmp
    let t3 := t3 - aa
    t3 + bb
  let t2 :=
    let t2 := c0 + c1
    let tmp := s.c0 + s.c1
    let t2 := t2 * tmp
    let t2 := t2 - aa
    t2 - bb
  ⟨t1, t2, t3⟩

end fp6b

/-! ## `fp12_2over3over2.rs` -/
section fp12
variable {G : Type} [Add G] [Sub G] [Mul G] [Neg G] [Zero G] [One G] [DecidableEq G]

/-- default `Fp12Config::mul_fp6_by_nonresidue_in_place`: `(c0,c1,c2) ↦ (ξ·c2, c0, c1)` using the hook
    of the `Fp6Config`; the constant `Fp12Config::NONRESIDUE` is not read -/
def Fp12.mulFp6ByNr (c6 : Fp6bCfg G) (fe : Cubic G) : Cubic G :=
  let oldC1 := fe.c1
  ⟨c6.mulNr fe.c2, fe.c0, oldC1⟩

/-- `Fp12ConfigWrapper`: `DEGREE_OVER_BASE_PRIME_FIELD = 12`, Frobenius hook
    `fe.mul_assign_by_fp2(FROBENIUS_COEFF_C1[power % 12])` -/
def Fp12.cfg (c6 : Fp6bCfg G) (nr : Cubic G) (tbl : List G) : QuadCfg (Cubic G) :=
  QuadCfg.ofMulNr nr (Fp12.mulFp6ByNr c6)
    (fun fe power => obind (index tbl (power % 12)) fun k => .ok (Fp6b.mulByFp2 fe k))

/-- `Fp12::mul_by_034` -/
def Fp12.mulBy034 (c6 : Fp6bCfg G) (s : Quad (Cubic G)) (c0 c3 c4 : G) : Quad (Cubic G) :=
  let a0 := s.c0.c0 * c0
  let a1 := s.c0.c1 * c0
  let a2 := s.c0.c2 * c0
  let a : Cubic G := ⟨a0, a1, a2⟩
  let b := Fp6b.mulBy01 c6 s.c1 c3 c4
  let c0' := c0 + c3
  let c1' := c4
  let e := s.c0 + s.c1
  let e := Fp6b.mulBy01 c6 e c0' c1'
  let newC1 := e - (a + b)
  let newC0 := Fp12.mulFp6ByNr c6 b
  ⟨newC0 + a, newC1⟩

/-- `Fp12::mul_by_014` -/
def Fp12.mulBy014 (c6 : Fp6bCfg G) (s : Quad (Cubic G)) (c0 c1 c4 : G) : Quad (Cubic G) :=
  let aa := Fp6b.mulBy01 c6 s.c0 c0 c1
  let bb := Fp6b.mulBy1 c6 s.c1 c4
  let o := c1 + c4
  let sc1 := s.c1 + s.c0
  let sc1 := Fp6b.mulBy01 c6 sc1 c0 o
  let sc1 := sc1 - aa
  let sc1 := sc1 - bb
  let sc0 := Fp12.mulFp6ByNr c6 bb
  ⟨sc0 + aa, sc1⟩

/-- `characteristic_square_mod_6_is_one` on the little-endian limbs of the characteristic -/
def charSquareMod6IsOne (limbs : List Nat) : Bool :=
  let rec go : List Nat → Nat → Nat → Nat
    | [], _, acc => acc
    | l :: ls, i, acc => go ls (i + 1) (acc + (if i = 0 then l % 6 else (4 * (l % 6)) % 6))
  let c := go limbs 0 0
  (c * c) % 6 == 1

/-- `Fp12::cyclotomic_square_in_place` (Granger–Scott when `p² ≡ 1 (mod 6)`, else `square_in_place`);
    `dbl` is `Fp2::double`, `sq` is `Fp12::square_in_place` -/
def Fp12.cycSquare (c6 : Fp6bCfg G) (dbl : G → G) (sq : Quad (Cubic G) → Quad (Cubic G))
    (charLimbs : List Nat) (s : Quad (Cubic G)) : Quad (Cubic G) :=
  if charSquareMod6IsOne charLimbs then
    let nr := c6.mulNr
    let r0 := s.c0.c0
    let r4 := s.c0.c1
    let r3 := s.c0.c2
    let r2 := s.c1.c0
    let r1 := s.c1.c1
    let r5 := s.c1.c2
    let tmp := r0 * r1
    let t0 := (r0 + r1) * (nr r1 + r0) - tmp - nr tmp
    let t1 := dbl tmp
    let tmp := r2 * r3
    let t2 := (r2 + r3) * (nr r3 + r2) - tmp - nr tmp
    let t3 := dbl tmp
    let tmp := r4 * r5
    let t4 := (r4 + r5) * (nr r5 + r4) - tmp - nr tmp
    let t5 := dbl tmp
    -- z0 = 3 t0 - 2 z0
    let z0 := dbl (t0 - r0) + t0
    -- z1 = 3 t1 + 2 z1
    let z1 := dbl (t1 + r1) + t1
    -- z2 = 3 ξ t5 + 2 z2
    let tmp := nr t5
    let z2 := dbl (r2 + tmp) + tmp
    -- z3 = 3 t4 - 2 z3
    let z3 := dbl (t4 - r3) + t4
    -- z4 = 3 t2 - 2 z4
    let z4 := dbl (t2 - r4) + t2
    -- z5 = 3 t3 + 2 z5
    let z5 := dbl (r5 + t3) + t3
    ⟨⟨z0, z4, z3⟩, ⟨z2, z1, z5⟩⟩
  else sq s

end fp12

/-! ## `cyclotomic.rs` -/
section cyclotomic
variable {E : Type} [Mul E] [Zero E] [One E] [DecidableEq E]

/-- `CyclotomicMultSubgroup`: the associated constant and the two overridable methods -/
structure CycD (E : Type) where
  inverseIsFast : Bool
  /-- `cyclotomic_square_in_place` -/
  cycSquare : E → E
  /-- `cyclotomic_inverse_in_place` -/
  cycInverse : E → Outcome (Option E)

/-- the trait defaults: generic square and inverse, `INVERSE_IS_FAST = false` -/
def CycD.default {P : Type} (D : FieldD P E) : CycD E where
  inverseIsFast := false
  cycSquare := D.square
  cycInverse := D.inverse

/-- the quadratic-extension impls (Fp2, Fp4, Fp6 2-over-3, Fp12 without its squaring):
    `self.is_zero().not().then(|| conjugate)`, `INVERSE_IS_FAST = true` -/
def CycD.conj {P F : Type} [Neg F] [Zero F] [DecidableEq F] (D : FieldD P (Quad F))
    (cycSq : Option (Quad F → Quad F)) : CycD (Quad F) where
  inverseIsFast := true
  cycSquare := match cycSq with
    | some f => f
    | none => D.square
  cycInverse := fun a => if a.c0 = 0 ∧ a.c1 = 0 then .ok none else .ok (some (Quad.conj a))

/-- the loop of `exp_loop` over the digit iterator; state `(res, found_nonzero)` -/
def expLoopGo (C : CycD E) (f selfInv : E) : List Int → E → Bool → E
  | [], res, _ => res
  | v :: vs, res, found =>
    let res := if found then C.cycSquare res else res
    if v != 0 then
      let res := if v > 0 then res * f else if C.inverseIsFast then res * selfInv else res
      expLoopGo C f selfInv vs res true
    else expLoopGo C f selfInv vs res found

/-- `exp_loop(f, e)`; the `unwrap` of `cyclotomic_inverse` is a panic site -/
def expLoop (C : CycD E) (f : E) (digits : List Int) : Outcome E :=
  let inv : Outcome E :=
    if C.inverseIsFast then
      obind (C.cycInverse f) fun
        | some i => .ok i
        | none => .panic
    else .ok 1
  obind inv fun selfInv => .ok (expLoopGo C f selfInv digits 1 false)

/-- `cyclotomic_exp_in_place(e)`: NAF digits (most significant first) when inverses are fast,
    else the bits of `e` without leading zeros -/
def cycExp (C : CycD E) (a : E) (e : List Nat) : Outcome E :=
  if a = 0 then .ok a
  else if C.inverseIsFast then expLoop C a (findNaf e).reverse
  else expLoop C a (((toBitsBE e).dropWhile (· == false)).map (fun b => if b then (1 : Int) else 0))

end cyclotomic

/-! ## the prime field as a `Field` (`models/fp/mod.rs`): the value-level semantics proved in C01 -/

def fpD (p : Nat) : FieldD (Fp p) (Fp p) where
  extDeg := 1
  square := fun a => a * a
  double := fun a => a + a
  inverse := fun a => .ok (if a = 0 then none else some a⁻¹)
  frob := fun a _ => .ok a
  mulByPrime := fun a e => a * e
  ofPrime := fun e => e
  toPrimes := fun a => [a]
  fromPrimes := fun l => match l with
    | [x] => some x
    | _ => none
  sop2 := fun a0 a1 b0 b1 => a0 * b0 + a1 * b1

end Ark.Ext
