/-
  Ark.Model.FieldOps — algorithms of `ff/src/fields/mod.rs` that are generic in the field
  (`pow`, `serial_batch_inversion_and_mul`, …), written over an explicit record of
  operations so that they can be executed at any modelled field (prime fields with a
  run-time `MontCfg`, extension towers) and proved once over an abstract field.
-/
namespace Ark

structure Ops (F : Type) where
  zero : F
  one : F
  add : F → F → F
  sub : F → F → F
  mul : F → F → F
  neg : F → F
  square : F → F
  double : F → F
  inv : F → Option F
  isZero : F → Bool

namespace Ops
variable {F : Type} (o : Ops F)

/-- `Field::pow`: square-and-multiply over `BitIteratorBE::without_leading_zeros(exp)`;
    `bits` is the full big-endian bit list of the exponent limbs -/
def pow (a : F) (bitsBE : List Bool) : F :=
  (bitsBE.dropWhile (· == false)).foldl (fun res bit => let s := o.square res; if bit then o.mul s a else s) o.one

/-- first pass of `serial_batch_inversion_and_mul`: running products of the non-zero entries -/
def prefixProds : List F → F → List F
  | [], _ => []
  | f :: fs, tmp => if o.isZero f then prefixProds fs tmp else let t := o.mul tmp f; t :: prefixProds fs t

/-- second pass, over the reversed vector and the reversed-shifted products;
    returns the new entries in reversed order -/
def batchBack : List F → List F → F → List F
  | [], _, _ => []
  | f :: fs, ss, tmp =>
    if o.isZero f then f :: batchBack fs ss tmp
    else match ss with
      | s :: ss' => o.mul tmp s :: batchBack fs ss' (o.mul tmp f)
      | [] => f :: batchBack fs [] tmp     -- unreachable: zip would stop; entries stay untouched

/-- `serial_batch_inversion_and_mul(v, coeff)`; `none` models the `unwrap` panic (unreachable) -/
def batchInvMul (v : List F) (coeff : F) : Option (List F) :=
  let prod := o.prefixProds v o.one
  let tmp0 := prod.getLast?.getD o.one
  match o.inv tmp0 with
  | none => none
  | some ti =>
    let tmp := o.mul ti coeff
    let ss := (prod.reverse.drop 1) ++ [o.one]
    some (o.batchBack v.reverse ss tmp).reverse

end Ops
end Ark
