import Ark.Model.ScalarMul
import Ark.Model.AffGroup
import Ark.Model.Proto
/-
  Driver dispatch for C04 (scalar multiplication).  All numbers hex; points `x:y` | `inf`
  (twisted Edwards: always `x:y`, the identity is `0:1`); lists comma separated, `_` = empty.

    C04 <op> <kind> <p> <a> <b|d> args…         kind = sw (y² = x³+ax+b) | te (ax²+y² = 1+dx²y²)

    dbladd.aff   P limbs            sw_double_and_add_affine / TECurveConfig::mul_affine        (raw &[u64], any length)
    dbladd.proj  P limbs            sw_double_and_add_projective / TECurveConfig::mul_projective
    mulbigint.aff  P limbs          AffineRepr::mul_bigint
    mulbigint.proj P limbs ovr      PrimeGroup::mul_bigint of Projective;  ovr = d | <glv>  (how the config implements mul_projective)
    mulscalar.aff  P N k            Affine * Fr
    mulscalar.proj P N k ovr        Projective * Fr
    mulbits  P bits                 PrimeGroup::mul_bits_be
    wnaf.mul   P N k w              WnafContext::new(w).mul(P, k)
    wnaf.table P w                  WnafContext::new(w).table(P)
    wnaf.mwt   P N k w table        WnafContext::new(w).mul_with_table(table, k)      → point | none | panic
    glv.decomp glv k                GLVConfig::scalar_decomposition(k)                → s1 k1 s2 k2
    glv.proj / glv.aff  P k glv     glv_mul_projective / glv_mul_affine
    batch.table P ns ss             BatchMulPreprocessing::with_num_scalars_and_scalar_size → window row;row;…
    batch.mul   P N rbits ns ss ks  ….batch_mul(ks)                                   → comma list of points | panic
    batch.new   P N rbits ns ks     BatchMulPreprocessing::new(P, ns).batch_mul(ks)
    batch.smul  P N rbits ks        ScalarMul::batch_mul(P, ks)

    <glv> = N:r:λ:β:n11:n12:n21:n22 (signed), β = ENDO_COEFFS[0] (φ(x,y) = (βx, y))

  model output = what `Ark.ScalarMul` computes (plus ` @tag`);
  verdict      = the property applied to the implementation's output: the result is `k•P` by the reference
                 scalar multiplication of the specification-level affine group (`AffPt.smul` / `TEPt.smul`),
                 for the *integer* `k` given (raw limbs are not reduced); GLV halves: `k1 + λ·k2 ≡ k (mod r)`
                 and both small; `mul_with_table = none` exactly when `2^(w-1) > table.len()`.
-/
namespace Ark.DrvC04
open Ark Ark.Proto Ark.ScalarMul

def vs (impl spec : String) : String := if impl == spec then "ok" else "bad:want=" ++ spec

/-- how to read / print / specify in one concrete group -/
structure GIO (G : Type) where
  parse : String → Option G
  str : G → String
  smul : Nat → G → G
  endo : Nat → G → G

section SW
variable {p : Nat} {E : SWParams p}
def swStr (P : AffPt p E) : String :=
  match P.pt with
  | none => "inf"
  | some (x, y) => hex x.val ++ ":" ++ hex y.val
def swParse (s : String) : Option (AffPt p E) :=
  if s == "inf" then some ⟨none⟩
  else match s.splitOn ":" with
    | [x, y] => do let x ← parseHex? x; let y ← parseHex? y; some ⟨some (Fp.ofNat p x, Fp.ofNat p y)⟩
    | _ => none
def swEndo (beta : Nat) (P : AffPt p E) : AffPt p E :=
  match P.pt with
  | none => P
  | some (x, y) => ⟨some (x * Fp.ofNat p beta, y)⟩
def swIO (p : Nat) (E : SWParams p) : GIO (AffPt p E) :=
  { parse := swParse, str := swStr, smul := AffPt.smul, endo := swEndo }
end SW

section TE
variable {p : Nat} {E : TEParams p}
def teStr (P : TEPt p E) : String := hex P.x.val ++ ":" ++ hex P.y.val
def teParse (s : String) : Option (TEPt p E) :=
  match s.splitOn ":" with
  | [x, y] => do let x ← parseHex? x; let y ← parseHex? y; some ⟨Fp.ofNat p x, Fp.ofNat p y⟩
  | _ => none
def teIO (p : Nat) (E : TEParams p) : GIO (TEPt p E) :=
  { parse := teParse, str := teStr, smul := TEPt.smul, endo := fun _ P => P }
end TE

/-- `N:r:λ:β:n11:n12:n21:n22` -/
def parseGlv (s : String) : Option (GlvCfg × Nat) :=
  match s.splitOn ":" with
  | [n, r, l, b, a11, a12, a21, a22] => do
    let n ← parseHex? n; let r ← parseHex? r; let l ← parseHex? l; let b ← parseHex? b
    let a11 ← parseInt? a11; let a12 ← parseInt? a12; let a21 ← parseInt? a21; let a22 ← parseInt? a22
    some ({ nLimbs := n, r := r, lambda := l, n11 := a11, n12 := a12, n21 := a21, n22 := a22 }, b)
  | _ => none

def parseOvr (s : String) : Option (MulProjImpl × Nat) :=
  if s == "d" then some (.default, 0)
  else (parseGlv s).map (fun (c, b) => (.glv c, b))

def b01 (b : Bool) : String := if b then "1" else "0"

/-- branch tag of a double-and-add call: shape of the bit stream -/
def bitsTag (bits : List Bool) : String :=
  match bits with
  | [] => "nobits"
  | b :: _ => if b then "topbit" else if (skipLeadingZeros bits).isEmpty then "allzero" else "lz"

/-- which way the `skip_zeros` flag of the joint ladder goes -/
def glvTag (c : GlvCfg) (k : Nat) : String :=
  let ((_, k1), (_, k2)) := scalarDecomposition c k
  let prs := (bitsBE (toLimbs c.nLimbs k1)).zip (bitsBE (toLimbs c.nLimbs k2))
  match prs with
  | [] => "nopairs"
  | (x, y) :: rest =>
    if !x && !y then "skip-first"
    else if rest.any (fun (x, y) => !x && !y) then "skip-mid" else "no-skip"

section G
variable {G : Type} [Add G] [Neg G] [Sub G] [Zero G] [DecidableEq G]

def sO (io : GIO G) : Outcome G → String
  | .ok P => io.str P
  | .panic => "panic"

def sList (io : GIO G) (l : List G) : String :=
  if l.isEmpty then "_" else joinWith "," (l.map io.str)

def sOL (io : GIO G) : Outcome (List G) → String
  | .ok l => sList io l
  | .panic => "panic"

def pList (io : GIO G) (s : String) : Option (List G) :=
  if s == "_" then some [] else mapM? io.parse (s.splitOn ",")

/-- verdict of a path that goes through GLV (needs `φ(P) = λ•P`, true on the order-`r` subgroup only):
    outside the subgroup the type invariant of `Projective` ("in the correct prime order subgroup") is
    violated by the caller; recorded as a note, not as a failure.  Likewise a configuration whose
    `SCALAR_DECOMP_COEFFS` do not have determinant `r` violates the documented requirement of `GLVConfig`
    (used by the harness only to reach the `skip_zeros` branch of the ladder). -/
def vsGlv (io : GIO G) (c : GlvCfg) (P : G) (impl want : String) : String :=
  if impl == want then "ok"
  else if c.n11 * c.n22 - c.n12 * c.n21 != (c.r : Int) then "note:glv-matrix-determinant-is-not-r,want=" ++ want
  else if io.smul c.r P != 0 then "note:P-outside-order-r-subgroup,want=" ++ want
  else "bad:want=" ++ want

/-- tag suffix `,ood` ("out of domain") for the inputs on which `vsGlv` would only ever give a note: the GLV
    hypotheses (determinant `r`, `P` in the order-`r` subgroup) are violated by the caller, the property and the
    theorems say nothing, and `check` does not treat a model/implementation difference there as a broken
    correspondence -/
def glvOod (io : GIO G) (c : GlvCfg) (P : G) : String :=
  if c.n11 * c.n22 - c.n12 * c.n21 != (c.r : Int) || io.smul c.r P != 0 then ",ood" else ""

def runG (io : GIO G) (te : Bool) (op : String) (args : List String) (impl : String) : Option (String × String) := do
  match op, args with
  | "dbladd.aff", [P, ls] =>
    let P ← io.parse P; let ls ← parseList? ls
    let m := if te then teMulAffine P ls else swDoubleAndAddAffine P ls
    some (io.str m ++ " @" ++ bitsTag (bitsBE ls), vs impl (io.str (io.smul (value ls) P)))
  | "dbladd.proj", [P, ls] =>
    let P ← io.parse P; let ls ← parseList? ls
    let m := if te then teMulProjective P ls else swDoubleAndAddProjective P ls
    some (io.str m ++ " @" ++ bitsTag (bitsBE ls), vs impl (io.str (io.smul (value ls) P)))
  | "mulbigint.aff", [P, ls] =>
    let P ← io.parse P; let ls ← parseList? ls
    let m := if te then teAffMulBigint P ls else swAffMulBigint P ls
    some (io.str m ++ " @" ++ bitsTag (bitsBE ls), vs impl (io.str (io.smul (value ls) P)))
  | "mulbigint.proj", [P, ls, ovr] =>
    let P ← io.parse P; let ls ← parseList? ls; let (ov, beta) ← parseOvr ovr
    let want := io.str (io.smul (value ls) P)
    if te then some (io.str (teProjMulBigint P ls) ++ " @" ++ bitsTag (bitsBE ls), vs impl want)
    else
      let m := swProjMulBigint ov (io.endo beta) P ls
      match ov with
      | .default => some (sO io m ++ " @" ++ bitsTag (bitsBE ls), vs impl want)
      | .glv c =>
        let tag := if ls.length > c.nLimbs then "glv-long" else if value ls ≥ c.r then "glv-reduced" else "glv"
        some (sO io m ++ " @" ++ tag, vsGlv io c P impl want)
  | "mulscalar.aff", [P, n, k] =>
    let P ← io.parse P; let n ← parseHex? n; let k ← parseHex? k
    let m := if te then teAffMulScalar n P k else swAffMulScalar n P k
    some (io.str m, vs impl (io.str (io.smul k P)))
  | "mulscalar.proj", [P, n, k, ovr] =>
    let P ← io.parse P; let n ← parseHex? n; let k ← parseHex? k; let (ov, beta) ← parseOvr ovr
    let want := io.str (io.smul k P)
    if te then some (io.str (teProjMulScalar n P k), vs impl want)
    else
      let m := swProjMulScalar ov (io.endo beta) n P k
      match ov with
      | .default => some (sO io m, vs impl want)
      | .glv c => some (sO io m ++ " @glv", vsGlv io c P impl want)
  | "mulbits", [P, bits] =>
    let P ← io.parse P; let bits ← parseBits? bits
    some (io.str (mulBitsBE P bits) ++ " @" ++ bitsTag bits, vs impl (io.str (io.smul (bitsToNat bits.reverse) P)))
  | "wnaf.mul", [P, n, k, w] =>
    let P ← io.parse P; let n ← parseHex? n; let k ← parseHex? k; let w ← parseHex? w
    let m := wnafNewMul w P (toLimbs n k)
    -- outside 2 ≤ w < 64 `WnafContext::new` panics as documented
    let verdict := if 2 ≤ w ∧ w < 64 then vs impl (io.str (io.smul k P)) else vs impl "panic"
    some (sO io m ++ " @w" ++ toString w, verdict)
  | "wnaf.table", [P, w] =>
    let P ← io.parse P; let w ← parseHex? w
    let m := wnafNewTable w P
    let verdict :=
      if 2 ≤ w ∧ w < 64 then vs impl (sList io ((List.range (2 ^ (w - 1))).map (fun i => io.smul (2 * i + 1) P)))
      else vs impl "panic"
    some (sOL io m, verdict)
  | "wnaf.mwt", [P, n, k, w, tbl] =>
    let P ← io.parse P; let n ← parseHex? n; let k ← parseHex? k; let w ← parseHex? w
    let tbl ← pList io tbl
    let m := wnafNewMulWithTable w tbl (toLimbs n k)
    let ms := match m with
      | .panic => "panic"
      | .ok none => "none"
      | .ok (some x) => io.str x
    let verdict :=
      if ¬ (2 ≤ w ∧ w < 64) then vs impl "panic"
      else if 2 ^ (w - 1) > tbl.length then vs impl "none"
      else if impl == "none" then "bad:none-with-sufficient-table"
      else
        -- the table is "a table of P" when its first 2^(w-1) entries are the odd multiples of P
        let need := 2 ^ (w - 1)
        let good := ((List.range need).zip (tbl.take need)).all (fun (i, t) => decide (t = io.smul (2 * i + 1) P))
        if good then vs impl (io.str (io.smul k P))
        else if impl == ms then "note:table-is-not-the-odd-multiples-of-P" else "bad:want=" ++ ms
    some (ms ++ (if 2 ^ (w - 1) > tbl.length then " @short" else " @long"), verdict)
  | "glv.decomp", [g, k] =>
    let (c, _) ← parseGlv g; let k ← parseHex? k
    let ((s1, k1), (s2, k2)) := scalarDecomposition c k
    let ms := b01 s1 ++ " " ++ hex k1 ++ " " ++ b01 s2 ++ " " ++ hex k2
    let verdict : String :=
      match impl.splitOn " " with
      | [i1, ik1, i2, ik2] =>
        match parseHex? ik1, parseHex? ik2 with
        | some a1, some a2 =>
          if (i1 != "0" && i1 != "1") || (i2 != "0" && i2 != "1") then "bad:sign-flag"
          else
            let v1 : Int := if i1 == "1" then (a1 : Int) else - (a1 : Int)
            let v2 : Int := if i2 == "1" then (a2 : Int) else - (a2 : Int)
            let rbits := bitLen c.r
            let bound := 2 ^ ((rbits + 1) / 2 + 2)
            if (v1 + (c.lambda : Int) * v2 - (k : Int)) % (c.r : Int) != 0 then "bad:k1+lambda*k2!=k"
            else if a1 ≥ bound ∨ a2 ≥ bound then "bad:half-not-small"
            else if a1 ≥ 2 ^ (64 * c.nLimbs - 1) ∨ a2 ≥ 2 ^ (64 * c.nLimbs - 1) then "bad:half-has-top-bit"
            else "ok"
        | _, _ => "bad:unparsable"
      | _ => if impl == "panic" then "bad:panic" else "bad:unparsable"
    some (ms, verdict)
  | "glv.proj", [P, k, g] =>
    let P ← io.parse P; let k ← parseHex? k; let (c, beta) ← parseGlv g
    some (io.str (glvMulProjective c (io.endo beta) P k) ++ " @" ++ glvTag c k ++ glvOod io c P, vsGlv io c P impl (io.str (io.smul k P)))
  | "glv.aff", [P, k, g] =>
    let P ← io.parse P; let k ← parseHex? k; let (c, beta) ← parseGlv g
    some (io.str (glvMulAffine c (io.endo beta) P k) ++ " @" ++ glvTag c k ++ glvOod io c P, vsGlv io c P impl (io.str (io.smul k P)))
  | "batch.table", [P, ns, ss] =>
    let P ← io.parse P; let ns ← parseHex? ns; let ss ← parseHex? ss
    let t := withNumScalarsAndScalarSize P ns ss
    let rows := fun (tb : List (List G)) => if tb.isEmpty then "_" else joinWith ";" (tb.map (sList io))
    let ms := hex t.window ++ " " ++ rows t.table
    -- spec of the table: row o, entry i = (i·2^(w·o))•P for i < 2^min(w, ss − w·o), identity above; ⌈ss/w⌉ rows
    let w := t.window
    let outerc := (ss + w - 1) / w
    let spec := (List.range outerc).map (fun o =>
      (List.range (2 ^ w)).map (fun i => if i < 2 ^ (min w (ss - w * o)) then io.smul (i * 2 ^ (w * o)) P else 0))
    some (ms ++ " @w" ++ toString w, vs impl (hex w ++ " " ++ rows spec))
  | "batch.mul", [P, n, rbits, ns, ss, ks] =>
    let P ← io.parse P; let n ← parseHex? n; let rbits ← parseHex? rbits
    let ns ← parseHex? ns; let ss ← parseHex? ss; let ks ← parseList? ks
    let t := withNumScalarsAndScalarSize P ns ss
    let m := batchMul t rbits (ks.map (toLimbs n))
    let want := sList io (ks.map (fun k => io.smul k P))
    let verdict :=
      if impl == want then "ok"
      else if ks.all (fun k => bitLen k ≤ ss) then
        (if impl == "panic" then "bad:panic" else "bad:want=" ++ want)
      else "note:some-scalar>=2^scalar_size"
    some (sOL io m ++ " @w" ++ toString t.window, verdict)
  | "batch.new", [P, n, rbits, ns, ks] =>
    let P ← io.parse P; let n ← parseHex? n; let rbits ← parseHex? rbits
    let ns ← parseHex? ns; let ks ← parseList? ks
    let t := batchNew rbits P ns
    let m := batchMul t rbits (ks.map (toLimbs n))
    some (sOL io m ++ " @w" ++ toString t.window, vs impl (sList io (ks.map (fun k => io.smul k P))))
  | "batch.smul", [P, n, rbits, ks] =>
    let P ← io.parse P; let n ← parseHex? n; let rbits ← parseHex? rbits; let ks ← parseList? ks
    let m := scalarMulBatchMul rbits P (ks.map (toLimbs n))
    some (sOL io m ++ " @w" ++ toString (computeWindowSize ks.length), vs impl (sList io (ks.map (fun k => io.smul k P))))
  | _, _ => none

end G

def run (op : String) (args : List String) (impl : String) : Option (String × String) :=
  match args with
  | kind :: p :: a :: b :: rest => do
    let p ← parseHex? p; let a ← parseHex? a; let b ← parseHex? b
    if p < 2 then none
    else if kind == "sw" then
      let E : SWParams p := ⟨Fp.ofNat p a, Fp.ofNat p b⟩
      runG (swIO p E) false op rest impl
    else if kind == "te" then
      let E : TEParams p := ⟨Fp.ofNat p a, Fp.ofNat p b⟩
      runG (teIO p E) true op rest impl
    else none
  | _ => none

end Ark.DrvC04
