import Ark.Model.Fp
/-
  Ark.Model.AffGroup — the textbook affine group law of a short-Weierstrass curve
  y² = x³ + a·x + b over `Fp p`, as an executable *specification-level* group.
  Algorithms that are generic in the group (scalar multiplication, MSM, …) are modelled over
  core operator classes `[Add G] [Neg G] [Zero G] [DecidableEq G]` (+ `Sub`) and executed here; the
  projective formulas of the Rust code are a separate model (`Ark.Model.Curve`, property C03).
-/
namespace Ark

/-- affine point: `none` is the identity -/
structure SWParams (p : Nat) where
  a : Fp p
  b : Fp p

structure AffPt (p : Nat) (E : SWParams p) where
  pt : Option (Fp p × Fp p)
  deriving DecidableEq

namespace AffPt
variable {p : Nat} {E : SWParams p}

def affAdd (P Q : AffPt p E) : AffPt p E :=
  match P.pt, Q.pt with
  | none, _ => Q
  | _, none => P
  | some (x1, y1), some (x2, y2) =>
    if x1 = x2 then
      if y1 = y2 ∧ y1 ≠ 0 then
        let lam := ((3 : Nat) * (x1 * x1) + E.a) / ((2 : Nat) * y1)
        let x3 := lam * lam - x1 - x2
        ⟨some (x3, lam * (x1 - x3) - y1)⟩
      else ⟨none⟩          -- opposite points, or a point of order two doubled
    else
      let lam := (y2 - y1) / (x2 - x1)
      let x3 := lam * lam - x1 - x2
      ⟨some (x3, lam * (x1 - x3) - y1)⟩

def affNeg (P : AffPt p E) : AffPt p E :=
  match P.pt with
  | none => P
  | some (x, y) => ⟨some (x, -y)⟩

instance : Zero (AffPt p E) := ⟨⟨none⟩⟩
instance : Add (AffPt p E) := ⟨affAdd⟩
instance : Neg (AffPt p E) := ⟨affNeg⟩
instance : Sub (AffPt p E) := ⟨fun P Q => affAdd P (affNeg Q)⟩
instance : Inhabited (AffPt p E) := ⟨0⟩

def onCurve (P : AffPt p E) : Bool :=
  match P.pt with
  | none => true
  | some (x, y) => y * y == x * x * x + E.a * x + E.b

/-- reference scalar multiplication (double-and-add on `Nat`, fuel = bit length) -/
def smulAux : Nat → Nat → AffPt p E → AffPt p E → AffPt p E
  | 0, _, _, acc => acc
  | fuel + 1, k, base, acc =>
    if k = 0 then acc
    else smulAux fuel (k / 2) (affAdd base base) (if k % 2 = 1 then affAdd acc base else acc)

def smul (k : Nat) (P : AffPt p E) : AffPt p E := smulAux (k.log2 + 2) k P 0

def smulInt (k : Int) (P : AffPt p E) : AffPt p E :=
  if k < 0 then affNeg (smul k.natAbs P) else smul k.toNat P

end AffPt
end Ark
