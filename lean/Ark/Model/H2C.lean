import Ark.Model.Limbs
import Ark.Model.Fp
import Ark.Model.FieldOps
import Ark.Model.Sha256
/-
  Ark.Model.H2C — C13: hash-to-field / hash-to-curve.

  PART 1 (namespace `Ark.H2C`): the MODEL, transcribed function by function from
    ff/src/fields/field_hashers/expander/mod.rs   `DST::new_xmd`, `DST::update`, `ExpanderXmd::expand`
    ff/src/fields/field_hashers/mod.rs            `get_len_per_elem`, `DefaultFieldHasher::{new, hash_to_field}`
    ec/src/hashing/curve_maps/mod.rs              `parity`
    ec/src/hashing/curve_maps/swu.rs              `SWUMap::map_to_curve`  (inversion-free, `ta = 0` routed through ZETA)
    ec/src/hashing/curve_maps/wb.rs               `IsogenyMap::apply` (batched inversion), `WBMap::map_to_curve`
    ec/src/hashing/curve_maps/elligator2.rs       `Elligator2Map::map_to_curve`
    ec/src/hashing/map_to_curve_hasher.rs         `MapToCurveBasedHasher::hash`
  The hash function is a parameter (`H`, with its output size `bLen`); the driver instantiates it with
  `Ark.Sha256.sha256`.  Rust panics (`assert!`, slice index, `unwrap`, `expect`, division by zero) are
  explicit (`Ark.Outcome`).

  PART 2 (namespace `Ark.H2C.Rfc`): the SPEC, an independent transcription of RFC 9380
    §4.1 sgn0, §4 inv0 / is_square, §5.2 hash_to_field, §5.3.1 expand_message_xmd, §5.3.3 oversize DST,
    §6.6.2 simplified SWU (textbook form, with inversion), §6.6.3 / App. E iso_map (identity at the poles),
    §6.7.1 Elligator 2, §6.8.2 / App. D.1 Montgomery → twisted Edwards, §3 hash_to_curve, §7 clear_cofactor.

  Both parts are generic in the field (core operator classes + the dictionary `FieldX` of what the
  Rust code obtains from the trait `Field` beyond the operators) and are executed at `Fp p` and at
  `Q2 p β = F_p[i]/(i² − β)` (defined here: textbook arithmetic).  Mathlib-free.
-/
namespace Ark.H2C
open Ark

abbrev Bytes := List Nat

/-! ## plumbing -/

def obind {α β : Type} : Outcome α → (α → Outcome β) → Outcome β
  | .ok a, f => f a
  | .panic, _ => .panic

/-- what the maps use from Rust's trait `Field` beyond `+ - * / neg 0 1 ==` -/
structure FieldX (F : Type) where
  /-- `legendre().is_qr()`: a non-zero square -/
  isQR : F → Bool
  /-- `sqrt()`: *some* square root, `none` for a non-square.  (Which of the two roots is returned
      is the business of C11; every map below normalises the sign afterwards.) -/
  sqrt : F → Option F
  /-- `to_base_prime_field_elements().map(into_bigint)` -/
  coords : F → List Nat

/-! ## PART 1a — the expander and hash_to_field (bytes) -/

/-- `MAX_DST_LENGTH` -/
def maxDstLength : Nat := 255
/-- `LONG_DST_PREFIX = b"H2C-OVERSIZE-DST-"` -/
def longDstPrefix : Bytes := [72, 50, 67, 45, 79, 86, 69, 82, 83, 73, 90, 69, 45, 68, 83, 84, 45]

/-- `ArrayVec::<u8, 255>::try_from(slice).unwrap()` -/
def arrayVec255 (b : Bytes) : Outcome Bytes := if b.length > maxDstLength then .panic else .ok b

/-- `DST::new_xmd::<H>(dst)` -/
def dstNewXmd (H : Bytes → Bytes) (dst : Bytes) : Outcome Bytes :=
  if dst.length > maxDstLength then arrayVec255 (H (longDstPrefix ++ dst))
  else arrayVec255 dst

/-- what `DST::update` feeds to the hasher: the tag followed by `len as u8` -/
def dstUpdate (d : Bytes) : Bytes := d ++ [d.length % 256]

def xorBytes : Bytes → Bytes → Bytes
  | a :: as, b :: bs => Nat.xor a b :: xorBytes as bs
  | _, _ => []

/-- the loop `for i in 2..=ell` of `ExpanderXmd::expand` (`cnt = ell + 1 - i` iterations remain, `bi` the previous
    block): the bytes appended to `uniform_bytes` -/
def xmdLoop (H : Bytes → Bytes) (b0 dp : Bytes) : Nat → Nat → Bytes → Bytes
  | 0, _, _ => []
  | cnt + 1, i, bi =>
    let bi' := H (xorBytes b0 bi ++ [i % 256] ++ dp)
    bi' ++ xmdLoop H b0 dp cnt (i + 1) bi'

/-- `ExpanderXmd::<H>{dst, block_size}.expand(msg, n)`; `bLen = H::OutputSize`.
    Panics: `assert!(ell <= 255)`, the `unwrap` in `DST::new_xmd`, `assert!(n < 1 << 16)`,
    the slice `&Z_PAD[0..block_size]` of the 256-byte static. -/
def expandXmd (H : Bytes → Bytes) (bLen : Nat) (blockSize : Nat) (dst msg : Bytes) (n : Nat) : Outcome Bytes :=
  let ell := (n + bLen - 1) / bLen                      -- n.div_ceil(b_len)
  if ell > 255 then .panic
  else obind (dstNewXmd H dst) fun dstPrime =>
  if ¬ (n < 65536) then .panic
  else if blockSize > 256 then .panic
  else
    let libStr : Bytes := [(n / 256) % 256, n % 256]      -- (n as u16).to_be_bytes()
    let dp := dstUpdate dstPrime
    let b0 := H (List.replicate blockSize 0 ++ msg ++ libStr ++ [0] ++ dp)
    let b1 := H (b0 ++ [1] ++ dp)
    let uniform := b1 ++ xmdLoop H b0 dp (ell - 1) 2 b1    -- `2..=ell` is empty when ell < 2
    .ok (uniform.take n)                                   -- truncate(n)

/-- `get_len_per_elem::<F, SEC_PARAM>()` with `modBits = F::BasePrimeField::MODULUS_BIT_SIZE` -/
def getLenPerElem (modBits secParam : Nat) : Nat := (modBits + secParam + 7) / 8

/-- big-endian bytes → integer -/
def os2ip (b : Bytes) : Nat := b.foldl (fun acc x => acc * 256 + x) 0

/-- `&uniform_bytes[off..][..len]` (two slice operations, each may panic); the vector is an `Array` so that the
    indexing costs `O(len)` as in Rust (`(b.extract off (off+len)).toList = (b.toList.drop off).take len`) -/
def subSlice (b : Array Nat) (off len : Nat) : Outcome Bytes :=
  if off > b.size then .panic
  else if len > b.size - off then .panic else .ok (b.extract off (off + len)).toList

def omapM {α β : Type} (f : α → Outcome β) : List α → Outcome (List β)
  | [] => .ok []
  | a :: as => obind (f a) fun b => obind (omapM f as) fun bs => .ok (b :: bs)

/-- `<DefaultFieldHasher<H, SEC_PARAM> as HashToField<F>>::new(dst).hash_to_field::<N>(msg)`:
    `N` elements, each a list of `m = F::extension_degree()` residues mod `p`.
    NOTE (as coded): `new` sets `block_size := len_per_base_elem`, i.e. the expander is run with
    `Z_pad` of `L` bytes, not of the hash's input block size. -/
def hashToField (H : Bytes → Bytes) (bLen : Nat) (p modBits m secParam N : Nat) (dst msg : Bytes) :
    Outcome (List (List Nat)) :=
  let L := getLenPerElem modBits secParam
  let lenInBytes := N * m * L
  obind (expandXmd H bLen L dst msg lenInBytes) fun ubl =>
  let ub := ubl.toArray
  omapM (fun i => omapM (fun j =>
      obind (subSlice ub (L * (j + i * m)) L) fun tv => .ok (os2ip tv % p))   -- from_be_bytes_mod_order
    (List.range m)) (List.range N)

/-! ## PART 1b — the maps (field-generic) -/

/-- `parity` on the coordinate list: `find(|x| !x.is_zero()).is_some_and(|x| x.into_bigint().is_odd())` -/
def parityCoords (cs : List Nat) : Bool :=
  match cs.find? (fun x => x != 0) with
  | some x => x % 2 == 1
  | none => false

section maps
variable {F : Type} [Add F] [Sub F] [Mul F] [Neg F] [Zero F] [One F] [Inv F] [Div F] [DecidableEq F]

/-- `a / b` of Rust's `Field`: `a * b.inverse().unwrap()` -/
def divP (x y : F) : Outcome F := if y = 0 then .panic else .ok (x / y)

/-- `parity(element)`: oddness of the first non-zero base-prime-field coordinate, `false` for zero -/
def parity (X : FieldX F) (e : F) : Bool := parityCoords (X.coords e)

/-- `SWUMap::<P>::map_to_curve(element)` with `a = P::COEFF_A`, `b = P::COEFF_B`, `zeta = P::ZETA`.
    Second component: the branch taken (for the coverage table). -/
def swuMapB (X : FieldX F) (a b zeta : F) (u : F) : Outcome ((F × F) × String) :=
  let zeta_u2 := zeta * (u * u)
  let ta := zeta_u2 * zeta_u2 + zeta_u2
  let num_x1 := b * (ta + 1)
  let div := a * (if ta = 0 then zeta else -ta)
  let num2_x1 := num_x1 * num_x1
  let div2 := div * div
  let div3 := div2 * div
  let num_gx1 := (num2_x1 + a * div2) * num_x1 + b * div3
  let num_x2 := zeta_u2 * num_x1
  obind (divP num_gx1 div3) fun gx1 =>
  let gx1_square := X.isQR gx1
  let y1o := if gx1_square then X.sqrt gx1 else X.sqrt (zeta * gx1)
  match y1o with
  | none => .panic                                      -- `.expect(..)`
  | some y1 =>
    let y2 := zeta_u2 * u * y1
    let num_x := if gx1_square then num_x1 else num_x2
    let y := if gx1_square then y1 else y2
    obind (divP num_x div) fun x_affine =>
    let y_affine := if parity X y == parity X u then y else -y
    .ok ((x_affine, y_affine),
         (if ta = 0 then "ta0" else "ta") ++ (if gx1_square then ":x1" else if gx1 = 0 then ":gx1zero" else ":x2"))

def swuMap (X : FieldX F) (a b zeta : F) (u : F) : Outcome (F × F) :=
  obind (swuMapB X a b zeta u) fun r => .ok r.1

/-- the four coefficient slices of `IsogenyMap` (low degree first) -/
structure Iso (F : Type) where
  xNum : List F
  xDen : List F
  yNum : List F
  yDen : List F

/-- `DensePolynomial::from_coefficients_slice`: leading (= trailing in the list) zeros are dropped -/
def polyOfSlice (cs : List F) : List F := (cs.reverse.dropWhile (fun c => c = 0)).reverse

/-- `DensePolynomial::evaluate`: zero polynomial ↦ 0, point 0 ↦ `coeffs[0]`, else Horner
    (`rfold(0, |r, c| r * point + c)`) -/
def polyEval (cs : List F) (x : F) : F :=
  match cs with
  | [] => 0
  | c0 :: _ => if x = 0 then c0 else cs.foldr (fun c r => r * x + c) 0

/-- the operations record used by `Ark.Ops.batchInvMul` (`serial_batch_inversion_and_mul`) -/
def opsOf : Ops F where
  zero := 0
  one := 1
  add := (· + ·)
  sub := (· - ·)
  mul := (· * ·)
  neg := (- ·)
  square := fun x => x * x
  double := fun x => x + x
  inv := fun x => if x = 0 then none else some x⁻¹
  isZero := fun x => x = 0

/-- `IsogenyMap::apply(domain_point)`; a point is `none` (identity) or `some (x, y)`.
    A denominator vanishing at `x` returns `Affine::identity()` before the batch inversion. -/
def isoApply (iso : Iso F) (pt : Option (F × F)) : Outcome (Option (F × F)) :=
  match pt with
  | none => .ok none
  | some (x, y) =>
    let x_num := polyOfSlice iso.xNum
    let x_den := polyOfSlice iso.xDen
    let y_num := polyOfSlice iso.yNum
    let y_den := polyOfSlice iso.yDen
    let vx := polyEval x_den x
    let vy := polyEval y_den x
    -- (after the `fix:` commit 0d9b7ba) the poles of the rational maps go to the point at infinity
    if vx = 0 ∨ vy = 0 then .ok none
    else
      match (opsOf (F := F)).batchInvMul [vx, vy] 1 with     -- batch_inversion(&mut v)
      | some [v0, v1] =>
        let img_x := polyEval x_num x * v0
        let img_y := (polyEval y_num x * y) * v1
        .ok (some (img_x, img_y))
      | _ => .panic

/-- `WBMap::<P>::map_to_curve(element)` -/
def wbMap (X : FieldX F) (a' b' zeta : F) (iso : Iso F) (u : F) : Outcome (Option (F × F)) :=
  obind (swuMap X a' b' zeta u) fun q => isoApply iso (some q)

/-- `Elligator2Map::<P>::map_to_curve(element)`:
    `k = MontCurveConfig::COEFF_B`, `jOnK = COEFF_A_OVER_COEFF_B`, `ksqInv = ONE_OVER_COEFF_B_SQUARE`, `z = Z` -/
def ell2MapB (X : FieldX F) (k jOnK ksqInv z : F) (u : F) : Outcome ((F × F) × String) :=
  let den_1 := 1 + z * (u * u)
  obind (divP (-jOnK) (if den_1 = 0 then 1 else den_1)) fun x1 =>
  let x1sq := x1 * x1
  let x1cb := x1sq * x1
  let gx1 := x1cb + jOnK * x1sq + x1 * ksqInv
  let x2 := -x1 - jOnK
  let x2sq := x2 * x2
  let x2cb := x2sq * x2
  let gx2 := x2cb + jOnK * x2sq + x2 * ksqInv
  let sq := X.isQR gx1
  let r := if sq then (x1, X.sqrt gx1, true) else (x2, X.sqrt gx2, false)
  match r with
  | (_, none, _) => .panic
  | (x, some y0, sgn0) =>
    let y := if parity X y0 != sgn0 then -y0 else y0
    let s := x * k
    let t := y * k
    let tv1 := s + 1
    let tv2 := tv1 * t
    let vw : F × F :=
      if tv2 = 0 then (0, 1)
      else
        let tv2_inv := tv2⁻¹
        (tv2_inv * tv1 * s, tv2_inv * t * (s - 1))
    .ok (vw, (if den_1 = 0 then "den0" else "den") ++ (if sq then ":x1" else if gx1 = 0 then ":gx1zero" else ":x2")
             ++ (if tv2 = 0 then ":exc" else ""))

def ell2Map (X : FieldX F) (k jOnK ksqInv z : F) (u : F) : Outcome (F × F) :=
  obind (ell2MapB X k jOnK ksqInv z u) fun r => .ok r.1

/-! ### affine group laws (specification level; used for `Q0 + Q1`, `clear_cofactor`, `r·P = O`) -/

abbrev SwPt (F : Type) := Option (F × F)

def swAdd (a : F) (P Q : SwPt F) : SwPt F :=
  match P, Q with
  | none, _ => Q
  | _, none => P
  | some (x1, y1), some (x2, y2) =>
    if x1 = x2 then
      if y1 = y2 ∧ y1 ≠ 0 then
        let xx := x1 * x1
        let lam := (xx + xx + xx + a) / (y1 + y1)
        let x3 := lam * lam - x1 - x2
        some (x3, lam * (x1 - x3) - y1)
      else none
    else
      let lam := (y2 - y1) / (x2 - x1)
      let x3 := lam * lam - x1 - x2
      some (x3, lam * (x1 - x3) - y1)

def swOnCurve (a b : F) : SwPt F → Bool
  | none => true
  | some (x, y) => y * y == x * x * x + a * x + b

def swSmulAux (a : F) : Nat → Nat → SwPt F → SwPt F → SwPt F
  | 0, _, _, acc => acc
  | fuel + 1, k, base, acc =>
    if k = 0 then acc
    else swSmulAux a fuel (k / 2) (swAdd a base base) (if k % 2 = 1 then swAdd a acc base else acc)

/-- `k · P` (double-and-add, LSB first) -/
def swSmul (a : F) (k : Nat) (P : SwPt F) : SwPt F := swSmulAux a (k.log2 + 2) k P none

/-! Jacobian evaluation of `k · P` (run-time only: the driver uses it for the 255-bit `r · P = O` test and the
    636-bit `h_eff` of G2, where one field inversion per group operation is too slow).  Obligation, not used by the
    definitions above: `swSmulJ a k P = swSmul a k P` for `P` on the curve; the driver re-checks this equality on
    every line whose scalar is short (G1, toy curves). -/

def jacDbl (a : F) (P : F × F × F) : F × F × F :=
  let (x1, y1, z1) := P
  if z1 = 0 ∨ y1 = 0 then (1, 1, 0)
  else
    let xx := x1 * x1; let yy := y1 * y1; let yyyy := yy * yy; let zz := z1 * z1
    let s := x1 * yy; let s := s + s; let s := s + s
    let m := xx + xx + xx + a * (zz * zz)
    let x3 := m * m - (s + s)
    let y8 := yyyy + yyyy; let y8 := y8 + y8; let y8 := y8 + y8
    (x3, m * (s - x3) - y8, (y1 + y1) * z1)

def jacAdd (a : F) (P Q : F × F × F) : F × F × F :=
  let (x1, y1, z1) := P
  let (x2, y2, z2) := Q
  if z1 = 0 then Q else if z2 = 0 then P
  else
    let z1z1 := z1 * z1; let z2z2 := z2 * z2
    let u1 := x1 * z2z2; let u2 := x2 * z1z1
    let s1 := y1 * z2 * z2z2; let s2 := y2 * z1 * z1z1
    if u1 = u2 then (if s1 = s2 then jacDbl a P else (1, 1, 0))
    else
      let h := u2 - u1; let r := s2 - s1
      let h2 := h * h; let h3 := h * h2; let v := u1 * h2
      let x3 := r * r - h3 - (v + v)
      (x3, r * (v - x3) - s1 * h3, z1 * z2 * h)

def jacSmulAux (a : F) : Nat → Nat → F × F × F → F × F × F → F × F × F
  | 0, _, _, acc => acc
  | fuel + 1, k, base, acc =>
    if k = 0 then acc
    else jacSmulAux a fuel (k / 2) (jacDbl a base) (if k % 2 = 1 then jacAdd a acc base else acc)

def swSmulJ (a : F) (k : Nat) (P : SwPt F) : SwPt F :=
  match P with
  | none => none
  | some (x, y) =>
    let (X, Y, Z) := jacSmulAux a (k.log2 + 2) k (x, y, 1) (1, 1, 0)
    if Z = 0 then none
    else let zi := Z⁻¹; let zi2 := zi * zi; some (X * zi2, Y * (zi2 * zi))

def teAdd (a d : F) (P Q : F × F) : F × F :=
  let (x1, y1) := P
  let (x2, y2) := Q
  let t := d * x1 * x2 * y1 * y2
  ((x1 * y2 + y1 * x2) / (1 + t), (y1 * y2 - a * x1 * x2) / (1 - t))

def teOnCurve (a d : F) (P : F × F) : Bool :=
  let (x, y) := P
  a * x * x + y * y == 1 + d * x * x * y * y

def teSmulAux (a d : F) : Nat → Nat → F × F → F × F → F × F
  | 0, _, _, acc => acc
  | fuel + 1, k, base, acc =>
    if k = 0 then acc
    else teSmulAux a d fuel (k / 2) (teAdd a d base base) (if k % 2 = 1 then teAdd a d acc base else acc)

def teSmul (a d : F) (k : Nat) (P : F × F) : F × F := teSmulAux a d (k.log2 + 2) k P (0, 1)

/-- `MapToCurveBasedHasher::hash` after `hash_to_field::<2>`: map both elements, add, clear the cofactor.
    `clear_cofactor` is modelled at specification level as multiplication by `hEff`
    (G1: the code multiplies by `h_eff = 0xd201000000010001`; G2: the ψ-based formula of the code equals
    multiplication by the RFC's `h_eff` — that identity belongs to C12). -/
def hashFinishSw (a : F) (hEff : Nat) (q0 q1 : SwPt F) : SwPt F := swSmul a hEff (swAdd a q0 q1)

end maps

/-! ## executable fields -/

def fpLegendreIsOne (p a : Nat) : Bool := a % p != 0 && Spec.powMod a ((p - 1) / 2) p == 1

/-- least `z ≥ 2` that is a quadratic non-residue (bounded search) -/
def findNonResidue (p : Nat) : Nat → Nat → Option Nat
  | 0, _ => none
  | fuel + 1, z => if Spec.powMod z ((p - 1) / 2) p == p - 1 then some z else findNonResidue p fuel (z + 1)

/-- least `i` with `t^(2^i) = 1` -/
def tsOrder (p : Nat) : Nat → Nat → Nat → Nat
  | 0, _, i => i
  | fuel + 1, t, i => if t == 1 then i else tsOrder p fuel (t * t % p) (i + 1)

def tsLoop (p : Nat) : Nat → Nat → Nat → Nat → Nat → Option Nat
  | 0, _, _, _, _ => none
  | fuel + 1, m, c, t, r =>
    if t == 1 then some r
    else
      let i := tsOrder p m t 0
      if i ≥ m then none
      else
        let b := Spec.powMod c (2 ^ (m - i - 1)) p
        tsLoop p fuel i (b * b % p) (t * b % p * b % p) (r * b % p)

/-- a square root in `F_p` (`p` an odd prime): `(p+1)/4` exponent when `p ≡ 3 (mod 4)`, else Tonelli–Shanks -/
def fpSqrt (p a : Nat) : Option Nat :=
  let a := a % p
  if a == 0 then some 0
  else if p == 2 then some a
  else if Spec.powMod a ((p - 1) / 2) p != 1 then none
  else if p % 4 == 3 then some (Spec.powMod a ((p + 1) / 4) p)
  else
    let s := (List.range (p - 1).log2.succ).foldl (fun s i => if (p - 1) % 2 ^ (i + 1) == 0 then i + 1 else s) 0
    let q := (p - 1) / 2 ^ s
    match findNonResidue p 4096 2 with
    | none => none
    | some z => tsLoop p (s + 2) s (Spec.powMod z q p) (Spec.powMod a q p) (Spec.powMod a ((q + 1) / 2) p)

def fpX (p : Nat) : FieldX (Fp p) where
  isQR := fun a => fpLegendreIsOne p a.val
  sqrt := fun a => (fpSqrt p a.val).map (fun r => ⟨r⟩)
  coords := fun a => [a.val]

/-- `F_p[i]/(i² − β)` -/
structure Q2 (p β : Nat) where
  c0 : Fp p
  c1 : Fp p
  deriving DecidableEq

namespace Q2
variable {p β : Nat}
instance : Zero (Q2 p β) := ⟨⟨0, 0⟩⟩
instance : One (Q2 p β) := ⟨⟨1, 0⟩⟩
instance : Add (Q2 p β) := ⟨fun a b => ⟨a.c0 + b.c0, a.c1 + b.c1⟩⟩
instance : Sub (Q2 p β) := ⟨fun a b => ⟨a.c0 - b.c0, a.c1 - b.c1⟩⟩
instance : Neg (Q2 p β) := ⟨fun a => ⟨-a.c0, -a.c1⟩⟩
instance : Mul (Q2 p β) := ⟨fun a b =>
  ⟨a.c0 * b.c0 + Fp.ofNat p β * (a.c1 * b.c1), a.c0 * b.c1 + a.c1 * b.c0⟩⟩
def norm (a : Q2 p β) : Fp p := a.c0 * a.c0 - Fp.ofNat p β * (a.c1 * a.c1)
instance : Inv (Q2 p β) := ⟨fun a => let n := (norm a)⁻¹; ⟨a.c0 * n, (-a.c1) * n⟩⟩
instance : Div (Q2 p β) := ⟨fun a b => a * b⁻¹⟩
instance : Inhabited (Q2 p β) := ⟨0⟩

/-- square root by the "complex method"; the result is checked (`none` if it does not square back) -/
def sqrt (a : Q2 p β) : Option (Q2 p β) :=
  let cand : Option (Q2 p β) :=
    if a.c1 = 0 then
      if a.c0 = 0 ∨ fpLegendreIsOne p a.c0.val then (fpSqrt p a.c0.val).map (fun r => ⟨⟨r⟩, 0⟩)
      else (fpSqrt p (a.c0 / Fp.ofNat p β).val).map (fun r => ⟨0, ⟨r⟩⟩)
    else
      match fpSqrt p (norm a).val with
      | none => none
      | some sa =>
        let two_inv : Fp p := (Fp.ofNat p 2)⁻¹
        let d1 := (a.c0 + ⟨sa⟩) * two_inv
        let δ := if fpLegendreIsOne p d1.val then d1 else (a.c0 - ⟨sa⟩) * two_inv
        match fpSqrt p δ.val with
        | none => none
        | some x0 => some ⟨⟨x0⟩, a.c1 / (Fp.ofNat p 2 * ⟨x0⟩)⟩
  match cand with
  | some r => if r * r = a then some r else none
  | none => none
end Q2

def q2X (p β : Nat) : FieldX (Q2 p β) where
  isQR := fun a => fpLegendreIsOne p (Q2.norm a).val     -- legendre of the norm; the norm of 0 is 0
  sqrt := Q2.sqrt
  coords := fun a => [a.c0.val, a.c1.val]

/-! # PART 2 — RFC 9380, transcribed independently of the code above -/

namespace Rfc

/-- I2OSP(x, n) (RFC 8017 §4.1); `none` = "integer too large" -/
def i2osp (x n : Nat) : Option Bytes :=
  if x ≥ 256 ^ n then none
  else some ((List.range n).reverse.map fun i => (x / 256 ^ i) % 256)

/-- OS2IP -/
def os2ip : Bytes → Nat
  | [] => 0
  | b => (b.reverse.zipIdx.map fun (x, i) => x * 256 ^ i).sum

def strxor (a b : Bytes) : Bytes := (a.zip b).map fun (x, y) => x ^^^ y

def ceilDiv (a b : Nat) : Nat := if a % b == 0 then a / b else a / b + 1

/-- §5.3.3: a DST longer than 255 bytes is replaced by `H("H2C-OVERSIZE-DST-" || DST)` -/
def effectiveDst (H : Bytes → Bytes) (dst : Bytes) : Bytes :=
  if dst.length > 255 then H ("H2C-OVERSIZE-DST-".toUTF8.toList.map (·.toNat) ++ dst) else dst

/-- steps 9–10 of §5.3.1: the list `b_i, …, b_ell` given `b_(i-1)` (`cnt = ell + 1 - i` blocks remain):
    `b_i = H(strxor(b_0, b_(i - 1)) || I2OSP(i, 1) || DST_prime)` -/
def blocksFrom (H : Bytes → Bytes) (b0 dstPrime : Bytes) : Nat → Nat → Bytes → List Bytes
  | 0, _, _ => []
  | cnt + 1, i, bPrev =>
    match i2osp i 1 with
    | some ib => let bi := H (strxor b0 bPrev ++ ib ++ dstPrime); bi :: blocksFrom H b0 dstPrime cnt (i + 1) bi
    | none => []

/-- steps 8–10 of §5.3.1: the list `b_1, …, b_ell` (`b_1 = H(b_0 || I2OSP(1, 1) || DST_prime)`) -/
def blocksB (H : Bytes → Bytes) (b0 dstPrime : Bytes) (ell : Nat) : List Bytes :=
  if ell = 0 then []
  else match i2osp 1 1 with
    | some one => let b1 := H (b0 ++ one ++ dstPrime); b1 :: blocksFrom H b0 dstPrime (ell - 1) 2 b1
    | none => []

/-- §5.3.1 `expand_message_xmd(msg, DST, len_in_bytes)`; `none` = ABORT.
    Parameters: `H`, `bInBytes` (output size of `H`), `sInBytes` (input block size of `H`). -/
def expandMessageXmd (H : Bytes → Bytes) (bInBytes sInBytes : Nat) (msg dst0 : Bytes) (lenInBytes : Nat) :
    Option Bytes :=
  let dst := effectiveDst H dst0                                      -- §5.3.3
  let ell := ceilDiv lenInBytes bInBytes                               -- 1
  if ell > 255 ∨ lenInBytes > 65535 ∨ dst.length > 255 then none      -- 2
  else do
    let dstPrime := dst ++ (← i2osp dst.length 1)                      -- 3
    let zPad ← i2osp 0 sInBytes                                        -- 4
    let libStr ← i2osp lenInBytes 2                                    -- 5
    let msgPrime := zPad ++ msg ++ libStr ++ (← i2osp 0 1) ++ dstPrime -- 6
    let b0 := H msgPrime                                               -- 7
    let bs := blocksB H b0 dstPrime ell                                -- 8–10
    let uniform := bs.flatten                                          -- 11
    some (uniform.take lenInBytes)                                     -- 12

/-- ceil(log2(p)) -/
def ceilLog2 (p : Nat) : Nat := if p ≤ 1 then 0 else (p - 1).log2 + 1

/-- §5.1: `L = ceil((ceil(log2(p)) + k) / 8)` -/
def paramL (p k : Nat) : Nat := ceilDiv (ceilLog2 p + k) 8

/-- §5.2 `hash_to_field(msg, count)` with `expand_message_xmd`; `none` = ABORT -/
def hashToField (H : Bytes → Bytes) (bInBytes sInBytes : Nat) (p m k : Nat) (dst msg : Bytes) (count : Nat) :
    Option (List (List Nat)) :=
  let L := paramL p k
  let lenInBytes := count * m * L                                              -- 1
  match expandMessageXmd H bInBytes sInBytes msg dst lenInBytes with          -- 2
  | none => none
  | some uniformL =>
    let uniform := uniformL.toArray
    some ((List.range count).map fun i =>                                      -- 3
      (List.range m).map fun j =>                                              -- 4
        let elmOffset := L * (j + i * m)                                       -- 5
        let tv := (uniform.extract elmOffset (elmOffset + L)).toList           -- 6  substr(uniform_bytes, elm_offset, L)
        os2ip tv % p)                                                          -- 7

/-- §4.1 `sgn0(x)` for `x = (x_1, …, x_m)` -/
def sgn0 (xs : List Nat) : Nat :=
  let (sign, _) := xs.foldl (fun (sz : Nat × Nat) x_i =>
      let (sign, zeroAcc) := sz
      let sign_i := x_i % 2
      let zero_i := if x_i == 0 then 1 else 0
      (sign ||| (zeroAcc &&& sign_i), zeroAcc &&& zero_i)) (0, 1)
  sign

section maps
variable {F : Type} [Add F] [Sub F] [Mul F] [Neg F] [Zero F] [One F] [Inv F] [Div F] [DecidableEq F]

/-- §4: `inv0(x)`: the inverse, with `inv0(0) = 0` -/
def inv0 (x : F) : F := if x = 0 then 0 else x⁻¹

/-- §4: `is_square(x)`: `x^((q-1)/2)` is 0 or 1 -/
def isSquare (X : FieldX F) (x : F) : Bool := x = 0 || X.isQR x

/-- `sqrt(x)` for a square `x`: some root (0 for 0) -/
def sqrtOr0 (X : FieldX F) (x : F) : F := (X.sqrt x).getD 0

def sgn0F (X : FieldX F) (x : F) : Nat := sgn0 (X.coords x)

/-- §6.6.2 `map_to_curve_simple_swu(u)` on `y² = x³ + A x + B`, `A B ≠ 0`, `Z` non-square -/
def sswu (X : FieldX F) (A B Z : F) (u : F) : F × F :=
  let u2 := u * u
  let tv1 := inv0 (Z * Z * (u2 * u2) + Z * u2)                       -- 1
  let x1 := (-B / A) * (1 + tv1)                                      -- 2
  let x1 := if tv1 = 0 then B / (Z * A) else x1                       -- 3
  let gx1 := x1 * x1 * x1 + A * x1 + B                                -- 4
  let x2 := Z * u2 * x1                                               -- 5
  let gx2 := x2 * x2 * x2 + A * x2 + B                                -- 6
  let (x, y) := if isSquare X gx1 then (x1, sqrtOr0 X gx1)            -- 7
                else (x2, sqrtOr0 X gx2)                              -- 8
  let y := if sgn0F X u != sgn0F X y then -y else y                   -- 9
  (x, y)                                                              -- 10

/-- `gx1` of steps 1–4 of §6.6.2 (used to recognise the inputs with `gx1 = 0`) -/
def sswuGx1 (A B Z : F) (u : F) : F :=
  let u2 := u * u
  let tv1 := inv0 (Z * Z * (u2 * u2) + Z * u2)
  let x1 := (-B / A) * (1 + tv1)
  let x1 := if tv1 = 0 then B / (Z * A) else x1
  x1 * x1 * x1 + A * x1 + B

/-- the conditions of §6.6.2 on the parameters: `A ≠ 0`, `B ≠ 0`, `Z` non-square (criterion 1/2), and
    criterion 4 `g(B / (Z·A))` is square — here a *non-zero* square, because the code under test treats 0 as a
    non-square.  (Criterion 3, `g(x) − Z` irreducible, only matters for the distribution of the outputs.) -/
def sswuParamsOk (X : FieldX F) (A B Z : F) : Bool :=
  A != 0 && B != 0 && !(isSquare X Z) &&
    (let x0 := B / (Z * A); X.isQR (x0 * x0 * x0 + A * x0 + B))

/-- plain polynomial evaluation `Σ k_i x^i` -/
def evalPoly (ks : List F) (x : F) : F :=
  (ks.foldl (fun (acc : F × F) k => (acc.1 + k * acc.2, acc.2 * x)) (0, 1)).1

/-- §6.6.3 / Appendix E `iso_map(x', y')`: `x = x_num / x_den`, `y = y' · y_num / y_den`;
    inputs at which a denominator vanishes MUST be mapped to the identity point -/
def isoMap (iso : Iso F) (pt : F × F) : Option (F × F) :=
  let (x', y') := pt
  let xd := evalPoly iso.xDen x'
  let yd := evalPoly iso.yDen x'
  if xd = 0 ∨ yd = 0 then none
  else some (evalPoly iso.xNum x' / xd, y' * evalPoly iso.yNum x' / yd)

/-- §6.7.1 `map_to_curve_elligator2(u)` on `K t² = s³ + J s² + s`, `Z` non-square -/
def elligator2 (X : FieldX F) (J K Z : F) (u : F) : F × F :=
  let x1 := -(J / K) * inv0 (1 + Z * (u * u))                                   -- 1
  let x1 := if x1 = 0 then -(J / K) else x1                                     -- 2
  let gx1 := x1 * x1 * x1 + (J / K) * (x1 * x1) + x1 / (K * K)                  -- 3
  let x2 := -x1 - (J / K)                                                       -- 4
  let gx2 := x2 * x2 * x2 + (J / K) * (x2 * x2) + x2 / (K * K)                  -- 5
  let (x, y) :=
    if isSquare X gx1 then                                                      -- 6: sgn0(y) == 1
      let y := sqrtOr0 X gx1; (x1, if sgn0F X y == 1 then y else -y)
    else                                                                        -- 7: sgn0(y) == 0
      let y := sqrtOr0 X gx2; (x2, if sgn0F X y == 0 then y else -y)
  (x * K, y * K)                                                                -- 8–10

/-- Appendix D.1 rational map Montgomery → twisted Edwards: `(v, w) = (s / t, (s − 1) / (s + 1))`,
    exceptional cases `t = 0` or `s = −1` ↦ `(0, 1)` -/
def montToEdwards (st : F × F) : F × F :=
  let (s, t) := st
  if t = 0 ∨ s + 1 = 0 then (0, 1) else (s / t, (s - 1) / (s + 1))

/-- §6.8.2 `map_to_curve_elligator2_edwards` -/
def elligator2Edwards (X : FieldX F) (J K Z : F) (u : F) : F × F := montToEdwards (elligator2 X J K Z u)

/-- §3 `hash_to_curve` steps 4–5 with §7 `clear_cofactor(P) := h_eff * P` (short Weierstrass target) -/
def finishSw (a : F) (hEff : Nat) (q0 q1 : SwPt F) : SwPt F := swSmul a hEff (swAdd a q0 q1)

end maps

/-! ### the two supported suites (§8.8.1, §8.8.2): parameters as printed in the RFC -/

def blsP : Nat := 0x1a0111ea397fe69a4b1ba7b6434bacd764774b84f38512bf6730d2a0f6b0f6241eabfffeb153ffffb9feffffffffaaab
def blsR : Nat := 0x73eda753299d7d483339d80809a1d80553bda402fffe5bfeffffffff00000001
/-- BLS12381G1_XMD:SHA-256_SSWU_RO_: `A'`, `B'`, `Z`, `h_eff`; `m = 1`, `k = 128`, `L = 64` -/
def g1A : Nat := 0x144698a3b8e9433d693a02c96d4982b0ea985383ee66a8d8e8981aefd881ac98936f8da0e0f97f5cf428082d584c1d
def g1B : Nat := 0x12e2908d11688030018b12e8753eee3b2016c1f0f24f4070a0b9c14fcef35ef55a23215a316ceaa5d1cc48e98e172be0
def g1Z : Nat := 11
def g1HEff : Nat := 0xd201000000010001
/-- BLS12381G2_XMD:SHA-256_SSWU_RO_: `A' = 240 I`, `B' = 1012 (1 + I)`, `Z = −(2 + I)`, `h_eff`; `m = 2` -/
def g2A : Nat × Nat := (0, 240)
def g2B : Nat × Nat := (1012, 1012)
def g2Z : Nat × Nat := (blsP - 2, blsP - 1)
def g2HEff : Nat := 0xbc69f08f2ee75b3584c6a0ea91b352888e2a8e9145ad7689986ff031508ffe1329c2f178731db956d82bf015d1212b02ec0ec69d7477c1ae954cbc06689f6a359894c0adebbf6b4e8020005aaa95551

end Rfc
end Ark.H2C

/-! # hash_to_field from an XOF reader (appended; nothing above is changed) -/

namespace Ark.H2C

/-- `digest::XofReader`, as far as `hash_to_field` uses it: `fn read(&mut self, buffer: &mut [u8])`
    (reader state and the buffer's old contents in, the buffer's new contents and the new state out;
    a `&mut [u8]` cannot change its length: a reader model is expected to return `buffer.length` bytes) -/
structure XofReader (σ : Type) where
  read : σ → Bytes → Bytes × σ

/-- the closure `base_prime_field_elem` of the free function `hash_to_field`, called once per item of `(0..m)`:
    `h.read(alloca); F::BasePrimeField::from_be_bytes_mod_order(alloca)` — the same buffer is reused by every call.
    (`from_base_prime_field_elems` pulls exactly `m` items out of `(0..m).map(..)`: `exactly_one` for a prime
    field, `iter.by_ref().take(d)` per component of an extension, and a final `iter.next()` on the exhausted range.) -/
def xofElems {σ : Type} (R : XofReader σ) (p : Nat) : Nat → σ → Bytes → List Nat × σ
  | 0, h, _ => ([], h)
  | k + 1, h, buf =>
    let (buf', h') := R.read h buf
    let c := os2ip buf' % p                                   -- from_be_bytes_mod_order
    let (cs, h'') := xofElems R p k h' buf'
    (c :: cs, h'')

/-- `ark_ff::fields::field_hashers::hash_to_field::<F, H: XofReader, SEC_PARAM>(h: &mut H) -> F`:
    the `m = F::extension_degree()` base-prime-field coordinates and the reader's final state.
    Panics: the slice `&mut alloca[0..len_per_base_elem]` of the 2048-byte stack array.
    (`from_base_prime_field_elems(..).unwrap()` is given exactly `m` items: never `None`.) -/
def hashToFieldXof {σ : Type} (R : XofReader σ) (p modBits m secParam : Nat) (h : σ) : Outcome (List Nat × σ) :=
  let len := getLenPerElem modBits secParam
  if len > 2048 then .panic
  else .ok (xofElems R p m h (List.replicate len 0))

/-- the reader used by the harness (`StreamXof` in harness/src/bin/c13.rs): yields the given byte stream, then zeros;
    state = (bytes not yet delivered, number of bytes requested so far) -/
def streamReader : XofReader (Bytes × Nat) where
  read := fun (d, cnt) buf =>
    let n := buf.length
    (d.take n ++ List.replicate (n - d.length) 0, (d.drop n, cnt + n))

namespace Rfc

/-- RFC 9380 §5.2 `hash_to_field(msg, count = 1)`, steps 3–8, on a GIVEN `uniform_bytes` string
    (`expand_message` is a parameter of the construction: §5.3.2 `expand_message_xof` takes it from an XOF):
    `e_j = OS2IP(substr(uniform_bytes, L·j, L)) mod p` for `j = 0 … m − 1`, `L = ceil((ceil(log2 p) + k) / 8)` -/
def hashToFieldOfBytes (p m k : Nat) (uniformBytes : Bytes) : List Nat :=
  let L := paramL p k
  (List.range m).map fun j =>
    let elmOffset := L * j
    let tv := (uniformBytes.drop elmOffset).take L
    os2ip tv % p

/-- `len_in_bytes = count * m * L` with `count = 1`: the number of bytes of the XOF output that are consumed -/
def lenInBytes1 (p m k : Nat) : Nat := 1 * m * paramL p k

end Rfc
end Ark.H2C
