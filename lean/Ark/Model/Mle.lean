import Ark.Model.Limbs
/-
  Ark.Model.Mle — model of
    poly/src/evaluations/multivariate/multilinear/{mod,dense,sparse}.rs   (multilinear extensions)
    poly/src/polynomial/multivariate/{mod,sparse}.rs                      (sparse multivariate polynomials)
  transcribed function by function, generic over core operator classes (executed at `Ark.Fp p`
  by `Ark.DrvC17`, to be proved over `[CommRing F]` / `[Field F]`).

  Conventions
  * `usize` is modelled by `Nat`: `1 << num_vars` never wraps (the Rust code wraps / panics in debug
    for `num_vars ≥ 64`; all statements are for `num_vars < 64`).
  * a Rust panic (failed `assert!`, slice index out of bounds) is `Outcome.panic`.
  * `BTreeMap<usize, F>` is a key-sorted association list without duplicate keys (`TreeMap`).
    The `hashbrown::HashMap`s used as scratch space inside `fix_variables` / `add` are modelled by the
    same canonical list: their iteration order only feeds additions into per-key accumulators and a
    final conversion to a `BTreeMap`, so the order is unobservable in a commutative additive group.
-/
namespace Ark.Mle
open Ark

/-- `Outcome` as a monad (scoped: active only inside `Ark.Mle`) -/
def obind {α β} (x : Outcome α) (f : α → Outcome β) : Outcome β :=
  match x with
  | .ok a => f a
  | .panic => .panic

scoped instance : Monad Outcome where
  pure := .ok
  bind := obind

def omapM {α β} (f : α → Outcome β) : List α → Outcome (List β)
  | [] => .ok []
  | a :: as => do let b ← f a; let bs ← omapM f as; pure (b :: bs)

def ofOption {α} : Option α → Outcome α
  | some a => .ok a
  | none => .panic

/-- `assert!(c)` -/
def assert (c : Bool) : Outcome Unit := if c then .ok () else .panic

/-! ## integer helpers -/

/-- `usize::next_power_of_two` (`0 ↦ 1`) -/
def nextPow2Aux : Nat → Nat → Nat → Nat
  | 0, p, _ => p
  | fuel + 1, p, n => if p ≥ n then p else nextPow2Aux fuel (2 * p) n
def nextPow2 (n : Nat) : Nat := nextPow2Aux (n + 1) 1 n

/-- `ark_std::log2`: `0 ↦ 0`, exact on powers of two, otherwise `⌊log₂ x⌋ + 1` -/
def arkLog2 (x : Nat) : Nat :=
  if x = 0 then 0 else if 2 ^ x.log2 = x then x.log2 else x.log2 + 1

/-- `swap_bits(x, a, b, n)` of `multilinear/mod.rs`: exchange the `n`-bit windows at `a` and `b` -/
def swapBits (x a b n : Nat) : Nat :=
  let aBits := (x >>> a) &&& ((1 <<< n) - 1)
  let bBits := (x >>> b) &&& ((1 <<< n) - 1)
  let localXorMask := aBits ^^^ bBits
  let globalXorMask := (localXorMask <<< a) ||| (localXorMask <<< b)
  x ^^^ globalXorMask

section Generic
variable {F : Type} [Add F] [Sub F] [Mul F] [Neg F] [Zero F] [One F] [DecidableEq F]

def isZeroF (x : F) : Bool := decide (x = 0)
def isOneF (x : F) : Bool := decide (x = 1)
def zeros (n : Nat) : List F := List.replicate n 0

/-- `v[i] = x` on a `Vec` (panics when out of bounds) -/
def setAt {α} (l : List α) (i : Nat) (x : α) : Outcome (List α) :=
  if i < l.length then .ok (l.set i x) else .panic

/-- `slice.swap(i, j)` -/
def swapAt {α} (l : List α) (i j : Nat) : Outcome (List α) :=
  match l[i]?, l[j]? with
  | some x, some y => .ok ((l.set i y).set j x)
  | _, _ => .panic

/-! ## `DenseMultilinearExtension` (dense.rs) -/

structure Dense (F : Type) where
  numVars : Nat
  evals : List F
  deriving Repr, DecidableEq

namespace Dense

/-- `from_evaluations_vec` / `from_evaluations_slice`: `assert_eq!(evaluations.len(), 1 << num_vars)` -/
def fromEvaluationsVec (numVars : Nat) (evals : List F) : Outcome (Dense F) := do
  assert (evals.length == 1 <<< numVars)
  pure ⟨numVars, evals⟩

/-- loop body of `relabel_in_place`: `for i in 0..len { j = swap_bits(i,a,b,k); if i < j { swap(i,j) } }` -/
def relabelLoop (a b k : Nat) : List Nat → List F → Outcome (List F)
  | [], ev => .ok ev
  | i :: is, ev =>
    let j := swapBits i a b k
    if i < j then do let ev' ← swapAt ev i j; relabelLoop a b k is ev'
    else relabelLoop a b k is ev

/-- `relabel_in_place(a, b, k)` (and `relabel`, which clones first) -/
def relabel (d : Dense F) (a b k : Nat) : Outcome (Dense F) :=
  let (a, b) := if a > b then (b, a) else (a, b)
  if a == b || k == 0 then .ok d
  else do
    assert (b + k ≤ d.numVars)        -- "invalid relabel argument"
    assert (a + k ≤ b)                -- "overlapped swap window is not allowed"
    let ev ← relabelLoop a b k (List.range d.evals.length) d.evals
    pure ⟨d.numVars, ev⟩

/-- `concat`: tables appended, zero-padded to `next_power_of_two`, `num_vars = log2` of that -/
def concat (polys : List (Dense F)) : Outcome (Dense F) :=
  let totalLen := (polys.map (fun p => p.evals.length)).foldl (· + ·) 0
  let np := nextPow2 totalLen
  let numVars := arkLog2 np
  let ev := polys.foldl (fun acc p => acc ++ p.evals) ([] : List F)
  -- `Vec::resize(next_pow_of_two, 0)` (never truncates: `np ≥ totalLen`)
  let ev := if ev.length ≤ np then ev ++ zeros (np - ev.length) else ev.take np
  fromEvaluationsVec numVars ev

/-- one round of the folding loop of `fix_variables`: for `b < m`,
    `poly[b] = poly[2b] + r * (poly[2b+1] - poly[2b])`; reads are ahead of writes, so the new prefix
    depends on the old vector only. Entries `≥ m` stay (stale). -/
def foldPairs (r : F) : Nat → List F → Outcome (List F)
  | 0, _ => .ok []
  | m + 1, l :: rt :: rest => do let t ← foldPairs r m rest; pure ((l + r * (rt - l)) :: t)
  | _ + 1, _ => .panic

def fixRounds (nv : Nat) : Nat → List F → List F → Outcome (List F)
  | _, [], poly => .ok poly
  | i, r :: rs, poly => do
    let m := 1 <<< (nv - i)
    let pre ← foldPairs r m poly
    fixRounds nv (i + 1) rs (pre ++ poly.drop m)

/-- `fix_variables(partial_point)` -/
def fixVariables (d : Dense F) (pp : List F) : Outcome (Dense F) := do
  assert (pp.length ≤ d.numVars)      -- "invalid size of partial point"
  let nv := d.numVars
  let dim := pp.length
  let poly ← fixRounds nv 1 pp d.evals
  let n := 1 <<< (nv - dim)
  assert (n ≤ poly.length)            -- `&poly[..n]`
  fromEvaluationsVec (nv - dim) (poly.take n)

def toEvaluations (d : Dense F) : List F := d.evals

/-- `Index<usize>` -/
def index (d : Dense F) (i : Nat) : Outcome F := ofOption d.evals[i]?

/-- `Polynomial::evaluate`: `assert!(point.len() == num_vars); fix_variables(point)[0]` -/
def evaluate (d : Dense F) (pt : List F) : Outcome F := do
  assert (pt.length == d.numVars)
  let r ← d.fixVariables pt
  r.index 0

def zero : Dense F := ⟨0, [0]⟩

/-- `is_zero`: `num_vars == 0 && evaluations[0].is_zero()` -/
def isZero (d : Dense F) : Outcome Bool :=
  if d.numVars == 0 then do let x ← d.index 0; pure (isZeroF x) else .ok false

/-- `&a + &b` (all other `Add`/`AddAssign` forms delegate to it) -/
def add (s rhs : Dense F) : Outcome (Dense F) := do
  if (← rhs.isZero) then return s
  if (← s.isZero) then return rhs
  assert (s.numVars == rhs.numVars)
  fromEvaluationsVec s.numVars (List.zipWith (· + ·) s.evals rhs.evals)

/-- `Neg` -/
def neg (d : Dense F) : Dense F := ⟨d.numVars, d.evals.map (fun x => -x)⟩

/-- `&a - &b = a + &b.clone().neg()` -/
def sub (s rhs : Dense F) : Outcome (Dense F) := s.add rhs.neg

/-- `AddAssign<(F, &Self)>`: `self = self + (f * other)` (entrywise `f * x`) -/
def addScaled (s : Dense F) (f : F) (other : Dense F) : Outcome (Dense F) :=
  s.add ⟨other.numVars, other.evals.map (fun x => f * x)⟩

/-- `&a * &scalar`: `0 ↦ zero()` (the **0-variable** zero), `1 ↦ clone`, else entrywise `x * scalar` -/
def mul (d : Dense F) (s : F) : Dense F :=
  if isZeroF s then zero
  else if isOneF s then d
  else ⟨d.numVars, d.evals.map (fun x => x * s)⟩

end Dense

/-! ## `SparseMultilinearExtension` (sparse.rs) -/

/-- `BTreeMap<usize, F>` / scratch `HashMap<usize, F>`: strictly key-sorted association list -/
abbrev TreeMap (F : Type) := List (Nat × F)

namespace TreeMap
/-- `map.insert(k, v)` -/
def insert (k : Nat) (v : F) : TreeMap F → TreeMap F
  | [] => [(k, v)]
  | (k', v') :: rest =>
    if k < k' then (k, v) :: (k', v') :: rest
    else if k = k' then (k, v) :: rest
    else (k', v') :: insert k v rest

def get? (k : Nat) : TreeMap F → Option F
  | [] => none
  | (k', v') :: rest => if k = k' then some v' else if k < k' then none else get? k rest

/-- `*map.entry(k).or_insert(F::zero()) += x` -/
def accumulate (m : TreeMap F) (k : Nat) (x : F) : TreeMap F :=
  match get? k m with
  | some y => insert k (y + x) m
  | none => insert k (0 + x) m

/-- `tuples_to_treemap` / `.collect::<BTreeMap>()`: later pairs override earlier ones -/
def ofTuples (l : List (Nat × F)) : TreeMap F := l.foldl (fun m kv => insert kv.1 kv.2 m) []
end TreeMap

structure Sparse (F : Type) where
  numVars : Nat
  evals : TreeMap F
  deriving Repr, DecidableEq

namespace Sparse

/-- `from_evaluations`: `assert!(i < 1 << num_vars, "index out of range")` for every pair, then collect -/
def fromEvaluations (numVars : Nat) (evals : List (Nat × F)) : Outcome (Sparse F) := do
  let bitMask := 1 <<< numVars
  assert (evals.all (fun iv => iv.1 < bitMask))
  pure ⟨numVars, TreeMap.ofTuples evals⟩

def writeAll : List (Nat × F) → List F → Outcome (List F)
  | [], ev => .ok ev
  | (i, v) :: rest, ev => do let ev' ← setAt ev i v; writeAll rest ev'

/-- `to_dense_multilinear_extension` -/
def toDense (s : Sparse F) : Outcome (Dense F) := do
  let ev ← writeAll s.evals (zeros (1 <<< s.numVars))
  Dense.fromEvaluationsVec s.numVars ev

/-- `precompute_eq(g)`: table of `eq(g, ·)`; indexes `g[0]` unconditionally (panics on empty `g`) -/
def precomputeEq : List F → Outcome (List F)
  | [] => .panic
  | g0 :: gs => .ok (gs.foldl (fun dp gi =>
      -- `dp[b + 2^i] = dp[b] * g[i]; dp[b] = dp[b] - dp[b + 2^i]` for `b < 2^i`
      let hi := dp.map (fun prev => prev * gi)
      List.zipWith (fun prev h => prev - h) dp hi ++ hi) [1 - g0, g0])

/-- one batch of `fix_variables`: fold the low `dim` bits of every key with the weights `pre` -/
def foldBatch (pre : List F) (dim : Nat) : List (Nat × F) → TreeMap F → Outcome (TreeMap F)
  | [], result => .ok result
  | (oldIdx, v) :: rest, result => do
    let gz ← ofOption pre[oldIdx &&& ((1 <<< dim) - 1)]?
    let newIdx := oldIdx >>> dim
    foldBatch pre dim rest (TreeMap.accumulate result newIdx (gz * v))

/-- the `while !point.is_empty()` loop of `fix_variables` (fuel = remaining coordinates) -/
def fixLoop (window : Nat) : Nat → List F → TreeMap F → Outcome (TreeMap F)
  | 0, _, last => .ok last
  | fuel + 1, point, last =>
    if point.isEmpty then .ok last
    else do
      let focusLength := if point.length > window then window else point.length
      let focus := point.take focusLength
      let point' := point.drop focusLength
      let pre ← precomputeEq focus
      let result ← foldBatch pre focus.length last []
      fixLoop window fuel point' result

/-- `fix_variables(partial_point)`: batches of `window = max(1, log2(#entries))` coordinates -/
def fixVariables (s : Sparse F) (pp : List F) : Outcome (Sparse F) := do
  let dim := pp.length
  assert (dim ≤ s.numVars)            -- "invalid partial point dimension"
  let window := arkLog2 s.evals.length
  let window := if window == 0 then 1 else window
  let last ← fixLoop window pp.length pp s.evals
  pure ⟨s.numVars - dim, last⟩

/-- `to_evaluations`: `for (&i, &v) in evaluations.iter() { evaluations[i] = v }` over a zero vector
    of length `1 << num_vars` (index panics when a key is out of range) -/
def toEvaluations (s : Sparse F) : Outcome (List F) :=
  writeAll s.evals (zeros (1 <<< s.numVars))

/-- `Index<usize>`: stored value or `zero` (never panics, whatever the index) -/
def index (s : Sparse F) (i : Nat) : F :=
  match TreeMap.get? i s.evals with
  | some v => v
  | none => 0

/-- `Polynomial::evaluate` -/
def evaluate (s : Sparse F) (pt : List F) : Outcome F := do
  assert (pt.length == s.numVars)
  let r ← s.fixVariables pt
  pure (r.index 0)

/-- `relabel(a, b, k)`: order `a ≤ b`; no-op when `a == b || k == 0`; then the range check
    (`<=`) and the overlap check, as in the dense `relabel_in_place` -/
def relabel (s : Sparse F) (a b k : Nat) : Outcome (Sparse F) :=
  let (a, b) := if a > b then (b, a) else (a, b)
  if a == b || k == 0 then .ok s
  else do
    assert (decide (a + k ≤ s.numVars) && decide (b + k ≤ s.numVars))   -- "invalid relabel argument"
    assert (a + k ≤ b)                                                   -- "overlapped swap window…"
    pure ⟨s.numVars, TreeMap.ofTuples (s.evals.map (fun iv => (swapBits iv.1 a b k, iv.2)))⟩

def zero : Sparse F := ⟨0, []⟩

/-- `is_zero`: `num_vars == 0 && evaluations.values().all(Zero::is_zero)` -/
def isZero (s : Sparse F) : Bool := s.numVars == 0 && s.evals.all (fun iv => isZeroF iv.2)

/-- `&a + &b`: zero cases first, then merge into a hash map, drop zero sums -/
def add (s rhs : Sparse F) : Outcome (Sparse F) := do
  if s.isZero then return rhs
  if rhs.isZero then return s
  assert (rhs.numVars == s.numVars)    -- "trying to add non-zero polynomial with different number of variables"
  let merged := (s.evals ++ rhs.evals).foldl (fun m iv => TreeMap.accumulate m iv.1 iv.2) ([] : TreeMap F)
  let kept := merged.filter (fun iv => !isZeroF iv.2)
  pure ⟨s.numVars, TreeMap.ofTuples kept⟩

/-- `Neg` -/
def neg (s : Sparse F) : Sparse F := ⟨s.numVars, TreeMap.ofTuples (s.evals.map (fun iv => (iv.1, -iv.2)))⟩

/-- `&a - &b = a + &b.clone().neg()` -/
def sub (s rhs : Sparse F) : Outcome (Sparse F) := s.add rhs.neg

/-- `AddAssign<(F, &Self)>` -/
def addScaled (s : Sparse F) (f : F) (other : Sparse F) : Outcome (Sparse F) := do
  if !s.isZero && !other.isZero then assert (other.numVars == s.numVars)
  let other' : Sparse F := ⟨other.numVars, TreeMap.ofTuples (other.evals.map (fun iv => (iv.1, f * iv.2)))⟩
  s.add other'

end Sparse

/-! ## `SparseTerm` (polynomial/multivariate/mod.rs) -/

/-- `SparseTerm(Vec<(usize, usize)>)`: `(variable, power)` pairs -/
abbrev Term := List (Nat × Nat)

namespace Term

/-- `SparseTerm::combine` (assumes sorted input): sum the powers of adjacent equal variables -/
def combineGo (v p : Nat) : List (Nat × Nat) → List (Nat × Nat)
  | [] => [(v, p)]
  | (v', p') :: rest => if v = v' then combineGo v (p + p') rest else (v, p) :: combineGo v' p' rest
def combine : List (Nat × Nat) → List (Nat × Nat)
  | [] => []
  | (v, p) :: rest => combineGo v p rest

/-- stable insertion (after all elements that are `≤`) — `sort_by` is a stable sort -/
def insertBy {α} (le : α → α → Bool) (x : α) : List α → List α
  | [] => [x]
  | y :: ys => if le y x then y :: insertBy le x ys else x :: y :: ys
def stableSort {α} (le : α → α → Bool) (l : List α) : List α :=
  l.foldl (fun acc x => insertBy le x acc) []

/-- `SparseTerm::new`: drop zero powers; if more than one factor remains, sort by variable and combine -/
def new (term : List (Nat × Nat)) : Term :=
  let term := term.filter (fun vp => vp.2 != 0)
  if term.length > 1 then combine (stableSort (fun x y => x.1 ≤ y.1) term) else term

/-- `degree`: sum of the powers -/
def degree (t : Term) : Nat := t.foldl (fun sum vp => sum + vp.2) 0
def vars (t : Term) : List Nat := t.map (·.1)
def powers (t : Term) : List Nat := t.map (·.2)
def isConstant (t : Term) : Bool := t.isEmpty || t.degree == 0

/-- big-endian bits of `n` without leading zeros (`BitIteratorBE::without_leading_zeros`) -/
def bitsBEAux : Nat → Nat → List Bool → List Bool
  | 0, _, acc => acc
  | fuel + 1, n, acc => if n = 0 then acc else bitsBEAux fuel (n / 2) ((n % 2 == 1) :: acc)
def bitsBE (n : Nat) : List Bool := bitsBEAux (n.log2 + 1) n []

/-- `Field::pow`: left-to-right square-and-multiply -/
def fpow (x : F) (e : Nat) : F :=
  (bitsBE e).foldl (fun res bit => let s := res * res; if bit then s * x else s) 1

/-- `Term::evaluate`: `Π point[var].pow(power)` (`Iterator::product` starts from one); index panics -/
def evaluate (t : Term) (point : List F) : Outcome F :=
  t.foldl (fun acc vp => do
    let a ← acc
    let x ← ofOption point[vp.1]?
    pure (a * fpow x vp.2)) (.ok 1)

def natCmp (a b : Nat) : Ordering := if a < b then .lt else if a > b then .gt else .eq

/-- the zipped loop of `partial_cmp` (degrees already equal) -/
def cmpZip : List (Nat × Nat) → List (Nat × Nat) → Ordering
  | (cv, cp) :: cs, (ov, op) :: os =>
    if ov = cv then (if cp ≠ op then natCmp cp op else cmpZip cs os)
    else natCmp ov cv
  | _, _ => .eq

/-- `Ord::cmp` / `PartialOrd::partial_cmp`: total degree first, then `cmpZip` -/
def cmp (s o : Term) : Ordering :=
  if s.degree = o.degree then cmpZip s o else natCmp s.degree o.degree

end Term

/-! ## `SparsePolynomial<F, SparseTerm>` (polynomial/multivariate/sparse.rs) -/

structure MvPoly (F : Type) where
  numVars : Nat
  terms : List (F × Term)
  deriving Repr, DecidableEq

namespace MvPoly

/-- the dedup loop of `from_coefficients_vec`, with `terms_dedup` kept reversed (head = `last_mut()`) -/
def dedupGo : List (F × Term) → List (F × Term) → List (F × Term)
  | [], acc => acc.reverse
  | (c, t) :: rest, [] => dedupGo rest [(c, t)]
  | (c, t) :: rest, (pc, ptm) :: acc =>
    if ptm = t then dedupGo rest ((pc + c, ptm) :: acc) else dedupGo rest ((c, t) :: (pc, ptm) :: acc)

/-- `remove_zeros` -/
def removeZeros (l : List (F × Term)) : List (F × Term) := l.filter (fun ct => !isZeroF ct.1)

/-- `from_coefficients_vec` / `from_coefficients_slice` (terms already built by `SparseTerm::new`):
    stable sort by `cmp`, assert every variable `< num_vars`, merge equal neighbours, drop zeros -/
def fromCoefficientsVec (numVars : Nat) (terms : List (F × Term)) : Outcome (MvPoly F) := do
  let sorted := Term.stableSort (fun (x y : F × Term) => Term.cmp x.2 y.2 != .gt) terms
  assert (sorted.all (fun ct => ct.2.all (fun vp => vp.1 < numVars)))   -- "Invalid number of indeterminates"
  pure ⟨numVars, removeZeros (dedupGo sorted [])⟩

/-- `is_zero`: no terms, or all coefficients zero -/
def isZero (p : MvPoly F) : Bool := p.terms.isEmpty || p.terms.all (fun ct => isZeroF ct.1)

/-- `evaluate`: `assert!(point.len() >= num_vars)`; zero shortcut; `Σ coeff * term.evaluate(point)` -/
def evaluate (p : MvPoly F) (point : List F) : Outcome F := do
  assert (point.length ≥ p.numVars)     -- "Invalid evaluation domain"
  if p.isZero then return 0
  p.terms.foldl (fun acc ct => do
    let a ← acc
    let tv ← Term.evaluate ct.2 point
    pure (a + ct.1 * tv)) (.ok 0)

/-- `degree`: maximum term degree, `0` without terms -/
def degree (p : MvPoly F) : Nat := (p.terms.map (fun ct => Term.degree ct.2)).foldl max 0

/-- the merge loop of `&a + &b` over two peekable iterators (fuel = total number of terms) -/
def mergeGo : Nat → List (F × Term) → List (F × Term) → List (F × Term)
  | 0, _, _ => []
  | _ + 1, [], [] => []
  | fuel + 1, c :: cs, [] => c :: mergeGo fuel cs []
  | fuel + 1, [], o :: os => o :: mergeGo fuel [] os
  | fuel + 1, c :: cs, o :: os =>
    match Term.cmp c.2 o.2 with
    | .lt => c :: mergeGo fuel cs (o :: os)
    | .eq => (c.1 + o.1, c.2) :: mergeGo fuel cs os
    | .gt => o :: mergeGo fuel (c :: cs) os

/-- `&a + &b` -/
def add (s o : MvPoly F) : MvPoly F :=
  ⟨max s.numVars o.numVars, removeZeros (mergeGo (s.terms.length + o.terms.length) s.terms o.terms)⟩

/-- `Neg` -/
def neg (p : MvPoly F) : MvPoly F := ⟨p.numVars, p.terms.map (fun ct => (-ct.1, ct.2))⟩

/-- `&a - &b = a + &(b.clone().neg())` -/
def sub (s o : MvPoly F) : MvPoly F := s.add o.neg

/-- `AddAssign<(F, &Self)>`: `self + (coeff * f)`-scaled copy of `other` -/
def addScaled (s : MvPoly F) (f : F) (o : MvPoly F) : MvPoly F :=
  s.add ⟨o.numVars, o.terms.map (fun ct => (ct.1 * f, ct.2))⟩

/-- `Zero::zero() = Default::default()` -/
def zero : MvPoly F := ⟨0, []⟩

end MvPoly

end Generic
end Ark.Mle
