import Ark.Model.Curve
import Ark.Model.Fp
import Ark.Model.Proto
/-
  Driver dispatch for C03.
    C03 sw.<op> <fld> <a> <b> <mba> args…      mba: d = trait default `mul_by_a`, z = override returning 0
    C03 te.<op> <fld> <a> <d> <mba> args…      mba: d = trait default (elem * a),  n = override `-elem`
  <fld>  = p | p:2:nr | p:3:nr   (prime field, F_p[u]/(u²−nr), F_p[u]/(u³−nr); hex)
  element = c0 | c0.c1 | c0.c1.c2 ;  Jacobian point x/y/z ; extended point x/y/t/z ;
  SW affine: inf | x/y | inf!x/y (infinity flag set over non-zero placeholder coordinates) ; TE affine: x/y ;
  lists comma-separated, `_` empty.
  model output = raw coordinates computed by the model (plus ` @branch` tag);
  verdict      = the affine group law / curve equation applied to the implementation's output.
-/
namespace Ark.DrvC03
open Ark Ark.Proto Ark.Curve

/-! ### executable extension fields of the driver (textbook arithmetic in F_p[u]/(u^k − nr)) -/

structure Fq2 (p nr : Nat) where
  c0 : Fp p
  c1 : Fp p
  deriving DecidableEq

namespace Fq2
variable {p nr : Nat}
instance : Zero (Fq2 p nr) := ⟨⟨0, 0⟩⟩
instance : One (Fq2 p nr) := ⟨⟨1, 0⟩⟩
instance : Add (Fq2 p nr) := ⟨fun a b => ⟨a.c0 + b.c0, a.c1 + b.c1⟩⟩
instance : Sub (Fq2 p nr) := ⟨fun a b => ⟨a.c0 - b.c0, a.c1 - b.c1⟩⟩
instance : Neg (Fq2 p nr) := ⟨fun a => ⟨- a.c0, - a.c1⟩⟩
instance : Mul (Fq2 p nr) := ⟨fun a b =>
  ⟨a.c0 * b.c0 + Fp.ofNat p nr * (a.c1 * b.c1), a.c0 * b.c1 + a.c1 * b.c0⟩⟩
instance : Inv (Fq2 p nr) := ⟨fun a =>
  let n := (a.c0 * a.c0 - Fp.ofNat p nr * (a.c1 * a.c1))⁻¹
  ⟨a.c0 * n, (- a.c1) * n⟩⟩
end Fq2

structure Fq3 (p nr : Nat) where
  c0 : Fp p
  c1 : Fp p
  c2 : Fp p
  deriving DecidableEq

namespace Fq3
variable {p nr : Nat}
instance : Zero (Fq3 p nr) := ⟨⟨0, 0, 0⟩⟩
instance : One (Fq3 p nr) := ⟨⟨1, 0, 0⟩⟩
instance : Add (Fq3 p nr) := ⟨fun a b => ⟨a.c0 + b.c0, a.c1 + b.c1, a.c2 + b.c2⟩⟩
instance : Sub (Fq3 p nr) := ⟨fun a b => ⟨a.c0 - b.c0, a.c1 - b.c1, a.c2 - b.c2⟩⟩
instance : Neg (Fq3 p nr) := ⟨fun a => ⟨- a.c0, - a.c1, - a.c2⟩⟩
instance : Mul (Fq3 p nr) := ⟨fun a b =>
  let n := Fp.ofNat p nr
  ⟨a.c0 * b.c0 + n * (a.c1 * b.c2 + a.c2 * b.c1),
   a.c0 * b.c1 + a.c1 * b.c0 + n * (a.c2 * b.c2),
   a.c0 * b.c2 + a.c1 * b.c1 + a.c2 * b.c0⟩⟩
instance : Inv (Fq3 p nr) := ⟨fun a =>
  let n := Fp.ofNat p nr
  let t0 := a.c0 * a.c0 - n * (a.c1 * a.c2)
  let t1 := n * (a.c2 * a.c2) - a.c0 * a.c1
  let t2 := a.c1 * a.c1 - a.c0 * a.c2
  let nm := (a.c0 * t0 + n * (a.c2 * t1 + a.c1 * t2))⁻¹
  ⟨t0 * nm, t1 * nm, t2 * nm⟩⟩
end Fq3

/-! ### parsing / printing -/

structure FieldIO (F : Type) where
  parse : String → Option F
  str : F → String

def fpIO (p : Nat) : FieldIO (Fp p) where
  parse s := (parseHex? s).map (Fp.ofNat p)
  str x := hex x.val

def fq2IO (p nr : Nat) : FieldIO (Fq2 p nr) where
  parse s := match s.splitOn "." with
    | [a, b] => do let a ← parseHex? a; let b ← parseHex? b; some ⟨Fp.ofNat p a, Fp.ofNat p b⟩
    | _ => none
  str x := hex x.c0.val ++ "." ++ hex x.c1.val

def fq3IO (p nr : Nat) : FieldIO (Fq3 p nr) where
  parse s := match s.splitOn "." with
    | [a, b, c] => do
      let a ← parseHex? a; let b ← parseHex? b; let c ← parseHex? c
      some ⟨Fp.ofNat p a, Fp.ofNat p b, Fp.ofNat p c⟩
    | _ => none
  str x := hex x.c0.val ++ "." ++ hex x.c1.val ++ "." ++ hex x.c2.val

def vs (impl spec : String) : String := if impl == spec then "ok" else "bad:want=" ++ spec

section Generic
variable {F : Type} [Add F] [Sub F] [Mul F] [Neg F] [Zero F] [One F] [Inv F] [DecidableEq F]
variable (io : FieldIO F)

def parseList? {α} (f : String → Option α) (s : String) : Option (List α) :=
  if s == "_" then some [] else mapM? f (s.splitOn ",")
def strList {α} (f : α → String) (l : List α) : String :=
  if l.isEmpty then "_" else joinWith "," (l.map f)

-- SW syntax
def pJac (s : String) : Option (SW.Jac F) := match s.splitOn "/" with
  | [x, y, z] => do some ⟨← io.parse x, ← io.parse y, ← io.parse z⟩
  | _ => none
def sJac (p : SW.Jac F) : String := io.str p.x ++ "/" ++ io.str p.y ++ "/" ++ io.str p.z
def pSWAff (s : String) : Option (SW.Affine F) :=
  if s == "inf" then some SW.Affine.identity
  else if s.startsWith "inf!" then
    match (s.drop 4).toString.splitOn "/" with
    | [x, y] => do some ⟨← io.parse x, ← io.parse y, true⟩
    | _ => none
  else match s.splitOn "/" with
    | [x, y] => do some ⟨← io.parse x, ← io.parse y, false⟩
    | _ => none
def sSWAff (p : SW.Affine F) : String :=
  if p.infinity then (if p.x = 0 ∧ p.y = 0 then "inf" else "inf!" ++ io.str p.x ++ "/" ++ io.str p.y)
  else io.str p.x ++ "/" ++ io.str p.y
def sOutSWAff : Outcome (SW.Affine F) → String
  | .ok a => sSWAff io a
  | .panic => "panic"
/-- canonical text of a spec-level affine point -/
def sPt : Option (F × F) → String
  | none => "inf"
  | some (x, y) => io.str x ++ "/" ++ io.str y

-- TE syntax
def pExt (s : String) : Option (TE.Ext F) := match s.splitOn "/" with
  | [x, y, t, z] => do some ⟨← io.parse x, ← io.parse y, ← io.parse t, ← io.parse z⟩
  | _ => none
def sExt (p : TE.Ext F) : String :=
  io.str p.x ++ "/" ++ io.str p.y ++ "/" ++ io.str p.t ++ "/" ++ io.str p.z
def pTEAff (s : String) : Option (TE.Affine F) := match s.splitOn "/" with
  | [x, y] => do some ⟨← io.parse x, ← io.parse y⟩
  | _ => none
def sTEAff (p : TE.Affine F) : String := io.str p.x ++ "/" ++ io.str p.y
def sOutTEAff : Outcome (TE.Affine F) → String
  | .ok a => sTEAff io a
  | .panic => "panic"
def sPt2 (p : F × F) : String := io.str p.1 ++ "/" ++ io.str p.2

/-- verdict on a raw Jacobian result: denotes the wanted affine point, which is on the curve -/
def judgeJac (c : SW.Curve F) (impl : String) (want : Option (F × F)) : String :=
  if impl == "panic" then "bad:panic" else
  match pJac io impl with
  | none => "bad:unparsable"
  | some r =>
    let got := SW.toAff r
    if got ≠ want then "bad:want=" ++ sPt io want ++ ",got=" ++ sPt io got
    else if !SW.onCurve c.a c.b got then "bad:off-curve"
    else "ok"

/-- verdict on a raw extended result: well-formed (`Z ≠ 0`, `TZ = XY`), denotes the wanted point, on the curve -/
def judgeExt (c : TE.Curve F) (impl : String) (want : F × F) : String :=
  if impl == "panic" then "bad:panic" else
  match pExt io impl with
  | none => "bad:unparsable"
  | some r =>
    match TE.toAff r with
    | none => "bad:z=0,want=" ++ sPt2 io want
    | some got =>
      if got ≠ want then "bad:want=" ++ sPt2 io want ++ ",got=" ++ sPt2 io got
      else if !TE.wellFormed r then "bad:T"
      else if !TE.onCurve c.a c.d got then "bad:off-curve"
      else "ok"

def runSW (deg12 : Bool) (op : String) (args : List String) (impl : String) : Option (String × String) := do
  match args with
  | a :: b :: mba :: rest =>
    let a ← io.parse a
    let b ← io.parse b
    let c : SW.Curve F ← match mba with
      | "d" => some (SW.Curve.std a b deg12)
      | "z" => some ⟨a, b, fun _ => 0, deg12⟩
      | _ => none
    let aff := fun (p : SW.Jac F) => SW.toAff p
    match op, rest with
    | "add", [p, q] =>
      let p ← pJac io p; let q ← pJac io q
      some (sJac io (SW.add c p q) ++ " @" ++ SW.addTag c p q, judgeJac io c impl (SW.affAdd c.a (aff p) (aff q)))
    | "sub", [p, q] =>
      let p ← pJac io p; let q ← pJac io q
      some (sJac io (SW.sub c p q) ++ " @" ++ SW.addTag c p q.neg, judgeJac io c impl (SW.affAdd c.a (aff p) (SW.affNeg (aff q))))
    | "madd", [p, q] =>
      let p ← pJac io p; let q ← pSWAff io q
      some (sJac io (SW.addMixed c p q) ++ " @" ++ SW.addMixedTag c p q, judgeJac io c impl (SW.affAdd c.a (aff p) (SW.ofAffine q)))
    | "msub", [p, q] =>
      let p ← pJac io p; let q ← pSWAff io q
      some (sJac io (SW.subMixed c p q) ++ " @" ++ SW.addMixedTag c p q.neg, judgeJac io c impl (SW.affAdd c.a (aff p) (SW.affNeg (SW.ofAffine q))))
    | "aadd", [p, q] =>
      let p ← pSWAff io p; let q ← pSWAff io q
      some (sJac io (SW.affineAdd c p q) ++ " @" ++ SW.addMixedTag c (SW.fromAffine p) q, judgeJac io c impl (SW.affAdd c.a (SW.ofAffine p) (SW.ofAffine q)))
    | "asub", [p, q] =>
      let p ← pSWAff io p; let q ← pSWAff io q
      some (sJac io (SW.affineSub c p q), judgeJac io c impl (SW.affAdd c.a (SW.ofAffine p) (SW.affNeg (SW.ofAffine q))))
    | "dbl", [p] =>
      let p ← pJac io p
      some (sJac io (SW.double c p) ++ " @" ++ SW.doubleTag c p, judgeJac io c impl (SW.affAdd c.a (aff p) (aff p)))
    | "neg", [p] =>
      let p ← pJac io p
      some (sJac io p.neg, judgeJac io c impl (SW.affNeg (aff p)))
    | "aneg", [p] =>
      let p ← pSWAff io p
      let v := match pSWAff io impl with
        | some r => if SW.ofAffine r = SW.affNeg (SW.ofAffine p) then "ok" else "bad:want=" ++ sPt io (SW.affNeg (SW.ofAffine p))
        | none => "bad:unparsable"
      some (sSWAff io p.neg, v)
    | "eq", [p, q] =>
      let p ← pJac io p; let q ← pJac io q
      some (boolStr (p.eq q), vs impl (boolStr (decide (aff p = aff q))))
    | "aeqp", [p, q] =>
      let p ← pSWAff io p; let q ← pJac io q
      some (boolStr (SW.affineEqProj p q), vs impl (boolStr (decide (SW.ofAffine p = aff q))))
    | "iszero", [p] =>
      let p ← pJac io p
      some (boolStr p.isZero, vs impl (boolStr (decide (aff p = none))))
    | "toaffine", [p] =>
      let p ← pJac io p
      some (sOutSWAff io (SW.toAffine p), vs impl (sPt io (aff p)))
    | "fromaffine", [p] =>
      let p ← pSWAff io p
      some (sJac io (SW.fromAffine p), judgeJac io c impl (SW.ofAffine p))
    | "batchnorm", [l] =>
      let l ← parseList? (pJac io) l
      let m := match SW.normalizeBatch l with
        | .ok r => strList (sSWAff io) r
        | .panic => "panic"
      some (m, vs impl (strList (sPt io) (l.map aff)))
    | "sumaff", [l] =>
      let l ← parseList? (pSWAff io) l
      some (sJac io (SW.sumAffine c l), judgeJac io c impl (SW.affSum c.a (l.map SW.ofAffine)))
    | "sumproj", [l] =>
      let l ← parseList? (pJac io) l
      some (sJac io (SW.sumProj c l), judgeJac io c impl (SW.affSum c.a (l.map aff)))
    | "oncurve", [p] =>
      let p ← pSWAff io p
      some (boolStr (p.isOnCurve c), vs impl (boolStr (SW.onCurve c.a c.b (SW.ofAffine p))))
    | "mulbya", [e] =>
      let e ← io.parse e
      some (io.str (c.mulByA e), vs impl (io.str (c.a * e)))
    -- constants: `Projective::zero()` / `default()`; `AffineRepr::zero()` / `identity()` / `Affine::default()`
    | "const", [w] =>
      if w == "pzero" || w == "pdefault" then some (sJac io SW.Jac.zero, judgeJac io c impl none)
      else if w == "azero" || w == "aident" || w == "adefault" then some ("inf", vs impl "inf")
      else none
    | _, _ => none
  | _ => none

def runTE (op : String) (args : List String) (impl : String) : Option (String × String) := do
  match args with
  | a :: d :: mba :: rest =>
    let a ← io.parse a
    let d ← io.parse d
    let c : TE.Curve F ← match mba with
      | "d" => some (TE.Curve.std a d)
      | "n" => some ⟨a, d, fun e => - e⟩
      | _ => none
    -- inputs are valid representations (`Z ≠ 0`); a malformed one is a protocol error
    let aff := fun (p : TE.Ext F) => TE.toAff p
    match op, rest with
    | "add", [p, q] =>
      let p ← pExt io p; let q ← pExt io q
      let pa ← aff p; let qa ← aff q
      some (sExt io (TE.add c p q), judgeExt io c impl (TE.affAdd c.a c.d pa qa))
    | "sub", [p, q] =>
      let p ← pExt io p; let q ← pExt io q
      let pa ← aff p; let qa ← aff q
      some (sExt io (TE.sub c p q), judgeExt io c impl (TE.affAdd c.a c.d pa (TE.affNeg qa)))
    | "madd", [p, q] =>
      let p ← pExt io p; let q ← pTEAff io q
      let pa ← aff p
      some (sExt io (TE.addMixed c p q), judgeExt io c impl (TE.affAdd c.a c.d pa (TE.ofAffine q)))
    | "msub", [p, q] =>
      let p ← pExt io p; let q ← pTEAff io q
      let pa ← aff p
      some (sExt io (TE.subMixed c p q), judgeExt io c impl (TE.affAdd c.a c.d pa (TE.affNeg (TE.ofAffine q))))
    | "aadd", [p, q] =>
      let p ← pTEAff io p; let q ← pTEAff io q
      some (sExt io (TE.affineAdd c p q), judgeExt io c impl (TE.affAdd c.a c.d (TE.ofAffine p) (TE.ofAffine q)))
    | "asub", [p, q] =>
      let p ← pTEAff io p; let q ← pTEAff io q
      some (sExt io (TE.affineSub c p q), judgeExt io c impl (TE.affAdd c.a c.d (TE.ofAffine p) (TE.affNeg (TE.ofAffine q))))
    | "dbl", [p] =>
      let p ← pExt io p
      let pa ← aff p
      some (sExt io (TE.double c p), judgeExt io c impl (TE.affAdd c.a c.d pa pa))
    | "neg", [p] =>
      let p ← pExt io p
      let pa ← aff p
      some (sExt io p.neg, judgeExt io c impl (TE.affNeg pa))
    | "aneg", [p] =>
      let p ← pTEAff io p
      some (sTEAff io p.neg, vs impl (sPt2 io (TE.affNeg (TE.ofAffine p))))
    | "eq", [p, q] =>
      let p ← pExt io p; let q ← pExt io q
      let pa ← aff p; let qa ← aff q
      some (boolStr (p.eq q), vs impl (boolStr (decide (pa = qa))))
    | "aeqp", [p, q] =>
      let p ← pTEAff io p; let q ← pExt io q
      let qa ← aff q
      some (boolStr (TE.affineEqProj p q), vs impl (boolStr (decide (TE.ofAffine p = qa))))
    | "iszero", [p] =>
      let p ← pExt io p
      let pa ← aff p
      some (boolStr p.isZero, vs impl (boolStr (decide (pa = ((0 : F), (1 : F))))))
    | "toaffine", [p] =>
      let p ← pExt io p
      let pa ← aff p
      some (sOutTEAff io (TE.toAffine p), vs impl (sPt2 io pa))
    | "fromaffine", [p] =>
      let p ← pTEAff io p
      some (sExt io (TE.fromAffine p), judgeExt io c impl (TE.ofAffine p))
    | "batchnorm", [l] =>
      let l ← parseList? (pExt io) l
      let la ← mapM? aff l
      let m := match TE.normalizeBatch l with
        | .ok r => strList (sTEAff io) r
        | .panic => "panic"
      some (m, vs impl (strList (sPt2 io) la))
    | "sumaff", [l] =>
      let l ← parseList? (pTEAff io) l
      some (sExt io (TE.sumAffine c l), judgeExt io c impl (TE.affSum c.a c.d (l.map TE.ofAffine)))
    | "sumproj", [l] =>
      let l ← parseList? (pExt io) l
      let la ← mapM? aff l
      some (sExt io (TE.sumProj c l), judgeExt io c impl (TE.affSum c.a c.d la))
    | "oncurve", [p] =>
      let p ← pTEAff io p
      some (boolStr (p.isOnCurve c), vs impl (boolStr (TE.onCurve c.a c.d (TE.ofAffine p))))
    | "mulbya", [e] =>
      let e ← io.parse e
      some (io.str (c.mulByA e), vs impl (io.str (c.a * e)))
    -- constants: `Projective::zero()` / `default()`; `AffineRepr::zero()` / `identity()` / `Affine::default()`
    | "const", [w] =>
      if w == "pzero" || w == "pdefault" then some (sExt io TE.Ext.zero, judgeExt io c impl ((0 : F), (1 : F)))
      else if w == "azero" || w == "aident" || w == "adefault" then
        some (sPt2 io ((0 : F), (1 : F)), vs impl (sPt2 io ((0 : F), (1 : F))))
      else none
    | _, _ => none
  | _ => none

def runF (deg12 : Bool) (op : String) (args : List String) (impl : String) : Option (String × String) :=
  if op.startsWith "sw." then runSW io deg12 (op.drop 3).toString args impl
  else if op.startsWith "te." then runTE io (op.drop 3).toString args impl
  else none

end Generic

def run (op : String) (args : List String) (impl : String) : Option (String × String) :=
  match args with
  | fld :: rest =>
    match fld.splitOn ":" with
    | [p] => do
      let p ← parseHex? p
      runF (fpIO p) true op rest impl
    | [p, "2", nr] => do
      let p ← parseHex? p; let nr ← parseHex? nr
      runF (fq2IO p nr) true op rest impl
    | [p, "3", nr] => do
      let p ← parseHex? p; let nr ← parseHex? nr
      runF (fq3IO p nr) false op rest impl
    | _ => none
  | _ => none

end Ark.DrvC03
