/-
  Ark.Model.Sha256 — SHA-256 transcribed from FIPS 180-4 (§2.2.2 operations, §4.1.2 functions,
  §4.2.2 constants, §5.1.1 padding, §5.3.3 initial hash value, §6.2.2 hash computation),
  on byte strings represented as `List Nat` (every entry < 256); 32-bit words are `UInt32`.

  Used by C13 as the hash `H` of `expand_message_xmd` (the Rust code uses the `sha2` crate, which
  is *modelled, not verified*: the harness op `sha256` compares the crate with this file, and the
  known-answer tests at the end of the file are evaluated at compile time).
  Mathlib-free, total, executable.
-/
namespace Ark.Sha256

abbrev Bytes := List Nat

/-- 32-bit words (FIPS 180-4 §2.2.1: w = 32): `UInt32`, whose `+` is addition modulo 2^32 -/
abbrev Word := UInt32

/-- ROTR^n(x) on 32-bit words (FIPS 180-4 §2.2.2 / §3.2), `0 < n < 32` -/
def rotr (n : UInt32) (x : Word) : Word := (x >>> n) ||| (x <<< (32 - n))
/-- SHR^n(x) -/
def shr (n : UInt32) (x : Word) : Word := x >>> n

/-- §4.1.2 (4.2) -/
def ch (x y z : Word) : Word := (x &&& y) ^^^ (~~~x &&& z)
/-- §4.1.2 (4.3) -/
def maj (x y z : Word) : Word := (x &&& y) ^^^ (x &&& z) ^^^ (y &&& z)
/-- §4.1.2 (4.4) Σ0 -/
def bsig0 (x : Word) : Word := rotr 2 x ^^^ rotr 13 x ^^^ rotr 22 x
/-- §4.1.2 (4.5) Σ1 -/
def bsig1 (x : Word) : Word := rotr 6 x ^^^ rotr 11 x ^^^ rotr 25 x
/-- §4.1.2 (4.6) σ0 -/
def ssig0 (x : Word) : Word := rotr 7 x ^^^ rotr 18 x ^^^ shr 3 x
/-- §4.1.2 (4.7) σ1 -/
def ssig1 (x : Word) : Word := rotr 17 x ^^^ rotr 19 x ^^^ shr 10 x

/-- §4.2.2: the first 32 bits of the fractional parts of the cube roots of the first 64 primes -/
def K : List Word := [
  0x428a2f98, 0x71374491, 0xb5c0fbcf, 0xe9b5dba5, 0x3956c25b, 0x59f111f1, 0x923f82a4, 0xab1c5ed5,
  0xd807aa98, 0x12835b01, 0x243185be, 0x550c7dc3, 0x72be5d74, 0x80deb1fe, 0x9bdc06a7, 0xc19bf174,
  0xe49b69c1, 0xefbe4786, 0x0fc19dc6, 0x240ca1cc, 0x2de92c6f, 0x4a7484aa, 0x5cb0a9dc, 0x76f988da,
  0x983e5152, 0xa831c66d, 0xb00327c8, 0xbf597fc7, 0xc6e00bf3, 0xd5a79147, 0x06ca6351, 0x14292967,
  0x27b70a85, 0x2e1b2138, 0x4d2c6dfc, 0x53380d13, 0x650a7354, 0x766a0abb, 0x81c2c92e, 0x92722c85,
  0xa2bfe8a1, 0xa81a664b, 0xc24b8b70, 0xc76c51a3, 0xd192e819, 0xd6990624, 0xf40e3585, 0x106aa070,
  0x19a4c116, 0x1e376c08, 0x2748774c, 0x34b0bcb5, 0x391c0cb3, 0x4ed8aa4a, 0x5b9cca4f, 0x682e6ff3,
  0x748f82ee, 0x78a5636f, 0x84c87814, 0x8cc70208, 0x90befffa, 0xa4506ceb, 0xbef9a3f7, 0xc67178f2]

/-- §5.3.3: initial hash value H(0) -/
def H0 : List Word := [
  0x6a09e667, 0xbb67ae85, 0x3c6ef372, 0xa54ff53a, 0x510e527f, 0x9b05688c, 0x1f83d9ab, 0x5be0cd19]

/-- big-endian encoding of `x` on `n` bytes (truncating) -/
def beBytes : Nat → Nat → Bytes
  | 0, _ => []
  | n + 1, x => beBytes n (x / 256) ++ [x % 256]

/-- §5.1.1 padding: append the bit 1, then k zero bits with l + 1 + k ≡ 448 (mod 512), then the
    64-bit big-endian bit length l -/
def pad (msg : Bytes) : Bytes :=
  let l := msg.length
  let k := (64 - (l + 9) % 64) % 64        -- number of zero *bytes*
  msg ++ [0x80] ++ List.replicate k 0 ++ beBytes 8 (8 * l)

/-- §5.2.1 parsing: 32-bit big-endian words -/
def toWords : Bytes → List Word
  | a :: b :: c :: d :: rest => UInt32.ofNat (((a * 256 + b) * 256 + c) * 256 + d) :: toWords rest
  | _ => []

/-- §6.2.2 step 1, for t = 16 … 63: `W_t = σ1(W_{t-2}) + W_{t-7} + σ0(W_{t-15}) + W_{t-16}`;
    the argument is the window `W_{t-16} … W_{t-1}`, the result the `n` next words -/
def schedAux : Nat → List Word → List Word
  | 0, _ => []
  | n + 1, ws =>
    match ws with
    | [w0, w1, w2, w3, w4, w5, w6, w7, w8, w9, w10, w11, w12, w13, w14, w15] =>
      let nw := ssig1 w14 + w9 + ssig0 w1 + w0
      nw :: schedAux n [w1, w2, w3, w4, w5, w6, w7, w8, w9, w10, w11, w12, w13, w14, w15, nw]
    | _ => []

/-- the message schedule `W_0 … W_63` of one 16-word block -/
def schedule (blk : List Word) : List Word := blk ++ schedAux 48 blk

structure St where
  a : Word
  b : Word
  c : Word
  d : Word
  e : Word
  f : Word
  g : Word
  h : Word

/-- §6.2.2 step 3: one round -/
def round (s : St) (kw : Word × Word) : St :=
  let t1 := s.h + bsig1 s.e + ch s.e s.f s.g + kw.1 + kw.2
  let t2 := bsig0 s.a + maj s.a s.b s.c
  { a := t1 + t2, b := s.a, c := s.b, d := s.c, e := s.d + t1, f := s.e, g := s.f, h := s.g }

/-- §6.2.2: process one 512-bit block (16 words) -/
def compress (hs : List Word) (blk : List Word) : List Word :=
  match hs with
  | [h0, h1, h2, h3, h4, h5, h6, h7] =>
    let s := (K.zip (schedule blk)).foldl round ⟨h0, h1, h2, h3, h4, h5, h6, h7⟩
    [h0 + s.a, h1 + s.b, h2 + s.c, h3 + s.d, h4 + s.e, h5 + s.f, h6 + s.g, h7 + s.h]
  | _ => hs

/-- fold `compress` over consecutive 16-word blocks (`fuel` ≥ number of blocks) -/
def blocks : Nat → List Word → List Word → List Word
  | 0, hs, _ => hs
  | fuel + 1, hs, ws =>
    if ws.isEmpty then hs else blocks fuel (compress hs (ws.take 16)) (ws.drop 16)

/-- SHA-256 of a byte string; 32 bytes -/
def sha256 (msg : Bytes) : Bytes :=
  let ws := toWords (pad msg)
  ((blocks (ws.length / 16 + 1) H0 ws).map (fun w => beBytes 4 w.toNat)).flatten

/-! ### known-answer tests (FIPS 180-4 / NIST CAVP examples), evaluated when the file is compiled -/

def ofString (s : String) : Bytes := s.toUTF8.toList.map (·.toNat)
def hexOf (b : Bytes) : String :=
  let hd (d : Nat) : Char := if d < 10 then Char.ofNat (48 + d) else Char.ofNat (87 + d)
  String.ofList (b.flatMap fun x => [hd (x / 16), hd (x % 16)])

#guard hexOf (sha256 []) == "e3b0c44298fc1c149afbf4c8996fb92427ae41e4649b934ca495991b7852b855"
#guard hexOf (sha256 (ofString "abc")) == "ba7816bf8f01cfea414140de5dae2223b00361a396177a9cb410ff61f20015ad"
#guard hexOf (sha256 (ofString "abcdbcdecdefdefgefghfghighijhijkijkljklmklmnlmnomnopnopq"))
        == "248d6a61d20638b8e5c026930c3e6039a33ce45964ff2167f6ecedd419db06c1"
#guard hexOf (sha256 (ofString "abcdefghbcdefghicdefghijdefghijkefghijklfghijklmghijklmnhijklmnoijklmnopjklmnopqklmnopqrlmnopqrsmnopqrstnopqrstu"))
        == "cf5b16a778af8380036ce59e7b0492370b249b11e8f07a51afac45037afee9d1"
-- 1000 × 'a' (crosses several blocks; value from an independent implementation, re-checked by the harness op `sha256`)
#guard hexOf (sha256 (List.replicate 1000 97)) == "41edece42d63e8d9bf515a9ba6932e1c20cbc9f5a5d134645adb5db1b9737ea3"
-- lengths 55 / 56 / 64 (padding boundaries)
#guard (sha256 (List.replicate 55 0)).length == 32
#guard hexOf (sha256 (List.replicate 64 0)) == "f5a5fd42d16a20302798ef6ed309979b43003d2320d9f0e8ea9831a92759fb4b"

end Ark.Sha256
