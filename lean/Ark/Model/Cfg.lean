import Ark.Model.NatSpec
/-
  Ark.Model.Cfg — C16 (translator): plain record types for the *dumped* field / curve / pairing
  configurations of arkworks-rs/algebra, and **Bool-valued checkers** over them.

  Nothing in this file is tied to a particular configuration: the tables `Ark/Gen/*.lean` are
  regenerated on every run from the compiled tree (`harness2/src/bin/c16.rs` → `tools/gen_consts.py`)
  and every theorem there has the form `checkXxx cfg = true := by decide +kernel`.

  Representation.
  * prime-field elements: `Nat` residues (standard form, not Montgomery);
  * elements of a tower `F_p ⊂ F_p[u]/(u^k-β) ⊂ …`: flat `List Nat` of base-prime-field coordinates
    in arkworks' `to_base_prime_field_elements` order (the coordinates of `c0` first);
  * a tower is described by `Tw` (`prime p` or `ext k base nr` = `base[X]/(X^k - nr)`, `k ∈ {2,3}`).

  Everything is written for *kernel evaluation* (`decide +kernel`): structural or fuel recursion,
  small function bodies, no well-founded recursion, no `Array`, no typeclass-heavy code.
  Mathlib-free.  The meaning of each checker (what `= true` implies mathematically) is stated and
  proved in `Ark/Proofs/CfgMeaning.lean` / `Ark/Props/C16Meaning.lean`.
-/
namespace Ark.Cfg
open Ark.Spec (powMod)

abbrev El := List Nat

/-! ## small helpers -/

def allB {α : Type} (f : α → Bool) : List α → Bool
  | [] => true
  | x :: xs => f x && allB f xs

/-- little-endian base-`2^64` value of a limb vector -/
def limbsVal : List Nat → Nat
  | [] => 0
  | x :: xs => x + 2 ^ 64 * limbsVal xs

def optAll {α : Type} (f : α → Bool) : Option α → Bool
  | none => true
  | some x => f x

/-- value of a signed-digit string, least significant digit first -/
def sdValLE : List Int → Int
  | [] => 0
  | d :: ds => d + 2 * sdValLE ds

/-- value of a signed-digit string, most significant digit first (accumulator form) -/
def sdValBEAux : Int → List Int → Int
  | acc, [] => acc
  | acc, d :: ds => sdValBEAux (2 * acc + d) ds
def sdValBE (ds : List Int) : Int := sdValBEAux 0 ds

def isDigit (d : Int) : Bool := d == 0 || d == 1 || d == -1

def sgn (neg : Bool) (v : Nat) : Int := if neg then - (v : Int) else (v : Int)

/-! ## towers of extension fields -/

inductive Tw where
  | prime (p : Nat) : Tw
  | ext (k : Nat) (base : Tw) (nr : El) : Tw
  deriving Repr

namespace Tw

/-- characteristic -/
def char : Tw → Nat
  | prime p => p
  | ext _ b _ => b.char

/-- degree over the prime field -/
def deg : Tw → Nat
  | prime _ => 1
  | ext k b _ => k * b.deg

/-- number of elements -/
def card (t : Tw) : Nat := t.char ^ t.deg

end Tw

def vadd (p : Nat) : El → El → El
  | x :: xs, y :: ys => ((x + y) % p) :: vadd p xs ys
  | _, _ => []

def vsub (p : Nat) : El → El → El
  | x :: xs, y :: ys => ((x + (p - y % p)) % p) :: vsub p xs ys
  | _, _ => []

def vneg (p : Nat) : El → El
  | x :: xs => ((p - x % p) % p) :: vneg p xs
  | [] => []

def vzero (n : Nat) : El := List.replicate n 0

def vone : Nat → El
  | 0 => []
  | n + 1 => 1 :: List.replicate n 0

/-- embedding of a prime-field constant -/
def vconst (p n c : Nat) : El :=
  match n with
  | 0 => []
  | n + 1 => (c % p) :: List.replicate n 0

def isZero : El → Bool
  | [] => true
  | x :: xs => x == 0 && isZero xs

/-- all coordinates reduced and the right number of them -/
def wf (t : Tw) (a : El) : Bool := a.length == t.deg && allB (fun x => decide (x < t.char)) a

/-- pad a sub-field element (a prefix tower) with zero coordinates -/
def embed (t : Tw) (a : El) : El := a ++ List.replicate (t.deg - a.length) 0

namespace Tw

/-- `F_p[X]/(X² - n)`: `(a₀ + a₁X)(b₀ + b₁X)` -/
def mulQuadPrime (p n : Nat) : El → El → El
  | [a0, a1], [b0, b1] => [(a0 * b0 + n * (a1 * b1)) % p, (a0 * b1 + a1 * b0) % p]
  | _, _ => []

/-- `F_p[X]/(X³ - n)` -/
def mulCubicPrime (p n : Nat) : El → El → El
  | [a0, a1, a2], [b0, b1, b2] =>
    [(a0 * b0 + n * (a1 * b2 + a2 * b1)) % p,
     (a0 * b1 + a1 * b0 + n * (a2 * b2)) % p,
     (a0 * b2 + a1 * b1 + a2 * b0) % p]
  | _, _ => []

/-- multiplication in the tower: schoolbook in `base[X]/(X^k - nr)`; the two bottom layers
    (`base = F_p`) are written out on `Nat` (same formulas, fewer kernel steps) -/
def mul : Tw → El → El → El
  | prime p, a, b => [(a.headD 0 * b.headD 0) % p]
  | ext k (prime p) nr, a, b =>
    match k with
    | 2 => mulQuadPrime p (nr.headD 0) a b
    | 3 => mulCubicPrime p (nr.headD 0) a b
    | _ => []
  | ext k (ext k' b' nr') nr, a, b =>
    let base := ext k' b' nr'
    let d := base.deg
    let p := base.char
    match k with
    | 2 =>
      vadd p (mul base (a.take d) (b.take d)) (mul base nr (mul base (a.drop d) (b.drop d)))
      ++ vadd p (mul base (a.take d) (b.drop d)) (mul base (a.drop d) (b.take d))
    | 3 =>
      let a1 := (a.drop d).take d
      let b1 := (b.drop d).take d
      vadd p (mul base (a.take d) (b.take d))
        (mul base nr (vadd p (mul base a1 (b.drop (2 * d))) (mul base (a.drop (2 * d)) b1)))
      ++ vadd p (vadd p (mul base (a.take d) b1) (mul base a1 (b.take d)))
           (mul base nr (mul base (a.drop (2 * d)) (b.drop (2 * d))))
      ++ vadd p (vadd p (mul base (a.take d) (b.drop (2 * d))) (mul base a1 b1))
           (mul base (a.drop (2 * d)) (b.take d))
    | _ => []

def add (t : Tw) (a b : El) : El := vadd t.char a b
def sub (t : Tw) (a b : El) : El := vsub t.char a b
def neg (t : Tw) (a : El) : El := vneg t.char a
def zero (t : Tw) : El := vzero t.deg
def one (t : Tw) : El := vone t.deg
def const (t : Tw) (c : Nat) : El := vconst t.char t.deg c
def sq (t : Tw) (a : El) : El := t.mul a a
def dbl (t : Tw) (a : El) : El := vadd t.char a a
def triple (t : Tw) (a : El) : El := vadd t.char (vadd t.char a a) a

def powAux (t : Tw) : Nat → El → Nat → El → El
  | 0, _, _, acc => acc
  | fuel + 1, b, e, acc =>
    if e = 0 then acc
    else powAux t fuel (t.mul b b) (e / 2) (if e % 2 = 1 then t.mul acc b else acc)

/-- `a^e` in the tower (square-and-multiply, fuel = bit length) -/
def pow (t : Tw) (a : El) (e : Nat) : El := powAux t (e.log2 + 2) a e t.one

/-- `a⁻¹ = a^(q-2)` (Fermat; only used a handful of times per configuration) -/
def inv (t : Tw) (a : El) : El := t.pow a (t.card - 2)

/-- Horner evaluation of a polynomial with coefficients `cs` (constant term first) -/
def evalPoly (t : Tw) (x : El) : List El → El
  | [] => t.zero
  | c :: cs => t.add c (t.mul x (evalPoly t x cs))

/-- the standard basis `e_0 … e_{deg-1}` -/
def basisAux : Nat → Nat → List El
  | 0, _ => []
  | n + 1, i => (List.replicate i 0 ++ 1 :: List.replicate n 0) :: basisAux n (i + 1)
def basis (t : Tw) : List El := basisAux t.deg 0

/-- `nr` is not a `k`-th power in `t` (`k ∣ q-1` and Euler-type criterion) -/
def notKthPower (t : Tw) (k : Nat) (a : El) : Bool :=
  (t.card - 1) % k == 0 && !isZero a && t.pow a ((t.card - 1) / k) != t.one

/-- `a` is a non-zero non-square -/
def nonSquare (t : Tw) (a : El) : Bool := notKthPower t 2 a

/-- `a` is a non-zero square (Euler) -/
def isSquare (t : Tw) (a : El) : Bool := !isZero a && t.pow a ((t.card - 1) / 2) == t.one

/-- the tower itself is well formed: characteristic > 2, `k ∈ {2,3}`, reduced non-residues -/
def wfTower : Tw → Bool
  | prime p => decide (2 < p)
  | ext k b nr => (k == 2 || k == 3) && wfTower b && wf b nr

end Tw

/-! ## prime fields (`MontConfig` / `PrimeField` / `FftField`) -/

/-- `SqrtPrecomputation`: kind 0 = `None`, 1 = `TonelliShanks`, 2 = `Case3Mod4` -/
structure SqrtPre where
  kind : Nat
  twoAdicity : Nat := 0
  qnrToTrace : El := []
  traceMinusOneDivTwo : Nat := 0
  modulusPlusOneDivFour : Nat := 0
  deriving Repr

structure FpCfg where
  limbs : Nat
  -- PrimeField / FftField level
  modulus : Nat
  modulusBitSize : Nat
  modulusMinusOneDivTwo : Nat
  trace : Nat
  traceMinusOneDivTwo : Nat
  generator : Nat
  twoAdicity : Nat
  twoAdicRoot : Nat
  smallSubgroupBase : Option Nat
  smallSubgroupBaseAdicity : Option Nat
  largeSubgroupRoot : Option Nat
  characteristic : Nat
  sqrtPrecomp : SqrtPre
  -- MontConfig level
  montModulus : Nat
  montModulusLimbs : List Nat
  montR : Nat
  montR2 : Nat
  montInv : Nat
  montGenerator : Nat
  montTwoAdicRoot : Nat
  oneRaw : Nat
  generatorRaw : Nat
  hasSpareBit : Bool
  noCarryMul : Bool
  noCarrySquare : Bool
  modulusPlusOneDivFour : Option Nat
  montSmallSubgroupBase : Option Nat
  montSmallSubgroupBaseAdicity : Option Nat
  montLargeSubgroupRoot : Option Nat
  deriving Repr

/-- `R = 2^(64N) mod p`, `R2 = R² mod p`, `INV·p ≡ -1 (mod 2^64)`; the limb vector denotes the
    modulus; `ONE` is stored as `R` and `GENERATOR` as `g·R mod p`. -/
def checkMontConsts (c : FpCfg) : Bool :=
  c.montModulus == c.modulus
  && c.montModulusLimbs.length == c.limbs
  && allB (fun x => decide (x < 2 ^ 64)) c.montModulusLimbs
  && limbsVal c.montModulusLimbs == c.modulus
  && c.montR == 2 ^ (64 * c.limbs) % c.modulus
  && c.montR2 == 2 ^ (128 * c.limbs) % c.modulus
  && decide (c.montInv < 2 ^ 64)
  && (c.montInv * c.modulus + 1) % 2 ^ 64 == 0
  && c.oneRaw == c.montR
  && c.generatorRaw == (c.generator * c.montR) % c.modulus

/-- odd modulus > 2 that fits its limbs, exact bit size, `characteristic`, `(p-1)/2` -/
def checkModulusShape (c : FpCfg) : Bool :=
  decide (2 < c.modulus)
  && c.modulus % 2 == 1
  && decide (0 < c.limbs)
  && decide (c.modulus < 2 ^ (64 * c.limbs))
  && decide (2 ^ (c.modulusBitSize - 1) ≤ c.modulus)
  && decide (c.modulus < 2 ^ c.modulusBitSize)
  && c.characteristic == c.modulus
  && c.modulusMinusOneDivTwo == (c.modulus - 1) / 2

/-- `p - 1 = 2^s · t` with `t` odd; `(t-1)/2` -/
def checkTwoAdicity (c : FpCfg) : Bool :=
  c.modulus - 1 == 2 ^ c.twoAdicity * c.trace
  && c.trace % 2 == 1
  && c.traceMinusOneDivTwo == (c.trace - 1) / 2

/-- Euler: `g^((p-1)/2) = -1`, i.e. the stated generator is a quadratic non-residue -/
def checkGeneratorQNR (c : FpCfg) : Bool :=
  decide (c.generator < c.modulus)
  && powMod c.generator ((c.modulus - 1) / 2) c.modulus == c.modulus - 1

/-- `root = g^t`, `root^(2^s) = 1`, `root^(2^(s-1)) ≠ 1` (exact order `2^s`) -/
def checkRootOfUnity (c : FpCfg) : Bool :=
  decide (c.twoAdicRoot < c.modulus)
  && c.twoAdicRoot == powMod c.generator c.trace c.modulus
  && powMod c.twoAdicRoot (2 ^ c.twoAdicity) c.modulus == 1
  && (c.twoAdicity == 0 || powMod c.twoAdicRoot (2 ^ (c.twoAdicity - 1)) c.modulus != 1)

/-- mixed-radix data: all absent, or `n = 2^s·b^k ∣ p-1`, `root = g^((p-1)/n)` of exact order `n`
    (`root^(n/2) ≠ 1`, `root^(n/b) ≠ 1`; exactness relies on `b` being an odd prime) -/
def checkLargeSubgroup (c : FpCfg) : Bool :=
  match c.smallSubgroupBase, c.smallSubgroupBaseAdicity, c.largeSubgroupRoot with
  | none, none, none => true
  | some b, some k, some w =>
    let n := 2 ^ c.twoAdicity * b ^ k
    decide (2 < b) && b % 2 == 1 && decide (0 < k)
    && (c.modulus - 1) % n == 0
    && decide (w < c.modulus)
    && w == powMod c.generator ((c.modulus - 1) / n) c.modulus
    && powMod w n c.modulus == 1
    && (c.twoAdicity == 0 || powMod w (n / 2) c.modulus != 1)
    && powMod w (n / b) c.modulus != 1
  | _, _, _ => false

/-- the `FftField`/`PrimeField` constants of `Fp<MontBackend<T,N>,N>` are the `MontConfig` ones -/
def checkForwarding (c : FpCfg) : Bool :=
  c.montGenerator == c.generator
  && c.montTwoAdicRoot == c.twoAdicRoot
  && c.montSmallSubgroupBase == c.smallSubgroupBase
  && c.montSmallSubgroupBaseAdicity == c.smallSubgroupBaseAdicity
  && c.montLargeSubgroupRoot == c.largeSubgroupRoot

/-- `MODULUS_PLUS_ONE_DIV_FOUR` and `SQRT_PRECOMP`:
    `p ≡ 3 (4)` ⇒ `Case3Mod4 ((p+1)/4)`; otherwise Tonelli–Shanks with `(s, g^t, (t-1)/2)` -/
def checkSqrtPrecomp (c : FpCfg) : Bool :=
  if c.modulus % 4 == 3 then
    c.modulusPlusOneDivFour == some ((c.modulus + 1) / 4)
    && c.sqrtPrecomp.kind == 2
    && c.sqrtPrecomp.modulusPlusOneDivFour == (c.modulus + 1) / 4
  else
    c.modulusPlusOneDivFour == none
    && c.sqrtPrecomp.kind == 1
    && c.sqrtPrecomp.twoAdicity == c.twoAdicity
    && c.sqrtPrecomp.qnrToTrace == [powMod c.generator c.trace c.modulus]
    && c.sqrtPrecomp.traceMinusOneDivTwo == (c.trace - 1) / 2

/-- `MODULUS_HAS_SPARE_BIT` ⇔ top bit of the top limb clear; `CAN_USE_NO_CARRY_MUL_OPT` ⇔ spare bit
    and not all remaining bits set (the gnark condition the code implements) -/
def checkMontFlags (c : FpCfg) : Bool :=
  c.hasSpareBit == decide (c.modulus < 2 ^ (64 * c.limbs - 1))
  && c.noCarryMul == (c.hasSpareBit && c.modulus != 2 ^ (64 * c.limbs - 1) - 1)

/-! ## extension fields (`Fp2Config` … `Fp12Config`) -/

inductive ExtKind where
  | fp2 | fp3 | fp4 | fp6over3 | fp6over2 | fp12
  deriving DecidableEq, Repr

structure ExtCfg where
  kind : ExtKind
  p : Nat
  /-- tower of the field `NONRESIDUE` lives in -/
  baseTower : Tw
  nonresidue : El
  frobC1 : List El
  frobC2 : List El
  /-- `mul_base_field_by_nonresidue_in_place(e_i)` on the standard basis of the base field -/
  nrMulBasis : List El
  /-- `mul_base_field_by_frob_coeff(e_i, power)` for `power < degree`, on the standard basis of the base
      field; cubic layers: the pair `(c1, c2)` flattened as `[c1(e_0), c2(e_0), c1(e_1), …]` -/
  frobMulBasis : List (List El) := []
  -- `Fp3Config` only
  twoAdicity : Nat := 0
  traceMinusOneDivTwo : Nat := 0
  qnrToT : El := []
  sqrtPrecomp : SqrtPre := { kind := 0 }
  deriving Repr

namespace ExtCfg

/-- degree of the top extension step -/
def k (c : ExtCfg) : Nat :=
  match c.kind with
  | .fp2 | .fp4 | .fp6over3 | .fp12 => 2
  | .fp3 | .fp6over2 => 3

/-- the extension field itself -/
def tower (c : ExtCfg) : Tw := .ext c.k c.baseTower c.nonresidue

/-- field in which the Frobenius coefficients live -/
def frobTower (c : ExtCfg) : Tw :=
  match c.kind, c.baseTower with
  | .fp2, t | .fp3, t | .fp6over2, t => t
  | _, .ext _ b _ => b
  | _, t => t

/-- element whose powers the Frobenius coefficients are (as documented in the crates):
    Fp2/Fp3/Fp6(3over2): this layer's `NONRESIDUE`; Fp4/Fp6(2over3)/Fp12: the non-residue of the
    layer *below* (this layer's `NONRESIDUE` must then be that layer's generator, see
    `checkNonresidueIsGenerator`) -/
def frobBase (c : ExtCfg) : El :=
  match c.kind, c.baseTower with
  | .fp2, _ | .fp3, _ | .fp6over2, _ => c.nonresidue
  | _, .ext _ _ nr => nr
  | _, _ => []

/-- `FROBENIUS_COEFF_C1[i] = frobBase^((p^i - 1)/frobDiv)` -/
def frobDiv (c : ExtCfg) : Nat :=
  match c.kind with
  | .fp2 => 2 | .fp3 => 3 | .fp4 => 4 | .fp6over3 => 6 | .fp6over2 => 3 | .fp12 => 6

/-- expected shape of the base tower for each kind -/
def shapeOK (c : ExtCfg) : Bool :=
  match c.kind, c.baseTower with
  | .fp2, .prime p => p == c.p
  | .fp3, .prime p => p == c.p
  | .fp4, .ext 2 (.prime p) _ => p == c.p
  | .fp6over3, .ext 3 (.prime p) _ => p == c.p
  | .fp6over2, .ext 2 (.prime p) _ => p == c.p
  | .fp12, .ext 3 (.ext 2 (.prime p) _) _ => p == c.p
  | _, _ => false

end ExtCfg

def checkExtShape (c : ExtCfg) : Bool :=
  c.shapeOK && c.baseTower.wfTower && wf c.baseTower c.nonresidue
  && c.frobC1.length == c.tower.deg
  && c.frobC2.length == (if c.k == 3 then c.tower.deg else 0)
  && allB (wf c.frobTower) c.frobC1 && allB (wf c.frobTower) c.frobC2

/-- the generator `X` of `base[X]/(X^k' - nr')` as a coordinate vector -/
def genOf (b : Tw) (t : Tw) : El := vzero b.deg ++ vone b.deg ++ vzero (t.deg - 2 * b.deg)

/-- `NONRESIDUE` is not a `k`-th power in the base field (so `X^k - NONRESIDUE` is irreducible):
    `k ∣ q-1` and `NONRESIDUE^((q-1)/k) ≠ 1`.  When `NONRESIDUE` is the generator `Y` of the layer
    below (`Y^k' = nr'`), the power is evaluated as `nr'^((q-1)/(k·k'))` inside that layer's base
    field (`k·k' ∣ q-1`), which is the same element. -/
def checkNonresidue (c : ExtCfg) : Bool :=
  match c.baseTower with
  | .ext k' b nr' =>
    if c.nonresidue == genOf b c.baseTower then
      (c.baseTower.card - 1) % (c.k * k') == 0
      && b.pow nr' ((c.baseTower.card - 1) / (c.k * k')) != b.one
    else c.baseTower.notKthPower c.k c.nonresidue
  | _ => c.baseTower.notKthPower c.k c.nonresidue

/-- Fp4 / Fp6(2over3) / Fp12: `NONRESIDUE` is the generator `X` of the layer below — what the
    hard-coded coordinate rotation in `mul_base_field_by_nonresidue_in_place` assumes -/
def checkNonresidueIsGenerator (c : ExtCfg) : Bool :=
  match c.kind, c.baseTower with
  | .fp4, .ext _ b _ | .fp6over3, .ext _ b _ | .fp12, .ext _ b _ =>
    c.nonresidue == genOf b c.baseTower
  | _, _ => true

/-- the configuration's `mul_base_field_by_nonresidue_in_place` hook is multiplication by `NONRESIDUE`
    (checked on a basis; the hook is additive) -/
def checkNrMulBasis (c : ExtCfg) : Bool :=
  c.nrMulBasis == c.baseTower.basis.map (fun e => c.baseTower.mul c.nonresidue e)

/-- recurrence form of the table: `c₀ = 1`, `c₁ = b^((p-1)/d)`, `c_{i+1} = c₁ · c_i^p`
    (equivalent to `c_i = b^((p^i-1)/d)`, see `CfgMeaning`) -/
def frobRec (t : Tw) (p : Nat) (c1 : El) : El → List El → Bool
  | _, [] => true
  | prev, x :: xs => x == t.mul c1 (t.pow prev p) && frobRec t p c1 x xs

def checkFrobeniusC1 (c : ExtCfg) : Bool :=
  match c.frobC1 with
  | c0 :: c1 :: rest =>
    (c.p - 1) % c.frobDiv == 0
    && c0 == c.frobTower.one
    && c1 == c.frobTower.pow c.frobBase ((c.p - 1) / c.frobDiv)
    && frobRec c.frobTower c.p c1 c1 rest
  | _ => false

def zipAll {α β : Type} (f : α → β → Bool) : List α → List β → Bool
  | [], [] => true
  | x :: xs, y :: ys => f x y && zipAll f xs ys
  | _, _ => false

/-- cubic layers: `C2[i] = C1[i]²` (`= b^(2(p^i-1)/3)`) -/
def checkFrobeniusC2 (c : ExtCfg) : Bool :=
  if c.k == 3 then zipAll (fun x y => y == c.frobTower.sq x) c.frobC1 c.frobC2 else c.frobC2.isEmpty

/-- one row of the expected `mul_base_field_by_frob_coeff` table: every basis vector times the
    (embedded) table entries of that power -/
def frobHookRow (c : ExtCfg) (c1 c2 : El) : List El :=
  let t := c.baseTower
  if c.k == 3 then
    (t.basis.map (fun e => [t.mul e (embed t c1), t.mul e (embed t c2)])).flatten
  else t.basis.map (fun e => t.mul e (embed t c1))

/-- the configuration's `mul_base_field_by_frob_coeff` hook multiplies by `FROBENIUS_COEFF_C1[power]`
    (and `_C2[power]` for cubic layers) for every `power < degree` (checked on a basis) -/
def checkFrobMulBasis (c : ExtCfg) : Bool :=
  c.frobMulBasis == List.zipWith (frobHookRow c) c.frobC1 (if c.k == 3 then c.frobC2 else c.frobC1)

/-- `Fp3Config::TWO_ADICITY`, `TRACE_MINUS_ONE_DIV_TWO`: `p³ - 1 = 2^s·t`, `t` odd -/
def checkFp3TwoAdicity (c : ExtCfg) : Bool :=
  let t := 2 * c.traceMinusOneDivTwo + 1
  c.kind == .fp3 && c.p ^ 3 - 1 == 2 ^ c.twoAdicity * t

/-- `QUADRATIC_NONRESIDUE_TO_T` is the `t`-th power of a quadratic non-residue of Fp3, i.e. it has
    multiplicative order exactly `2^s`; and `SQRT_PRECOMP` repeats these constants -/
def checkFp3QnrToT (c : ExtCfg) : Bool :=
  let f := c.tower
  wf f c.qnrToT
  && decide (0 < c.twoAdicity)
  && f.pow c.qnrToT (2 ^ c.twoAdicity) == f.one
  && f.pow c.qnrToT (2 ^ (c.twoAdicity - 1)) != f.one
  && c.sqrtPrecomp.kind == 1
  && c.sqrtPrecomp.twoAdicity == c.twoAdicity
  && c.sqrtPrecomp.qnrToTrace == c.qnrToT
  && c.sqrtPrecomp.traceMinusOneDivTwo == c.traceMinusOneDivTwo

/-! ## short Weierstrass curves: Jacobian arithmetic on tower elements -/

/-- Jacobian point `(X : Y : Z)`, `Z = 0` is the point at infinity -/
structure JPt where
  x : El
  y : El
  z : El
  deriving Repr

namespace Sw

def inf (t : Tw) : JPt := ⟨t.one, t.one, t.zero⟩
def ofAffine (t : Tw) (x y : El) : JPt := ⟨x, y, t.one⟩

/-- dbl-2007-bl (general `a`) -/
def dbl (t : Tw) (a : El) (P : JPt) : JPt :=
  let xx := t.sq P.x
  let yy := t.sq P.y
  let yyyy := t.sq yy
  let zz := t.sq P.z
  let s := t.dbl (t.sub (t.sub (t.sq (t.add P.x yy)) xx) yyyy)
  let m := t.add (t.triple xx) (t.mul a (t.sq zz))
  let x3 := t.sub (t.sq m) (t.dbl s)
  ⟨x3,
   t.sub (t.mul m (t.sub s x3)) (t.dbl (t.dbl (t.dbl yyyy))),
   t.sub (t.sub (t.sq (t.add P.y P.z)) yy) zz⟩

/-- mixed addition `P + (x2, y2)` (madd-2007-bl) with the special cases handled -/
def addAff (t : Tw) (a : El) (P : JPt) (x2 y2 : El) : JPt :=
  if isZero P.z then ofAffine t x2 y2
  else
    let z1z1 := t.sq P.z
    let u2 := t.mul x2 z1z1
    let s2 := t.mul (t.mul y2 P.z) z1z1
    let h := t.sub u2 P.x
    let rr := t.sub s2 P.y
    if isZero h then
      if isZero rr then dbl t a P else inf t
    else
      let hh := t.sq h
      let i := t.dbl (t.dbl hh)
      let j := t.mul h i
      let r2 := t.dbl rr
      let v := t.mul P.x i
      let x3 := t.sub (t.sub (t.sq r2) j) (t.dbl v)
      ⟨x3,
       t.sub (t.mul r2 (t.sub v x3)) (t.dbl (t.mul P.y j)),
       t.sub (t.sub (t.sq (t.add P.z h)) z1z1) hh⟩

/-- `k·(x, y)` by MSB-first double-and-add; `fuel ≥ bit length of k` -/
def smulAux (t : Tw) (a x y : El) : Nat → Nat → JPt
  | 0, _ => inf t
  | fuel + 1, k =>
    if k = 0 then inf t
    else
      let d := dbl t a (smulAux t a x y fuel (k / 2))
      if k % 2 = 1 then addAff t a d x y else d

def smul (t : Tw) (a x y : El) (k : Nat) : JPt := smulAux t a x y (k.log2 + 1) k

def onCurve (t : Tw) (a b x y : El) : Bool :=
  t.sq y == t.add (t.add (t.mul (t.sq x) x) (t.mul a x)) b

/-- the Jacobian point `P` is the affine point `(x, y)` -/
def eqAffine (t : Tw) (P : JPt) (x y : El) : Bool :=
  let zz := t.sq P.z
  !isZero P.z && P.x == t.mul x zz && P.y == t.mul y (t.mul zz P.z)

end Sw

structure SwCfg where
  tower : Tw
  r : Nat
  cofactor : Nat
  cofactorLimbs : List Nat
  cofactorInv : Nat
  a : El
  b : El
  gx : El
  gy : El
  gInfinity : Bool
  /-- `mul_by_a(e_i)` on the standard basis of the base field (`[]` when not dumped) -/
  mulByABasis : List El := []
  deriving Repr

def checkSwShape (c : SwCfg) : Bool :=
  c.tower.wfTower && wf c.tower c.a && wf c.tower c.b && wf c.tower c.gx && wf c.tower c.gy
  && decide (2 < c.r) && decide (c.cofactorInv < c.r)
  && limbsVal c.cofactorLimbs == c.cofactor
  && allB (fun x => decide (x < 2 ^ 64)) c.cofactorLimbs

/-- `4a³ + 27b² ≠ 0` -/
def checkSwNonsingular (c : SwCfg) : Bool :=
  let t := c.tower
  !isZero (t.add (t.mul (t.const 4) (t.mul c.a (t.sq c.a))) (t.mul (t.const 27) (t.sq c.b)))

def checkSwGeneratorOnCurve (c : SwCfg) : Bool :=
  !c.gInfinity && Sw.onCurve c.tower c.a c.b c.gx c.gy

/-- `r·G = O` (and `G ≠ O`): with `r` prime, `G` has order exactly `r` -/
def checkSwGeneratorOrder (c : SwCfg) : Bool :=
  !c.gInfinity && isZero (Sw.smul c.tower c.a c.gx c.gy c.r).z

/-- `COFACTOR · COFACTOR_INV ≡ 1 (mod r)` -/
def checkCofactorInv (r cofactor cofactorInv : Nat) : Bool :=
  (cofactor * cofactorInv) % r == 1 % r

def checkSwCofactorInv (c : SwCfg) : Bool := checkCofactorInv c.r c.cofactor c.cofactorInv

/-- the (possibly hard-coded) `mul_by_a` hook is multiplication by `COEFF_A` -/
def checkSwMulByA (c : SwCfg) : Bool :=
  c.mulByABasis == c.tower.basis.map (fun e => c.tower.mul c.a e)

/-! ### GLV -/

structure GlvCfg where
  curve : SwCfg
  endoCoeffs : List El
  lambda : Nat
  /-- `SCALAR_DECOMP_COEFFS = [n11, n12, n21, n22]` as (is-positive, magnitude) -/
  decomp : List (Bool × Nat)
  endoGx : El
  endoGy : El
  endoGInfinity : Bool
  deriving Repr

def GlvCfg.beta (c : GlvCfg) : El := c.endoCoeffs.headD []

def GlvCfg.n (c : GlvCfg) (i : Nat) : Int :=
  match c.decomp[i]? with
  | some (pos, v) => sgn (!pos) v
  | none => 0

/-- one endomorphism coefficient `β` with `β³ = 1`, `β ≠ 1`, on a curve with `a = 0`
    (so `(x, y) ↦ (βx, y)` is an endomorphism) -/
def checkGlvBeta (c : GlvCfg) : Bool :=
  let t := c.curve.tower
  c.endoCoeffs.length == 1 && wf t c.beta && isZero c.curve.a
  && t.mul c.beta (t.sq c.beta) == t.one && c.beta != t.one

/-- `λ² + λ + 1 ≡ 0 (mod r)` -/
def checkGlvLambda (c : GlvCfg) : Bool :=
  decide (c.lambda < c.curve.r) && (c.lambda * c.lambda + c.lambda + 1) % c.curve.r == 0

/-- the compiled `endomorphism_affine(G)` is `(β·G.x, G.y)` -/
def checkGlvEndoForm (c : GlvCfg) : Bool :=
  !c.endoGInfinity && c.endoGx == c.curve.tower.mul c.beta c.curve.gx && c.endoGy == c.curve.gy

/-- `φ(G) = λ·G` -/
def checkGlvEigen (c : GlvCfg) : Bool :=
  let t := c.curve.tower
  Sw.eqAffine t (Sw.smul t c.curve.a c.curve.gx c.curve.gy c.lambda) (t.mul c.beta c.curve.gx) c.curve.gy

/-- both rows of the decomposition matrix lie in the lattice `{(a, b) : a + λ b ≡ 0 (mod r)}` -/
def checkGlvDecompRows (c : GlvCfg) : Bool :=
  c.decomp.length == 4
  && (c.n 0 + (c.lambda : Int) * c.n 1) % (c.curve.r : Int) == 0
  && (c.n 2 + (c.lambda : Int) * c.n 3) % (c.curve.r : Int) == 0

/-- `det N = r` (documented on `SCALAR_DECOMP_COEFFS`; the rounding in `scalar_decomposition`
    uses `N⁻¹ = (1/r)·adj N`) -/
def checkGlvDet (c : GlvCfg) : Bool :=
  c.n 0 * c.n 3 - c.n 1 * c.n 2 == (c.curve.r : Int)

/-- the decomposition basis is short ("LLL-reduced"): every entry satisfies `n² ≤ 4r` -/
def checkGlvDecompShort (c : GlvCfg) : Bool :=
  allB (fun (e : Bool × Nat) => decide (e.2 * e.2 ≤ 4 * c.curve.r)) c.decomp

/-! ### SWU / WB -/

structure SwuCfg where
  curve : SwCfg
  zeta : El
  deriving Repr

/-- `ZETA` is a non-square of the base field -/
def checkSwuZeta (c : SwuCfg) : Bool := wf c.curve.tower c.zeta && c.curve.tower.nonSquare c.zeta

/-- simplified SWU needs `a·b ≠ 0` -/
def checkSwuAB (c : SwuCfg) : Bool := !isZero c.curve.a && !isZero c.curve.b

structure WbCfg where
  curve : SwCfg
  iso : SwCfg
  isoZeta : El
  xNum : List El
  xDen : List El
  yNum : List El
  yDen : List El
  deriving Repr

def checkWbShape (c : WbCfg) : Bool :=
  let t := c.curve.tower
  allB (wf t) c.xNum && allB (wf t) c.xDen && allB (wf t) c.yNum && allB (wf t) c.yDen
  && !c.xNum.isEmpty && !c.xDen.isEmpty && !c.yNum.isEmpty && !c.yDen.isEmpty
  && c.iso.r == c.curve.r

/-- the isogenous curve is a valid SWU domain and its generator lies on it -/
def checkWbIsoCurve (c : WbCfg) : Bool :=
  checkSwuZeta ⟨c.iso, c.isoZeta⟩ && checkSwuAB ⟨c.iso, c.isoZeta⟩ && checkSwGeneratorOnCurve c.iso

/-- `WBMap::check_parameters`: the isogeny `(x, y) ↦ (xNum(x)/xDen(x), y·yNum(x)/yDen(x))` maps the
    generator of the isogenous curve onto the curve (denominators non-zero) -/
def checkWbImageOnCurve (c : WbCfg) : Bool :=
  let t := c.curve.tower
  let xn := t.evalPoly c.iso.gx c.xNum
  let xd := t.evalPoly c.iso.gx c.xDen
  let yn := t.mul c.iso.gy (t.evalPoly c.iso.gx c.yNum)
  let yd := t.evalPoly c.iso.gx c.yDen
  let xd2 := t.sq xd
  !isZero xd && !isZero yd
  && t.mul (t.sq yn) (t.mul xd xd2)
     == t.mul (t.sq yd) (t.add (t.add (t.mul xn (t.sq xn)) (t.mul c.curve.a (t.mul xn xd2)))
                               (t.mul c.curve.b (t.mul xd xd2)))

/-- the image of the isogenous generator is again killed by `r` (the map is a group homomorphism
    on the generator's subgroup) -/
def checkWbImageOrder (c : WbCfg) : Bool :=
  let t := c.curve.tower
  let x := t.mul (t.evalPoly c.iso.gx c.xNum) (t.inv (t.evalPoly c.iso.gx c.xDen))
  let y := t.mul (t.mul c.iso.gy (t.evalPoly c.iso.gx c.yNum)) (t.inv (t.evalPoly c.iso.gx c.yDen))
  isZero (Sw.smul t c.curve.a x y c.curve.r).z

/-! ## twisted Edwards curves -/

/-- projective point `(X : Y : Z)` on `a x² + y² = 1 + d x² y²` -/
structure TPt where
  x : El
  y : El
  z : El
  deriving Repr

namespace Te

def id (t : Tw) : TPt := ⟨t.zero, t.one, t.one⟩

/-- unified addition add-2008-bbjlp -/
def add (t : Tw) (a d : El) (P Q : TPt) : TPt :=
  let aa := t.mul P.z Q.z
  let bb := t.sq aa
  let cc := t.mul P.x Q.x
  let dd := t.mul P.y Q.y
  let ee := t.mul d (t.mul cc dd)
  let ff := t.sub bb ee
  let gg := t.add bb ee
  ⟨t.mul (t.mul aa ff) (t.sub (t.sub (t.mul (t.add P.x P.y) (t.add Q.x Q.y)) cc) dd),
   t.mul (t.mul aa gg) (t.sub dd (t.mul a cc)),
   t.mul ff gg⟩

def smulAux (t : Tw) (a d : El) (G : TPt) : Nat → Nat → TPt
  | 0, _ => id t
  | fuel + 1, k =>
    if k = 0 then id t
    else
      let h := smulAux t a d G fuel (k / 2)
      let dbl := add t a d h h
      if k % 2 = 1 then add t a d dbl G else dbl

def smul (t : Tw) (a d : El) (G : TPt) (k : Nat) : TPt := smulAux t a d G (k.log2 + 1) k

def onCurve (t : Tw) (a d x y : El) : Bool :=
  let xx := t.sq x
  let yy := t.sq y
  t.add (t.mul a xx) yy == t.add t.one (t.mul d (t.mul xx yy))

def isId (P : TPt) : Bool := isZero P.x && !isZero P.z && P.y == P.z

end Te

structure TeCfg where
  tower : Tw
  r : Nat
  cofactor : Nat
  cofactorLimbs : List Nat
  cofactorInv : Nat
  a : El
  d : El
  gx : El
  gy : El
  montA : El
  montB : El
  mulByABasis : List El := []
  deriving Repr

def checkTeShape (c : TeCfg) : Bool :=
  c.tower.wfTower && wf c.tower c.a && wf c.tower c.d && wf c.tower c.gx && wf c.tower c.gy
  && wf c.tower c.montA && wf c.tower c.montB
  && decide (2 < c.r) && decide (c.cofactorInv < c.r)
  && limbsVal c.cofactorLimbs == c.cofactor

/-- `a ≠ 0`, `d ≠ 0`, `a ≠ d` -/
def checkTeNondegenerate (c : TeCfg) : Bool := !isZero c.a && !isZero c.d && c.a != c.d

def checkTeGeneratorOnCurve (c : TeCfg) : Bool := Te.onCurve c.tower c.a c.d c.gx c.gy

/-- `r·G = (0, 1)` and `G ≠ (0, 1)` -/
def checkTeGeneratorOrder (c : TeCfg) : Bool :=
  !(isZero c.gx && c.gy == c.tower.one)
  && Te.isId (Te.smul c.tower c.a c.d ⟨c.gx, c.gy, c.tower.one⟩ c.r)

def checkTeCofactorInv (c : TeCfg) : Bool := checkCofactorInv c.r c.cofactor c.cofactorInv

def checkTeMulByA (c : TeCfg) : Bool :=
  c.mulByABasis == c.tower.basis.map (fun e => c.tower.mul c.a e)

/-- the Montgomery model `B y² = x³ + A x² + x` is birationally equivalent to the Edwards model:
    `A = 2(a+d)/(a-d)` and `B·(a-d)/4` is a non-zero square (`B = 4/(a-d)` up to the isomorphism
    `y ↦ c·y`; several crates normalise the Edwards form to `a = -1`) -/
def checkTeMontgomery (c : TeCfg) : Bool :=
  let t := c.tower
  let amd := t.sub c.a c.d
  t.mul c.montA amd == t.mul (t.const 2) (t.add c.a c.d)
  && t.isSquare (t.mul (t.mul c.montB amd) (t.inv (t.const 4)))

structure Elligator2Cfg where
  curve : TeCfg
  z : El
  oneOverCoeffBSquare : El
  coeffAOverCoeffB : El
  deriving Repr

/-- `Z` is a non-square -/
def checkElligatorZ (c : Elligator2Cfg) : Bool := wf c.curve.tower c.z && c.curve.tower.nonSquare c.z

/-- `ONE_OVER_COEFF_B_SQUARE = 1/B²`, `COEFF_A_OVER_COEFF_B = A/B` (Montgomery coefficients) -/
def checkElligatorConsts (c : Elligator2Cfg) : Bool :=
  let t := c.curve.tower
  !isZero c.curve.montB
  && t.mul c.oneOverCoeffBSquare (t.sq c.curve.montB) == t.one
  && t.mul c.coeffAOverCoeffB c.curve.montB == c.curve.montA

/-! ## pairing parameter sets -/

/-- twist relation for `y² = x³ + b`: M-type `b' = b·ξ`, D-type `b'·ξ = b` -/
def twistB (t : Tw) (isM : Bool) (b1 xi b2 : El) : Bool :=
  if isM then b2 == t.mul (embed t b1) xi else t.mul b2 xi == embed t b1

structure Bls12Cfg where
  x : Nat
  xIsNegative : Bool
  twistIsM : Bool
  p : Nat
  r : Nat
  fp2 : Tw
  fp6Nonresidue : El
  g1a : El
  g1b : El
  g2a : El
  g2b : El
  g1Cofactor : Nat
  g2Cofactor : Nat
  deriving Repr

def Bls12Cfg.xi (c : Bls12Cfg) : Int := sgn c.xIsNegative c.x

/-- `r = x⁴ - x² + 1`, `p = (x-1)²·r/3 + x` -/
def checkBls12Family (c : Bls12Cfg) : Bool :=
  let x := c.xi
  (c.r : Int) == x ^ 4 - x ^ 2 + 1
  && 3 * ((c.p : Int) - x) == (x - 1) ^ 2 * (c.r : Int)

/-- `h₁ = (x-1)²/3`, `h₂ = (x⁸ - 4x⁷ + 5x⁶ - 4x⁴ + 6x³ - 4x² - 4x + 13)/9` -/
def checkBls12Cofactors (c : Bls12Cfg) : Bool :=
  let x := c.xi
  3 * (c.g1Cofactor : Int) == (x - 1) ^ 2
  && 9 * (c.g2Cofactor : Int) == x ^ 8 - 4 * x ^ 7 + 5 * x ^ 6 - 4 * x ^ 4 + 6 * x ^ 3 - 4 * x ^ 2 - 4 * x + 13

/-- `a = 0` on both curves, `b₂ = b₁·ξ` (M) or `b₂·ξ = b₁` (D) with `ξ = Fp6Config::NONRESIDUE` -/
def checkBls12Twist (c : Bls12Cfg) : Bool :=
  isZero c.g1a && isZero c.g2a && c.fp2.char == c.p && wf c.fp2 c.fp6Nonresidue && wf c.fp2 c.g2b
  && twistB c.fp2 c.twistIsM c.g1b c.fp6Nonresidue c.g2b

structure BnCfg where
  x : Nat
  xIsNegative : Bool
  ateLoopCount : List Int
  twistIsM : Bool
  twistMulByQX : El
  twistMulByQY : El
  p : Nat
  r : Nat
  fp2 : Tw
  fp6Nonresidue : El
  g1a : El
  g1b : El
  g2a : El
  g2b : El
  g1Cofactor : Nat
  g2Cofactor : Nat
  deriving Repr

def BnCfg.xi (c : BnCfg) : Int := sgn c.xIsNegative c.x

/-- `p = 36x⁴+36x³+24x²+6x+1`, `r = 36x⁴+36x³+18x²+6x+1` -/
def checkBnFamily (c : BnCfg) : Bool :=
  let x := c.xi
  (c.p : Int) == 36 * x ^ 4 + 36 * x ^ 3 + 24 * x ^ 2 + 6 * x + 1
  && (c.r : Int) == 36 * x ^ 4 + 36 * x ^ 3 + 18 * x ^ 2 + 6 * x + 1

/-- `ATE_LOOP_COUNT` is a signed-digit recoding (LSB first, leading digit 1) of `|6x + 2|` -/
def checkBnLoopCount (c : BnCfg) : Bool :=
  allB isDigit c.ateLoopCount
  && c.ateLoopCount.getLast? == some 1
  && sdValLE c.ateLoopCount == (6 * c.xi + 2).natAbs

/-- `TWIST_MUL_BY_Q_X = ξ^((p-1)/3)`, `TWIST_MUL_BY_Q_Y = ξ^((p-1)/2)` -/
def checkBnTwistMulByQ (c : BnCfg) : Bool :=
  (c.p - 1) % 6 == 0
  && c.twistMulByQX == c.fp2.pow c.fp6Nonresidue ((c.p - 1) / 3)
  && c.twistMulByQY == c.fp2.pow c.fp6Nonresidue ((c.p - 1) / 2)

def checkBnTwist (c : BnCfg) : Bool :=
  isZero c.g1a && isZero c.g2a && c.fp2.char == c.p && wf c.fp2 c.fp6Nonresidue && wf c.fp2 c.g2b
  && twistB c.fp2 c.twistIsM c.g1b c.fp6Nonresidue c.g2b

/-- `h₁ = 1`, `h₂ = 2p - r` -/
def checkBnCofactors (c : BnCfg) : Bool :=
  c.g1Cofactor == 1 && c.g2Cofactor + c.r == 2 * c.p

structure Bw6Cfg where
  x : Nat
  xIsNegative : Bool
  xMinus1Div3 : Nat
  ateLoopCount1 : Nat
  ateLoopCount1IsNegative : Bool
  ateLoopCount2 : List Int
  ateLoopCount2IsNegative : Bool
  twistIsM : Bool
  hT : Int
  hY : Int
  tModRIsZero : Bool
  p : Nat
  r : Nat
  fp3 : Tw
  fp6Nonresidue : El
  g1a : El
  g1b : El
  g2a : El
  g2b : El
  g1Cofactor : Nat
  g2Cofactor : Nat
  deriving Repr

def Bw6Cfg.xi (c : Bw6Cfg) : Int := sgn c.xIsNegative c.x

/-- `X_MINUS_1_DIV_3`: `(x-1)/3` for `x > 0`, `(-x+1)/3` otherwise -/
def checkBw6XMinus1Div3 (c : Bw6Cfg) : Bool :=
  3 * (c.xMinus1Div3 : Int) == (if c.xIsNegative then - c.xi + 1 else c.xi - 1)

/-- `ATE_LOOP_COUNT_1 = x` (with its sign flag); `ATE_LOOP_COUNT_2` recodes `x² - x - 1`
    (LSB first, leading digit 1) -/
def checkBw6LoopCounts (c : Bw6Cfg) : Bool :=
  sgn c.ateLoopCount1IsNegative c.ateLoopCount1 == c.xi
  && allB isDigit c.ateLoopCount2
  && c.ateLoopCount2.getLast? == some 1
  && (if c.ateLoopCount2IsNegative then - sdValLE c.ateLoopCount2 else sdValLE c.ateLoopCount2)
     == c.xi ^ 2 - c.xi - 1

/-- the scalar field is the base field of the inner BLS12 curve: `r = (x-1)²(x⁴-x²+1)/3 + x`;
    CM equation `4p = t² + 3y²` with `t = t₀ + h_t·r`, `y = y₀ + h_y·r`,
    `t₀ = x⁵-3x⁴+3x³-x+3`, `y₀ = t₀/3` (trace ≢ 0), resp. `t₀ = -x⁵+3x⁴-3x³+x`, `y₀ = -t₀/3` -/
def checkBw6Family (c : Bw6Cfg) : Bool :=
  let x := c.xi
  let r := (c.r : Int)
  let s := x ^ 5 - 3 * x ^ 4 + 3 * x ^ 3 - x
  let t := (if c.tModRIsZero then - s else s + 3) + c.hT * r
  let y3 := (if c.tModRIsZero then s else s + 3) + 3 * c.hY * r
  3 * (r - x) == (x - 1) ^ 2 * (x ^ 4 - x ^ 2 + 1)
  && 12 * (c.p : Int) == 3 * t ^ 2 + y3 ^ 2

/-- sextic twist over `F_p`: `a = 0`, `b₂ = b₁·β` (M) / `b₂·β = b₁` (D), `β = Fp3Config::NONRESIDUE` -/
def checkBw6Twist (c : Bw6Cfg) : Bool :=
  match c.fp3 with
  | .ext 3 (.prime p) nr =>
    p == c.p && isZero c.g1a && isZero c.g2a
    && twistB (.prime p) c.twistIsM c.g1b nr c.g2b
  | _ => false

/-- MNT4 / MNT6 (and the hand-written CP6-782): `kind = 4`, `6`, or `0` for CP6 -/
structure MntCfg where
  k : Nat
  twist : El
  twistCoeffA : El
  ateLoopCount : List Int
  ateLoopCountNat : Nat := 0
  ateIsLoopCountNeg : Bool
  finalExponentLastChunk1 : Nat
  finalExponentLastChunkW0IsNeg : Bool
  finalExponentLastChunkAbsOfW0 : Nat
  p : Nat
  r : Nat
  ext : Tw
  g1a : El
  g1b : El
  g2a : El
  g2b : El
  g1Cofactor : Nat
  g2Cofactor : Nat
  deriving Repr

/-- `ATE_LOOP_COUNT` (signed digits, MSB first, leading digit 1; sign flag) is congruent to the
    Frobenius eigenvalue `p` modulo `r`; for MNT4/6 (G1 cofactor 1) it equals `t - 1 = p - r` -/
def checkMntLoopCount (c : MntCfg) : Bool :=
  if c.k == 0 then
    (sgn c.ateIsLoopCountNeg c.ateLoopCountNat - (c.p : Int)) % (c.r : Int) == 0
  else
    allB isDigit c.ateLoopCount
    && c.ateLoopCount.head? == some 1
    && c.g1Cofactor == 1
    && (if c.ateIsLoopCountNeg then - sdValBE c.ateLoopCount else sdValBE c.ateLoopCount)
       == (c.p : Int) - (c.r : Int)

/-- last chunk of the final exponent: `Φ_k(p) = r·(w₁·p + w₀)` with `Φ₄(p) = p²+1`, `Φ₆(p) = p²-p+1` -/
def checkMntFinalExponent (c : MntCfg) : Bool :=
  let p := (c.p : Int)
  let w0 := sgn c.finalExponentLastChunkW0IsNeg c.finalExponentLastChunkAbsOfW0
  (c.r : Int) * ((c.finalExponentLastChunk1 : Int) * p + w0)
    == (if c.k == 4 then p ^ 2 + 1 else p ^ 2 - p + 1)

/-- `TWIST` is the generator `u` of the extension; `TWIST_COEFF_A = a·u²`; G2: `a' = a·u²`, `b' = b·u³` -/
def checkMntTwist (c : MntCfg) : Bool :=
  let t := c.ext
  let u2 := t.sq c.twist
  c.ext.char == c.p
  && c.twist == 0 :: 1 :: List.replicate (t.deg - 2) 0
  && (c.k == 0 || c.twistCoeffA == t.mul (embed t c.g1a) u2)
  && c.g2a == t.mul (embed t c.g1a) u2
  && c.g2b == t.mul (embed t c.g1b) (t.mul u2 c.twist)

/-! ## WB isogenies: the polynomial identity (dense polynomials over a tower)

  A polynomial is its list of coefficients (`El`s of the tower), constant term first — the same
  convention as `IsogenyMap::{x,y}_map_{numerator,denominator}` (`DensePolynomial::from_coefficients_slice`)
  and as `Tw.evalPoly`.  Schoolbook arithmetic, structural recursion only. -/

def polyAdd (t : Tw) : List El → List El → List El
  | [], q => q
  | a :: p, [] => a :: p
  | a :: p, b :: q => t.add a b :: polyAdd t p q

/-- `c · p` -/
def polyScale (t : Tw) (c : El) : List El → List El
  | [] => []
  | a :: p => t.mul c a :: polyScale t c p

/-- `(a + X·p)·q = a·q + X·(p·q)` -/
def polyMul (t : Tw) : List El → List El → List El
  | [], _ => []
  | a :: p, q => polyAdd t (polyScale t a q) (t.zero :: polyMul t p q)

/-- normal form: trailing (= leading-degree) zero coefficients stripped -/
def polyNorm : List El → List El
  | [] => []
  | a :: p =>
    match polyNorm p with
    | [] => if isZero a then [] else [a]
    | q => a :: q

/-- `(X³ + a'X + b') · yNum² · xDen³` with `(a', b')` the coefficients of the isogenous curve -/
def wbIsoLhs (c : WbCfg) : List El :=
  let t := c.curve.tower
  polyMul t (polyMul t [c.iso.b, c.iso.a, t.zero, t.one] (polyMul t c.yNum c.yNum))
    (polyMul t c.xDen (polyMul t c.xDen c.xDen))

/-- `yDen² · (xNum³ + a·xNum·xDen² + b·xDen³)` with `(a, b)` the coefficients of the target curve -/
def wbIsoRhs (c : WbCfg) : List El :=
  let t := c.curve.tower
  let xd2 := polyMul t c.xDen c.xDen
  polyMul t (polyMul t c.yDen c.yDen)
    (polyAdd t (polyAdd t (polyMul t c.xNum (polyMul t c.xNum c.xNum))
                          (polyScale t c.curve.a (polyMul t c.xNum xd2)))
               (polyScale t c.curve.b (polyMul t c.xDen xd2)))

/-- **the isogeny `(x, y) ↦ (xNum(x)/xDen(x), y·yNum(x)/yDen(x))` maps `E' : y² = x³ + a'x + b'` into
    `E : y² = x³ + ax + b` as an identity of polynomials** (not only at the generator, cf.
    `checkWbImageOnCurve`): substituting and clearing denominators,
    `(X³ + a'X + b')·yNum²·xDen³ = yDen²·(xNum³ + a·xNum·xDen² + b·xDen³)` coefficient by coefficient;
    all the data well formed (reduced coordinates, right arity). -/
def checkWbIsoIdentity (c : WbCfg) : Bool :=
  let t := c.curve.tower
  wf t c.iso.a && wf t c.iso.b && wf t c.curve.a && wf t c.curve.b
  && allB (wf t) c.xNum && allB (wf t) c.xDen && allB (wf t) c.yNum && allB (wf t) c.yDen
  && polyNorm (wbIsoLhs c) == polyNorm (wbIsoRhs c)

/-! ### GLV: the halves of the decomposition fit the joint double-and-add ladder -/

/-- number of 64-bit limbs of the scalar field's `BigInt` -/
def GlvCfg.scalarLimbs (c : GlvCfg) : Nat := c.curve.r.log2 / 64 + 1

/-- `|k1| ≤ |n11| + |n21|` and `|k2| ≤ |n12| + |n22|` for every scalar (proved in `Ark/Proofs/GlvEndo.lean`
    from `det N = r`); the GLV ladder in `glv.rs` needs both halves below `r` (they are converted through the
    scalar field) and below `2^(64·N − 1)` (its bit iterator drops nothing only below the top bit) -/
def checkGlvLadderBound (c : GlvCfg) : Bool :=
  let m := min c.curve.r (2 ^ (64 * c.scalarLimbs - 1))
  decide ((c.n 0).natAbs + (c.n 2).natAbs < m) && decide ((c.n 1).natAbs + (c.n 3).natAbs < m)

/-! ### well-formedness checks added after the meaning lemmas (`Ark/Props/C16Meaning2.lean`) showed what the
    original shape checkers leave open -/

/-- every cofactor limb of a twisted Edwards configuration is a 64-bit word (`checkSwShape` has this conjunct) -/
def checkTeCofactorLimbs (c : TeCfg) : Bool :=
  allB (fun x => decide (x < 2 ^ 64)) c.cofactorLimbs

/-- the isogenous curve of a WB configuration lives over the same tower as the target curve and is itself a
    well-formed short Weierstrass configuration (the other WB checkers evaluate its generator in `c.curve.tower`) -/
def checkWbIsoShape (c : WbCfg) : Bool :=
  checkSwShape c.iso && checkSwShape c.curve

/-- the two precomputed Elligator 2 constants are reduced elements of the base field -/
def checkElligatorConstsWf (c : Elligator2Cfg) : Bool :=
  wf c.curve.tower c.oneOverCoeffBSquare && wf c.curve.tower c.coeffAOverCoeffB

end Ark.Cfg
