import Ark.Model.EqOrd
import Ark.Model.DrvC03
import Ark.Model.NatSpec
import Ark.Model.Proto
/-
  Driver dispatch for C19 (equality / ordering / hashing / zero-one predicates).

    C19 fpeq|fpcmp|fphash <N> <p> <tag> <a> <b>          a, b raw Montgomery values (hex)
    C19 fpzero <N> <p> <tag> <a>                          => <is_zero> <is_one>
    C19 fpcmp3 <N> <p> <a> <b> <c>                        => ab ba bc ac
    C19 bigeq|bigcmp|bighash <a> <b> ; bigcmp3 <a> <b> <c> ; bigzero <a>       limb lists l0,l1,…
    C19 exteq|extcmp|exthash <shape> <N> <p> <tag> <A> <B>   shape 2 | 3 | 3.2 | 2.3.2 (outermost first),
                                                          A = flattened raw Montgomery coefficients (c0 first)
    C19 extzero <shape> <N> <p> <tag> <A>                 => <is_zero> <is_one>
    C19 extcmp3 <shape> <N> <p> <A> <B> <C>
    C19 pairingeq|pairingcmp|pairinghash <shape> <N> <p> <tag> <A> <B>
    C19 pairingzero <shape> <N> <p> <tag> <A>             => <is_zero> <== zero()>
    C19 sw.pteq|sw.pthash <N> <fld> <tag> <P> <Q>         points as in C03: x/y/z, standard residues, Fq2 = c0.c1
    C19 sw.ptmixedeq <N> <fld> <tag> <A> <P>              => <A == P> <P == A>
    C19 sw.affeq[.raw]|sw.affhash[.raw] <N> <fld> <tag> <A> <B>
    C19 sw.ptzero <N> <fld> <tag> <P>                     => <is_zero> <== zero()>
    C19 sw.affzero[.raw] <N> <fld> <tag> <A>              => <AffineRepr::is_zero> <== identity()>
    C19 te.…                                              (x/y/t/z ; x/y);  te.affzero => <is_zero> <AffineRepr::is_zero> <== zero()>
    C19 polyeq|polyhash <N> <p> d|s <tag> <A> <B>         dense: c0,c1,… ; sparse: deg:c,… ; raw Montgomery values
    C19 polyzero <N> <p> d|s <tag> <A>                    => <is_zero> <== zero()>

  model output: what `Ark.EqOrd` computes (hash ops: the two byte streams, hex);
  verdict: `==` ⇔ the two values denote the same mathematical object (standard residue, affine point,
  coefficient function); `cmp` = integer order of the standard residues / lexicographic order with the
  highest coefficient most significant; equal objects ⇒ equal hash streams; predicates ⇔ denotes 0 / 1.
-/
namespace Ark.DrvC19
open Ark Ark.Proto Ark.EqOrd Ark.Curve

def vs (impl spec : String) : String := if impl == spec then "ok" else "bad:want=" ++ spec

def hexBytes (l : List Nat) : String :=
  if l.isEmpty then "_" else String.ofList (l.flatMap (fun b => [hexChar (b / 16), hexChar (b % 16)]))

/-- verdict of a hash op: the implementation printed two streams; objects that are equal must have equal streams -/
def hashVerdict (sameObject : Bool) (impl : String) : String :=
  match impl.splitOn " " with
  | [sa, sb] =>
    if sameObject && sa != sb then "bad:equal-objects-hash-differently"
    else "ok"
  | _ => if impl == "panic" then "bad:panic" else "bad:unparsable"

def natOrd (a b : Nat) : Ordering := if a < b then .lt else if a > b then .gt else .eq

/-- lexicographic order on coefficient lists, the *last* (highest) coefficient most significant -/
def lexHighRev : List Nat → List Nat → Ordering
  | a :: as, b :: bs => if a < b then .lt else if a > b then .gt else lexHighRev as bs
  | _, _ => .eq
def lexHigh (a b : List Nat) : Ordering := lexHighRev a.reverse b.reverse

def rev : Ordering → Ordering
  | .lt => .gt | .gt => .lt | .eq => .eq

def cmp3Str (c : α → α → Ordering) (a b d : α) : String :=
  s!"{ordStr (c a b)} {ordStr (c b a)} {ordStr (c b d)} {ordStr (c a d)}"

/-- the part of the Montgomery configuration that C19's functions read (`n`, `p`, `INV`; `R` only for `is_one`),
    computed as `Mont.mkCfg` computes it — without `R2`, which dominates the cost of `mkCfg` -/
def cfgOf (n pv : Nat) (withR : Bool) : Mont.MontCfg :=
  let p := toLimbs n pv
  { n := n, p := p, inv := Mont.computeInv (p.headD 0),
    r := if withR then toLimbs n (Mont.montgomeryR n pv) else [], r2 := [],
    spare := false, noCarry := false, derived := true }

/-! ### extension towers -/

def parseShape (s : String) : Option (List Nat) := mapM? parseHex? (s.splitOn ".")

/-- group a flattened coefficient list (limb lists) according to the tower shape -/
def build : List Nat → List (List Nat) → Option Ext
  | [], [a] => some (.fp a)
  | [], _ => none
  | d :: sh, l =>
    let k := l.length / d
    if l.length != d * k then none
    else if d == 2 then do
      let c0 ← build sh (l.take k); let c1 ← build sh (l.drop k)
      some (.quad c0 c1)
    else if d == 3 then do
      let c0 ← build sh (l.take k); let c1 ← build sh ((l.drop k).take k); let c2 ← build sh (l.drop (2 * k))
      some (.cubic c0 c1 c2)
    else none

/-! ### curve points, generic over the base field -/
section Generic
variable {F : Type} [Add F] [Sub F] [Mul F] [Neg F] [Zero F] [One F] [Inv F] [DecidableEq F]
variable (io : DrvC03.FieldIO F) (enc : F → List Nat)

def swStream : Outcome (F × F × Bool) → String
  | .ok k => hexBytes (swKeyStream enc k)
  | .panic => "panic"
def teStream : Outcome (F × F) → String
  | .ok k => hexBytes (teKeyStream enc k)
  | .panic => "panic"

/-- branch labels (generator-quality table of the check) -/
def swEqTag (p q : SW.Jac F) : String :=
  if p.isZero then (if q.isZero then "id-id" else "id-pt")
  else if q.isZero then "pt-id"
  else if p.x * sq q.z ≠ q.x * sq p.z then "x-differs"
  else if p.y * (sq q.z * q.z) ≠ q.y * (sq p.z * p.z) then "y-differs"
  else if p = q then "identical" else "rescaled"
def swNormTag (p : SW.Jac F) : String := if p.isZero then "id" else if p.z = 1 then "z1" else "inv"
def teEqTag (p q : TE.Ext F) : String :=
  if p.isZero then (if q.isZero then "id-id" else "id-pt")
  else if q.isZero then "pt-id"
  else if p.x * q.z ≠ q.x * p.z then "x-differs"
  else if p.y * q.z ≠ q.y * p.z then "y-differs"
  else if p = q then "identical" else "rescaled"
def teNormTag (p : TE.Ext F) : String := if p.isZero then "id" else if p.z = 1 then "z1" else "inv"

def runSW (op : String) (args : List String) (impl : String) : Option (String × String) := do
  match op, args with
  | "pteq", [_, p, q] =>
    let p ← DrvC03.pJac io p; let q ← DrvC03.pJac io q
    some (boolStr (swEq p q) ++ " @" ++ swEqTag p q, vs impl (boolStr (decide (SW.toAff p = SW.toAff q))))
  | "pthash", [_, p, q] =>
    let p ← DrvC03.pJac io p; let q ← DrvC03.pJac io q
    some (swStream enc (swHashKey p) ++ " " ++ swStream enc (swHashKey q) ++ " @" ++ swNormTag p ++ "," ++ swNormTag q,
          hashVerdict (decide (SW.toAff p = SW.toAff q)) impl)
  | "ptmixedeq", [_, a, p] =>
    let a ← DrvC03.pSWAff io a; let p ← DrvC03.pJac io p
    let s := boolStr (decide (SW.ofAffine a = SW.toAff p))
    some (boolStr (swAffEqProj a p) ++ " " ++ boolStr (swProjEqAff p a), vs impl (s ++ " " ++ s))
  | "ptzero", [_, p] =>
    let p ← DrvC03.pJac io p
    let s := boolStr (decide (SW.toAff p = none))
    some (boolStr (swIsZero p) ++ " " ++ boolStr (swEq p SW.Jac.zero), vs impl (s ++ " " ++ s))
  | o, [_, a, b] =>
    let a ← DrvC03.pSWAff io a; let b ← DrvC03.pSWAff io b
    if o == "affeq" || o == "affeq.raw" then
      some (boolStr (swAffEq a b), vs impl (boolStr (decide (SW.ofAffine a = SW.ofAffine b))))
    else if o == "affhash" || o == "affhash.raw" then
      some (hexBytes (swKeyStream enc (swAffHashKey a)) ++ " " ++ hexBytes (swKeyStream enc (swAffHashKey b)),
            hashVerdict (decide (SW.ofAffine a = SW.ofAffine b)) impl)
    else none
  | o, [_, a] =>
    if o == "affzero" || o == "affzero.raw" then do
      let a ← DrvC03.pSWAff io a
      let s := boolStr (decide (SW.ofAffine a = none))
      some (boolStr (swAffIsZero a) ++ " " ++ boolStr (swAffEq a SW.Affine.identity), vs impl (s ++ " " ++ s))
    else none
  | _, _ => none

def runTE (op : String) (args : List String) (impl : String) : Option (String × String) := do
  match op, args with
  | "pteq", [_, p, q] =>
    let p ← DrvC03.pExt io p; let q ← DrvC03.pExt io q
    let pa ← TE.toAff p; let qa ← TE.toAff q
    some (boolStr (teEq p q) ++ " @" ++ teEqTag p q, vs impl (boolStr (decide (pa = qa))))
  | "pthash", [_, p, q] =>
    let p ← DrvC03.pExt io p; let q ← DrvC03.pExt io q
    let pa ← TE.toAff p; let qa ← TE.toAff q
    some (teStream enc (teHashKey p) ++ " " ++ teStream enc (teHashKey q) ++ " @" ++ teNormTag p ++ "," ++ teNormTag q,
          hashVerdict (decide (pa = qa)) impl)
  | "ptmixedeq", [_, a, p] =>
    let a ← DrvC03.pTEAff io a; let p ← DrvC03.pExt io p
    let pa ← TE.toAff p
    let s := boolStr (decide (TE.ofAffine a = pa))
    some (boolStr (teAffEqProj a p) ++ " " ++ boolStr (teProjEqAff p a), vs impl (s ++ " " ++ s))
  | "ptzero", [_, p] =>
    let p ← DrvC03.pExt io p
    let pa ← TE.toAff p
    let s := boolStr (decide (pa = ((0 : F), (1 : F))))
    some (boolStr (teIsZero p) ++ " " ++ boolStr (teEq p TE.Ext.zero), vs impl (s ++ " " ++ s))
  | "affeq", [_, a, b] =>
    let a ← DrvC03.pTEAff io a; let b ← DrvC03.pTEAff io b
    some (boolStr (teAffEq a b), vs impl (boolStr (decide (TE.ofAffine a = TE.ofAffine b))))
  | "affhash", [_, a, b] =>
    let a ← DrvC03.pTEAff io a; let b ← DrvC03.pTEAff io b
    some (hexBytes (teKeyStream enc (teAffHashKey a)) ++ " " ++ hexBytes (teKeyStream enc (teAffHashKey b)),
          hashVerdict (decide (TE.ofAffine a = TE.ofAffine b)) impl)
  | "affzero", [_, a] =>
    let a ← DrvC03.pTEAff io a
    let s := boolStr (decide (TE.ofAffine a = ((0 : F), (1 : F))))
    -- inherent `is_zero`, `AffineRepr::is_zero` (= `xy().is_none()` = `!!is_zero()`), `== zero()`
    some (boolStr (teAffIsZero a) ++ " " ++ boolStr (teAffIsZero a) ++ " " ++ boolStr (teAffEq a TE.Affine.zero),
          vs impl (s ++ " " ++ s ++ " " ++ s))
  | _, _ => none

def runCurve (op : String) (args : List String) (impl : String) : Option (String × String) :=
  if op.startsWith "sw." then runSW io enc (op.drop 3).toString args impl
  else if op.startsWith "te." then runTE io enc (op.drop 3).toString args impl
  else none

end Generic

/-! ### polynomials (coefficients = Montgomery limb lists) -/

def parseTerms? (n : Nat) (s : String) : Option (List (Nat × List Nat)) :=
  if s == "_" then some []
  else mapM? (fun t => match t.splitOn ":" with
    | [d, c] => do let d ← parseHex? d; let c ← parseHex? c; some (d, toLimbs n c)
    | _ => none) (s.splitOn ",")

/-- the polynomial denoted by a stored dense vector: the coefficients without trailing zeros -/
def stripZeros (l : List Nat) : List Nat := (l.reverse.dropWhile (· == 0)).reverse

/-- the coefficient of `x^i` of a stored sparse vector (duplicate degrees add up, as in `evaluate`) -/
def coeffAt (p : Nat) (s : List (Nat × Nat)) (i : Nat) : Nat :=
  (s.foldl (fun acc t => if t.1 == i then acc + t.2 else acc) 0) % p

def sameSparse (p : Nat) (a b : List (Nat × Nat)) : Bool :=
  (a ++ b).all (fun t => coeffAt p a t.1 == coeffAt p b t.1)

def run (op : String) (args : List String) (impl : String) : Option (String × String) := do
  if op.startsWith "big" then
    match op, args with
    | "bigeq", [a, b] =>
      let a ← parseList? a; let b ← parseList? b
      some (boolStr (bigEq a b), vs impl (boolStr (value a == value b)))
    | "bigcmp", [a, b] =>
      let a ← parseList? a; let b ← parseList? b
      some (ordStr (bigCmp a b), vs impl (ordStr (natOrd (value a) (value b))))
    | "bighash", [a, b] =>
      let a ← parseList? a; let b ← parseList? b
      some (hexBytes (bigHashKey a) ++ " " ++ hexBytes (bigHashKey b), hashVerdict (value a == value b) impl)
    | "bigcmp3", [a, b, c] =>
      let a ← parseList? a; let b ← parseList? b; let c ← parseList? c
      some (cmp3Str bigCmp a b c, vs impl (cmp3Str natOrd (value a) (value b) (value c)))
    | "bigzero", [a] =>
      let a ← parseList? a
      some (boolStr (bigIsZero a), vs impl (boolStr (value a == 0)))
    | _, _ => none
  else if op.startsWith "fp" then
    match args with
    | n :: p :: rest =>
      let n ← parseHex? n; let pv ← parseHex? p
      let c := cfgOf n pv (op == "fpzero")
      let rinv := Spec.modInv (B ^ n % pv) pv
      let toN (x : Nat) : Nat := (x * rinv) % pv          -- Montgomery → standard residue
      let L (x : Nat) := toLimbs n x
      match op, rest with
      | "fpeq", [_, a, b] =>
        let a ← parseHex? a; let b ← parseHex? b
        some (boolStr (fpEq (L a) (L b)), vs impl (boolStr (toN a == toN b)))
      | "fpcmp", [_, a, b] =>
        let a ← parseHex? a; let b ← parseHex? b
        some (ordStr (fpCmp c (L a) (L b)), vs impl (ordStr (natOrd (toN a) (toN b))))
      | "fphash", [_, a, b] =>
        let a ← parseHex? a; let b ← parseHex? b
        some (hexBytes (fpHashKey (L a)) ++ " " ++ hexBytes (fpHashKey (L b)), hashVerdict (toN a == toN b) impl)
      | "fpzero", [_, a] =>
        let a ← parseHex? a
        some (boolStr (fpIsZero c (L a)) ++ " " ++ boolStr (fpIsOne c (L a)),
              vs impl (boolStr (toN a == 0) ++ " " ++ boolStr (toN a == 1 % pv)))
      | "fpcmp3", [a, b, d] =>
        let a ← parseHex? a; let b ← parseHex? b; let d ← parseHex? d
        some (cmp3Str (fpCmp c) (L a) (L b) (L d), vs impl (cmp3Str natOrd (toN a) (toN b) (toN d)))
      | _, _ => none
    | _ => none
  else if op.startsWith "ext" || op.startsWith "pairing" then
    match args with
    | sh :: n :: p :: rest =>
      let sh ← parseShape sh; let n ← parseHex? n; let pv ← parseHex? p
      let c := cfgOf n pv (op == "extzero" || op == "pairingzero")
      let rinv := Spec.modInv (B ^ n % pv) pv
      let toN (x : Nat) : Nat := (x * rinv) % pv
      let el (s : String) : Option (Ext × List Nat) := do
        let l ← parseList? s
        let e ← build sh (l.map (toLimbs n))
        some (e, l.map toN)
      let isOneVal (v : List Nat) : Bool := match v with
        | h :: t => h == 1 % pv && t.all (· == 0)
        | [] => false
      match op, rest with
      | "exteq", [_, a, b] =>
        let (a, av) ← el a; let (b, bv) ← el b
        some (boolStr (a.eq b), vs impl (boolStr (av == bv)))
      | "extcmp", [_, a, b] =>
        let (a, av) ← el a; let (b, bv) ← el b
        some (ordStr (Ext.cmp c a b), vs impl (ordStr (lexHigh av bv)))
      | "exthash", [_, a, b] =>
        let (a, av) ← el a; let (b, bv) ← el b
        some (hexBytes a.hashKey ++ " " ++ hexBytes b.hashKey, hashVerdict (av == bv) impl)
      | "extzero", [_, a] =>
        let (a, av) ← el a
        some (boolStr (a.isZero c) ++ " " ++ boolStr (a.isOne c),
              vs impl (boolStr (av.all (· == 0)) ++ " " ++ boolStr (isOneVal av)))
      | "extcmp3", [a, b, d] =>
        let (a, av) ← el a; let (b, bv) ← el b; let (d, dv) ← el d
        some (cmp3Str (Ext.cmp c) a b d, vs impl (cmp3Str lexHigh av bv dv))
      | "pairingeq", [_, a, b] =>
        let (a, av) ← el a; let (b, bv) ← el b
        some (boolStr (pairingEq a b), vs impl (boolStr (av == bv)))
      | "pairingcmp", [_, a, b] =>
        let (a, av) ← el a; let (b, bv) ← el b
        some (ordStr (pairingCmp c a b), vs impl (ordStr (lexHigh av bv)))
      | "pairinghash", [_, a, b] =>
        let (a, av) ← el a; let (b, bv) ← el b
        some (hexBytes (pairingHashKey a) ++ " " ++ hexBytes (pairingHashKey b), hashVerdict (av == bv) impl)
      | "pairingzero", [_, a] =>
        let (a, av) ← el a
        -- `PairingOutput::zero()` = `Self(TargetField::one())`
        let one ← build sh (c.r :: List.replicate (av.length - 1) (Mont.zeros n))
        let s := boolStr (isOneVal av)
        some (boolStr (pairingIsZero c a) ++ " " ++ boolStr (pairingEq a one), vs impl (s ++ " " ++ s))
      | _, _ => none
    | _ => none
  else if op.startsWith "poly" then
    match args with
    | n :: p :: kind :: rest =>
      let n ← parseHex? n; let pv ← parseHex? p
      let c := cfgOf n pv false
      let rinv := Spec.modInv (B ^ n % pv) pv
      let toN (x : Nat) : Nat := (x * rinv) % pv
      let L (x : Nat) := toLimbs n x
      let enc (x : List Nat) : List Nat := fpHashKey x
      if kind == "d" then
        match op, rest with
        | "polyeq", [_, a, b] =>
          let a ← parseList? a; let b ← parseList? b
          some (boolStr (polyEq (a.map L) (b.map L)), vs impl (boolStr (stripZeros (a.map toN) == stripZeros (b.map toN))))
        | "polyhash", [_, a, b] =>
          let a ← parseList? a; let b ← parseList? b
          some (hexBytes (polyHashKey enc (a.map L)) ++ " " ++ hexBytes (polyHashKey enc (b.map L)),
                hashVerdict (stripZeros (a.map toN) == stripZeros (b.map toN)) impl)
        | "polyzero", [_, a] =>
          let a ← parseList? a
          let s := boolStr ((a.map toN).all (· == 0))
          some (boolStr (polyIsZero (fpIsZero c) (a.map L)) ++ " " ++ boolStr (polyEq (a.map L) []), vs impl (s ++ " " ++ s))
        | _, _ => none
      else if kind == "s" then
        let val (s : List (Nat × List Nat)) : List (Nat × Nat) := s.map (fun t => (t.1, toN (value t.2)))
        match op, rest with
        | "polyeq", [_, a, b] =>
          let a ← parseTerms? n a; let b ← parseTerms? n b
          some (boolStr (sparseEq a b), vs impl (boolStr (sameSparse pv (val a) (val b))))
        | "polyhash", [_, a, b] =>
          let a ← parseTerms? n a; let b ← parseTerms? n b
          some (hexBytes (sparseHashKey enc a) ++ " " ++ hexBytes (sparseHashKey enc b),
                hashVerdict (sameSparse pv (val a) (val b)) impl)
        | "polyzero", [_, a] =>
          let a ← parseTerms? n a
          let s := boolStr (sameSparse pv (val a) [])
          some (boolStr (sparseIsZero (fpIsZero c) a) ++ " " ++ boolStr (sparseEq a []), vs impl (s ++ " " ++ s))
        | _, _ => none
      else none
    | _ => none
  else if op.startsWith "sw." || op.startsWith "te." then
    match args with
    | n :: fld :: rest =>
      let n ← parseHex? n
      match fld.splitOn ":" with
      | [p] =>
        let p ← parseHex? p
        let encFp (x : Fp p) : List Nat := fpHashKey (toLimbs n (x.val * B ^ n % p))
        runCurve (DrvC03.fpIO p) encFp op rest impl
      | [p, "2", nr] =>
        let p ← parseHex? p; let nr ← parseHex? nr
        let encFp (x : Fp p) : List Nat := fpHashKey (toLimbs n (x.val * B ^ n % p))
        let enc2 (x : DrvC03.Fq2 p nr) : List Nat := encFp x.c0 ++ encFp x.c1
        runCurve (DrvC03.fq2IO p nr) enc2 op rest impl
      | [p, "3", nr] =>
        let p ← parseHex? p; let nr ← parseHex? nr
        let encFp (x : Fp p) : List Nat := fpHashKey (toLimbs n (x.val * B ^ n % p))
        let enc3 (x : DrvC03.Fq3 p nr) : List Nat := encFp x.c0 ++ encFp x.c1 ++ encFp x.c2
        runCurve (DrvC03.fq3IO p nr) enc3 op rest impl
      | _ => none
    | _ => none
  else none

end Ark.DrvC19
