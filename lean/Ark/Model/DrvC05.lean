import Ark.Model.Msm
import Ark.Model.AffGroup
import Ark.Model.TeGroup
import Ark.Model.Proto
/-
  Driver dispatch for C05 (multi-scalar multiplication).

    C05 <op> <p> <a> <b> <r> <N> <nc> <bases> <scalars>                 op ∈ msm unchecked bigint wnaf plain chunks
    C05 chunkscyc <p> <a> <b> <r> <N> <nc> <nb> <ns> <bases> <scalars>  msm_chunks on the two patterns repeated
                                                                          cyclically to lengths nb / ns
    C05 chunked <p> <a> <b> <r> <N> <nc> <bufsize> <bases> <scalars> <ops>   ChunkedPippenger (scalars: big integers)
    C05 hashmap <p> <a> <b> <r> <N> <nc> <bufsize> <bases> <scalars> <ops>   HashMapPippenger (scalars: field elements)
    C05 digits <N> <a> <w> <numbits>                                      make_digits

  curve y² = x³ + a·x + b over F_p; r = modulus of the scalar field, N = limbs of its BigInt,
  nc = 1/0 = `NEGATION_IS_CHEAP` of the group the entry point was called on (irrelevant for wnaf/plain);
  bases: comma list of `x:y` | `inf` (`_` = empty); scalars: comma list of hex integers;
  ops: comma list of indices `i` = `add(bases[i], scalars[i])`, `finalize` is implicit at the end.
  result: `x:y` | `inf` | `err:<n>` | `panic`;   digits: comma list of signed hex digits | `panic`.

  The same ops on two more kinds of groups; only the group parameters in front of `<r> <N> <nc>` and the element
  syntax differ, the handlers are the same generic functions (`runGroup` over a `GIo G`):
    C05 te.<op> <p> <a> <d> <r> <N> <nc> …   twisted-Edwards curve a·x² + y² = 1 + d·x²·y² over F_p, spec group
                                             `Ark.TePt p a d` (`Ark.Model.TeGroup`), points `x:y`, identity `0:1`
    C05 gt.<op> <r> <N> <nc> …               a cyclic group of order r written by discrete logarithms w.r.t. a fixed
                                             generator (`PairingOutput`: the harness prints `gt^e` as `e`, from a table
                                             built by repeated addition of `gt`): spec group = `Fp r` with `+`,
                                             `k·e = k*e mod r`; result `notfound` = not one of the tabulated powers

  model output = what `Ark.Msm` computes at `G` (plus ` @tag`); verdict = the property applied to the implementation's
  output: the result is Σ kᵢ·Pᵢ over the common prefix computed with the reference scalar multiplication of the spec
  group (`AffPt.smul` / `TePt.smul` / multiplication mod r), term by term; the checked `msm` with unequal lengths must
  return `err:<min len>`.
-/
namespace Ark.DrvC05
open Ark Ark.Proto Ark.Msm

def vs (impl spec : String) : String := if impl == spec then "ok" else "bad:want=" ++ spec

/-- what the driver needs from a specification-level group besides `+ - 0` and decidable equality:
    printing / parsing of elements and the reference scalar multiplication used by the verdicts -/
structure GIo (G : Type) where
  sPt : G → String
  pPt : String → Option G
  smul : Nat → G → G

section Curve
variable {p : Nat} {E : SWParams p}

def sPt (P : AffPt p E) : String :=
  match P.pt with
  | none => "inf"
  | some (x, y) => hex x.val ++ ":" ++ hex y.val

def pPt (s : String) : Option (AffPt p E) :=
  if s == "inf" then some ⟨none⟩
  else match s.splitOn ":" with
    | [x, y] => do let x ← parseHex? x; let y ← parseHex? y; some ⟨some (Fp.ofNat p x, Fp.ofNat p y)⟩
    | _ => none

/-- short-Weierstrass spec group `AffPt p E` -/
def swIo (p : Nat) (E : SWParams p) : GIo (AffPt p E) := ⟨sPt, pPt, AffPt.smul⟩

end Curve

section TE
variable {p a d : Nat}

def sTe (P : TePt p a d) : String := hex P.x.val ++ ":" ++ hex P.y.val

def pTe (s : String) : Option (TePt p a d) :=
  match s.splitOn ":" with
  | [x, y] => do let x ← parseHex? x; let y ← parseHex? y; some ⟨Fp.ofNat p x, Fp.ofNat p y⟩
  | _ => none

/-- twisted-Edwards spec group `TePt p a d` (identity `0:1`) -/
def teIo (p a d : Nat) : GIo (TePt p a d) := ⟨sTe, pTe, TePt.smul⟩

end TE

/-- the additive group of `Z/r` (`Fp r` with `+`): a cyclic group of order `r` written by discrete logarithms
    w.r.t. a fixed generator — `PairingOutput` elements `gt^e` are exchanged as their exponent `e` -/
def zrIo (r : Nat) : GIo (Fp r) :=
  ⟨fun e => hex e.val, fun s => (parseHex? s).map (Fp.ofNat r), fun k e => Fp.ofNat r (k * e.val)⟩

section Group
variable {G : Type} [Add G] [Neg G] [Sub G] [Zero G] [DecidableEq G] [Inhabited G] (io : GIo G)

def pPts (s : String) : Option (List G) :=
  if s == "_" then some [] else mapM? io.pPt (s.splitOn ",")

def sOut : Outcome G → String
  | .ok P => io.sPt P
  | .panic => "panic"

/-- the specification: Σ kᵢ·Pᵢ over the common prefix, by the reference scalar multiplication -/
def specSum (ps : List G) (ks : List Nat) : G :=
  (ps.zip ks).foldl (fun acc pk => acc + io.smul pk.2 pk.1) 0

def cyc {α} [Inhabited α] (pat : List α) (n : Nat) : List α :=
  if pat.isEmpty then [] else (List.range n).map (fun i => pat.getD (i % pat.length) default)

/-- verdict for the big-integer entry points: inside the scalar domain `k < 2^numBits` the result must be
    Σ kᵢ·Pᵢ; above it the code reads exactly the bits below `c·⌈numBits/c⌉` — recorded as a note -/
def judgeBig (cfg : Cfg) (impl : String) (bases : List G) (ks : List Nat) : String :=
  let n := min bases.length ks.length
  let nb := cfg.numBits
  let want := io.sPt (specSum io bases ks)
  if impl == want then "ok"
  else if (ks.take n).all (· < 2 ^ nb) then "bad:want=" ++ want
  else
    let c := windowSize n
    let m := 2 ^ (c * divCeil nb c)
    let w2 := io.sPt (specSum io bases (ks.map (· % m)))
    if impl == w2 then "note:scalar>=2^MODULUS_BIT_SIZE,bits>=c*ceil(numBits/c)-ignored"
    else "bad:want=" ++ want ++ ",or=" ++ w2

def runMsm (cfg : Cfg) (op : String) (bs ss impl : String) : Option (String × String) := do
  let bases : List G ← pPts io bs
  let ks ← parseList? ss
  let n := min bases.length ks.length
  let tag := " @c" ++ toString (windowSize n)
  let limbs := ks.map (toLimbs cfg.limbs)
  let sPt := io.sPt
  match op with
  | "msm" =>
    let m := match msm cfg bases ks with
      | .ok (.ok g) => sPt g
      | .ok (.error e) => "err:" ++ hex e
      | .panic => "panic"
    let v := if bases.length = ks.length then vs impl (sPt (specSum io bases ks)) else vs impl ("err:" ++ hex n)
    some (m ++ (if bases.length = ks.length then tag else " @err"), v)
  | "unchecked" => some (sOut io (msmUnchecked cfg bases ks) ++ tag, vs impl (sPt (specSum io bases ks)))
  | "bigint" => some (sOut io (msmBigint cfg bases limbs) ++ tag, judgeBig io cfg impl bases ks)
  | "wnaf" => some (sOut io (msmBigintWnaf cfg.numBits bases limbs) ++ tag, judgeBig io cfg impl bases ks)
  | "plain" => some (sOut io (msmBigintPlain cfg.numBits cfg.one bases limbs) ++ tag, judgeBig io cfg impl bases ks)
  | "chunks" =>
    let m := sOut io (msmChunks cfg bases ks)
    if bases.length = ks.length then some (m ++ tag, vs impl (sPt (specSum io bases ks)))
    else if ks.length < bases.length then
      let w := sPt (specSum io (bases.drop (bases.length - ks.length)) ks)
      some (m ++ " @tail-aligned", if impl == w then "note:msm_chunks-skips-leading-bases" else "bad:want=" ++ w)
    else some (m ++ " @assert", if impl == "panic" then "note:msm_chunks-asserts-scalars<=bases" else "bad:want=panic")
  | _ => none

def runCyc (cfg : Cfg) (nbS nsS bs ss impl : String) : Option (String × String) := do
  let nb ← parseHex? nbS
  let ns ← parseHex? nsS
  let bpat : List G ← pPts io bs
  let spat ← parseList? ss
  let bases := cyc bpat nb
  let ks := cyc spat ns
  let m := sOut io (msmChunks cfg bases ks)
  if ns > nb then some (m ++ " @assert", if impl == "panic" then "note:msm_chunks-asserts-scalars<=bases" else "bad:want=panic")
  else
    let w := io.sPt (specSum io (bases.drop (nb - ns)) ks)
    some (m ++ " @steps" ++ toString (divCeil ns (2 ^ 20)),
          if impl == w then (if nb = ns then "ok" else "note:msm_chunks-skips-leading-bases") else "bad:want=" ++ w)

def runAcc (cfg : Cfg) (op : String) (bufS bs ss os impl : String) : Option (String × String) := do
  let bases : List G ← pPts io bs
  let ks ← parseList? ss
  let ops ← parseList? os
  let buf ← parseHex? bufS
  let adds ← mapM? (fun i => do let b ← bases[i]?; let k ← ks[i]?; some (b, k)) ops
  let want := io.sPt (specSum io (adds.map (·.1)) (adds.map (·.2)))
  match op with
  | "chunked" | "chunkedws" =>
    let m := sOut io (Chunked.run cfg buf (adds.map (fun a => (a.1, toLimbs cfg.limbs a.2))))
    let v := if impl == want then "ok"
      else if adds.all (fun a => a.2 < 2 ^ cfg.numBits) then "bad:want=" ++ want
      else "note:scalar>=2^MODULUS_BIT_SIZE"
    let tag := if buf = 0 then " @buf0" else
      (if adds.length / buf = 0 then " @noflush" else if adds.length / buf = 1 then " @flush1" else " @flush2+")
        ++ (if adds.length % buf = 0 then "" else "+tail")
    some (m ++ tag, v)
  | "hashmap" =>
    let m := sOut io (HashMapAcc.run cfg buf adds)
    let v := if impl == want then "ok"
      else if adds.all (fun a => a.2 < cfg.r ∧ io.smul cfg.r a.1 = 0) then "bad:want=" ++ want
      else "note:base-outside-the-order-r-subgroup"
    let distinct := (adds.map (·.1)).eraseDups.length
    let tag := (if distinct < adds.length then " @merge" else " @nomerge")
      ++ (if buf ≠ 0 ∧ distinct ≥ buf then "+flush" else "")
    some (m ++ tag, v)
  | _ => none

/-- the group ops after the header (`rest` = the remaining arguments) -/
def runGroup (cfg : Cfg) (op : String) (rest : List String) (impl : String) : Option (String × String) :=
  match op, rest with
  | "chunkscyc", [nbS, nsS, bs, ss] => runCyc io cfg nbS nsS bs ss impl
  | "chunked", [buf, bs, ss, os] => runAcc io cfg op buf bs ss os impl
  | "chunkedws", [buf, bs, ss, os] => runAcc io cfg op buf bs ss os impl
  | "hashmap", [buf, bs, ss, os] => runAcc io cfg op buf bs ss os impl
  | _, [bs, ss] => runMsm io cfg op bs ss impl
  | _, _ => none

end Group

def intPow (b : Int) : Nat → Int
  | 0 => 1
  | n + 1 => b * intPow b n

/-- Σ dᵢ·2^(w·i) -/
def digitsValueW (w : Nat) : List Int → Int
  | [] => 0
  | d :: ds => d + (2 : Int) ^ w * digitsValueW w ds

def runDigits (nS aS wS nbS impl : String) : Option (String × String) := do
  let n ← parseHex? nS
  let a ← parseHex? aS
  let w ← parseHex? wS
  let nb ← parseHex? nbS
  if n = 0 ∨ w > 62 ∨ a ≥ 2 ^ (64 * n) then none
  let scalar := toLimbs n a
  let m := match makeDigits scalar w nb with
    | .ok ds => hexIntList ds
    | .panic => "panic"
  let nb' := if nb = 0 then bitLen a else nb
  if w = 0 then some (m ++ " @w0", vs impl "panic")
  else
    let cnt := divCeil nb' w
    let tag :=
      if nb' > 64 * n then " @numbits>64N"
      else if a ≥ 2 ^ nb' then " @a>=2^numbits"
      else match makeDigits scalar w nb with
        | .ok ds => if ds.getLast?.any (fun d => d ≥ (2 : Int) ^ (w - 1)) then " @last-unrecentred" else " @plain"
        | .panic => " @panic"
    let v :=
      if nb' > 64 * n then (if impl == "panic" then "note:num_bits>64N-indexes-past-the-limbs" else
        match parseIntList? impl with
        | some ds => if ds.length = cnt ∧ digitsValueW w ds = (a : Int) then "ok" else "note:num_bits>64N"
        | none => "bad:unparsable")
      else if impl == "panic" then "bad:panic"
      else match parseIntList? impl with
        | none => "bad:unparsable"
        | some ds =>
          if ds.length ≠ cnt then "bad:count"
          else if !(ds.dropLast.all (fun d => - (2 : Int) ^ (w - 1) ≤ d ∧ d < (2 : Int) ^ (w - 1))) then "bad:digit-range"
          else if !(ds.getLast?.all (fun d => 0 ≤ d ∧ d ≤ (2 : Int) ^ w)) then "bad:last-digit-range"
          else if digitsValueW w ds = ((a % 2 ^ (w * cnt) : Nat) : Int) then
            (if a < 2 ^ nb' then "ok" else "note:a>=2^num_bits,bits>=w*count-ignored")
          else "bad:sum"
    some (m ++ tag, v)

def run (op : String) (args : List String) (impl : String) : Option (String × String) :=
  if op.startsWith "gt." then
    match args with
    | rS :: nS :: ncS :: rest => do
      let r ← parseHex? rS
      let n ← parseHex? nS
      if r < 2 ∨ n = 0 then none
      runGroup (zrIo r) ⟨r, n, ncS == "1"⟩ (op.drop 3).toString rest impl
    | _ => none
  else if op.startsWith "te." then
    match args with
    | pS :: aS :: dS :: rS :: nS :: ncS :: rest => do
      let p ← parseHex? pS
      let a ← parseHex? aS
      let d ← parseHex? dS
      let r ← parseHex? rS
      let n ← parseHex? nS
      if p < 2 ∨ r < 2 ∨ n = 0 then none
      runGroup (teIo p a d) ⟨r, n, ncS == "1"⟩ (op.drop 3).toString rest impl
    | _ => none
  else
  match op, args with
  | "digits", [n, a, w, nb] => runDigits n a w nb impl
  | _, pS :: aS :: bS :: rS :: nS :: ncS :: rest => do
    let p ← parseHex? pS
    let a ← parseHex? aS
    let b ← parseHex? bS
    let r ← parseHex? rS
    let n ← parseHex? nS
    if p < 2 ∨ r < 2 ∨ n = 0 then none
    runGroup (swIo p ⟨Fp.ofNat p a, Fp.ofNat p b⟩) ⟨r, n, ncS == "1"⟩ op rest impl
  | _, _ => none

end Ark.DrvC05
