import Ark.Model.Msm
import Ark.Model.AffGroup
import Ark.Model.Proto
/-
  Driver dispatch for C05 (multi-scalar multiplication).

    C05 <op> <p> <a> <b> <r> <N> <nc> <bases> <scalars>                 op ∈ msm unchecked bigint wnaf plain chunks
    C05 chunkscyc <p> <a> <b> <r> <N> <nc> <nb> <ns> <bases> <scalars>  msm_chunks on the two patterns repeated
                                                                          cyclically to lengths nb / ns
    C05 chunked <p> <a> <b> <r> <N> <nc> <bufsize> <bases> <scalars> <ops>   ChunkedPippenger (scalars: big integers)
    C05 hashmap <p> <a> <b> <r> <N> <nc> <bufsize> <bases> <scalars> <ops>   HashMapPippenger (scalars: field elements)
    C05 digits <N> <a> <w> <numbits>                                      make_digits

  curve y² = x³ + a·x + b over F_p; r = modulus of the scalar field, N = limbs of its BigInt,
  nc = 1/0 = `NEGATION_IS_CHEAP` of the group the entry point was called on (irrelevant for wnaf/plain);
  bases: comma list of `x:y` | `inf` (`_` = empty); scalars: comma list of hex integers;
  ops: comma list of indices `i` = `add(bases[i], scalars[i])`, `finalize` is implicit at the end.
  result: `x:y` | `inf` | `err:<n>` | `panic`;   digits: comma list of signed hex digits | `panic`.

  model output = what `Ark.Msm` computes (plus ` @tag`); verdict = the property applied to the implementation's
  output: the result is Σ kᵢ·Pᵢ computed with the reference `AffPt.smul`, term by term.
-/
namespace Ark.DrvC05
open Ark Ark.Proto Ark.Msm

def vs (impl spec : String) : String := if impl == spec then "ok" else "bad:want=" ++ spec

section Curve
variable {p : Nat} {E : SWParams p}

def sPt (P : AffPt p E) : String :=
  match P.pt with
  | none => "inf"
  | some (x, y) => hex x.val ++ ":" ++ hex y.val

def pPt (s : String) : Option (AffPt p E) :=
  if s == "inf" then some ⟨none⟩
  else match s.splitOn ":" with
    | [x, y] => do let x ← parseHex? x; let y ← parseHex? y; some ⟨some (Fp.ofNat p x, Fp.ofNat p y)⟩
    | _ => none

def pPts (s : String) : Option (List (AffPt p E)) :=
  if s == "_" then some [] else mapM? pPt (s.splitOn ",")

def sOut : Outcome (AffPt p E) → String
  | .ok P => sPt P
  | .panic => "panic"

/-- the specification: Σ kᵢ·Pᵢ over the common prefix, by the reference scalar multiplication -/
def specSum (ps : List (AffPt p E)) (ks : List Nat) : AffPt p E :=
  (ps.zip ks).foldl (fun acc pk => AffPt.affAdd acc (AffPt.smul pk.2 pk.1)) 0

def cyc {α} [Inhabited α] (pat : List α) (n : Nat) : List α :=
  if pat.isEmpty then [] else (List.range n).map (fun i => pat.getD (i % pat.length) default)

/-- verdict for the big-integer entry points: inside the scalar domain `k < 2^numBits` the result must be
    Σ kᵢ·Pᵢ; above it the code reads exactly the bits below `c·⌈numBits/c⌉` — recorded as a note -/
def judgeBig (cfg : Cfg) (impl : String) (bases : List (AffPt p E)) (ks : List Nat) : String :=
  let n := min bases.length ks.length
  let nb := cfg.numBits
  let want := sPt (specSum bases ks)
  if impl == want then "ok"
  else if (ks.take n).all (· < 2 ^ nb) then "bad:want=" ++ want
  else
    let c := windowSize n
    let m := 2 ^ (c * divCeil nb c)
    let w2 := sPt (specSum bases (ks.map (· % m)))
    if impl == w2 then "note:scalar>=2^MODULUS_BIT_SIZE,bits>=c*ceil(numBits/c)-ignored"
    else "bad:want=" ++ want ++ ",or=" ++ w2

def runMsm (cfg : Cfg) (op : String) (bs ss impl : String) : Option (String × String) := do
  let bases : List (AffPt p E) ← pPts bs
  let ks ← parseList? ss
  let n := min bases.length ks.length
  let tag := " @c" ++ toString (windowSize n)
  let limbs := ks.map (toLimbs cfg.limbs)
  match op with
  | "msm" =>
    let m := match msm cfg bases ks with
      | .ok (.ok g) => sPt g
      | .ok (.error e) => "err:" ++ hex e
      | .panic => "panic"
    let v := if bases.length = ks.length then vs impl (sPt (specSum bases ks)) else vs impl ("err:" ++ hex n)
    some (m ++ (if bases.length = ks.length then tag else " @err"), v)
  | "unchecked" => some (sOut (msmUnchecked cfg bases ks) ++ tag, vs impl (sPt (specSum bases ks)))
  | "bigint" => some (sOut (msmBigint cfg bases limbs) ++ tag, judgeBig cfg impl bases ks)
  | "wnaf" => some (sOut (msmBigintWnaf cfg.numBits bases limbs) ++ tag, judgeBig cfg impl bases ks)
  | "plain" => some (sOut (msmBigintPlain cfg.numBits cfg.one bases limbs) ++ tag, judgeBig cfg impl bases ks)
  | "chunks" =>
    let m := sOut (msmChunks cfg bases ks)
    if bases.length = ks.length then some (m ++ tag, vs impl (sPt (specSum bases ks)))
    else if ks.length < bases.length then
      let w := sPt (specSum (bases.drop (bases.length - ks.length)) ks)
      some (m ++ " @tail-aligned", if impl == w then "note:msm_chunks-skips-leading-bases" else "bad:want=" ++ w)
    else some (m ++ " @assert", if impl == "panic" then "note:msm_chunks-asserts-scalars<=bases" else "bad:want=panic")
  | _ => none

def runAcc (cfg : Cfg) (op : String) (bufS bs ss os impl : String) : Option (String × String) := do
  let bases : List (AffPt p E) ← pPts bs
  let ks ← parseList? ss
  let ops ← parseList? os
  let buf ← parseHex? bufS
  let adds ← mapM? (fun i => do let b ← bases[i]?; let k ← ks[i]?; some (b, k)) ops
  let want := sPt (specSum (adds.map (·.1)) (adds.map (·.2)))
  match op with
  | "chunked" | "chunkedws" =>
    let m := sOut (Chunked.run cfg buf (adds.map (fun a => (a.1, toLimbs cfg.limbs a.2))))
    let v := if impl == want then "ok"
      else if adds.all (fun a => a.2 < 2 ^ cfg.numBits) then "bad:want=" ++ want
      else "note:scalar>=2^MODULUS_BIT_SIZE"
    let tag := if buf = 0 then " @buf0" else
      (if adds.length / buf = 0 then " @noflush" else if adds.length / buf = 1 then " @flush1" else " @flush2+")
        ++ (if adds.length % buf = 0 then "" else "+tail")
    some (m ++ tag, v)
  | "hashmap" =>
    let m := sOut (HashMapAcc.run cfg buf adds)
    let v := if impl == want then "ok"
      else if adds.all (fun a => a.2 < cfg.r ∧ AffPt.smul cfg.r a.1 = 0) then "bad:want=" ++ want
      else "note:base-outside-the-order-r-subgroup"
    let distinct := (adds.map (·.1)).eraseDups.length
    let tag := (if distinct < adds.length then " @merge" else " @nomerge")
      ++ (if buf ≠ 0 ∧ distinct ≥ buf then "+flush" else "")
    some (m ++ tag, v)
  | _ => none

end Curve

def intPow (b : Int) : Nat → Int
  | 0 => 1
  | n + 1 => b * intPow b n

/-- Σ dᵢ·2^(w·i) -/
def digitsValueW (w : Nat) : List Int → Int
  | [] => 0
  | d :: ds => d + (2 : Int) ^ w * digitsValueW w ds

def runDigits (nS aS wS nbS impl : String) : Option (String × String) := do
  let n ← parseHex? nS
  let a ← parseHex? aS
  let w ← parseHex? wS
  let nb ← parseHex? nbS
  if n = 0 ∨ w > 62 ∨ a ≥ 2 ^ (64 * n) then none
  let scalar := toLimbs n a
  let m := match makeDigits scalar w nb with
    | .ok ds => hexIntList ds
    | .panic => "panic"
  let nb' := if nb = 0 then bitLen a else nb
  if w = 0 then some (m ++ " @w0", vs impl "panic")
  else
    let cnt := divCeil nb' w
    let tag :=
      if nb' > 64 * n then " @numbits>64N"
      else if a ≥ 2 ^ nb' then " @a>=2^numbits"
      else match makeDigits scalar w nb with
        | .ok ds => if ds.getLast?.any (fun d => d ≥ (2 : Int) ^ (w - 1)) then " @last-unrecentred" else " @plain"
        | .panic => " @panic"
    let v :=
      if nb' > 64 * n then (if impl == "panic" then "note:num_bits>64N-indexes-past-the-limbs" else
        match parseIntList? impl with
        | some ds => if ds.length = cnt ∧ digitsValueW w ds = (a : Int) then "ok" else "note:num_bits>64N"
        | none => "bad:unparsable")
      else if impl == "panic" then "bad:panic"
      else match parseIntList? impl with
        | none => "bad:unparsable"
        | some ds =>
          if ds.length ≠ cnt then "bad:count"
          else if !(ds.dropLast.all (fun d => - (2 : Int) ^ (w - 1) ≤ d ∧ d < (2 : Int) ^ (w - 1))) then "bad:digit-range"
          else if !(ds.getLast?.all (fun d => 0 ≤ d ∧ d ≤ (2 : Int) ^ w)) then "bad:last-digit-range"
          else if digitsValueW w ds = ((a % 2 ^ (w * cnt) : Nat) : Int) then
            (if a < 2 ^ nb' then "ok" else "note:a>=2^num_bits,bits>=w*count-ignored")
          else "bad:sum"
    some (m ++ tag, v)

def run (op : String) (args : List String) (impl : String) : Option (String × String) :=
  match op, args with
  | "digits", [n, a, w, nb] => runDigits n a w nb impl
  | _, pS :: aS :: bS :: rS :: nS :: ncS :: rest => do
    let p ← parseHex? pS
    let a ← parseHex? aS
    let b ← parseHex? bS
    let r ← parseHex? rS
    let n ← parseHex? nS
    if p < 2 ∨ r < 2 ∨ n = 0 then none
    let cfg : Cfg := ⟨r, n, ncS == "1"⟩
    let E : SWParams p := ⟨Fp.ofNat p a, Fp.ofNat p b⟩
    match op, rest with
    | "chunkscyc", [nbS, nsS, bs, ss] => do
      let nb ← parseHex? nbS
      let ns ← parseHex? nsS
      let bpat : List (AffPt p E) ← pPts bs
      let spat ← parseList? ss
      let bases := cyc bpat nb
      let ks := cyc spat ns
      let m := sOut (msmChunks cfg bases ks)
      if ns > nb then some (m ++ " @assert", if impl == "panic" then "note:msm_chunks-asserts-scalars<=bases" else "bad:want=panic")
      else
        let w := sPt (specSum (bases.drop (nb - ns)) ks)
        some (m ++ " @steps" ++ toString (divCeil ns (2 ^ 20)),
              if impl == w then (if nb = ns then "ok" else "note:msm_chunks-skips-leading-bases") else "bad:want=" ++ w)
    | "chunked", [buf, bs, ss, os] => runAcc (E := E) cfg op buf bs ss os impl
    | "chunkedws", [buf, bs, ss, os] => runAcc (E := E) cfg op buf bs ss os impl
    | "hashmap", [buf, bs, ss, os] => runAcc (E := E) cfg op buf bs ss os impl
    | _, [bs, ss] => runMsm (E := E) cfg op bs ss impl
    | _, _ => none
  | _, _ => none

end Ark.DrvC05
