/-
  Ark.Model.Limbs — executable model of `ff/src/biginteger/{mod,arithmetic}.rs`
  and `ff/src/bits.rs` (property C15, reused by C01/C04/C05/C20).

  A `BigInt<N>` is a `List Nat` of length `N`, least-significant limb first, every
  limb `< 2^64` (predicate `WF`, not a subtype).  Every function below follows the
  loop structure of the Rust original; `u64`/`u128` arithmetic is `Nat` arithmetic
  reduced `% B` exactly where the Rust code truncates.

  Mathlib-free: this file is linked into the `arkdrv` executable.
-/
namespace Ark

/-- the limb base `2^64` -/
def B : Nat := 2 ^ 64

theorem B_pos : 0 < B := by unfold B; exact Nat.two_pow_pos 64

/-- value of a little-endian limb list -/
def value : List Nat → Nat
  | [] => 0
  | l :: ls => l + B * value ls

/-- all limbs are `u64`s -/
def WF (ls : List Nat) : Prop := ∀ l ∈ ls, l < B

/-- the `N`-limb representation of `v mod 2^(64N)` (trusted glue of the driver;
    proved inverse to `value` in `Ark.Proofs.Limbs`) -/
def toLimbs : Nat → Nat → List Nat
  | 0, _ => []
  | n + 1, v => v % B :: toLimbs n (v / B)

/-! ### add / sub with carry (`add_with_carry`, `sub_with_borrow`, const twins) -/

/-- `adc` chain over `for i in 0..N` -/
def addC : List Nat → List Nat → Nat → List Nat × Nat
  | a :: as, b :: bs, c =>
    let t := a + b + c          -- u128, cannot overflow
    let r := addC as bs (t / B)
    ((t % B) :: r.1, r.2)
  | _, _, c => ([], c)

/-- `sbb` chain: `tmp = 2^64 + a - b - borrow; borrow' = (tmp >> 64 == 0)` -/
def subB : List Nat → List Nat → Nat → List Nat × Nat
  | a :: as, b :: bs, c =>
    let t := B + a - b - c
    let r := subB as bs (if t / B = 0 then 1 else 0)
    ((t % B) :: r.1, r.2)
  | _, _, c => ([], c)

/-! ### mul2 / div2 -/

/-- `mul2`: `tmp = a >> 63; a <<= 1; a |= last; last = tmp` (returns limbs, last) -/
def mul2C : List Nat → Nat → List Nat × Nat
  | a :: as, last =>
    let r := mul2C as (a / 2 ^ 63)
    (((a * 2) % B + last) :: r.1, r.2)      -- (a<<1)|last : low bit of a<<1 is 0
  | [], last => ([], last)

def mul2 (a : List Nat) : List Nat × Bool :=
  let r := mul2C a 0
  (r.1, r.2 != 0)

/-- `div2` runs from the top limb down: `t2 = a << 63; a >>= 1; a |= t; t = t2`.
    Modelled on the reversed list (most-significant first). -/
def div2Rev : List Nat → Nat → List Nat
  | a :: as, t => (a / 2 + t) :: div2Rev as ((a * 2 ^ 63) % B)
  | [], _ => []

def div2 (a : List Nat) : List Nat := (div2Rev a.reverse 0).reverse

/-! ### shifts (`muln`/`<<=`, `divn`/`>>=`) — the three-stage code as written -/

/-- one round of `while n >= 64 { t = 0; for i in 0..N { swap(t, self[i]) } }` -/
def shlLimb (a : List Nat) : List Nat :=
  match a with
  | [] => []
  | _ => 0 :: a.dropLast

def shlBitsC (n : Nat) : List Nat → Nat → List Nat
  | a :: as, t => ((a * 2 ^ n) % B + t) :: shlBitsC n as (a / 2 ^ (64 - n))
  | [], _ => []

def iter {α} (f : α → α) : Nat → α → α
  | 0, x => x
  | k + 1, x => iter f k (f x)

def shl (a : List Nat) (n : Nat) : List Nat :=
  if n ≥ 64 * a.length then a.map (fun _ => 0)
  else
    let a1 := iter shlLimb (n / 64) a
    let r := n % 64
    if r > 0 then shlBitsC r a1 0 else a1

def shrLimb (a : List Nat) : List Nat :=
  match a with
  | [] => []
  | _ :: as => as ++ [0]

/-- on the reversed list (top limb first) -/
def shrBitsRev (n : Nat) : List Nat → Nat → List Nat
  | a :: as, t => (a / 2 ^ n + t) :: shrBitsRev n as ((a * 2 ^ (64 - n)) % B)
  | [], _ => []

def shr (a : List Nat) (n : Nat) : List Nat :=
  if n ≥ 64 * a.length then a.map (fun _ => 0)
  else
    let a1 := iter shrLimb (n / 64) a
    let r := n % 64
    if r > 0 then (shrBitsRev r a1.reverse 0).reverse else a1

/-! ### multiplication -/

/-- one row `r[i+j] = mac_with_carry(r[i+j], x, b[j], &mut carry)` for `j in 0..|b|` -/
def macRow : List Nat → Nat → List Nat → Nat → List Nat × Nat
  | r :: rs, x, b :: bs, c =>
    let t := r + x * b + c
    let q := macRow rs x bs (t / B)
    ((t % B) :: q.1, q.2)
  | _, _, _, c => ([], c)

/-- schoolbook rows; `r` is the part of the `2N` buffer from index `i` on -/
def mulRows : List Nat → List Nat → List Nat → List Nat
  | [], _, r => r
  | x :: as, b, r =>
    let n := b.length
    let q := macRow (r.take n) x b 0
    -- r.b1[i] = carry  (overwrites r[i+N], which is still 0)
    let r' := q.1 ++ (q.2 :: r.drop (n + 1))
    match r' with
    | [] => []
    | h :: t => h :: mulRows as b t

def isZero (a : List Nat) : Bool := a.all (· == 0)

/-- `mul`: returns `(lo, hi)` -/
def mul (a b : List Nat) : List Nat × List Nat :=
  let n := a.length
  if isZero a || isZero b then (a.map (fun _ => 0), a.map (fun _ => 0))
  else
    let r := mulRows a b (List.replicate (2 * n) 0)
    (r.take n, r.drop n)

/-- `mul_low`: row `i` only touches `j < N - i`; carry dropped -/
def mulLowRows : List Nat → List Nat → List Nat → List Nat
  | [], _, r => r
  | x :: as, b, r =>
    let q := macRow r x (b.take r.length) 0
    match q.1 with
    | [] => []
    | h :: t => h :: mulLowRows as b t

def mulLow (a b : List Nat) : List Nat :=
  if isZero a || isZero b then a.map (fun _ => 0)
  else mulLowRows a b (a.map (fun _ => 0))

def mulHigh (a b : List Nat) : List Nat := (mul a b).2

/-! ### comparison, bits, bytes -/

/-- `Ord::cmp`: from the top limb down -/
def cmpRev : List Nat → List Nat → Ordering
  | a :: as, b :: bs => if a < b then .lt else if a > b then .gt else cmpRev as bs
  | _, _ => .eq

def cmp (a b : List Nat) : Ordering := cmpRev a.reverse b.reverse

/-- `64 - leading_zeros(x)` for a `u64` -/
def bitLen (x : Nat) : Nat := if x = 0 then 0 else Nat.log2 x + 1

/-- `num_bits`: `ret = 64N; for i in rev { ret -= lz(i); if lz != 64 break }` -/
def numBitsRev : List Nat → Nat → Nat
  | a :: as, ret =>
    let leading := 64 - bitLen a
    if leading != 64 then ret - leading else numBitsRev as (ret - leading)
  | [], ret => ret

def numBits (a : List Nat) : Nat := numBitsRev a.reverse (64 * a.length)

def getBit (a : List Nat) (i : Nat) : Bool :=
  if i ≥ 64 * a.length then false
  else (a.getD (i / 64) 0 / 2 ^ (i - 64 * (i / 64))) % 2 == 1

def limbBitsLE (x : Nat) : List Bool := (List.range 64).map (fun i => (x / 2 ^ i) % 2 == 1)

def toBitsLE (a : List Nat) : List Bool := a.flatMap limbBitsLE
def toBitsBE (a : List Nat) : List Bool := (toBitsLE a).reverse

def bitsToNat : List Bool → Nat
  | [] => 0
  | b :: bs => (if b then 1 else 0) + 2 * bitsToNat bs

def chunks {α} (k : Nat) (l : List α) : Nat → List (List α)
  | 0 => []
  | fuel + 1 => if l.isEmpty then [] else l.take k :: chunks k (l.drop k) fuel
  termination_by structural fuel => fuel

/-- `from_bits_le`: `bits.chunks(64).zip(&mut res.0)` — extra chunks are dropped -/
def fromBitsLE (n : Nat) (bits : List Bool) : List Nat :=
  let cs := (chunks 64 bits bits.length).map bitsToNat
  (cs ++ List.replicate n 0).take n

def fromBitsBE (n : Nat) (bits : List Bool) : List Nat := fromBitsLE n bits.reverse

def limbBytesLE (x : Nat) : List Nat := (List.range 8).map (fun i => (x / 256 ^ i) % 256)
def toBytesLE (a : List Nat) : List Nat := a.flatMap limbBytesLE
def toBytesBE (a : List Nat) : List Nat := (toBytesLE a).reverse

/-! ### signed-digit recodings -/

/-- `signed_mod_reduction(n, modulus)` -/
def signedModReduction (n modulus : Nat) : Int :=
  let t := n % modulus
  if t ≥ modulus / 2 then (t : Int) - modulus else t

/-- `e.sub_with_borrow(&Self::from(z))` / `add_with_carry`, carry dropped -/
def subSmall (a : List Nat) (z : Nat) : List Nat := (subB a (toLimbs a.length z) 0).1
def addSmall (a : List Nat) (z : Nat) : List Nat := (addC a (toLimbs a.length z) 0).1

/-- `e.as_mut()[N-1] |= 1 << 63` -/
def orTopRev : List Nat → List Nat
  | [] => []
  | t :: rest => (if (t / 2 ^ 63) % 2 == 1 then t else t + 2 ^ 63) :: rest

def orTop (a : List Nat) : List Nat := (orTopRev a.reverse).reverse

/-- `find_wnaf` loop (after the `fix:` commit that keeps the carry of `add_with_carry`
    and shifts it back in after `div2`), fuel-bounded: each iteration halves, so
    `64·N + 1` iterations suffice -/
def findWnafLoop (w : Nat) : Nat → List Nat → List Int
  | 0, _ => []
  | fuel + 1, e =>
    if isZero e then []
    else
      let z : Int := if e.headD 0 % 2 == 1 then signedModReduction (e.headD 0) (2 ^ w) else 0
      let r := if z ≥ 0 then ((subB e (toLimbs e.length z.toNat) 0).1, 0)
               else addC e (toLimbs e.length (-z).toNat) 0
      let e2 := div2 r.1
      let e3 := if r.2 != 0 then orTop e2 else e2
      z :: findWnafLoop w fuel e3

def findWnaf (a : List Nat) (w : Nat) : Option (List Int) :=
  if 2 ≤ w ∧ w < 64 then some (findWnafLoop w (64 * a.length + 1) a) else none

/-- `find_naf` (slice version in `arithmetic.rs`, after the `fix:` commit that works on
    a buffer with one spare limb): `z = 2 - (num[0] % 4)` when odd -/
def findNafLoop : Nat → List Nat → List Int
  | 0, _ => []
  | fuel + 1, e =>
    if isZero e then []
    else
      let z : Int := if e.headD 0 % 2 == 1 then 2 - ((e.headD 0 % 4 : Nat) : Int) else 0
      let e1 := if z ≥ 0 then subSmall e z.toNat else addSmall e (-z).toNat
      z :: findNafLoop fuel (div2 e1)

def findNaf (a : List Nat) : List Int := findNafLoop (64 * (a.length + 1) + 1) (a ++ [0])

inductive Outcome (α : Type) where
  | ok : α → Outcome α
  | panic : Outcome α
  deriving Repr, DecidableEq

/-- `find_relaxed_naf` (after the `fix:` commit adding the `len >= 3` guard) -/
def findRelaxedNaf (a : List Nat) : Outcome (List Int) :=
  let res := findNaf a
  let len := res.length
  if len ≥ 3 ∧ res.getD (len - 2) 0 = 0 ∧ res.getD (len - 3) 0 = -1 then
    .ok ((res.take (len - 3)) ++ [1, 1])
  else .ok res

/-- value denoted by a little-endian signed-digit string -/
def digitsValue : List Int → Int
  | [] => 0
  | d :: ds => d + 2 * digitsValue ds

end Ark
