import Ark.Model.Subgroup
import Ark.Model.Curve
import Ark.Model.Proto
/-
  Driver dispatch for C12 (subgroup membership tests, cofactor clearing).  Numbers lower-case hex; field
  elements = comma separated base-prime-field coordinates; points `x:y`, SW identity `inf`, TE identity `0:1`.

  Header (cached by id):
    cfg <id> <sw|te> <tower> <p> <a> <b|d> <N> <r> <cofactor limbs> <cofactor_inv> <test> <clear> <h_eff> [k=v …] => <cofactor_is_one>
      tower  = fp | fp2:<nonresidue> | fp3:<nonresidue>
      test   = def | bn254g1 | bls381g1 | bls381g2 | tbls381g2 | bn254g2        (which override the configuration has)
      clear  = def | bls381g1 | bls377g1 | tbls381g1 | bls381g2 | tbls381g2 | bls377g2
      k=v    = x=<limbs> xneg=<0|1> frob=<FROBENIUS_COEFF_FP2_C1> beta=<BETA> glv=<N:r:λ:β:n11:n12:n21:n22>
      verdict of the header: `cofactor_is_one` = (COFACTOR = 1);  COFACTOR·COFACTOR_INV ≡ 1 (mod r);  gcd(h_eff, r) = 1
  Ops:
    insub  <id> <P> <ref>       => 0|1       verdict: impl = [r•P = O] (reference double-and-add of the affine group;
                                              `ref` = the harness' own `mul_bigint(r).is_zero()` must agree with it)
    clear  <id> <P> <ref>       => point     verdict: impl = h_eff•P, r•impl = O   (`ref` = harness' `mul_bigint(h_eff)`)
    cofinv <id> <P>             => point     verdict: r•P = O (input) and impl = P
    mulcof <id> <P>             => point     verdict: impl = h•P
    rand   <id> <aff|proj> <P0> => point     model: `mul_by_cofactor(P0)`;  verdict: impl on the curve and r•impl = O

  Two groups per configuration:
    * the SPEC group `S` — textbook affine law with the LSB-first reference multiplication `smul`:
      `Ark.AffPt` (prime field SW), `Ark.Subgroup.SWPt` over `Fq2`/`Fq3`, `Ark.ScalarMul.TEPt` for twisted Edwards
      curves with a complete law (`a` square, `d` non-square), and for the two incomplete ones
      (bls12_377 G1 in Edwards form, Bandersnatch) the Weierstrass model of the same curve through the
      birational map (`teMap`);
    * the EXECUTION group `G` of the model — the coordinate systems of the Rust code (`Ark.Curve.SW.Jac`,
      `Ark.Curve.TE.Ext`: formulas of C03, cross-multiplied `==`, `into_affine` panicking on `Z = 0`), which costs
      no field inversion per group operation.
  Every verdict is computed in `S` from the input and the implementation's output only.
-/
namespace Ark.DrvC12
open Ark Ark.Proto Ark.ScalarMul Ark.Subgroup

def vs (impl spec : String) : String := if impl == spec then "ok" else "bad:want=" ++ spec
def b01 (b : Bool) : String := if b then "1" else "0"

/-- one configuration is executed in two groups:
    `S` = the specification-level affine group (textbook law; reference scalar multiplication `smul`),
    `G` = the group in which the MODEL is executed (the coordinate system of the Rust code). -/
structure GIO (S G : Type) where
  parse : String → Option S
  str : S → String
  smul : Nat → S → S
  onCurve : S → Bool
  /-- `From<Affine> for Projective` of the parsed point -/
  toG : String → Option G
  /-- `From<Projective> for Affine`, printed (`panic`: `Z = 0` on an incomplete twisted Edwards curve) -/
  strG : G → String
  /-- `.into()` followed by `.into_group()`: normalised representative, or the panic -/
  normG : G → Outcome G

/-- the modelled routines of one configuration -/
structure Model (G : Type) where
  insub : G → Outcome Bool
  clear : G → Outcome G
  mulcof : G → G
  mulcofinv : G → G
  sampleAff : G → G
  sampleProj : G → G

structure Inst where
  run : String → List String → String → Option (String × String)
  /-- header: model output and verdict -/
  head : String × String

structure Cache where
  insts : List (String × Inst) := []

/-! ### field element syntax -/

def parseFp (p : Nat) (s : String) : Option (Fp p) := (parseHex? s).map (Fp.ofNat p)
def strFp {p : Nat} (x : Fp p) : String := hex x.val

def parseFq2 (p nr : Nat) (s : String) : Option (Fq2 p nr) :=
  match s.splitOn "," with
  | [a, b] => do let a ← parseHex? a; let b ← parseHex? b; some ⟨Fp.ofNat p a, Fp.ofNat p b⟩
  | _ => none
def strFq2 {p nr : Nat} (x : Fq2 p nr) : String := hex x.c0.val ++ "," ++ hex x.c1.val

def parseFq3 (p nr : Nat) (s : String) : Option (Fq3 p nr) :=
  match s.splitOn "," with
  | [a, b, c] => do
    let a ← parseHex? a; let b ← parseHex? b; let c ← parseHex? c
    some ⟨Fp.ofNat p a, Fp.ofNat p b, Fp.ofNat p c⟩
  | _ => none
def strFq3 {p nr : Nat} (x : Fq3 p nr) : String := hex x.c0.val ++ "," ++ hex x.c1.val ++ "," ++ hex x.c2.val

/-! ### execution groups: the coordinate systems of the Rust code (C03 model `Ark.Curve`) -/

section exec
variable {F : Type} [Add F] [Sub F] [Mul F] [Neg F] [Zero F] [One F] [Inv F] [DecidableEq F]

/-- `short_weierstrass::Projective<P>` with the operators of the Rust type
    (`x + x` with the very same value stands for `double_in_place`) -/
structure JacG (c : Curve.SW.Curve F) where
  j : Curve.SW.Jac F

instance (c : Curve.SW.Curve F) : Add (JacG c) :=
  ⟨fun p q => if p.j = q.j then ⟨Curve.SW.double c p.j⟩ else ⟨Curve.SW.add c p.j q.j⟩⟩
instance (c : Curve.SW.Curve F) : Neg (JacG c) := ⟨fun p => ⟨p.j.neg⟩⟩
instance (c : Curve.SW.Curve F) : Sub (JacG c) := ⟨fun p q => ⟨Curve.SW.sub c p.j q.j⟩⟩
instance (c : Curve.SW.Curve F) : Zero (JacG c) := ⟨⟨Curve.SW.Jac.zero⟩⟩
instance (c : Curve.SW.Curve F) : BEq (JacG c) := ⟨fun p q => p.j.eq q.j⟩

def jacXY (c : Curve.SW.Curve F) : XY F (JacG c) where
  xy P := match Curve.SW.toAffine P.j with
    | .ok a => a.xy
    | .panic => none
  new x y := ⟨⟨x, y, 1⟩⟩

def jacStr (c : Curve.SW.Curve F) (sf : F → String) (P : JacG c) : String :=
  match Curve.SW.toAffine P.j with
  | .panic => "panic"
  | .ok a => match a.xy with
    | none => "inf"
    | some (x, y) => sf x ++ ":" ++ sf y

def jacNorm (c : Curve.SW.Curve F) (P : JacG c) : Outcome (JacG c) :=
  match Curve.SW.toAffine P.j with
  | .panic => .panic
  | .ok a => .ok ⟨Curve.SW.fromAffine a⟩

def jacParse (c : Curve.SW.Curve F) (pf : String → Option F) (s : String) : Option (JacG c) :=
  if s == "inf" then some ⟨Curve.SW.Jac.zero⟩
  else match s.splitOn ":" with
    | [x, y] => do let x ← pf x; let y ← pf y; some ⟨⟨x, y, 1⟩⟩
    | _ => none

/-- `twisted_edwards::Projective<P>` (extended coordinates) -/
structure ExtG (c : Curve.TE.Curve F) where
  e : Curve.TE.Ext F

instance (c : Curve.TE.Curve F) : Add (ExtG c) :=
  ⟨fun p q => if p.e = q.e then ⟨Curve.TE.double c p.e⟩ else ⟨Curve.TE.add c p.e q.e⟩⟩
instance (c : Curve.TE.Curve F) : Neg (ExtG c) := ⟨fun p => ⟨p.e.neg⟩⟩
instance (c : Curve.TE.Curve F) : Sub (ExtG c) := ⟨fun p q => ⟨Curve.TE.sub c p.e q.e⟩⟩
instance (c : Curve.TE.Curve F) : Zero (ExtG c) := ⟨⟨Curve.TE.Ext.zero⟩⟩
instance (c : Curve.TE.Curve F) : BEq (ExtG c) := ⟨fun p q => p.e.eq q.e⟩

def extStr (c : Curve.TE.Curve F) (sf : F → String) (P : ExtG c) : String :=
  match Curve.TE.toAffine P.e with
  | .panic => "panic"
  | .ok a => sf a.x ++ ":" ++ sf a.y

def extNorm (c : Curve.TE.Curve F) (P : ExtG c) : Outcome (ExtG c) :=
  match Curve.TE.toAffine P.e with
  | .panic => .panic
  | .ok a => .ok ⟨Curve.TE.fromAffine a⟩

def extParse (c : Curve.TE.Curve F) (pf : String → Option F) (s : String) : Option (ExtG c) :=
  match s.splitOn ":" with
  | [x, y] => do let x ← pf x; let y ← pf y; some ⟨Curve.TE.fromAffine ⟨x, y⟩⟩
  | _ => none

end exec

/-! ### specification groups -/

def affParse (p : Nat) (E : SWParams p) (s : String) : Option (AffPt p E) :=
  if s == "inf" then some ⟨none⟩
  else match s.splitOn ":" with
    | [x, y] => do let x ← parseFp p x; let y ← parseFp p y; some ⟨some (x, y)⟩
    | _ => none
def affStr {p : Nat} {E : SWParams p} (P : AffPt p E) : String :=
  match P.pt with
  | none => "inf"
  | some (x, y) => strFp x ++ ":" ++ strFp y

def teParse (p : Nat) (E : TEParams p) (s : String) : Option (TEPt p E) :=
  match s.splitOn ":" with
  | [x, y] => do let x ← parseFp p x; let y ← parseFp p y; some ⟨x, y⟩
  | _ => none
def teStr {p : Nat} {E : TEParams p} (P : TEPt p E) : String := strFp P.x ++ ":" ++ strFp P.y

section
variable {F : Type} [Add F] [Sub F] [Mul F] [Neg F] [Zero F] [Div F] [DecidableEq F]
def swParse (E : SWc F) (pf : String → Option F) (s : String) : Option (SWPt E) :=
  if s == "inf" then some ⟨none⟩
  else match s.splitOn ":" with
    | [x, y] => do let x ← pf x; let y ← pf y; some ⟨some (x, y)⟩
    | _ => none
def swStr {E : SWc F} (sf : F → String) (P : SWPt E) : String :=
  match P.pt with
  | none => "inf"
  | some (x, y) => sf x ++ ":" ++ sf y
end

/-! #### twisted Edwards curves whose affine addition law is NOT complete (`a` a non-square or `d` a square:
    bls12_377 `G1` in Edwards form, Bandersnatch): the specification group is the Weierstrass model of the
    same curve, through the birational map
      `(x, y) ↦ (u, v) = ((1+y)/(1-y), (1+y)/((1-y) x))` onto `B v² = u³ + A u² + u`,
      `A = 2(a+d)/(a-d)`, `B = 4/(a-d)`, then `(X, Y) = (u/B + A/(3B), v/B)` onto
      `Y² = X³ + (3-A²)/(3B²) X + (2A³-9A)/(27B³)`;
    `(0, 1) ↦ O`, `(0, -1) ↦ (u, v) = (0, 0)`.  Points of the curve that are not affine Edwards points
    (`v = 0` with `u ≠ 0`, or `u = -1`) print as `te-inf`. -/

structure TeMap (p : Nat) where
  A : Fp p
  B : Fp p
  E : SWParams p

def teMap (p : Nat) (a d : Fp p) : TeMap p :=
  let A := (Fp.ofNat p 2) * (a + d) / (a - d)
  let B := (Fp.ofNat p 4) / (a - d)
  let three := Fp.ofNat p 3
  { A := A, B := B,
    E := ⟨(three - A * A) / (three * B * B),
          ((Fp.ofNat p 2) * A * A * A - (Fp.ofNat p 9) * A) / ((Fp.ofNat p 27) * B * B * B)⟩ }

def teToSw {p : Nat} (m : TeMap p) (x y : Fp p) : AffPt p m.E :=
  let one : Fp p := 1
  if x = 0 then
    if y = one then ⟨none⟩ else ⟨some (m.A / ((Fp.ofNat p 3) * m.B), 0)⟩
  else
    let u := (one + y) / (one - y)
    let v := u / x
    ⟨some (u / m.B + m.A / ((Fp.ofNat p 3) * m.B), v / m.B)⟩

def swToTeStr {p : Nat} (m : TeMap p) (P : AffPt p m.E) : String :=
  let one : Fp p := 1
  match P.pt with
  | none => "0:1"
  | some (X, Y) =>
    let u := m.B * X - m.A / (Fp.ofNat p 3)
    let v := m.B * Y
    if u = 0 ∧ v = 0 then "0:" ++ strFp (- one)
    else if v = 0 ∨ u + one = 0 then "te-inf"
    else strFp (u / v) ++ ":" ++ strFp ((u - one) / (u + one))

def teMapParse (p : Nat) (m : TeMap p) (s : String) : Option (AffPt p m.E) :=
  match s.splitOn ":" with
  | [x, y] => do let x ← parseFp p x; let y ← parseFp p y; some (teToSw m x y)
  | _ => none

/-! ### header parsing -/

structure Head where
  id : String
  kind : String
  tower : String
  p : Nat
  a : String
  b : String
  cc : CurveCfg
  test : String
  clear : String
  heff : Nat
  kv : List (String × String)

def lookup (kv : List (String × String)) (k : String) : Option String :=
  (kv.find? (fun e => e.1 == k)).map (·.2)

def parseKV (l : List String) : Option (List (String × String)) :=
  mapM? (fun s => match s.splitOn "=" with
    | [k, v] => some (k, v)
    | _ => none) l

def parseHead : List String → Option Head
  | id :: kind :: tower :: p :: a :: b :: n :: r :: cof :: cofinv :: test :: clear :: heff :: rest => do
    let p ← parseHex? p; let n ← parseHex? n; let r ← parseHex? r
    let cof ← parseList? cof; let cofinv ← parseHex? cofinv; let heff ← parseHex? heff
    let kv ← parseKV rest
    some { id, kind, tower, p, a, b, test, clear, heff, kv,
           cc := { cofactor := cof, cofactorInv := cofinv, r := r, nLimbs := n } }
  | _ => none

/-- `N:r:λ:β:n11:n12:n21:n22` -/
def parseGlv (s : String) : Option (GlvCfg × Nat) :=
  match s.splitOn ":" with
  | [n, r, l, b, a11, a12, a21, a22] => do
    let n ← parseHex? n; let r ← parseHex? r; let l ← parseHex? l; let b ← parseHex? b
    let a11 ← parseInt? a11; let a12 ← parseInt? a12; let a21 ← parseInt? a21; let a22 ← parseInt? a22
    some ({ nLimbs := n, r := r, lambda := l, n11 := a11, n12 := a12, n21 := a21, n22 := a22 }, b)
  | _ => none

def parseG2Cfg (kv : List (String × String)) (needX : Bool) : Option G2Cfg := do
  let frob ← (lookup kv "frob").bind parseList?
  if needX then
    let x ← (lookup kv "x").bind parseList?
    let xneg ← lookup kv "xneg"
    some { x := x, xIsNegative := xneg == "1", frobC1 := frob }
  else some { x := [], xIsNegative := false, frobC1 := frob }

/-! ### the per-line logic, generic in the two groups -/

section G
variable {S G : Type} [Zero S] [DecidableEq S] [Add G] [Neg G] [Sub G] [Zero G] [BEq G]

def sOB : Outcome Bool → String
  | .ok b => b01 b
  | .panic => "panic"
def sOG (io : GIO S G) : Outcome G → String
  | .ok P => io.strG P
  | .panic => "panic"

/-- which kind of input point this is (branch tag) -/
def ptTag (io : GIO S G) (r : Nat) (P : S) : String :=
  if P = 0 then "id" else if io.smul r P = 0 then "sub" else "out"

def runOp (io : GIO S G) (m : Model G) (cc : CurveCfg) (heff : Nat)
    (op : String) (args : List String) (impl : String) : Option (String × String) :=
  let h := value cc.cofactor
  match op, args with
  | "insub", [Ps, href] => do
    let P ← io.parse Ps; let Pg ← io.toG Ps
    if !io.onCurve P then some ("any", "bad:input-off-curve") else
    let spec := decide (io.smul cc.r P = 0)
    let v := if href != b01 spec then "bad:harness-ref=" ++ href ++ ",driver-ref=" ++ b01 spec
             else vs impl (b01 spec)
    some (sOB (m.insub Pg) ++ " @" ++ (if spec then (if P = 0 then "id" else "sub") else "out"), v)
  | "clear", [Ps, href] => do
    let P ← io.parse Ps; let Pg ← io.toG Ps
    if !io.onCurve P then some ("any", "bad:input-off-curve") else
    let want := io.smul heff P
    let v :=
      if href != io.str want then "bad:harness-ref=" ++ href ++ ",driver-ref=" ++ io.str want
      else if impl != io.str want then "bad:want=" ++ io.str want
      else if io.smul cc.r want ≠ 0 then "bad:result-not-in-subgroup"
      else "ok"
    some (sOG io (m.clear Pg) ++ " @" ++ ptTag io cc.r P, v)
  | "mulcof", [Ps] => do
    let P ← io.parse Ps; let Pg ← io.toG Ps
    if !io.onCurve P then some ("any", "bad:input-off-curve") else
    some (io.strG (m.mulcof Pg), vs impl (io.str (io.smul h P)))
  | "cofinv", [Ps] => do
    let P ← io.parse Ps; let Pg ← io.toG Ps
    if !io.onCurve P then some ("any", "bad:input-off-curve") else
    if io.smul cc.r P ≠ 0 then some ("any", "bad:input-not-in-subgroup") else
    -- `p.mul_by_cofactor()` converts to affine before `mul_by_cofactor_inv`
    let mo := match io.normG (m.mulcof Pg) with
      | .panic => "panic"
      | .ok Q => io.strG (m.mulcofinv Q)
    some (mo, vs impl (io.str P))
  | "rand", [which, P0] => do
    let Pg ← io.toG P0
    let mo := if which == "proj" then m.sampleProj Pg else m.sampleAff Pg
    let v := match io.parse impl with
      | none => "bad:" ++ impl
      | some Q =>
        if !io.onCurve Q then "bad:sample-off-curve"
        else if io.smul cc.r Q ≠ 0 then "bad:sample-not-in-subgroup"
        else "ok"
    some (io.strG mo, v)
  | _, _ => none

end G

/-! ### building an instance from a header -/

def gcdNat : Nat → Nat → Nat := Nat.gcd

def headVerdict (hd : Head) (impl : String) : String × String :=
  let cc := hd.cc
  let h := value cc.cofactor
  let m := match cofactorIsOne cc.cofactor with
    | .ok b => b01 b
    | .panic => "panic"
  let v :=
    if impl != b01 (h == 1) then "bad:cofactor_is_one-want=" ++ b01 (h == 1)
    else if (h * cc.cofactorInv) % cc.r != 1 % cc.r then "bad:cofactor-inv"
    else if gcdNat hd.heff cc.r != 1 then "bad:gcd(h_eff,r)≠1"
    else if gcdNat h cc.r != 1 then "bad:gcd(h,r)≠1"
    else "ok"
  (m, v)

section mk
variable {S G : Type} [Zero S] [DecidableEq S] [Add G] [Neg G] [Sub G] [Zero G] [BEq G]

def swDefaults (cc : CurveCfg) : Model G where
  insub := swIsInCorrectSubgroup cc
  clear := fun P => .ok (swClearCofactor cc P)
  mulcof := swMulByCofactor cc
  mulcofinv := swMulByCofactorInv cc
  sampleAff := swSampleAffine cc
  sampleProj := swSampleProjective cc

def teDefaults (cc : CurveCfg) : Model G where
  insub := teIsInCorrectSubgroup cc
  clear := fun P => .ok (teClearCofactor cc P)
  mulcof := teMulByCofactor cc
  mulcofinv := teMulByCofactorInv cc
  sampleAff := teSampleAffine cc
  sampleProj := teSampleProjective cc

def mkInst (io : GIO S G) (m : Model G) (hd : Head) (impl : String) : Inst where
  run := runOp io m hd.cc hd.heff
  head := headVerdict hd impl

end mk

/-- prime base field, short Weierstrass -/
def mkSwFp (hd : Head) (impl : String) : Option Inst := do
  let p := hd.p
  let a ← parseFp p hd.a; let b ← parseFp p hd.b
  let E : SWParams p := ⟨a, b⟩
  let c : Curve.SW.Curve (Fp p) := Curve.SW.Curve.std a b true
  let io : GIO (AffPt p E) (JacG c) :=
    { parse := affParse p E, str := affStr, smul := AffPt.smul, onCurve := AffPt.onCurve,
      toG := jacParse c (parseFp p), strG := jacStr c strFp, normG := jacNorm c }
  let xy := jacXY c
  let cc := hd.cc
  let d : Model (JacG c) := swDefaults cc
  -- the public constants of the BLS12 configuration, when an override needs them
  let g1 : Option (Bls12G1 (Fp p)) := do
    let x ← (lookup hd.kv "x").bind parseList?
    let xneg ← lookup hd.kv "xneg"
    let beta := ((lookup hd.kv "beta").bind parseHex?).getD 0
    let (glv, ge) := ((lookup hd.kv "glv").bind parseGlv).getD
      ({ nLimbs := 0, r := 0, lambda := 0, n11 := 0, n12 := 0, n21 := 0, n22 := 0 }, 0)
    some { x := x, xIsNegative := xneg == "1", beta := Fp.ofNat p beta, glv := glv, glvEndoCoeff := Fp.ofNat p ge }
  let insub ← match hd.test with
    | "def" => some d.insub
    | "bn254g1" => some bn254G1IsInCorrectSubgroup
    | "bls381g1" => do
      let k ← g1
      let _ ← lookup hd.kv "beta"; let _ ← lookup hd.kv "glv"
      some (bls12381G1IsInCorrectSubgroup xy k)
    | _ => none
  let clear ← match hd.clear with
    | "def" => some d.clear
    | "bls381g1" => do let k ← g1; some (fun P => Outcome.ok (bls12381G1ClearCofactor cc k P))
    | "bls377g1" => do let k ← g1; some (fun P => Outcome.ok (bls12377G1ClearCofactor cc k P))
    | "tbls381g1" => some (fun P => Outcome.ok (testBls12381G1ClearCofactor P))
    | _ => none
  some (mkInst io { d with insub := insub, clear := clear } hd impl)

/-- Euler criterion -/
def isSquare (p : Nat) (x : Fp p) : Bool := x.val == 0 || Spec.powMod x.val ((p - 1) / 2) p == 1

/-- prime base field, twisted Edwards -/
def mkTeFp (hd : Head) (impl : String) : Option Inst := do
  let p := hd.p
  let a ← parseFp p hd.a; let d ← parseFp p hd.b
  let c : Curve.TE.Curve (Fp p) := Curve.TE.Curve.std a d
  if hd.test != "def" || hd.clear != "def" then none
  else if isSquare p a && !isSquare p d then
    -- complete addition law: the affine Edwards group itself is the specification
    let E : TEParams p := ⟨a, d⟩
    let io : GIO (TEPt p E) (ExtG c) :=
      { parse := teParse p E, str := teStr, smul := TEPt.smul, onCurve := TEPt.onCurve,
        toG := extParse c (parseFp p), strG := extStr c strFp, normG := extNorm c }
    some (mkInst io (teDefaults hd.cc) hd impl)
  else
    let m := teMap p a d
    let io : GIO (AffPt p m.E) (ExtG c) :=
      { parse := teMapParse p m, str := swToTeStr m, smul := AffPt.smul, onCurve := AffPt.onCurve,
        toG := extParse c (parseFp p), strG := extStr c strFp, normG := extNorm c }
    some (mkInst io (teDefaults hd.cc) hd impl)

/-- `Fq2` base field, short Weierstrass -/
def mkSwFq2 (nr : Nat) (hd : Head) (impl : String) : Option Inst := do
  let p := hd.p
  let a ← parseFq2 p nr hd.a; let b ← parseFq2 p nr hd.b
  let E : SWc (Fq2 p nr) := ⟨a, b⟩
  let c : Curve.SW.Curve (Fq2 p nr) := Curve.SW.Curve.std a b true
  let io : GIO (SWPt E) (JacG c) :=
    { parse := swParse E (parseFq2 p nr), str := swStr strFq2, smul := SWPt.smul, onCurve := SWPt.onCurve,
      toG := jacParse c (parseFq2 p nr), strG := jacStr c strFq2, normG := jacNorm c }
  let xy := jacXY c
  let cc := hd.cc
  let d : Model (JacG c) := swDefaults cc
  let insub ← match hd.test with
    | "def" => some d.insub
    | "bls381g2" => do let k ← parseG2Cfg hd.kv true; some (bls12381G2IsInCorrectSubgroup xy k k.x)
    | "tbls381g2" => do
      let k ← parseG2Cfg hd.kv true
      -- `BigInt::new([X[0], 0, 0, 0])`
      some (bls12381G2IsInCorrectSubgroup xy k [k.x.headD 0, 0, 0, 0])
    | "bn254g2" => do let k ← parseG2Cfg hd.kv false; some (bn254G2IsInCorrectSubgroup xy k)
    | _ => none
  let clear ← match hd.clear with
    | "def" => some d.clear
    | "bls381g2" => do let k ← parseG2Cfg hd.kv true; some (bls12381G2ClearCofactor xy k)
    | "tbls381g2" => do let k ← parseG2Cfg hd.kv true; some (testBls12381G2ClearCofactor xy k)
    | "bls377g2" => do let k ← parseG2Cfg hd.kv true; some (bls12377G2ClearCofactor xy k)
    | _ => none
  some (mkInst io { d with insub := insub, clear := clear } hd impl)

/-- `Fq3` base field, short Weierstrass (no overrides exist) -/
def mkSwFq3 (nr : Nat) (hd : Head) (impl : String) : Option Inst := do
  let p := hd.p
  let a ← parseFq3 p nr hd.a; let b ← parseFq3 p nr hd.b
  let E : SWc (Fq3 p nr) := ⟨a, b⟩
  let c : Curve.SW.Curve (Fq3 p nr) := Curve.SW.Curve.std a b false
  let io : GIO (SWPt E) (JacG c) :=
    { parse := swParse E (parseFq3 p nr), str := swStr strFq3, smul := SWPt.smul, onCurve := SWPt.onCurve,
      toG := jacParse c (parseFq3 p nr), strG := jacStr c strFq3, normG := jacNorm c }
  if hd.test != "def" || hd.clear != "def" then none
  else some (mkInst io (swDefaults hd.cc) hd impl)

def mkInstance (hd : Head) (impl : String) : Option Inst :=
  match hd.kind, hd.tower.splitOn ":" with
  | "sw", ["fp"] => mkSwFp hd impl
  | "te", ["fp"] => mkTeFp hd impl
  | "sw", ["fp2", nr] => do let nr ← parseHex? nr; mkSwFq2 nr hd impl
  | "sw", ["fp3", nr] => do let nr ← parseHex? nr; mkSwFq3 nr hd impl
  | _, _ => none

def run (c : Cache) (op : String) (args : List String) (impl : String) : Option (Cache × String × String) :=
  match op, args with
  -- `CurveConfig::cofactor_is_one` on a synthetic cofactor (limb list): `value = 1`
  | "cofone", [ls] => do
    let l ← parseList? ls
    let m := match cofactorIsOne l with
      | .ok b => b01 b
      | .panic => "panic"
    some (c, m, if l.isEmpty then (if impl == "panic" then "note:empty-cofactor" else "bad:want=panic")
                else vs impl (b01 (value l == 1)))
  | "cfg", _ => do
    let hd ← parseHead args
    let I ← mkInstance hd impl
    some ({ insts := (hd.id, I) :: c.insts.filter (fun e => e.1 != hd.id) }, I.head.1, I.head.2)
  | _, id :: rest => do
    let I ← (c.insts.find? (fun e => e.1 == id)).map (·.2)
    let (m, v) ← I.run op rest impl
    some (c, m, v)
  | _, _ => none

end Ark.DrvC12
