import Ark.Model.Subgroup
import Ark.Model.Proto
/-
  Driver dispatch for C12 (subgroup membership tests, cofactor clearing).  Numbers lower-case hex; field
  elements = comma separated base-prime-field coordinates; points `x:y`, SW identity `inf`, TE identity `0:1`.

  Header (cached by id):
    cfg <id> <sw|te> <tower> <p> <a> <b|d> <N> <r> <cofactor limbs> <cofactor_inv> <test> <clear> <h_eff> [k=v …] => <cofactor_is_one>
      tower  = fp | fp2:<nonresidue> | fp3:<nonresidue>
      test   = def | bn254g1 | bls381g1 | bls381g2 | tbls381g2 | bn254g2        (which override the configuration has)
      clear  = def | bls381g1 | bls377g1 | tbls381g1 | bls381g2 | tbls381g2 | bls377g2
      k=v    = x=<limbs> xneg=<0|1> frob=<FROBENIUS_COEFF_FP2_C1> beta=<BETA> glv=<N:r:λ:β:n11:n12:n21:n22>
      verdict of the header: `cofactor_is_one` = (COFACTOR = 1);  COFACTOR·COFACTOR_INV ≡ 1 (mod r);  gcd(h_eff, r) = 1
  Ops:
    insub  <id> <P> <ref>       => 0|1       verdict: impl = [r•P = O] (reference double-and-add of the affine group;
                                              `ref` = the harness' own `mul_bigint(r).is_zero()` must agree with it)
    clear  <id> <P> <ref>       => point     verdict: impl = h_eff•P, r•impl = O   (`ref` = harness' `mul_bigint(h_eff)`)
    cofinv <id> <P>             => point     verdict: r•P = O (input) and impl = P
    mulcof <id> <P>             => point     verdict: impl = h•P
    rand   <id> <aff|proj> <P0> => point     model: `mul_by_cofactor(P0)`;  verdict: impl on the curve and r•impl = O
-/
namespace Ark.DrvC12
open Ark Ark.Proto Ark.ScalarMul Ark.Subgroup

def vs (impl spec : String) : String := if impl == spec then "ok" else "bad:want=" ++ spec
def b01 (b : Bool) : String := if b then "1" else "0"

/-- reading / printing / reference arithmetic of one concrete group -/
structure GIO (G : Type) where
  parse : String → Option G
  str : G → String
  smul : Nat → G → G
  onCurve : G → Bool

/-- the modelled routines of one configuration -/
structure Model (G : Type) where
  insub : G → Outcome Bool
  clear : G → Outcome G
  mulcof : G → G
  cofinv : G → G
  sampleAff : G → G
  sampleProj : G → G

structure Inst where
  run : String → List String → String → Option (String × String)
  /-- header: model output and verdict -/
  head : String × String

structure Cache where
  insts : List (String × Inst) := []

/-! ### field element syntax -/

def parseFp (p : Nat) (s : String) : Option (Fp p) := (parseHex? s).map (Fp.ofNat p)
def strFp {p : Nat} (x : Fp p) : String := hex x.val

def parseFq2 (p nr : Nat) (s : String) : Option (Fq2 p nr) :=
  match s.splitOn "," with
  | [a, b] => do let a ← parseHex? a; let b ← parseHex? b; some ⟨Fp.ofNat p a, Fp.ofNat p b⟩
  | _ => none
def strFq2 {p nr : Nat} (x : Fq2 p nr) : String := hex x.c0.val ++ "," ++ hex x.c1.val

def parseFq3 (p nr : Nat) (s : String) : Option (Fq3 p nr) :=
  match s.splitOn "," with
  | [a, b, c] => do
    let a ← parseHex? a; let b ← parseHex? b; let c ← parseHex? c
    some ⟨Fp.ofNat p a, Fp.ofNat p b, Fp.ofNat p c⟩
  | _ => none
def strFq3 {p nr : Nat} (x : Fq3 p nr) : String := hex x.c0.val ++ "," ++ hex x.c1.val ++ "," ++ hex x.c2.val

/-! ### groups -/

def affIO (p : Nat) (E : SWParams p) : GIO (AffPt p E) where
  parse s :=
    if s == "inf" then some ⟨none⟩
    else match s.splitOn ":" with
      | [x, y] => do let x ← parseFp p x; let y ← parseFp p y; some ⟨some (x, y)⟩
      | _ => none
  str P := match P.pt with
    | none => "inf"
    | some (x, y) => strFp x ++ ":" ++ strFp y
  smul := AffPt.smul
  onCurve := AffPt.onCurve

def affXY (p : Nat) (E : SWParams p) : XY (Fp p) (AffPt p E) where
  xy P := P.pt
  new x y := ⟨some (x, y)⟩

def teIO (p : Nat) (E : TEParams p) : GIO (TEPt p E) where
  parse s := match s.splitOn ":" with
    | [x, y] => do let x ← parseFp p x; let y ← parseFp p y; some ⟨x, y⟩
    | _ => none
  str P := strFp P.x ++ ":" ++ strFp P.y
  smul := TEPt.smul
  onCurve := TEPt.onCurve

section
variable {F : Type} [Add F] [Sub F] [Mul F] [Neg F] [Zero F] [Div F] [DecidableEq F]
def swIO (E : SWc F) (pf : String → Option F) (sf : F → String) : GIO (SWPt E) where
  parse s :=
    if s == "inf" then some ⟨none⟩
    else match s.splitOn ":" with
      | [x, y] => do let x ← pf x; let y ← pf y; some ⟨some (x, y)⟩
      | _ => none
  str P := match P.pt with
    | none => "inf"
    | some (x, y) => sf x ++ ":" ++ sf y
  smul := SWPt.smul
  onCurve := SWPt.onCurve

def swXY (E : SWc F) : XY F (SWPt E) where
  xy P := P.pt
  new x y := ⟨some (x, y)⟩
end

/-! ### header parsing -/

structure Head where
  id : String
  kind : String
  tower : String
  p : Nat
  a : String
  b : String
  cc : CurveCfg
  test : String
  clear : String
  heff : Nat
  kv : List (String × String)

def lookup (kv : List (String × String)) (k : String) : Option String :=
  (kv.find? (fun e => e.1 == k)).map (·.2)

def parseKV (l : List String) : Option (List (String × String)) :=
  mapM? (fun s => match s.splitOn "=" with
    | [k, v] => some (k, v)
    | _ => none) l

def parseHead : List String → Option Head
  | id :: kind :: tower :: p :: a :: b :: n :: r :: cof :: cofinv :: test :: clear :: heff :: rest => do
    let p ← parseHex? p; let n ← parseHex? n; let r ← parseHex? r
    let cof ← parseList? cof; let cofinv ← parseHex? cofinv; let heff ← parseHex? heff
    let kv ← parseKV rest
    some { id, kind, tower, p, a, b, test, clear, heff, kv,
           cc := { cofactor := cof, cofactorInv := cofinv, r := r, nLimbs := n } }
  | _ => none

/-- `N:r:λ:β:n11:n12:n21:n22` -/
def parseGlv (s : String) : Option (GlvCfg × Nat) :=
  match s.splitOn ":" with
  | [n, r, l, b, a11, a12, a21, a22] => do
    let n ← parseHex? n; let r ← parseHex? r; let l ← parseHex? l; let b ← parseHex? b
    let a11 ← parseInt? a11; let a12 ← parseInt? a12; let a21 ← parseInt? a21; let a22 ← parseInt? a22
    some ({ nLimbs := n, r := r, lambda := l, n11 := a11, n12 := a12, n21 := a21, n22 := a22 }, b)
  | _ => none

def parseG2Cfg (kv : List (String × String)) (needX : Bool) : Option G2Cfg := do
  let frob ← (lookup kv "frob").bind parseList?
  if needX then
    let x ← (lookup kv "x").bind parseList?
    let xneg ← lookup kv "xneg"
    some { x := x, xIsNegative := xneg == "1", frobC1 := frob }
  else some { x := [], xIsNegative := false, frobC1 := frob }

/-! ### the per-line logic, generic in the group -/

section G
variable {G : Type} [Add G] [Neg G] [Sub G] [Zero G] [DecidableEq G]

def sOB : Outcome Bool → String
  | .ok b => b01 b
  | .panic => "panic"
def sOG (io : GIO G) : Outcome G → String
  | .ok P => io.str P
  | .panic => "panic"

/-- which kind of input point this is (branch tag) -/
def ptTag (io : GIO G) (r : Nat) (P : G) : String :=
  if P = 0 then "id" else if io.smul r P = 0 then "sub" else "out"

def runOp (io : GIO G) (m : Model G) (cc : CurveCfg) (heff : Nat)
    (op : String) (args : List String) (impl : String) : Option (String × String) :=
  let h := value cc.cofactor
  match op, args with
  | "insub", [P, href] => do
    let P ← io.parse P
    if !io.onCurve P then some ("any", "bad:input-off-curve") else
    let spec := decide (io.smul cc.r P = 0)
    let v := if href != b01 spec then "bad:harness-ref=" ++ href ++ ",driver-ref=" ++ b01 spec
             else vs impl (b01 spec)
    some (sOB (m.insub P) ++ " @" ++ (if spec then (if P = 0 then "id" else "sub") else "out"), v)
  | "clear", [P, href] => do
    let P ← io.parse P
    if !io.onCurve P then some ("any", "bad:input-off-curve") else
    let want := io.smul heff P
    let v :=
      if href != io.str want then "bad:harness-ref=" ++ href ++ ",driver-ref=" ++ io.str want
      else match io.parse impl with
        | none => "bad:" ++ impl
        | some Q =>
          if Q ≠ want then "bad:want=" ++ io.str want
          else if io.smul cc.r Q ≠ 0 then "bad:result-not-in-subgroup"
          else "ok"
    some (sOG io (m.clear P) ++ " @" ++ ptTag io cc.r P, v)
  | "mulcof", [P] => do
    let P ← io.parse P
    if !io.onCurve P then some ("any", "bad:input-off-curve") else
    some (io.str (m.mulcof P), vs impl (io.str (io.smul h P)))
  | "cofinv", [P] => do
    let P ← io.parse P
    if !io.onCurve P then some ("any", "bad:input-off-curve") else
    if io.smul cc.r P ≠ 0 then some ("any", "bad:input-not-in-subgroup") else
    some (io.str (m.cofinv P), vs impl (io.str P))
  | "rand", [which, P0] => do
    let P0 ← io.parse P0
    let mo := if which == "proj" then m.sampleProj P0 else m.sampleAff P0
    let v := match io.parse impl with
      | none => "bad:" ++ impl
      | some Q =>
        if !io.onCurve Q then "bad:sample-off-curve"
        else if io.smul cc.r Q ≠ 0 then "bad:sample-not-in-subgroup"
        else "ok"
    some (io.str mo, v)
  | _, _ => none

end G

/-! ### building an instance from a header -/

def gcdNat : Nat → Nat → Nat := Nat.gcd

def headVerdict (hd : Head) (impl : String) : String × String :=
  let cc := hd.cc
  let h := value cc.cofactor
  let m := match cofactorIsOne cc.cofactor with
    | .ok b => b01 b
    | .panic => "panic"
  let v :=
    if impl != b01 (h == 1) then "bad:cofactor_is_one-want=" ++ b01 (h == 1)
    else if (h * cc.cofactorInv) % cc.r != 1 % cc.r then "bad:cofactor-inv"
    else if gcdNat hd.heff cc.r != 1 then "bad:gcd(h_eff,r)≠1"
    else if gcdNat h cc.r != 1 then "bad:gcd(h,r)≠1"
    else "ok"
  (m, v)

section mk
variable {G : Type} [Add G] [Neg G] [Sub G] [Zero G] [DecidableEq G]

def swDefaults (cc : CurveCfg) : Model G where
  insub := swIsInCorrectSubgroup cc
  clear := fun P => .ok (swClearCofactor cc P)
  mulcof := swMulByCofactor cc
  cofinv := fun P => swMulByCofactorInv cc (swMulByCofactor cc P)
  sampleAff := swSampleAffine cc
  sampleProj := swSampleProjective cc

def teDefaults (cc : CurveCfg) : Model G where
  insub := teIsInCorrectSubgroup cc
  clear := fun P => .ok (teClearCofactor cc P)
  mulcof := teMulByCofactor cc
  cofinv := fun P => teMulByCofactorInv cc (teMulByCofactor cc P)
  sampleAff := teSampleAffine cc
  sampleProj := teSampleProjective cc

def mkInst (io : GIO G) (m : Model G) (hd : Head) (impl : String) : Inst where
  run := runOp io m hd.cc hd.heff
  head := headVerdict hd impl

end mk

/-- prime base field, short Weierstrass -/
def mkSwFp (hd : Head) (impl : String) : Option Inst := do
  let p := hd.p
  let a ← parseFp p hd.a; let b ← parseFp p hd.b
  let E : SWParams p := ⟨a, b⟩
  let io := affIO p E
  let xy := affXY p E
  let cc := hd.cc
  let d : Model (AffPt p E) := swDefaults cc
  -- the public constants of the BLS12 configuration, when an override needs them
  let g1 : Option (Bls12G1 (Fp p)) := do
    let x ← (lookup hd.kv "x").bind parseList?
    let xneg ← lookup hd.kv "xneg"
    let beta := ((lookup hd.kv "beta").bind parseHex?).getD 0
    let (glv, ge) := ((lookup hd.kv "glv").bind parseGlv).getD
      ({ nLimbs := 0, r := 0, lambda := 0, n11 := 0, n12 := 0, n21 := 0, n22 := 0 }, 0)
    some { x := x, xIsNegative := xneg == "1", beta := Fp.ofNat p beta, glv := glv, glvEndoCoeff := Fp.ofNat p ge }
  let insub ← match hd.test with
    | "def" => some d.insub
    | "bn254g1" => some bn254G1IsInCorrectSubgroup
    | "bls381g1" => do
      let k ← g1
      let _ ← lookup hd.kv "beta"; let _ ← lookup hd.kv "glv"
      some (bls12381G1IsInCorrectSubgroup xy k)
    | _ => none
  let clear ← match hd.clear with
    | "def" => some d.clear
    | "bls381g1" => do let k ← g1; some (fun P => Outcome.ok (bls12381G1ClearCofactor cc k P))
    | "bls377g1" => do let k ← g1; some (fun P => Outcome.ok (bls12377G1ClearCofactor cc k P))
    | "tbls381g1" => some (fun P => Outcome.ok (testBls12381G1ClearCofactor P))
    | _ => none
  some (mkInst io { d with insub := insub, clear := clear } hd impl)

/-- prime base field, twisted Edwards -/
def mkTeFp (hd : Head) (impl : String) : Option Inst := do
  let p := hd.p
  let a ← parseFp p hd.a; let d ← parseFp p hd.b
  let E : TEParams p := ⟨a, d⟩
  if hd.test != "def" || hd.clear != "def" then none
  else some (mkInst (teIO p E) (teDefaults hd.cc) hd impl)

/-- `Fq2` base field, short Weierstrass -/
def mkSwFq2 (nr : Nat) (hd : Head) (impl : String) : Option Inst := do
  let p := hd.p
  let a ← parseFq2 p nr hd.a; let b ← parseFq2 p nr hd.b
  let E : SWc (Fq2 p nr) := ⟨a, b⟩
  let io := swIO E (parseFq2 p nr) strFq2
  let xy := swXY E
  let cc := hd.cc
  let d : Model (SWPt E) := swDefaults cc
  let insub ← match hd.test with
    | "def" => some d.insub
    | "bls381g2" => do let k ← parseG2Cfg hd.kv true; some (bls12381G2IsInCorrectSubgroup xy k k.x)
    | "tbls381g2" => do
      let k ← parseG2Cfg hd.kv true
      -- `BigInt::new([X[0], 0, 0, 0])`
      some (bls12381G2IsInCorrectSubgroup xy k [k.x.headD 0, 0, 0, 0])
    | "bn254g2" => do let k ← parseG2Cfg hd.kv false; some (bn254G2IsInCorrectSubgroup xy k)
    | _ => none
  let clear ← match hd.clear with
    | "def" => some d.clear
    | "bls381g2" => do let k ← parseG2Cfg hd.kv true; some (bls12381G2ClearCofactor xy k)
    | "tbls381g2" => do let k ← parseG2Cfg hd.kv true; some (testBls12381G2ClearCofactor xy k)
    | "bls377g2" => do let k ← parseG2Cfg hd.kv true; some (bls12377G2ClearCofactor xy k)
    | _ => none
  some (mkInst io { d with insub := insub, clear := clear } hd impl)

/-- `Fq3` base field, short Weierstrass (no overrides exist) -/
def mkSwFq3 (nr : Nat) (hd : Head) (impl : String) : Option Inst := do
  let p := hd.p
  let a ← parseFq3 p nr hd.a; let b ← parseFq3 p nr hd.b
  let E : SWc (Fq3 p nr) := ⟨a, b⟩
  if hd.test != "def" || hd.clear != "def" then none
  else some (mkInst (swIO E (parseFq3 p nr) strFq3) (swDefaults hd.cc) hd impl)

def mkInstance (hd : Head) (impl : String) : Option Inst :=
  match hd.kind, hd.tower.splitOn ":" with
  | "sw", ["fp"] => mkSwFp hd impl
  | "te", ["fp"] => mkTeFp hd impl
  | "sw", ["fp2", nr] => do let nr ← parseHex? nr; mkSwFq2 nr hd impl
  | "sw", ["fp3", nr] => do let nr ← parseHex? nr; mkSwFq3 nr hd impl
  | _, _ => none

def run (c : Cache) (op : String) (args : List String) (impl : String) : Option (Cache × String × String) :=
  match op, args with
  | "cfg", _ => do
    let hd ← parseHead args
    let I ← mkInstance hd impl
    some ({ insts := (hd.id, I) :: c.insts.filter (fun e => e.1 != hd.id) }, I.head.1, I.head.2)
  | _, id :: rest => do
    let I ← (c.insts.find? (fun e => e.1 == id)).map (·.2)
    let (m, v) ← I.run op rest impl
    some (c, m, v)
  | _, _ => none

end Ark.DrvC12
