import Ark.Model.Limbs
import Ark.Model.Ext
/-
  Ark.Model.Sqrt — C11: square roots and quadratic-residue tests of `ark-ff`, and the
  coordinate-recovery helpers of `ark-ec` that are built on them, transcribed function by function:

  * `ff/src/fields/sqrt.rs`            `LegendreSymbol`, `SqrtPrecomputation::{TonelliShanks, Case3Mod4}::sqrt`
  * `ff/src/fields/mod.rs`             `Field::pow`, `Field::sqrt` (dispatch on `SQRT_PRECOMP`, `None ⇒ unimplemented!()`)
  * `ff/src/fields/models/fp/mod.rs`   `Fp::legendre` (Euler, exponent `MODULUS_MINUS_ONE_DIV_TWO`)
  * `ff/src/fields/models/fp/montgomery_backend.rs`  `sqrt_precomputation`, `MODULUS_PLUS_ONE_DIV_FOUR`
  * `ff/src/fields/models/quadratic_extension.rs`    `legendre` (through the norm), `sqrt` (complex method)
  * `ff/src/fields/models/cubic_extension.rs`, `fp3.rs`  `legendre` (through the norm), `sqrt` (Tonelli–Shanks
                                       with the configured `TWO_ADICITY`, `QUADRATIC_NONRESIDUE_TO_T`,
                                       `TRACE_MINUS_ONE_DIV_TWO`)
  * `ec/src/models/short_weierstrass/affine.rs`  `get_ys_from_x_unchecked`, `get_point_from_x_unchecked`
  * `ec/src/models/twisted_edwards/affine.rs`    `get_xs_from_y_unchecked`, `get_point_from_y_unchecked`

  The algorithms are generic: they see the field through core operator classes plus an explicit
  `square` (and, for the layers of a tower, the dictionaries `Ark.Ext.FieldD` / `SqrtD`), so the same
  definitions run at `Ark.Fp p`, at `Ark.Ext.Quad _` and at `Ark.Ext.Cubic _`.  The Tonelli–Shanks
  constants are *parameters* (`Precomp`), exactly as in Rust where they are read from `SQRT_PRECOMP`.

  Panics are explicit (`Res.panic`): `unimplemented!()`, the two `expect`s of the quadratic method,
  `unwrap` in `Div`, the `assert!` of the cubic norm, `usize` underflow in `v - k`, the
  `debug_assert!`/`#[cfg(debug_assertions)]` blocks (only when `dbg = true`).  The two `while` loops of
  Tonelli–Shanks have no bound in Rust; here they take fuel and `Res.diverge` means "not finished after
  `twoAdicity + 1` iterations" — unreachable for valid constants (theorem `tsLoop_terminates`).
-/
namespace Ark.Sqrt
open Ark Ark.Ext

/-- `LegendreSymbol` (`Zero = 0`, `QuadraticResidue = 1`, `QuadraticNonResidue = -1`) -/
inductive Legendre where
  | zero
  | qr
  | qnr
  deriving DecidableEq, Repr

def Legendre.toInt : Legendre → Int
  | .zero => 0
  | .qr => 1
  | .qnr => -1

/-- `is_qr` / `is_qnr` / `is_zero` -/
def Legendre.isQr (l : Legendre) : Bool := l == .qr
def Legendre.isQnr (l : Legendre) : Bool := l == .qnr

/-- outcome of a computation that may panic, or (Tonelli–Shanks with invalid constants) not terminate -/
inductive Res (α : Type) where
  | ok : α → Res α
  | panic : Res α
  | diverge : Res α
  deriving Repr, DecidableEq

def Res.bind {α β : Type} : Res α → (α → Res β) → Res β
  | .ok a, f => f a
  | .panic, _ => .panic
  | .diverge, _ => .diverge

instance : Monad Res where
  pure := .ok
  bind := Res.bind

def Res.ofOutcome {α : Type} : Outcome α → Res α
  | .ok a => .ok a
  | .panic => .panic

/-- `Option::expect` / `unwrap` -/
def Res.expect {α : Type} : Option α → Res α
  | some a => .ok a
  | none => .panic

/-! ## generic part: `pow`, Legendre by Euler's criterion, the two `SqrtPrecomputation` variants -/

/-- `BitIteratorBE::without_leading_zeros(exp)`: the binary digits of the exponent, most significant first -/
def bitsAux : Nat → Nat → List Bool → List Bool
  | 0, _, acc => acc
  | fuel + 1, n, acc => if n = 0 then acc else bitsAux fuel (n / 2) ((n % 2 == 1) :: acc)

def bitsBE (e : Nat) : List Bool := bitsAux (e.log2 + 1) e []

/-- `f` applied `n` times -/
def iter {α : Type} (f : α → α) : Nat → α → α
  | 0, x => x
  | n + 1, x => iter f n (f x)

/-- `SqrtPrecomputation<F>`; the limb slices are given by their value -/
inductive Precomp (F : Type) where
  | tonelliShanks (twoAdicity : Nat) (qnrToTrace : F) (traceM1Div2 : Nat)
  | case3Mod4 (mPlus1Div4 : Nat)

section generic
variable {F : Type} [Mul F] [Zero F] [One F] [DecidableEq F]

/-- `Field::pow(exp)`: `res = 1; for bit in bits_be(exp) { res.square_in_place(); if bit { res *= self } }` -/
def pow (sq : F → F) (a : F) (e : Nat) : F :=
  (bitsBE e).foldl (fun res bit => let s := sq res; if bit then s * a else s) 1

/-- `Fp::legendre`: `s = self.pow(MODULUS_MINUS_ONE_DIV_TWO)`; zero / one / anything else -/
def legendreEuler (sq : F → F) (mm1d2 : Nat) (a : F) : Legendre :=
  let s := pow sq a mm1d2
  if s = 0 then .zero else if s = 1 then .qr else .qnr

/-- inner loop of Tonelli–Shanks: `while !b2k.is_one() { b2k.square_in_place(); k += 1 }`;
    `none` = fuel exhausted -/
def findK (sq : F → F) : Nat → F → Nat → Option Nat
  | 0, _, _ => none
  | fuel + 1, b2k, k => if b2k = 1 then some k else findK sq fuel (sq b2k) (k + 1)

/-- outer loop `while !b.is_one() { … }` on the state `(z, b, x, v)`; the result is the final `x`
    (`ok (some x)`), the early `return None` (`ok none`), the `usize` underflow of `v - k` (`panic`) or
    fuel exhaustion (`diverge`) -/
def tsLoop (sq : F → F) (s : Nat) : Nat → F → F → F → Nat → Res (Option F)
  | 0, _, _, _, _ => .diverge
  | fuel + 1, z, b, x, v =>
    if b = 1 then .ok (some x)
    else match findK sq (s + 1) b 0 with
      | none => .diverge
      | some k =>
        if k = s then .ok none
        else if v < k then .panic            -- `let j = v - k;`
        else
          let j := v - k
          let w := iter sq (j - 1) z          -- `for _ in 1..j { w.square_in_place() }`
          let z' := sq w
          tsLoop sq s fuel z' (b * z') (x * w) k

/-- `SqrtPrecomputation::TonelliShanks{..}.sqrt(elem)`.  `dbg`: the build has debug assertions;
    `leg` is `elem.legendre()` (only evaluated by the `debug_assert!`). -/
def sqrtTS (dbg : Bool) (sq : F → F) (leg : F → Res Legendre) (s : Nat) (z0 : F) (tm1d2 : Nat) (elem : F) :
    Res (Option F) :=
  if elem = 0 then .ok (some 0)
  else
    let w := pow sq elem tm1d2
    let x := w * elem
    let b := x * w
    (tsLoop sq s (s + 1) z0 b x s).bind fun
      | none => .ok none
      | some x =>
        if sq x = elem then .ok (some x)
        else if dbg then (leg elem).bind fun l => if l = .qr then .panic else .ok none
        else .ok none

/-- `SqrtPrecomputation::Case3Mod4{..}.sqrt(elem)` -/
def sqrt3Mod4 (sq : F → F) (mp1d4 : Nat) (elem : F) : Option F :=
  let result := pow sq elem mp1d4
  if sq result = elem then some result else none

/-- `SqrtPrecomputation::sqrt` -/
def Precomp.sqrt (dbg : Bool) (sq : F → F) (leg : F → Res Legendre) : Precomp F → F → Res (Option F)
  | .tonelliShanks s z t, elem => sqrtTS dbg sq leg s z t elem
  | .case3Mod4 e, elem => .ok (sqrt3Mod4 sq e elem)

/-- `Field::sqrt` (default body): `match SQRT_PRECOMP { Some(tv) => tv.sqrt(self), None => unimplemented!() }` -/
def fieldSqrt (dbg : Bool) (sq : F → F) (leg : F → Res Legendre) (pre : Option (Precomp F)) (elem : F) :
    Res (Option F) :=
  match pre with
  | some tv => tv.sqrt dbg sq leg elem
  | none => .panic

/-- `Field::sqrt_in_place`: `(*self).sqrt().map(|sqrt| { *self = sqrt; self })` — the new value of `self`
    paired with the returned option -/
def sqrtInPlace (sqrt : F → Res (Option F)) (self : F) : Res (F × Option F) :=
  (sqrt self).bind fun
    | some r => .ok (r, some r)
    | none => .ok (self, none)

end generic

/-! ## constants of the Montgomery backend (value level) -/

/-- `BigInt::two_adic_valuation` / `two_adic_coefficient` of an odd `m`: `m - 1 = 2^s · t`, `t` odd.
    (Both are `const fn`s evaluated at compile time; `assert!(self.const_is_odd())` is a build failure.) -/
def twoAdicAux : Nat → Nat → Nat → Nat × Nat
  | 0, n, s => (s, n)
  | fuel + 1, n, s => if n % 2 = 0 then twoAdicAux fuel (n / 2) (s + 1) else (s, n)

def twoAdic (m : Nat) : Nat × Nat := twoAdicAux ((m - 1).log2 + 1) (m - 1) 0

/-- `MontConfig::MODULUS_PLUS_ONE_DIV_FOUR` on `n` limbs: add with carry, halve, put the carry back
    into the top bit, halve again -/
def modulusPlusOneDivFour (n m : Nat) : Option Nat :=
  if m % 4 = 3 then
    let sum := m + 1
    let carry := sum / 2 ^ (64 * n)
    let low := sum % 2 ^ (64 * n)
    let result := low / 2 + carry * 2 ^ (64 * n - 1)
    some (result / 2)
  else none

/-- `sqrt_precomputation::<N, T>()`; `root` is `T::TWO_ADIC_ROOT_OF_UNITY` -/
def sqrtPrecomputation {F : Type} (n m : Nat) (root : F) : Option (Precomp F) :=
  if m % 4 = 3 then
    match modulusPlusOneDivFour n m with
    | some e => some (.case3Mod4 e)
    | none => none
  else
    -- `TWO_ADICITY = MODULUS.two_adic_valuation()`, `TRACE = MODULUS.two_adic_coefficient()`,
    -- `TRACE_MINUS_ONE_DIV_TWO = TRACE.divide_by_2_round_down()`
    some (.tonelliShanks (twoAdic m).1 root ((twoAdic m).2 / 2))

/-! ## the square-root interface of a field, as the layers of a tower and the curve helpers use it -/

/-- what Rust's trait `Field` offers about square roots, plus `Ord` -/
structure SqrtD (F : Type) where
  /-- `legendre` -/
  legendre : F → Res Legendre
  /-- `sqrt` -/
  sqrt : F → Res (Option F)
  /-- `Ord::cmp` -/
  cmp : F → F → Ordering

/-- `a < b` / `a <= b` through `Ord` -/
def SqrtD.lt {F : Type} (S : SqrtD F) (a b : F) : Bool := S.cmp a b == .lt
def SqrtD.le {F : Type} (S : SqrtD F) (a b : F) : Bool := S.cmp a b != .gt

/-- the prime field `Fp<MontBackend<T, N>, N>`: `legendre` by Euler with `MODULUS_MINUS_ONE_DIV_TWO = ⌊p/2⌋`,
    `sqrt` by `SQRT_PRECOMP`, `Ord` on `into_bigint()` -/
def fpSqrtD (dbg : Bool) (p : Nat) (pre : Option (Precomp (Fp p))) : SqrtD (Fp p) :=
  let sq : Fp p → Fp p := fun a => a * a
  let leg : Fp p → Res Legendre := fun a => .ok (legendreEuler sq (p / 2) a)
  { legendre := leg
    sqrt := fieldSqrt dbg sq leg pre
    cmp := fun a b => compare a.val b.val }

/-- what the quadratic method needs from `BasePrimeField` -/
structure PrimeD (P : Type) where
  /-- `MODULUS` -/
  modulus : Nat
  /-- number of limbs of `BigInt` -/
  limbs : Nat
  /-- `from_bigint` -/
  fromBigint : Nat → Option P

def fpPrimeD (p n : Nat) : PrimeD (Fp p) :=
  { modulus := p, limbs := n, fromBigint := fun x => if x < p then some ⟨x⟩ else none }

section towers
variable {P F : Type} [Add F] [Sub F] [Mul F] [Neg F] [Zero F] [One F] [DecidableEq F]

/-- `Div`: `self * other.inverse().unwrap()` -/
def fdiv (B : FieldD P F) (a b : F) : Res F :=
  (Res.ofOutcome (B.inverse b)).bind fun o => (Res.expect o).bind fun bi => .ok (a * bi)

/-- `QuadExtField::legendre`: `self.norm().legendre()` -/
def quadLegendre (cfg : QuadCfg F) (B : FieldD P F) (SB : SqrtD F) (a : Quad F) : Res Legendre :=
  SB.legendre (Quad.norm cfg B a)

/-- the constant `1/2` of `QuadExtField::sqrt`: `MODULUS.add_with_carry(1); div2();
    BasePrimeField::from(..)` (= `from_bigint(..).unwrap()`), then `from_base_prime_field` -/
def twoInv (B : FieldD P F) (PD : PrimeD P) : Res F :=
  let v := ((PD.modulus + 1) % 2 ^ (64 * PD.limbs)) / 2
  (Res.expect (PD.fromBigint v)).bind fun e => .ok (B.ofPrime e)

/-- `QuadExtField::sqrt` (complex method, Algorithm 8 of eprint 2012/685) -/
def quadSqrt (dbg : Bool) (cfg : QuadCfg F) (B : FieldD P F) (SB : SqrtD F) (PD : PrimeD P) (a : Quad F) :
    Res (Option (Quad F)) :=
  if a.c1 = 0 then
    (SB.legendre a.c0).bind fun l =>
    if l.isQr then
      (SB.sqrt a.c0).bind fun r => .ok (r.map fun c0 => ⟨c0, 0⟩)
    else
      (fdiv B a.c0 cfg.nonresidue).bind fun d =>
      (SB.sqrt d).bind fun r => .ok (r.map fun res => ⟨0, res⟩)
  else
    let alpha := Quad.norm cfg B a
    (twoInv B PD).bind fun twoInv =>
    (SB.sqrt alpha).bind fun
      | none => .ok none
      | some alpha =>
        let delta := (alpha + a.c0) * twoInv
        (SB.legendre delta).bind fun l =>
        let delta := if l.isQnr then delta - alpha else delta
        (SB.sqrt delta).bind fun r =>
        (Res.expect r).bind fun c0 =>                       -- "Delta must have a square root"
        (Res.ofOutcome (B.inverse c0)).bind fun ci =>
        (Res.expect ci).bind fun c0Inv =>                   -- "c0 must have an inverse"
        let cand : Quad F := ⟨c0, a.c1 * twoInv * c0Inv⟩
        if Quad.square cfg B cand = a then .ok (some cand)
        else if dbg then
          (quadLegendre cfg B SB a).bind fun l => if l ≠ .qnr then .panic else .ok none
        else .ok none

/-- `Ord for QuadExtField`: `c1` first, then `c0` -/
def quadCmp (SB : SqrtD F) (a b : Quad F) : Ordering :=
  match SB.cmp a.c1 b.c1 with
  | .gt => .gt
  | .lt => .lt
  | .eq => SB.cmp a.c0 b.c0

def quadSqrtD (dbg : Bool) (cfg : QuadCfg F) (B : FieldD P F) (SB : SqrtD F) (PD : PrimeD P) : SqrtD (Quad F) :=
  { legendre := quadLegendre cfg B SB
    sqrt := quadSqrt dbg cfg B SB PD
    cmp := quadCmp SB }

/-- `CubicExtField::legendre`: `self.norm().legendre()` (the norm asserts that it lies in the base field) -/
def cubicLegendre (cfg : CubicCfg F) (B : FieldD P F) (SB : SqrtD F) (a : Cubic F) : Res Legendre :=
  (Res.ofOutcome (Cubic.norm cfg B a)).bind SB.legendre

/-- `CubicExtField::sqrt` = the default `Field::sqrt` with `P::SQRT_PRECOMP` -/
def cubicSqrt (dbg : Bool) (cfg : CubicCfg F) (B : FieldD P F) (SB : SqrtD F) (pre : Option (Precomp (Cubic F)))
    (a : Cubic F) : Res (Option (Cubic F)) :=
  let _m : Mul (Cubic F) := ⟨Cubic.mul cfg⟩
  fieldSqrt dbg (Cubic.square cfg B) (cubicLegendre cfg B SB) pre a

/-- `Ord for CubicExtField`: `c2`, then `c1`, then `c0` -/
def cubicCmp (SB : SqrtD F) (a b : Cubic F) : Ordering :=
  (SB.cmp a.c2 b.c2).then ((SB.cmp a.c1 b.c1).then (SB.cmp a.c0 b.c0))

def cubicSqrtD (dbg : Bool) (cfg : CubicCfg F) (B : FieldD P F) (SB : SqrtD F) (pre : Option (Precomp (Cubic F))) :
    SqrtD (Cubic F) :=
  { legendre := cubicLegendre cfg B SB
    sqrt := cubicSqrt dbg cfg B SB pre
    cmp := cubicCmp SB }

/-- `Fp3ConfigWrapper::SQRT_PRECOMP` -/
def fp3Precomp (twoAdicity : Nat) (qnrToT : Cubic F) (traceM1Div2 : Nat) : Option (Precomp (Cubic F)) :=
  some (.tonelliShanks twoAdicity qnrToT traceM1Div2)

end towers

/-! ## coordinate recovery (`ark-ec`) -/

section curves
variable {P F : Type} [Add F] [Sub F] [Mul F] [Neg F] [Zero F] [One F] [DecidableEq F]

/-- `SWCurveConfig::mul_by_a` (default body) -/
def swMulByA (a elem : F) : F := if a = 0 then 0 else elem * a
/-- `SWCurveConfig::add_b` (default body) -/
def swAddB (b elem : F) : F := if b = 0 then elem else elem + b

/-- `short_weierstrass::Affine::get_ys_from_x_unchecked`: `(smaller, larger)` -/
def getYsFromX (B : FieldD P F) (S : SqrtD F) (a b x : F) : Res (Option (F × F)) :=
  let x3b := swAddB b (B.square x * x)
  let rhs := if a ≠ 0 then x3b + swMulByA a x else x3b
  (S.sqrt rhs).bind fun
    | none => .ok none
    | some y =>
      let negY := -y
      if S.lt y negY then .ok (some (y, negY)) else .ok (some (negY, y))

/-- `short_weierstrass::Affine::get_point_from_x_unchecked(x, greatest)`: the affine coordinates -/
def getPointFromX (B : FieldD P F) (S : SqrtD F) (a b x : F) (greatest : Bool) : Res (Option (F × F)) :=
  (getYsFromX B S a b x).bind fun r =>
    .ok (r.map fun (smaller, larger) => if greatest then (x, larger) else (x, smaller))

/-- `twisted_edwards::Affine::get_xs_from_y_unchecked`: `(x, -x)` with `x ≤ -x` -/
def getXsFromY (B : FieldD P F) (S : SqrtD F) (a d y : F) : Res (Option (F × F)) :=
  let y2 := B.square y
  let numerator := (1 : F) - y2
  let denominator := a - y2 * d
  (Res.ofOutcome (B.inverse denominator)).bind fun
    | none => .ok none
    | some denom =>
      let x2 := denom * numerator
      (S.sqrt x2).bind fun
        | none => .ok none
        | some x =>
          let negX := -x
          if S.le x negX then .ok (some (x, negX)) else .ok (some (negX, x))

/-- `twisted_edwards::Affine::get_point_from_y_unchecked(y, greatest)` -/
def getPointFromY (B : FieldD P F) (S : SqrtD F) (a d y : F) (greatest : Bool) : Res (Option (F × F)) :=
  (getXsFromY B S a d y).bind fun r =>
    .ok (r.map fun (x, negX) => if greatest then (negX, y) else (x, y))

end curves

end Ark.Sqrt
