import Ark.Model.Lit
import Ark.Model.NatSpec
import Ark.Model.Proto
/-
  Driver dispatch for C20 (compile-time literals).

  Line formats (numbers lower-case hex, `<str>` = escaped string token, see `unesc`):
    montfp <d|t> <N> <p> <str>          => raw Montgomery value of `MontFp!(str)`
    bigint <N> <str>                    => value of `BigInt!(str)` at `BigInt<N>`
    fsl <d|t> <N> <p> <0|1> <limbs>     => raw Montgomery value of `Fp::from_sign_and_limbs` | panic
    fromstr <d|t> <N> <p> <str>         => raw Montgomery value of `Fp::from_str` | err
    bigfromstr <N> <str>                => value of `BigInt::<N>::from_str` | err
    derive <modulus attr> <generator attr>                 => N limbs TWO_ADICITY root gen   (std values)
    derivess <modulus attr> <generator attr> <base> <power> => N limbs TWO_ADICITY root gen large
    twoadicity <N> <p>                  => `MODULUS.two_adic_valuation()`

  The verdict is computed from `Ark.LitSpec.denote`, a reference reading of the literal text by
  ordinary positional notation, written independently of the macro's sign/prefix/chunking logic.
-/

namespace Ark.LitSpec

/-- digit value of `c` in the alphabet `0-9a-z` (case-insensitive), if below `radix` -/
def alphabet : List Char := "0123456789abcdefghijklmnopqrstuvwxyz".toList

def indexIn : List Char → Char → Nat → Option Nat
  | [], _, _ => none
  | a :: as, c, i => if a == c then some i else indexIn as c (i + 1)

def digitOf (radix : Nat) (c : Char) : Option Nat :=
  match indexIn alphabet c.toLower 0 with
  | some d => if d < radix then some d else none
  | none => none

/-- positional value of a most-significant-first digit string: `Σ dᵢ · radix^(len-1-i)` -/
def posValue (radix : Nat) : List Nat → Nat
  | [] => 0
  | d :: ds => d * radix ^ ds.length + posValue radix ds

def isSign (c : Char) : Bool := c == '+' || c == '-'

/-- digits with `_` separators (not leading); at least one digit -/
def readDigits (radix : Nat) : List Char → Option (List Nat)
  | [] => some []
  | c :: cs =>
    if c == '_' then readDigits radix cs
    else match digitOf radix c, readDigits radix cs with
      | some d, some ds => some (d :: ds)
      | _, _ => none

structure Reading where
  value : Int            -- the number denoted
  minus : Nat            -- number of `-` characters
  signs1 : Nat           -- sign characters in front of the radix prefix
  signs2 : Nat           -- sign characters between the prefix and the digits
  radix : Nat

/-- Reference reading of a numeric literal text:
    `sign* [0x|0X|0o|0O|0b|0B] sign* digit (digit | _)*`; the value is
    `(−1)^(number of '-') · (positional value of the digits in the radix)`.
    `prefixes = false`: decimal only (the run-time `from_str` parsers). -/
def denote (prefixes : Bool) (s : List Char) : Option Reading :=
  let signs1 := s.takeWhile isSign
  let rest1 := s.dropWhile isSign
  let (radix, rest2) : Nat × List Char :=
    if prefixes then
      match rest1 with
      | '0' :: c :: r =>
        if c == 'x' || c == 'X' then (16, r)
        else if c == 'o' || c == 'O' then (8, r)
        else if c == 'b' || c == 'B' then (2, r)
        else (10, rest1)
      | _ => (10, rest1)
    else (10, rest1)
  let signs2 := if radix == 10 then [] else rest2.takeWhile isSign
  let rest3 := if radix == 10 then rest2 else rest2.dropWhile isSign
  match rest3 with
  | [] => none
  | '_' :: _ => none
  | _ =>
    match readDigits radix rest3 with
    | none => none
    | some ds =>
      let minus := (signs1 ++ signs2).countP (· == '-')
      let mag : Int := (posValue radix ds : Nat)
      some { value := if minus % 2 == 1 then -mag else mag, minus := minus,
             signs1 := signs1.length, signs2 := signs2.length, radix := radix }

/-- the conventional shape `[-] [prefix] digits`: at most one sign, a `-`, in front -/
def Reading.strictSigned (r : Reading) : Bool := r.signs2 == 0 && (r.signs1 == 0 || (r.signs1 == 1 && r.minus == 1))
def Reading.strictUnsigned (r : Reading) : Bool := r.signs2 == 0 && r.signs1 == 0

/-- largest `s` with `2^s ∣ m` (`m > 0`) -/
def twoVal : Nat → Nat → Nat
  | 0, _ => 0
  | fuel + 1, m => if m % 2 == 0 && m != 0 then 1 + twoVal fuel (m / 2) else 0

def bitLength (n : Nat) : Nat := if n = 0 then 0 else n.log2 + 1

end Ark.LitSpec

namespace Ark.DrvC20
open Ark Ark.Proto Ark.Mont Ark.Lit Ark.LitSpec

/-- string tokens: bytes `0x21..0x7e` except `\` are printed raw, every other byte as `\xHH`;
    the empty string is `\e` -/
def unescAux : List Char → Option (List Char)
  | [] => some []
  | '\\' :: 'x' :: h1 :: h2 :: rest =>
    match hexDigit? h1, hexDigit? h2, unescAux rest with
    | some a, some b, some r => some (Char.ofNat (16 * a + b) :: r)
    | _, _, _ => none
  | '\\' :: _ => none
  | c :: rest => (unescAux rest).map (c :: ·)

def unesc (tok : String) : Option (List Char) :=
  if tok == "\\e" then some [] else if tok.isEmpty then none else unescAux tok.toList

structure Cache where
  key : String := ""
  cfg : MontCfg := mkCfg true 1 3

def getCfg (cache : Cache) (fl n p : String) : Option Cache := do
  let key := fl ++ " " ++ n ++ " " ++ p
  if cache.key == key then some cache
  else
    let nn ← parseHex? n; let pp ← parseHex? p
    if pp == 0 || nn == 0 then none else
    some { key := key, cfg := mkCfg (fl == "d") nn pp }

def vs (impl spec : String) : String := if impl == spec then "ok" else "bad:want=" ++ spec

def outStr : Outcome (List Nat) → String
  | .ok l => hex (value l)
  | .panic => "panic"

def optStr : Option (List Nat) → String
  | some l => hex (value l)
  | none => "err"

/-- `n mod p` as a natural number (non-negative representative) -/
def emodNat (n : Int) (p : Nat) : Nat := (n % (p : Int)).toNat

def optHex : Option (List Nat) → MontCfg → String
  | some l, c => hex (value (intoBigint c l))
  | none, _ => "none"

/-- model side of `derive` / `derivess` -/
def deriveModel (ms gs : List Char) (b k : Option (List Char)) (withLarge : Bool) : String :=
  match montConfigDerive (some ms) (some gs) b k with
  | .panic => "panic"
  | .diverge => "diverge"
  | .ok d =>
    match derivedConsts d with
    | .panic => "panic"
    | .diverge => "diverge"
    | .ok k =>
      let std (x : List Nat) : String := hex (value (intoBigint k.cfg x))
      let base := s!"{hex k.n} {hexList k.modulus} {hex k.twoAdicity} {std k.root} {std k.generator}"
      if withLarge then base ++ " " ++ optHex k.large k.cfg else base

/-- spec side of `derive` / `derivess` -/
def deriveSpec (ms gs : List Char) (bk : Option (Nat × Nat)) : Option String := do
  let pr ← denote false ms
  let gr ← denote false gs
  if pr.value < 2 then none
  let p := pr.value.toNat
  let g := gr.value.toNat
  let n := (bitLength p + 63) / 64
  let s := twoVal p (p - 1)
  let t := (p - 1) / 2 ^ s
  let base := s!"{hex n} {hexList (toLimbs n p)} {hex s} {hex (Spec.powMod g t p)} {hex (g % p)}"
  match bk with
  | none => some base
  | some (b, k) => if b ^ k == 0 then none else some (base ++ " " ++ hex (Spec.powMod g (t / b ^ k) p))

def run' (cache : Cache) (op : String) (args : List String) (impl : String) : Option (Cache × String × String) := do
  match op, args with
  | "bigint", [n, s] =>
    let n ← parseHex? n; let s ← unesc s
    let want := match denote true s with
      | some r => if 0 ≤ r.value ∧ r.value.toNat < B ^ n then hex r.value.toNat else "panic"
      | none => "panic"
    some (cache, outStr (bigIntMacro n s), vs impl want)
  | "bigfromstr", [n, s] =>
    let n ← parseHex? n; let s ← unesc s
    let m := optStr (bigIntFromStr n s)
    let verdict := match denote false s with
      | some r =>
        if r.value < 0 ∨ r.value.toNat ≥ B ^ n then vs impl "err"
        else if impl == hex r.value.toNat then "ok"
        else if impl == "err" && !r.strictUnsigned then "ok"
        else "bad:want=" ++ hex r.value.toNat
      | none => vs impl "err"
    some (cache, m, verdict)
  | "twoadicity", [n, p] =>
    let n ← parseHex? n; let p ← parseHex? p
    let m := match twoAdicValuation (toLimbs n p) with
      | .ok s => hex s
      | .panic => "panic"
      | .diverge => "diverge"
    let want := if p % 2 == 0 then "panic" else if p == 1 then "diverge" else hex (twoVal p (p - 1))
    some (cache, m, vs impl want)
  | "derive", [ms, gs] =>
    let ms ← unesc ms; let gs ← unesc gs
    let want := (deriveSpec ms gs none).getD "panic"
    some (cache, deriveModel ms gs none none false, vs impl want)
  | "derivess", [ms, gs, b, k] =>
    let ms ← unesc ms; let gs ← unesc gs; let bs ← unesc b; let ks ← unesc k
    -- base / power: unsigned 32-bit decimal numbers (an optional `+` in front)
    let u32? (cs : List Char) : Option Nat :=
      match denote false cs with
      | some r => if r.strictUnsigned || (r.signs1 == 1 && r.minus == 0) then
          (if cs.all (· != '_') && r.value.toNat < 2 ^ 32 then some r.value.toNat else none) else none
      | none => none
    let want := match u32? bs, u32? ks with
      | some bn, some kn => (deriveSpec ms gs (some (bn, kn))).getD "panic"
      | _, _ => "panic"
    some (cache, deriveModel ms gs (some bs) (some ks) true, vs impl want)
  | _, fl :: n :: p :: rest =>
    let cache ← getCfg cache fl n p
    let c := cache.cfg
    let nn := c.n
    let pv := value c.p
    let R := B ^ nn % pv
    let frN (y : Nat) : Nat := (y * R) % pv
    match op, rest with
    | "montfp", [s] =>
      let s ← unesc s
      let want := match denote true s with
        | some r => if r.value.natAbs < B ^ nn then hex (frN (emodNat r.value pv)) else "panic"
        | none => "panic"
      some (cache, outStr (montFp c s), vs impl want)
    | "fsl", [sign, limbs] =>
      let limbs ← parseList? limbs
      let pos := sign == "1"
      let want :=
        if limbs.length > nn then "panic"
        else
          let v : Int := (value limbs : Nat)
          hex (frN (emodNat (if pos then v else -v) pv))
      some (cache, outStr (fromSignAndLimbs c pos limbs), vs impl want)
    | "fromstr", [s] =>
      let s ← unesc s
      let m := optStr (fpFromStr c s)
      let verdict := match denote false s with
        | some r =>
          let want := hex (frN (emodNat r.value pv))
          if impl == want then "ok"
          else if impl == "err" && !r.strictSigned then "ok"
          else "bad:want=" ++ want
        | none => vs impl "err"
      some (cache, m, verdict)
    | _, _ => none
  | _, _ => none

/-- the guide's signature (no configuration cache) -/
def run (op : String) (args : List String) (impl : String) : Option (String × String) :=
  (run' {} op args impl).map (fun r => r.2)

end Ark.DrvC20
