import Ark.Model.ScalarMul
import Ark.Model.AffGroup
/-
  Ark.Model.Subgroup — C12: subgroup membership tests and cofactor clearing of `ark-ec` and of the
  curve crates, transcribed function by function.

  Rust sources
    * `ec/src/models/mod.rs`                      `CurveConfig::cofactor_is_one`
    * `ec/src/models/short_weierstrass/mod.rs`    `SWCurveConfig::{is_in_correct_subgroup_assuming_on_curve, clear_cofactor}` (defaults)
    * `ec/src/models/twisted_edwards/mod.rs`      `TECurveConfig::{is_in_correct_subgroup_assuming_on_curve, clear_cofactor}` (defaults)
    * `ec/src/models/{short_weierstrass,twisted_edwards}/affine.rs`
                                                  `mul_by_cofactor_to_group`, `clear_cofactor`, `Distribution<Affine<P>>::sample`
    * `ec/src/models/{short_weierstrass,twisted_edwards}/group.rs`   `Distribution<Projective<P>>::sample`
    * `ec/src/lib.rs`                             `AffineRepr::{mul_by_cofactor, mul_by_cofactor_inv}`
    * overrides: `curves/bls12_381/src/curves/{g1,g2}.rs`, `curves/bls12_377/src/curves/{g1,g2}.rs`,
      `curves/bn254/src/curves/{g1,g2}.rs`, `test-curves/src/bls12_381/{g1,g2}.rs`

  As in `Ark.ScalarMul` (C04) only the *group element* is tracked: the routines are written over an
  abstract group given by core operator classes (`[Add G] [Neg G] [Sub G] [Zero G] [BEq G]`,
  doubling is `P + P`, `==` is `PartialEq` of `Projective` / `Affine`, `x == 0` is `is_zero`), the scalar multiplications are the C04 models of the very functions the Rust
  code calls (`mul_affine` = `sw_double_and_add_affine`, `Projective::mul_bigint` = the configuration's
  `mul_projective`, i.e. GLV for BLS12-381 G1).  The coordinate-level endomorphisms `φ`, `ψ`, `ψ²` need
  the coordinates of a point: the record `XY F G` gives `Affine::xy` / `new_unchecked` of the concrete group.

  The routines can be executed at the specification-level affine groups `Ark.AffPt p E`
  (`AffGroup.lean`), `Ark.ScalarMul.TEPt p E`, and the small generic affine group `SWPt E` of this file
  over the minimal extension fields `Fq2 p β`, `Fq3 p β` (these carry the executable SPEC of the driver);
  for speed (one field inversion per affine group operation) the driver runs the MODEL over the
  coordinate systems of the Rust code (`Ark.Curve.SW.Jac`, `Ark.Curve.TE.Ext`, the C03 model of the
  projective formulas), whose `==` is the cross-multiplied `PartialEq`.
-/
namespace Ark.Subgroup
open Ark Ark.ScalarMul

/-! ## minimal extension fields `F_p[X]/(X² - β)`, `F_p[X]/(X³ - β)` (specification level) -/

structure Fq2 (p nr : Nat) where
  c0 : Fp p
  c1 : Fp p
  deriving DecidableEq

namespace Fq2
variable {p nr : Nat}
def beta (p nr : Nat) : Fp p := Fp.ofNat p nr
instance : Zero (Fq2 p nr) := ⟨⟨0, 0⟩⟩
instance : One (Fq2 p nr) := ⟨⟨1, 0⟩⟩
instance : Add (Fq2 p nr) := ⟨fun a b => ⟨a.c0 + b.c0, a.c1 + b.c1⟩⟩
instance : Sub (Fq2 p nr) := ⟨fun a b => ⟨a.c0 - b.c0, a.c1 - b.c1⟩⟩
instance : Neg (Fq2 p nr) := ⟨fun a => ⟨-a.c0, -a.c1⟩⟩
instance : Mul (Fq2 p nr) :=
  ⟨fun a b => ⟨a.c0 * b.c0 + beta p nr * (a.c1 * b.c1), a.c0 * b.c1 + a.c1 * b.c0⟩⟩
/-- `a⁻¹ = conj a / N(a)`, `N(a) = c0² - β c1²` (`0⁻¹ = 0`) -/
instance : Inv (Fq2 p nr) :=
  ⟨fun a => let n := (a.c0 * a.c0 - beta p nr * (a.c1 * a.c1))⁻¹; ⟨a.c0 * n, -(a.c1 * n)⟩⟩
instance : Div (Fq2 p nr) := ⟨fun a b => a * b⁻¹⟩
instance : Inhabited (Fq2 p nr) := ⟨0⟩
end Fq2

structure Fq3 (p nr : Nat) where
  c0 : Fp p
  c1 : Fp p
  c2 : Fp p
  deriving DecidableEq

namespace Fq3
variable {p nr : Nat}
def beta (p nr : Nat) : Fp p := Fp.ofNat p nr
instance : Zero (Fq3 p nr) := ⟨⟨0, 0, 0⟩⟩
instance : One (Fq3 p nr) := ⟨⟨1, 0, 0⟩⟩
instance : Add (Fq3 p nr) := ⟨fun a b => ⟨a.c0 + b.c0, a.c1 + b.c1, a.c2 + b.c2⟩⟩
instance : Sub (Fq3 p nr) := ⟨fun a b => ⟨a.c0 - b.c0, a.c1 - b.c1, a.c2 - b.c2⟩⟩
instance : Neg (Fq3 p nr) := ⟨fun a => ⟨-a.c0, -a.c1, -a.c2⟩⟩
instance : Mul (Fq3 p nr) :=
  ⟨fun a b =>
    ⟨a.c0 * b.c0 + beta p nr * (a.c1 * b.c2 + a.c2 * b.c1),
     a.c0 * b.c1 + a.c1 * b.c0 + beta p nr * (a.c2 * b.c2),
     a.c0 * b.c2 + a.c1 * b.c1 + a.c2 * b.c0⟩⟩
/-- inverse through the adjugate of the multiplication matrix (`0⁻¹ = 0`) -/
instance : Inv (Fq3 p nr) :=
  ⟨fun a =>
    let b := beta p nr
    let t0 := a.c0 * a.c0 - b * (a.c1 * a.c2)
    let t1 := b * (a.c2 * a.c2) - a.c0 * a.c1
    let t2 := a.c1 * a.c1 - a.c0 * a.c2
    let n := (a.c0 * t0 + b * (a.c2 * t1 + a.c1 * t2))⁻¹
    ⟨t0 * n, t1 * n, t2 * n⟩⟩
instance : Div (Fq3 p nr) := ⟨fun a b => a * b⁻¹⟩
instance : Inhabited (Fq3 p nr) := ⟨0⟩
end Fq3

/-! ## the textbook affine group of `y² = x³ + a x + b` over any field given by core operator classes
    (same law as `Ark.AffPt`, which is fixed to `Fp p`) -/

structure SWc (F : Type) where
  a : F
  b : F

structure SWPt {F : Type} (E : SWc F) where
  pt : Option (F × F)
  deriving DecidableEq

namespace SWPt
variable {F : Type} [Add F] [Sub F] [Mul F] [Neg F] [Zero F] [Div F] [DecidableEq F] {E : SWc F}

def affAdd (P Q : SWPt E) : SWPt E :=
  match P.pt, Q.pt with
  | none, _ => Q
  | _, none => P
  | some (x1, y1), some (x2, y2) =>
    if x1 = x2 then
      if y1 = y2 ∧ y1 ≠ 0 then
        let xx := x1 * x1
        let lam := (xx + xx + xx + E.a) / (y1 + y1)
        let x3 := lam * lam - x1 - x2
        ⟨some (x3, lam * (x1 - x3) - y1)⟩
      else ⟨none⟩
    else
      let lam := (y2 - y1) / (x2 - x1)
      let x3 := lam * lam - x1 - x2
      ⟨some (x3, lam * (x1 - x3) - y1)⟩

def affNeg (P : SWPt E) : SWPt E :=
  match P.pt with
  | none => P
  | some (x, y) => ⟨some (x, -y)⟩

instance : Zero (SWPt E) := ⟨⟨none⟩⟩
instance : Add (SWPt E) := ⟨affAdd⟩
instance : Neg (SWPt E) := ⟨affNeg⟩
instance : Sub (SWPt E) := ⟨fun P Q => affAdd P (affNeg Q)⟩
instance : Inhabited (SWPt E) := ⟨0⟩

def onCurve (P : SWPt E) : Bool :=
  match P.pt with
  | none => true
  | some (x, y) => y * y == x * x * x + E.a * x + E.b

/-- reference scalar multiplication (LSB-first double-and-add on `Nat`) -/
def smulAux : Nat → Nat → SWPt E → SWPt E → SWPt E
  | 0, _, _, acc => acc
  | fuel + 1, k, base, acc =>
    if k = 0 then acc
    else smulAux fuel (k / 2) (affAdd base base) (if k % 2 = 1 then affAdd acc base else acc)

def smul (k : Nat) (P : SWPt E) : SWPt E := smulAux (k.log2 + 2) k P 0

end SWPt

/-! ## `CurveConfig` -/

/-- `CurveConfig::cofactor_is_one()`:
    `Self::COFACTOR[0] == 1 && Self::COFACTOR.iter().skip(1).all(Zero::is_zero)` (indexing an empty slice panics) -/
def cofactorIsOne (cofactor : List Nat) : Outcome Bool :=
  match cofactor with
  | [] => .panic
  | c0 :: rest => .ok (c0 == 1 && rest.all (· == 0))

/-- the constants of a `CurveConfig` read by the routines below -/
structure CurveCfg where
  /-- `COFACTOR` (little-endian limbs, as written in the crate) -/
  cofactor : List Nat
  /-- `COFACTOR_INV.into_bigint()` as an integer -/
  cofactorInv : Nat
  /-- `ScalarField::MODULUS` -/
  r : Nat
  /-- limb count `N` of `ScalarField::BigInt` -/
  nLimbs : Nat

/-- `ScalarField::characteristic()`: the `N` limbs of the modulus -/
def CurveCfg.characteristic (c : CurveCfg) : List Nat := toLimbs c.nLimbs c.r

section generic
variable {G : Type} [Add G] [Neg G] [Sub G] [Zero G] [BEq G]

/-! ## short Weierstrass defaults -/

/-- `SWCurveConfig::is_in_correct_subgroup_assuming_on_curve` (trait default):
    `if Self::cofactor_is_one() { true } else { Self::mul_affine(item, r).is_zero() }` -/
def swIsInCorrectSubgroup (c : CurveCfg) (item : G) : Outcome Bool :=
  match cofactorIsOne c.cofactor with
  | .panic => .panic
  | .ok true => .ok true
  | .ok false => .ok (swMulAffine item c.characteristic == 0)

/-- `<Affine<P> as AffineRepr>::mul_by_cofactor_to_group`: `P::mul_affine(self, COFACTOR)` -/
def swMulByCofactorToGroup (c : CurveCfg) (P : G) : G := swMulAffine P c.cofactor

/-- `AffineRepr::mul_by_cofactor`: `self.mul_by_cofactor_to_group().into()` -/
def swMulByCofactor (c : CurveCfg) (P : G) : G := swMulByCofactorToGroup c P

/-- `SWCurveConfig::clear_cofactor` (trait default): `item.mul_by_cofactor()` -/
def swClearCofactor (c : CurveCfg) (item : G) : G := swMulByCofactor c item

/-- `AffineRepr::mul_by_cofactor_inv`: `self.mul_bigint(COFACTOR_INV.into_bigint()).into()` -/
def swMulByCofactorInv (c : CurveCfg) (P : G) : G := swAffMulBigint P (toLimbs c.nLimbs c.cofactorInv)

/-- `Distribution<Affine<P>>::sample`, after the loop found `p = get_point_from_x_unchecked(x, greatest)`:
    `return p.mul_by_cofactor()` -/
def swSampleAffine (c : CurveCfg) (p : G) : G := swMulByCofactor c p

/-- `Distribution<Projective<P>>::sample`: `return p.mul_by_cofactor_to_group()` -/
def swSampleProjective (c : CurveCfg) (p : G) : G := swMulByCofactorToGroup c p

/-! ## twisted Edwards defaults (no `cofactor_is_one` short-cut) -/

/-- `TECurveConfig::is_in_correct_subgroup_assuming_on_curve` (trait default):
    `Self::mul_affine(item, r).is_zero()` -/
def teIsInCorrectSubgroup (c : CurveCfg) (item : G) : Outcome Bool :=
  .ok (teMulAffine item c.characteristic == 0)

def teMulByCofactorToGroup (c : CurveCfg) (P : G) : G := teMulAffine P c.cofactor
def teMulByCofactor (c : CurveCfg) (P : G) : G := teMulByCofactorToGroup c P
/-- `TECurveConfig::clear_cofactor` (trait default) -/
def teClearCofactor (c : CurveCfg) (item : G) : G := teMulByCofactor c item
def teMulByCofactorInv (c : CurveCfg) (P : G) : G := teAffMulBigint P (toLimbs c.nLimbs c.cofactorInv)
def teSampleAffine (c : CurveCfg) (p : G) : G := teMulByCofactor c p
def teSampleProjective (c : CurveCfg) (p : G) : G := teMulByCofactorToGroup c p

/-! ## coordinate access of the concrete group -/

/-- `Affine::xy` (`None` at infinity) and `Affine::new_unchecked` -/
structure XY (F G : Type) where
  xy : G → Option (F × F)
  new : F → F → G

/-- `let mut res = *p; res.x = f(res.x, res.y).1; …`: the identity (flag `infinity`, resp. `Z = 0`) is kept -/
def XY.map {F : Type} (io : XY F G) (f : F → F → F × F) (P : G) : G :=
  match io.xy P with
  | none => P
  | some (x, y) => let (x', y') := f x y; io.new x' y'

/-! ## BLS12 `G1` (prime base field) -/

/-- `Fr::from_sign_and_limbs(is_positive, limbs)` for `|limbs| < r`… as an integer mod `r` -/
def frFromSignAndLimbs (r : Nat) (isPositive : Bool) (limbs : List Nat) : Nat :=
  let v := value limbs % r
  if isPositive then v else (r - v) % r

/-- `bls12_381::g1::one_minus_x()`: `Fr::one() - Fr::from_sign_and_limbs(!X_IS_NEGATIVE, X)` -/
def oneMinusX (r : Nat) (x : List Nat) (xIsNegative : Bool) : Nat :=
  (1 % r + (r - frFromSignAndLimbs r (!xIsNegative) x)) % r

/-- `bls12_377::g1::x_minus_one()`: `Fr::from_sign_and_limbs(!X_IS_NEGATIVE, X) - Fr::one()` -/
def xMinusOne (r : Nat) (x : List Nat) (xIsNegative : Bool) : Nat :=
  (frFromSignAndLimbs r (!xIsNegative) x + (r - 1 % r)) % r

/-- what the BLS12-381 `G1` override reads: `crate::Config::X`, `X_IS_NEGATIVE`, `g1::BETA`, and — through
    `Projective::mul_bigint` = `mul_projective` — the GLV configuration with `ENDO_COEFFS[0]` -/
structure Bls12G1 (F : Type) where
  x : List Nat
  xIsNegative : Bool
  beta : F
  glv : GlvCfg
  glvEndoCoeff : F

variable {F : Type} [Mul F]

/-- `bls12_381::g1::endomorphism(p)`: `res.x *= BETA` -/
def g1Endomorphism (io : XY F G) (beta : F) (p : G) : G := io.map (fun x y => (x * beta, y)) p

/-- `bls12_381::g1::Config::is_in_correct_subgroup_assuming_on_curve`:
    ```
    let x_times_p = p.mul_bigint(X);                       // Affine  → mul_affine (double-and-add)
    if x_times_p.eq(p) && !p.infinity { return false; }
    let minus_x_squared_times_p = x_times_p.mul_bigint(X).neg();   // Projective → mul_projective (GLV)
    minus_x_squared_times_p.eq(&endomorphism(p))
    ``` -/
def bls12381G1IsInCorrectSubgroup (io : XY F G) (k : Bls12G1 F) (p : G) : Outcome Bool :=
  let xTimesP := swAffMulBigint p k.x
  if xTimesP == p && !(p == 0) then .ok false
  else
    match swProjMulBigint (.glv k.glv) (g1Endomorphism io k.glvEndoCoeff) xTimesP k.x with
    | .panic => .panic
    | .ok q =>
      let minusXSquaredTimesP := - q
      .ok (minusXSquaredTimesP == g1Endomorphism io k.beta p)

/-- `bls12_381::g1::Config::clear_cofactor`: `mul_affine(p, one_minus_x().into_bigint())` -/
def bls12381G1ClearCofactor (c : CurveCfg) (k : Bls12G1 F) (p : G) : G :=
  swMulAffine p (toLimbs c.nLimbs (oneMinusX c.r k.x k.xIsNegative))

/-- `bls12_377::g1::Config::clear_cofactor`: `mul_affine(p, x_minus_one().into_bigint())` -/
def bls12377G1ClearCofactor (c : CurveCfg) (k : Bls12G1 F) (p : G) : G :=
  swMulAffine p (toLimbs c.nLimbs (xMinusOne c.r k.x k.xIsNegative))

/-- `ark_test_curves::bls12_381::g1::Config::clear_cofactor`: `let h_eff: &[u64] = &[0xd201000000010001]` -/
def testBls12381G1ClearCofactor (p : G) : G := swMulAffine p [0xd201000000010001]

/-- `bn254::g1::Config::is_in_correct_subgroup_assuming_on_curve`: `true` -/
def bn254G1IsInCorrectSubgroup (_p : G) : Outcome Bool := .ok true

end generic

/-! ## `G2` of BLS12-381, BLS12-377, BN254 (base field `Fq2`) -/

section g2
variable {p nr : Nat} {G : Type} [Add G] [Neg G] [Sub G] [Zero G] [BEq G]

/-- `Fp2::frobenius_map_in_place(1)`: `c0` is in the prime field; `c1 *= FROBENIUS_COEFF_FP2_C1[1 % 2]` -/
def fq2Frobenius (frobC1 : List Nat) (a : Fq2 p nr) : Outcome (Fq2 p nr) :=
  match frobC1[1 % 2]? with
  | none => .panic
  | some c => .ok ⟨a.c0, a.c1 * Fp.ofNat p c⟩

/-- the private constants of a `g2.rs` -/
structure PsiConsts where
  /-- `P_POWER_ENDOMORPHISM_COEFF_0` -/
  c0 : Nat × Nat
  /-- `P_POWER_ENDOMORPHISM_COEFF_1` -/
  c1 : Nat × Nat
  /-- `DOUBLE_P_POWER_ENDOMORPHISM_COEFF_0` -/
  d0 : Nat × Nat

def mk2 (p nr : Nat) (c : Nat × Nat) : Fq2 p nr := ⟨Fp.ofNat p c.1, Fp.ofNat p c.2⟩

/-- `curves/bls12_381/src/curves/g2.rs` (and, with the same values, `test-curves/src/bls12_381/g2.rs`) -/
def bls12381Psi : PsiConsts where
  c0 := (0, 4002409555221667392624310435006688643935503118305586438271171395842971157480381377015405980053539358417135540939437)
  c1 := (2973677408986561043442465346520108879172042883009249989176415018091420807192182638567116318576472649347015917690530,
         1028732146235106349975324479215795277384839936929757896155643118032610843298655225875571310552543014690878354869257)
  d0 := (4002409555221667392624310435006688643935503118305586438271171395842971157480381377015405980053539358417135540939436, 0)

/-- `curves/bls12_377/src/curves/g2.rs` -/
def bls12377Psi : PsiConsts where
  c0 := (80949648264912719408558363140637477264845294720710499478137287262712535938301461879813459410946, 0)
  c1 := (216465761340224619389371505802605247630151569547285782856803747159100223055385581585702401816380679166954762214499, 0)
  d0 := (80949648264912719408558363140637477264845294720710499478137287262712535938301461879813459410945, 0)

/-- `curves/bn254/src/curves/g2.rs` (no `ψ²` there) -/
def bn254Psi : PsiConsts where
  c0 := (21575463638280843010398324269430826099269044274347216827212613867836435027261,
         10307601595873709700152284273816112264069230130616436755625194854815875713954)
  c1 := (2821565182194536844548159561693502659359617185244120367078079554186484126554,
         3505843767911556378687030309984248845540243509899259641013678093033130930403)
  d0 := (0, 0)

/-- `bn254::g2::SIX_X_SQUARED` -/
def bn254SixXSquared : List Nat := [17887900258952609094, 8020209761171036667]

/-- what the `G2` overrides read from public configuration: `crate::Config::X`, `X_IS_NEGATIVE`,
    `Fq2Config::FROBENIUS_COEFF_FP2_C1` -/
structure G2Cfg where
  x : List Nat
  xIsNegative : Bool
  frobC1 : List Nat

/-- `bls12_381::g2::p_power_endomorphism` (identical in `ark_test_curves::bls12_381::g2`):
    ```
    res.x.frobenius_map_in_place(1); res.y.frobenius_map_in_place(1);
    let tmp_x = res.x.clone();
    res.x.c0 = -P_POWER_ENDOMORPHISM_COEFF_0.c1 * &tmp_x.c1;
    res.x.c1 = P_POWER_ENDOMORPHISM_COEFF_0.c1 * &tmp_x.c0;
    res.y *= P_POWER_ENDOMORPHISM_COEFF_1;
    ``` -/
def bls12381PPowerEndomorphism (io : XY (Fq2 p nr) G) (k : G2Cfg) (P : G) : Outcome G :=
  match io.xy P with
  | none => .ok P          -- the Frobenius of `(0, 0)` and the products are `(0, 0)`; the flag is kept
  | some (x, y) =>
    match fq2Frobenius k.frobC1 x, fq2Frobenius k.frobC1 y with
    | .ok fx, .ok fy =>
      let c01 : Fp p := Fp.ofNat p bls12381Psi.c0.2
      let x' : Fq2 p nr := ⟨(- c01) * fx.c1, c01 * fx.c0⟩
      .ok (io.new x' (fy * mk2 p nr bls12381Psi.c1))
    | _, _ => .panic

/-- `bls12_377::g2::p_power_endomorphism` / `bn254::g2::p_power_endomorphism`:
    `res.x.frobenius_map_in_place(1); res.y.frobenius_map_in_place(1); res.x *= COEFF_0; res.y *= COEFF_1;` -/
def pPowerEndomorphismMul (io : XY (Fq2 p nr) G) (k : G2Cfg) (c : PsiConsts) (P : G) : Outcome G :=
  match io.xy P with
  | none => .ok P
  | some (x, y) =>
    match fq2Frobenius k.frobC1 x, fq2Frobenius k.frobC1 y with
    | .ok fx, .ok fy => .ok (io.new (fx * mk2 p nr c.c0) (fy * mk2 p nr c.c1))
    | _, _ => .panic

/-- `double_p_power_endomorphism(p: &Projective)`: `res.x *= DOUBLE_P_POWER_ENDOMORPHISM_COEFF_0; res.y = -res.y`
    (Jacobian `X`, `Y` scale the affine `x`, `y`; `Z = 0` stays the identity) -/
def doublePPowerEndomorphism (io : XY (Fq2 p nr) G) (c : PsiConsts) (P : G) : G :=
  io.map (fun x y => (x * mk2 p nr c.d0, - y)) P

/-- `bls12_381::g2::Config::is_in_correct_subgroup_assuming_on_curve`
    (`ark_test_curves` pads `X` to four limbs — the same bits after the leading zeros):
    ```
    let mut x_times_point = point.mul_bigint(X);
    if X_IS_NEGATIVE { x_times_point = -x_times_point; }
    x_times_point.eq(&p_power_endomorphism(point))
    ``` -/
def bls12381G2IsInCorrectSubgroup (io : XY (Fq2 p nr) G) (k : G2Cfg) (xLimbs : List Nat) (point : G) : Outcome Bool :=
  let xTimesPoint := swAffMulBigint point xLimbs
  let xTimesPoint := if k.xIsNegative then - xTimesPoint else xTimesPoint
  match bls12381PPowerEndomorphism io k point with
  | .panic => .panic
  | .ok pTimesPoint => .ok (xTimesPoint == pTimesPoint)

/-- `bn254::g2::Config::is_in_correct_subgroup_assuming_on_curve`:
    `point.mul_bigint(SIX_X_SQUARED).eq(&p_power_endomorphism(point))` -/
def bn254G2IsInCorrectSubgroup (io : XY (Fq2 p nr) G) (k : G2Cfg) (point : G) : Outcome Bool :=
  let xTimesPoint := swAffMulBigint point bn254SixXSquared
  match pPowerEndomorphismMul io k bn254Psi point with
  | .panic => .panic
  | .ok pTimesPoint => .ok (xTimesPoint == pTimesPoint)

/-- `bls12_381::g2::Config::clear_cofactor` (Budroni–Pintore, `x < 0` handled by negating):
    ```
    let x_p = Config::mul_affine(p, &x).neg();
    let psi_p = p_power_endomorphism(&p);
    let mut psi2_p2 = double_p_power_endomorphism(&p_projective.double());
    let mut tmp = x_p.clone(); tmp += &psi_p;
    let mut tmp2 = tmp; tmp2 = tmp2.mul_bigint(x).neg();
    psi2_p2 += tmp2; psi2_p2 -= x_p; psi2_p2 += &-psi_p;
    (psi2_p2 - p_projective).into_affine()
    ```
    (`G2` does not override `mul_projective`: `Projective::mul_bigint` is the default double-and-add.) -/
def bls12381G2ClearCofactor (io : XY (Fq2 p nr) G) (k : G2Cfg) (P : G) : Outcome G :=
  let xP := - swMulAffine P k.x
  match bls12381PPowerEndomorphism io k P with
  | .panic => .panic
  | .ok psiP =>
    let psi2P2 := doublePPowerEndomorphism io bls12381Psi (P + P)
    let tmp := xP + psiP
    match swProjMulBigint .default id tmp k.x with
    | .panic => .panic
    | .ok t =>
      let tmp2 := - t
      let acc := psi2P2 + tmp2
      let acc := acc - xP
      let acc := acc + (- psiP)
      .ok (acc - P)

/-- `ark_test_curves::bls12_381::g2::Config::clear_cofactor` (same formula, written
    `let tmp = (x_p + psi_p).mul_bigint(x).neg(); psi2_p2 += tmp; psi2_p2 -= x_p; psi2_p2 -= psi_p;`) -/
def testBls12381G2ClearCofactor (io : XY (Fq2 p nr) G) (k : G2Cfg) (P : G) : Outcome G :=
  let xP := - swMulAffine P k.x
  match bls12381PPowerEndomorphism io k P with
  | .panic => .panic
  | .ok psiP =>
    let psi2P2 := doublePPowerEndomorphism io bls12381Psi (P + P)
    match swProjMulBigint .default id (xP + psiP) k.x with
    | .panic => .panic
    | .ok t =>
      let tmp := - t
      let acc := psi2P2 + tmp
      let acc := acc - xP
      let acc := acc - psiP
      .ok (acc - P)

/-- `bls12_377::g2::Config::clear_cofactor` (`x > 0`: no negations) -/
def bls12377G2ClearCofactor (io : XY (Fq2 p nr) G) (k : G2Cfg) (P : G) : Outcome G :=
  let xP := swMulAffine P k.x
  match pPowerEndomorphismMul io k bls12377Psi P with
  | .panic => .panic
  | .ok psiP =>
    let psi2P2 := doublePPowerEndomorphism io bls12377Psi (P + P)
    let tmp := xP + psiP
    match swProjMulBigint .default id tmp k.x with
    | .panic => .panic
    | .ok tmp2 =>
      let acc := psi2P2 + tmp2
      let acc := acc - xP
      let acc := acc + (- psiP)
      .ok (acc - P)

end g2

end Ark.Subgroup
