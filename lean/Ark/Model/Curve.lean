import Ark.Model.Limbs
import Ark.Model.FieldOps
/-
  Ark.Model.Curve — C03: the point arithmetic of
    ec/src/models/short_weierstrass/{group.rs, affine.rs}   (Jacobian coordinates)
    ec/src/models/twisted_edwards/{group.rs, affine.rs}     (extended coordinates)
  transcribed function by function (same branches, same order of operations), generic
  over the base field `F` given by core operator classes, plus — independently of the
  formulas — the textbook affine group laws `SW.affAdd` / `TE.affAdd` used as the
  specification.

  Conventions:  `dbl x = x + x` is `double`, `sq x = x * x` is `square`,
  `inverse? x` is `Field::inverse` (`none` iff `x = 0`);
  `sum_of_products(&[a, b], &[c, d])` is `a * c + b * d` (its agreement with that
  expression on prime fields is part of C01).
-/
namespace Ark.Curve

variable {F : Type} [Add F] [Sub F] [Mul F] [Neg F] [Zero F] [One F] [Inv F] [DecidableEq F]

/-- `double` / `double_in_place` of a field element -/
@[inline] def dbl (x : F) : F := x + x
/-- `square` / `square_in_place` -/
@[inline] def sq (x : F) : F := x * x
/-- `Field::inverse`: `None` exactly for zero -/
@[inline] def inverse? (x : F) : Option F := if x = 0 then none else some x⁻¹

/-- the record of field operations handed to the generic `serial_batch_inversion_and_mul` model -/
def fieldOps : Ops F where
  zero := 0
  one := 1
  add := (· + ·)
  sub := (· - ·)
  mul := (· * ·)
  neg := (- ·)
  square := sq
  double := dbl
  inv := inverse?
  isZero := fun x => decide (x = 0)

/-- `ark_ff::batch_inversion(v)` = `serial_batch_inversion_and_mul(v, one)` (zeros stay zero);
    `none` = the `unwrap` panic (unreachable) -/
def batchInversion (v : List F) : Option (List F) := (fieldOps (F := F)).batchInvMul v 1

/-! ## Short Weierstrass -/
namespace SW

/-- `SWCurveConfig`: `COEFF_A`, `COEFF_B`, the (overridable) helper `mul_by_a`, and the value of
    `[1, 2].contains(&BaseField::extension_degree())` which selects the formula for `D` in the
    `a = 0` doubling -/
structure Curve (F : Type) where
  a : F
  b : F
  mulByA : F → F
  deg12 : Bool

/-- the trait's default `mul_by_a` -/
def defaultMulByA (a : F) (e : F) : F := if a = 0 then 0 else e * a

/-- configuration that keeps the trait defaults -/
def Curve.std (a b : F) (deg12 : Bool := true) : Curve F := ⟨a, b, defaultMulByA a, deg12⟩

/-- `SWCurveConfig::add_b` (default) -/
def addB (c : Curve F) (e : F) : F := if c.b = 0 then e else e + c.b

/-- `short_weierstrass::Affine { x, y, infinity }` -/
structure Affine (F : Type) where
  x : F
  y : F
  infinity : Bool
  deriving DecidableEq

/-- `short_weierstrass::Projective { x, y, z }` — Jacobian: `(X/Z², Y/Z³)` -/
structure Jac (F : Type) where
  x : F
  y : F
  z : F
  deriving DecidableEq

/-- `Affine::identity()` / `AffineRepr::zero()`: `(0, 0, infinity = true)` -/
def Affine.identity : Affine F := ⟨0, 0, true⟩
/-- `AffineRepr::xy` -/
def Affine.xy (p : Affine F) : Option (F × F) := if p.infinity then none else some (p.x, p.y)
/-- `Neg for Affine`: negates `y` whatever the flag says -/
def Affine.neg (p : Affine F) : Affine F := { p with y := - p.y }

/-- `Affine::is_on_curve` -/
def Affine.isOnCurve (c : Curve F) (p : Affine F) : Bool :=
  if p.infinity then true
  else
    let x3b := addB c (sq p.x * p.x)
    let x3b := if c.a ≠ 0 then x3b + c.mulByA p.x else x3b
    decide (sq p.y = x3b)

/-- `Projective::zero()` = `(1, 1, 0)` -/
def Jac.zero : Jac F := ⟨1, 1, 0⟩
/-- `Zero::is_zero`: `z == 0` -/
def Jac.isZero (p : Jac F) : Bool := decide (p.z = 0)

/-- `PartialEq for Projective` (cross-multiplied) -/
def Jac.eq (p q : Jac F) : Bool :=
  if p.isZero then q.isZero
  else if q.isZero then false
  else
    let z1z1 := sq p.z
    let z2z2 := sq q.z
    if p.x * z2z2 = q.x * z1z1 then decide (p.y * (z2z2 * q.z) = q.y * (z1z1 * p.z))
    else false

/-- `Neg for Projective` -/
def Jac.neg (p : Jac F) : Jac F := { p with y := - p.y }

/-- `From<Affine> for Projective` -/
def fromAffine (p : Affine F) : Jac F :=
  match p.xy with
  | none => Jac.zero
  | some (x, y) => ⟨x, y, 1⟩

/-- `AdditiveGroup::double_in_place` -/
def double (c : Curve F) (p : Jac F) : Jac F :=
  if p.isZero then p
  else if c.a = 0 then
    let a := sq p.x
    let b := sq p.y
    let cc := sq b
    let d := if c.deg12 then dbl (dbl (p.x * b)) else dbl (sq (p.x + b) - a - cc)
    let e := a + dbl a
    let z3 := dbl (p.z * p.y)
    let x3 := sq e - dbl d
    let y3 := (d - x3) * e - dbl (dbl (dbl cc))
    ⟨x3, y3, z3⟩
  else
    let xx := sq p.x
    let yy := sq p.y
    let yyyy := sq yy
    let zz := sq p.z
    let s := dbl (sq (p.x + yy) - xx - yyyy)
    let m := dbl xx + xx + c.mulByA (sq zz)
    let x3 := sq m - dbl s
    let z3 := dbl (p.z * p.y)
    let y3 := (s - x3) * m - dbl (dbl (dbl yyyy))
    ⟨x3, y3, z3⟩

/-- `AddAssign<&Self> for Projective` (add-2007-bl with its explicit branches) -/
def add (c : Curve F) (p q : Jac F) : Jac F :=
  if p.isZero then q
  else if q.isZero then p
  else
    let z1z1 := sq p.z
    let z2z2 := sq q.z
    let u1 := p.x * z2z2
    let u2 := q.x * z1z1
    let s1 := p.y * q.z * z2z2
    let s2 := q.y * p.z * z1z1
    if u1 = u2 then
      if s1 = s2 then double c p else Jac.zero
    else
      let h := u2 - u1
      let i := sq (dbl h)
      let j := (- h) * i
      let r := dbl (s2 - s1)
      let v := u1 * i
      let x3 := sq r + j - dbl v
      let y3 := r * (v - x3) + dbl s1 * j
      let z3 := dbl (p.z * q.z) * h
      ⟨x3, y3, z3⟩

/-- `AddAssign<T: Borrow<Affine>> for Projective` (madd-2007-bl) -/
def addMixed (c : Curve F) (p : Jac F) (q : Affine F) : Jac F :=
  match q.xy with
  | none => p
  | some (x2, y2) =>
    if p.isZero then ⟨x2, y2, 1⟩
    else
      let z1z1 := sq p.z
      let u2 := x2 * z1z1
      let s2 := p.z * y2 * z1z1
      if p.x = u2 then
        if p.y = s2 then double c p else Jac.zero
      else
        let h := u2 - p.x
        let hh := sq h
        let i := dbl (dbl hh)
        let j := (- h) * i
        let r := dbl (s2 - p.y)
        let v := p.x * i
        let x3 := sq r + j - dbl v
        let y3 := r * (v - x3) + dbl p.y * j
        let z3 := dbl (p.z * h)
        ⟨x3, y3, z3⟩

/-- `SubAssign<&Self>`: `*self += &(-(*other))` -/
def sub (c : Curve F) (p q : Jac F) : Jac F := add c p q.neg
/-- `SubAssign<T: Borrow<Affine>>`: `*self += -(*other.borrow())` -/
def subMixed (c : Curve F) (p : Jac F) (q : Affine F) : Jac F := addMixed c p q.neg
/-- `Add<T: Borrow<Self>> for Affine` -/
def affineAdd (c : Curve F) (p q : Affine F) : Jac F := addMixed c (fromAffine p) q
/-- `Sub<T: Borrow<Self>> for Affine` -/
def affineSub (c : Curve F) (p q : Affine F) : Jac F := subMixed c (fromAffine p) q
/-- `PartialEq<Projective> for Affine` / `PartialEq<Affine> for Projective` -/
def affineEqProj (p : Affine F) (q : Jac F) : Bool := (fromAffine p).eq q

/-- `From<Projective> for Affine`; `.panic` = `inverse().unwrap()` on zero (unreachable: `z ≠ 0`) -/
def toAffine (p : Jac F) : Outcome (Affine F) :=
  if p.isZero then .ok Affine.identity
  else if p.z = 1 then .ok ⟨p.x, p.y, false⟩
  else match inverse? p.z with
    | none => .panic
    | some zinv =>
      let zinv2 := sq zinv
      .ok ⟨p.x * zinv2, p.y * (zinv2 * zinv), false⟩

/-- the per-element map of `normalize_batch`, given the batch-inverted `z` -/
def normalizeWith (g : Jac F) (z : F) : Affine F :=
  if g.isZero then Affine.identity
  else
    let z2 := sq z
    ⟨g.x * z2, g.y * z2 * z, false⟩

def zipNormalize : List (Jac F) → List F → List (Affine F)
  | g :: gs, z :: zs => normalizeWith g z :: zipNormalize gs zs
  | _, _ => []

/-- `CurveGroup::normalize_batch` -/
def normalizeBatch (v : List (Jac F)) : Outcome (List (Affine F)) :=
  match batchInversion (v.map (·.z)) with
  | none => .panic
  | some zs => .ok (zipNormalize v zs)

/-- `Sum<T: Borrow<Affine>> for Projective` -/
def sumAffine (c : Curve F) (l : List (Affine F)) : Jac F := l.foldl (addMixed c) Jac.zero
/-- `Sum<Self> for Projective` (`impl_additive_ops_from_ref!`) -/
def sumProj (c : Curve F) (l : List (Jac F)) : Jac F := l.foldl (add c) Jac.zero

/-- branch labels (generator-quality table of the check) -/
def doubleTag (c : Curve F) (p : Jac F) : String :=
  if p.isZero then "id" else
  (if c.a = 0 then (if c.deg12 then "a0" else "a0-deg3+") else "gen") ++ (if p.y = 0 then "-y0" else "")
def addTag (c : Curve F) (p q : Jac F) : String :=
  if p.isZero then "id-l" else if q.isZero then "id-r" else
  if p.x * sq q.z = q.x * sq p.z then
    (if p.y * q.z * sq q.z = q.y * p.z * sq p.z then "double:" ++ doubleTag c p else "opposite")
  else "general"
def addMixedTag (c : Curve F) (p : Jac F) (q : Affine F) : String :=
  match q.xy with
  | none => "id-r"
  | some (x2, y2) =>
    if p.isZero then "id-l" else
    if p.x = x2 * sq p.z then (if p.y = p.z * y2 * sq p.z then "double:" ++ doubleTag c p else "opposite")
    else "general"

/-! ### Specification: the textbook chord-and-tangent law on affine points
    (`none` = the point at infinity).  Written independently of the formulas above. -/

/-- affine point denoted by a Jacobian triple -/
def toAff (p : Jac F) : Option (F × F) :=
  if p.z = 0 then none else some (p.x * (p.z * p.z)⁻¹, p.y * (p.z * p.z * p.z)⁻¹)

/-- affine point denoted by an `Affine` value -/
def ofAffine (p : Affine F) : Option (F × F) := if p.infinity then none else some (p.x, p.y)

/-- curve equation `y² = x³ + a x + b` -/
def onCurve (a b : F) : Option (F × F) → Bool
  | none => true
  | some (x, y) => decide (y * y = x * x * x + a * x + b)

def affNeg : Option (F × F) → Option (F × F)
  | none => none
  | some (x, y) => some (x, - y)

/-- chord-and-tangent addition on `y² = x³ + a x + b` -/
def affAdd (a : F) : Option (F × F) → Option (F × F) → Option (F × F)
  | none, q => q
  | p, none => p
  | some (x1, y1), some (x2, y2) =>
    if x1 = x2 ∧ y1 + y2 = 0 then none
    else
      let lam := if x1 = x2 then ((1 + 1 + 1) * x1 * x1 + a) * (y1 + y1)⁻¹
                 else (y2 - y1) * (x2 - x1)⁻¹
      let x3 := lam * lam - x1 - x2
      let y3 := lam * (x1 - x3) - y1
      some (x3, y3)

def affSum (a : F) (l : List (Option (F × F))) : Option (F × F) := l.foldl (affAdd a) none

end SW

/-! ## Twisted Edwards -/
namespace TE

/-- `TECurveConfig`: `COEFF_A`, `COEFF_D` and the overridable `mul_by_a` (default `elem * a`) -/
structure Curve (F : Type) where
  a : F
  d : F
  mulByA : F → F

def Curve.std (a d : F) : Curve F := ⟨a, d, fun e => e * a⟩

/-- `twisted_edwards::Affine { x, y }` — the identity is `(0, 1)` -/
structure Affine (F : Type) where
  x : F
  y : F
  deriving DecidableEq

/-- `twisted_edwards::Projective { x, y, t, z }` — extended: `(X/Z, Y/Z)`, `T = XY/Z` -/
structure Ext (F : Type) where
  x : F
  y : F
  t : F
  z : F
  deriving DecidableEq

def Affine.zero : Affine F := ⟨0, 1⟩
/-- `Affine::is_zero` -/
def Affine.isZero (p : Affine F) : Bool := decide (p.x = 0) && decide (p.y = 1)
/-- `Neg for Affine` -/
def Affine.neg (p : Affine F) : Affine F := ⟨- p.x, p.y⟩
/-- `Affine::is_on_curve` -/
def Affine.isOnCurve (c : Curve F) (p : Affine F) : Bool :=
  let x2 := sq p.x
  let y2 := sq p.y
  let lhs := y2 + c.mulByA x2
  let rhs := 1 + c.d * (x2 * y2)
  decide (lhs = rhs)

/-- `Projective::zero()` = `(0, 1, 0, 1)` -/
def Ext.zero : Ext F := ⟨0, 1, 0, 1⟩
/-- `Zero::is_zero` -/
def Ext.isZero (p : Ext F) : Bool :=
  decide (p.x = 0) && decide (p.y = p.z) && !decide (p.y = 0) && decide (p.t = 0)

/-- `PartialEq for Projective` -/
def Ext.eq (p q : Ext F) : Bool :=
  if p.isZero then q.isZero
  else if q.isZero then false
  else decide (p.x * q.z = q.x * p.z) && decide (p.y * q.z = q.y * p.z)

/-- `Neg for Projective` -/
def Ext.neg (p : Ext F) : Ext F := { p with x := - p.x, t := - p.t }

/-- `From<Affine> for Projective` -/
def fromAffine (p : Affine F) : Ext F := ⟨p.x, p.y, p.x * p.y, 1⟩

/-- `AdditiveGroup::double_in_place` (dbl-2008-hwcd) -/
def double (c : Curve F) (p : Ext F) : Ext F :=
  let a := sq p.x
  let b := sq p.y
  let cc := dbl (sq p.z)
  let d := c.mulByA a
  let e := sq (p.x + p.y) - a - b
  let g := d + b
  let f := g - cc
  let h := d - b
  ⟨e * f, g * h, e * h, f * g⟩

/-- `AddAssign<&Self> for Projective` (unified addition, add-2008-hwcd) -/
def add (c : Curve F) (p q : Ext F) : Ext F :=
  let a := p.x * q.x
  let b := p.y * q.y
  let cc := c.d * p.t * q.t
  let d := p.z * q.z
  let h := b - c.mulByA a
  let e := (p.x + p.y) * (q.x + q.y) - a - b
  let f := d - cc
  let g := d + cc
  ⟨e * f, g * h, e * h, f * g⟩

/-- `AddAssign<T: Borrow<Affine>> for Projective` (madd-2008-hwcd) -/
def addMixed (c : Curve F) (p : Ext F) (q : Affine F) : Ext F :=
  let a := p.x * q.x
  let b := p.y * q.y
  let cc := c.d * p.t * q.x * q.y
  let d := p.z
  let e := (p.x + p.y) * (q.x + q.y) - a - b
  let f := d - cc
  let g := d + cc
  let h := b - c.mulByA a
  ⟨e * f, g * h, e * h, f * g⟩

def sub (c : Curve F) (p q : Ext F) : Ext F := add c p q.neg
def subMixed (c : Curve F) (p : Ext F) (q : Affine F) : Ext F := addMixed c p q.neg
def affineAdd (c : Curve F) (p q : Affine F) : Ext F := addMixed c (fromAffine p) q
def affineSub (c : Curve F) (p q : Affine F) : Ext F := subMixed c (fromAffine p) q
def affineEqProj (p : Affine F) (q : Ext F) : Bool := (fromAffine p).eq q

/-- `From<Projective> for Affine`; `.panic` = `z.inverse().unwrap()` on `z = 0` -/
def toAffine (p : Ext F) : Outcome (Affine F) :=
  if p.isZero then .ok Affine.zero
  else if p.z = 1 then .ok ⟨p.x, p.y⟩
  else match inverse? p.z with
    | none => .panic
    | some zinv => .ok ⟨p.x * zinv, p.y * zinv⟩

def normalizeWith (g : Ext F) (z : F) : Affine F :=
  if g.isZero then Affine.zero else ⟨g.x * z, g.y * z⟩

def zipNormalize : List (Ext F) → List F → List (Affine F)
  | g :: gs, z :: zs => normalizeWith g z :: zipNormalize gs zs
  | _, _ => []

/-- `CurveGroup::normalize_batch` -/
def normalizeBatch (v : List (Ext F)) : Outcome (List (Affine F)) :=
  match batchInversion (v.map (·.z)) with
  | none => .panic
  | some zs => .ok (zipNormalize v zs)

/-- `Sum<T: Borrow<Affine>> for Projective` -/
def sumAffine (c : Curve F) (l : List (Affine F)) : Ext F := l.foldl (addMixed c) Ext.zero
/-- `Sum<Self> for Projective` -/
def sumProj (c : Curve F) (l : List (Ext F)) : Ext F := l.foldl (add c) Ext.zero

/-! ### Specification: the Edwards addition law on affine points `(x, y)`; identity `(0, 1)` -/

/-- affine point denoted by an extended quadruple (`none`: `Z = 0`, not a point) -/
def toAff (p : Ext F) : Option (F × F) :=
  if p.z = 0 then none else some (p.x * p.z⁻¹, p.y * p.z⁻¹)

/-- representation invariant of extended coordinates: `Z ≠ 0`, `T Z = X Y` -/
def wellFormed (p : Ext F) : Bool := !decide (p.z = 0) && decide (p.t * p.z = p.x * p.y)

def ofAffine (p : Affine F) : F × F := (p.x, p.y)

/-- curve equation `a x² + y² = 1 + d x² y²` -/
def onCurve (a d : F) (p : F × F) : Bool :=
  decide (a * p.1 * p.1 + p.2 * p.2 = 1 + d * p.1 * p.1 * p.2 * p.2)

def affNeg (p : F × F) : F × F := (- p.1, p.2)

/-- Edwards addition law -/
def affAdd (a d : F) (p q : F × F) : F × F :=
  let k := d * p.1 * q.1 * p.2 * q.2
  ((p.1 * q.2 + p.2 * q.1) * (1 + k)⁻¹, (p.2 * q.2 - a * p.1 * q.1) * (1 - k)⁻¹)

/-- the law is defined on the pair (both denominators non-zero) -/
def affAddDefined (d : F) (p q : F × F) : Bool :=
  let k := d * p.1 * q.1 * p.2 * q.2
  !decide (1 + k = 0) && !decide (1 - k = 0)

def affSum (a d : F) (l : List (F × F)) : F × F := l.foldl (affAdd a d) (0, 1)

end TE
end Ark.Curve
