import Ark.Model.Fp
/-
  Ark.Model.TeGroup — the textbook affine group law of a twisted-Edwards curve
  a·x² + y² = 1 + d·x²·y² over `Fp p`, as an executable *specification-level* group
  (the twisted-Edwards companion of `Ark.Model.AffGroup`).

      (x1,y1) + (x2,y2) = ( (x1·y2 + y1·x2) / (1 + d·x1·x2·y1·y2) ,
                            (y1·y2 − a·x1·x2) / (1 − d·x1·x2·y1·y2) )        identity (0,1),  −(x,y) = (−x,y)

  The law is complete (both denominators non-zero on all pairs of curve points) when `a` is a square and
  `d` a non-square in `F_p` (Bernstein–Birkner–Joye–Lange–Peters 2008, Thm. 3.3); every curve the driver
  runs it on has this shape (the harness asserts it).  With `0⁻¹ = 0` (`Fp`) the functions are total anyway.

  Algorithms generic in the group (MSM, …) are modelled over core operator classes and executed here; the
  extended-coordinate formulas of the Rust code are a separate model (property C03).
-/
namespace Ark

/-- affine point of the twisted-Edwards curve with coefficients `a`, `d` (given by representatives) over `F_p` -/
structure TePt (p a d : Nat) where
  x : Fp p
  y : Fp p
  deriving DecidableEq

namespace TePt
variable {p a d : Nat}

def teAdd (P Q : TePt p a d) : TePt p a d :=
  let t := Fp.ofNat p d * P.x * Q.x * P.y * Q.y
  ⟨(P.x * Q.y + P.y * Q.x) / (1 + t), (P.y * Q.y - Fp.ofNat p a * P.x * Q.x) / (1 - t)⟩

def teNeg (P : TePt p a d) : TePt p a d := ⟨-P.x, P.y⟩

instance : Zero (TePt p a d) := ⟨⟨0, 1⟩⟩
instance : Add (TePt p a d) := ⟨teAdd⟩
instance : Neg (TePt p a d) := ⟨teNeg⟩
instance : Sub (TePt p a d) := ⟨fun P Q => teAdd P (teNeg Q)⟩
instance : Inhabited (TePt p a d) := ⟨0⟩

def onCurve (P : TePt p a d) : Bool :=
  Fp.ofNat p a * (P.x * P.x) + P.y * P.y == 1 + Fp.ofNat p d * (P.x * P.x) * (P.y * P.y)

/-- reference scalar multiplication (double-and-add on `Nat`, fuel = bit length) -/
def smulAux : Nat → Nat → TePt p a d → TePt p a d → TePt p a d
  | 0, _, _, acc => acc
  | fuel + 1, k, base, acc =>
    if k = 0 then acc
    else smulAux fuel (k / 2) (teAdd base base) (if k % 2 = 1 then teAdd acc base else acc)

def smul (k : Nat) (P : TePt p a d) : TePt p a d := smulAux (k.log2 + 2) k P 0

def smulInt (k : Int) (P : TePt p a d) : TePt p a d :=
  if k < 0 then teNeg (smul k.natAbs P) else smul k.toNat P

end TePt
end Ark
