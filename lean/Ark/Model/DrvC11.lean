import Ark.Model.Sqrt
import Ark.Model.Proto
/-
  Driver dispatch for C11 (square roots, Legendre symbols, coordinate recovery).

  Field header (cached by id):  `cfg <id> <kind> <N> <p> <constants…> => <SQRT_PRECOMP of the field>`
    fp   : <TWO_ADIC_ROOT_OF_UNITY>     (`fpx`: the same, for a config that overrides `SQRT_PRECOMP`)
    fp2  : <pre1> <hooks2> <nr> <frobC1>
    fp3  : <pre1> <nr> <frobC1> <frobC2> <TWO_ADICITY> <QUADRATIC_NONRESIDUE_TO_T> <TRACE_MINUS_ONE_DIV_TWO>
    fp4  : <pre1> <hooks2> <nr2> <frob2> <nr4> <frob4>
    fp6a : <pre1> (fp3 fields) <nr6> <frob6>                                   (Fp6 = 2 over 3)
    fp12 : <pre1> <hooks2> <nr2> <frob2> <hooks6> <nr6> <frob6C1> <frob6C2> <nr12> <frob12>   (2 over 3 over 2)
  `N` = limbs of the base prime field, `pre1` = `SQRT_PRECOMP` of the base prime field, a precomputation is
  printed as `ts:<two_adicity>:<qnr_to_trace>:<trace_minus_one_div_two>`, `c3m4:<(p+1)/4>` or `none`.
  Elements are comma-separated base-prime-field coordinates (standard integer values).
  Curve header:  `ccfg <cid> <sw|te> <field id> <a> <b|d> => ok`.
  Ops: `sqrt|legendre|sqrtip <id> <x>`, `ysfromx <cid> <x>`, `ptfromx <cid> <greatest> <x>`,
       `xsfromy <cid> <y>`, `ptfromy <cid> <greatest> <y>`.

  Verdicts (independent of the algorithms): schoolbook arithmetic in `F_p[X]/(X^k - β)` layer by layer;
  "is a square" is decided by brute force (table of all squares) when the field has ≤ 7·10^4 elements and
  by Euler's criterion `x^((q-1)/2)` (plain square-and-multiply) otherwise; on the small fields the two are
  cross-checked.  A reported root is accepted iff it squares to the input (either root is fine).
-/
namespace Ark.DrvC11
open Ark Ark.Proto Ark.Ext Ark.Sqrt

/-! ## the executable spec (tower arithmetic on flattened coordinates; same construction as in DrvC02) -/

inductive Shape where
  | prime : Shape
  | ext (k : Nat) (beta : List Nat) (base : Shape) : Shape

def Shape.deg : Shape → Nat
  | .prime => 1
  | .ext k _ b => k * b.deg

def vadd (p : Nat) (a b : List Nat) : List Nat := List.zipWith (fun x y => (x + y) % p) a b
def vneg (p : Nat) (a : List Nat) : List Nat := a.map (fun x => (p - x % p) % p)
def vsub (p : Nat) (a b : List Nat) : List Nat := vadd p a (vneg p b)

def chunk (d : Nat) : Nat → List Nat → List (List Nat)
  | 0, _ => []
  | k + 1, l => l.take d :: chunk d k (l.drop d)

/-- schoolbook product: coefficient `i` is `Σ_{j+l=i} a_j b_l + β · Σ_{j+l=i+k} a_j b_l` -/
def smul (p : Nat) : Shape → List Nat → List Nat → List Nat
  | .prime, a, b => [(a.headD 0 * b.headD 0) % p]
  | .ext k β s, a, b =>
    let d := s.deg
    let as := (chunk d k a).toArray
    let bs := (chunk d k b).toArray
    let z := List.replicate d 0
    let coef (i : Nat) : List Nat :=
      (List.range k).foldl (fun acc j =>
        if j ≤ i ∧ i - j < k then vadd p acc (smul p s (as.getD j z) (bs.getD (i - j) z)) else acc) z
    (List.range k).flatMap (fun i => vadd p (coef i) (smul p s β (coef (i + k))))

def unitVec (p n i : Nat) : List Nat := (List.range n).map (fun j => if j = i then 1 % p else 0)

def spowAux (p : Nat) (sh : Shape) : Nat → List Nat → Nat → List Nat → List Nat
  | 0, _, _, acc => acc
  | fuel + 1, b, e, acc =>
    if e = 0 then acc
    else spowAux p sh fuel (smul p sh b b) (e / 2) (if e % 2 = 1 then smul p sh acc b else acc)

/-- `a^e` by square-and-multiply (least significant bit first) over the schoolbook product -/
def spow (p : Nat) (sh : Shape) (a : List Nat) (e : Nat) : List Nat :=
  spowAux p sh (e.log2 + 2) a e (unitVec p sh.deg 0)

/-- integer code of an element of a small field -/
def code (p : Nat) (l : List Nat) : Nat := l.foldr (fun c acc => c + p * acc) 0

def digits (p : Nat) : Nat → Nat → List Nat
  | 0, _ => []
  | n + 1, t => t % p :: digits p n (t / p)

/-- table of all squares of a small field -/
def squaresTable (p : Nat) (sh : Shape) (q : Nat) : Array Bool :=
  let n := sh.deg
  (List.range q).foldl (fun t i => let e := digits p n i; t.set! (code p (smul p sh e e)) true) (Array.replicate q false)

/-- the documented order of the coordinate helpers: integers for a prime field; for an extension the
    coordinates are compared from the highest one down -/
def cmpSpec : List Nat → List Nat → Ordering
  | a, b => go a.reverse b.reverse
where
  go : List Nat → List Nat → Ordering
    | x :: xs, y :: ys => if x < y then .lt else if x > y then .gt else go xs ys
    | _, _ => .eq

/-! ## configured fields -/

structure Inst where
  p : Nat
  shape : Shape
  q : Nat
  small : Bool
  /-- a tower one of whose base layers has `SQRT_PRECOMP = None` (Fp12 over Fp6 = 3 over 2): the field has no
      square-root algorithm, every `sqrt` ends in `unimplemented!()`; outside the quantifier of the property -/
  noAlg : Bool := false
  squares : Thunk (Array Bool)
  model : String → List String → Option String

structure CurveCfg where
  kind : String
  fid : String
  a : String
  b : String

structure Cache where
  insts : List (String × Inst) := []
  curves : List (String × CurveCfg) := []
  /-- Euler's criterion of the last target (consecutive ops on the same input share it) -/
  lastKey : String := ""
  lastEuler : Option Int := none

def vs (impl spec : String) : String := if impl == spec then "ok" else "bad:want=" ++ spec

def Inst.n (I : Inst) : Nat := I.shape.deg
def Inst.one (I : Inst) : List Nat := unitVec I.p I.n 0
def Inst.zero (I : Inst) : List Nat := List.replicate I.n 0
def Inst.mul (I : Inst) : List Nat → List Nat → List Nat := smul I.p I.shape

/-- Euler's criterion: `some 0 / 1 / -1`, `none` if `x^((q-1)/2)` is none of `0, 1, -1` -/
def euler (I : Inst) (x : List Nat) : Option Int :=
  if x.all (· == 0) then some 0
  else
    let r := spow I.p I.shape x ((I.q - 1) / 2)
    if r == I.one then some 1 else if r == vneg I.p I.one then some (-1) else none

/-- is `x` a square?  brute force on small fields (cross-checked with Euler), Euler otherwise;
    `none` = the two specs disagree (a bug of the check itself) -/
def isSquare (I : Inst) (e : Option Int) (x : List Nat) : Option Bool :=
  if I.small then
    let b := I.squares.get.getD (code I.p x) false
    match e with
    | some v => if (v != -1) == b then some b else none
    | none => none
  else e.map (· != -1)

def parseEl (I : Inst) (s : String) : Option (List Nat) := do
  let l ← parseList? s
  if l.length == I.n && l.all (· < I.p) then some l else none

/-- verdict for a reported square root of `x` -/
def sqrtVerdict (I : Inst) (eu : Option Int) (x : List Nat) (impl : String) : String :=
  match isSquare I eu x with
  | none => "bad:spec-inconsistent"
  | some sq =>
    if impl == "panic" then "bad:panic"
    else if impl == "none" then (if sq then "bad:is-a-square" else "ok")
    else match parseEl I impl with
      | none => "bad:" ++ impl
      | some y =>
        if I.mul y y != x then "bad:root-does-not-square-to-input"
        else if !sq then "bad:spec-inconsistent"
        else "ok"

/-- both solutions `(s1, s2)` of `X² = rhs` in the documented order -/
def pairVerdict (I : Inst) (rhs : List Nat) (s1 s2 : List Nat) : String :=
  if I.mul s1 s1 != rhs then "bad:first-not-a-solution"
  else if s2 != vneg I.p s1 then "bad:second-not-the-negative"
  else if cmpSpec s1 s2 == .gt then "bad:order"
  else "ok"

/-- the element whose quadratic character decides the verdict of an op: the argument itself, the
    right-hand side `x³ + a·x + b`, or `(1 − y²)·(a − d·y²)` -/
def target (I : Inst) (op : String) (args : List String) : Option (List Nat) := do
  let p := I.p
  match op, args with
  | "sqrt", [x] => parseEl I x
  | "legendre", [x] => parseEl I x
  | "sqrtip", [x] => parseEl I x
  | "ysfromx", [a, b, x] =>
    let a ← parseEl I a; let b ← parseEl I b; let x ← parseEl I x
    some (vadd p (vadd p (I.mul (I.mul x x) x) (I.mul a x)) b)
  | "ptfromx", [a, b, _, x] =>
    let a ← parseEl I a; let b ← parseEl I b; let x ← parseEl I x
    some (vadd p (vadd p (I.mul (I.mul x x) x) (I.mul a x)) b)
  | "xsfromy", [a, d, y] =>
    let a ← parseEl I a; let d ← parseEl I d; let y ← parseEl I y
    let y2 := I.mul y y
    some (I.mul (vsub p I.one y2) (vsub p a (I.mul d y2)))
  | "ptfromy", [a, d, _, y] =>
    let a ← parseEl I a; let d ← parseEl I d; let y ← parseEl I y
    let y2 := I.mul y y
    some (I.mul (vsub p I.one y2) (vsub p a (I.mul d y2)))
  | _, _ => none

/-- `eu` = Euler's criterion of `target I op args` -/
def fieldVerdict (I : Inst) (eu : Option Int) (op : String) (args : List String) (impl : String) : Option String := do
  let p := I.p
  match op, args with
  | "sqrt", [x] => let x ← parseEl I x; some (sqrtVerdict I eu x impl)
  | "legendre", [x] =>
    let x ← parseEl I x
    match eu, isSquare I eu x with
    | some v, some _ => some (vs impl (hexInt v))
    | _, _ => some "bad:spec-inconsistent"
  | "sqrtip", [x] =>
    let x ← parseEl I x
    match isSquare I eu x with
    | none => some "bad:spec-inconsistent"
    | some sq =>
      if impl == "panic" then some "bad:panic" else
      match impl.splitOn " " with
      | [y, flag] =>
        match parseEl I y with
        | none => some ("bad:" ++ impl)
        | some y =>
          if sq then some (if flag == "some" && I.mul y y == x then "ok" else "bad:want-root-in-place")
          else some (if flag == "none" && y == x then "ok" else "bad:want-unchanged-none")
      | _ => some ("bad:" ++ impl)
  -- short Weierstrass: y² = x³ + a·x + b
  | "ysfromx", [a, b, x] =>
    let a ← parseEl I a; let b ← parseEl I b; let x ← parseEl I x
    let rhs := vadd p (vadd p (I.mul (I.mul x x) x) (I.mul a x)) b
    match isSquare I eu rhs with
    | none => some "bad:spec-inconsistent"
    | some sq =>
      if impl == "panic" then some "bad:panic"
      else if impl == "none" then some (if sq then "bad:solutions-exist" else "ok")
      else match impl.splitOn " " with
        | [y1, y2] =>
          match parseEl I y1, parseEl I y2 with
          | some y1, some y2 => some (pairVerdict I rhs y1 y2)
          | _, _ => some ("bad:" ++ impl)
        | _ => some ("bad:" ++ impl)
  | "ptfromx", [a, b, g, x] =>
    let a ← parseEl I a; let b ← parseEl I b; let x ← parseEl I x
    let rhs := vadd p (vadd p (I.mul (I.mul x x) x) (I.mul a x)) b
    match isSquare I eu rhs with
    | none => some "bad:spec-inconsistent"
    | some sq =>
      if impl == "panic" then some "bad:panic"
      else if impl == "none" then some (if sq then "bad:solutions-exist" else "ok")
      else match impl.splitOn " " with
        | [px, py] =>
          match parseEl I px, parseEl I py with
          | some px, some py =>
            let ny := vneg p py
            if px != x then some "bad:x-changed"
            else if I.mul py py != rhs then some "bad:not-on-curve"
            else if g == "1" then some (if cmpSpec py ny == .lt then "bad:not-the-greatest" else "ok")
            else some (if cmpSpec py ny == .gt then "bad:not-the-smallest" else "ok")
          | _, _ => some ("bad:" ++ impl)
        | _ => some ("bad:" ++ impl)
  -- twisted Edwards: a·x² + y² = 1 + d·x²·y²  ⇔  x²·(a − d·y²) = 1 − y²
  | "xsfromy", [a, d, y] =>
    let a ← parseEl I a; let d ← parseEl I d; let y ← parseEl I y
    let y2 := I.mul y y
    let num := vsub p I.one y2
    let den := vsub p a (I.mul d y2)
    let denZero := den.all (· == 0)
    let numZero := num.all (· == 0)
    match isSquare I eu (I.mul num den) with
    | none => some "bad:spec-inconsistent"
    | some sq =>
      if denZero && numZero then some "bad:degenerate-curve"
      else
        let solvable := !denZero && sq
        if impl == "panic" then some "bad:panic"
        else if impl == "none" then some (if solvable then "bad:solutions-exist" else "ok")
        else match impl.splitOn " " with
          | [x1, x2] =>
            match parseEl I x1, parseEl I x2 with
            | some x1, some x2 =>
              let onCurve (x : List Nat) : Bool :=
                let x2 := I.mul x x
                vadd p (I.mul a x2) y2 == vadd p I.one (I.mul d (I.mul x2 y2))
              if !onCurve x1 then some "bad:first-not-a-solution"
              else if x2 != vneg p x1 then some "bad:second-not-the-negative"
              else if cmpSpec x1 x2 == .gt then some "bad:order"
              else if !solvable then some "bad:spec-inconsistent"
              else some "ok"
            | _, _ => some ("bad:" ++ impl)
          | _ => some ("bad:" ++ impl)
  | "ptfromy", [a, d, g, y] =>
    let a ← parseEl I a; let d ← parseEl I d; let y ← parseEl I y
    let y2 := I.mul y y
    let num := vsub p I.one y2
    let den := vsub p a (I.mul d y2)
    let denZero := den.all (· == 0)
    match isSquare I eu (I.mul num den) with
    | none => some "bad:spec-inconsistent"
    | some sq =>
      let solvable := !denZero && sq
      if impl == "panic" then some "bad:panic"
      else if impl == "none" then some (if solvable then "bad:solutions-exist" else "ok")
      else match impl.splitOn " " with
        | [px, py] =>
          match parseEl I px, parseEl I py with
          | some px, some py =>
            let x2 := I.mul px px
            let nx := vneg p px
            if py != y then some "bad:y-changed"
            else if vadd p (I.mul a x2) y2 != vadd p I.one (I.mul d (I.mul x2 y2)) then some "bad:not-on-curve"
            else if g == "1" then some (if cmpSpec px nx == .lt then "bad:not-the-greatest" else "ok")
            else some (if cmpSpec px nx == .gt then "bad:not-the-smallest" else "ok")
          | _, _ => some ("bad:" ++ impl)
        | _ => some ("bad:" ++ impl)
  | _, _ => none

/-! ## precomputation strings -/

/-- a parsed `SQRT_PRECOMP`: `none`, `c3m4 e`, `ts s z t` (`z` flattened) -/
inductive Pre where
  | none
  | c3m4 (e : Nat)
  | ts (s : Nat) (z : List Nat) (t : Nat)

def parsePre (s : String) : Option Pre :=
  match s.splitOn ":" with
  | ["none"] => some .none
  | ["c3m4", e] => (parseHex? e).map .c3m4
  | ["ts", s, z, t] => do
    let s ← parseHex? s; let z ← parseList? z; let t ← parseHex? t
    some (.ts s z t)
  | _ => Option.none

def Pre.str : Pre → String
  | .none => "none"
  | .c3m4 e => "c3m4:" ++ hex e
  | .ts s z t => "ts:" ++ hex s ++ ":" ++ hexList z ++ ":" ++ hex t

/-- are the constants what the algorithms need?  `c3m4`: `q ≡ 3 (4)`, `e = (q+1)/4`;
    `ts`: `q − 1 = 2^s·(2t+1)`, `s ≥ 1`, `z` of order exactly `2^s` (`z^(2^(s−1)) = −1`) -/
def validPre (p : Nat) (sh : Shape) (q : Nat) : Pre → Bool
  | .none => false
  | .c3m4 e => q % 4 == 3 && e == (q + 1) / 4
  | .ts s z t =>
    s ≥ 1 && q - 1 == 2 ^ s * (2 * t + 1) && z.length == sh.deg && z.all (· < p) &&
      spow p sh z (2 ^ (s - 1)) == vneg p (unitVec p sh.deg 0)

/-! ## the model side -/

section model
variable {p : Nat}

def fps (l : List Nat) : List (Fp p) := l.map (Fp.ofNat p)

def showE {E : Type} (D : FieldD (Fp p) E) (e : E) : String := hexList ((D.toPrimes e).map (·.val))
def parseE {E : Type} (D : FieldD (Fp p) E) (s : String) : Option E := do
  let l ← parseList? s
  D.fromPrimes (fps l)

def showRes {α : Type} (f : α → String) : Res α → String
  | .ok a => f a
  | .panic => "panic"
  | .diverge => "diverge"

def showOpt {α : Type} (f : α → String) : Option α → String
  | some a => f a
  | none => "none"

def toPrecomp {E : Type} (D : FieldD (Fp p) E) : Pre → Option (Option (Precomp E))
  | .none => some Option.none
  | .c3m4 e => some (some (.case3Mod4 e))
  | .ts s z t => (D.fromPrimes (fps z)).map fun z => some (.tonelliShanks s z t)

def precompStr {E : Type} (D : FieldD (Fp p) E) : Option (Precomp E) → String
  | Option.none => "none"
  | some (.case3Mod4 e) => "c3m4:" ++ hex e
  | some (.tonelliShanks s z t) => "ts:" ++ hex s ++ ":" ++ showE D z ++ ":" ++ hex t

/-- the ops of one field: `sqrt`, `legendre`, `sqrt_in_place` and the coordinate helpers of curves over it -/
def genModel {E : Type} [Add E] [Sub E] [Mul E] [Neg E] [Zero E] [One E] [DecidableEq E]
    (D : FieldD (Fp p) E) (S : SqrtD E) (op : String) (args : List String) : Option String :=
  let pe := parseE D
  let sh := showE D
  let pair : E × E → String := fun (a, b) => sh a ++ " " ++ sh b
  match op, args with
  | "sqrt", [x] => do let x ← pe x; some (showRes (showOpt sh) (S.sqrt x))
  | "legendre", [x] => do let x ← pe x; some (showRes (fun l => hexInt l.toInt) (S.legendre x))
  | "sqrtip", [x] => do
    let x ← pe x
    some (showRes (fun (r : E × Option E) => sh r.1 ++ " " ++ (if r.2.isSome then "some" else "none")) (sqrtInPlace S.sqrt x))
  | "ysfromx", [a, b, x] => do
    let a ← pe a; let b ← pe b; let x ← pe x
    some (showRes (showOpt pair) (getYsFromX D S a b x))
  | "ptfromx", [a, b, g, x] => do
    let a ← pe a; let b ← pe b; let x ← pe x
    some (showRes (showOpt pair) (getPointFromX D S a b x (g == "1")))
  | "xsfromy", [a, d, y] => do
    let a ← pe a; let d ← pe d; let y ← pe y
    some (showRes (showOpt pair) (getXsFromY D S a d y))
  | "ptfromy", [a, d, g, y] => do
    let a ← pe a; let d ← pe d; let y ← pe y
    some (showRes (showOpt pair) (getPointFromY D S a d y (g == "1")))
  | _, _ => none

def mkFp2Cfg (hooks : String) (nr : Fp p) (tbl : List (Fp p)) : Fp2Cfg (Fp p) :=
  if hooks == "neg" then Fp2Cfg.negOne nr tbl else Fp2Cfg.default nr tbl

/-- the override of `test-curves/src/bls12_381/fq6.rs`: `(c0, c1) ↦ (c0 - c1, c1 + c0)` -/
def mkFp6bCfg [Mul (Quad (Fp p))] (hooks : String) (nr : Quad (Fp p)) (c1 c2 : List (Quad (Fp p))) :
    Fp6bCfg (Quad (Fp p)) :=
  if hooks == "bls" then
    { nonresidue := nr, frobC1 := c1, frobC2 := c2,
      mulNr := fun fe => ⟨fe.c0 - fe.c1, fe.c1 + fe.c0⟩ }
  else Fp6bCfg.default nr c1 c2

def parseEsL {E : Type} (D : FieldD (Fp p) E) (l : List Nat) : Option (List E) :=
  let d := D.extDeg
  if d = 0 ∨ l.length % d != 0 then none
  else mapM? (fun c => D.fromPrimes (fps c)) (chunk d (l.length / d) l)

end model

/-- the release build of the harness has no debug assertions -/
def dbg : Bool := false

def mkInst (p : Nat) (sh : Shape) (m : String → List String → Option String) : Inst :=
  let q := p ^ sh.deg
  { p := p, shape := sh, q := q, small := q ≤ 70000,
    squares := Thunk.mk (fun _ => squaresTable p sh q), model := m }

/-- a configured field: the instance, the model's string for its `SQRT_PRECOMP`, and the verdict on
    the implementation's constants -/
structure Built where
  inst : Inst
  modelPre : String
  verdict : String

def preVerdict (p : Nat) (sh : Shape) (impl : String) (wantNone : Bool) : String :=
  match parsePre impl with
  | Option.none => "bad:" ++ impl
  | some pre =>
    if wantNone then (match pre with | .none => "ok" | _ => "bad:want=none")
    else if validPre p sh (p ^ sh.deg) pre then "ok" else "bad:invalid-sqrt-constants"

def buildFp (explicit : Bool) (n p : Nat) (root : Nat) (impl : String) : Option Built := do
  let D := fpD p
  let mpre : Option (Precomp (Fp p)) := sqrtPrecomputation n p (Fp.ofNat p root)
  -- `fpx`: the config overrides `SQRT_PRECOMP`; the model takes the constants as given
  let ms ← if explicit then (parsePre impl).map Pre.str else some (precompStr D mpre)
  -- the model runs with the constants the implementation reports
  let pre ← (parsePre impl).bind (toPrecomp D)
  let S := fpSqrtD dbg p pre
  some { inst := mkInst p .prime (genModel D S), modelPre := ms, verdict := preVerdict p .prime impl false }

def buildFp2 (n p : Nat) (pre1 : Pre) (hooks : String) (nr : Nat) (tbl : List Nat) (impl : String) : Option Built := do
  let B0 := fpD p
  let S0 := fpSqrtD dbg p (← toPrecomp B0 pre1)
  let q2 := (mkFp2Cfg hooks (Fp.ofNat p nr) (fps tbl)).wrap
  let _m2 : Mul (Quad (Fp p)) := ⟨Quad.mul q2 B0⟩
  let D2 := Quad.fieldD q2 B0
  let S2 := quadSqrtD dbg q2 B0 S0 (fpPrimeD p n)
  let sh : Shape := .ext 2 [nr] .prime
  some { inst := mkInst p sh (genModel D2 S2), modelPre := "none", verdict := preVerdict p sh impl true }

def buildFp3 (p : Nat) (pre1 : Pre) (nr : Nat) (c1 c2 : List Nat) (s : Nat) (z : List Nat) (t : Nat) (impl : String) :
    Option Built := do
  let B0 := fpD p
  let S0 := fpSqrtD dbg p (← toPrecomp B0 pre1)
  let q3 := (Fp3Cfg.default (Fp.ofNat p nr) (fps (p := p) c1) (fps c2)).wrap
  let _m3 : Mul (Cubic (Fp p)) := ⟨Cubic.mul q3⟩
  let D3 := Cubic.fieldD q3 B0
  let ze ← D3.fromPrimes (fps z)
  let mpre : Option (Precomp (Cubic (Fp p))) := fp3Precomp s ze t
  let pre ← (parsePre impl).bind (toPrecomp D3)
  let S3 := cubicSqrtD dbg q3 B0 S0 pre
  let sh : Shape := .ext 3 [nr] .prime
  some { inst := mkInst p sh (genModel D3 S3), modelPre := precompStr D3 mpre, verdict := preVerdict p sh impl false }

def buildFp4 (n p : Nat) (pre1 : Pre) (hooks : String) (nr2 : Nat) (tbl2 : List Nat) (nr4 : List Nat) (tbl4 : List Nat)
    (impl : String) : Option Built := do
  let B0 := fpD p
  let S0 := fpSqrtD dbg p (← toPrecomp B0 pre1)
  let PD := fpPrimeD p n
  let c2 := mkFp2Cfg hooks (Fp.ofNat p nr2) (fps tbl2)
  let q2 := c2.wrap
  let _m2 : Mul (Quad (Fp p)) := ⟨Quad.mul q2 B0⟩
  let D2 := Quad.fieldD q2 B0
  let S2 := quadSqrtD dbg q2 B0 S0 PD
  let nr4e ← D2.fromPrimes (fps nr4)
  let q4 := Fp4.cfg c2 nr4e (fps tbl4)
  let _m4 : Mul (Quad (Quad (Fp p))) := ⟨Quad.mul q4 D2⟩
  let D4 := Quad.fieldD q4 D2
  let S4 := quadSqrtD dbg q4 D2 S2 PD
  let sh : Shape := .ext 2 nr4 (.ext 2 [nr2] .prime)
  some { inst := mkInst p sh (genModel D4 S4), modelPre := "none", verdict := preVerdict p sh impl true }

def buildFp6a (n p : Nat) (pre1 : Pre) (nr3 : Nat) (c1 c2 : List Nat) (pre3 : Pre) (nr6 : List Nat) (tbl6 : List Nat)
    (impl : String) : Option Built := do
  let B0 := fpD p
  let S0 := fpSqrtD dbg p (← toPrecomp B0 pre1)
  let PD := fpPrimeD p n
  let c3 := Fp3Cfg.default (Fp.ofNat p nr3) (fps (p := p) c1) (fps c2)
  let q3 := c3.wrap
  let _m3 : Mul (Cubic (Fp p)) := ⟨Cubic.mul q3⟩
  let D3 := Cubic.fieldD q3 B0
  let S3 := cubicSqrtD dbg q3 B0 S0 (← toPrecomp D3 pre3)
  let nr6e ← D3.fromPrimes (fps nr6)
  let q6 := Fp6a.cfg c3 nr6e (fps tbl6)
  let _m6 : Mul (Quad (Cubic (Fp p))) := ⟨Quad.mul q6 D3⟩
  let D6 := Quad.fieldD q6 D3
  let S6 := quadSqrtD dbg q6 D3 S3 PD
  let sh : Shape := .ext 2 nr6 (.ext 3 [nr3] .prime)
  some { inst := mkInst p sh (genModel D6 S6), modelPre := "none", verdict := preVerdict p sh impl true }

/-- Fp12 = 2 over (3 over 2): `Fp6Config::SQRT_PRECOMP = None`, so every `Fp6::sqrt` is `unimplemented!()` -/
def buildFp12 (n p : Nat) (pre1 : Pre) (hooks2 : String) (nr2 : Nat) (tbl2 : List Nat) (hooks6 : String) (nr6 : List Nat)
    (c1 c2 : List Nat) (nr12 : List Nat) (tbl12 : List Nat) (impl : String) : Option Built := do
  let B0 := fpD p
  let S0 := fpSqrtD dbg p (← toPrecomp B0 pre1)
  let PD := fpPrimeD p n
  let cf2 := mkFp2Cfg hooks2 (Fp.ofNat p nr2) (fps tbl2)
  let q2 := cf2.wrap
  let _m2 : Mul (Quad (Fp p)) := ⟨Quad.mul q2 B0⟩
  let D2 := Quad.fieldD q2 B0
  let S2 := quadSqrtD dbg q2 B0 S0 PD
  let nr6e ← D2.fromPrimes (fps nr6)
  let c1e ← parseEsL D2 c1
  let c2e ← parseEsL D2 c2
  let cf6 := mkFp6bCfg hooks6 nr6e c1e c2e
  let q6 := cf6.wrap
  let _m6 : Mul (Cubic (Quad (Fp p))) := ⟨Cubic.mul q6⟩
  let D6 := Cubic.fieldD q6 D2
  let S6 := cubicSqrtD dbg q6 D2 S2 Option.none
  let nr12e ← D6.fromPrimes (fps nr12)
  let t12 ← parseEsL D2 tbl12
  let q12 := Fp12.cfg cf6 nr12e t12
  let _m12 : Mul (Quad (Cubic (Quad (Fp p)))) := ⟨Quad.mul q12 D6⟩
  let D12 := Quad.fieldD q12 D6
  let S12 := quadSqrtD dbg q12 D6 S6 PD
  let sh : Shape := .ext 2 nr12 (.ext 3 nr6 (.ext 2 [nr2] .prime))
  some { inst := { mkInst p sh (genModel D12 S12) with noAlg := true }, modelPre := "none",
         verdict := preVerdict p sh impl true }

def build (kind : String) (n p : Nat) (rest : List String) (impl : String) : Option Built := do
  match kind, rest with
  | "fp", [root] => buildFp false n p (← parseHex? root) impl
  | "fpx", [root] => buildFp true n p (← parseHex? root) impl
  | "fp2", [pre1, h, nr, tbl] =>
    buildFp2 n p (← parsePre pre1) h (← parseHex? nr) (← parseList? tbl) impl
  | "fp3", [pre1, nr, c1, c2, s, z, t] =>
    buildFp3 p (← parsePre pre1) (← parseHex? nr) (← parseList? c1) (← parseList? c2)
      (← parseHex? s) (← parseList? z) (← parseHex? t) impl
  | "fp4", [pre1, h, nr2, t2, nr4, t4] =>
    buildFp4 n p (← parsePre pre1) h (← parseHex? nr2) (← parseList? t2) (← parseList? nr4) (← parseList? t4) impl
  | "fp6a", [pre1, nr3, c1, c2, s, z, t, nr6, t6] =>
    buildFp6a n p (← parsePre pre1) (← parseHex? nr3) (← parseList? c1) (← parseList? c2)
      (.ts (← parseHex? s) (← parseList? z) (← parseHex? t)) (← parseList? nr6) (← parseList? t6) impl
  | "fp12", [pre1, h2, nr2, t2, h6, nr6, c1, c2, nr12, t12] =>
    buildFp12 n p (← parsePre pre1) h2 (← parseHex? nr2) (← parseList? t2) h6 (← parseList? nr6)
      (← parseList? c1) (← parseList? c2) (← parseList? nr12) (← parseList? t12) impl
  | _, _ => none

def run (cache : Cache) (op : String) (args : List String) (impl : String) :
    Option (Cache × String × String) := do
  match op, args with
  | "cfg", id :: kind :: n :: p :: rest =>
    let n ← parseHex? n; let p ← parseHex? p
    let b ← build kind n p rest impl
    some ({ cache with insts := (id, b.inst) :: cache.insts.filter (fun e => e.1 != id) }, b.modelPre, b.verdict)
  | "ccfg", [cid, kind, fid, a, b] =>
    let I ← (cache.insts.find? (fun e => e.1 == fid)).map (·.2)
    let _ ← parseEl I a; let _ ← parseEl I b
    if kind != "sw" && kind != "te" then none else
    some ({ cache with curves := (cid, { kind := kind, fid := fid, a := a, b := b }) :: cache.curves.filter (fun e => e.1 != cid) },
      "ok", vs impl "ok")
  | _, id :: rest =>
    let curveOp := op == "ysfromx" || op == "ptfromx" || op == "xsfromy" || op == "ptfromy"
    let (fid, args') ←
      if curveOp then do
        let C ← (cache.curves.find? (fun e => e.1 == id)).map (·.2)
        if (C.kind == "sw") != (op == "ysfromx" || op == "ptfromx") then none
        else some (C.fid, C.a :: C.b :: rest)
      else some (id, rest)
    let I ← (cache.insts.find? (fun e => e.1 == fid)).map (·.2)
    let m ← I.model op args'
    if I.noAlg && (op == "sqrt" || op == "sqrtip") && m == "panic" && impl == "panic" then
      some (cache, m, "note:no-sqrt-algorithm-for-base")
    else
      let t ← target I op args'
      let key := id ++ " " ++ hexList t
      let eu := if cache.lastKey == key then cache.lastEuler else euler I t
      let v ← fieldVerdict I eu op args' impl
      some ({ cache with lastKey := key, lastEuler := eu }, m, v)
  | _, _ => none

end Ark.DrvC11
