import Ark.Model.DrvC09
import Ark.Model.DrvC12
import Ark.Model.Zcash
/-
  Driver dispatch for the SECOND correspondence stream of C09 / C10 (harness2/src/bin/c10x.rs): point
  (de)serialisation of every shipped curve configuration, including the ZCash format of `ark-bls12-381`.
  Numbers lower-case hex; byte strings contiguous hex (`_` = empty); field elements = comma separated
  base-prime-field coordinates; affine points `x:y`, SW identity `inf`, TE identity `0:1`; projective inputs
  `X:Y:Z` (SW) / `X:Y:T:Z` (TE).

  Header (cached by id; the first 13 fields and the `k=v` tokens are those of `C12 cfg`, see `DrvC12`):
    xcfg <id> <sw|te> <tower> <p> <a> <b|d> <N> <r> <cofactor limbs> <cofactor_inv> <test> <clear> <h_eff>
         fmt=<def|zc1|zc2> fn=<limbs of the base prime field> [k=v …]          => <size c>,<size u>
  Ops:
    xrt <id> <aff|proj> <cy|cn|uy|un> <P>     => <bytes> <serialized_size> <de> <consumed>   (de reads bytes ++ [a5,5a])
    xde <id> <aff|proj> <cy|cn|uy|un> <bytes> => <de> <consumed> <re-serialised bytes | ->
    <de> = `inf` | `x:y` | `err:<io|invalid|notenough|flags>`;  `panic` is the whole result.

  MODEL.  `fmt=def`: the generic model of `Ark.Model.Bytes` (`swSerialize`, `swDeserialize`, `teSerialize`, …)
  at the curve's coordinate field — `fpCodecV` / `fp2CodecV` (`Ark.Model.BytesSqrt`: `sqrt` through the C11
  model) and, for `Fp3` (MNT6 / CP6 `G2`), the extension templates with a generic Tonelli–Shanks root
  (`fq3Codec`; the sign rule makes the decoded point independent of which root is found).
  `fmt=zc1|zc2`: `Ark.Zcash` (model of `curves/bls12_381/src/curves/util.rs`).
  The subgroup test handed to the deserialiser is the C12 MODEL of the configuration's
  `is_in_correct_subgroup_assuming_on_curve` (trait default or the BLS12-381 / BN254 overrides), executed in the
  Rust coordinate system (`DrvC12.JacG`, `DrvC12.ExtG`) and memoised per point.

  VERDICT (on the implementation's output only; never calls the model's (de)serialisers):
    * never `panic`;  bytes consumed ≤ advertised size, = advertised size on success;  a short input is rejected;
    * an accepted point has reduced coordinates and is the point the bytes describe (independent description
      of the formats: `DrvC09.decConsistent*`, `zcDecConsistent`);
    * with `Validate::Yes` an accepted point satisfies the curve equation and `r·P = O` — computed in the
      specification-level affine groups of `DrvC12` (`AffPt`, `SWPt`, `TEPt`, Weierstrass model of incomplete
      Edwards curves), memoised per point;
    * `xrt`: `serialized_size` = format size = number of bytes written; the bytes are THE encoding of the point
      (`DrvC09.encStrict*`, `zcEncStrict`); reading back returns the point and consumes exactly the size;
    * an accepted string that does not re-serialise to itself is reported as `note:noncanonical-point-encoding`
      (C09 demands unique encodings for field elements only).

  Mathlib-free: linked into the `arkdrv` executable.
-/
namespace Ark.DrvC10x
open Ark Ark.Proto Ark.Bytes Ark.Subgroup Ark.ScalarMul

/-! ## byte strings -/

def parseHexBytes? (s : String) : Option (List Nat) :=
  if s == "_" then some []
  else
    let rec go : List Char → List Nat → Option (List Nat)
      | [], acc => some acc.reverse
      | a :: b :: cs, acc =>
        match hexDigit? a, hexDigit? b with
        | some x, some y => go cs ((16 * x + y) :: acc)
        | _, _ => none
      | _, _ => none
    go s.toList []

def hexBytes (bs : List Nat) : String :=
  if bs.isEmpty then "_" else String.ofList (bs.flatMap (fun b => [hexChar (b / 16 % 16), hexChar (b % 16)]))

def trail : List Nat := [0xa5, 0x5a]

def parseMode (s : String) : Option (Compress × Validate) :=
  match s with
  | "cy" => some (.yes, .yes) | "cn" => some (.yes, .no)
  | "uy" => some (.no, .yes) | "un" => some (.no, .no)
  | _ => none

/-! ## `Fp3` coordinate field (MNT6 / CP6 `G2`) -/

/-- `Ord for CubicExtField`: `c2`, then `c1`, then `c0` -/
def fq3Lt {p nr : Nat} (a b : Fq3 p nr) : Bool :=
  a.c2.val < b.c2.val || (a.c2.val == b.c2.val &&
    (a.c1.val < b.c1.val || (a.c1.val == b.c1.val && a.c0.val < b.c0.val)))

def fq3IsZero {p nr : Nat} (a : Fq3 p nr) : Bool := a.c0.val % p == 0 && a.c1.val % p == 0 && a.c2.val % p == 0

/-- Tonelli–Shanks data of a field with `q` elements: `q − 1 = 2^s · m` (`m` odd), `zm = z^m` for a non-square `z` -/
structure TsPre (G : Type) where
  s : Nat
  m : Nat
  zm : G

/-- SOME square root of `a` (`none` for a non-square): `w = a^((m−1)/2)`, `x = a·w`, `t = a·w² = a^m`;
    `a` is a square iff the order of `t` divides `2^(s−1)`; then the Tonelli–Shanks loop of `Ark.Model.Bytes`.
    The result is checked (`r·r = a`). -/
def tsSqrt {G : Type} [Mul G] [One G] [DecidableEq G] (pre : TsPre G) (isZero : G → Bool) (a : G) : Option G :=
  if isZero a then some a
  else
    let w := gpow a ((pre.m - 1) / 2)
    let x := a * w
    let t := x * w
    if gOrderExp pre.s t 0 ≥ pre.s then none
    else
      let r := gTsLoop (pre.s + 1) x t pre.zm pre.s
      if r * r = a then some r else none

/-- `Fp3`: a non-square of `Fp` stays a non-square (odd extension degree); found once per configuration -/
def fq3TsPre (p nr : Nat) : TsPre (Fq3 p nr) :=
  let q := p * p * p
  let (s, m) := twoAdic (q.log2 + 2) 0 (q - 1)
  let z := ((List.range 200).find? (fun z => z ≥ 2 && Spec.powMod z ((p - 1) / 2) p == p - 1)).getD 0
  { s := s, m := m, zm := gpow (⟨Fp.ofNat p z, 0, 0⟩ : Fq3 p nr) m }

/-- the `Codec` of `Fp3<P>` = `CubicExtField<Fp3ConfigWrapper<P>>`: (de)serialisation through the extension
    templates of `Ark.Model.Bytes`; `sqrt` = SOME root (generic Tonelli–Shanks `tsSqrt`) -/
def fq3Codec (c : FpCfg) (nr : Nat) : Codec (Fq3 c.p nr) :=
  let pre := fq3TsPre c.p nr
  { serFlags := fun Fl _ x fl => extSerFlags c Fl (.cubic (.base x.c0) (.base x.c1) (.base x.c2)) fl
    deFlags := fun Fl _ => do
      let (v, fl) ← extDeFlags c Fl (.cubic .base)
      match v with
      | .cubic (.base a) (.base b) (.base d) => pure (⟨a, b, d⟩, fl)
      | _ => panicM
    de := fun cm vd => do
      let v ← extDe c (.cubic .base) cm vd
      match v with
      | .cubic (.base a) (.base b) (.base d) => pure ⟨a, b, d⟩
      | _ => panicM
    sizeFlags := fun Fl _ => extSizeFlags c Fl (.cubic .base)
    sqrt := tsSqrt pre fq3IsZero
    lt := fq3Lt }

def kitFq3 (c : FpCfg) (nr : Nat) : DrvC09.Kit (Fq3 c.p nr) where
  c := c
  k := 3
  codec := fq3Codec c nr
  toCoeffs x := [x.c0.val, x.c1.val, x.c2.val]
  ofCoeffs cs := match cs with | [a, b, d] => some ⟨⟨a⟩, ⟨b⟩, ⟨d⟩⟩ | _ => none
  swKills _ _ _ _ _ := false
  fastSub _ _ := none

/-! ## the group side (string interface): specification group and model of the subgroup test, as in `DrvC12` -/

structure Grp where
  /-- SPEC: `r·P = O` in the specification-level affine group -/
  specKills : String → Option Bool
  /-- MODEL: `is_in_correct_subgroup_assuming_on_curve(P)` in the coordinate system of the Rust code -/
  modelInsub : String → Option (Outcome Bool)

def grpSwFp (hd : DrvC12.Head) : Option Grp := do
  let p := hd.p
  let a ← DrvC12.parseFp p hd.a; let b ← DrvC12.parseFp p hd.b
  let E : SWParams p := ⟨a, b⟩
  let c : Curve.SW.Curve (Fp p) := Curve.SW.Curve.std a b true
  let xy := DrvC12.jacXY c
  let cc := hd.cc
  let d : DrvC12.Model (DrvC12.JacG c) := DrvC12.swDefaults cc
  let g1 : Option (Bls12G1 (Fp p)) := do
    let x ← (DrvC12.lookup hd.kv "x").bind parseList?
    let xneg ← DrvC12.lookup hd.kv "xneg"
    let beta := ((DrvC12.lookup hd.kv "beta").bind parseHex?).getD 0
    let (glv, ge) := ((DrvC12.lookup hd.kv "glv").bind DrvC12.parseGlv).getD
      ({ nLimbs := 0, r := 0, lambda := 0, n11 := 0, n12 := 0, n21 := 0, n22 := 0 }, 0)
    some { x := x, xIsNegative := xneg == "1", beta := Fp.ofNat p beta, glv := glv, glvEndoCoeff := Fp.ofNat p ge }
  let insub ← match hd.test with
    | "def" => some d.insub
    | "bn254g1" => some bn254G1IsInCorrectSubgroup
    | "bls381g1" => do
      let k ← g1
      let _ ← DrvC12.lookup hd.kv "beta"; let _ ← DrvC12.lookup hd.kv "glv"
      some (bls12381G1IsInCorrectSubgroup xy k)
    | "tbls381g1" => some d.insub
    | _ => none
  some { specKills := fun s => (DrvC12.affParse p E s).map (fun P => (AffPt.smul cc.r P).pt.isNone)
         modelInsub := fun s => (DrvC12.jacParse c (DrvC12.parseFp p) s).map insub }

def grpTeFp (hd : DrvC12.Head) : Option Grp := do
  let p := hd.p
  let a ← DrvC12.parseFp p hd.a; let d ← DrvC12.parseFp p hd.b
  let c : Curve.TE.Curve (Fp p) := Curve.TE.Curve.std a d
  let cc := hd.cc
  let m : DrvC12.Model (DrvC12.ExtG c) := DrvC12.teDefaults cc
  if hd.test != "def" then none
  else if DrvC12.isSquare p a && !DrvC12.isSquare p d then
    let E : TEParams p := ⟨a, d⟩
    some { specKills := fun s => (DrvC12.teParse p E s).map (fun P => decide (TEPt.smul cc.r P = 0))
           modelInsub := fun s => (DrvC12.extParse c (DrvC12.parseFp p) s).map m.insub }
  else
    let tm := DrvC12.teMap p a d
    some { specKills := fun s => (DrvC12.teMapParse p tm s).map (fun P => (AffPt.smul cc.r P).pt.isNone)
           modelInsub := fun s => (DrvC12.extParse c (DrvC12.parseFp p) s).map m.insub }

def grpSwFq2 (nr : Nat) (hd : DrvC12.Head) : Option Grp := do
  let p := hd.p
  let a ← DrvC12.parseFq2 p nr hd.a; let b ← DrvC12.parseFq2 p nr hd.b
  let E : SWc (Fq2 p nr) := ⟨a, b⟩
  let c : Curve.SW.Curve (Fq2 p nr) := Curve.SW.Curve.std a b true
  let xy := DrvC12.jacXY c
  let cc := hd.cc
  let d : DrvC12.Model (DrvC12.JacG c) := DrvC12.swDefaults cc
  let insub ← match hd.test with
    | "def" => some d.insub
    | "bls381g2" => do let k ← DrvC12.parseG2Cfg hd.kv true; some (bls12381G2IsInCorrectSubgroup xy k k.x)
    | "tbls381g2" => do
      let k ← DrvC12.parseG2Cfg hd.kv true
      some (bls12381G2IsInCorrectSubgroup xy k [k.x.headD 0, 0, 0, 0])
    | "bn254g2" => do let k ← DrvC12.parseG2Cfg hd.kv false; some (bn254G2IsInCorrectSubgroup xy k)
    | _ => none
  some { specKills := fun s => (DrvC12.swParse E (DrvC12.parseFq2 p nr) s).map (fun P => (SWPt.smul cc.r P).pt.isNone)
         modelInsub := fun s => (DrvC12.jacParse c (DrvC12.parseFq2 p nr) s).map insub }

def grpSwFq3 (nr : Nat) (hd : DrvC12.Head) : Option Grp := do
  let p := hd.p
  let a ← DrvC12.parseFq3 p nr hd.a; let b ← DrvC12.parseFq3 p nr hd.b
  let E : SWc (Fq3 p nr) := ⟨a, b⟩
  let c : Curve.SW.Curve (Fq3 p nr) := Curve.SW.Curve.std a b false
  let cc := hd.cc
  let d : DrvC12.Model (DrvC12.JacG c) := DrvC12.swDefaults cc
  if hd.test != "def" then none
  else
    some { specKills := fun s => (DrvC12.swParse E (DrvC12.parseFq3 p nr) s).map (fun P => (SWPt.smul cc.r P).pt.isNone)
           modelInsub := fun s => (DrvC12.jacParse c (DrvC12.parseFq3 p nr) s).map d.insub }

/-! ## the byte side, generic in the coordinate field -/

/-- the modelled (de)serialisers of one configuration at the uniform affine record `SWAff F`
    (a twisted-Edwards point is `⟨x, y, false⟩`) -/
structure Fns (F : Type) where
  size : Compress → Nat
  ser : SWAff F → Compress → Res (List Nat)
  /-- parameterised by the subgroup test -/
  de : (SWAff F → Bool) → Compress → Validate → M (SWAff F)
  /-- `From<Projective> for Affine` on raw projective coordinates -/
  projToAff : List F → Option (Outcome (SWAff F))
  /-- `From<Affine> for Projective` followed by `into_affine` -/
  reproj : SWAff F → Outcome (SWAff F)

structure Memo where
  spec : List (String × Bool) := []
  model : List (String × Outcome Bool) := []

section generic
variable {F : Type} [Add F] [Sub F] [Mul F] [Neg F] [Zero F] [One F] [Inv F] [DecidableEq F]

/-- default arkworks format, short Weierstrass -/
def swFns (K : Codec F) (a b : F) : Fns F where
  size := swSerializedSize K
  ser := fun P cm => swSerialize K P cm
  de := fun insub cm vd => swDeserialize K ⟨a, b, insub⟩ cm vd
  projToAff := fun cs => match cs with
    | [x, y, z] => some (swToAffine ⟨x, y, z⟩)
    | _ => none
  reproj := fun P => swToAffine (swFromAffine P)

def teToSw (P : TEAff F) : SWAff F := ⟨P.x, P.y, false⟩

/-- default arkworks format, twisted Edwards -/
def teFns (K : Codec F) (a d : F) : Fns F where
  size := teSerializedSize K
  ser := fun P cm => teSerialize K ⟨P.x, P.y⟩ cm
  de := fun insub cm vd => do
    let Q ← teDeserialize K ⟨a, d, fun Q => insub (teToSw Q)⟩ cm vd
    pure (teToSw Q)
  projToAff := fun cs => match cs with
    | [x, y, t, z] => some (match teToAffine ⟨x, y, t, z⟩ with | .ok Q => .ok (teToSw Q) | .panic => .panic)
    | _ => none
  reproj := fun P => match teToAffine (teFromAffine ⟨P.x, P.y⟩) with | .ok Q => .ok (teToSw Q) | .panic => .panic

structure Env (F : Type) where
  te : Bool
  fmt : String
  K : DrvC09.Kit F
  C : DrvC09.Curve F
  fns : Fns F
  grp : Grp

/-! ### point syntax -/

def fS (E : Env F) (x : F) : String := hexList (E.K.toCoeffs x)

def ptStr (E : Env F) (P : SWAff F) : String :=
  if P.infinity then
    (if DrvC09.isZeroF E.K P.x && DrvC09.isZeroF E.K P.y then "inf" else "inf!" ++ fS E P.x ++ ":" ++ fS E P.y)
  else fS E P.x ++ ":" ++ fS E P.y

def parseCoords (E : Env F) (s : String) : Option (List F) := mapM? (DrvC09.parseF E.K) (s.splitOn ":")

def parsePt (E : Env F) (s : String) : Option (SWAff F) :=
  if s == "inf" then (if E.te then none else some ⟨0, 0, true⟩)
  else if s.startsWith "inf!" then
    match parseCoords E (s.drop 4).toString with
    | some [x, y] => some ⟨x, y, true⟩
    | _ => none
  else match parseCoords E s with
    | some [x, y] => some ⟨x, y, false⟩
    | _ => none

/-- spec: the affine point denoted (`none` = SW identity) -/
def canonOf (P : SWAff F) : Option (F × F) := if P.infinity then none else some (P.x, P.y)

def canonStr (E : Env F) (P : Option (F × F)) : String :=
  match P with
  | none => "inf"
  | some (x, y) => fS E x ++ ":" ++ fS E y

/-! ### independent description of the ZCash format -/

structure ZcDec where
  c : Bool
  i : Bool
  s : Bool
  /-- one integer per 48-byte chunk, the three flag bits removed from the first -/
  ints : List Nat

/-- the string as ONE big-endian integer of `384 n` bits: the three top bits are the flags, the rest
    splits into `n` chunks of 384 bits -/
def zcDecode (n : Nat) (bs : List Nat) : Option ZcDec :=
  if n = 0 || bs.length < 48 * n then none
  else
    let N := (bs.take (48 * n)).foldl (fun acc b => acc * 256 + b) 0
    let top := N / 2 ^ (384 * n - 3)
    let rest := N % 2 ^ (384 * n - 3)
    some { c := top / 4 % 2 == 1, i := top / 2 % 2 == 1, s := top % 2 == 1,
           ints := (List.range n).map (fun j => rest / 2 ^ (384 * (n - 1 - j)) % 2 ^ 384) }

/-- element `e` (0 = x, 1 = y): coefficient `j` sits in chunk `e·k + (k − 1 − j)` (most significant first) -/
def zcElem (K : DrvC09.Kit F) (d : ZcDec) (e : Nat) : Option F :=
  K.ofCoeffs ((List.range K.k).map (fun j => d.ints.getD (e * K.k + (K.k - 1 - j)) 0))

def zcChunks (K : DrvC09.Kit F) (cm : Compress) : Nat := K.k * (if cm = .yes then 1 else 2)

/-- `bs` is THE ZCash encoding of `P` -/
def zcEncStrict (K : DrvC09.Kit F) (cm : Compress) (bs : List Nat) (P : Option (F × F)) : Bool :=
  let n := zcChunks K cm
  bs.length == 48 * n &&
  match zcDecode n bs with
  | none => false
  | some d =>
    d.c == (cm == .yes) && d.ints.all (· < K.c.p) &&
    match P with
    | none => d.i && !d.s && d.ints.all (· == 0)
    | some (x, y) =>
      !d.i && zcElem K d 0 == some x &&
      (match cm with
       | .yes => d.s == !(DrvC09.signPosF K y)
       | .no => !d.s && zcElem K d 1 == some y)

/-- an ACCEPTED point is the one the bytes describe (strings with a non-reduced integer are outside the relation) -/
def zcDecConsistent (K : DrvC09.Kit F) (C : DrvC09.Curve F) (cm : Compress) (bs : List Nat) (Q : Option (F × F)) : Bool :=
  let n := zcChunks K cm
  match zcDecode n bs with
  | none => true
  | some d =>
    if !(d.ints.all (· < K.c.p)) then true
    else
      d.c == (cm == .yes) &&
      match Q with
      | none => d.i
      | some (x, y) =>
        !d.i && zcElem K d 0 == some x &&
        (match cm with
         | .yes => DrvC09.swOnCurve C Q && (DrvC09.isZeroF K y || d.s == !(DrvC09.signPosF K y))
         | .no => zcElem K d 1 == some y)

/-! ### spec helpers -/

def specSize (E : Env F) (cm : Compress) : Nat :=
  if E.fmt == "def" then DrvC09.specPointSize E.K E.C cm else 48 * zcChunks E.K cm

def specEncStrict (E : Env F) (cm : Compress) (bs : List Nat) (P : Option (F × F)) : Bool :=
  if E.fmt != "def" then zcEncStrict E.K cm bs P
  else if E.te then (match P with | some q => DrvC09.encStrictTE E.K cm bs q | none => false)
  else DrvC09.encStrictSW E.K cm bs P

def specDecConsistent (E : Env F) (cm : Compress) (bs : List Nat) (Q : Option (F × F)) : Bool :=
  if E.fmt != "def" then zcDecConsistent E.K E.C cm bs Q
  else if E.te then (match Q with | some q => DrvC09.decConsistentTE E.K E.C cm bs q | none => false)
  else DrvC09.decConsistentSW E.K E.C cm bs Q

/-- spec: (on the curve, killed by `r`), the second memoised per point -/
def specValid (E : Env F) (memo : Memo) (P : Option (F × F)) : Memo × Bool × Bool :=
  if !DrvC09.onCurveCanon E.C P then (memo, false, false)
  else
    match P with
    | none => (memo, true, true)
    | some _ =>
      let key := canonStr E P
      match memo.spec.find? (fun e => e.1 == key) with
      | some (_, b) => (memo, true, b)
      | none =>
        let b := (E.grp.specKills key).getD false
        ({ memo with spec := (key, b) :: memo.spec }, true, b)

/-! ### model helpers -/

/-- the memoised subgroup test handed to the deserialiser -/
def insubMemo (E : Env F) (memo : Memo) (P : SWAff F) : Bool :=
  let key := ptStr E P
  match memo.model.find? (fun e => e.1 == key) with
  | some (_, .ok b) => b
  | some (_, .panic) => false
  | none => match E.grp.modelInsub key with
    | some (.ok b) => b
    | _ => false

/-- would the deserialiser run the subgroup test on the decoded `P`? -/
def needInsub (E : Env F) (P : SWAff F) : Bool :=
  if E.fmt != "def" then true
  else if E.te then DrvC09.teOnCurve E.C (P.x, P.y)
  else !P.infinity && DrvC09.swOnCurve E.C (some (P.x, P.y))

/-- run the subgroup test of the point the string decodes to once, and remember it; `true`: it panics -/
def prepare (E : Env F) (memo : Memo) (cm : Compress) (vd : Validate) (bs : List Nat) : Memo × Bool :=
  if vd = .no then (memo, false)
  else
    match runM (E.fns.de (fun _ => true) cm .no) bs with
    | .ok P _ =>
      if !needInsub E P then (memo, false)
      else
        let key := ptStr E P
        match memo.model.find? (fun e => e.1 == key) with
        | some (_, .panic) => (memo, true)
        | some _ => (memo, false)
        | none =>
          match E.grp.modelInsub key with
          | some (.ok b) => ({ memo with model := (key, .ok b) :: memo.model }, false)
          | some .panic => ({ memo with model := (key, .panic) :: memo.model }, true)
          | none => (memo, false)
    | _ => (memo, false)

def errS (e : Err) : String := DrvC09.errStr e

def cmS (cm : Compress) : String := if cm = .yes then "c" else "u"

/-! ### `xde` -/

def modelXde (E : Env F) (memo : Memo) (proj : Bool) (cm : Compress) (vd : Validate) (bs : List Nat) : String :=
  let tg := " @" ++ E.fmt ++ ":" ++ cmS cm ++ ":"
  match runM (E.fns.de (insubMemo E memo) cm vd) bs with
  | .panic => "panic"
  | .err e s => errS e ++ " " ++ hex s.used ++ " -" ++ tg ++ errS e
  | .ok P s =>
    match (if proj then E.fns.reproj P else .ok P) with
    | .panic => "panic"
    | .ok Q =>
      match E.fns.ser Q cm with
      | .panic => "panic"
      | .err e => ptStr E Q ++ " " ++ hex s.used ++ " " ++ errS e ++ tg ++ "ser-err"
      | .ok b => ptStr E Q ++ " " ++ hex s.used ++ " " ++ hexBytes b ++ tg ++ (if Q.infinity then "inf" else "pt")

def judgeXde (E : Env F) (memo : Memo) (cm : Compress) (vd : Validate) (bs : List Nat) (impl : String) : Memo × String :=
  if impl == "panic" then (memo, "bad:panic") else
  match impl.splitOn " " with
  | [de, used, re] =>
    match parseHex? used with
    | none => (memo, "bad:parse")
    | some used =>
      let size := specSize E cm
      if used > size then (memo, "bad:read-past-size")
      else if de.startsWith "err:" then
        (memo, if re == "-" then "ok" else "bad:parse")
      else if bs.length < size then (memo, "bad:short-input-accepted")
      else
        match parsePt E de with
        | none => (memo, "bad:shape")
        | some Q =>
          if Q.infinity && de != "inf" then (memo, "bad:noncanonical-identity")
          else if used != size then (memo, "bad:consumed")
          else
            let canon := canonOf Q
            if !DrvC09.reducedCanon E.K canon then (memo, "bad:range")
            else if !specDecConsistent E cm bs canon then (memo, "bad:not-the-encoded-point")
            else
              let (memo, v) :=
                if vd = .yes then
                  let (memo, onc, kills) := specValid E memo canon
                  if !onc then (memo, "bad:off-curve-point-accepted")
                  else if !kills then (memo, "bad:point-outside-subgroup-accepted")
                  else (memo, "ok")
                else (memo, "ok")
              if v != "ok" then (memo, v)
              else if re != hexBytes (bs.take size) then (memo, "note:noncanonical-point-encoding")
              else (memo, "ok")
  | _ => (memo, "bad:" ++ impl)

def runXde (E : Env F) (memo : Memo) (proj : Bool) (cm : Compress) (vd : Validate) (bs : List Nat) (impl : String) :
    Memo × String × String :=
  let (memo, pan) := prepare E memo cm vd bs
  let m := if pan then "panic" else modelXde E memo proj cm vd bs
  let (memo, v) := judgeXde E memo cm vd bs impl
  (memo, m, v)

/-! ### `xrt` -/

def modelXrt (E : Env F) (memo : Memo) (proj : Bool) (cm : Compress) (vd : Validate) (P : SWAff F) (bytes : List Nat) : String :=
  let tg := " @" ++ E.fmt ++ ":" ++ cmS cm ++ ":rt"
  let pre := hexBytes bytes ++ " " ++ hex (E.fns.size cm) ++ " "
  match runM (E.fns.de (insubMemo E memo) cm vd) (bytes ++ trail) with
  | .panic => "panic"
  | .err e s => pre ++ errS e ++ " " ++ hex s.used ++ tg
  | .ok Q s =>
    match (if proj then E.fns.reproj Q else .ok Q) with
    | .panic => "panic"
    | .ok Q => pre ++ ptStr E Q ++ " " ++ hex s.used ++ tg ++ (if P.infinity then "-inf" else "")

def judgeXrt (E : Env F) (memo : Memo) (cm : Compress) (vd : Validate) (canon : Option (F × F)) (impl : String) : Memo × String :=
  if impl == "panic" then (memo, "bad:panic") else
  if cm = .yes && !DrvC09.onCurveCanon E.C canon then (memo, "bad:input-not-on-curve") else
  match impl.splitOn " " with
  | [bs, size, de, used] =>
    match parseHexBytes? bs, parseHex? size with
    | some bytes, some size =>
      if size != specSize E cm then (memo, "bad:size-formula")
      else if bytes.length != size then (memo, "bad:size-mismatch")
      else if !specEncStrict E cm bytes canon then (memo, "bad:bytes")
      else
        let (memo, want) :=
          if vd = .yes then
            let (memo, onc, kills) := specValid E memo canon
            (memo, if onc && kills then canonStr E canon else "err:invalid")
          else (memo, canonStr E canon)
        if de != want then (memo, "bad:want-de=" ++ want)
        else if used != hex size then (memo, "bad:consumed")
        else (memo, "ok")
    | _, _ => (memo, "bad:parse")
  | _ => (memo, "bad:" ++ impl)

def runXrt (E : Env F) (memo : Memo) (proj : Bool) (cm : Compress) (vd : Validate) (ps : String) (impl : String) :
    Option (Memo × String × String) := do
  -- model input: the value that is serialised;  spec input: the affine point it denotes
  let (mP, canon) ← (if proj then do
      let cs ← parseCoords E ps
      let mP ← E.fns.projToAff cs
      let canon ← (match E.te, cs with
        | false, [x, y, z] => some (DrvC09.swProjCanon (⟨x, y, z⟩ : SWProj F))
        | true, [x, y, t, z] => some (some (DrvC09.teProjCanon (⟨x, y, t, z⟩ : TEProj F)))
        | _, _ => none)
      some (mP, canon)
    else do
      let P ← parsePt E ps
      some (Outcome.ok P, canonOf P))
  match mP with
  | .panic =>
    let (memo, v) := judgeXrt E memo cm vd canon impl
    some (memo, "panic", v)
  | .ok P =>
    match E.fns.ser P cm with
    | .panic =>
      let (memo, v) := judgeXrt E memo cm vd canon impl
      some (memo, "panic", v)
    | .err e =>
      let (memo, v) := judgeXrt E memo cm vd canon impl
      some (memo, errS e, v)
    | .ok bytes =>
      let (memo, pan) := prepare E memo cm vd (bytes ++ trail)
      let m := if pan then "panic" else modelXrt E memo proj cm vd P bytes
      let (memo, v) := judgeXrt E memo cm vd canon impl
      some (memo, m, v)

def runOp (E : Env F) (memo : Memo) (op : String) (args : List String) (impl : String) :
    Option (Memo × String × String) :=
  match op, args with
  | "xde", [rep, mode, bytes] => do
    let proj ← if rep == "proj" then some true else if rep == "aff" then some false else none
    let (cm, vd) ← parseMode mode
    let bs ← parseHexBytes? bytes
    some (runXde E memo proj cm vd bs impl)
  | "xrt", [rep, mode, ps] => do
    let proj ← if rep == "proj" then some true else if rep == "aff" then some false else none
    let (cm, vd) ← parseMode mode
    runXrt E memo proj cm vd ps impl
  | _, _ => none

/-- header: model = the modelled `serialized_size`s, verdict = the sizes of the format description -/
def headOf (E : Env F) (impl : String) : String × String :=
  let m := hex (E.fns.size .yes) ++ "," ++ hex (E.fns.size .no)
  let want := hex (specSize E .yes) ++ "," ++ hex (specSize E .no)
  (m ++ " @" ++ E.fmt ++ (if E.te then ":te" else ":sw") ++ ":k" ++ hex E.K.k,
   if impl == "panic" then "bad:panic" else if impl == want then "ok" else "bad:want=" ++ want)

end generic

/-! ## instances -/

structure Inst where
  run : Memo → String → List String → String → Option (Memo × String × String)
  head : String × String

structure Cache where
  insts : List (String × Inst × Memo) := []

def zc1Fns (c : FpCfg) (K : Codec (Fp c.p)) (a b : Fp c.p) : Fns (Fp c.p) where
  size := Zcash.g1SerializedSizeOf
  ser := fun P cm => Zcash.g1Serialize c K P cm
  de := fun insub cm vd => Zcash.g1Deserialize c K ⟨a, b, insub⟩ cm vd
  projToAff := fun cs => match cs with
    | [x, y, z] => some (swToAffine ⟨x, y, z⟩)
    | _ => none
  reproj := fun P => swToAffine (swFromAffine P)

def zc2Fns (c : FpCfg) (β : Nat) (K : Codec (Fp2 c.p β)) (a b : Fp2 c.p β) : Fns (Fp2 c.p β) where
  size := Zcash.g2SerializedSizeOf
  ser := fun P cm => Zcash.g2Serialize c β K P cm
  de := fun insub cm vd => Zcash.g2Deserialize c β K ⟨a, b, insub⟩ cm vd
  projToAff := fun cs => match cs with
    | [x, y, z] => some (swToAffine ⟨x, y, z⟩)
    | _ => none
  reproj := fun P => swToAffine (swFromAffine P)

def mkInst (hd : DrvC12.Head) (impl : String) : Option Inst := do
  let fmt := (DrvC12.lookup hd.kv "fmt").getD "def"
  let fn ← (DrvC12.lookup hd.kv "fn").bind parseHex?
  let te ← if hd.kind == "sw" then some false else if hd.kind == "te" then some true else none
  let c : FpCfg := ⟨hd.p, fn⟩
  match hd.tower.splitOn ":" with
  | ["fp"] =>
    let K := DrvC09.kitFp c
    let a ← DrvC09.parseF K hd.a; let b ← DrvC09.parseF K hd.b
    let grp ← if te then grpTeFp hd else grpSwFp hd
    let fns ← match fmt, te with
      | "def", false => some (swFns K.codec a b)
      | "def", true => some (teFns K.codec a b)
      | "zc1", false => if fn == 6 then some (zc1Fns c K.codec a b) else none
      | _, _ => none
    let E : Env (Fp c.p) :=
      { te := te, fmt := fmt, K := K, C := ⟨te, a, b, hd.cc.r, false, none⟩, fns := fns, grp := grp }
    some { run := runOp E, head := headOf E impl }
  | ["fp2", nr] =>
    let nr ← parseHex? nr
    if te then none else
    let K := DrvC09.kitFp2 c nr
    let a ← DrvC09.parseF K hd.a; let b ← DrvC09.parseF K hd.b
    let grp ← grpSwFq2 nr hd
    let fns ← match fmt with
      | "def" => some (swFns K.codec a b)
      | "zc2" => if fn == 6 then some (zc2Fns c nr K.codec a b) else none
      | _ => none
    let E : Env (Fp2 c.p nr) :=
      { te := false, fmt := fmt, K := K, C := ⟨false, a, b, hd.cc.r, false, none⟩, fns := fns, grp := grp }
    some { run := runOp E, head := headOf E impl }
  | ["fp3", nr] =>
    let nr ← parseHex? nr
    if te || fmt != "def" then none else
    let K := kitFq3 c nr
    let a ← DrvC09.parseF K hd.a; let b ← DrvC09.parseF K hd.b
    let grp ← grpSwFq3 nr hd
    let E : Env (Fq3 c.p nr) :=
      { te := false, fmt := fmt, K := K, C := ⟨false, a, b, hd.cc.r, false, none⟩, fns := swFns K.codec a b, grp := grp }
    some { run := runOp E, head := headOf E impl }
  | _ => none

def run (c : Cache) (op : String) (args : List String) (impl : String) : Option (Cache × String × String) :=
  match op, args with
  | "xcfg", _ => do
    let hd ← DrvC12.parseHead args
    let I ← mkInst hd impl
    some ({ insts := (hd.id, I, {}) :: c.insts.filter (fun e => e.1 != hd.id) }, I.head.1, I.head.2)
  | _, id :: rest => do
    let (_, I, memo) ← c.insts.find? (fun e => e.1 == id)
    let (memo, m, v) ← I.run memo op rest impl
    some ({ insts := c.insts.map (fun e => if e.1 == id then (e.1, e.2.1, memo) else e) }, m, v)
  | _, _ => none

end Ark.DrvC10x
