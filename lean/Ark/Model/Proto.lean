/-
  Ark.Model.Proto — parsing / printing helpers of the line protocol (trusted glue).
  Numbers are lower-case hex without prefix; negative numbers carry a leading '-';
  lists are comma-separated without spaces, the empty list is "_".
-/
namespace Ark.Proto

def hexDigit? (c : Char) : Option Nat :=
  if '0' ≤ c ∧ c ≤ '9' then some (c.toNat - '0'.toNat)
  else if 'a' ≤ c ∧ c ≤ 'f' then some (c.toNat - 'a'.toNat + 10)
  else if 'A' ≤ c ∧ c ≤ 'F' then some (c.toNat - 'A'.toNat + 10)
  else none

def parseHexChars : List Char → Nat → Option Nat
  | [], acc => some acc
  | c :: cs, acc => match hexDigit? c with
    | some d => parseHexChars cs (acc * 16 + d)
    | none => none

def parseHex? (s : String) : Option Nat :=
  match s.toList with
  | [] => none
  | cs => parseHexChars cs 0

def parseInt? (s : String) : Option Int :=
  match s.toList with
  | '-' :: cs => (parseHexChars cs 0).map (fun n => - (n : Int))
  | [] => none
  | cs => (parseHexChars cs 0).map (fun n => (n : Int))

def mapM? {α β} (f : α → Option β) : List α → Option (List β)
  | [] => some []
  | a :: as => match f a, mapM? f as with
    | some b, some bs => some (b :: bs)
    | _, _ => none

def parseList? (s : String) : Option (List Nat) :=
  if s == "_" then some [] else mapM? parseHex? (s.splitOn ",")

def parseIntList? (s : String) : Option (List Int) :=
  if s == "_" then some [] else mapM? parseInt? (s.splitOn ",")

def hexChar (d : Nat) : Char :=
  if d < 10 then Char.ofNat ('0'.toNat + d) else Char.ofNat ('a'.toNat + d - 10)

def hexAux : Nat → Nat → List Char → List Char
  | 0, _, acc => acc
  | fuel + 1, n, acc =>
    if n < 16 then hexChar n :: acc else hexAux fuel (n / 16) (hexChar (n % 16) :: acc)

def hex (n : Nat) : String := String.ofList (hexAux (n.log2 / 4 + 2) n [])

def hexInt (i : Int) : String := if i < 0 then "-" ++ hex i.natAbs else hex i.toNat

def joinWith (sep : String) : List String → String
  | [] => ""
  | [x] => x
  | x :: xs => x ++ sep ++ joinWith sep xs

def hexList (l : List Nat) : String := if l.isEmpty then "_" else joinWith "," (l.map hex)
def hexIntList (l : List Int) : String := if l.isEmpty then "_" else joinWith "," (l.map hexInt)
def bitList (l : List Bool) : String :=
  if l.isEmpty then "_" else String.ofList (l.map (fun b => if b then '1' else '0'))
def parseBits? (s : String) : Option (List Bool) :=
  if s == "_" then some [] else mapM? (fun c => if c == '0' then some false else if c == '1' then some true else none) s.toList

def ordStr : Ordering → String
  | .lt => "lt" | .eq => "eq" | .gt => "gt"
def boolStr (b : Bool) : String := if b then "1" else "0"

end Ark.Proto
