import Ark.Model.Par
import Ark.Model.Fp
import Ark.Model.AffGroup
import Ark.Model.NatSpec
import Ark.Model.Proto
/-
  Driver dispatch for C14 (independence of the `parallel` feature / of the thread count).

  Lines (`T` = thread count of the rayon pool the harness ran the call in; all numbers hex, field
  elements as standard residues, lists comma separated, `_` empty, points `x/y` or `inf`):

    nthreads T                                   rayon::current_num_threads() inside the pool
    binv   T p coeff v                           ark_ff::batch_inversion_and_mul(v, coeff)
    dpow   T p g c v                             EvaluationDomain::distribute_powers_and_mul_by_const(v, g, c)
    eval   T p x coeffs                          DensePolynomial::from_coefficients_vec(coeffs).evaluate(x)
    mfft   T p size log2 gen off f|i v           MixedRadixEvaluationDomain fft / ifft (coset `off`)
    r2fft  T p r|g size gen off f|i v            Radix2 / General domain fft / ifft          (verdict only)
    evalod T p size gen off coeffs               DensePolynomial::evaluate_over_domain_by_ref (verdict only)
    mulvan | divvan T p size coeffs              mul_by_vanishing_poly / divide_by_vanishing_poly (verdict only)
    pscal  T p k coeffs                          &poly * k                                   (verdict only)
    evop   T p add|sub|mul|div a b               pointwise operations on `Evaluations`       (verdict only)
    pmul   T p a b                               &a * &b of dense polynomials                (verdict only)
    spscal T p k i:c,…                           &sparse_univariate * k                      (verdict only)
    mveval T p nv point c:v.e*v.e;…              multivariate SparsePolynomial::evaluate     (verdict only)
    mle    T p nv add|neg|axpy f a b             DenseMultilinearExtension +, −, += (f, ·)   (verdict only)
    msm    T p A B scalars points                VariableBaseMSM::msm                        (verdict only)
    bmul   T p A B base scalars                  ScalarMul::batch_mul                        (verdict only)
    norm   T sw|te p points                      CurveGroup::normalize_batch                 (verdict only)
    bcheck T p A B r points                      Valid::batch_check on affine points         (verdict only)
    mpair  T p as bs gt                          Bls12_381::multi_pairing([aᵢ]G₁, [bᵢ]G₂)    (verdict only)

  Model output: for `binv dpow eval mfft` the `Ark.Par` function *with the line's `T`*; `any` for the
  verdict-only ops.  Verdict: the serial, mathematical answer computed naively (element-wise inverse,
  `c·gⁱ·aᵢ`, `Σ aᵢ xⁱ`, evaluation at the domain points, convolution, `Σ kᵢPᵢ` with the affine group
  law, `x/z², y/z³`, `e(G₁,G₂)^(Σ aᵢbᵢ)` in a schoolbook `Fp12`), never depending on `T`.
-/
namespace Ark.DrvC14
open Ark Ark.Proto Ark.Par

def vs (impl spec : String) : String := if impl == spec then "ok" else "bad:want=" ++ spec

/-- one pass over the bytes of a comma separated hex list (the lines of this property carry up to
    2^16 field elements; `Proto.parseList?` is several times slower on them).  The current number is
    kept as `hi·16^k + lo` with `lo` of at most 15 digits, so that multi-limb values cost one
    big-number operation per 15 digits. -/
def parseListGo (b : ByteArray) : Nat → Nat → Nat → Nat → Nat → Bool → Array Nat → Option (Array Nat)
  | 0, _, _, _, _, _, _ => none
  | fuel + 1, i, hi, lo, k, seen, out =>
    let fin := if hi = 0 then lo else hi <<< (4 * k) ||| lo
    if i ≥ b.size then (if seen then some (out.push fin) else none)
    else
      let c := (b.get! i).toNat
      if c = 44 then (if seen then parseListGo b fuel (i + 1) 0 0 0 false (out.push fin) else none)
      else
        let d := if 48 ≤ c ∧ c ≤ 57 then c - 48 else if 97 ≤ c ∧ c ≤ 102 then c - 87 else 16
        if d = 16 then none
        else if k = 15 then parseListGo b fuel (i + 1) (hi <<< 60 ||| lo) d 1 true out
        else parseListGo b fuel (i + 1) hi (lo * 16 + d) (k + 1) true out

def parseList? (s : String) : Option (List Nat) :=
  if s == "_" then some [] else
  let b := s.toUTF8
  (parseListGo b (b.size + 2) 0 0 0 0 false (Array.mkEmpty 16)).map Array.toList

def toFp (p : Nat) (l : List Nat) : List (Fp p) := l.map (Fp.ofNat p)
def showL {p : Nat} (l : List (Fp p)) : String := hexList (l.map (·.val))
def showO {p : Nat} : Outcome (List (Fp p)) → String
  | .ok l => showL l
  | .panic => "panic"
def showOpt {p : Nat} : Option (List (Fp p)) → String
  | some l => showL l
  | none => "panic"

/-- drop trailing zeros (`truncate_leading_zeros`) -/
def trim {p : Nat} (l : List (Fp p)) : List (Fp p) := (l.reverse.dropWhile (· = 0)).reverse

/-! ### naive specifications -/

/-- `Σ aᵢ xⁱ`, running power -/
def evalPow {p : Nat} (coeffs : List (Fp p)) (x : Fp p) : Fp p :=
  (coeffs.foldl (fun (st : Fp p × Fp p) a => (st.1 + a * st.2, st.2 * x)) (0, 1)).1

/-- Horner on raw residues (fast path of the FFT verdicts) -/
def hornerNat (p : Nat) (coeffs : List Nat) (x : Nat) : Nat :=
  coeffs.foldr (fun c acc => (acc * x + c) % p) 0

def specBinv {p : Nat} (v : List (Fp p)) (coeff : Fp p) : List (Fp p) :=
  v.map (fun x => if x = 0 then 0 else coeff * x⁻¹)

def specDpow {p : Nat} (v : List (Fp p)) (g c : Fp p) : List (Fp p) :=
  (enumFrom 0 v).map (fun (i, a) => a * (c * Fp.pow g i))

def lcgNext (s : Nat) : Nat := (s * 6364136223846793005 + 1442695040888963407) % 2 ^ 64

def lcgIdx (n : Nat) : Nat → Nat → List Nat
  | 0, _ => []
  | k + 1, s => let s' := lcgNext s; ((s' / 2 ^ 33) % n) :: lcgIdx n k s'

/-- indices at which an output of length `n` is compared with the naive evaluation:
    all of them up to `full` entries, beyond that a fixed fringe plus 24 pseudo-random positions
    (seeded by `T` and the input, so the different pool sizes look at different places) -/
def sampleIdx (full n seed : Nat) : List Nat :=
  if n ≤ full then List.range n
  else [0, 1, 2, 3, n / 4, n / 2 - 1, n / 2, n / 2 + 1, n - 2, n - 1] ++ lcgIdx n 24 seed

def resizeNat (l : List Nat) (n : Nat) : List Nat := l.take n ++ List.replicate (n - l.length) 0

/-- verdict of a forward transform: `out.length = size` and `out[i] = P(off·genⁱ)` on the sampled
    indices, `P` = the input (`poly`) -/
def judgeFft (full p size gen off : Nat) (poly : List Nat) (out : List Nat) (seed : Nat) : String :=
  if out.length ≠ size then "bad:length" else
  let o := out.toArray
  match (sampleIdx full size seed).find? (fun i =>
      o[i]? != some (hornerNat p poly (off * Spec.powMod gen i p % p))) with
  | some i => "bad:index=" ++ hex i
  | none => "ok"

/-- verdict of an inverse transform: `out.length = size` and the polynomial `out` takes the value
    `evals[i]` at `off·genⁱ` on the sampled indices -/
def judgeIfft (full p size gen off : Nat) (evals : List Nat) (out : List Nat) (seed : Nat) : String :=
  if out.length ≠ size then "bad:length" else
  let e := (resizeNat evals size).toArray
  match (sampleIdx full size seed).find? (fun i =>
      e[i]? != some (hornerNat p out (off * Spec.powMod gen i p % p))) with
  | some i => "bad:index=" ++ hex i
  | none => "ok"

def addL {p : Nat} : List (Fp p) → List (Fp p) → List (Fp p)
  | [], b => b
  | a, [] => a
  | a :: as, b :: bs => (a + b) :: addL as bs

def negL {p : Nat} (l : List (Fp p)) : List (Fp p) := l.map (- ·)

/-- coefficient `k` of the product: `Σ_{i+j=k} aᵢ bⱼ` -/
def convCoeff {p : Nat} (a b : Array (Fp p)) (k : Nat) : Fp p :=
  (List.range (k + 1)).foldl (fun acc i =>
    match a[i]?, b[k - i]? with
    | some x, some y => acc + x * y
    | _, _ => acc) 0

/-! ### curve helpers -/

def parsePt? (p : Nat) (E : SWParams p) (s : String) : Option (AffPt p E) :=
  if s == "inf" then some ⟨none⟩ else
  match s.splitOn "/" with
  | [x, y] => do let x ← parseHex? x; let y ← parseHex? y; some ⟨some (Fp.ofNat p x, Fp.ofNat p y)⟩
  | _ => none

def parsePts? (p : Nat) (E : SWParams p) (s : String) : Option (List (AffPt p E)) :=
  if s == "_" then some [] else mapM? (parsePt? p E) (s.splitOn ",")

def showPt {p : Nat} {E : SWParams p} (P : AffPt p E) : String :=
  match P.pt with
  | none => "inf"
  | some (x, y) => hex x.val ++ "/" ++ hex y.val

def showPts {p : Nat} {E : SWParams p} (l : List (AffPt p E)) : String :=
  if l.isEmpty then "_" else joinWith "," (l.map showPt)

def parseTuples? (k : Nat) (s : String) : Option (List (List Nat)) :=
  if s == "_" then some [] else
  mapM? (fun t => do
    let l ← mapM? parseHex? (t.splitOn "/")
    if l.length = k then some l else none) (s.splitOn ",")

/-! ### schoolbook `Fp12 = Fp2[v]/(v³ − (1+u))[w]/(w² − v)`, `Fp2 = Fp[u]/(u² + 1)` (BLS12-381) -/

structure E2 (p : Nat) where
  a : Fp p
  b : Fp p
  deriving DecidableEq

namespace E2
variable {p : Nat}
def add (x y : E2 p) : E2 p := ⟨x.a + y.a, x.b + y.b⟩
def mul (x y : E2 p) : E2 p := ⟨x.a * y.a - x.b * y.b, x.a * y.b + x.b * y.a⟩
/-- multiplication by `ξ = 1 + u` -/
def mulXi (x : E2 p) : E2 p := ⟨x.a - x.b, x.a + x.b⟩
end E2

structure E6 (p : Nat) where
  c0 : E2 p
  c1 : E2 p
  c2 : E2 p
  deriving DecidableEq

namespace E6
variable {p : Nat}
def add (x y : E6 p) : E6 p := ⟨x.c0.add y.c0, x.c1.add y.c1, x.c2.add y.c2⟩
def mul (x y : E6 p) : E6 p :=
  ⟨(x.c0.mul y.c0).add (((x.c1.mul y.c2).add (x.c2.mul y.c1)).mulXi),
   ((x.c0.mul y.c1).add (x.c1.mul y.c0)).add ((x.c2.mul y.c2).mulXi),
   ((x.c0.mul y.c2).add (x.c1.mul y.c1)).add (x.c2.mul y.c0)⟩
/-- multiplication by `v` -/
def mulV (x : E6 p) : E6 p := ⟨x.c2.mulXi, x.c0, x.c1⟩
end E6

structure E12 (p : Nat) where
  c0 : E6 p
  c1 : E6 p
  deriving DecidableEq

namespace E12
variable {p : Nat}
def mul (x y : E12 p) : E12 p :=
  ⟨(x.c0.mul y.c0).add ((x.c1.mul y.c1).mulV), (x.c0.mul y.c1).add (x.c1.mul y.c0)⟩
def one : E12 p := ⟨⟨⟨1, 0⟩, ⟨0, 0⟩, ⟨0, 0⟩⟩, ⟨⟨0, 0⟩, ⟨0, 0⟩, ⟨0, 0⟩⟩⟩
def powAux (g : E12 p) : Nat → Nat → E12 p → E12 p → E12 p
  | 0, _, _, acc => acc
  | fuel + 1, e, base, acc =>
    if e = 0 then acc
    else powAux g fuel (e / 2) (base.mul base) (if e % 2 = 1 then acc.mul base else acc)
def pow (g : E12 p) (e : Nat) : E12 p := powAux g (e.log2 + 2) e g one
def ofList? (l : List Nat) : Option (E12 p) :=
  match l.map (Fp.ofNat p) with
  | [a0, a1, a2, a3, a4, a5, b0, b1, b2, b3, b4, b5] =>
    some ⟨⟨⟨a0, a1⟩, ⟨a2, a3⟩, ⟨a4, a5⟩⟩, ⟨⟨b0, b1⟩, ⟨b2, b3⟩, ⟨b4, b5⟩⟩⟩
  | _ => none
def toList (x : E12 p) : List Nat :=
  [x.c0.c0.a, x.c0.c0.b, x.c0.c1.a, x.c0.c1.b, x.c0.c2.a, x.c0.c2.b,
   x.c1.c0.a, x.c1.c0.b, x.c1.c1.a, x.c1.c1.b, x.c1.c2.a, x.c1.c2.b].map (·.val)
end E12

/-- order of G₁, G₂, G_T of BLS12-381 -/
def blsR : Nat := 52435875175126190479447740508185965837690552500527637822603658699938581184513

def parseDots? (s : String) : Option (List Nat) := mapM? parseHex? (s.splitOn ".")

/-! ### dispatch -/

/-- `i:c` -/
def parseIdxCoeff? (s : String) : Option (Nat × Nat) :=
  match s.splitOn ":" with
  | [i, c] => do let i ← parseHex? i; let c ← parseHex? c; some (i, c)
  | _ => none

/-- `v.e` -/
def parseVarPow? (s : String) : Option (Nat × Nat) :=
  match s.splitOn "." with
  | [v, e] => do let v ← parseHex? v; let e ← parseHex? e; some (v, e)
  | _ => none

/-- `coeff:v.e*v.e…` (`coeff:_` for a constant term) -/
def parseTerm? (s : String) : Option (Nat × List (Nat × Nat)) :=
  match s.splitOn ":" with
  | [c, mono] => do
    let c ← parseHex? c
    let l ← if mono == "_" then some [] else mapM? parseVarPow? (mono.splitOn "*")
    some (c, l)
  | _ => none

/-- branch tag for the evidence: how many chunks the parallel branch splits `n` items into -/
def chunkTag (n k : Nat) : String :=
  let c := (n + k - 1) / k
  if c ≤ 1 then " @chunks1" else if n % k = 0 then " @chunksN" else " @chunksN+tail"

def sfftNaive {p : Nat} : List (Fp p) → Fp p → Nat → Outcome (List (Fp p)) :=
  fun a omega _ => .ok (naiveDft a omega)

def run (op : String) (args : List String) (impl : String) : Option (String × String) :=
  match op, args with
  | "nthreads", [t] => do
    let t ← parseHex? t
    some (hex t, vs impl (hex t))
  | "binv", [t, p, coeff, v] => do
    let t ← parseHex? t; let p ← parseHex? p; let coeff ← parseHex? coeff; let v ← parseList? v
    let v := toFp p v; let coeff := Fp.ofNat p coeff
    some (showOpt (chunkedBatchInv t v coeff) ++ chunkTag v.length (max (v.length / t) 1),
          vs impl (showL (specBinv v coeff)))
  | "dpow", [t, p, g, c, v] => do
    let t ← parseHex? t; let p ← parseHex? p; let g ← parseHex? g; let c ← parseHex? c; let v ← parseList? v
    let v := toFp p v; let g := Fp.ofNat p g; let c := Fp.ofNat p c
    some (showL (distributePowersPar t v g c) ++ chunkTag v.length (max (v.length / t) 1024),
          vs impl (showL (specDpow v g c)))
  | "eval", [t, p, x, v] => do
    let t ← parseHex? t; let p ← parseHex? p; let x ← parseHex? x; let v ← parseList? v
    let v := toFp p v; let x := Fp.ofNat p x
    -- `from_coefficients_vec` strips trailing zeros before `evaluate` runs
    let c := trim v
    let tag := if polyIsZero c then " @zero" else if x = 0 then " @point0"
               else chunkTag c.length (max (c.length / t) MIN_ELEMENTS_PER_THREAD)
    some (hex (evaluatePar t c x).val ++ tag, vs impl (hex (evalPow v x).val))
  | "mfft", [t, p, size, lg, gen, off, dir, v] => do
    let t ← parseHex? t; let p ← parseHex? p; let size ← parseHex? size; let lg ← parseHex? lg
    let gen ← parseHex? gen; let off ← parseHex? off; let v ← parseList? v
    let o ← if impl == "panic" then some [] else parseList? impl
    let g := Fp.ofNat p gen; let h := Fp.ofNat p off
    let d : MixedDomain (Fp p) :=
      { size := size, logSizeOfGroup := lg, sizeInv := (Fp.ofNat p size)⁻¹, groupGen := g,
        groupGenInv := g⁻¹, offset := h, offsetInv := h⁻¹ }
    let tag := if lg ≤ log2Floor t then " @serial_fft" else " @parallel_fft"
    if impl == "panic" then
      some (showO (if dir == "f" then mixedFftPar t sfftNaive d (toFp p v) else mixedIfftPar t sfftNaive d (toFp p v)) ++ tag, "bad:panic")
    else if dir == "f" then
      some (showO (mixedFftPar t sfftNaive d (toFp p v)) ++ tag, judgeFft 4096 p size gen off (v.take size) o 0)
    else if dir == "i" then
      some (showO (mixedIfftPar t sfftNaive d (toFp p v)) ++ tag, judgeIfft 4096 p size gen off v o 0)
    else none
  | "r2fft", [t, p, _kind, size, gen, off, dir, v] => do
    let t ← parseHex? t; let p ← parseHex? p; let size ← parseHex? size
    let gen ← parseHex? gen; let off ← parseHex? off; let v ← parseList? v
    let any := "any" ++ (if log2Ceil size ≤ LOG_ROOTS_OF_UNITY_PARALLEL_SIZE then " @roots_serial" else " @roots_recursive")
    if impl == "panic" then some (any, "bad:panic") else
    let o ← parseList? impl
    let seed := t * 2654435761 + size + v.headD 0
    -- every index up to 256 points (64 over multi-limb moduli), sampled beyond
    let full := if p < 2 ^ 32 then 256 else 64
    if dir == "f" then some (any, judgeFft full p size gen off (v.take size) o seed)
    else if dir == "i" then some (any, judgeIfft full p size gen off v o seed)
    else none
  | "evalod", [t, p, size, gen, off, v] => do
    let t ← parseHex? t; let p ← parseHex? p; let size ← parseHex? size
    let gen ← parseHex? gen; let off ← parseHex? off; let v ← parseList? v
    if impl == "panic" then some ("any", "bad:panic") else
    let o ← parseList? impl
    let idx := sampleIdx 256 size (t * 2654435761 + v.headD 0)
    if o.length ≠ size then some ("any", "bad:length") else
    let oa := o.toArray
    match idx.find? (fun i => oa[i]? != some (hornerNat p v (off * Spec.powMod gen i p % p))) with
    | some i => some ("any", "bad:index=" ++ hex i)
    | none => some ("any", "ok")
  | "mulvan", [_t, p, size, v] => do
    let p ← parseHex? p; let size ← parseHex? size; let v ← parseList? v
    let c := trim (toFp p v)
    let z : List (Fp p) := List.replicate size 0
    some ("any", vs impl (showL (trim (addL (z ++ c) (negL c)))))
  | "divvan", [_t, p, size, v] => do
    let p ← parseHex? p; let size ← parseHex? size; let v ← parseList? v
    match impl.splitOn ";" with
    | [q, r] => do
      let q ← parseList? q; let r ← parseList? r
      let q := toFp p q; let r := toFp p r
      let z : List (Fp p) := List.replicate size 0
      let back := trim (addL (addL (z ++ q) (negL q)) r)
      if trim q ≠ q ∨ trim r ≠ r then some ("any", "bad:not-canonical")
      else if r.length > size then some ("any", "bad:remainder-degree")
      else if back ≠ trim (toFp p v) then some ("any", "bad:q*Z+r≠p")
      else some ("any", "ok")
    | _ => some ("any", "bad:" ++ impl)
  | "pscal", [_t, p, k, v] => do
    let p ← parseHex? p; let k ← parseHex? k; let v ← parseList? v
    let c := trim (toFp p v); let k := Fp.ofNat p k
    some ("any", vs impl (showL (trim (c.map (· * k)))))
  | "evop", [_t, p, kind, a, b] => do
    let p ← parseHex? p; let a ← parseList? a; let b ← parseList? b
    let a := toFp p a; let b := toFp p b
    let f : Fp p → Fp p → Fp p ← match kind with
      | "add" => some (· + ·) | "sub" => some (· - ·) | "mul" => some (· * ·)
      | "div" => some (fun x y => if y = 0 then 0 else x * y⁻¹)
      | _ => none
    some ("any", vs impl (showL (List.zipWith f a b)))
  | "spscal", [_t, p, k, terms] => do
    let p ← parseHex? p; let k ← parseHex? k
    let ts ← if terms == "_" then some [] else mapM? parseIdxCoeff? (terms.splitOn ",")
    let k := Fp.ofNat p k
    let r := if k = 0 then [] else ts.map (fun (i, c) => hex i ++ ":" ++ hex (Fp.ofNat p c * k).val)
    some ("any", vs impl (if r.isEmpty then "_" else joinWith "," r))
  | "mveval", [_t, p, _nv, point, terms] => do
    let p ← parseHex? p; let pt ← parseList? point
    let pt := (toFp p pt).toArray
    let ts ← mapM? parseTerm? (terms.splitOn ";")
    let r := ts.foldl (fun (acc : Fp p) (c, m) =>
      acc + m.foldl (fun (q : Fp p) (v, e) => q * Fp.pow (pt.getD v 0) e) (Fp.ofNat p c)) 0
    some ("any", vs impl (hex r.val))
  | "mle", [_t, p, _nv, kind, f, a, b] => do
    let p ← parseHex? p; let f ← parseHex? f; let a ← parseList? a; let b ← parseList? b
    let a := toFp p a; let b := toFp p b; let f := Fp.ofNat p f
    let r ← match kind with
      | "add" => some (List.zipWith (· + ·) a b)
      | "neg" => some (a.map (- ·))
      | "axpy" => some (List.zipWith (fun x y => x + f * y) a b)
      | _ => none
    some ("any", vs impl (showL r))
  | "pmul", [t, p, a, b] => do
    let t ← parseHex? t; let p ← parseHex? p; let a ← parseList? a; let b ← parseList? b
    if impl == "panic" then some ("any", "bad:panic") else
    let o ← parseList? impl
    let a := (trim (toFp p a)).toArray; let b := (trim (toFp p b)).toArray
    let o := (toFp p o).toArray
    let n := if a.size = 0 ∨ b.size = 0 then 0 else a.size + b.size - 1
    if o.size ≠ n then some ("any", "bad:length") else
    let idx := if a.size * b.size ≤ 300000 then List.range n
               else [0, 1, n / 2, n - 2, n - 1] ++ lcgIdx n 40 (t * 2654435761 + a.size)
    match idx.find? (fun k => o[k]? != some (convCoeff a b k)) with
    | some k => some ("any", "bad:coefficient=" ++ hex k)
    | none => some ("any", "ok")
  | "msm", [_t, p, ca, cb, scalars, pts] => do
    let p ← parseHex? p; let ca ← parseHex? ca; let cb ← parseHex? cb
    let E : SWParams p := ⟨Fp.ofNat p ca, Fp.ofNat p cb⟩
    let ks ← parseList? scalars; let ps ← parsePts? p E pts
    if ks.length ≠ ps.length then none else
    let s := (List.zip ks ps).foldl (fun acc (k, P) => acc + AffPt.smul k P) (0 : AffPt p E)
    some ("any", vs impl (showPt s))
  | "bmul", [_t, p, ca, cb, base, scalars] => do
    let p ← parseHex? p; let ca ← parseHex? ca; let cb ← parseHex? cb
    let E : SWParams p := ⟨Fp.ofNat p ca, Fp.ofNat p cb⟩
    let ks ← parseList? scalars; let P ← parsePt? p E base
    some ("any", vs impl (showPts (ks.map (fun k => AffPt.smul k P))))
  | "norm", [_t, "sw", p, pts] => do
    let p ← parseHex? p; let ps ← parseTuples? 3 pts
    let spec := ps.map (fun l => match l.map (Fp.ofNat p) with
      | [x, y, z] => if z = 0 then "inf" else
          let zi := z⁻¹; hex (x * (zi * zi)).val ++ "/" ++ hex (y * (zi * zi * zi)).val
      | _ => "?")
    some ("any", vs impl (if spec.isEmpty then "_" else joinWith "," spec))
  | "norm", [_t, "te", p, pts] => do
    let p ← parseHex? p; let ps ← parseTuples? 4 pts
    let spec := ps.map (fun l => match l.map (Fp.ofNat p) with
      | [x, y, _, z] => let zi := z⁻¹; hex (x * zi).val ++ "/" ++ hex (y * zi).val
      | _ => "?")
    some ("any", vs impl (if spec.isEmpty then "_" else joinWith "," spec))
  | "bcheck", [_t, p, ca, cb, r, pts] => do
    let p ← parseHex? p; let ca ← parseHex? ca; let cb ← parseHex? cb; let r ← parseHex? r
    let E : SWParams p := ⟨Fp.ofNat p ca, Fp.ofNat p cb⟩
    let ps ← parsePts? p E pts
    let good := ps.all (fun P => P.onCurve && decide ((AffPt.smul r P).pt = none))
    some ("any", vs impl (if good then "ok" else "err"))
  | "mpair", [_t, p, as, bs, gt] => do
    let p ← parseHex? p; let as ← parseList? as; let bs ← parseList? bs
    let gt ← parseDots? gt
    let g : E12 p ← E12.ofList? gt
    if as.length ≠ bs.length then none else
    let e := ((List.zipWith (· * ·) as bs).foldl (· + ·) 0) % blsR
    let spec := joinWith "." ((g.pow e).toList.map hex)
    some ("any", vs impl spec)
  | _, _ => none

end Ark.DrvC14
