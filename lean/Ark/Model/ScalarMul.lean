import Ark.Model.Limbs
import Ark.Model.Fp
/-
  Ark.Model.ScalarMul — C04: every scalar-multiplication path of `ark-ec`, transcribed
  function by function over an abstract group given by core operator classes
  (`[Add G] [Neg G] [Sub G] [Zero G]`; doubling is `P + P`).  The projective formulas are a
  different property (C03): here only the group element is tracked, so `Affine`/`Projective`
  variants of one routine have the same model (kept as separate names, one per Rust function).

  Rust sources: `ec/src/scalar_mul/mod.rs`, `ec/src/scalar_mul/wnaf.rs`, `ec/src/scalar_mul/glv.rs`,
  `ec/src/lib.rs` (`PrimeGroup::mul_bits_be`), `ec/src/models/{short_weierstrass,twisted_edwards}/mod.rs`
  (`mul_affine`, `mul_projective`), `ff/src/bits.rs` (`BitIteratorBE`).

  Panics are explicit (`Ark.Outcome`).  The model follows /repo after the two `fix:` commits
  ea6f526 (`BatchMulPreprocessing` with `max_scalar_size = 0`) and ce8a6a5 (GLV `mul_projective`
  overrides accept integers with more limbs than the scalar field).
-/
namespace Ark.ScalarMul
open Ark

/-! ### outcome plumbing -/

def omap {α β} (f : α → β) : Outcome α → Outcome β
  | .ok a => .ok (f a)
  | .panic => .panic

def obind {α β} (x : Outcome α) (f : α → Outcome β) : Outcome β :=
  match x with
  | .ok a => f a
  | .panic => .panic

/-! ### bit iterators (`ff/src/bits.rs`) -/

/-- `BitIteratorBE::new(s)`: all `64·len` bits, most significant (of the last limb) first -/
def bitsBE (s : List Nat) : List Bool := toBitsBE s

/-- `.skip_while(|b| !b)` -/
def skipLeadingZeros : List Bool → List Bool
  | [] => []
  | b :: bs => if b then b :: bs else skipLeadingZeros bs

/-- `BitIteratorBE::without_leading_zeros(s)` -/
def withoutLeadingZeros (s : List Nat) : List Bool := skipLeadingZeros (bitsBE s)

section generic
variable {G : Type} [Add G] [Neg G] [Sub G] [Zero G]

/-! ### double-and-add -/

/-- the loop body shared by all double-and-add routines:
    `for b in bits { res.double_in_place(); if b { res += base } }` -/
def dblAddLoop (base : G) : List Bool → G → G
  | [], res => res
  | b :: bs, res =>
    let res := res + res
    dblAddLoop base bs (if b then res + base else res)

/-- `sw_double_and_add_affine(base, scalar)` -/
def swDoubleAndAddAffine (base : G) (scalar : List Nat) : G :=
  dblAddLoop base (withoutLeadingZeros scalar) 0

/-- `sw_double_and_add_projective(base, scalar)` -/
def swDoubleAndAddProjective (base : G) (scalar : List Nat) : G :=
  dblAddLoop base (withoutLeadingZeros scalar) 0

/-- `TECurveConfig::mul_affine` (trait default) -/
def teMulAffine (base : G) (scalar : List Nat) : G :=
  dblAddLoop base (withoutLeadingZeros scalar) 0

/-- `TECurveConfig::mul_projective` (trait default) -/
def teMulProjective (base : G) (scalar : List Nat) : G :=
  dblAddLoop base (withoutLeadingZeros scalar) 0

/-- `PrimeGroup::mul_bits_be(self, other)`: `other.skip_while(|b| !b)` then the same loop -/
def mulBitsBE (base : G) (bits : List Bool) : G :=
  dblAddLoop base (skipLeadingZeros bits) 0

/-! ### GLV (`ec/src/scalar_mul/glv.rs`) -/

/-- the public constants of a `GLVConfig` (+ the limb count `N` of the scalar field):
    `SCALAR_DECOMP_COEFFS = [n11, n12, n21, n22]` with their signs applied -/
structure GlvCfg where
  nLimbs : Nat
  r : Nat
  lambda : Nat
  n11 : Int
  n12 : Int
  n21 : Int
  n22 : Int

/-- `let (mut div, rem) = x.div_rem(&r); if (&rem + &rem) > r { div += 1 }`
    (`num_integer::Integer::div_rem` on `BigInt` truncates toward zero; the remainder has the sign of `x`,
    so negative `x` is never rounded away from zero) -/
def roundDiv (x r : Int) : Int :=
  let div := Int.tdiv x r
  let rem := Int.tmod x r
  if rem + rem > r then div + 1 else div

/-- signed halves before the conversion to field elements -/
def decompInt (c : GlvCfg) (k : Nat) : Int × Int :=
  let scalar : Int := k
  let r : Int := c.r
  let beta1 := roundDiv (scalar * c.n22) r
  let beta2 := roundDiv (scalar * (- c.n12)) r
  let b1 := beta1 * c.n11 + beta2 * c.n21
  let b2 := beta1 * c.n12 + beta2 * c.n22
  (scalar - b1, - b2)

/-- `GLVConfig::scalar_decomposition(k)`: `((k1.sign() == Plus, |k1| as Fr), (k2.sign() == Plus, |k2| as Fr))`.
    Zero has `Sign::NoSign`, hence sign flag `false`; `BigUint → Fr` reduces modulo `r`. -/
def scalarDecomposition (c : GlvCfg) (k : Nat) : (Bool × Nat) × (Bool × Nat) :=
  let (k1, k2) := decompInt c k
  ((decide (k1 > 0), k1.natAbs % c.r), (decide (k2 > 0), k2.natAbs % c.r))

/-- the joint ladder `for pair in iter_k1.zip(iter_k2)` with the `skip_zeros` flag reproduced literally:
    only the *first* `(false,false)` pair met while the flag is still set is skipped (without doubling),
    wherever it occurs -/
def glvLoop (b1 b2 b1b2 : G) : List (Bool × Bool) → Bool → G → G
  | [], _, res => res
  | (x, y) :: rest, skipZeros, res =>
    if skipZeros && (!x && !y) then glvLoop b1 b2 b1b2 rest false res
    else
      let res := res + res
      let res := match x, y with
        | true, false => res + b1
        | false, true => res + b2
        | true, true => res + b1b2
        | false, false => res
      glvLoop b1 b2 b1b2 rest skipZeros res

/-- body shared by `glv_mul_projective` and `glv_mul_affine` -/
def glvMul (c : GlvCfg) (endo : G → G) (p : G) (k : Nat) : G :=
  let ((s1, k1), (s2, k2)) := scalarDecomposition c k
  let b1 := if !s1 then - p else p
  let e := endo p
  let b2 := if !s2 then - e else e
  let b1b2 := b1 + b2
  let it1 := bitsBE (toLimbs c.nLimbs k1)
  let it2 := bitsBE (toLimbs c.nLimbs k2)
  glvLoop b1 b2 b1b2 (it1.zip it2) true 0

/-- `GLVConfig::glv_mul_projective(p, k)` -/
def glvMulProjective (c : GlvCfg) (endo : G → G) (p : G) (k : Nat) : G := glvMul c endo p k
/-- `GLVConfig::glv_mul_affine(p, k)` (`res.into_affine()` is the identity on group elements) -/
def glvMulAffine (c : GlvCfg) (endo : G → G) (p : G) (k : Nat) : G := glvMul c endo p k

/-- how a curve configuration implements `SWCurveConfig::mul_projective` -/
inductive MulProjImpl where
  | default                    -- trait default: `sw_double_and_add_projective`
  | glv (c : GlvCfg)           -- bls12_381 g1 & co.: reduce the integer modulo `r`, then `glv_mul_projective`

/-- the scalar handed to `glv_mul_projective` by the override (after `fix:` ce8a6a5):
    `if scalar.len() <= N { Fr::from_sign_and_limbs(true, scalar) }` — the limbs are copied into an `N`-limb
    integer, which `Fp::new` reduces modulo `r` —
    `else { Fr::from_le_bytes_mod_order(little-endian bytes of all limbs) }` — the whole integer modulo `r`. -/
def glvOverrideScalar (c : GlvCfg) (scalar : List Nat) : Nat :=
  if scalar.length ≤ c.nLimbs then value (scalar ++ List.replicate (c.nLimbs - scalar.length) 0) % c.r
  else value scalar % c.r

/-- `SWCurveConfig::mul_projective(base, scalar)`.  Since `fix:` ce8a6a5 no shipped implementation can panic;
    the `Outcome` result type is kept for the callers in other models (always `.ok`). -/
def swMulProjective (impl : MulProjImpl) (endo : G → G) (base : G) (scalar : List Nat) : Outcome G :=
  match impl with
  | .default => .ok (swDoubleAndAddProjective base scalar)
  | .glv c => .ok (glvMulProjective c endo base (glvOverrideScalar c scalar))

/-- `SWCurveConfig::mul_affine(base, scalar)` (no shipped configuration overrides it) -/
def swMulAffine (base : G) (scalar : List Nat) : G := swDoubleAndAddAffine base scalar

/-- `<Projective<P> as PrimeGroup>::mul_bigint` -/
def swProjMulBigint (impl : MulProjImpl) (endo : G → G) (base : G) (scalar : List Nat) : Outcome G :=
  swMulProjective impl endo base scalar
/-- `<Affine<P> as AffineRepr>::mul_bigint` -/
def swAffMulBigint (base : G) (scalar : List Nat) : G := swMulAffine base scalar
/-- `Projective<P> * Fr` = `mul_bigint(k.into_bigint())` (`N` limbs) -/
def swProjMulScalar (impl : MulProjImpl) (endo : G → G) (nLimbs : Nat) (base : G) (k : Nat) : Outcome G :=
  swProjMulBigint impl endo base (toLimbs nLimbs k)
/-- `Affine<P> * Fr` -/
def swAffMulScalar (nLimbs : Nat) (base : G) (k : Nat) : G := swAffMulBigint base (toLimbs nLimbs k)
/-- twisted Edwards: `mul_bigint` of `Projective` / `Affine`, `* Fr` -/
def teProjMulBigint (base : G) (scalar : List Nat) : G := teMulProjective base scalar
def teAffMulBigint (base : G) (scalar : List Nat) : G := teMulAffine base scalar
def teProjMulScalar (nLimbs : Nat) (base : G) (k : Nat) : G := teProjMulBigint base (toLimbs nLimbs k)
def teAffMulScalar (nLimbs : Nat) (base : G) (k : Nat) : G := teAffMulBigint base (toLimbs nLimbs k)

/-! ### windowed NAF (`ec/src/scalar_mul/wnaf.rs`) -/

/-- `WnafContext::new(window_size)`: `assert!(window_size >= 2); assert!(window_size < 64)` -/
def wnafNew (w : Nat) : Outcome Nat := if 2 ≤ w ∧ w < 64 then .ok w else .panic

/-- `for _ in 0..(1 << (w-1)) { table.push(base); base += &dbl }` -/
def wnafTableLoop (dbl : G) : Nat → G → List G
  | 0, _ => []
  | n + 1, base => base :: wnafTableLoop dbl n (base + dbl)

/-- `WnafContext::table(base)` (for a context built by `new`, so `w ≥ 2`) -/
def wnafTable (w : Nat) (base : G) : List G := wnafTableLoop (base + base) (2 ^ (w - 1)) base

/-- the digit loop of `mul_with_table` over `scalar_wnaf.iter().rev()`;
    `base_table[(n / 2) as usize]` / `base_table[((-n) / 2) as usize]` may panic -/
def wnafLoop (table : List G) : List Int → Bool → G → Outcome G
  | [], _, res => .ok res
  | n :: ns, foundNonZero, res =>
    let res := if foundNonZero then res + res else res
    if n != 0 then
      if n > 0 then
        match table[(n.toNat / 2)]? with
        | some t => wnafLoop table ns true (res + t)
        | none => .panic
      else
        match table[((-n).toNat / 2)]? with
        | some t => wnafLoop table ns true (res - t)
        | none => .panic
    else wnafLoop table ns foundNonZero res

/-- `WnafContext::mul_with_table(base_table, scalar)` for a context built by `new`;
    `scalar` = limbs of `scalar.into_bigint()`.  `find_wnaf(..).unwrap()` cannot fail for `2 ≤ w < 64`. -/
def wnafMulWithTable (w : Nat) (table : List G) (scalar : List Nat) : Outcome (Option G) :=
  if 2 ^ (w - 1) > table.length then .ok none
  else match findWnaf scalar w with
    | none => .panic
    | some digits => omap some (wnafLoop table digits.reverse false 0)

/-- `WnafContext::mul(g, scalar)` = `mul_with_table(&table(g), scalar).unwrap()` -/
def wnafMul (w : Nat) (g : G) (scalar : List Nat) : Outcome G :=
  match wnafMulWithTable w (wnafTable w g) scalar with
  | .ok (some x) => .ok x
  | _ => .panic

/-- `WnafContext::new(w).mul(g, scalar)` -/
def wnafNewMul (w : Nat) (g : G) (scalar : List Nat) : Outcome G :=
  obind (wnafNew w) (fun w => wnafMul w g scalar)
def wnafNewTable (w : Nat) (g : G) : Outcome (List G) :=
  omap (fun w => wnafTable w g) (wnafNew w)
def wnafNewMulWithTable (w : Nat) (table : List G) (scalar : List Nat) : Outcome (Option G) :=
  obind (wnafNew w) (fun w => wnafMulWithTable w table scalar)

/-! ### fixed-base batch multiplication (`BatchMulPreprocessing`) -/

/-- `ark_std::log2`: `⌈log₂ x⌉`, `0` for `x = 0` -/
def log2Ceil (x : Nat) : Nat :=
  if x = 0 then 0 else if 2 ^ Nat.log2 x = x then Nat.log2 x else Nat.log2 x + 1

/-- `ln_without_floats(a) = (log2(a) * 69 / 100)` -/
def lnWithoutFloats (a : Nat) : Nat := log2Ceil a * 69 / 100

/-- `BatchMulPreprocessing::compute_window_size` -/
def computeWindowSize (numScalars : Nat) : Nat :=
  if numScalars < 32 then 3 else lnWithoutFloats numScalars

def ceilDiv (a b : Nat) : Nat := (a + b - 1) / b

structure BatchTable (G : Type) where
  window : Nat
  maxScalarSize : Nat
  table : List (List G)

/-- `for _ in 0..outerc { g_outers.push(g_outer); for _ in 0..window { g_outer.double_in_place() } }` -/
def gOuters (window : Nat) : Nat → G → List G
  | 0, _ => []
  | n + 1, g => g :: gOuters window n (iter (fun x => x + x) window g)

/-- `for inner in row.iter_mut().take(cur_in_window) { *inner = g_inner; g_inner += &g_outer }` -/
def rowLoop (gOuter : G) : Nat → G → List G
  | 0, _ => []
  | n + 1, gInner => gInner :: rowLoop gOuter n (gInner + gOuter)

/-- one row: `in_window` entries, the first `cur_in_window` filled, the rest left at `T::zero()` -/
def tableRow (gOuter : G) (inWindow curInWindow : Nat) : List G :=
  let filled := rowLoop gOuter (min curInWindow inWindow) 0
  filled ++ List.replicate (inWindow - filled.length) 0

def tableRows (inWindow lastInWindow outerc : Nat) : Nat → List G → List (List G)
  | _, [] => []
  | outer, g :: gs =>
    tableRow g inWindow (if outer + 1 = outerc then lastInWindow else inWindow)
      :: tableRows inWindow lastInWindow outerc (outer + 1) gs

/-- `BatchMulPreprocessing::with_num_scalars_and_scalar_size(base, num_scalars, max_scalar_size)`.
    `window ≥ 3` always.  `last_in_window = 1 << (max_scalar_size - outerc.saturating_sub(1) * window)`
    (`Nat` subtraction saturates likewise); for `max_scalar_size = 0` there are no rows. -/
def withNumScalarsAndScalarSize (base : G) (numScalars maxScalarSize : Nat) : BatchTable G :=
  let window := computeWindowSize numScalars
  let inWindow := 2 ^ window
  let outerc := ceilDiv maxScalarSize window
  let lastInWindow := 2 ^ (maxScalarSize - (outerc - 1) * window)
  let gs := gOuters window outerc base
  { window := window, maxScalarSize := maxScalarSize,
    table := tableRows inWindow lastInWindow outerc 0 gs }

/-- `BatchMulPreprocessing::new(base, num_scalars)`: `scalar_size = MODULUS_BIT_SIZE` -/
def batchNew (modulusBits : Nat) (base : G) (numScalars : Nat) : BatchTable G :=
  withNumScalarsAndScalarSize base numScalars modulusBits

/-- `inner |= 1 << i` for `i in 0..window` when
    `outer*window + i < modulus_size && scalar_val[outer*window + i]` (`&&` short-circuits) -/
def windowDigit (window modulusSize : Nat) (bitsLE : List Bool) (outer : Nat) : Nat → Nat → Outcome Nat
  | 0, acc => .ok acc
  | n + 1, acc =>
    let i := window - (n + 1)
    let idx := outer * window + i
    if idx < modulusSize then
      match bitsLE[idx]? with
      | none => .panic
      | some b => windowDigit window modulusSize bitsLE outer n (if b then acc + 2 ^ i else acc)
    else windowDigit window modulusSize bitsLE outer n acc

def windowedLoop (t : BatchTable G) (modulusSize : Nat) (bitsLE : List Bool) (outerc : Nat) : Nat → G → Outcome G
  | 0, res => .ok res
  | n + 1, res =>
    let outer := outerc - (n + 1)
    match windowDigit t.window modulusSize bitsLE outer t.window 0 with
    | .panic => .panic
    | .ok inner =>
      match t.table[outer]? with
      | none => .panic
      | some row =>
        match row[inner]? with
        | none => .panic
        | some e => windowedLoop t modulusSize bitsLE outerc n (res + e)

/-- `BatchMulPreprocessing::windowed_mul(scalar)`; `scalar` = limbs of `into_bigint()`,
    `modulusSize = MODULUS_BIT_SIZE`; `let mut res = T::zero()` (an empty table only represents zero) -/
def windowedMul (t : BatchTable G) (modulusSize : Nat) (scalar : List Nat) : Outcome G :=
  if t.window = 0 then .panic            -- `div_ceil(0)`; unreachable for tables built by the constructors
  else
    let outerc := ceilDiv t.maxScalarSize t.window
    windowedLoop t modulusSize (toBitsLE scalar) outerc outerc 0

def mapOutcome {α β} (f : α → Outcome β) : List α → Outcome (List β)
  | [] => .ok []
  | a :: as =>
    match f a with
    | .panic => .panic
    | .ok b => omap (fun bs => b :: bs) (mapOutcome f as)

/-- `BatchMulPreprocessing::batch_mul(v)` -/
def batchMul (t : BatchTable G) (modulusSize : Nat) (v : List (List Nat)) : Outcome (List G) :=
  mapOutcome (windowedMul t modulusSize) v

/-- `ScalarMul::batch_mul(self, v)` -/
def scalarMulBatchMul (modulusSize : Nat) (base : G) (v : List (List Nat)) : Outcome (List G) :=
  batchMul (batchNew modulusSize base v.length) modulusSize v

end generic

/-! ### specification-level twisted-Edwards group (complete addition law; `a x² + y² = 1 + d x² y²`)
    — the driver executes the generic routines above at `Ark.AffPt` for short-Weierstrass curves
    and here for twisted-Edwards curves. -/

structure TEParams (p : Nat) where
  a : Fp p
  d : Fp p

structure TEPt (p : Nat) (E : TEParams p) where
  x : Fp p
  y : Fp p
  deriving DecidableEq

namespace TEPt
variable {p : Nat} {E : TEParams p}

def teAdd (P Q : TEPt p E) : TEPt p E :=
  let t := E.d * (P.x * Q.x * (P.y * Q.y))
  ⟨(P.x * Q.y + P.y * Q.x) / ((1 : Fp p) + t), (P.y * Q.y - E.a * (P.x * Q.x)) / ((1 : Fp p) - t)⟩

def teNeg (P : TEPt p E) : TEPt p E := ⟨- P.x, P.y⟩

instance : Zero (TEPt p E) := ⟨⟨0, 1⟩⟩
instance : Add (TEPt p E) := ⟨teAdd⟩
instance : Neg (TEPt p E) := ⟨teNeg⟩
instance : Sub (TEPt p E) := ⟨fun P Q => teAdd P (teNeg Q)⟩
instance : Inhabited (TEPt p E) := ⟨0⟩

def onCurve (P : TEPt p E) : Bool :=
  E.a * (P.x * P.x) + P.y * P.y == (1 : Fp p) + E.d * (P.x * P.x * (P.y * P.y))

/-- reference scalar multiplication (LSB-first double-and-add on `Nat`) -/
def smulAux : Nat → Nat → TEPt p E → TEPt p E → TEPt p E
  | 0, _, _, acc => acc
  | fuel + 1, k, base, acc =>
    if k = 0 then acc
    else smulAux fuel (k / 2) (teAdd base base) (if k % 2 = 1 then teAdd acc base else acc)

def smul (k : Nat) (P : TEPt p E) : TEPt p E := smulAux (k.log2 + 2) k P 0

end TEPt

end Ark.ScalarMul
