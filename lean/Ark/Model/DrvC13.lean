import Ark.Model.H2C
import Ark.Model.Sha256
import Ark.Model.Proto
/-
  Driver dispatch for C13 (hash-to-field / hash-to-curve).  Line syntax: see harness/src/bin/c13.rs.
  Configurations (curve / isogeny / Elligator constants read by the harness from the public trait
  constants) arrive in header lines `cfg.*` and are cached in the driver state.

  model output = what `Ark.H2C` (the transcription of the Rust code) computes, plus ` @branch`;
  verdict      = the executable specification `Ark.H2C.Rfc` (transcription of RFC 9380) and the curve
                 equations applied to the implementation's output:
    h2f      impl = RFC §5.2 with expand_message_xmd(SHA-256, s_in_bytes = 64), L = ⌈(⌈log2 p⌉ + k)/8⌉;
             an RFC ABORT must be a panic.  A deviation is `bad` when L = 64 (the supported suites), `note:` otherwise
             (`DefaultFieldHasher` runs the expander with Z_pad of L bytes: conformant iff L = 64).
    swu      on E', (y = 0 or sgn0 y = sgn0 u), impl = RFC §6.6.2      (differences confined to y = 0, i.e. to a
             curve with rational 2-torsion where the code treats gx1 = 0 as a non-square, are `note:`)
    wb       on E (else `bad:offcurve`), impl = iso_map(RFC sswu(u)) with the identity at the poles of the isogeny
    ell      on the twisted Edwards curve, impl = RFC §6.7.1 followed by the rational map of Appendix D.1
    hash     on the curve, r·P = O, impl = RFC §3 hash_to_curve (`bad` for g1/g2, `note:` for toy suites with L ≠ 64)
    rfcvec.* the RFC's published vectors (JSON files of the repository) against the spec transcription and the model
    h2f_xof  the free function `hash_to_field::<F, H: XofReader, SEC_PARAM>` on a reader that yields a given stream:
             impl = RFC §5.2 steps 3–8 on that stream (zero-padded when too short), exactly m·L bytes requested;
             the panic for L > 2048 (2048-byte stack buffer; SEC_PARAM is not bounded by the documentation) is a `note:`
    cfg.* / chk.wb / new : `check_parameters` and `MapToCurveBasedHasher::new`.  Model = what the code does in a build
             without debug assertions (`Ok(())`); verdict = the DOCUMENTED conditions ("Checks if `P` represents a valid
             map", the doc comments of `SWUConfig` / `Elligator2Config`): a configuration that violates one and is accepted
             gives `note:check_parameters accepted an invalid configuration (…)` (the property C13 as registered does not
             cover `check_parameters`; the finding is reported separately).  The maps on such configurations: `note:`.
    xshipped (extra stream `c13x` over the curve crates, harness2/src/bin/c13x.rs; all other lines of that stream use the ops
             above with ids `g1`, `g1iso`, `g2`, `g2iso` (ark_bls12_381), `b377*` (ark_bls12_377), `band` (Bandersnatch)):
             a configuration shipped by a curve crate that violates a condition is `bad`, not a note.
-/
namespace Ark.DrvC13
open Ark Ark.Proto Ark.H2C

/-! ### configurations -/

inductive Cfg where
  | sw (p m beta : Nat) (a b zeta : List Nat) (cof r : Nat) (valid : Bool)
  | wb (swid : String) (a b : List Nat) (heff r : Nat) (xn xd yn yd : List (List Nat))
  | ell (p m beta : Nat) (tea ted ma mb z ksqinv jonk : List Nat) (cof r : Nat)

structure Cache where
  cfgs : List (String × Cfg) := []
  /-- ids of the configurations that violate a documented condition of `check_parameters`, with the condition(s) -/
  inv : List (String × String) := []

def Cache.find (c : Cache) (id : String) : Option Cfg := (c.cfgs.find? (·.1 == id)).map (·.2)
def Cache.put (c : Cache) (id : String) (g : Cfg) : Cache :=
  { c with cfgs := (id, g) :: c.cfgs.filter (·.1 != id), inv := c.inv.filter (·.1 != id) }
def Cache.invOf (c : Cache) (id : String) : Option String := (c.inv.find? (·.1 == id)).map (·.2)
/-- record violated conditions (added to those already recorded for `id`) -/
def Cache.markInv (c : Cache) (id : String) (why : List String) : Cache :=
  if why.isEmpty then c
  else
    let old := match c.invOf id with | some w => [w] | none => []
    { c with inv := (id, joinWith "; " (old ++ why)) :: c.inv.filter (·.1 != id) }

/-! ### syntax -/

def hexNibble? (c : Char) : Option Nat := hexDigit? c

def parseBytesAux : List Char → Option (List Nat)
  | [] => some []
  | a :: b :: rest => do
    let x ← hexNibble? a; let y ← hexNibble? b; let t ← parseBytesAux rest
    some ((x * 16 + y) :: t)
  | _ => none

def parseBytes? (s : String) : Option (List Nat) := if s == "_" then some [] else parseBytesAux s.toList

def bytesStr (b : List Nat) : String :=
  if b.isEmpty then "_" else String.ofList (b.flatMap fun x => [hexChar (x / 16), hexChar (x % 16)])

def parseElts? (s : String) : Option (List (List Nat)) :=
  if s == "_" then some [] else mapM? parseList? (s.splitOn ";")

def eltStr (cs : List Nat) : String := joinWith "," (cs.map hex)
def eltsStr (l : List (List Nat)) : String := if l.isEmpty then "_" else joinWith ";" (l.map eltStr)

def vs (impl spec : String) : String := if impl == spec then "ok" else "bad:want=" ++ spec

/-- encode / decode field elements as coordinate lists -/
structure Codec (F : Type) where
  dec : List Nat → Option F
  enc : F → String

def fpCodec (p : Nat) : Codec (Fp p) where
  dec := fun l => match l with | [a] => if a < p then some ⟨a⟩ else none | _ => none
  enc := fun a => hex a.val

def q2Codec (p β : Nat) : Codec (Q2 p β) where
  dec := fun l => match l with | [a, b] => if a < p ∧ b < p then some ⟨⟨a⟩, ⟨b⟩⟩ else none | _ => none
  enc := fun a => hex a.c0.val ++ "," ++ hex a.c1.val

def sha := Ark.Sha256.sha256

/-! ### field-generic runners -/

section gen
variable {F : Type} [Add F] [Sub F] [Mul F] [Neg F] [Zero F] [One F] [Inv F] [Div F] [DecidableEq F]
variable (X : FieldX F) (C : Codec F)

def swStr : SwPt F → String
  | none => "inf"
  | some (x, y) => C.enc x ++ " " ++ C.enc y

def pairStr (P : F × F) : String := C.enc P.1 ++ " " ++ C.enc P.2

def oStr {α : Type} (f : α → String) : Outcome α → String
  | .ok a => f a
  | .panic => "panic"

def parsePair? (s : String) : Option (F × F) :=
  match s.splitOn " " with
  | [xs, ys] => do
    let x ← C.dec (← parseList? xs); let y ← C.dec (← parseList? ys); some (x, y)
  | _ => none

def parseSlashPair? (s : String) : Option (F × F) :=
  match s.splitOn "/" with
  | [xs, ys] => do
    let x ← C.dec (← parseList? xs); let y ← C.dec (← parseList? ys); some (x, y)
  | _ => none

def parseSw? (s : String) : Option (SwPt F) :=
  if s == "inf" then some none else (parsePair? C s).map some

def decIso (xn xd yn yd : List (List Nat)) : Option (Iso F) := do
  some ⟨← mapM? C.dec xn, ← mapM? C.dec xd, ← mapM? C.dec yn, ← mapM? C.dec yd⟩

/-- `cfg.sw`: ZETA a non-square, a·b ≠ 0 (what `check_parameters` debug-asserts) and criterion 4 of RFC 9380 §6.6.2
    (which it does not) -/
def validSw (a b zeta : F) : Bool := Rfc.sswuParamsOk X a b zeta

/-- a would-be `bad` verdict on a configuration that violates the preconditions of the map is only a note -/
def soften (valid : Bool) (v : String) : String :=
  if !valid && v.startsWith "bad" then "note:invalid SWU / isogeny parameters (see cfg.sw, chk.wb): " ++ v else v

/-- the documented conditions of `SWUMap::check_parameters` / `SWUConfig` that `(a, b, zeta)` violates -/
def swDocViolations (a b zeta : F) : List String :=
  (if Rfc.isSquare X zeta then [if zeta = 0 then "ZETA = 0 is not a non-square" else "ZETA is a square"] else [])
    ++ (if a = 0 then ["COEFF_A = 0"] else []) ++ (if b = 0 then ["COEFF_B = 0"] else [])

/-- the documented conditions of `Elligator2Map::check_parameters` / `Elligator2Config` that the constants violate -/
def ellDocViolations (ma mb z ksqinv jonk : F) : List String :=
  (if Rfc.isSquare X z then
      [if z = 0 then "Z = 0 is not a non-square (and `!Z.legendre().is_qr()` holds for 0: not caught in a debug build either)"
       else "Z is a square"] else [])
    ++ (if mb = 0 then ["Montgomery COEFF_B = 0 (1/COEFF_B² does not exist)"]
        else (if ksqinv * (mb * mb) != 1 then ["ONE_OVER_COEFF_B_SQUARE ≠ 1/COEFF_B²"] else [])
          ++ (if jonk * mb != ma then ["COEFF_A_OVER_COEFF_B ≠ COEFF_A/COEFF_B"] else []))

/-- verdict of a `check_parameters` / `new` line: `viol` = the documented conditions violated by the configuration -/
def chkVerdict (what : String) (viol : List String) (impl : String) : String :=
  if viol.isEmpty then (if impl == "ok" then "ok" else "bad:" ++ what ++ " rejected a valid configuration: " ++ impl)
  else if impl == "ok" then "note:" ++ what ++ " accepted an invalid configuration (" ++ joinWith "; " viol ++ ")"
  else "ok"     -- rejected (Err, or the documented panic)

/-- `chk.wb <id> <gen>`: `WBMap::<P>::check_parameters()` = `ISOGENY_MAP.apply(IsogenousCurve::GENERATOR)` (never `Err`), a
    `debug_assert!` (compiled out), `SWUMap::<IsogenousCurve>::check_parameters().unwrap()` (always `Ok`).
    Returns the model output and the violated documented conditions (image of the generator by the RFC's `iso_map`
    on the codomain `(a, b)`; SWU conditions on `(a', b', zeta)`). -/
def runChkWb (iso : Iso F) (a b a' b' zeta : F) (g : SwPt F) : String × List String :=
  let m := isoApply iso g
  let tag := match g, m with
    | none, _ => "geninf"
    | some _, .ok none => "genpole"
    | _, _ => "gen"
  let mstr := (match m with | .ok _ => "ok" | .panic => "panic") ++ " @" ++ tag
  let img : SwPt F := match g with | none => none | some pt => Rfc.isoMap iso pt
  let viol :=
    (if swOnCurve a b img then [] else ["the isogeny maps the generator of the isogenous curve to " ++ swStr C img ++ ", not on the codomain"])
      ++ (swDocViolations X a' b' zeta).map (fun w => "isogenous curve: " ++ w)
  (mstr, viol)

/-- `swu <id> <u>` -/
def runSwu (valid : Bool) (a b zeta u : F) (impl : String) : String × String :=
  let m := swuMapB X a b zeta u
  let mstr := match m with
    | .ok (P, tag) => pairStr C P ++ " @" ++ tag
    | .panic => "panic"
  let spec := Rfc.sswu X a b zeta u
  let verdict :=
    match parsePair? C impl with
    | none => "bad:" ++ impl
    | some (x, y) =>
      if !(swOnCurve a b (some (x, y))) then "bad:offcurve"
      else if y != 0 && Rfc.sgn0F X y != Rfc.sgn0F X u then "bad:sign"
      else if (x, y) = spec then "ok"
      else if Rfc.sswuGx1 a b zeta u = 0 then "note:gx1=0 treated as non-square (curve with rational 2-torsion); rfc=" ++ pairStr C spec
      else "bad:want=" ++ pairStr C spec
  (mstr, soften valid verdict)

/-- `wb <id> <u>` : `(a', b', zeta)` the isogenous curve, `(a, b)` the target -/
def runWb (valid : Bool) (a' b' zeta : F) (iso : Iso F) (a b : F) (u : F) (impl : String) : String × String :=
  let m := wbMap X a' b' zeta iso u
  let q := Rfc.sswu X a' b' zeta u
  let spec := Rfc.isoMap iso q
  let tag := if spec.isNone then "pole" else "regular"
  let mstr := oStr (swStr C) m ++ " @" ++ tag
  let verdict :=
    match parseSw? C impl with
    | none => "bad:" ++ impl
    | some P =>
      if !(swOnCurve a b P) then "bad:offcurve want=" ++ swStr C spec
      else if P = spec then "ok"
      else if Rfc.sswuGx1 a' b' zeta u = 0 then "note:gx1=0 treated as non-square (curve with rational 2-torsion); rfc=" ++ swStr C spec
      else "bad:want=" ++ swStr C spec
  (mstr, soften valid verdict)

/-- `ell <id> <u>` -/
def runEll (valid : Bool) (tea ted ma mb z ksqinv jonk : F) (u : F) (impl : String) : String × String :=
  let m := ell2MapB X mb jonk ksqinv z u
  let mstr := match m with
    | .ok (P, tag) => pairStr C P ++ " @" ++ tag
    | .panic => "panic"
  let spec := Rfc.elligator2Edwards X ma mb z u
  let verdict :=
    match parsePair? C impl with
    | none => "bad:" ++ impl
    | some P =>
      if !(teOnCurve tea ted P) then "bad:offcurve"
      else if P = spec then "ok" else "bad:want=" ++ pairStr C spec
  (mstr, if !valid && verdict.startsWith "bad" then "note:invalid Elligator 2 parameters (see cfg.ell): " ++ verdict else verdict)

/-- `cfg.ell`: Z a non-square, the two derived constants, the Montgomery ↔ Edwards relation -/
def validEll (tea ted ma mb z ksqinv jonk : F) : Bool :=
  !(Rfc.isSquare X z) && mb != 0 && ksqinv * (mb * mb) == 1 && jonk * mb == ma
    && tea * mb == ma + (1 + 1) && ted * mb == ma - (1 + 1)

/-- `k · P`: the affine definition `swSmul` for short scalars (and then `swSmulJ` must agree with it — second
    component), the Jacobian evaluation `swSmulJ` for long ones (r, the h_eff of G2) -/
def smulChecked (a : F) (k : Nat) (P : SwPt F) : SwPt F × Bool :=
  let j := swSmulJ a k P
  if k < 2 ^ 70 then let s := swSmul a k P; (s, s = j) else (j, true)

/-- model of `MapToCurveBasedHasher::hash` (SW target): elements → points → sum → cofactor clearing -/
def modelHashSw (mapM : F → Outcome (SwPt F)) (a : F) (heff : Nat) (us : List (List Nat)) : Outcome (SwPt F) :=
  match us.map C.dec with
  | [some u0, some u1] =>
    obind (mapM u0) fun q0 => obind (mapM u1) fun q1 => .ok (smulChecked a heff (swAdd a q0 q1)).1
  | _ => .panic

/-- the two mapped points of the model (before addition / cofactor clearing) -/
def modelPts (mapM : F → Outcome (SwPt F)) (us : List (List Nat)) : Outcome (SwPt F × SwPt F) :=
  match us.map C.dec with
  | [some u0, some u1] => obind (mapM u0) fun q0 => obind (mapM u1) fun q1 => .ok (q0, q1)
  | _ => .panic

/-- verdict of a full hash onto a SW curve -/
def hashVerdictSw (a b : F) (r : Nat) (strict : Bool) (spec : Option (SwPt F)) (impl : String) : String :=
  match parseSw? C impl with
  | none => "bad:" ++ impl
  | some P =>
    if !(swOnCurve a b P) then "bad:offcurve"
    else if r != 0 && swSmulJ a r P != none then "bad:not-in-subgroup"
    else match spec with
      | none => "bad:rfc-abort"
      | some S =>
        if P = S then "ok"
        else if strict then "bad:want=" ++ swStr C S
        else "note:L≠64 (Z_pad of L bytes); rfc=" ++ swStr C S

/-- `hash <id> …` (WB suites) and, with `iso? = none`, `hashswu <id> …` (plain SWU onto the curve itself) -/
def runHashSw (p m : Nat) (aT bT : List Nat) (heff r : Nat) (a' b' zeta : List Nat)
    (iso? : Option (List (List Nat) × List (List Nat) × List (List Nat) × List (List Nat)))
    (dst msg : List Nat) (impl : String) : Option (String × String) := do
  let bits := Rfc.ceilLog2 p
  let a ← C.dec aT; let b ← C.dec bT; let a' ← C.dec a'; let b' ← C.dec b'; let zeta ← C.dec zeta
  let iso : Option (Iso F) ← match iso? with
    | some (xn, xd, yn, yd) => (decIso C xn xd yn yd).map some
    | none => some none
  let mapModel : F → Outcome (SwPt F) := match iso with
    | some iso => wbMap X a' b' zeta iso
    | none => fun u => obind (swuMap X a' b' zeta u) fun q => .ok (some q)
  let mapSpec : F → SwPt F := match iso with
    | some iso => fun u => Rfc.isoMap iso (Rfc.sswu X a' b' zeta u)
    | none => fun u => some (Rfc.sswu X a' b' zeta u)
  let mpts := obind (hashToField sha 32 p bits m 128 2 dst msg) fun us => modelPts C mapModel us
  let modelC := obind mpts fun (q0, q1) => .ok (smulChecked a heff (swAdd a q0 q1))   -- = hashFinishSw a heff q0 q1
  let model := obind modelC fun r => .ok r.1
  let smulOk := match modelC with | .ok r => r.2 | .panic => true
  let spec : Option (SwPt F) := do
    let us ← Rfc.hashToField sha 32 64 p m 128 dst msg 2
    match us.map C.dec with
    | [some u0, some u1] =>
      let s0 := mapSpec u0; let s1 := mapSpec u1
      -- (run-time shortcut only: when the mapped points coincide with the model's, reuse its h_eff multiple)
      match mpts, model with
      | .ok (q0, q1), .ok P => if q0 = s0 ∧ q1 = s1 then some P else some (smulChecked a heff (swAdd a s0 s1)).1
      | _, _ => some (smulChecked a heff (swAdd a s0 s1)).1           -- = Rfc.finishSw a heff s0 s1
    | _ => none
  let strict := Rfc.paramL p 128 == 64
  some (oStr (swStr C) model ++ (if strict then " @L64" else " @Lother"),
        if smulOk then hashVerdictSw C a b r strict spec impl else "bad:driver: swSmulJ ≠ swSmul")

/-- `rfcvec.hash`: the RFC's published vector (u, Q0, Q1, P) against the spec transcription; model output = the model's P -/
def runRfcVecHash (p m : Nat) (aT : List Nat) (heff : Nat) (a' b' zeta : List Nat)
    (xn xd yn yd : List (List Nat)) (dst msg : List Nat) (usJ : List (List Nat)) (q0 q1 : String) (impl : String) :
    Option (String × String) := do
  let bits := Rfc.ceilLog2 p
  let a ← C.dec aT; let a' ← C.dec a'; let b' ← C.dec b'; let zeta ← C.dec zeta
  let iso ← decIso C xn xd yn yd
  let q0J ← parseSlashPair? C q0; let q1J ← parseSlashPair? C q1
  let model := obind (hashToField sha 32 p bits m 128 2 dst msg) fun us =>
    modelHashSw C (wbMap X a' b' zeta iso) a heff us
  let us ← Rfc.hashToField sha 32 64 p m 128 dst msg 2
  let v : String :=
    if us != usJ then "bad:rfc-vector u"
    else match us.map C.dec with
      | [some u0, some u1] =>
        let s0 := Rfc.isoMap iso (Rfc.sswu X a' b' zeta u0)
        let s1 := Rfc.isoMap iso (Rfc.sswu X a' b' zeta u1)
        if s0 != some q0J then "bad:rfc-vector Q0"
        else if s1 != some q1J then "bad:rfc-vector Q1"
        else if swStr C (smulChecked a heff (swAdd a s0 s1)).1 != impl then "bad:rfc-vector P"   -- Rfc.finishSw
        else "ok"
      | _ => "bad:rfc-vector u"
  some (oStr (swStr C) model, v)

/-- `ehash <id> …` -/
def runEhash (p m : Nat) (tea ted ma mb z ksqinv jonk : List Nat) (cof r : Nat) (dst msg : List Nat) (impl : String) :
    Option (String × String) := do
  let bits := Rfc.ceilLog2 p
  let tea ← C.dec tea; let ted ← C.dec ted; let ma ← C.dec ma; let mb ← C.dec mb
  let z ← C.dec z; let ksqinv ← C.dec ksqinv; let jonk ← C.dec jonk
  let model : Outcome (F × F) := obind (hashToField sha 32 p bits m 128 2 dst msg) fun us =>
    match us.map C.dec with
    | [some u0, some u1] =>
      obind (ell2Map X mb jonk ksqinv z u0) fun q0 => obind (ell2Map X mb jonk ksqinv z u1) fun q1 =>
        .ok (teSmul tea ted cof (teAdd tea ted q0 q1))
    | _ => .panic
  let spec : Option (F × F) := do
    let us ← Rfc.hashToField sha 32 64 p m 128 dst msg 2
    match us.map C.dec with
    | [some u0, some u1] =>
      some (teSmul tea ted cof (teAdd tea ted (Rfc.elligator2Edwards X ma mb z u0) (Rfc.elligator2Edwards X ma mb z u1)))
    | _ => none
  let strict := Rfc.paramL p 128 == 64
  let v : String :=
    match parsePair? C impl with
    | none => "bad:" ++ impl
    | some P =>
      if !(teOnCurve tea ted P) then "bad:offcurve"
      else if r != 0 && teSmul tea ted r P != (0, 1) then "bad:not-in-subgroup"
      else match spec with
        | none => "bad:rfc-abort"
        | some S =>
          if P = S then "ok" else if strict then "bad:want=" ++ pairStr C S
          else "note:L≠64 (Z_pad of L bytes); rfc=" ++ pairStr C S
  some (oStr (pairStr C) model ++ (if strict then " @L64" else " @Lother"), v)

end gen

/-! ### hash_to_field -/

def h2fStr : Outcome (List (List Nat)) → String
  | .ok l => eltsStr l
  | .panic => "panic"

def runH2f (p bits m sec n : Nat) (dst msg : List Nat) (impl : String) : String × String :=
  let model := hashToField sha 32 p bits m sec n dst msg
  let L := getLenPerElem bits sec
  let tag := (if L == 64 then "L64" else "Lother") ++ (match model with | .panic => ":panic" | _ => "")
  let spec := Rfc.hashToField sha 32 64 p m sec dst msg n
  let specStr := match spec with | some l => eltsStr l | none => "panic"
  let verdict :=
    if bits != Rfc.ceilLog2 p then "bad:MODULUS_BIT_SIZE"
    else if impl == specStr then "ok"
    else if Rfc.paramL p sec == 64 then "bad:want=" ++ specStr
    else "note:L=" ++ toString (Rfc.paramL p sec) ++ "≠64: the expander is run with Z_pad of L bytes, RFC s_in_bytes=64"
  (h2fStr model ++ " @" ++ tag, verdict)

/-- `h2f_xof <p> <bits> <m> <sec> <stream>`: model = `hashToFieldXof` on the harness's reader (`streamReader`);
    spec = RFC 9380 §5.2 steps 3–8 on the stream (zero-padded on the right when shorter than `m·L`), `m·L` bytes requested -/
def runH2fXof (p bits m sec : Nat) (stream : List Nat) (impl : String) : String × String :=
  let model := hashToFieldXof streamReader p bits m sec (stream, 0)
  let L := Rfc.paramL p sec
  let need := Rfc.lenInBytes1 p m sec
  let tag := (if stream.length < need then "short" else if stream.length == need then "exact" else "long")
    ++ (match model with | .panic => ":panic" | _ => "")
  let mstr := match model with
    | .ok (cs, (_, cnt)) => eltStr cs ++ " " ++ hex cnt
    | .panic => "panic"
  let padded := stream ++ List.replicate (need - stream.length) 0
  let specStr := eltStr (Rfc.hashToFieldOfBytes p m sec padded) ++ " " ++ hex need
  let verdict :=
    if bits != Rfc.ceilLog2 p then "bad:MODULUS_BIT_SIZE"
    else if impl == specStr then "ok"
    else if impl == "panic" && L > 2048 then
      "note:hash_to_field (XofReader) panics for L=" ++ toString L ++ ">2048 (slice of the 2048-byte stack buffer; SEC_PARAM is not bounded by the documentation); rfc=" ++
        (if specStr.length > 80 then "…" else specStr)
    else "bad:want=" ++ specStr
  (mstr ++ " @" ++ tag, verdict)

/-! ### dispatch -/

/-- instantiate the field of a configuration and run `k` on it -/
def withField {α : Type} (p m beta : Nat)
    (k : {F : Type} → [Add F] → [Sub F] → [Mul F] → [Neg F] → [Zero F] → [One F] → [Inv F] → [Div F] → [DecidableEq F] →
         FieldX F → Codec F → Option α) : Option α :=
  if m == 1 then k (fpX p) (fpCodec p)
  else if m == 2 then k (q2X p beta) (q2Codec p beta)
  else none

def isG1Iso (p m : Nat) (a b zeta : List Nat) : Bool :=
  p == Rfc.blsP && m == 1 && a == [Rfc.g1A] && b == [Rfc.g1B] && zeta == [Rfc.g1Z]
def isG2Iso (p m beta : Nat) (a b zeta : List Nat) : Bool :=
  p == Rfc.blsP && m == 2 && beta == Rfc.blsP - 1 && a == [Rfc.g2A.1, Rfc.g2A.2] && b == [Rfc.g2B.1, Rfc.g2B.2]
    && zeta == [Rfc.g2Z.1, Rfc.g2Z.2]

def run (cache : Cache) (op : String) (args : List String) (impl : String) : Option (Cache × String × String) := do
  let out (m s : String) : Option (Cache × String × String) := some (cache, m, s)
  match op, args with
  | "sha256", [b] =>
    let b ← parseBytes? b
    let d := bytesStr (sha b)
    out d (vs impl d)
  | "h2f", [p, bits, m, sec, n, dst, msg] =>
    let p ← parseHex? p; let bits ← parseHex? bits; let m ← parseHex? m; let sec ← parseHex? sec; let n ← parseHex? n
    let dst ← parseBytes? dst; let msg ← parseBytes? msg
    let (ms, v) := runH2f p bits m sec n dst msg impl
    out ms v
  | "h2f_xof", [p, bits, m, sec, st] =>
    let p ← parseHex? p; let bits ← parseHex? bits; let m ← parseHex? m; let sec ← parseHex? sec
    let st ← parseBytes? st
    let (ms, v) := runH2fXof p bits m sec st impl
    out ms v
  | "parity", [p, _m, e] =>
    let _ ← parseHex? p
    let cs ← parseList? e
    let ms := boolStr (parityCoords cs)
    out ms (vs impl (toString (Rfc.sgn0 cs)))
  | "rfcvec.xmd", [dst, msg, len] =>
    let dst ← parseBytes? dst; let msg ← parseBytes? msg; let len ← parseHex? len
    let implB ← parseBytes? impl
    let ms := match expandXmd sha 32 64 dst msg len with | .ok b => bytesStr b | .panic => "panic"
    let v := if Rfc.expandMessageXmd sha 32 64 msg dst len == some implB then "ok" else "bad:spec-transcription-vs-rfc-vector"
    out (if ms == bytesStr implB then impl else ms) v
  -- configurations ----------------------------------------------------------------------------
  | "cfg.sw", [id, p, m, beta, a, b, zeta, cof, r] =>
    let p ← parseHex? p; let m ← parseHex? m; let beta ← parseHex? beta
    let a ← parseList? a; let b ← parseList? b; let zeta ← parseList? zeta
    let cof ← parseHex? cof; let r ← parseHex? r
    let (valid, viol) ← withField p m beta fun X C => do
      let a ← C.dec a; let b ← C.dec b; let zeta ← C.dec zeta
      some (validSw X a b zeta, swDocViolations X a b zeta)
    let v :=
      if id == "g1iso" && !(isG1Iso p m a b zeta) then "bad:constants differ from RFC 9380 §8.8.1"
      else if id == "g2iso" && !(isG2Iso p m beta a b zeta) then "bad:constants differ from RFC 9380 §8.8.2"
      else if valid then chkVerdict "check_parameters" [] impl
      else if id == "g1iso" || id == "g2iso" then "bad:invalid SWU parameters"
      else if viol.isEmpty then
        "note:invalid SWU parameters (g(B/(ZETA·A)) is not a non-zero square: RFC 9380 §6.6.2 criterion 4, not a condition of check_parameters)"
      else chkVerdict "check_parameters" viol impl
    some ((cache.put id (.sw p m beta a b zeta cof r valid)).markInv id viol, "ok", v)
  | "cfg.wb", [id, swid, a, b, heff, r, xn, xd, yn, yd] =>
    let a ← parseList? a; let b ← parseList? b; let heff ← parseHex? heff; let r ← parseHex? r
    let xn ← parseElts? xn; let xd ← parseElts? xd; let yn ← parseElts? yn; let yd ← parseElts? yd
    let _ ← cache.find swid
    let v :=
      if id == "g1" && !(a == [0] && b == [4] && heff == Rfc.g1HEff && r == Rfc.blsR && swid == "g1iso") then
        "bad:constants differ from RFC 9380 §8.8.1"
      else if id == "g2" && !(a == [0, 0] && b == [4, 4] && heff == Rfc.g2HEff && r == Rfc.blsR && swid == "g2iso") then
        "bad:constants differ from RFC 9380 §8.8.2"
      else "ok"
    let viol := match cache.invOf swid with | some w => ["isogenous curve " ++ swid ++ ": " ++ w] | none => []
    some ((cache.put id (.wb swid a b heff r xn xd yn yd)).markInv id viol, "ok", v)
  | "cfg.ell", [id, p, m, beta, tea, ted, ma, mb, z, ksqinv, jonk, cof, r] =>
    let p ← parseHex? p; let m ← parseHex? m; let beta ← parseHex? beta
    let tea ← parseList? tea; let ted ← parseList? ted; let ma ← parseList? ma; let mb ← parseList? mb
    let z ← parseList? z; let ksqinv ← parseList? ksqinv; let jonk ← parseList? jonk
    let cof ← parseHex? cof; let r ← parseHex? r
    let (valid, viol) ← withField p m beta fun X C => do
      let ma' ← C.dec ma; let mb' ← C.dec mb; let z' ← C.dec z; let ksqinv' ← C.dec ksqinv; let jonk' ← C.dec jonk
      some (validEll X (← C.dec tea) (← C.dec ted) ma' mb' z' ksqinv' jonk', ellDocViolations X ma' mb' z' ksqinv' jonk')
    let why := if !valid && viol.isEmpty then ["the twisted Edwards and Montgomery coefficients do not match (not checked, by design)"] else viol
    some ((cache.put id (.ell p m beta tea ted ma mb z ksqinv jonk cof r)).markInv id why, "ok",
          if valid then chkVerdict "check_parameters" [] impl
          else if viol.isEmpty then "note:invalid Elligator 2 parameters"
          else chkVerdict "check_parameters" viol impl)
  -- `check_parameters` of a WB configuration with the generator of the isogenous curve; `MapToCurveBasedHasher::new`
  | "chk.wb", [id, gen] =>
    match ← cache.find id with
    | .wb swid a b _ _ xn xd yn yd =>
      match ← cache.find swid with
      | .sw p m beta a' b' zeta _ _ _ =>
        let (ms, viol) ← withField p m beta fun X C => do
          let g : SwPt _ ← if gen == "inf" then some none else (parseSlashPair? C gen).map some
          some (runChkWb X C (← decIso C xn xd yn yd) (← C.dec a) (← C.dec b) (← C.dec a') (← C.dec b') (← C.dec zeta) g)
        -- (the violations of the isogenous curve were recorded by `cfg.wb` already)
        let newViol := viol.filter fun w => !(w.startsWith "isogenous curve")
        some (cache.markInv id newViol, ms, chkVerdict "check_parameters" viol impl)
      | _ => none
    | _ => none
  -- extra stream `c13x` (curve crates, harness2/src/bin/c13x.rs): `xshipped <id>` follows the header lines of a configuration
  -- SHIPPED by a curve crate; impl = `check_parameters()` once more.  Such a configuration must satisfy every condition
  -- (for the toy configurations of the primary stream a violated condition only turns the later verdicts into notes):
  -- SWU parameters incl. RFC 9380 §6.6.2 criterion 4, the isogeny maps the generator of the isogenous curve onto the
  -- codomain, the Elligator 2 constants are consistent with the Montgomery / twisted Edwards coefficients.
  | "xshipped", [id] =>
    let g ← cache.find id
    let swWhy (sid : String) : List String := match cache.find sid with
      | some (.sw _ _ _ _ _ _ _ _ valid) =>
        if valid then [] else [sid ++ ": invalid SWU parameters (ZETA a square, a·b = 0, or g(B/(ZETA·A)) not a non-zero square)"]
      | _ => [sid ++ ": not a SWU configuration"]
    let why : List String := (match cache.invOf id with | some w => [w] | none => [])
      ++ (match g with
          | .sw .. => swWhy id
          | .wb swid .. => swWhy swid
          | .ell .. => [])
    out "ok" (if impl != "ok" then "bad:check_parameters rejected a shipped configuration: " ++ impl
              else if why.isEmpty then "ok" else "bad:shipped configuration is invalid: " ++ joinWith "; " why)
  | "new", [id] =>
    -- `new` = `#[cfg(test)] M2C::check_parameters()?; Ok(Self {..})`: outside ark-ec's own unit tests the call is compiled out
    let _ ← cache.find id
    let viol := match cache.invOf id with | some w => [w] | none => []
    out "ok" (chkVerdict "MapToCurveBasedHasher::new (check_parameters()? is under #[cfg(test)])" viol impl)
  -- maps ----------------------------------------------------------------------------------------
  | "swu", [id, u] =>
    let u ← parseList? u
    match ← cache.find id with
    | .sw p m beta a b zeta _ _ valid =>
      let (ms, v) ← withField p m beta fun X C => do
        some (runSwu X C valid (← C.dec a) (← C.dec b) (← C.dec zeta) (← C.dec u) impl)
      out ms v
    | _ => none
  | "wb", [id, u] =>
    let u ← parseList? u
    match ← cache.find id with
    | .wb swid a b _ _ xn xd yn yd =>
      match ← cache.find swid with
      | .sw p m beta a' b' zeta _ _ valid =>
        let valid := valid && (cache.invOf id).isNone
        let (ms, v) ← withField p m beta fun X C => do
          some (runWb X C valid (← C.dec a') (← C.dec b') (← C.dec zeta) (← decIso C xn xd yn yd) (← C.dec a) (← C.dec b) (← C.dec u) impl)
        out ms v
      | _ => none
    | _ => none
  | "ell", [id, u] =>
    let u ← parseList? u
    match ← cache.find id with
    | .ell p m beta tea ted ma mb z ksqinv jonk _ _ =>
      let valid := (cache.invOf id).isNone
      let (ms, v) ← withField p m beta fun X C => do
        some (runEll X C valid (← C.dec tea) (← C.dec ted) (← C.dec ma) (← C.dec mb) (← C.dec z) (← C.dec ksqinv) (← C.dec jonk) (← C.dec u) impl)
      out ms v
    | _ => none
  -- full hashes ---------------------------------------------------------------------------------
  | "hash", [id, dst, msg] =>
    let dst ← parseBytes? dst; let msg ← parseBytes? msg
    match ← cache.find id with
    | .wb swid a b heff r xn xd yn yd =>
      match ← cache.find swid with
      | .sw p m beta a' b' zeta _ _ _ =>
        let (ms, v) ← withField p m beta fun X C =>
          runHashSw X C p m a b heff r a' b' zeta (some (xn, xd, yn, yd)) dst msg impl
        out ms v
      | _ => none
    | _ => none
  | "rfcvec.hash", [id, dst, msg, us, q0, q1] =>
    let dst ← parseBytes? dst; let msg ← parseBytes? msg
    let usJ ← parseElts? us
    match ← cache.find id with
    | .wb swid a _b heff _r xn xd yn yd =>
      match ← cache.find swid with
      | .sw p m beta a' b' zeta _ _ _ =>
        let (ms, v) ← withField p m beta fun X C =>
          runRfcVecHash X C p m a heff a' b' zeta xn xd yn yd dst msg usJ q0 q1 impl
        out ms v
      | _ => none
    | _ => none
  | "hashswu", [id, dst, msg] =>
    let dst ← parseBytes? dst; let msg ← parseBytes? msg
    match ← cache.find id with
    | .sw p m beta a b zeta cof r _ =>
      let (ms, v) ← withField p m beta fun X C =>
        runHashSw X C p m a b cof r a b zeta none dst msg impl
      out ms v
    | _ => none
  | "ehash", [id, dst, msg] =>
    let dst ← parseBytes? dst; let msg ← parseBytes? msg
    match ← cache.find id with
    | .ell p m beta tea ted ma mb z ksqinv jonk cof r =>
      let (ms, v) ← withField p m beta fun X C =>
        runEhash X C p m tea ted ma mb z ksqinv jonk cof r dst msg impl
      out ms v
    | _ => none
  | _, _ => none

end Ark.DrvC13
