import Ark.Model.Limbs
import Ark.Model.FieldOps
/-
  Ark.Model.Fft — C07: evaluation domains and FFTs of `ark-poly`, SERIAL code paths only
  (no `parallel` feature), release profile (no `debug_assert!`, wrapping `usize` arithmetic).

  Modelled files:
    ff/src/fields/fft_friendly.rs        `FftField::get_root_of_unity`
    ff/src/fields/utils.rs               `k_adicity`
    poly/src/domain/mod.rs               trait `EvaluationDomain` (default methods)
    poly/src/domain/radix2/{mod,fft}.rs  `Radix2EvaluationDomain`
    poly/src/domain/mixed_radix.rs       `MixedRadixEvaluationDomain`
    poly/src/domain/general.rs           `GeneralEvaluationDomain`
    poly/src/domain/utils.rs             serial helpers, `Elements`
    poly/src/evaluations/univariate/mod.rs  `Evaluations::interpolate`
  plus the few functions of poly/src/polynomial/univariate that `vanishing_polynomial` and
  `filter_polynomial` call (`SparsePolynomial::from_coefficients_vec`, `&Sparse * F`,
  `DenseOrSparsePolynomial::divide_with_q_and_r` on two sparse operands).

  Conventions.
  * Generic over core operator classes; executed at `Ark.Fp p` by `DrvC07`.
  * `&mut [T]` / `&mut Vec<T>` become returned `List F`; `T = F` (the only instance used).
  * Explicit `expect` / `unwrap` / `assert!` of the Rust code are modelled as `Outcome.panic`.
    Slice-index panics are *excluded by the structural invariant* that every FFT routine is
    entered with `xi.length = d.size = 2 ^ d.logSizeOfGroup` (radix-2) resp.
    `a.length = 2^two_adicity · q^q_adicity` (mixed radix) — the only callers are
    `fft_in_place` / `ifft_in_place`, which `resize` to `self.size()` first.  Where the model
    uses a total list/array operation (`take`, `drop`, `swapIfInBounds`, `[i]?`) it differs from
    Rust only on inputs violating that invariant (Rust: index panic).
  * `usize`/`u64` are 64 bit.  Wrapping is modelled where the code can reach it for
    representable requests (`next_power_of_two` overflow → 0); `best_mixed_domain_size`
    does not terminate for `min_size > 2^63` in release builds (r wraps to 0) — the model
    requires `min_size ≤ 2^63` there (documented at the definition).
-/
namespace Ark.Fft
open Ark

def U64 : Nat := 2 ^ 64
def usizeMax : Nat := 2 ^ 64 - 1

/-! ### integer helpers (`core`, `ark_std`) -/

/-- `usize::is_power_of_two` -/
def isPowerOfTwo (x : Nat) : Bool := x != 0 && 2 ^ x.log2 == x

/-- `ark_std::log2` : ceiling of log₂, `log2 0 = 0` -/
def log2 (x : Nat) : Nat :=
  if x = 0 then 0 else if isPowerOfTwo x then x.log2 else x.log2 + 1

/-- `usize::checked_next_power_of_two` -/
def checkedNextPowerOfTwo (n : Nat) : Option Nat :=
  if n ≤ 1 then some 1 else
    let r := 2 ^ log2 n
    if r < U64 then some r else none

/-- `usize::next_power_of_two` / `u64::next_power_of_two` in a release build
    (overflow wraps to 0) -/
def nextPowerOfTwo (n : Nat) : Nat := (checkedNextPowerOfTwo n).getD 0

def trailingZerosAux : Nat → Nat → Nat → Nat
  | 0, _, r => r
  | fuel + 1, x, r => if x % 2 = 0 then trailingZerosAux fuel (x / 2) (r + 1) else r

/-- `u64::trailing_zeros` -/
def trailingZeros (x : Nat) : Nat := if x = 0 then 64 else trailingZerosAux 64 x 0

/-- `u64::checked_pow` -/
def checkedPow (b e : Nat) : Option Nat := if b ^ e < U64 then some (b ^ e) else none

def kAdicityAux (k : Nat) : Nat → Nat → Nat → Nat
  | 0, _, r => r
  | fuel + 1, n, r =>
    if n > 1 then (if n % k = 0 then kAdicityAux k fuel (n / k) (r + 1) else r) else r

/-- `ark_ff::utils::k_adicity(k, n)`.  Precondition `k ≥ 2` (for `n > 1` the Rust loop divides by
    zero when `k = 0` and does not terminate when `k = 1`); 64 rounds suffice for `n < 2^64`. -/
def kAdicity (k n : Nat) : Nat := kAdicityAux k 64 n 0

/-- `u64::reverse_bits` -/
def reverseBits64 (a : Nat) : Nat :=
  (List.range 64).foldl (fun r i => r * 2 + (a >>> i) % 2) 0

/-- `fft::bitrev(a, log_len) = a.reverse_bits().wrapping_shr(64 - log_len)`
    (`wrapping_shr` masks the shift amount with 63, so `log_len = 0` shifts by 0) -/
def bitrev (a logLen : Nat) : Nat := reverseBits64 a >>> ((64 - logLen) % 64)

/-- `utils::bitreverse(n: u32, l: u32)` -/
def bitreverse (n l : Nat) : Nat :=
  ((List.range l).foldl (fun (st : Nat × Nat) _ => (((st.1 * 2) % 2 ^ 32) ||| (st.2 % 2), st.2 / 2))
    (0, n % 2 ^ 32)).1

section Generic
variable {F : Type} [Add F] [Sub F] [Mul F] [Neg F] [Zero F] [One F] [Inv F] [Div F]
  [NatCast F] [DecidableEq F]

/-! ### field helpers -/

/-- `Field::inverse` -/
def inv? (a : F) : Option F := if a = 0 then none else some a⁻¹

/-- the operation record of `Ark.Model.FieldOps` at the class instances -/
def fieldOps (F : Type) [Add F] [Sub F] [Mul F] [Neg F] [Zero F] [One F] [Inv F]
    [DecidableEq F] : Ops F where
  zero := 0
  one := 1
  add := (· + ·)
  sub := (· - ·)
  mul := (· * ·)
  neg := (- ·)
  square := fun a => a * a
  double := fun a => a + a
  inv := fun a => if a = 0 then none else some a⁻¹
  isZero := fun a => decide (a = 0)

/-- big-endian bits of a `u64` -/
def bitsBE64 (e : Nat) : List Bool := (List.range 64).reverse.map (fun i => e.testBit i)

/-- `Field::pow([e])` with a one-limb exponent (square-and-multiply, MSB first) -/
def pow (a : F) (e : Nat) : F := (fieldOps F).pow a (bitsBE64 e)

/-- `ark_ff::batch_inversion(v)` = `serial_batch_inversion_and_mul(v, one)`;
    `none` is the (unreachable) `unwrap` panic -/
def batchInversion (v : List F) : Option (List F) := (fieldOps F).batchInvMul v 1

def iter (f : F → F) : Nat → F → F
  | 0, x => x
  | n + 1, x => iter f n (f x)

/-- `Vec::resize(n, z)` -/
def resize (l : List F) (n : Nat) (z : F) : List F := l.take n ++ List.replicate (n - l.length) z

/-! ### `FftField` parameters and `get_root_of_unity` -/

/-- the associated constants of `FftField` used by the domains -/
structure Params (F : Type) where
  twoAdicity : Nat
  twoAdicRoot : F
  smallBase : Option Nat := none
  smallAdicity : Option Nat := none
  largeRoot : Option F := none

/-- `FftField::get_root_of_unity(n)`; `.panic` = the `expect`s on an inconsistent configuration
    (`LARGE_SUBGROUP_ROOT_OF_UNITY` without base/adicity).  Precondition `SMALL_SUBGROUP_BASE ≥ 2`
    (see `kAdicity`). -/
def getRootOfUnity (P : Params F) (n : Nat) : Outcome (Option F) :=
  match P.largeRoot with
  | some large =>
    match P.smallBase with
    | none => .panic
    | some q =>
      match P.smallAdicity with
      | none => .panic
      | some sa =>
        let qAd := kAdicity q n
        match checkedPow q qAd with
        | none => .ok none
        | some qPart =>
          let twoAd := kAdicity 2 n
          match checkedPow 2 twoAd with
          | none => .ok none
          | some twoPart =>
            if n ≠ (twoPart * qPart) % U64 ∨ twoAd > P.twoAdicity ∨ qAd > sa then .ok none
            else
              let omega := iter (fun w => pow w q) (sa - qAd) large
              let omega := iter (fun w => w * w) (P.twoAdicity - twoAd) omega
              .ok (some omega)
  | none =>
    let size := nextPowerOfTwo n
    let logSize := log2 size
    if n ≠ size ∨ logSize > P.twoAdicity then .ok none
    else .ok (some (iter (fun w => w * w) (P.twoAdicity - logSize) P.twoAdicRoot))

/-! ### domains -/

/-- the fields of `Radix2EvaluationDomain<F>` = the fields of `MixedRadixEvaluationDomain<F>` -/
structure Domain (F : Type) where
  size : Nat
  logSizeOfGroup : Nat
  sizeAsFieldElement : F
  sizeInv : F
  groupGen : F
  groupGenInv : F
  offset : F
  offsetInv : F
  offsetPowSize : F
  deriving DecidableEq

/-- `Radix2EvaluationDomain::new` -/
def radix2New (P : Params F) (numCoeffs : Nat) : Outcome (Option (Domain F)) :=
  let size := nextPowerOfTwo numCoeffs
  let logSize := trailingZeros size
  if logSize > P.twoAdicity then .ok none
  else
    match getRootOfUnity P size with
    | .panic => .panic
    | .ok none => .ok none
    | .ok (some g) =>
      let sizeF : F := (size : F)
      match inv? sizeF with
      | none => .ok none
      | some sizeInv =>
        match inv? g with
        | none => .ok none
        | some gInv =>
          .ok (some { size := size, logSizeOfGroup := logSize, sizeAsFieldElement := sizeF,
                      sizeInv := sizeInv, groupGen := g, groupGenInv := gInv,
                      offset := 1, offsetInv := 1, offsetPowSize := 1 })

/-- `Radix2EvaluationDomain::compute_size_of_domain` -/
def radix2ComputeSize (P : Params F) (numCoeffs : Nat) : Option Nat :=
  match checkedNextPowerOfTwo numCoeffs with
  | none => none
  | some size => if trailingZeros size ≤ P.twoAdicity then some size else none

def growAux (minSize : Nat) : Nat → Nat → Nat → Nat × Nat
  | 0, r, ta => (r, ta)
  | fuel + 1, r, ta => if r < minSize then growAux minSize fuel (r * 2) (ta + 1) else (r, ta)

/-- `best_mixed_domain_size::<F>(min_size)`; `.panic` = the two `unwrap`s (field without small
    subgroup; since 45fd997 both callers test `SMALL_SUBGROUP_BASE` first).  Preconditions: base `≥ 1`, `min_size ≤ 2^63`, `base^adicity < 2^63`
    (otherwise the Rust `while r < min_size { r *= 2 }` wraps and may not terminate). -/
def bestMixedDomainSize (P : Params F) (minSize : Nat) : Outcome Nat :=
  match P.smallAdicity with
  | none => .panic
  | some sa =>
    match P.smallBase with
    | none => .panic
    | some q =>
      .ok ((List.range (sa + 1)).foldl (fun best b =>
        let (r, ta) := growAux minSize 65 (q ^ b) 0
        if ta ≤ P.twoAdicity then min best r else best) usizeMax)

/-- `MixedRadixEvaluationDomain::new` (after `fix:` 45fd997: the `F::SMALL_SUBGROUP_BASE?` early
    return precedes `best_mixed_domain_size`, so a field without a small subgroup yields `None`;
    before the fix the `unwrap`s of `best_mixed_domain_size` ran first and `new` panicked).
    `.panic` remains only for the inconsistent configuration base = `Some`, adicity = `None`. -/
def mixedNew (P : Params F) (numCoeffs : Nat) : Outcome (Option (Domain F)) :=
  match P.smallBase with
  | none => .ok none
  | some q =>
    match bestMixedDomainSize P numCoeffs with
    | .panic => .panic
    | .ok size =>
      let qAd := kAdicity q size
      match checkedPow q qAd with
      | none => .ok none
      | some qPart =>
        let twoAd := kAdicity 2 size
        match checkedPow 2 twoAd with
        | none => .ok none
        | some twoPart =>
          if size ≠ (qPart * twoPart) % U64 then .ok none
          else
            match getRootOfUnity P size with
            | .panic => .panic
            | .ok none => .ok none
            | .ok (some g) =>
              let sizeF : F := (size : F)
              match inv? sizeF with
              | none => .ok none
              | some sizeInv =>
                match inv? g with
                | none => .ok none
                | some gInv =>
                  .ok (some { size := size, logSizeOfGroup := twoAd, sizeAsFieldElement := sizeF,
                              sizeInv := sizeInv, groupGen := g, groupGenInv := gInv,
                              offset := 1, offsetInv := 1, offsetPowSize := 1 })

/-- `MixedRadixEvaluationDomain::compute_size_of_domain` -/
def mixedComputeSize (P : Params F) (numCoeffs : Nat) : Outcome (Option Nat) :=
  match P.smallBase with
  | none => .ok none
  | some q =>
    match bestMixedDomainSize P numCoeffs with
    | .panic => .panic
    | .ok n =>
      let qAd := kAdicity q n
      match checkedPow q qAd with
      | none => .ok none
      | some qPart =>
        let twoAd := kAdicity 2 n
        match checkedPow 2 twoAd with
        | none => .ok none
        | some twoPart => .ok (if n = (qPart * twoPart) % U64 then some n else none)

/-- `get_coset` (identical for both domain types) -/
def getCoset (d : Domain F) (offset : F) : Option (Domain F) :=
  match inv? offset with
  | none => none
  | some oi => some { d with offset := offset, offsetInv := oi, offsetPowSize := pow offset d.size }

/-- `GeneralEvaluationDomain<F>` -/
inductive GeneralDomain (F : Type) where
  | radix2 (d : Domain F)
  | mixedRadix (d : Domain F)

def GeneralDomain.dom : GeneralDomain F → Domain F
  | .radix2 d => d
  | .mixedRadix d => d

/-- `GeneralEvaluationDomain::new` -/
def generalNew (P : Params F) (numCoeffs : Nat) : Outcome (Option (GeneralDomain F)) :=
  match radix2New P numCoeffs with
  | .panic => .panic
  | .ok (some d) => .ok (some (.radix2 d))
  | .ok none =>
    if P.smallBase.isSome then
      match mixedNew P numCoeffs with
      | .panic => .panic
      | .ok (some d) => .ok (some (.mixedRadix d))
      | .ok none => .ok none
    else .ok none

/-- `GeneralEvaluationDomain::get_coset` -/
def generalGetCoset (g : GeneralDomain F) (offset : F) : Option (GeneralDomain F) :=
  match g with
  | .radix2 d => (getCoset d offset).map .radix2
  | .mixedRadix d => (getCoset d offset).map .mixedRadix

/-- `GeneralEvaluationDomain::compute_size_of_domain` -/
def generalComputeSize (P : Params F) (numCoeffs : Nat) : Outcome (Option Nat) :=
  match radix2ComputeSize P numCoeffs with
  | some s => .ok (some s)
  | none => if P.smallBase.isSome then mixedComputeSize P numCoeffs else .ok none

/-- `EvaluationDomain::element(i)` -/
def element (d : Domain F) (i : Nat) : F :=
  let result := pow d.groupGen i
  if d.offset ≠ 1 then result * d.offset else result

def elementsAux (g : F) : Nat → F → List F
  | 0, _ => []
  | n + 1, cur => cur :: elementsAux g n (cur * g)

/-- `elements().collect()` : the `Elements` iterator run to exhaustion -/
def elements (d : Domain F) : List F := elementsAux d.groupGen d.size d.offset

/-- `distribute_powers_and_mul_by_const(coeffs, g, c)` (serial) -/
def distributePowersAndMulByConst : List F → F → F → List F
  | [], _, _ => []
  | x :: xs, g, powr => (x * powr) :: distributePowersAndMulByConst xs g (powr * g)

/-- `distribute_powers(coeffs, g)` -/
def distributePowers (coeffs : List F) (g : F) : List F := distributePowersAndMulByConst coeffs g 1

/-- `compute_powers_and_mul_by_const_serial(size, root, c)` -/
def computePowersAndMulByConstSerial : Nat → F → F → List F
  | 0, _, _ => []
  | n + 1, root, value => value :: computePowersAndMulByConstSerial n root (value * root)

/-- `compute_powers_serial(size, root)` -/
def computePowersSerial (size : Nat) (root : F) : List F := computePowersAndMulByConstSerial size root 1

/-! ### radix-2 FFT (`radix2/fft.rs`) -/

/-- `roots_of_unity(root)` (serial): the first `size/2` powers of `root` -/
def rootsOfUnity (d : Domain F) (root : F) : List F := computePowersSerial (d.size / 2) root

/-- `butterfly_fn_io` : `(lo, hi) ↦ (lo + hi, (lo − hi)·root)` -/
def butterflyIO (lo hi root : F) : F × F := (lo + hi, (lo - hi) * root)

/-- `butterfly_fn_oi` : `hi ← hi·root; (lo, hi) ↦ (lo + hi, lo − hi)` -/
def butterflyOI (lo hi root : F) : F × F :=
  let hi' := hi * root
  (lo + hi', lo - hi')

def stepByAux (step : Nat) : Nat → List F → List F
  | 0, _ => []
  | _, [] => []
  | fuel + 1, x :: xs => x :: stepByAux step fuel (xs.drop (step - 1))

/-- `iter().step_by(step)` (`step ≥ 1`) -/
def stepBy (step : Nat) (l : List F) : List F := stepByAux step l.length l

/-- `lo.iter_mut().zip(hi).zip(roots).for_each(g)` : stops at the shortest, the rest is untouched -/
def zipButterfly (g : F → F → F → F × F) : List F → List F → List F → List F × List F
  | l :: lo, h :: hi, r :: rs =>
    let lh := g l h r
    let rest := zipButterfly g lo hi rs
    (lh.1 :: rest.1, lh.2 :: rest.2)
  | lo, hi, _ => (lo, hi)

/-- one chunk of `apply_butterfly`: `split_at_mut(gap)` and the zipped butterflies -/
def chunkButterfly (g : F → F → F → F × F) (rs : List F) (gap : Nat) (c : List F) : List F :=
  let r := zipButterfly g (c.take gap) (c.drop gap) rs
  r.1 ++ r.2

/-- `xi.chunks_mut(cs).for_each(f)` with `f` returning the new chunk -/
def mapChunks (f : List F → List F) (cs : Nat) : Nat → List F → List F
  | 0, l => l
  | _, [] => []
  | fuel + 1, x :: xs => f ((x :: xs).take cs) ++ mapChunks f cs fuel ((x :: xs).drop cs)

/-- `apply_butterfly(g, xi, roots, step, chunk_size, num_chunks, max_threads, gap)`
    (serial: both size branches run the same sequential code) -/
def applyButterfly (g : F → F → F → F × F) (xi roots : List F) (step chunkSize gap : Nat) : List F :=
  mapChunks (chunkButterfly g (stepBy step roots) gap) chunkSize xi.length xi

def MIN_NUM_CHUNKS_FOR_COMPACTION : Nat := 128

/-- the `while gap > 0` loop of `io_helper`; state = (`xi`, `roots`, `step`, `first`, `gap`) -/
def ioLoop : Nat → List F → List F → Nat → Bool → Nat → List F
  | 0, xi, _, _, _, _ => xi
  | fuel + 1, xi, roots, step, first, gap =>
    if gap > 0 then
      let chunkSize := 2 * gap
      let numChunks := xi.length / chunkSize
      let rs : List F × Nat :=
        if numChunks ≥ MIN_NUM_CHUNKS_FOR_COMPACTION then
          ((if !first then stepBy (step * 2) roots else roots), 1)
        else (roots, numChunks)
      let xi' := applyButterfly butterflyIO xi rs.1 rs.2 chunkSize gap
      ioLoop fuel xi' rs.1 rs.2 false (gap / 2)
    else xi

/-- `io_helper(xi, root)` : in-order input, bit-reversed output (DIF) -/
def ioHelper (d : Domain F) (xi : List F) (root : F) : List F :=
  ioLoop (xi.length + 1) xi (rootsOfUnity d root) 1 true (xi.length / 2)

/-- the `while gap < xi.len()` loop of `oi_helper`.  In the compaction branch the Rust code copies
    `roots_cache.step_by(num_chunks)` into `compacted_roots[..gap]` and uses that slice with step 1;
    under `roots_cache.len() = gap · num_chunks` the slice is exactly the stepped list. -/
def oiLoop (rootsCache : List F) : Nat → List F → Nat → List F
  | 0, xi, _ => xi
  | fuel + 1, xi, gap =>
    if gap < xi.length then
      let chunkSize := 2 * gap
      let numChunks := xi.length / chunkSize
      let rs : List F × Nat :=
        if numChunks ≥ MIN_NUM_CHUNKS_FOR_COMPACTION ∧ gap < xi.length / 2 then
          ((stepBy numChunks rootsCache).take gap, 1)
        else (rootsCache, numChunks)
      let xi' := applyButterfly butterflyOI xi rs.1 rs.2 chunkSize gap
      oiLoop rootsCache fuel xi' (gap * 2)
    else xi

/-- `oi_helper(xi, root, start_gap)` : bit-reversed input, in-order output (DIT); `start_gap ≥ 1` -/
def oiHelper (d : Domain F) (xi : List F) (root : F) (startGap : Nat) : List F :=
  oiLoop (rootsOfUnity d root) (xi.length + 1) xi startGap

/-- a sequence of conditional swaps `if i < r i { a.swap(i, r i) }` over the index list -/
def swapPass (r : Nat → Nat) (idxs : List Nat) (a : Array F) : Array F :=
  idxs.foldl (fun a i => let ri := r i; if i < ri then a.swapIfInBounds i ri else a) a

/-- `derange(xi, log_len)` : `for idx in 1..(len-1)` swap with `bitrev(idx, log_len)` when smaller -/
def derange (xi : List F) (logLen : Nat) : List F :=
  (swapPass (fun i => bitrev i logLen) (List.range' 1 (xi.length - 2)) xi.toArray).toList

inductive FFTOrder where
  | II | IO | OI
  deriving DecidableEq

/-- `fft_helper_in_place` -/
def fftHelper (d : Domain F) (xs : List F) (ord : FFTOrder) : List F :=
  let logLen := log2 xs.length
  let xs := if ord = .OI then oiHelper d xs d.groupGen 1 else ioHelper d xs d.groupGen
  if ord = .II then derange xs logLen else xs

/-- `ifft_helper_in_place` (without the division by the size) -/
def ifftHelper (d : Domain F) (xs : List F) (ord : FFTOrder) : List F :=
  let logLen := log2 xs.length
  let xs := if ord = .II then derange xs logLen else xs
  if ord = .IO then ioHelper d xs d.groupGenInv else oiHelper d xs d.groupGenInv 1

/-- `in_order_fft_in_place` -/
def inOrderFft (d : Domain F) (xs : List F) : List F :=
  let xs := if d.offset ≠ 1 then distributePowers xs d.offset else xs
  fftHelper d xs .II

/-- `in_order_ifft_in_place` -/
def inOrderIfft (d : Domain F) (xs : List F) : List F :=
  let xs := ifftHelper d xs .II
  if d.offset = 1 then xs.map (fun v => v * d.sizeInv)
  else distributePowersAndMulByConst xs d.offsetInv d.sizeInv

/-- `chunks_mut(dup).for_each(|c| c[1..].fill(c[0]))` -/
def dupChunks (dup : Nat) : Nat → List F → List F
  | 0, l => l
  | _, [] => []
  | fuel + 1, x :: xs =>
    ((x :: xs).take dup).map (fun _ => x) ++ dupChunks dup fuel ((x :: xs).drop dup)

/-- `degree_aware_fft_in_place`; `.panic` = `expect("domain is too small")` -/
def degreeAwareFft (d : Domain F) (coeffs : List F) : Outcome (List F) :=
  let coeffs := if d.offset ≠ 1 then distributePowers coeffs d.offset else coeffs
  let n := d.size
  let logN := d.logSizeOfGroup
  match (if isPowerOfTwo coeffs.length then some coeffs.length
         else checkedNextPowerOfTwo coeffs.length) with
  | none => .panic
  | some numCoeffs =>
    let logD := log2 numCoeffs
    if logN < logD then .panic
    else
      let dup := 2 ^ (logN - logD)
      let coeffs := resize coeffs n 0
      let coeffs := (swapPass (fun i => bitrev i logN) (List.range numCoeffs) coeffs.toArray).toList
      let coeffs := if dup > 1 then dupChunks dup coeffs.length coeffs else coeffs
      .ok (oiHelper d coeffs d.groupGen dup)

def DEGREE_AWARE_FFT_THRESHOLD_FACTOR : Nat := 4

/-- `Radix2EvaluationDomain::fft_in_place` (inputs longer than the domain are truncated by
    `resize`) -/
def radix2Fft (d : Domain F) (coeffs : List F) : Outcome (List F) :=
  if coeffs.length * DEGREE_AWARE_FFT_THRESHOLD_FACTOR ≤ d.size then degreeAwareFft d coeffs
  else .ok (inOrderFft d (resize coeffs d.size 0))

/-- `Radix2EvaluationDomain::ifft_in_place` -/
def radix2Ifft (d : Domain F) (evals : List F) : List F :=
  inOrderIfft d (resize evals d.size 0)

/-! ### mixed-radix FFT (`mixed_radix.rs`) -/

/-- `utils::bitreverse_permutation_in_place(a, width)`; `.panic` = `a.swap` out of bounds -/
def bitreversePermutation (a : List F) (width : Nat) : Outcome (List F) :=
  let n := a.length
  let r := (List.range n).foldl (fun (st : Option (Array F)) k =>
    match st with
    | none => none
    | some arr =>
      let rk := bitreverse k width
      if k < rk then (if rk < n then some (arr.swapIfInBounds k rk) else none) else some arr)
    (some a.toArray)
  match r with
  | none => .panic
  | some arr => .ok arr.toList

/-- `mixed_radix_fft_permute(two_adicity, q_adicity, q, n, i)` -/
def mixedRadixFftPermute (twoAd qAd q n i : Nat) : Nat :=
  let s1 := (List.range twoAd).foldl (fun (st : Nat × Nat × Nat) _ =>
    let shift := st.2.1 / 2
    (st.1 + (st.2.2 % 2) * shift, shift, st.2.2 / 2)) (0, n, i)
  let s2 := (List.range qAd).foldl (fun (st : Nat × Nat × Nat) _ =>
    let shift := st.2.1 / q
    (st.1 + (st.2.2 % q) * shift, shift, st.2.2 / q)) s1
  s2.1

/-- the inner `while !seen[i]` cycle walk of the permutation step -/
def permuteCycle (perm : Nat → Nat) : Nat → Array F × Array Bool → Nat → F → Array F × Array Bool
  | 0, st, _, _ => st
  | fuel + 1, st, i, ai =>
    match st.2[i]? with
    | some false =>
      let dest := perm i
      match st.1[dest]? with
      | some aDest =>
        permuteCycle perm fuel (st.1.setIfInBounds dest ai, st.2.setIfInBounds i true) dest aDest
      | none => st        -- Rust: index panic (excluded: `perm` maps `[0,n)` into itself)
    | _ => st

/-- "Applying the permutation": `for k in 0..n { i = k; a_i = a[i]; while !seen[i] {…} }` -/
def applyPermutation (perm : Nat → Nat) (a : List F) : List F :=
  let n := a.length
  let st := (List.range n).foldl (fun (st : Array F × Array Bool) k =>
    match st.1[k]? with
    | some ak => permuteCycle perm (n + 1) st k ak
    | none => st) (a.toArray, Array.replicate n false)
  st.1.toList

def headsOf (ls : List (List F)) : List F := ls.filterMap List.head?

def transposeAux : Nat → List (List F) → List (List F)
  | 0, _ => []
  | n + 1, ls => headsOf ls :: transposeAux n (ls.map List.tail)

/-- one `(k, j)` iteration of a radix-`q` pass on the column
    `[a[k+j], a[k+j+m], …, a[k+j+(q-1)m]]` with `w_j = w_m^j` -/
def qColumn (q : Nat) (qthRoots : List F) (wj : F) (col : List F) : List F :=
  match col with
  | [] => []
  | base :: rest =>
    -- `terms[i-1] = a[k+j+i·m] * w_j_i; w_j_i *= w_j`
    let terms := (rest.foldl (fun (acc : List F × F) x => (acc.1 ++ [x * acc.2], acc.2 * wj))
      ([], wj)).1
    (List.range q).map (fun i =>
      ((List.range terms.length).zip terms).foldl
        (fun acc lt => acc + lt.2 * (qthRoots[(i * (lt.1 + 1)) % q]?).getD 0) base)

/-- one chunk (`q·m` entries) of a radix-`q` pass: the `for j in 0..m` loop -/
def qChunk (q m : Nat) (qthRoots : List F) (wm : F) (c : List F) : List F :=
  let blocks := (List.range q).map (fun i => (c.drop (i * m)).take m)
  let cols := transposeAux m blocks
  let newCols := List.zipWith (qColumn q qthRoots) (computePowersSerial m wm) cols
  (transposeAux q newCols).flatten

/-- `serial_mixed_radix_fft(a, omega, two_adicity)`; `.panic` = the `unwrap`s and the
    `assert_eq!(n, q_part * two_part)` -/
def serialMixedRadixFft (P : Params F) (a : List F) (omega : F) (twoAd : Nat) : Outcome (List F) :=
  let n := a.length
  match P.smallBase with
  | none => .panic
  | some q =>
    let qAd := kAdicity q n
    match checkedPow q qAd, checkedPow 2 twoAd with
    | some qPart, some twoPart =>
      if n ≠ (qPart * twoPart) % U64 then .panic
      else
        let st : Outcome (List F × Nat) :=
          if qAd > 0 then
            let a := applyPermutation (mixedRadixFftPermute twoAd qAd q n) a
            let omegaQ := pow omega (n / q)
            let qthRoots := computePowersSerial q omegaQ
            .ok ((List.range qAd).foldl (fun (st : List F × Nat) _ =>
              let m := st.2
              let wm := pow omega (n / (q * m))
              (mapChunks (qChunk q m qthRoots wm) (q * m) st.1.length st.1, m * q)) (a, 1))
          else
            match bitreversePermutation a twoAd with
            | .panic => .panic
            | .ok a => .ok (a, 1)
        match st with
        | .panic => .panic
        | .ok st =>
          .ok ((List.range twoAd).foldl (fun (st : List F × Nat) _ =>
            let m := st.2
            let wm := pow omega (n / (2 * m))
            (applyButterfly butterflyOI st.1 (computePowersSerial m wm) 1 (2 * m) m, m * 2)) st).1
    | _, _ => .panic

/-- `MixedRadixEvaluationDomain::fft_in_place` (serial `best_fft` = `serial_mixed_radix_fft`) -/
def mixedFft (P : Params F) (d : Domain F) (coeffs : List F) : Outcome (List F) :=
  let coeffs := if d.offset ≠ 1 then distributePowers coeffs d.offset else coeffs
  serialMixedRadixFft P (resize coeffs d.size 0) d.groupGen d.logSizeOfGroup

/-- `MixedRadixEvaluationDomain::ifft_in_place` -/
def mixedIfft (P : Params F) (d : Domain F) (evals : List F) : Outcome (List F) :=
  match serialMixedRadixFft P (resize evals d.size 0) d.groupGenInv d.logSizeOfGroup with
  | .panic => .panic
  | .ok xs =>
    .ok (if d.offset = 1 then xs.map (fun v => v * d.sizeInv)
         else distributePowersAndMulByConst xs d.offsetInv d.sizeInv)

/-- `GeneralEvaluationDomain::fft_in_place` -/
def generalFft (P : Params F) (g : GeneralDomain F) (coeffs : List F) : Outcome (List F) :=
  match g with
  | .radix2 d => radix2Fft d coeffs
  | .mixedRadix d => mixedFft P d coeffs

/-- `GeneralEvaluationDomain::ifft_in_place` -/
def generalIfft (P : Params F) (g : GeneralDomain F) (evals : List F) : Outcome (List F) :=
  match g with
  | .radix2 d => .ok (radix2Ifft d evals)
  | .mixedRadix d => mixedIfft P d evals

/-! ### vanishing polynomial, Lagrange coefficients, filter polynomial, re-indexing -/

/-- `evaluate_vanishing_polynomial(tau) = tau^size − offset^size` -/
def evaluateVanishingPolynomial (d : Domain F) (tau : F) : F := pow tau d.size - d.offsetPowSize

def lagrangeFind (tau g : F) : Nat → F → List F
  | 0, _ => []
  | n + 1, omegaI =>
    if omegaI = tau then 1 :: List.replicate n 0 else 0 :: lagrangeFind tau g n (omegaI * g)

def lagrangeInvs (tau g gInv : F) : Nat → F → F → List F
  | 0, _, _ => []
  | n + 1, li, negCur => (li * (tau + negCur)) :: lagrangeInvs tau g gInv n (li * gInv) (negCur * g)

/-- `evaluate_all_lagrange_coefficients(tau)`; `.panic` = the `unwrap` of `z_h_at_tau.inverse()`
    (unreachable: that branch has `z_h_at_tau ≠ 0`) -/
def evaluateAllLagrangeCoefficients (d : Domain F) (tau : F) : Outcome (List F) :=
  let size := d.size
  let z := evaluateVanishingPolynomial d tau
  if z = 0 then .ok (lagrangeFind tau d.groupGen size d.offset)
  else
    let v0Inv := (size : F) * pow d.offset (size - 1)
    match inv? z with
    | none => .panic
    | some zInv =>
      let l := lagrangeInvs tau d.groupGen d.groupGenInv size (zInv * v0Inv) (-d.offset)
      match batchInversion l with
      | none => .panic
      | some r => .ok r

/-- sparse polynomials: `Vec<(usize, F)>` -/
abbrev Sparse (F : Type) := List (Nat × F)

def dropZerosS : List (Nat × F) → List (Nat × F)
  | [] => []
  | c :: t => if c.2 = 0 then dropZerosS t else c :: t

def insertByDeg (x : Nat × F) : List (Nat × F) → List (Nat × F)
  | [] => [x]
  | y :: t => if x.1 < y.1 then x :: y :: t else y :: insertByDeg x t

/-- `SparsePolynomial::from_coefficients_vec`: pop trailing zero terms, stable sort by degree,
    `assert!` the last coefficient is non-zero -/
def sparseFromCoefficientsVec (c : Sparse F) : Outcome (Sparse F) :=
  let c1 := (dropZerosS c.reverse).reverse
  let c2 := c1.foldl (fun acc x => insertByDeg x acc) []
  match c2.getLast? with
  | some (_, v) => if v = 0 then .panic else .ok c2
  | none => .ok c2

/-- `vanishing_polynomial()` -/
def vanishingPolynomial (d : Domain F) : Outcome (Sparse F) :=
  sparseFromCoefficientsVec [(0, -d.offsetPowSize), (d.size, 1)]

/-- `SparsePolynomial::is_zero` -/
def sparseIsZero (s : Sparse F) : Bool := s.isEmpty || s.all (fun c => decide (c.2 = 0))

/-- `&SparsePolynomial * F` -/
def sparseMulScalar (s : Sparse F) (e : F) : Sparse F :=
  if sparseIsZero s || decide (e = 0) then [] else s.map (fun c => (c.1, c.2 * e))

/-- `SparsePolynomial::degree` -/
def sparseDegree (s : Sparse F) : Outcome Nat :=
  if sparseIsZero s then .ok 0
  else match s.getLast? with
    | some (i, c) => if c = 0 then .panic else .ok i
    | none => .panic

def dropZerosD : List F → List F
  | [] => []
  | c :: t => if c = 0 then dropZerosD t else c :: t

/-- `DensePolynomial::from_coefficients_vec` (= `truncate_leading_zeros`) -/
def denseFromCoefficientsVec (c : List F) : List F := (dropZerosD c.reverse).reverse

/-- `DensePolynomial::is_zero` -/
def denseIsZero (c : List F) : Bool := c.isEmpty || c.all (fun x => decide (x = 0))

/-- `From<SparsePolynomial> for DensePolynomial` -/
def sparseToDense (s : Sparse F) : Outcome (List F) :=
  match sparseDegree s with
  | .panic => .panic
  | .ok deg =>
    let r := s.foldl (fun (acc : Option (Array F)) c =>
      match acc with
      | none => none
      | some arr => if c.1 < arr.size then some (arr.setIfInBounds c.1 c.2) else none)
      (some (Array.replicate (deg + 1) (0 : F)))
    match r with
    | none => .panic
    | some arr => .ok (denseFromCoefficientsVec arr.toList)

/-- the `while !remainder.is_zero() && remainder.degree() >= divisor.degree()` loop of
    `divide_with_q_and_r` (sparse divisor); state = (`quotient`, `remainder`) -/
def divLoop (divisor : Sparse F) (degD : Nat) (leadInv : F) :
    Nat → Array F × List F → Outcome (Array F × List F)
  | 0, st => .ok st
  | fuel + 1, st =>
    let rem := st.2
    if !denseIsZero rem && decide (rem.length - 1 ≥ degD) then
      match rem.getLast? with
      | none => .panic
      | some last =>
        let curQ := last * leadInv
        let curDeg := (rem.length - 1) - degD
        if curDeg ≥ st.1.size then .panic
        else
          let quotient := st.1.setIfInBounds curDeg curQ
          let r := divisor.foldl (fun (acc : Option (Array F)) ic =>
            match acc with
            | none => none
            | some arr =>
              match arr[curDeg + ic.1]? with
              | some v => some (arr.setIfInBounds (curDeg + ic.1) (v - curQ * ic.2))
              | none => none) (some rem.toArray)
          match r with
          | none => .panic
          | some arr => divLoop divisor degD leadInv fuel (quotient, denseFromCoefficientsVec arr.toList)
    else .ok st

/-- `DenseOrSparsePolynomial::divide_with_q_and_r` for `SPolynomial` dividend and divisor
    (always `Some`; `.panic` = "Dividing by zero polynomial" and the internal asserts) -/
def divideWithQAndR (self divisor : Sparse F) : Outcome (List F × List F) :=
  if sparseIsZero self then .ok ([], [])
  else if sparseIsZero divisor then .panic
  else
    match sparseDegree self, sparseDegree divisor with
    | .ok degS, .ok degD =>
      match sparseToDense self with
      | .panic => .panic
      | .ok selfDense =>
        if degS < degD then .ok ([], selfDense)
        else
          match divisor.getLast? with
          | none => .panic
          | some (_, lead) =>
            match inv? lead with
            | none => .panic
            | some leadInv =>
              match divLoop divisor degD leadInv (selfDense.length + 1)
                      (Array.replicate (degS - degD + 1) (0 : F), selfDense) with
              | .panic => .panic
              | .ok st => .ok (denseFromCoefficientsVec st.1.toList, st.2)
    | _, _ => .panic

/-- `size_as_field_element()` (trait default: `F::from(self.size() as u64)`) -/
def sizeAsFieldElement (d : Domain F) : F := (d.size : F)

/-- `filter_polynomial(subdomain)`; `.panic` = `assert!(remainder.is_zero())` (and inner asserts).

    Documentation (not part of property C07; the driver reports it as `note:filter-coset-scaling`):
    the code scales `Z_self / Z_sub` by `m·h^m / N` (`h` = subdomain offset, `m`, `N` the sizes)
    where the normalisation that makes the quotient 1 on the subdomain is `m / (N·h^(N−m))`.
    The two agree iff `h^N = 1`, i.e. iff `self.offset^N = 1` (for a contained subdomain
    `h^N = self.offset^N`).  Witness over `Fp 5`: `self = sub = ⟨size 1, offset 2⟩` gives
    `filterPolynomial self sub = .ok [2]` while the filter polynomial is `[1]`. -/
def filterPolynomial (self sub : Domain F) : Outcome (List F) :=
  match vanishingPolynomial self, vanishingPolynomial sub with
  | .ok vs, .ok vsub =>
    let selfV := sparseMulScalar vs (sizeAsFieldElement sub * pow sub.offset sub.size)
    let subV := sparseMulScalar vsub (sizeAsFieldElement self)
    match divideWithQAndR selfV subV with
    | .panic => .panic
    | .ok (q, r) => if denseIsZero r then .ok q else .panic
  | _, _ => .panic

/-- `evaluate_filter_polynomial(subdomain, tau)`.

    Documentation (not part of property C07; `note:filter-coset-scaling` in the driver): the code
    returns `m·Z_self(τ) / (N·Z_sub(τ))` without any power of the subdomain offset `h`; it equals the
    filter polynomial `Σ_{x ∈ sub} L_x(τ)` on the points of `self` (both 0/1 there) but differs by the
    factor `h^(N−m)` elsewhere, and differs from `filterPolynomial` by `h^m`.  Witness over `Fp 5`:
    `self = ⟨size 2, offset 1⟩`, `sub = ⟨size 1, offset 4⟩`, `τ = 0` gives 2, the filter value is 3. -/
def evaluateFilterPolynomial (self sub : Domain F) (tau : F) : F :=
  let vSub := evaluateVanishingPolynomial sub tau
  if vSub = 0 then 1
  else sizeAsFieldElement sub * evaluateVanishingPolynomial self tau / (sizeAsFieldElement self * vSub)

/-- `reindex_by_subdomain(other, index)`; `.panic` = the `assert!` and the divisions by zero -/
def reindexBySubdomain (self other : Domain F) (index : Nat) : Outcome Nat :=
  if self.size < other.size then .panic
  else if other.size = 0 then .panic
  else
    let period := self.size / other.size
    if index < other.size then .ok ((index * period) % U64)
    else
      let i := index - other.size
      let x := period - 1
      if x = 0 then .panic else .ok ((i + i / x + 1) % U64)

/-- `Evaluations::interpolate` / `interpolate_by_ref` on a radix-2 domain -/
def interpolateRadix2 (d : Domain F) (evals : List F) : List F :=
  denseFromCoefficientsVec (radix2Ifft d evals)

/-- `Evaluations::interpolate` on a `GeneralEvaluationDomain` -/
def interpolateGeneral (P : Params F) (g : GeneralDomain F) (evals : List F) : Outcome (List F) :=
  match generalIfft P g evals with
  | .panic => .panic
  | .ok c => .ok (denseFromCoefficientsVec c)

end Generic

/-! ### additions: remaining trait defaults of `EvaluationDomain` and the `Evaluations` API
    (`poly/src/evaluations/univariate/mod.rs`) -/
section Generic2
variable {F : Type} [Add F] [Sub F] [Mul F] [Neg F] [Zero F] [One F] [Inv F] [Div F]
  [NatCast F] [DecidableEq F]

/-- `EvaluationDomain::new_coset(num_coeffs, offset) = Self::new(num_coeffs)?.get_coset(offset)`
    (trait default, not overridden); the argument is the outcome of `Self::new(num_coeffs)` -/
def newCoset (nw : Outcome (Option (GeneralDomain F))) (offset : F) :
    Outcome (Option (GeneralDomain F)) :=
  match nw with
  | .panic => .panic
  | .ok none => .ok none
  | .ok (some g) => .ok (generalGetCoset g offset)

/-- `mul_polynomials_in_evaluation_domain(self_evals, other_evals)`;
    `.panic` = `assert_eq!(self_evals.len(), other_evals.len())` -/
def mulPolynomialsInEvaluationDomain (a b : List F) : Outcome (List F) :=
  if a.length ≠ b.length then .panic else .ok (List.zipWith (· * ·) a b)

/-- derived `PartialEq` of `GeneralEvaluationDomain` (variant, then all nine fields) -/
def generalDomainEq (a b : GeneralDomain F) : Bool :=
  match a, b with
  | .radix2 x, .radix2 y => decide (x = y)
  | .mixedRadix x, .mixedRadix y => decide (x = y)
  | _, _ => false

/-- `a.iter_mut().zip(&b).for_each(|(x, y)| *x = f(*x, y))`: stops at the shorter list, the rest
    of `a` is untouched -/
def zipAssign (f : F → F → F) : List F → List F → List F
  | [], _ => []
  | a :: as, [] => a :: as
  | a :: as, b :: bs => f a b :: zipAssign f as bs

/-- `Evaluations::zero(domain)` -/
def evalsZero (d : Domain F) : List F := List.replicate d.size 0

/-- `Index<usize> for Evaluations`: `&self.evals[index]` with the slice-index panic -/
def evalsIndex (evals : List F) (i : Nat) : Outcome F :=
  match evals[i]? with
  | some x => .ok x
  | none => .panic

/-- `Mul<F> for &Evaluations` (the domain is kept) -/
def evalsMulScalar (evals : List F) (c : F) : List F := evals.map (fun e => e * c)

/-- `AddAssign / SubAssign / MulAssign<&Self> for Evaluations` (and the `&a ⊕ &b` forms, which
    clone and assign): `assert_eq!(self.domain, other.domain)`, then the zipped update -/
def evalsBinAssign (f : F → F → F) (sameDomain : Bool) (a b : List F) : Outcome (List F) :=
  if !sameDomain then .panic else .ok (zipAssign f a b)

/-- `DivAssign<&Self> for Evaluations`: the same assertion, `batch_inversion` of a copy of the
    other evaluations (zero entries stay zero), zipped multiplication -/
def evalsDivAssign (sameDomain : Bool) (a b : List F) : Outcome (List F) :=
  if !sameDomain then .panic
  else match batchInversion b with
    | none => .panic
    | some bi => .ok (zipAssign (· * ·) a bi)

end Generic2
end Ark.Fft
