import Ark.Model.Limbs
import Ark.Model.Mont
import Ark.Model.Curve
/-
  Ark.Model.EqOrd — C19: equality, ordering, hashing and the zero/one predicates, as coded.

  Almost everything here is a *derived* impl (`#[derive(PartialEq, Eq, Hash)]` of std or the
  `Educe` equivalents, which visit the fields in declaration order), so the model is small:

    ff/src/biginteger/mod.rs                     `BigInt<N>`: derived `PartialEq/Eq/Hash`, hand-written `Ord`
    ff/src/fields/models/fp/mod.rs               `Fp`: derived `PartialEq/Eq/Hash` on the Montgomery limbs,
                                                 `Ord` = compare `into_bigint()`, `is_zero`, `is_one`
    ff/src/fields/models/quadratic_extension.rs  derived `PartialEq/Hash`, `Ord` (c1 first), `is_zero`, `is_one`
    ff/src/fields/models/cubic_extension.rs      derived `PartialEq/Hash`, `Ord` (c2, c1, c0), `is_zero`, `is_one`
    ec/src/models/short_weierstrass/{group,affine}.rs
    ec/src/models/twisted_edwards/{group,affine}.rs
    ec/src/pairing.rs                            `PairingOutput`: all derived from the target field
    poly/src/polynomial/univariate/{dense,sparse}.rs   derived `PartialEq/Hash` on the coefficient vector

  `Hash`: the output of a Rust hasher depends on the hasher; what the impls determine is the
  *byte stream* written into it.  `…HashKey`/`…Stream` below is that stream (a list of bytes),
  for a 64-bit target: `write_usize`/`write_length_prefix` = 8 little-endian bytes,
  `[u64]::hash` = length prefix followed by the raw little-endian limbs, `bool::hash` = one byte.
-/
namespace Ark.EqOrd
open Ark

/-- `Hasher::write_usize` / `write_length_prefix` / `write_u64` on a 64-bit target -/
def le64 (x : Nat) : List Nat := limbBytesLE x

/-- `bool::hash`: `write_u8(b as u8)` -/
def boolByte (b : Bool) : List Nat := [if b then 1 else 0]

/-! ## `BigInt<N>` (a list of `N` limbs, least significant first) -/

/-- `#[derive(PartialEq, Eq)] struct BigInt<const N: usize>(pub [u64; N])`: array equality -/
def bigEq (a b : List Nat) : Bool := a == b

/-- `Ord for BigInt<N>`: limb by limb from the top (`Ark.cmp` of C15) -/
def bigCmp (a b : List Nat) : Ordering := Ark.cmp a b

/-- derived `Hash`: `<[u64; N] as Hash>::hash` = `<[u64] as Hash>::hash` =
    `write_length_prefix(N)` then `u64::hash_slice` (one `write` of the `8N` raw bytes) -/
def bigHashKey (a : List Nat) : List Nat := le64 a.length ++ toBytesLE a

/-- `BigInteger::is_zero`: `self.0.iter().all(Zero::is_zero)` -/
def bigIsZero (a : List Nat) : Bool := Ark.isZero a

/-! ## `Fp<MontBackend<T, N>, N>` (the Montgomery limbs) -/

/-- `#[educe(PartialEq, Eq)] struct Fp(pub BigInt<N>, PhantomData<P>)`: equality of the Montgomery limbs -/
def fpEq (a b : List Nat) : Bool := bigEq a b

/-- `Ord for Fp`: `self.into_bigint().cmp(&other.into_bigint())` -/
def fpCmp (c : Mont.MontCfg) (a b : List Nat) : Ordering :=
  bigCmp (Mont.intoBigint c a) (Mont.intoBigint c b)

/-- `#[educe(Hash)]`: `Hash::hash(&self.0, state); Hash::hash(&self.1, state)` — `PhantomData` writes nothing -/
def fpHashKey (a : List Nat) : List Nat := bigHashKey a

/-- `Zero::is_zero`: `*self == P::ZERO`, `ZERO = Fp::new_unchecked(BigInt([0; N]))` -/
def fpIsZero (c : Mont.MontCfg) (a : List Nat) : Bool := fpEq a (Mont.zeros c.n)

/-- `One::is_one`: `*self == P::ONE`, `ONE = Fp::new_unchecked(T::R)` -/
def fpIsOne (c : Mont.MontCfg) (a : List Nat) : Bool := fpEq a c.r

/-! ## extension towers: `QuadExtField { c0, c1 }`, `CubicExtField { c0, c1, c2 }` over a base that is
    a prime field or again an extension -/

inductive Ext where
  | fp (limbs : List Nat)
  | quad (c0 c1 : Ext)
  | cubic (c0 c1 c2 : Ext)
  deriving Repr, Inhabited

namespace Ext

/-- `#[educe(PartialEq, Eq)]`: field by field in declaration order (`c0` first), `&&`-chained -/
def eq : Ext → Ext → Bool
  | .fp a, .fp b => fpEq a b
  | .quad a0 a1, .quad b0 b1 => eq a0 b0 && eq a1 b1
  | .cubic a0 a1 a2, .cubic b0 b1 b2 => eq a0 b0 && eq a1 b1 && eq a2 b2
  | _, _ => false      -- different types: not expressible in Rust

/-- `Ord for QuadExtField` — doc comment: "`QuadExtField` elements are ordered lexicographically." —
    ```
    match self.c1.cmp(&other.c1) { Greater => Greater, Less => Less, Equal => self.c0.cmp(&other.c0) }
    ```
    `Ord for CubicExtField` — doc comment: "`CubicExtField` elements are ordered lexicographically." —
    ```
    self.c2.cmp(&other.c2).then_with(|| self.c1.cmp(&other.c1)).then_with(|| self.c0.cmp(&other.c0))
    ```
    i.e. the *highest* coefficient is the most significant one. -/
def cmp (c : Mont.MontCfg) : Ext → Ext → Ordering
  | .fp a, .fp b => fpCmp c a b
  | .quad a0 a1, .quad b0 b1 =>
    match cmp c a1 b1 with
    | .gt => .gt
    | .lt => .lt
    | .eq => cmp c a0 b0
  | .cubic a0 a1 a2, .cubic b0 b1 b2 =>
    ((cmp c a2 b2).then (cmp c a1 b1)).then (cmp c a0 b0)
  | _, _ => .eq        -- different types: not expressible in Rust

/-- `#[educe(Hash)]`: the fields in declaration order -/
def hashKey : Ext → List Nat
  | .fp a => fpHashKey a
  | .quad c0 c1 => hashKey c0 ++ hashKey c1
  | .cubic c0 c1 c2 => hashKey c0 ++ hashKey c1 ++ hashKey c2

/-- `Zero::is_zero`: `self.c0.is_zero() && self.c1.is_zero() (&& self.c2.is_zero())` -/
def isZero (c : Mont.MontCfg) : Ext → Bool
  | .fp a => fpIsZero c a
  | .quad c0 c1 => isZero c c0 && isZero c c1
  | .cubic c0 c1 c2 => isZero c c0 && isZero c c1 && isZero c c2

/-- `One::is_one`: `self.c0.is_one() && self.c1.is_zero() (&& self.c2.is_zero())` -/
def isOne (c : Mont.MontCfg) : Ext → Bool
  | .fp a => fpIsOne c a
  | .quad c0 c1 => isOne c c0 && isZero c c1
  | .cubic c0 c1 c2 => isOne c c0 && isZero c c1 && isZero c c2

/-- the base-prime-field coefficients, lowest first (`to_base_prime_field_elements`) -/
def flat : Ext → List (List Nat)
  | .fp a => [a]
  | .quad c0 c1 => flat c0 ++ flat c1
  | .cubic c0 c1 c2 => flat c0 ++ flat c1 ++ flat c2

end Ext

/-! ## `PairingOutput<P>(pub P::TargetField)`:
    `#[educe(Copy, Clone, Debug, PartialEq, Eq, PartialOrd, Ord, Hash)]` — everything is the target field's;
    `Zero::is_zero` is `self.0.is_one()` (the group is written additively) -/

def pairingEq (a b : Ext) : Bool := a.eq b
def pairingCmp (c : Mont.MontCfg) (a b : Ext) : Ordering := Ext.cmp c a b
def pairingHashKey (a : Ext) : List Nat := a.hashKey
def pairingIsZero (c : Mont.MontCfg) (a : Ext) : Bool := a.isOne c

/-! ## curve points, generic over the base field -/
section Curves
open Ark.Curve
variable {F : Type} [Add F] [Sub F] [Mul F] [Neg F] [Zero F] [One F] [Inv F] [DecidableEq F]

/-! ### short Weierstrass -/

/-- `PartialEq for Projective` (Jacobian, cross-multiplied): `Curve.SW.Jac.eq` of C03 -/
def swEq (p q : SW.Jac F) : Bool := p.eq q

/-- `Zero::is_zero for Projective`: `self.z == ZERO` -/
def swIsZero (p : SW.Jac F) : Bool := p.isZero

/-- `#[educe(PartialEq, Eq)] struct Affine { x, y, infinity }`: all three fields, whatever the flag says —
    the placeholder coordinates of a point with `infinity = true` take part in the comparison -/
def swAffEq (a b : SW.Affine F) : Bool :=
  decide (a.x = b.x) && decide (a.y = b.y) && (a.infinity == b.infinity)

/-- `AffineRepr::is_zero` (trait default): `self.xy().is_none()` -/
def swAffIsZero (a : SW.Affine F) : Bool := a.xy.isNone

/-- `PartialEq<Affine<P>> for Projective<P>`: `*self == other.into_group()` -/
def swProjEqAff (p : SW.Jac F) (a : SW.Affine F) : Bool := swEq p (SW.fromAffine a)

/-- `PartialEq<Projective<P>> for Affine<P>`: `self.into_group() == *other` -/
def swAffEqProj (a : SW.Affine F) (p : SW.Jac F) : Bool := swEq (SW.fromAffine a) p

/-- what `#[educe(Hash)]` of `Affine` feeds to the hasher: `x`, `y`, `infinity` -/
def swAffHashKey (a : SW.Affine F) : F × F × Bool := (a.x, a.y, a.infinity)

/-- `Hash for Projective`: `self.into_affine().hash(state)` (`into_affine` = `From<Projective> for Affine`;
    `.panic` is its `inverse().unwrap()`, unreachable since `z ≠ 0` there) -/
def swHashKey (p : SW.Jac F) : Outcome (F × F × Bool) :=
  match SW.toAffine p with
  | .ok a => .ok (swAffHashKey a)
  | .panic => .panic

/-- the byte stream of a hash key, given the stream of a base-field element -/
def swKeyStream (enc : F → List Nat) (k : F × F × Bool) : List Nat :=
  enc k.1 ++ enc k.2.1 ++ boolByte k.2.2

/-! ### twisted Edwards -/

/-- `PartialEq for Projective` (extended coordinates): `Curve.TE.Ext.eq` of C03 -/
def teEq (p q : TE.Ext F) : Bool := p.eq q

/-- `Zero::is_zero for Projective` -/
def teIsZero (p : TE.Ext F) : Bool := p.isZero

/-- `#[educe(PartialEq, Eq)] struct Affine { x, y }` -/
def teAffEq (a b : TE.Affine F) : Bool := decide (a.x = b.x) && decide (a.y = b.y)

/-- inherent `Affine::is_zero`: `self.x.is_zero() && self.y.is_one()`
    (`AffineRepr::is_zero` = `xy().is_none()` = `!(!self.is_zero())` is the same predicate) -/
def teAffIsZero (a : TE.Affine F) : Bool := a.isZero

def teProjEqAff (p : TE.Ext F) (a : TE.Affine F) : Bool := teEq p (TE.fromAffine a)
def teAffEqProj (a : TE.Affine F) (p : TE.Ext F) : Bool := teEq (TE.fromAffine a) p

def teAffHashKey (a : TE.Affine F) : F × F := (a.x, a.y)

/-- `Hash for Projective`: `self.into_affine().hash(state)`; `.panic` = `z.inverse().unwrap()` on `z = 0`
    (not a representation of a point) -/
def teHashKey (p : TE.Ext F) : Outcome (F × F) :=
  match TE.toAffine p with
  | .ok a => .ok (teAffHashKey a)
  | .panic => .panic

def teKeyStream (enc : F → List Nat) (k : F × F) : List Nat := enc k.1 ++ enc k.2

end Curves

/-! ## univariate polynomials: `DensePolynomial { coeffs: Vec<F> }`, `SparsePolynomial { coeffs: Vec<(usize, F)> }`,
    both `#[derive(PartialEq, Eq, Hash)]` — equality of the stored vectors, so equality of
    polynomials holds only between canonical forms -/
section Polys
variable {F : Type} [DecidableEq F]

def polyEq (a b : List F) : Bool := a == b
def sparseEq (a b : List (Nat × F)) : Bool := a == b

/-- `Vec<F>::hash`: length prefix, then every element -/
def polyHashKey (enc : F → List Nat) (a : List F) : List Nat := le64 a.length ++ a.flatMap enc
/-- `Vec<(usize, F)>::hash`: length prefix, then `write_usize(deg)` and the coefficient of every term -/
def sparseHashKey (enc : F → List Nat) (a : List (Nat × F)) : List Nat :=
  le64 a.length ++ a.flatMap (fun t => le64 t.1 ++ enc t.2)

/-- `Zero::is_zero for DensePolynomial`: `coeffs.is_empty() || coeffs.iter().all(|c| c.is_zero())` -/
def polyIsZero (isZ : F → Bool) (a : List F) : Bool := a.isEmpty || a.all isZ
/-- `Zero::is_zero for SparsePolynomial` -/
def sparseIsZero (isZ : F → Bool) (a : List (Nat × F)) : Bool := a.isEmpty || a.all (fun t => isZ t.2)

end Polys

end Ark.EqOrd
