import Ark.Model.Ext
import Ark.Model.Proto
/-
  Driver dispatch for C02 (extension towers).

  Header line (cached by id):   `cfg <id> <kind> <p> <constants…> => <extension_degree>`
    fp2  : <hooks2> <nr> <frobC1>
    fp3  : <nr> <frobC1> <frobC2>
    fp4  : <hooks2> <nr2> <frob2> <nr4> <frob4>
    fp6a : <nr3> <frob3C1> <frob3C2> <nr6> <frob6>                  (Fp6 = 2 over 3)
    fp6b : <hooks2> <nr2> <frob2> <hooks6> <nr6> <frob6C1> <frob6C2>   (Fp6 = 3 over 2)
    fp12 : (fp6b fields) <nr12> <frob12>
  A kind with suffix `~` (e.g. `fp3~`) marks a deliberately defective configuration of the harness
  (non-residue that is a cube, truncated Frobenius table, characteristic 3): the verdict is then
  restricted to the ring identities and every other op is compared with the model only (panic sites).
  `hooks2` ∈ {def, neg} (trait defaults / the `bls12_381::Fq2Config` overrides),
  `hooks6` ∈ {def, bls} (trait default / the `bls12_381::Fq6Config` override `(c0-c1, c0+c1)`).
  Elements and tables are comma-separated base-prime-field coordinates (standard integer values),
  flattened in the order of `to_base_prime_field_elements`.

  Op lines: `<op> <id> <args…>`  (and `charsq6 <limbs>` for the guard of the Granger–Scott squaring).

  The verdict is an *independent* executable spec on flattened coordinates: schoolbook
  multiplication in `F[X]/(X^k - β)`, layer by layer (`smul`), with `β` the constant `NONRESIDUE`;
  powers by square-and-multiply over `smul`; Frobenius = `x ↦ x^(p^k)` (directly when cheap, else via
  the `F_p`-linear map whose matrix holds the `p`-th powers of the basis, each computed by `spow`).
-/
/-! ### model additions for the coverage-gap ops of `quadratic_extension.rs`, `cubic_extension.rs`,
    `fields/arithmetic.rs`, `to_field_vec.rs` (kept here so that the modules depending on `Ext` are not rebuilt) -/
namespace Ark.Ext
section gap
variable {P E : Type} [Add E] [Mul E] [Neg E] [Zero E] [One E]

/-- `Field::inverse_in_place`: `self.inverse().map(|inverse| { *self = inverse; self })` —
    `(returned value, self afterwards)` -/
def inverseInPlace (D : FieldD P E) (a : E) : Outcome (Option E × E) :=
  obind (D.inverse a) fun
    | some i => .ok (some i, i)
    | none => .ok (none, a)

/-- `DivAssign<&Self>`: `*self *= &other.inverse().unwrap()`; all `Div` / `DivAssign` receiver variants
    of `impl_multiplicative_ops_from_ref!` and `Div<&Self>` end here -/
def fieldDiv (D : FieldD P E) (a b : E) : Outcome E :=
  obind (D.inverse b) fun
    | some i => .ok (a * i)
    | none => .panic

/-- `Sum<Self>` / `Sum<&Self>`: `iter.fold(Self::zero(), Add::add)` -/
def sumIter (xs : List E) : E := xs.foldl (· + ·) 0
/-- `Product<Self>` / `Product<&Self>`: `iter.fold(Self::one(), Mul::mul)` -/
def productIter (xs : List E) : E := xs.foldl (· * ·) 1

/-- `From<u8 … u128>` (and `From<bool>` of `QuadExtField`): `Self::new(other.into(), ZERO [, ZERO])`, layer by
    layer down to the prime field, i.e. `ofPrime` of the prime-field conversion `conv` -/
def fromUnsigned (D : FieldD P E) (conv : Nat → P) (x : Nat) : E := D.ofPrime (conv x)

/-- `From<i8 … i128>`: `let abs = Self::from(val.unsigned_abs()); if val.is_positive() { abs } else { -abs }` -/
def fromSignedInt (D : FieldD P E) (conv : Nat → P) (x : Int) : E :=
  let abs := D.ofPrime (conv x.natAbs)
  if x > 0 then abs else -abs

end gap

/-- `<[u8] as ToConstraintField<F>>::to_field_elements` for a prime field `F` of `bits = MODULUS_BIT_SIZE` bits:
    `self.chunks((bits − 1) / 8)` (panics for chunk size 0), every chunk zero-padded and read back by
    `deserialize_compressed` (little endian, the first `⌈bits/8⌉` bytes; `None` when the value is `≥ p`),
    collected into an `Option<Vec<_>>` -/
def bytesToFieldElements (p : Nat) (bytes : List Nat) : Outcome (Option (List Nat)) :=
  let bits := if p = 0 then 0 else p.log2 + 1
  let maxSize := (bits - 1) / 8
  if maxSize = 0 then .panic
  else
    let nb := (bits + 7) / 8
    let vals := (chunks maxSize bytes bytes.length).map (fun ch =>
      let v := ((ch ++ List.replicate (nb - ch.length) 0).take nb).zipIdx.foldl (fun acc (b, i) => acc + b * 256 ^ i) 0
      if v ≥ p then none else some v)
    .ok (if vals.all Option.isSome then some (vals.filterMap id) else none)

end Ark.Ext

namespace Ark.DrvC02
open Ark Ark.Proto Ark.Ext

/-! ## the executable spec -/

inductive Shape where
  | prime : Shape
  | ext (k : Nat) (beta : List Nat) (base : Shape) : Shape

def Shape.deg : Shape → Nat
  | .prime => 1
  | .ext k _ b => k * b.deg

def vadd (p : Nat) (a b : List Nat) : List Nat := List.zipWith (fun x y => (x + y) % p) a b
def vsub (p : Nat) (a b : List Nat) : List Nat := List.zipWith (fun x y => (x + (p - y % p)) % p) a b
def vneg (p : Nat) (a : List Nat) : List Nat := a.map (fun x => (p - x % p) % p)
def vscale (p c : Nat) (a : List Nat) : List Nat := a.map (fun x => (c * x) % p)

/-- `k` chunks of size `d` -/
def chunk (d : Nat) : Nat → List Nat → List (List Nat)
  | 0, _ => []
  | k + 1, l => l.take d :: chunk d k (l.drop d)

/-- schoolbook product in the tower described by the shape: coefficient `i` is
    `Σ_{j+l=i} a_j b_l + β · Σ_{j+l=i+k} a_j b_l` -/
def smul (p : Nat) : Shape → List Nat → List Nat → List Nat
  | .prime, a, b => [(a.headD 0 * b.headD 0) % p]
  | .ext k β s, a, b =>
    let d := s.deg
    let as := (chunk d k a).toArray
    let bs := (chunk d k b).toArray
    let z := List.replicate d 0
    let coef (i : Nat) : List Nat :=
      (List.range k).foldl (fun acc j =>
        if j ≤ i ∧ i - j < k then vadd p acc (smul p s (as.getD j z) (bs.getD (i - j) z)) else acc) z
    (List.range k).flatMap (fun i => vadd p (coef i) (smul p s β (coef (i + k))))

def unitVec (p n i : Nat) : List Nat := (List.range n).map (fun j => if j = i then 1 % p else 0)

def spowAux (p : Nat) (sh : Shape) : Nat → List Nat → Nat → List Nat → List Nat
  | 0, _, _, acc => acc
  | fuel + 1, b, e, acc =>
    if e = 0 then acc
    else spowAux p sh fuel (smul p sh b b) (e / 2) (if e % 2 = 1 then smul p sh acc b else acc)

/-- `a^e` by square-and-multiply over the schoolbook product -/
def spow (p : Nat) (sh : Shape) (a : List Nat) (e : Nat) : List Nat :=
  spowAux p sh (e.log2 + 2) a e (unitVec p sh.deg 0)

/-- images of the coordinate basis under `x ↦ x^p` -/
def frobImgs (p : Nat) (sh : Shape) : List (List Nat) :=
  (List.range sh.deg).map (fun i => spow p sh (unitVec p sh.deg i) p)

/-- the `F_p`-linear map with the given basis images -/
def applyLin (p : Nat) (n : Nat) (imgs : List (List Nat)) (a : List Nat) : List Nat :=
  (a.zip imgs).foldl (fun acc (c, v) => if c = 0 then acc else vadd p acc (vscale p c v)) (List.replicate n 0)

def iterN {α} (f : α → α) : Nat → α → α
  | 0, x => x
  | n + 1, x => iterN f n (f x)

/-! ## configured towers -/

structure Inst where
  p : Nat
  shape : Shape
  /-- the kind has the conjugation-based `CyclotomicMultSubgroup` impl -/
  cycFast : Bool
  /-- the configuration is deliberately not a field / has defective tables (kind suffix `~`): verdicts are
      restricted to the ring identities, every other op is checked for model conformance only -/
  ringOnly : Bool := false
  imgs : Thunk (List (List Nat))
  model : String → List String → Option String

structure Cache where
  insts : List (String × Inst) := []

def vs (impl spec : String) : String := if impl == spec then "ok" else "bad:want=" ++ spec

/-- `x ↦ x^(p^k)`: direct power when cheap (or forced), else `k mod n` applications of the linear map -/
def sfrob (I : Inst) (force : Bool) (a : List Nat) (k : Nat) : List Nat :=
  let n := I.shape.deg
  if force || k * (I.p.log2 + 1) * n * n ≤ 6000 then spow I.p I.shape a (I.p ^ k)
  else iterN (applyLin I.p n I.imgs.get) (k % n) a

/-- Frobenius through the linear map only (used for the membership tests) -/
def sfrobLin (I : Inst) (a : List Nat) (k : Nat) : List Nat :=
  let n := I.shape.deg
  iterN (applyLin I.p n I.imgs.get) (k % n) a

def embed (n : Nat) (e : List Nat) : List Nat := e ++ List.replicate (n - e.length) 0

/-- the sparse operand: blocks of width `u` at the given block positions -/
def place (n u : Nat) (blocks : List (Nat × List Nat)) : List Nat :=
  (List.range (n / u)).flatMap (fun i =>
    match blocks.find? (fun b => b.1 == i) with
    | some b => b.2
    | none => List.replicate u 0)

/-- membership in the cyclotomic subgroup of order `Φ_n(p)` (n = degree over the prime field) -/
def cycMember (I : Inst) (a : List Nat) : Bool :=
  let p := I.p
  let sh := I.shape
  let n := sh.deg
  let one := unitVec p n 0
  if !I.cycFast then !(a.all (· == 0))
  else match n with
    | 2 => smul p sh (sfrobLin I a 1) a == one
    | 4 => smul p sh (sfrobLin I a 2) a == one
    | 6 => smul p sh (sfrobLin I a 2) a == sfrobLin I a 1
    | 12 => smul p sh (sfrobLin I a 4) a == sfrobLin I a 2
    | _ => false

def isInverse (I : Inst) (a : List Nat) (impl : String) : String :=
  let n := I.shape.deg
  if a.all (· == 0) then vs impl "none"
  else match parseList? impl with
    | some x =>
      if x.length == n && x.all (· < I.p) && smul I.p I.shape a x == unitVec I.p n 0 then "ok"
      else "bad:a*x!=1"
    | none => "bad:" ++ impl

def ringOps : List String :=
  ["add", "sub", "neg", "double", "mul", "square", "mulprime", "mulbase", "mulfp", "mulfp2", "mulafp2",
   "m034", "m014", "m01", "m1", "fromelems", "hnr", "hnradd", "hnrp1", "hsub",
   "sum", "prod", "fromw", "zeroize", "valid", "tfe", "tfe_bool", "tfe_unit", "tfe_slice", "tfe_prime", "tfe_bytes"]

/-- `(signed, bits)` of the integer types with a `From` impl -/
def intWidth? (w : String) : Option (Bool × Nat) :=
  match w with
  | "u8" => some (false, 8) | "u16" => some (false, 16) | "u32" => some (false, 32) | "u64" => some (false, 64)
  | "u128" => some (false, 128) | "i8" => some (true, 8) | "i16" => some (true, 16) | "i32" => some (true, 32)
  | "i64" => some (true, 64) | "i128" => some (true, 128) | "bool" => some (false, 1) | _ => none

def intInRange (sb : Bool × Nat) (x : Int) : Bool :=
  if sb.1 then decide (-(2 ^ (sb.2 - 1) : Int) ≤ x ∧ x < (2 ^ (sb.2 - 1) : Int)) else decide (0 ≤ x ∧ x < (2 ^ sb.2 : Int))

def Shape.topCubic : Shape → Bool
  | .ext 3 _ _ => true
  | _ => false

def verdict (I : Inst) (op : String) (args : List String) (impl : String) : Option String := do
  if I.ringOnly && !ringOps.contains op then return "ok"
  let p := I.p
  let sh := I.shape
  let n := sh.deg
  let mulS := smul p sh
  let eq (w : List Nat) : String := vs impl (hexList w)
  let el (s : String) : Option (List Nat) := do
    let l ← parseList? s
    if l.length == n then some l else none
  match op, args with
  | "add", [a, b] => let a ← el a; let b ← el b; some (eq (vadd p a b))
  | "sub", [a, b] => let a ← el a; let b ← el b; some (eq (vsub p a b))
  | "neg", [a] => let a ← el a; some (eq (vneg p a))
  | "double", [a] => let a ← el a; some (eq (vadd p a a))
  | "mul", [a, b] => let a ← el a; let b ← el b; some (eq (mulS a b))
  | "square", [a] => let a ← el a; some (eq (mulS a a))
  | "inverse", [a] => let a ← el a; some (isInverse I a impl)
  | "frob", [k, a] => let k ← parseHex? k; let a ← el a; some (eq (sfrob I false a k))
  | "frobx", [k, a] => let k ← parseHex? k; let a ← el a; some (eq (sfrob I true a k))
  | "norm", [a] =>
    let a ← el a
    match sh with
    | .prime => none
    | .ext k _ b =>
      let d := b.deg
      let nm := (List.range k).foldl (fun acc i => mulS acc (sfrob I false a (i * d))) (unitVec p n 0)
      if (nm.drop d).all (· == 0) then some (eq (nm.take d)) else some "bad:spec-norm-not-in-base"
  | "conj", [a] =>
    let a ← el a
    match sh with
    | .prime => none
    | .ext _ _ b => some (eq (sfrob I false a b.deg))
  | "mulprime", [a, e] => let a ← el a; let e ← parseList? e; some (eq (mulS a (embed n e)))
  | "mulbase", [a, e] => let a ← el a; let e ← parseList? e; some (eq (mulS a (embed n e)))
  | "mulfp", [a, e] => let a ← el a; let e ← parseList? e; some (eq (mulS a (embed n e)))
  | "mulfp2", [a, e] => let a ← el a; let e ← parseList? e; some (eq (mulS a (embed n e)))
  | "mulafp2", [a, e] => let a ← el a; let e ← parseList? e; some (eq (mulS a (embed n e)))
  | "m034", [a, x0, x3, x4] =>
    let a ← el a; let x0 ← parseList? x0; let x3 ← parseList? x3; let x4 ← parseList? x4
    some (eq (mulS a (place n x0.length [(0, x0), (3, x3), (4, x4)])))
  | "m014", [a, x0, x1, x4] =>
    let a ← el a; let x0 ← parseList? x0; let x1 ← parseList? x1; let x4 ← parseList? x4
    some (eq (mulS a (place n x0.length [(0, x0), (1, x1), (4, x4)])))
  | "m01", [a, x0, x1] =>
    let a ← el a; let x0 ← parseList? x0; let x1 ← parseList? x1
    some (eq (mulS a (place n x0.length [(0, x0), (1, x1)])))
  | "m1", [a, x1] =>
    let a ← el a; let x1 ← parseList? x1
    some (eq (mulS a (place n x1.length [(1, x1)])))
  | "fromelems", [l] =>
    let l ← parseList? l
    some (if l.length == n then eq l else vs impl "none")
  -- the overridable hooks, called directly: they must multiply by the constant `NONRESIDUE`
  | "hnr", [y] =>
    let y ← parseList? y
    match sh with
    | .prime => none
    | .ext _ β b => some (eq (smul p b β y))
  | "hnradd", [y, x] =>
    let y ← parseList? y; let x ← parseList? x
    match sh with
    | .prime => none
    | .ext _ β b => some (eq (vadd p x (smul p b β y)))
  | "hnrp1", [y, x] =>
    let y ← parseList? y; let x ← parseList? x
    match sh with
    | .prime => none
    | .ext _ β b => some (eq (vadd p (vadd p x (smul p b β y)) y))
  | "hsub", [y, x] =>
    let y ← parseList? y; let x ← parseList? x
    match sh with
    | .prime => none
    | .ext _ β b => some (eq (vsub p x (smul p b β y)))
  -- ---- coverage-gap ops
  | "invip", [a] =>
    -- impl = "<returned value> <self afterwards>"
    let a ← el a
    match impl.splitOn " " with
    | [r, sf] =>
      if a.all (· == 0) then some (vs impl ("none " ++ hexList a))
      else if r != sf then some "bad:self-not-updated"
      else some (isInverse I a r)
    | _ => some ("bad:" ++ impl)
  | "div", [a, b] =>
    -- every receiver variant of `Div` / `DivAssign`: division by zero panics (documented), else `x·b = a`
    let a ← el a; let b ← el b
    if b.all (· == 0) then some (vs impl "panic")
    else match parseList? impl with
      | some x =>
        if x.length == n && x.all (· < p) && mulS b x == a then some "ok" else some "bad:x*b!=a"
      | none => some ("bad:" ++ impl)
  | "sum", [l] =>
    let l ← parseList? l
    if l.length % n != 0 then none
    else some (eq ((chunk n (l.length / n) l).foldl (vadd p) (List.replicate n 0)))
  | "prod", [l] =>
    let l ← parseList? l
    if l.length % n != 0 then none
    else some (eq ((chunk n (l.length / n) l).foldl mulS (unitVec p n 0)))
  | "fromw", [w, x] =>
    let sb ← intWidth? w; let x ← parseInt? x
    if !intInRange sb x then none
    else if w == "bool" && sh.topCubic then
      -- `impl From<bool> for CubicExtField` is `other.into()`: unconditional recursion (DESIGN.md §5 notes)
      some (if impl == "hang" || impl == "stack-overflow" then "note:From<bool> for CubicExtField recurses forever: " ++ impl
            else "bad:" ++ impl)
    else some (eq (embed n [((x % (p : Int)).toNat)]))
  | "zeroize", [a] => let _ ← el a; some (eq (List.replicate n 0))
  | "valid", [a] => let _ ← el a; some (vs impl "ok")
  | "tfe", [a] => let a ← el a; some (eq a)
  | "tfe_bool", [b] => some (eq (if b == "1" then unitVec p n 0 else List.replicate n 0))
  | "tfe_unit", [] => some (vs impl "_")
  | "tfe_slice", [l] => let l ← parseList? l; some (eq l)
  | "tfe_prime", [x] => let x ← parseHex? x; some (eq [x % p])
  | "tfe_bytes", [bs] =>
    -- documented packing: chunks of `(MODULUS_BIT_SIZE − 1) / 8` bytes, each read little endian
    let bs ← parseList? bs
    let bits := p.log2 + 1
    let ms := (bits - 1) / 8
    if ms == 0 then
      some (if impl == "panic" then "note:[u8]::to_field_elements panics (chunks(0)) for moduli below 2^8" else "bad:" ++ impl)
    else
      let rec pack (fuel : Nat) (l : List Nat) : List Nat :=
        match fuel with
        | 0 => []
        | f + 1 => if l.isEmpty then [] else
          ((l.take ms).reverse.foldl (fun acc b => acc * 256 + b) 0) :: pack f (l.drop ms)
      some (eq (pack bs.length bs))
  -- cyclotomic operations: the property speaks about members of the cyclotomic subgroup only
  | "cycsq", [a] =>
    let a ← el a
    some (if cycMember I a then eq (mulS a a) else "bad:precondition-not-cyclotomic")
  | "cycinv", [a] =>
    let a ← el a
    some (if cycMember I a then isInverse I a impl else "bad:precondition-not-cyclotomic")
  | "cycexp", [a, e] =>
    let a ← el a; let e ← parseList? e
    some (if cycMember I a then eq (spow p sh a (value e)) else "bad:precondition-not-cyclotomic")
  -- the same operations off the subgroup: conformance of the model only
  | "cycsq_nm", [a] => let _ ← el a; some "ok"
  | "cycinv_nm", [a] => let _ ← el a; some "ok"
  | "cycexp_nm", [a, e] => let _ ← el a; let _ ← parseList? e; some "ok"
  | _, _ => none

/-! ## the model side -/

section model
variable {p : Nat}

def fps (l : List Nat) : List (Fp p) := l.map (Fp.ofNat p)

def showE {E : Type} (D : FieldD (Fp p) E) (e : E) : String := hexList ((D.toPrimes e).map (·.val))
def showO {E : Type} (D : FieldD (Fp p) E) : Outcome E → String
  | .ok e => showE D e
  | .panic => "panic"
def showOO {E : Type} (D : FieldD (Fp p) E) : Outcome (Option E) → String
  | .ok (some e) => showE D e
  | .ok none => "none"
  | .panic => "panic"
def parseE {E : Type} (D : FieldD (Fp p) E) (s : String) : Option E := do
  let l ← parseList? s
  D.fromPrimes (fps l)
/-- a list of elements printed as one flattened coordinate list -/
def parseEs {E : Type} (D : FieldD (Fp p) E) (s : String) : Option (List E) := do
  let l ← parseList? s
  let d := D.extDeg
  if d = 0 ∨ l.length % d != 0 then none
  else mapM? (fun c => D.fromPrimes (fps c)) (chunk d (l.length / d) l)
def showEs {E : Type} (D : FieldD (Fp p) E) (es : List E) : String :=
  hexList (es.flatMap (fun e => (D.toPrimes e).map (·.val)))

/-- operations every tower has (trait `Field`, `CyclotomicMultSubgroup`) -/
def genModel {E : Type} [Add E] [Sub E] [Mul E] [Neg E] [Zero E] [One E] [DecidableEq E]
    (D : FieldD (Fp p) E) (C : CycD E) (extra : String → List String → Option String)
    (op : String) (args : List String) (topCubic : Bool := false) : Option String :=
  let pe := parseE D
  let sh := showE D
  match op, args with
  -- ---- coverage-gap ops
  | "invip", [a] => do
    let a ← pe a
    some (match inverseInPlace D a with
      | .ok (some r, sf) => sh r ++ " " ++ sh sf
      | .ok (none, sf) => "none " ++ sh sf
      | .panic => "panic")
  | "div", [a, b] => do let a ← pe a; let b ← pe b; some (showO D (fieldDiv D a b))
  | "sum", [l] => do let l ← parseEs D l; some (sh (sumIter l))
  | "prod", [l] => do let l ← parseEs D l; some (sh (productIter l))
  | "fromw", [w, x] => do
    let sb ← intWidth? w; let x ← parseInt? x
    if !intInRange sb x then none
    else if w == "bool" && topCubic then some "any:diverges (unconditional recursion)"
    else if sb.1 then some (sh (fromSignedInt D (Fp.ofNat p) x))
    else some (sh (fromUnsigned D (Fp.ofNat p) x.toNat))
  | "zeroize", [a] => do let _ ← pe a; some (sh (0 : E))
  | "valid", [a] => do let _ ← pe a; some "ok"
  | "tfe", [a] => do let a ← pe a; some (hexList ((D.toPrimes a).map (·.val)))
  | "tfe_bool", [b] => some (showEs D [if b == "1" then (1 : E) else 0])
  | "tfe_unit", [] => some "_"
  | "tfe_slice", [l] => do let l ← parseEs D l; some (showEs D l)
  | "tfe_prime", [x] => do let x ← parseHex? x; some (hexList [(Fp.ofNat p x).val])
  | "tfe_bytes", [bs] => do
    let bs ← parseList? bs
    some (match bytesToFieldElements p bs with
      | .ok (some l) => hexList l
      | .ok none => "none"
      | .panic => "panic")
  | "add", [a, b] => do let a ← pe a; let b ← pe b; some (sh (a + b))
  | "sub", [a, b] => do let a ← pe a; let b ← pe b; some (sh (a - b))
  | "neg", [a] => do let a ← pe a; some (sh (-a))
  | "double", [a] => do let a ← pe a; some (sh (D.double a))
  | "mul", [a, b] => do let a ← pe a; let b ← pe b; some (sh (a * b))
  | "square", [a] => do let a ← pe a; some (sh (D.square a))
  | "inverse", [a] => do let a ← pe a; some (showOO D (D.inverse a))
  | "frob", [k, a] => do let k ← parseHex? k; let a ← pe a; some (showO D (D.frob a k))
  | "frobx", [k, a] => do let k ← parseHex? k; let a ← pe a; some (showO D (D.frob a k))
  | "mulprime", [a, e] => do let a ← pe a; let e ← parseHex? e; some (sh (D.mulByPrime a (Fp.ofNat p e)))
  | "fromelems", [l] => do
    let l ← parseList? l
    some (match D.fromPrimes (fps l) with
      | some e => sh e
      | none => "none")
  | "cycsq", [a] => do let a ← pe a; some (sh (C.cycSquare a))
  | "cycsq_nm", [a] => do let a ← pe a; some (sh (C.cycSquare a))
  | "cycinv", [a] => do let a ← pe a; some (showOO D (C.cycInverse a))
  | "cycinv_nm", [a] => do let a ← pe a; some (showOO D (C.cycInverse a))
  | "cycexp", [a, e] => do let a ← pe a; let e ← parseList? e; some (showO D (cycExp C a e))
  | "cycexp_nm", [a, e] => do let a ← pe a; let e ← parseList? e; some (showO D (cycExp C a e))
  | _, _ => extra op args

/-- ops of `QuadExtField` that mention the base field -/
def quadExtra {F : Type} [Add F] [Sub F] [Mul F] [Neg F] [Zero F] [One F] [DecidableEq F]
    (cfg : QuadCfg F) (B : FieldD (Fp p) F) (more : String → List String → Option String)
    (op : String) (args : List String) : Option String :=
  let D := Quad.fieldD cfg B
  match op, args with
  | "norm", [a] => do let a ← parseE D a; some (showE B (Quad.norm cfg B a))
  | "conj", [a] => do let a ← parseE D a; some (showE D (Quad.conj a))
  | "mulbase", [a, e] => do let a ← parseE D a; let e ← parseE B e; some (showE D (Quad.mulByBase a e))
  | "hnr", [y] => do let y ← parseE B y; some (showE B (cfg.mulNr y))
  | "hnradd", [y, x] => do let y ← parseE B y; let x ← parseE B x; some (showE B (cfg.mulNrAndAdd y x))
  | "hnrp1", [y, x] => do let y ← parseE B y; let x ← parseE B x; some (showE B (cfg.mulNrPlusOneAndAdd y x))
  | "hsub", [y, x] => do let y ← parseE B y; let x ← parseE B x; some (showE B (cfg.subAndMulNr y x))
  | _, _ => more op args

/-- ops of `CubicExtField` that mention the base field -/
def cubicExtra {F : Type} [Add F] [Sub F] [Mul F] [Neg F] [Zero F] [One F] [DecidableEq F]
    (cfg : CubicCfg F) (B : FieldD (Fp p) F) (more : String → List String → Option String)
    (op : String) (args : List String) : Option String :=
  let D := Cubic.fieldD cfg B
  match op, args with
  | "norm", [a] => do let a ← parseE D a; some (showO B (Cubic.norm cfg B a))
  | "mulbase", [a, e] => do let a ← parseE D a; let e ← parseE B e; some (showE D (Cubic.mulByBase a e))
  | "hnr", [y] => do let y ← parseE B y; some (showE B (cfg.mulNr y))
  | _, _ => more op args

def mkFp2Cfg (hooks : String) (nr : Fp p) (tbl : List (Fp p)) : Fp2Cfg (Fp p) :=
  if hooks == "neg" then Fp2Cfg.negOne nr tbl else Fp2Cfg.default nr tbl

/-- the override of `test-curves/src/bls12_381/fq6.rs`: `(c0, c1) ↦ (c0 - c1, c1 + c0)` -/
def mkFp6bCfg [Mul (Quad (Fp p))] (hooks : String) (nr : Quad (Fp p)) (c1 c2 : List (Quad (Fp p))) :
    Fp6bCfg (Quad (Fp p)) :=
  if hooks == "bls" then
    { nonresidue := nr, frobC1 := c1, frobC2 := c2,
      mulNr := fun fe => ⟨fe.c0 - fe.c1, fe.c1 + fe.c0⟩ }
  else Fp6bCfg.default nr c1 c2

def noMore : String → List String → Option String := fun _ _ => none

def charLimbs (p : Nat) : List Nat := toLimbs (p.log2 / 64 + 1) p

def mkInst (p : Nat) (sh : Shape) (fast : Bool) (m : String → List String → Option String) : Inst :=
  { p := p, shape := sh, cycFast := fast, imgs := Thunk.mk (fun _ => frobImgs p sh), model := m }

def instFp2 (p : Nat) (hooks : String) (nr : Nat) (tbl : List Nat) : Inst :=
  let B0 := fpD p
  let c2 := mkFp2Cfg hooks (Fp.ofNat p nr) (fps tbl)
  let q2 := c2.wrap
  let _m2 : Mul (Quad (Fp p)) := ⟨Quad.mul q2 B0⟩
  let D2 := Quad.fieldD q2 B0
  let more (op : String) (args : List String) : Option String :=
    match op, args with
    | "mulfp", [a, e] => do
      let a ← parseE D2 a; let e ← parseHex? e
      some (showE D2 (Fp2.mulAssignByFp a (Fp.ofNat p e)))
    | _, _ => none
  mkInst p (.ext 2 [nr] .prime) true
    (genModel D2 (CycD.conj D2 none) (quadExtra q2 B0 more))

def instFp3 (p : Nat) (nr : Nat) (c1 c2 : List Nat) : Inst :=
  let B0 := fpD p
  let c3 := Fp3Cfg.default (Fp.ofNat p nr) (fps (p := p) c1) (fps c2)
  let q3 := c3.wrap
  let _m3 : Mul (Cubic (Fp p)) := ⟨Cubic.mul q3⟩
  let D3 := Cubic.fieldD q3 B0
  let more (op : String) (args : List String) : Option String :=
    match op, args with
    | "mulfp", [a, e] => do
      let a ← parseE D3 a; let e ← parseHex? e
      some (showE D3 (Fp3.mulAssignByFp a (Fp.ofNat p e)))
    | _, _ => none
  mkInst p (.ext 3 [nr] .prime) false
    (fun op args => genModel D3 (CycD.default D3) (cubicExtra q3 B0 more) op args true)

def instFp4 (p : Nat) (hooks : String) (nr2 : Nat) (tbl2 : List Nat) (nr4 : List Nat) (tbl4 : List Nat) :
    Option Inst := do
  let B0 := fpD p
  let c2 := mkFp2Cfg hooks (Fp.ofNat p nr2) (fps tbl2)
  let q2 := c2.wrap
  let _m2 : Mul (Quad (Fp p)) := ⟨Quad.mul q2 B0⟩
  let D2 := Quad.fieldD q2 B0
  let nr4e ← D2.fromPrimes (fps nr4)
  let q4 := Fp4.cfg c2 nr4e (fps tbl4)
  let _m4 : Mul (Quad (Quad (Fp p))) := ⟨Quad.mul q4 D2⟩
  let D4 := Quad.fieldD q4 D2
  let more (op : String) (args : List String) : Option String :=
    match op, args with
    | "mulfp", [a, e] => do
      let a ← parseE D4 a; let e ← parseHex? e
      some (showE D4 (Fp4.mulByFp a (Fp.ofNat p e)))
    | "mulfp2", [a, e] => do
      let a ← parseE D4 a; let e ← parseE D2 e
      some (showE D4 (Fp4.mulByFp2 a e))
    | _, _ => none
  some (mkInst p (.ext 2 nr4 (.ext 2 [nr2] .prime)) true
    (genModel D4 (CycD.conj D4 none) (quadExtra q4 D2 more)))

def instFp6a (p : Nat) (nr3 : Nat) (c1 c2 : List Nat) (nr6 : List Nat) (tbl6 : List Nat) : Option Inst := do
  let B0 := fpD p
  let c3 := Fp3Cfg.default (Fp.ofNat p nr3) (fps (p := p) c1) (fps c2)
  let q3 := c3.wrap
  let _m3 : Mul (Cubic (Fp p)) := ⟨Cubic.mul q3⟩
  let D3 := Cubic.fieldD q3 B0
  let nr6e ← D3.fromPrimes (fps nr6)
  let q6 := Fp6a.cfg c3 nr6e (fps tbl6)
  let _m6 : Mul (Quad (Cubic (Fp p))) := ⟨Quad.mul q6 D3⟩
  let D6 := Quad.fieldD q6 D3
  let f (s : String) : Option (Fp p) := (parseHex? s).map (Fp.ofNat p)
  let more (op : String) (args : List String) : Option String :=
    match op, args with
    | "m034", [a, x0, x3, x4] => do
      let a ← parseE D6 a; let x0 ← f x0; let x3 ← f x3; let x4 ← f x4
      some (showE D6 (Fp6a.mulBy034 c3.nonresidue a x0 x3 x4))
    | "m014", [a, x0, x1, x4] => do
      let a ← parseE D6 a; let x0 ← f x0; let x1 ← f x1; let x4 ← f x4
      some (showE D6 (Fp6a.mulBy014 c3.nonresidue a x0 x1 x4))
    | _, _ => none
  some (mkInst p (.ext 2 nr6 (.ext 3 [nr3] .prime)) true
    (genModel D6 (CycD.conj D6 none) (quadExtra q6 D3 more)))

/-- Fp6 (3 over 2), and Fp12 on top of it when `top = some (nr12, tbl12)` -/
def instFp6b12 (p : Nat) (hooks2 : String) (nr2 : Nat) (tbl2 : List Nat) (hooks6 : String) (nr6 : List Nat)
    (c1 c2 : List Nat) (top : Option (List Nat × List Nat)) : Option Inst := do
  let B0 := fpD p
  let cf2 := mkFp2Cfg hooks2 (Fp.ofNat p nr2) (fps tbl2)
  let q2 := cf2.wrap
  let _m2 : Mul (Quad (Fp p)) := ⟨Quad.mul q2 B0⟩
  let D2 := Quad.fieldD q2 B0
  let nr6e ← D2.fromPrimes (fps nr6)
  let c1e ← parseEsL D2 c1
  let c2e ← parseEsL D2 c2
  let cf6 := mkFp6bCfg hooks6 nr6e c1e c2e
  let q6 := cf6.wrap
  let _m6 : Mul (Cubic (Quad (Fp p))) := ⟨Cubic.mul q6⟩
  let D6 := Cubic.fieldD q6 D2
  let sh2 : Shape := .ext 2 [nr2] .prime
  let sh6 : Shape := .ext 3 nr6 sh2
  match top with
  | none =>
    let more (op : String) (args : List String) : Option String :=
      match op, args with
      | "mulfp", [a, e] => do
        let a ← parseE D6 a; let e ← parseHex? e
        some (showE D6 (Fp6b.mulByFp a (Fp.ofNat p e)))
      | "mulfp2", [a, e] => do
        let a ← parseE D6 a; let e ← parseE D2 e
        some (showE D6 (Fp6b.mulByFp2 a e))
      | "mulafp2", [a, e] => do
        let a ← parseE D6 a; let e ← parseE D2 e
        some (showE D6 (Fp6b.mulByFp2 a e))
      | "m1", [a, x1] => do
        let a ← parseE D6 a; let x1 ← parseE D2 x1
        some (showE D6 (Fp6b.mulBy1 cf6 a x1))
      | "m01", [a, x0, x1] => do
        let a ← parseE D6 a; let x0 ← parseE D2 x0; let x1 ← parseE D2 x1
        some (showE D6 (Fp6b.mulBy01 cf6 a x0 x1))
      | _, _ => none
    some (mkInst p sh6 false (fun op args => genModel D6 (CycD.default D6) (cubicExtra q6 D2 more) op args true))
  | some (nr12, tbl12) =>
    let nr12e ← D6.fromPrimes (fps nr12)
    let t12 ← parseEsL D2 tbl12
    let q12 := Fp12.cfg cf6 nr12e t12
    let _m12 : Mul (Quad (Cubic (Quad (Fp p)))) := ⟨Quad.mul q12 D6⟩
    let D12 := Quad.fieldD q12 D6
    let gs := Fp12.cycSquare cf6 D2.double D12.square (charLimbs p)
    let more (op : String) (args : List String) : Option String :=
      match op, args with
      | "mulfp", [a, e] => do
        let a ← parseE D12 a; let e ← parseHex? e
        some (showE D12 (Fp12.mulByFp a (Fp.ofNat p e)))
      | "m034", [a, x0, x3, x4] => do
        let a ← parseE D12 a; let x0 ← parseE D2 x0; let x3 ← parseE D2 x3; let x4 ← parseE D2 x4
        some (showE D12 (Fp12.mulBy034 cf6 a x0 x3 x4))
      | "m014", [a, x0, x1, x4] => do
        let a ← parseE D12 a; let x0 ← parseE D2 x0; let x1 ← parseE D2 x1; let x4 ← parseE D2 x4
        some (showE D12 (Fp12.mulBy014 cf6 a x0 x1 x4))
      | _, _ => none
    some (mkInst p (.ext 2 nr12 sh6) true
      (genModel D12 (CycD.conj D12 (some gs)) (quadExtra q12 D6 more)))
where
  parseEsL {E : Type} (D : FieldD (Fp p) E) (l : List Nat) : Option (List E) :=
    let d := D.extDeg
    if d = 0 ∨ l.length % d != 0 then none
    else mapM? (fun c => D.fromPrimes (fps c)) (chunk d (l.length / d) l)

end model

def buildInst (kind : String) (p : Nat) (rest : List String) : Option Inst := do
  match kind, rest with
  | "fp2", [h, nr, tbl] =>
    let nr ← parseHex? nr; let tbl ← parseList? tbl
    some (instFp2 p h nr tbl)
  | "fp3", [nr, c1, c2] =>
    let nr ← parseHex? nr; let c1 ← parseList? c1; let c2 ← parseList? c2
    some (instFp3 p nr c1 c2)
  | "fp4", [h, nr2, t2, nr4, t4] =>
    let nr2 ← parseHex? nr2; let t2 ← parseList? t2; let nr4 ← parseList? nr4; let t4 ← parseList? t4
    instFp4 p h nr2 t2 nr4 t4
  | "fp6a", [nr3, c1, c2, nr6, t6] =>
    let nr3 ← parseHex? nr3; let c1 ← parseList? c1; let c2 ← parseList? c2
    let nr6 ← parseList? nr6; let t6 ← parseList? t6
    instFp6a p nr3 c1 c2 nr6 t6
  | "fp6b", [h2, nr2, t2, h6, nr6, c1, c2] =>
    let nr2 ← parseHex? nr2; let t2 ← parseList? t2
    let nr6 ← parseList? nr6; let c1 ← parseList? c1; let c2 ← parseList? c2
    instFp6b12 p h2 nr2 t2 h6 nr6 c1 c2 none
  | "fp12", [h2, nr2, t2, h6, nr6, c1, c2, nr12, t12] =>
    let nr2 ← parseHex? nr2; let t2 ← parseList? t2
    let nr6 ← parseList? nr6; let c1 ← parseList? c1; let c2 ← parseList? c2
    let nr12 ← parseList? nr12; let t12 ← parseList? t12
    instFp6b12 p h2 nr2 t2 h6 nr6 c1 c2 (some (nr12, t12))
  | _, _ => none

def run (cache : Cache) (op : String) (args : List String) (impl : String) :
    Option (Cache × String × String) := do
  match op, args with
  | "cfg", id :: kind :: p :: rest =>
    let p ← parseHex? p
    let ring := kind.endsWith "~"
    let I ← buildInst (if ring then (kind.dropEnd 1).toString else kind) p rest
    let I := { I with ringOnly := ring }
    let d := hex I.shape.deg
    some ({ insts := (id, I) :: cache.insts.filter (fun e => e.1 != id) }, d, vs impl d)
  | "charsq6", [limbs] =>
    -- `characteristic_square_mod_6_is_one(limbs)`; spec: the square of the denoted integer is 1 mod 6
    let l ← parseList? limbs
    some (cache, boolStr (charSquareMod6IsOne l), vs impl (boolStr ((value l * value l) % 6 == 1)))
  | _, id :: rest =>
    let I ← (cache.insts.find? (fun e => e.1 == id)).map (·.2)
    let m ← I.model op rest
    let v ← verdict I op rest impl
    some (cache, m, v)
  | _, _ => none

end Ark.DrvC02
