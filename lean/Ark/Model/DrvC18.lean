import Ark.Model.Serial
import Ark.Model.Proto
import Ark.Model.NatSpec
import Ark.Model.Sha256
/-
  Driver dispatch for C18 (containers / wrappers / derived structs of ark-serialize).

  Lines (types / values in the syntax documented in `Ark/Model/Serial.lean`, byte strings as
  contiguous two-digit hex, `_` for the empty string):

    C18 ser <c|u> <ty> <val>            => <hex bytes> <serialized_size (hex)>
        <val> is the construction form (maps / sets as insertion sequences)
    C18 de <tag> <c|u><y|n> <ty> <hex>  => ok <val> <consumed (hex)> | err:<io|invalid|notenough|flags>
                                           | panic | abort | timeout | ok-huge <len> <consumed>
        <tag> = provenance of the byte string, used as the expectation of the spec:
          v  a complete encoding of a valid value in this compress mode      ⇒ ok, all bytes consumed
          x  such an encoding followed by extra bytes                         ⇒ ok, the extra bytes unread
          t  a strict prefix of such an encoding                              ⇒ err:io
          b  an encoding with a bool byte ∉ {0,1} / ill-formed UTF-8          ⇒ err:invalid
          o  a top-level length prefix larger than the rest can supply        ⇒ err (any class)
          i  encoding of a value that fails `check()`                         (no class expectation)
          m  arbitrary mutation                                               (no class expectation)
          z  huge length prefix on a container of zero-width elements         (no class expectation)
        whatever the tag: never panic / abort / hang, `ok` only if the returned value re-encodes to the
        consumed bytes (for types with a unique encoding), every allocation bounded by the input.

  A type token `P<p hex>.<kind>.<ty>` names a type of `ark-poly` (or a container of such) over the prime
  field `F_p`: `<ty>` in the universe `Ark.Serial.Poly.PTy` (leaf `fp`, `gdom(R,M)` = `GeneralEvaluationDomain`),
  `<kind>` selects the well-formedness predicate of the executable spec (`wfKind`): dense, sparse, term,
  mvsparse, dext, sext, r2dom, mrdom, gdom, evals (`fp`, `-`: none).  Additional tag of `de` lines:
          w  decodes to a value violating an invariant of its type  ⇒ under `Validate::Yes` it must be refused
             (`bad:illformed-accepted:<invariant>`); under `Validate::No` accepting it is a `note:`
  Further ops (harness/src/bin/c18.rs): chk, bchk, hash, cser, cde, wfail, rfail, tovec, bbs, puse.

  Resource limits of the harness' child process (`c18.rs`: `ulimit -v 1048576`, 0.4 s watchdog) are
  mirrored by `limits`.  An allocation total in (mem/2, mem] may or may not be refused by the real
  allocator (address space already in use): the model output is then prefixed `any:` (not compared);
  likewise an input-free loop (`Fail.hang`) is printed `any:hang` because its real duration depends
  on the optimiser (LLVM turns `Vec<()>`'s loop into a closed form).  The verdict is unaffected.
-/
namespace Ark.DrvC18
open Ark.Serial Ark.Proto

def limits : Limits := { mem := 2 ^ 30, steps := 2 ^ 16 }

/-! ### parsing -/

def isLowerHex (c : Char) : Bool := ('0' ≤ c && c ≤ '9') || ('a' ≤ c && c ≤ 'f')

/-- contiguous two-digit hex → bytes -/
def parseBytesChars : List Char → Option (List Nat)
  | [] => some []
  | a :: b :: r =>
    match hexDigit? a, hexDigit? b, parseBytesChars r with
    | some x, some y, some bs => some ((16 * x + y) :: bs)
    | _, _, _ => none
  | _ => none

def parseBytes? (s : String) : Option (List Nat) :=
  if s == "_" then some [] else parseBytesChars s.toList

def byteHex (b : Nat) : String := String.ofList [hexChar (b / 16), hexChar (b % 16)]

def bytesHex (bs : List Nat) : String :=
  if bs.isEmpty then "_" else String.join (bs.map byteHex)

def mkLeaf (name : String) : Option Ty :=
  match name with
  | "u8" => some (.int .u8) | "u16" => some (.int .u16) | "u32" => some (.int .u32)
  | "u64" => some (.int .u64) | "usize" => some (.int .usize)
  | "i8" => some (.int .i8) | "i16" => some (.int .i16) | "i32" => some (.int .i32)
  | "i64" => some (.int .i64) | "isize" => some (.int .isize)
  | "bool" => some .bool | "ph" => some .phantom | "ml" => some .ml
  | "str" => some .str | "big" => some .big
  | _ => none

def mkTy (name : String) (args : Option (List Ty)) : Option Ty :=
  match args with
  | none => mkLeaf name
  | some args =>
    match name, args with
    | "opt", [t] => some (.opt t)
    | "tup", ts => some (.tup ts)
    | "st", ts => some (.struct ts)
    | "list", [t] => some (.list t)
    | "slice", [t] => some (.slice t)
    | "map", [k, v] => some (.map k v)
    | "set", [t] => some (.set t)
    | "arc", [t] => some (.wrap .arc t)
    | "cow", [t] => some (.wrap .cow t)
    | "rc", [t] => some (.wrap .rc t)
    | "ref", [t] => some (.wrap .ref t)
    | "mut", [t] => some (.wrap .refmut t)
    | "cu", [t] => some (.pin .cu t)
    | "uu", [t] => some (.pin .uu t)
    | "cc", [t] => some (.pin .cc t)
    | "uc", [t] => some (.pin .uc t)
    | n, [t] =>
      let cs := n.toList
      match cs.take 3, parseHexChars (cs.drop 3) 0 with
      | ['a', 'r', 'r'], some k => if cs.length > 3 then some (.arr k t) else none
      | ['v', 'e', 'c'], some k => if cs.length > 3 then some (.vec k t) else none
      | ['d', 'e', 'q'], some k => if cs.length > 3 then some (.deq k t) else none
      | _, _ => none
    | _, _ => none

mutual
def parseTyC : Nat → List Char → Option (Ty × List Char)
  | 0, _ => none
  | f + 1, cs =>
    let name := String.ofList (cs.takeWhile Char.isAlphanum)
    let rest := cs.dropWhile Char.isAlphanum
    match rest with
    | '(' :: r =>
      match parseTyArgs f r with
      | some (args, r') => (mkTy name (some args)).map (fun t => (t, r'))
      | none => none
    | _ => (mkTy name none).map (fun t => (t, rest))
/-- after '(' ; consumes the closing ')' -/
def parseTyArgs : Nat → List Char → Option (List Ty × List Char)
  | 0, _ => none
  | _ + 1, ')' :: r => some ([], r)
  | f + 1, cs =>
    match parseTyC f cs with
    | some (t, ',' :: r) => (parseTyArgs f r).map (fun (ts, r') => (t :: ts, r'))
    | some (t, ')' :: r) => some ([t], r)
    | _ => none
end

def parseTy? (s : String) : Option Ty :=
  let cs := s.toList
  match parseTyC (cs.length + 1) cs with
  | some (t, []) => some t
  | _ => none

mutual
def parseValC : Nat → List Char → Option (Val × List Char)
  | 0, _ => none
  | f + 1, cs =>
    match cs with
    | 'T' :: r => some (.bool true, r)
    | 'F' :: r => some (.bool false, r)
    | 'N' :: r => some (.none, r)
    | 'S' :: '(' :: r =>
      match parseValC f r with
      | some (v, ')' :: r') => some (.some v, r')
      | _ => none
    | 's' :: r =>
      (parseBytesChars (r.takeWhile isLowerHex)).map (fun bs => (.bytes bs, r.dropWhile isLowerHex))
    | '[' :: r => (parseVals f r).map (fun (vs, r') => (.seq vs, r'))
    | '-' :: r =>
      let ds := r.takeWhile isLowerHex
      if ds.isEmpty then none
      else (parseHexChars ds 0).map (fun n => (.int (-(n : Int)), r.dropWhile isLowerHex))
    | _ =>
      let ds := cs.takeWhile isLowerHex
      if ds.isEmpty then none
      else (parseHexChars ds 0).map (fun n => (.int (n : Int), cs.dropWhile isLowerHex))
/-- after '[' ; consumes the closing ']' -/
def parseVals : Nat → List Char → Option (List Val × List Char)
  | 0, _ => none
  | _ + 1, ']' :: r => some ([], r)
  | f + 1, cs =>
    match parseValC f cs with
    | some (v, ',' :: r) => (parseVals f r).map (fun (vs, r') => (v :: vs, r'))
    | some (v, ']' :: r) => some ([v], r)
    | _ => none
end

def parseVal? (s : String) : Option Val :=
  let cs := s.toList
  match parseValC (cs.length + 1) cs with
  | some (v, []) => some v
  | _ => none

/-! ### printing -/

mutual
def showVal : Val → String
  | .int i => hexInt i
  | .bool b => if b then "T" else "F"
  | .bytes bs => "s" ++ String.join (bs.map byteHex)
  | .none => "N"
  | .some v => "S(" ++ showVal v ++ ")"
  | .seq vs => "[" ++ showVals vs ++ "]"
def showVals : List Val → String
  | [] => ""
  | [v] => showVal v
  | v :: vs => showVal v ++ "," ++ showVals vs
end

def errStr : Err → String
  | .io => "err:io" | .invalid => "err:invalid" | .notenough => "err:notenough" | .flags => "err:flags"

def parseC? (c : Char) : Option Compress :=
  if c == 'c' then some .yes else if c == 'u' then some .no else none
def parseV? (c : Char) : Option Validate :=
  if c == 'y' then some .yes else if c == 'n' then some .no else none

def R.state {α} : R α → St
  | .ok _ s => s
  | .fail _ s => s

/-- some running total of requested bytes lies in the band where the real allocator's answer is
    not determined by the model -/
def grayZone (L : Limits) (evs : List Ev) : Bool :=
  (evs.foldl (fun (acc : Nat × Bool) e =>
    let t := acc.1 + e.bytes
    (t, acc.2 || (e.bytes != 0 && L.mem / 2 < t && t ≤ L.mem))) (0, false)).2

def tyName : Ty → String
  | .int _ => "int" | .bool => "bool" | .phantom => "ph" | .ml => "ml" | .opt _ => "opt"
  | .tup _ => "tup" | .arr _ _ => "arr" | .vec _ _ => "vec" | .deq _ _ => "deq" | .list _ => "list"
  | .slice _ => "slice" | .str => "str" | .big => "big" | .map _ _ => "map" | .set _ => "set"
  | .wrap _ _ => "wrap" | .pin _ _ => "pin" | .struct _ => "st"

/-! ### generic type syntax (for the `P…` tokens) -/

inductive Tree
  | node (name : String) (hasArgs : Bool) (args : List Tree)
  deriving Inhabited

mutual
def parseTreeC : Nat → List Char → Option (Tree × List Char)
  | 0, _ => none
  | f + 1, cs =>
    let name := String.ofList (cs.takeWhile Char.isAlphanum)
    let rest := cs.dropWhile Char.isAlphanum
    match rest with
    | '(' :: r =>
      match parseTreeArgs f r with
      | some (args, r') => some (.node name true args, r')
      | none => none
    | _ => if name.isEmpty then none else some (.node name false [], rest)
def parseTreeArgs : Nat → List Char → Option (List Tree × List Char)
  | 0, _ => none
  | _ + 1, ')' :: r => some ([], r)
  | f + 1, cs =>
    match parseTreeC f cs with
    | some (t, ',' :: r) => (parseTreeArgs f r).map (fun (ts, r') => (t :: ts, r'))
    | some (t, ')' :: r) => some ([t], r)
    | _ => none
end

mutual
def treeTy : Tree → Option Ty
  | .node n false _ => mkTy n none
  | .node n true as => (treeTys as).bind (fun ts => mkTy n (some ts))
def treeTys : List Tree → Option (List Ty)
  | [] => some []
  | a :: as =>
    match treeTy a, treeTys as with
    | some t, some ts => some (t :: ts)
    | _, _ => none
end

open Ark.Serial.Poly in
mutual
def treePTy : Tree → Option PTy
  | .node "fp" false _ => some .fp
  | .node "map" true [k, v] =>
    match treePTy k, treePTy v with
    | some a, some b => some (.map a b)
    | _, _ => none
  | .node "tup" true as => (treePTys as).map .tup
  | .node "st" true as => (treePTys as).map .struct
  | .node "gdom" true [r, m] =>
    match treePTy r, treePTy m with
    | some a, some b => some (.gdom a b)
    | _, _ => none
  | .node "opt" true [a] => (treePTy a).map .opt
  | .node "arc" true [a] => (treePTy a).map .wrap
  | .node "cow" true [a] => (treePTy a).map .wrap
  | .node n true [a] =>
    let cs := n.toList
    match cs.take 3, parseHexChars (cs.drop 3) 0 with
    | ['v', 'e', 'c'], some k =>
      if cs.length > 3 then (treePTy a).map (.vec k) else none
    | ['a', 'r', 'r'], some k =>
      if cs.length > 3 then (treePTy a).map (.arr k) else none
    | _, _ => (treeTy (.node n true [a])).map .old
  | t => (treeTy t).map .old
def treePTys : List Tree → Option (List PTy)
  | [] => some []
  | a :: as =>
    match treePTy a, treePTys as with
    | some t, some ts => some (t :: ts)
    | _, _ => none
end

def parsePTy? (s : String) : Option Poly.PTy :=
  let cs := s.toList
  match parseTreeC (cs.length + 1) cs with
  | some (t, []) => treePTy t
  | _ => none

/-! ### well-formedness of the `ark-poly` values (spec side; nothing of this is looked at by the code) -/

def isZeroVal : Val → Bool
  | .int i => i == 0
  | .seq vs => vs.all (fun v => match v with | .int i => i == 0 | .seq ws => ws.all (fun w => match w with | .int j => j == 0 | _ => false) | _ => false)
  | _ => false

/-- strictly increasing first components of `[[i, _], …]` -/
def strictlyIncreasing : List Int → Bool
  | a :: b :: r => a < b && strictlyIncreasing (b :: r)
  | _ => true

def entryInt : Val → Option Int
  | .seq (.int i :: _) => some i
  | _ => none

def entrySnd : Val → Option Val
  | .seq [_, b] => some b
  | _ => none

/-- `v₂(n)` -/
def twoAdicity : Nat → Nat → Nat
  | 0, _ => 0
  | f + 1, n => if n != 0 && n % 2 == 0 then 1 + twoAdicity f (n / 2) else 0

def stripFactor : Nat → Nat → Nat → Nat
  | 0, n, _ => n
  | f + 1, n, q => if q > 1 && n != 0 && n % q == 0 then stripFactor f (n / q) q else n

/-- least odd `q ≥ 3` below `bound` dividing `n` -/
def leastOddFactor (n bound : Nat) : Option Nat :=
  ((List.range bound).map (fun i => 2 * i + 3)).find? (fun q => n % q == 0)

/-- a `Radix2EvaluationDomain` / `MixedRadixEvaluationDomain` as its constructors (`new`, `get_coset`) leave it -/
def wfDomain (p : Nat) (mixed : Bool) (fs : List Val) : Option String :=
  match fs with
  | [.int size, .int log, .int sfe, .int sinv, .int g, .int ginv, .int off, .int offinv, .int offpow] =>
    let size := size.toNat; let log := log.toNat; let sfe := sfe.toNat; let sinv := sinv.toNat
    let g := g.toNat; let ginv := ginv.toNat; let off := off.toNat; let offinv := offinv.toNat; let offpow := offpow.toNat
    let odd := stripFactor 64 size 2
    let q := if odd == 1 then none else leastOddFactor odd 2048
    let primes : List Nat := (if size % 2 == 0 then [2] else []) ++ (match q with | some q => [q] | none => [])
    if size == 0 then some "size=0"
    else if !mixed && (log ≥ 64 || size != 2 ^ log) then some "size≠2^log_size_of_group"
    else if mixed && twoAdicity 64 size != log then some "log_size_of_group≠v2(size)"
    else if mixed && odd != 1 && (match q with | some q => stripFactor 64 odd q != 1 | none => true) then some "size≠2^a·q^b"
    else if sfe != size % p then some "size_as_field_element≠size"
    else if sinv * sfe % p != 1 % p then some "size_inv·size≠1"
    else if Spec.powMod g size p != 1 % p then some "group_gen^size≠1"
    else if !(primes.all (fun r => Spec.powMod g (size / r) p != 1 % p)) then some "order(group_gen)<size"
    else if g * ginv % p != 1 % p then some "group_gen_inv"
    else if off == 0 then some "offset=0"
    else if off * offinv % p != 1 % p then some "offset_inv"
    else if Spec.powMod off size p != offpow then some "offset_pow_size≠offset^size"
    else none
  | _ => some "shape"

def wfTerm (nv : Option Nat) : Val → Option String
  | .seq [.seq es] =>
    match mapM? entryInt es, mapM? entrySnd es with
    | some vars, some pows =>
      if !strictlyIncreasing vars then some "term: variables not strictly increasing"
      else if pows.any isZeroVal then some "term: zero power"
      else match nv with
        | some n => if vars.any (fun v => v.toNat ≥ n) then some "term: variable ≥ num_vars" else none
        | none => none
    | _, _ => some "shape"
  | _ => some "shape"

/-- `[(var, power), …]` of a term value -/
def termPairs : Val → List (Nat × Nat)
  | .seq [.seq es] => es.filterMap (fun e => match e with | .seq [.int v, .int w] => some (v.toNat, w.toNat) | _ => none)
  | _ => []

/-- `Ord for SparseTerm` (poly/src/polynomial/multivariate/mod.rs:139): total degree first; then, along the
    common prefix, the power where the variables agree, else the LOWER-numbered variable is the greater term -/
def termZipCmp : List (Nat × Nat) → List (Nat × Nat) → Ordering
  | (v1, p1) :: r1, (v2, p2) :: r2 =>
    if v1 == v2 then (if p1 != p2 then compare p1 p2 else termZipCmp r1 r2)
    else compare v2 v1
  | _, _ => .eq
def termCmp (a b : List (Nat × Nat)) : Ordering :=
  let da := (a.map (·.2)).foldl (· + ·) 0
  let db := (b.map (·.2)).foldl (· + ·) 0
  if da == db then termZipCmp a b else compare da db

def termsAscending : List (List (Nat × Nat)) → Bool
  | a :: b :: r => termCmp a b == .lt && termsAscending (b :: r)
  | _ => true

def distinctVals : List Val → Bool
  | [] => true
  | v :: vs => !(vs.any (fun w => Val.beq v w)) && distinctVals vs

def wfKind (p : Nat) (kind : String) (v : Val) : Option String :=
  match kind, v with
  | "dense", .seq [.seq cs] =>
    match cs.getLast? with
    | some c => if isZeroVal c then some "dense: leading coefficient zero" else none
    | none => none
  | "sparse", .seq [.seq es] =>
    match mapM? entryInt es, mapM? entrySnd es with
    | some idx, some cs =>
      if !strictlyIncreasing idx then some "sparse: degrees not strictly increasing"
      else if cs.any isZeroVal then some "sparse: zero coefficient" else none
    | _, _ => some "shape"
  | "term", t => wfTerm none t
  | "mvsparse", .seq [.int nv, .seq ts] =>
    match mapM? (fun t => match t with | .seq [c, tm] => some (c, tm) | _ => none) ts with
    | some cts =>
      match cts.findSome? (fun ct => wfTerm (some nv.toNat) ct.2) with
      | some r => some ("mvsparse: " ++ r)
      | none =>
        if cts.any (fun ct => isZeroVal ct.1) then some "mvsparse: zero coefficient"
        else if !distinctVals (cts.map (·.2)) then some "mvsparse: repeated term"
        else if !termsAscending (cts.map (fun ct => termPairs ct.2)) then some "mvsparse: terms not in ascending order" else none
    | none => some "shape"
  | "dext", .seq [.seq evs, .int nv] =>
    if nv.toNat ≥ 64 then some "dext: num_vars ≥ 64"
    else if evs.length != 2 ^ nv.toNat then some "dext: evaluations.len() ≠ 2^num_vars" else none
  | "sext", .seq [.seq es, .int nv, z] =>
    match mapM? entryInt es with
    | some ks =>
      if !isZeroVal z then some "sext: zero ≠ 0"
      else if nv.toNat ≥ 64 then some "sext: num_vars ≥ 64"
      else if ks.any (fun k => k.toNat ≥ 2 ^ nv.toNat) then some "sext: index ≥ 2^num_vars" else none
    | none => some "shape"
  | "r2dom", .seq fs => wfDomain p false fs
  | "mrdom", .seq fs => wfDomain p true fs
  | "gdom", .seq [.int tag, .seq fs] => wfDomain p (tag == 1) fs
  | "evals", .seq [.seq evs, .seq ds] =>
    let (mixed, fs) := match ds with
      | [.int tag, .seq fs] => (tag == 1, fs)
      | fs => (false, fs)
    -- a radix-2 payload under `Evaluations<F, MixedRadix…>` is judged as mixed by its own log field below
    let mixed := mixed || (match fs with | [.int size, _, _, _, _, _, _, _, _] => stripFactor 64 size.toNat 2 != 1 | _ => false)
    match wfDomain p mixed fs with
    | some r => some ("evals: domain: " ++ r)
    | none =>
      match fs with
      | .int size :: _ => if evs.length != size.toNat then some "evals: evals.len() ≠ domain.size" else none
      | _ => some "shape"
  | "fp", _ => none
  | "-", _ => none
  | _, _ => some "shape"

/-! ### a type of either universe, as the operations the ops need -/

structure Codec where
  name : String
  kind : String
  enc : Compress → Val → Option (List Nat)
  size : Compress → Val → Nat
  dec : Compress → Validate → List Nat → R Val
  check : Val → Bool
  canonical : Bool
  build : Val → Val
  wf : Val → Option String

def codecOfTy (t : Ty) : Codec where
  name := tyName t
  kind := ""
  enc := encode t
  size := size t
  dec := fun c v bs => runDecode limits t c v bs
  check := check t
  canonical := canonical t
  build := build t
  wf := fun _ => none

def codecOfPTy (p : Nat) (kind : String) (t : Poly.PTy) : Codec where
  name := "poly-" ++ kind
  kind := kind
  enc := Poly.pEncode ⟨p⟩ t
  size := Poly.pSize ⟨p⟩ t
  dec := fun c v bs => Poly.pRunDecode limits ⟨p⟩ t c v bs
  check := Poly.pCheck t
  canonical := Poly.pCanonical t
  build := Poly.pBuild t
  wf := wfKind p kind

mutual
/-- the type without its mode-pinning wrappers (`check()` looks through them) -/
def unpin : Ty → Ty
  | .pin _ t => unpin t
  | .opt t => .opt (unpin t)
  | .tup ts => .tup (unpinAll ts)
  | .arr n t => .arr n (unpin t)
  | .vec k t => .vec k (unpin t)
  | .deq k t => .deq k (unpin t)
  | .list t => .list (unpin t)
  | .slice t => .slice (unpin t)
  | .map k v => .map (unpin k) (unpin v)
  | .set t => .set (unpin t)
  | .wrap w t => .wrap w (unpin t)
  | .struct fs => .struct (unpinAll fs)
  | t => t
def unpinAll : List Ty → List Ty
  | [] => []
  | t :: ts => unpin t :: unpinAll ts
end

/-- the codec of the same type with the pinning wrappers removed -/
def parseUnpinned? (s : String) : Option Codec :=
  if s.startsWith "P" then none else (parseTy? s).map (fun t => codecOfTy (unpin t))

def parseCodec? (s : String) : Option Codec :=
  if s.startsWith "P" then
    match s.splitOn "." with
    | [ps, kind, tys] => do
      let p ← parseHex? (ps.drop 1).toString
      let t ← parsePTy? tys
      some (codecOfPTy p kind t)
    | _ => none
  else (parseTy? s).map codecOfTy

/-! ### the executable spec -/

/-- spec for `ser`: reported size = number of bytes written; the bytes read back as the value with
    nothing left over (see `back` below for values that fail `check()`) -/
def judgeSerBytes (K : Codec) (c : Compress) (want : Val) (bs : List Nat) (n : Nat) : String :=
  if n != bs.length then "bad:size reported=" ++ hex n ++ " written=" ++ hex bs.length
  else
    -- reading back, in either validation mode: the value again with nothing left over; a value
    -- that does not pass `check()` may instead be refused with `InvalidData` (under
    -- `Validate::Yes`, or under a `…Checked` pin in any mode)
    let back := fun (vd : Validate) =>
      match K.dec c vd bs with
      | .ok v s =>
        if !s.inp.isEmpty then "bad:roundtrip-leftover"
        else if !(Val.beq v want) then "bad:roundtrip got=" ++ showVal v
        else "ok"
      | .fail (.err .invalid) _ => if K.check want then "bad:valid-value-rejected" else "ok"
      | .fail _ _ => "bad:roundtrip-fail"
    let a := back .no
    if a != "ok" then a
    else
      let b := back .yes
      if b != "ok" then b
      else match K.wf want with
        -- the harness builds `ark-poly` values through the library's constructors: those must satisfy the invariants
        | some r => "bad:constructor-output-illformed:" ++ r
        | none => "ok"

def judgeSer (K : Codec) (c : Compress) (want : Val) (impl : String) : String :=
  match impl.splitOn " " with
  | [hx, sz] =>
    match parseBytes? hx, parseHex? sz with
    | some bs, some n => judgeSerBytes K c want bs n
    | _, _ => "bad:" ++ impl
  | _ => "bad:" ++ impl

def evStr (e : Ev) : String := s!"n={hex e.n},esz={hex e.esz},rem={hex e.rem}"

/-- spec for `de`, applied to the implementation's output -/
def judgeDe (tag : String) (K : Codec) (c : Compress) (vd : Validate) (bs : List Nat) (evs : List Ev) (zwLoop : Bool)
    (impl : String) : String :=
  if impl == "panic" then "bad:panic"
  -- `zwLoop`: the model met a loop over zero-width elements whose trip count comes from the length
  -- prefix alone (`Fail.hang`).  Its cost is independent of the input size by construction of the
  -- format (a `Vec<()>` of 2^40 units *is* 8 bytes); this is outside the property's statement and
  -- recorded as a note, whatever way the real run ends (closed form, watchdog, node allocations).
  else if zwLoop && (impl == "timeout" || impl == "abort") then "note:zero-width-amplification"
  else if impl == "abort" then "bad:abort"
  else if impl == "timeout" then "bad:hang"
  else
    match evs.find? (fun e => !(e.bounded 64 4096)) with
    | some e => "bad:alloc-unbounded " ++ evStr e
    | none =>
      match impl.splitOn " " with
      | ["ok-huge", _, _] => "note:zero-width-amplification"
      | ["ok", vs, ks] =>
        match parseVal? vs, parseHex? ks with
        | some v, some k =>
          if k > bs.length then "bad:consumed-too-much"
          else
            match K.enc c v with
            | none => "bad:ill-typed-value"
            | some re =>
              let same := re == bs.take k
              if !same && K.canonical then "bad:reencode-differs"
              else if tag == "t" then "bad:truncation-accepted"
              else if tag == "b" then "bad:invalid-accepted"
              else if tag == "o" then "bad:oversize-accepted"
              else if tag == "v" && (k != bs.length || !same) then "bad:valid-not-consumed"
              else if tag == "x" && (k ≥ bs.length || !same) then "bad:trailing-consumed"
              else match K.wf v with
                | some r =>
                  if tag == "v" || tag == "x" then "bad:constructor-output-illformed:" ++ r
                  -- accepted although a type invariant of the ark-poly value is violated: recorded, but outside
                  -- C18's statement (which demands equal round trips, exact sizes, and errors instead of panics or
                  -- unbounded allocation for truncated / invalid-bool / invalid-UTF-8 / oversized-prefix input)
                  else if tag == "w" && vd == .yes then "note:illformed-accepted-under-validate:" ++ r
                  else "note:illformed-accepted:" ++ r
                | none =>
                  if tag == "w" then "bad:w-corpus-is-wellformed"
                  else if !same then "note:noncanonical-input"
                  else "ok"
        | _, _ => "bad:" ++ impl
      | [e] =>
        if e == "err:io" || e == "err:invalid" || e == "err:notenough" || e == "err:flags" then
          if tag == "v" || tag == "x" then "bad:valid-rejected"
          else if tag == "t" && e != "err:io" then "bad:truncation-class"
          else if tag == "b" && e != "err:invalid" then "bad:invalid-class"
          else "ok"
        else "bad:" ++ impl
      | _ => "bad:" ++ impl

def parseMode? (mode : String) : Option (Compress × Validate) :=
  match mode.toList with
  | [a, b] => do let c ← parseC? a; let v ← parseV? b; pure (c, v)
  | _ => none

/-- model output and failure class of a deserialiser run -/
def deOut (bs : List Nat) (r : R Val) : String × String :=
  let evs := (R.state r).evs
  let (m, cls) := match r with
    | .ok v s => ("ok " ++ showVal v ++ " " ++ hex (bs.length - s.inp.length), "ok")
    | .fail (.err e) _ => (errStr e, errStr e)
    | .fail .panic _ => ("panic", "panic")
    | .fail .abort _ => ("abort", "abort")
    | .fail .hang _ => ("any:hang", "hang")
  (if grayZone limits evs && !(m.startsWith "any") then "any:" ++ m else m, cls)

def okStr (b : Bool) : String := if b then "ok" else "err:invalid"

/-- spec of `chk` / `bchk`: a value passes `check()` iff (pinning wrappers aside) it can be written and
    read back in checked mode -/
def specValid (K : Codec) (K0 : Codec) (v : Val) : Option Bool :=
  let _ := K
  match K0.enc .yes v with
  | some bs => (match K0.dec .yes .yes bs with | .ok _ _ => some true | .fail (.err .invalid) _ => some false | _ => none)
  | none => none

/-- `buffer_byte_size` / `buffer_bit_byte_size`: `⌈bits/8⌉` -/
def bbsStr (bits : Nat) : String :=
  let bytes := (bits + 7) / 8
  hex (8 * bytes) ++ " " ++ hex bytes ++ " " ++ hex bytes

/-- returns (model output, verdict of the spec on the implementation's output) -/
def run (op : String) (args : List String) (impl : String) : Option (String × String) := do
  match op, args with
  | "ser", [cs, tys, vals] =>
    let c ← match cs.toList with | [ch] => parseC? ch | _ => none
    let K ← parseCodec? tys
    let v0 ← parseVal? vals
    let v := K.build v0
    let m := match K.enc c v with
      | some bs => bytesHex bs ++ " " ++ hex (K.size c v)
      | none => "ill-typed"
    some (m ++ " @ser:" ++ K.name, judgeSer K c v impl)
  | "de", [tag, mode, tys, hx] =>
    let (c, vd) ← parseMode? mode
    let K ← parseCodec? tys
    let bs ← parseBytes? hx
    let r := K.dec c vd bs
    let (m, cls) := deOut bs r
    some (m ++ " @de-" ++ tag ++ ":" ++ cls, judgeDe tag K c vd bs (R.state r).evs (cls == "hang") impl)
  -- the four convenience methods: `deserialize_compressed` = (Yes, Yes), `…_unchecked` = (Yes, No), …
  | "cde", [tag, mode, tys, hx] =>
    let (c, vd) ← parseMode? mode
    let K ← parseCodec? tys
    let bs ← parseBytes? hx
    let r := K.dec c vd bs
    let (m, cls) := deOut bs r
    some (m ++ " @cde-" ++ tag ++ ":" ++ cls, judgeDe tag K c vd bs (R.state r).evs (cls == "hang") impl)
  -- a reader that breaks after `k` bytes behaves like the `k`-byte prefix; `Interrupted` is retried
  | "rfail", [fl, vtag, mode, tys, hx, ks, _chunk] =>
    let (c, vd) ← parseMode? mode
    let K ← parseCodec? tys
    let bs ← parseBytes? hx
    let k ← parseHex? ks
    let inp := if fl == "i" then bs else bs.take k
    let r := K.dec c vd inp
    let (m, cls) := deOut inp r
    -- spec: the complete encoding of a valid value is read back; anything shorter that the format cannot
    -- delimit is an `IoError` (judged as a truncation `t`); never a panic
    let tag := if inp.length == bs.length then vtag else "m"
    let v := judgeDe tag K c vd inp (R.state r).evs (cls == "hang") impl
    let v := if tag == "m" && v == "ok" && cls == "err:io" && impl != "err:io" then "bad:want=err:io" else v
    some (m ++ " @rfail-" ++ fl ++ ":" ++ cls, v)
  | "cser", [tys, vals] =>
    let K ← parseCodec? tys
    let v := K.build (← parseVal? vals)
    let half := fun (c : Compress) => match K.enc c v with
      | some bs => bytesHex bs ++ " " ++ hex (K.size c v)
      | none => "ill-typed"
    let verdict := match impl.splitOn " " with
      | [h1, s1, h2, s2] =>
        match parseBytes? h1, parseHex? s1, parseBytes? h2, parseHex? s2 with
        | some b1, some n1, some b2, some n2 =>
          let a := judgeSerBytes K .yes v b1 n1
          if a != "ok" then "c:" ++ a else
          let b := judgeSerBytes K .no v b2 n2
          if b != "ok" then "u:" ++ b else "ok"
        | _, _, _, _ => "bad:" ++ impl
      | _ => "bad:" ++ impl
    some (half .yes ++ " " ++ half .no ++ " @cser:" ++ K.name, verdict)
  | "hash", [cs, tys, vals] =>
    let c ← match cs.toList with | [ch] => parseC? ch | _ => none
    let K ← parseCodec? tys
    let v := K.build (← parseVal? vals)
    let m := match K.enc c v with
      | some bs => String.join ((Ark.Sha256.sha256 bs).map byteHex)
      | none => "ill-typed"
    -- spec: SHA-256 of a byte string that reads back (in this mode) as the value
    some (m ++ " @hash:" ++ K.name, if impl == m then "ok" else "bad:want=" ++ m)
  | "chk", [tys, vals] =>
    let K ← parseCodec? tys
    let v := K.build (← parseVal? vals)
    let m := okStr (K.check v)
    let K0 := (parseUnpinned? tys).getD K
    let want := match specValid K K0 v with | some b => okStr b | none => "?"
    some (m ++ " @chk:" ++ K.name, if impl == want then "ok" else "bad:want=" ++ want)
  | "bchk", [tys, vals] =>
    let K ← parseCodec? tys
    let vs ← match ← parseVal? vals with | .seq vs => some vs | _ => none
    let vs := vs.map K.build
    let m := okStr (vs.all K.check)
    let K0 := (parseUnpinned? tys).getD K
    let want := okStr (vs.all (fun v => specValid K K0 v == some true))
    some (m ++ " @bchk:" ++ K.name, if impl == want then "ok" else "bad:want=" ++ want)
  | "wfail", [fl, cs, tys, vals, ks] =>
    let c ← match cs.toList with | [ch] => parseC? ch | _ => none
    let K ← parseCodec? tys
    let v := K.build (← parseVal? vals)
    let k ← parseHex? ks
    let bs ← K.enc c v
    let (written, failed) := encodeInto k bs
    let m := (if failed then "err:io " else "ok ") ++ bytesHex written
    -- spec: `Ok` iff the writer took the whole encoding; otherwise `IoError` and what was handed over is a
    -- prefix of the encoding, as long as the writer's capacity
    let verdict :=
      if impl == "panic" then "bad:panic" else
      match impl.splitOn " " with
      | [st, hx] =>
        match parseBytes? hx with
        | some w =>
          if w != bs.take w.length then "bad:not-a-prefix"
          else if st == "ok" then (if w == bs then "ok" else "bad:ok-but-incomplete")
          else if st == "err:io" then (if k ≥ bs.length then "bad:error-with-room" else if w.length != k then "bad:written≠capacity" else "ok")
          else "bad:error-class"
        | none => "bad:" ++ impl
      | _ => "bad:" ++ impl
    some (m ++ " @wfail-" ++ fl ++ ":" ++ (if failed then "err" else "ok"), verdict)
  | "tovec", [tys, vals] =>
    let K ← parseCodec? tys
    let v := K.build (← parseVal? vals)
    -- as coded: every item through `serialize_uncompressed`
    let m := match K.enc .no v with | some bs => bytesHex bs | none => "ill-typed"
    -- as documented: "identical to the value of `buf` after `(a, b, c, d, e).serialize_compressed(&mut buf)`"
    let want := match K.enc .yes v with | some bs => bytesHex bs | none => "ill-typed"
    -- the doc comment and the code disagree (documentation defect, not part of C18's statement): `note:`
    some (m ++ " @tovec", if impl == want then "ok"
      else if impl == m then "note:doc-says-compressed-code-writes-uncompressed"
      else "bad:neither-compressed-nor-uncompressed want=" ++ want)
  | "bbs", [bits] =>
    let b ← parseHex? bits
    let m := bbsStr b
    some (m, if impl == m then "ok" else "bad:want=" ++ m)
  | "puse", [what, tys, hx] =>
    let K ← parseCodec? tys
    let bs ← parseBytes? hx
    -- the methods themselves are modelled elsewhere (C07, C08, C17) for well-formed values only: the model
    -- output is not compared; the verdict is about the implementation: having accepted the bytes under
    -- `Validate::Yes`, a total public method must not panic
    let acc := match K.dec .yes .yes bs with | .ok v _ => (K.wf v).getD "well-formed" | _ => "rejected"
    some ("any:unmodelled " ++ what ++ " @puse:" ++ acc,
      if impl == "panic" then
        (if acc == "well-formed" then "bad:panic-on-wellformed-value" else "note:panic-after-accepting-illformed:" ++ acc)
      else "ok")
  | _, _ => none

end Ark.DrvC18
