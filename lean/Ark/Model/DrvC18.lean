import Ark.Model.Serial
import Ark.Model.Proto
/-
  Driver dispatch for C18 (containers / wrappers / derived structs of ark-serialize).

  Lines (types / values in the syntax documented in `Ark/Model/Serial.lean`, byte strings as
  contiguous two-digit hex, `_` for the empty string):

    C18 ser <c|u> <ty> <val>            => <hex bytes> <serialized_size (hex)>
        <val> is the construction form (maps / sets as insertion sequences)
    C18 de <tag> <c|u><y|n> <ty> <hex>  => ok <val> <consumed (hex)> | err:<io|invalid|notenough|flags>
                                           | panic | abort | timeout | ok-huge <len> <consumed>
        <tag> = provenance of the byte string, used as the expectation of the spec:
          v  a complete encoding of a valid value in this compress mode      ⇒ ok, all bytes consumed
          x  such an encoding followed by extra bytes                         ⇒ ok, the extra bytes unread
          t  a strict prefix of such an encoding                              ⇒ err:io
          b  an encoding with a bool byte ∉ {0,1} / ill-formed UTF-8          ⇒ err:invalid
          o  a top-level length prefix larger than the rest can supply        ⇒ err (any class)
          i  encoding of a value that fails `check()`                         (no class expectation)
          m  arbitrary mutation                                               (no class expectation)
          z  huge length prefix on a container of zero-width elements         (no class expectation)
        whatever the tag: never panic / abort / hang, `ok` only if the returned value re-encodes to the
        consumed bytes (for types with a unique encoding), every allocation bounded by the input.

  Resource limits of the harness' child process (`c18.rs`: `ulimit -v 1048576`, 0.4 s watchdog) are
  mirrored by `limits`.  An allocation total in (mem/2, mem] may or may not be refused by the real
  allocator (address space already in use): the model output is then prefixed `any:` (not compared);
  likewise an input-free loop (`Fail.hang`) is printed `any:hang` because its real duration depends
  on the optimiser (LLVM turns `Vec<()>`'s loop into a closed form).  The verdict is unaffected.
-/
namespace Ark.DrvC18
open Ark.Serial Ark.Proto

def limits : Limits := { mem := 2 ^ 30, steps := 2 ^ 16 }

/-! ### parsing -/

def isLowerHex (c : Char) : Bool := ('0' ≤ c && c ≤ '9') || ('a' ≤ c && c ≤ 'f')

/-- contiguous two-digit hex → bytes -/
def parseBytesChars : List Char → Option (List Nat)
  | [] => some []
  | a :: b :: r =>
    match hexDigit? a, hexDigit? b, parseBytesChars r with
    | some x, some y, some bs => some ((16 * x + y) :: bs)
    | _, _, _ => none
  | _ => none

def parseBytes? (s : String) : Option (List Nat) :=
  if s == "_" then some [] else parseBytesChars s.toList

def byteHex (b : Nat) : String := String.ofList [hexChar (b / 16), hexChar (b % 16)]

def bytesHex (bs : List Nat) : String :=
  if bs.isEmpty then "_" else String.join (bs.map byteHex)

def mkLeaf (name : String) : Option Ty :=
  match name with
  | "u8" => some (.int .u8) | "u16" => some (.int .u16) | "u32" => some (.int .u32)
  | "u64" => some (.int .u64) | "usize" => some (.int .usize)
  | "i8" => some (.int .i8) | "i16" => some (.int .i16) | "i32" => some (.int .i32)
  | "i64" => some (.int .i64) | "isize" => some (.int .isize)
  | "bool" => some .bool | "ph" => some .phantom | "ml" => some .ml
  | "str" => some .str | "big" => some .big
  | _ => none

def mkTy (name : String) (args : Option (List Ty)) : Option Ty :=
  match args with
  | none => mkLeaf name
  | some args =>
    match name, args with
    | "opt", [t] => some (.opt t)
    | "tup", ts => some (.tup ts)
    | "st", ts => some (.struct ts)
    | "list", [t] => some (.list t)
    | "slice", [t] => some (.slice t)
    | "map", [k, v] => some (.map k v)
    | "set", [t] => some (.set t)
    | "arc", [t] => some (.wrap .arc t)
    | "cow", [t] => some (.wrap .cow t)
    | "rc", [t] => some (.wrap .rc t)
    | "ref", [t] => some (.wrap .ref t)
    | "mut", [t] => some (.wrap .refmut t)
    | "cu", [t] => some (.pin .cu t)
    | "uu", [t] => some (.pin .uu t)
    | "cc", [t] => some (.pin .cc t)
    | "uc", [t] => some (.pin .uc t)
    | n, [t] =>
      let cs := n.toList
      match cs.take 3, parseHexChars (cs.drop 3) 0 with
      | ['a', 'r', 'r'], some k => if cs.length > 3 then some (.arr k t) else none
      | ['v', 'e', 'c'], some k => if cs.length > 3 then some (.vec k t) else none
      | ['d', 'e', 'q'], some k => if cs.length > 3 then some (.deq k t) else none
      | _, _ => none
    | _, _ => none

mutual
def parseTyC : Nat → List Char → Option (Ty × List Char)
  | 0, _ => none
  | f + 1, cs =>
    let name := String.ofList (cs.takeWhile Char.isAlphanum)
    let rest := cs.dropWhile Char.isAlphanum
    match rest with
    | '(' :: r =>
      match parseTyArgs f r with
      | some (args, r') => (mkTy name (some args)).map (fun t => (t, r'))
      | none => none
    | _ => (mkTy name none).map (fun t => (t, rest))
/-- after '(' ; consumes the closing ')' -/
def parseTyArgs : Nat → List Char → Option (List Ty × List Char)
  | 0, _ => none
  | _ + 1, ')' :: r => some ([], r)
  | f + 1, cs =>
    match parseTyC f cs with
    | some (t, ',' :: r) => (parseTyArgs f r).map (fun (ts, r') => (t :: ts, r'))
    | some (t, ')' :: r) => some ([t], r)
    | _ => none
end

def parseTy? (s : String) : Option Ty :=
  let cs := s.toList
  match parseTyC (cs.length + 1) cs with
  | some (t, []) => some t
  | _ => none

mutual
def parseValC : Nat → List Char → Option (Val × List Char)
  | 0, _ => none
  | f + 1, cs =>
    match cs with
    | 'T' :: r => some (.bool true, r)
    | 'F' :: r => some (.bool false, r)
    | 'N' :: r => some (.none, r)
    | 'S' :: '(' :: r =>
      match parseValC f r with
      | some (v, ')' :: r') => some (.some v, r')
      | _ => none
    | 's' :: r =>
      (parseBytesChars (r.takeWhile isLowerHex)).map (fun bs => (.bytes bs, r.dropWhile isLowerHex))
    | '[' :: r => (parseVals f r).map (fun (vs, r') => (.seq vs, r'))
    | '-' :: r =>
      let ds := r.takeWhile isLowerHex
      if ds.isEmpty then none
      else (parseHexChars ds 0).map (fun n => (.int (-(n : Int)), r.dropWhile isLowerHex))
    | _ =>
      let ds := cs.takeWhile isLowerHex
      if ds.isEmpty then none
      else (parseHexChars ds 0).map (fun n => (.int (n : Int), cs.dropWhile isLowerHex))
/-- after '[' ; consumes the closing ']' -/
def parseVals : Nat → List Char → Option (List Val × List Char)
  | 0, _ => none
  | _ + 1, ']' :: r => some ([], r)
  | f + 1, cs =>
    match parseValC f cs with
    | some (v, ',' :: r) => (parseVals f r).map (fun (vs, r') => (v :: vs, r'))
    | some (v, ']' :: r) => some ([v], r)
    | _ => none
end

def parseVal? (s : String) : Option Val :=
  let cs := s.toList
  match parseValC (cs.length + 1) cs with
  | some (v, []) => some v
  | _ => none

/-! ### printing -/

mutual
def showVal : Val → String
  | .int i => hexInt i
  | .bool b => if b then "T" else "F"
  | .bytes bs => "s" ++ String.join (bs.map byteHex)
  | .none => "N"
  | .some v => "S(" ++ showVal v ++ ")"
  | .seq vs => "[" ++ showVals vs ++ "]"
def showVals : List Val → String
  | [] => ""
  | [v] => showVal v
  | v :: vs => showVal v ++ "," ++ showVals vs
end

def errStr : Err → String
  | .io => "err:io" | .invalid => "err:invalid" | .notenough => "err:notenough" | .flags => "err:flags"

def parseC? (c : Char) : Option Compress :=
  if c == 'c' then some .yes else if c == 'u' then some .no else none
def parseV? (c : Char) : Option Validate :=
  if c == 'y' then some .yes else if c == 'n' then some .no else none

def R.state {α} : R α → St
  | .ok _ s => s
  | .fail _ s => s

/-- some running total of requested bytes lies in the band where the real allocator's answer is
    not determined by the model -/
def grayZone (L : Limits) (evs : List Ev) : Bool :=
  (evs.foldl (fun (acc : Nat × Bool) e =>
    let t := acc.1 + e.bytes
    (t, acc.2 || (e.bytes != 0 && L.mem / 2 < t && t ≤ L.mem))) (0, false)).2

def tyName : Ty → String
  | .int _ => "int" | .bool => "bool" | .phantom => "ph" | .ml => "ml" | .opt _ => "opt"
  | .tup _ => "tup" | .arr _ _ => "arr" | .vec _ _ => "vec" | .deq _ _ => "deq" | .list _ => "list"
  | .slice _ => "slice" | .str => "str" | .big => "big" | .map _ _ => "map" | .set _ => "set"
  | .wrap _ _ => "wrap" | .pin _ _ => "pin" | .struct _ => "st"

/-! ### the executable spec -/

/-- spec for `ser`: reported size = number of bytes written; the bytes read back as the value with
    nothing left over (see `back` below for values that fail `check()`) -/
def judgeSer (t : Ty) (c : Compress) (want : Val) (impl : String) : String :=
  match impl.splitOn " " with
  | [hx, sz] =>
    match parseBytes? hx, parseHex? sz with
    | some bs, some n =>
      if n != bs.length then "bad:size reported=" ++ hex n ++ " written=" ++ hex bs.length
      else
        -- reading back, in either validation mode: the value again with nothing left over; a value
        -- that does not pass `check()` may instead be refused with `InvalidData` (under
        -- `Validate::Yes`, or under a `…Checked` pin in any mode)
        let back := fun (vd : Validate) =>
          match runDecode limits t c vd bs with
          | .ok v s =>
            if !s.inp.isEmpty then "bad:roundtrip-leftover"
            else if !(Val.beq v want) then "bad:roundtrip got=" ++ showVal v
            else "ok"
          | .fail (.err .invalid) _ => if check t want then "bad:valid-value-rejected" else "ok"
          | .fail _ _ => "bad:roundtrip-fail"
        let a := back .no
        if a != "ok" then a else back .yes
    | _, _ => "bad:" ++ impl
  | _ => "bad:" ++ impl

def evStr (e : Ev) : String := s!"n={hex e.n},esz={hex e.esz},rem={hex e.rem}"

/-- spec for `de`, applied to the implementation's output -/
def judgeDe (tag : String) (t : Ty) (c : Compress) (bs : List Nat) (evs : List Ev) (zwLoop : Bool)
    (impl : String) : String :=
  if impl == "panic" then "bad:panic"
  -- `zwLoop`: the model met a loop over zero-width elements whose trip count comes from the length
  -- prefix alone (`Fail.hang`).  Its cost is independent of the input size by construction of the
  -- format (a `Vec<()>` of 2^40 units *is* 8 bytes); this is outside the property's statement and
  -- recorded as a note, whatever way the real run ends (closed form, watchdog, node allocations).
  else if zwLoop && (impl == "timeout" || impl == "abort") then "note:zero-width-amplification"
  else if impl == "abort" then "bad:abort"
  else if impl == "timeout" then "bad:hang"
  else
    match evs.find? (fun e => !(e.bounded 64 4096)) with
    | some e => "bad:alloc-unbounded " ++ evStr e
    | none =>
      match impl.splitOn " " with
      | ["ok-huge", _, _] => "note:zero-width-amplification"
      | ["ok", vs, ks] =>
        match parseVal? vs, parseHex? ks with
        | some v, some k =>
          if k > bs.length then "bad:consumed-too-much"
          else
            match encode t c v with
            | none => "bad:ill-typed-value"
            | some re =>
              let same := re == bs.take k
              if !same && canonical t then "bad:reencode-differs"
              else if tag == "t" then "bad:truncation-accepted"
              else if tag == "b" then "bad:invalid-accepted"
              else if tag == "o" then "bad:oversize-accepted"
              else if tag == "v" && (k != bs.length || !same) then "bad:valid-not-consumed"
              else if tag == "x" && (k ≥ bs.length || !same) then "bad:trailing-consumed"
              else if !same then "note:noncanonical-input"
              else "ok"
        | _, _ => "bad:" ++ impl
      | [e] =>
        if e == "err:io" || e == "err:invalid" || e == "err:notenough" || e == "err:flags" then
          if tag == "v" || tag == "x" then "bad:valid-rejected"
          else if tag == "t" && e != "err:io" then "bad:truncation-class"
          else if tag == "b" && e != "err:invalid" then "bad:invalid-class"
          else "ok"
        else "bad:" ++ impl
      | _ => "bad:" ++ impl

/-- returns (model output, verdict of the spec on the implementation's output) -/
def run (op : String) (args : List String) (impl : String) : Option (String × String) := do
  match op, args with
  | "ser", [cs, tys, vals] =>
    let c ← match cs.toList with | [ch] => parseC? ch | _ => none
    let t ← parseTy? tys
    let v0 ← parseVal? vals
    let v := build t v0
    let m := match encode t c v with
      | some bs => bytesHex bs ++ " " ++ hex (size t c v)
      | none => "ill-typed"
    some (m ++ " @ser:" ++ tyName t, judgeSer t c v impl)
  | "de", [tag, mode, tys, hx] =>
    let (c, vd) ← match mode.toList with
      | [a, b] => do let c ← parseC? a; let v ← parseV? b; pure (c, v)
      | _ => none
    let t ← parseTy? tys
    let bs ← parseBytes? hx
    let r := runDecode limits t c vd bs
    let evs := (R.state r).evs
    let (m, cls) := match r with
      | .ok v s => ("ok " ++ showVal v ++ " " ++ hex (bs.length - s.inp.length), "ok")
      | .fail (.err e) _ => (errStr e, errStr e)
      | .fail .panic _ => ("panic", "panic")
      | .fail .abort _ => ("abort", "abort")
      | .fail .hang _ => ("any:hang", "hang")
    let m := if grayZone limits evs && !(m.startsWith "any") then "any:" ++ m else m
    some (m ++ " @de-" ++ tag ++ ":" ++ cls, judgeDe tag t c bs evs (cls == "hang") impl)
  | _, _ => none

end Ark.DrvC18
